/-
  C02, clause 3 with end-of-line comments, part d: the statement loop of `parseToFile` on a well-shaped tree
  WITH end-of-line comments: the rewritten tree is well-shaped again (and its commented lines still have no
  newline byte in their tokens), and the loop can be replayed on every tree that is the normal form
  (`normExprE`) of the rewritten tree up to positions — in particular on the re-parse of its formatted text.
-/
import ModVerif.Proofs.ModfileEolDir2
import ModVerif.Proofs.ModfileEolLines
namespace ModVerif.Proofs.ModfileEol
open ModVerif ModVerif.Modfile ModVerif.Proofs.ModfileFmtLex ModVerif.Proofs.ModfileFmtLine
open ModVerif.Proofs.ModfileFmtFix ModVerif.Proofs.ModfileFmtTree ModVerif.Proofs.ModfileFmtParse
open ModVerif.Proofs.ModfileFmtDir ModVerif.Proofs.ModfileFmtMain

/-! ### `isIndirect` of the re-parsed line -/

theorem isIndirect_of_norm (l l' : Line) (hs : SufOK l.comments.suffix)
    (h : l'.comments.suffix.map eraseC = l.comments.suffix.map normC) : isIndirect l' = isIndirect l := by
  rcases sufOK_cases hs with h0 | ⟨c, hc, hok, _⟩
  · rw [h0] at h
    have : l'.comments.suffix = [] := by simpa using h
    rw [isIndirect_nil l h0, isIndirect_nil l' this]
  · rw [hc] at h
    cases hl' : l'.comments.suffix with
    | nil => rw [hl'] at h; simp at h
    | cons c' r' =>
      rw [hl'] at h
      simp only [List.map_cons, List.map_nil, List.cons.injEq, List.map_eq_nil_iff] at h
      have ht : c'.token = GoStrings.trimSpace c.token := by
        have := congrArg Comment.token h.1
        simpa [eraseC, normC] using this
      unfold isIndirect
      rw [hl', hc]
      simp only
      rw [ht, fields_comment_trim hok]

theorem nlLine_rewrite {l : Line} {toks : List Bytes} (hnl : NlLine l)
    (h : ∀ t ∈ toks, t ∈ l.token ∨ (10 : UInt8) ∉ t) : NlLine { l with token := toks } := by
  intro hne t ht
  rcases h t ht with h1 | h1
  · exact hnl hne t h1
  · exact h1

/-! ### block lines -/

theorem addBlockLines_replayE (block : Comments) (verb : Bytes) (fix : Option Fixer) (hfix : FixOK fix)
    (hne : FixNE fix) : ∀ (ls : List Line) (allow : Bool) (st st1 : AddState) (ls1 : List Line),
    addBlockLines block verb fix true st ls = (st1, ls1) → st1.errsRev = [] → WellFormed st1.file →
    EWFBlkLines allow ls → (∀ l ∈ ls, NlLine l) →
    EWFBlkLines allow ls1 ∧ (∀ l ∈ ls1, NlLine l) ∧ ls1.length = ls.length ∧ WellFormed st.file ∧ st.errsRev = [] ∧
    ∀ (st' : AddState) (block' : Comments) (ls' : List Line), Sim st st' → ls'.map eraseLine = ls1.map normLine →
      ∃ st1', addBlockLines block' verb fix true st' ls' = (st1', ls') ∧ Sim st1 st1' := by
  intro ls
  induction ls with
  | nil =>
    intro allow st st1 ls1 h he hwf _ _
    simp only [addBlockLines, Prod.mk.injEq] at h
    obtain ⟨rfl, rfl⟩ := h
    refine ⟨trivial, (by intro l hl; cases hl), rfl, hwf, he, ?_⟩
    intro st' block' ls' hsim hrel
    have : ls' = [] := by simpa using hrel
    subst this
    exact ⟨st', rfl, hsim⟩
  | cons l ls ih =>
    intro allow st st1 ls1 h he hwf hwfl hnl
    obtain ⟨hl, hls⟩ := hwfl
    simp only [addBlockLines] at h
    cases hstep : File.add st (some block) l verb l.token fix true with
    | mk stm toks =>
      cases hrest : addBlockLines block verb fix true stm ls with
      | mk st2 ls2 =>
        simp only [hstep, hrest, Prod.mk.injEq] at h
        obtain ⟨rfl, rfl⟩ := h
        obtain ⟨hwl2, hnl2, hlen2, hwfm, hem, hreplay2⟩ := ih true stm st2 ls2 hrest he hwf hls
          (fun l' h' => hnl l' (by simp [h']))
        obtain ⟨hsok, hwf0, hargs, hane, hanl⟩ := add_stepE st stm (some block) l verb l.token toks fix hstep hem hfix hne
          hwfm hl.tok
        refine ⟨⟨?_, hwl2⟩, ?_, by simp [hlen2], hwf0, hsok.errs, ?_⟩
        · refine ⟨hane, fun t ht => (hargs t ht).1, ?_, hl.before, hl.suffix, hl.after, hl.inBlock⟩
          cases toks with
          | nil => exact absurd rfl hane
          | cons t0 tr =>
            simp only [List.head?_cons, ne_eq, Option.some.injEq]
            exact (hargs t0 (by simp)).2.2
        · intro l' hl'
          rcases List.mem_cons.1 hl' with rfl | hl'
          · exact nlLine_rewrite (hnl l (by simp)) hanl
          · exact hnl2 l' hl'
        · intro st' block' ls' hsim hrel
          cases ls' with
          | nil => simp at hrel
          | cons l' ls'' =>
            simp only [List.map_cons, List.cons.injEq] at hrel
            obtain ⟨hl', hrel'⟩ := hrel
            have htok' : l'.token = toks := by
              have := congrArg Line.token hl'
              simpa [eraseLine, normLine] using this
            have hind' : isIndirect l' = isIndirect l := by
              apply isIndirect_of_norm l l' hl.suffix
              have := congrArg (fun x : Line => x.comments.suffix) hl'
              simpa [eraseLine, normLine, eraseCs, normCs] using this
            obtain ⟨stm', hadd', hsim'⟩ := hsok.replay st' (some block') l' hsim hind'
            obtain ⟨st2', hrest', hsim2⟩ := hreplay2 stm' block' ls'' hsim' hrel'
            refine ⟨st2', ?_, hsim2⟩
            simp only [addBlockLines, htok', hadd', hrest']
            congr 2
            cases l'
            simp only at htok'
            subst htok'
            rfl

/-! ### the statement loop -/

theorem ewfBlkLines_nonempty_eq {ls1 ls : List Line} (h : ls1.length = ls.length) : ls1.isEmpty = ls.isEmpty := by
  cases ls1 <;> cases ls <;> simp_all

theorem addStmts_replayE (fix : Option Fixer) (hfix : FixOK fix) (hne : FixNE fix) :
    ∀ (ss : List Expr) (st st1 : AddState) (ss1 : List Expr),
    addStmts fix true st ss = (st1, ss1) → st1.errsRev = [] → WellFormed st1.file → EWFStmts ss →
    (∀ s ∈ ss, NlOK s) →
    EWFStmts ss1 ∧ (∀ s ∈ ss1, NlOK s) ∧ WellFormed st.file ∧ st.errsRev = [] ∧
    ∀ (st' : AddState) (ss' : List Expr), Sim st st' → ss'.map eraseExpr = ss1.map normExprE →
      ∃ st1', addStmts fix true st' ss' = (st1', ss') ∧ Sim st1 st1' := by
  intro ss
  induction ss with
  | nil =>
    intro st st1 ss1 h he hwf _ _
    simp only [addStmts, Prod.mk.injEq] at h
    obtain ⟨rfl, rfl⟩ := h
    refine ⟨fun s hs => by simp at hs, fun s hs => by simp at hs, hwf, he, ?_⟩
    intro st' ss' hsim hrel
    have : ss' = [] := by simpa using hrel
    subst this
    exact ⟨st', rfl, hsim⟩
  | cons x xs ih =>
    intro st st1 ss1 h he hwf hwfs hnls
    have hx : EWFStmt x := hwfs x (by simp)
    have hxs : EWFStmts xs := fun s hs => hwfs s (by simp [hs])
    have hnx : NlOK x := hnls x (by simp)
    have hnxs : ∀ s ∈ xs, NlOK s := fun s hs => hnls s (by simp [hs])
    cases x with
    | commentBlock c =>
      simp only [addStmts] at h
      cases hrest : addStmts fix true st xs with
      | mk st2 xs2 =>
        simp only [hrest, Prod.mk.injEq] at h
        obtain ⟨rfl, rfl⟩ := h
        obtain ⟨hw2, hn2, hwf0, he0, hrep⟩ := ih st st2 xs2 hrest he hwf hxs hnxs
        refine ⟨?_, ?_, hwf0, he0, ?_⟩
        · intro s hs
          rcases List.mem_cons.1 hs with rfl | hs
          · exact hx
          · exact hw2 s hs
        · intro s hs
          rcases List.mem_cons.1 hs with rfl | hs
          · trivial
          · exact hn2 s hs
        · intro st' ss' hsim hrel
          cases ss' with
          | nil => simp at hrel
          | cons s' ss'' =>
            simp only [List.map_cons, List.cons.injEq] at hrel
            obtain ⟨hs', hrel'⟩ := hrel
            obtain ⟨st2', hr', hsim'⟩ := hrep st' ss'' hsim hrel'
            cases s' with
            | commentBlock c' =>
              refine ⟨st2', ?_, hsim'⟩
              simp only [addStmts, hr']
            | line _ => simp [eraseExpr, normExprE, normExpr] at hs'
            | lineBlock _ => simp [eraseExpr, normExprE, normExpr] at hs'
            | lparen _ => simp [eraseExpr, normExprE, normExpr] at hs'
            | rparen _ => simp [eraseExpr, normExprE, normExpr] at hs'
    | line l =>
      have hl : EWFLine l := hx
      have hnl : NlLine l := hnx
      obtain ⟨verb, args, htok⟩ : ∃ verb args, l.token = verb :: args := by
        cases ht : l.token with
        | nil => exact absurd ht hl.ne
        | cons a b => exact ⟨a, b, rfl⟩
      simp only [addStmts, htok] at h
      cases hstep : File.add st none l verb args fix true with
      | mk stm args1 =>
        cases hrest : addStmts fix true stm xs with
        | mk st2 xs2 =>
          simp only [hstep, hrest, Prod.mk.injEq] at h
          obtain ⟨rfl, rfl⟩ := h
          obtain ⟨hw2, hn2, hwfm, hem, hrep⟩ := ih stm st2 xs2 hrest he hwf hxs hnxs
          have horig : ∀ t ∈ args, TokText t := fun t ht => hl.tok t (by rw [htok]; simp [ht])
          obtain ⟨hsok, hwf0, hargs, _, hanl⟩ := add_stepE st stm none l verb args args1 fix hstep hem hfix hne
            hwfm horig
          refine ⟨?_, ?_, hwf0, hsok.errs, ?_⟩
          · intro s hs
            rcases List.mem_cons.1 hs with rfl | hs
            · show EWFLine _
              refine ⟨by simp, ?_, ?_, hl.before, hl.suffix, hl.after, hl.inBlock⟩
              · intro t ht
                simp only [List.mem_cons] at ht
                rcases ht with rfl | ht
                · exact hl.tok t (by rw [htok]; simp)
                · exact (hargs t ht).1
              · simp only [List.tail_cons]
                exact lineTailOK_no_lparen args1 (fun t ht => (hargs t ht).2.1)
            · exact hw2 s hs
          · intro s hs
            rcases List.mem_cons.1 hs with rfl | hs
            · show NlLine _
              apply nlLine_rewrite hnl
              intro t ht
              simp only [List.mem_cons] at ht
              rcases ht with rfl | ht
              · exact Or.inl (by rw [htok]; simp)
              · rcases hanl t ht with h1 | h1
                · exact Or.inl (by rw [htok]; simp [h1])
                · exact Or.inr h1
            · exact hn2 s hs
          · intro st' ss' hsim hrel
            cases ss' with
            | nil => simp at hrel
            | cons s' ss'' =>
              simp only [List.map_cons, List.cons.injEq] at hrel
              obtain ⟨hs', hrel'⟩ := hrel
              cases s' with
              | line l' =>
                simp only [eraseExpr, normExprE, normExpr, Expr.line.injEq] at hs'
                have htok' : l'.token = verb :: args1 := by
                  have := congrArg Line.token hs'
                  simpa [eraseLine, normLine] using this
                have hind' : isIndirect l' = isIndirect l := by
                  apply isIndirect_of_norm l l' hl.suffix
                  have := congrArg (fun x : Line => x.comments.suffix) hs'
                  simpa [eraseLine, normLine, eraseCs, normCs] using this
                obtain ⟨stm', hadd', hsim'⟩ := hsok.replay st' none l' hsim hind'
                obtain ⟨st2', hr', hsim2⟩ := hrep stm' ss'' hsim' hrel'
                refine ⟨st2', ?_, hsim2⟩
                simp only [addStmts, htok', hadd', hr']
                congr 3
                cases l'
                simp only at htok'
                subst htok'
                rfl
              | commentBlock _ => simp [eraseExpr, normExprE, normExpr] at hs'
              | lineBlock _ => simp [eraseExpr, normExprE, normExpr] at hs'
              | lparen _ => simp [eraseExpr, normExprE, normExpr] at hs'
              | rparen _ => simp [eraseExpr, normExprE, normExpr] at hs'
    | lineBlock b =>
      have hb : EWFBlock b := hx
      have hnb : ∀ l ∈ b.lines, NlLine l := hnx
      simp only [addStmts] at h
      -- an error-free strict run accepts the block only if its header is one known verb
      have hem : ∀ (stm : AddState) (st2 : AddState) (xs2 : List Expr),
          addStmts fix true stm xs = (st2, xs2) → st2.errsRev = [] → stm.errsRev = [] := by
        intro stm st2 xs2 hr he2
        have := addStmts_errs_mono fix true xs stm
        rw [hr] at this
        exact nil_of_suffix_nil this he2
      cases hbt : b.token with
      | nil => exact absurd hbt hb.ne
      | cons verb rest =>
        cases rest with
        | cons r0 rs =>
          exfalso
          simp only [hbt] at h
          cases hrest : addStmts fix true (st.err b.start .unknownBlock) xs with
          | mk st2 xs2 =>
            simp only [hrest, Prod.mk.injEq, if_true] at h
            obtain ⟨rfl, _⟩ := h
            exact err_ne_nil _ _ _ (hem _ _ _ hrest he)
        | nil =>
          simp only [hbt] at h
          by_cases hvb : verbIn verb blockVerbs = true
          · simp only [hvb, if_true] at h
            cases hlines : addBlockLines b.comments verb fix true st b.lines with
            | mk stm ls1 =>
              cases hrest : addStmts fix true stm xs with
              | mk st2 xs2 =>
                simp only [hlines, hrest, Prod.mk.injEq] at h
                obtain ⟨rfl, rfl⟩ := h
                obtain ⟨hw2, hn2, hwfm, hem', hrep⟩ := ih stm st2 xs2 hrest he hwf hxs hnxs
                obtain ⟨hwl1, hnl1, hlen1, hwf0, he0, hrepl⟩ := addBlockLines_replayE b.comments verb fix hfix hne b.lines
                  false st stm ls1 hlines hem' hwfm hb.lines hnb
                have hemp : ls1.isEmpty = b.lines.isEmpty := ewfBlkLines_nonempty_eq hlen1
                refine ⟨?_, ?_, hwf0, he0, ?_⟩
                · intro s hs
                  rcases List.mem_cons.1 hs with rfl | hs
                  · show EWFBlock _
                    exact ⟨by simp, fun t ht => hb.tok t (by rw [hbt]; simpa using ht), hb.before,
                      hb.after, hb.lbefore, hb.lsuffix, hb.lafter, hwl1, by simpa [hemp] using hb.rbefore, hb.rsuffix,
                      hb.rafter⟩
                  · exact hw2 s hs
                · intro s hs
                  rcases List.mem_cons.1 hs with rfl | hs
                  · exact hnl1
                  · exact hn2 s hs
                · intro st' ss' hsim hrel
                  cases ss' with
                  | nil => simp at hrel
                  | cons s' ss'' =>
                    simp only [List.map_cons, List.cons.injEq] at hrel
                    obtain ⟨hs', hrel'⟩ := hrel
                    cases s' with
                    | lineBlock b' =>
                      simp only [eraseExpr, normExprE, Expr.lineBlock.injEq] at hs'
                      have htok' : b'.token = [verb] := by
                        have := congrArg LineBlock.token hs'
                        simpa [eraseBlock, normBlockE, hbt] using this
                      have hlines' : b'.lines.map eraseLine = ls1.map normLine := by
                        have := congrArg LineBlock.lines hs'
                        simpa [eraseBlock, normBlockE] using this
                      obtain ⟨stm', hadd', hsim'⟩ := hrepl st' b'.comments b'.lines hsim hlines'
                      obtain ⟨st2', hr', hsim2⟩ := hrep stm' ss'' hsim' hrel'
                      refine ⟨st2', ?_, hsim2⟩
                      simp only [addStmts, htok', hvb, if_true, hadd', hr']
                      congr 3
                      cases b'
                      simp only at htok'
                      subst htok'
                      rfl
                    | commentBlock _ => simp [eraseExpr, normExprE, normExpr] at hs'
                    | line _ => simp [eraseExpr, normExprE, normExpr] at hs'
                    | lparen _ => simp [eraseExpr, normExprE, normExpr] at hs'
                    | rparen _ => simp [eraseExpr, normExprE, normExpr] at hs'
          · exfalso
            simp only [hvb, Bool.false_eq_true, if_false, if_true] at h
            cases hrest : addStmts fix true (st.err b.start .unknownBlock) xs with
            | mk st2 xs2 =>
              simp only [hrest, Prod.mk.injEq] at h
              obtain ⟨rfl, _⟩ := h
              exact err_ne_nil _ _ _ (hem _ _ _ hrest he)
    | lparen _ => exact absurd hx id
    | rparen _ => exact absurd hx id

end ModVerif.Proofs.ModfileEol
