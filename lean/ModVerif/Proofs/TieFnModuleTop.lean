/-
  Tie proofs for the regenerated module.go functions, part 5: CheckPath (module paths), Check, EscapePath,
  EscapeVersion, UnescapePath, UnescapeVersion — the functions that compose the parts proved in
  TieFnModule{Elem,Path,Split,Major,Esc}.lean.  Every Go `error` result is determined exactly: `nil`, or the
  message literal of the `fmt.Errorf` site (`msg`), wrapped as the Go code wraps it.
-/
import ModVerif.Proofs.TieFnModulePath
import ModVerif.Proofs.TieFnModuleSplit
import ModVerif.Proofs.TieFnModuleMajor
import ModVerif.Proofs.TieFnModuleEsc
import ModVerif.Proofs.ModuleEscape
namespace ModVerif.TieFnModule
open ModVerif ModVerif.GoRt ModVerif.GoRtStr

def firstCharErr : Option String := wrapErr "InvalidPathError" (some "invalid char %q in first path element")

theorem CheckPath_loop1_spec (ef : Bytes → Bytes → Bool) (il : Int → Bool) (t4 path : Bytes) (i : Int) :
    ∀ (fuel k : Nat), k ≤ t4.length → t4.length - k < fuel →
    Generated.Module.CheckPath_loop1 ef il t4 path i fuel (k : Int) =
      .ok (if (Utf8.runes (t4.drop k)).all Module.firstPathOK = true
           then Ctl.next (len t4) else Ctl.ret firstCharErr) := by
  intro fuel
  induction fuel with
  | zero => intro k _ h; omega
  | succ f ih =>
    intro k hk hf
    unfold Generated.Module.CheckPath_loop1
    by_cases hlt : k < t4.length
    · obtain ⟨r, w, hdec, hw1, hw2, hrunes, _⟩ := range_step t4 k hlt
      have hlt' : (k : Int) < len t4 := by simp [len_eq]; omega
      have hrec := ih (k + w) hw2 (by omega)
      have hkw : (k : Int) + (w : Int) = ((k + w : Nat) : Int) := by simp
      simp only [hlt', decide_true, if_true, hdec, hrunes, List.all_cons, firstPathOK_nat, hkw, hrec]
      by_cases hp : Module.firstPathOK r = true <;> simp [hp, firstCharErr]
    · have hk' : k = t4.length := by omega
      subst hk'
      simp [Utf8.runes, Utf8.runesAux, len_eq]

/-- the checks of CheckPath after `checkPath(path, modulePath)` succeeded -/
def modTail (path : Bytes) : Except Module.PathErr Unit :=
  let first := path.takeWhile (· != 47)
  if first.isEmpty then .error .leadingSlash
  else if !first.contains 46 then .error .missingDot
  else if path.head? == some 45 then .error .leadingDashFirst
  else if !(Utf8.runes first).all Module.firstPathOK then .error .invalidCharFirst
  else if !(Module.splitPathVersion path).2.2 then .error .invalidVersion
  else .ok ()

theorem checkModPath_eq (path : Bytes) :
    Module.checkModPath path =
      (match Module.checkPath (fun _ => false) .module path with
       | .error e => .error e
       | .ok () => modTail path) := by
  unfold Module.checkModPath modTail
  rfl

theorem CheckPath_spec_aux (ef : Bytes → Bytes → Bool) (il : Int → Bool) (path : Bytes) (fuel : Nat)
    (hfold : ∀ bad ∈ Module.badWindowsNames, ∀ s, ef bad s = Module.equalFoldAscii bad s)
    (hf : 2 * path.length + 24 ≤ fuel)
    (hsplit : Generated.Module.SplitPathVersion fuel path = .ok (Module.splitPathVersion path)) :
    Generated.Module.CheckPath ef il fuel path = .ok (wrappedErrOf (Module.checkModPath path)) := by
  unfold Generated.Module.CheckPath
  extract_lets err0 i0 e1 e1w e2 e2w e3 e3w ri5 e4 e4w e0w k11 ilen
  have hfl := length_takeWhile_le (· != (47 : UInt8)) path
  have hk : k11 (((path.takeWhile (· != 47)).length : Nat) : Int) = .ok (wrappedErrOf (modTail path)) := by
    simp only [k11, e1, e1w, e2, e2w, e3, e3w, e4, e4w, e0w, err0, ri5, modTail]
    generalize hfirst : path.takeWhile (· != 47) = first at hfl ⊢
    cases first with
    | nil => simp [wrappedErrOf, msg, wrapErr]
    | cons c first' =>
      have hne : ¬ (((c :: first').length : Nat) : Int) = 0 := by simp; omega
      have hp : path ≠ [] := by intro e; subst e; simp at hfirst
      have htake : path.take (c :: first').length = c :: first' := by
        rw [← hfirst]; exact take_length_takeWhile _ _
      simp only [hne, decide_false, Bool.false_eq_true, if_false, sliceTo_natCast hfl, htake, bind_ok,
        contains_single, List.isEmpty_cons]
      cases h1 : (c :: first').contains 46
      · simp [wrappedErrOf, msg, wrapErr]
      simp only [Bool.not_true, Bool.false_eq_true, if_false]
      rw [idx_zero_eq_head path hp, bind_ok, first_byte_test path hp (n := 45) 45 rfl]
      cases h2 : (path.head? == some 45)
      rotate_left
      · simp [wrappedErrOf, msg, wrapErr]
      simp only [Bool.false_eq_true, if_false]
      have hl := CheckPath_loop1_spec ef il (c :: first') path (((c :: first').length : Nat) : Int) fuel 0
        (by omega) (by omega)
      simp only [Int.natCast_zero, List.drop_zero] at hl
      rw [hl, bind_ok]
      cases h3 : (Utf8.runes (c :: first')).all Module.firstPathOK
      · simp [wrappedErrOf, msg, wrapErr, firstCharErr]
      simp only [if_true, Bool.not_true, Bool.false_eq_true, if_false, hsplit, bind_ok]
      cases h4 : (Module.splitPathVersion path).2.2 <;> simp [wrappedErrOf, msg, wrapErr]
  have hcp := checkPath_spec ef il .module path fuel hfold hf
  simp only [kindInt] at hcp
  have hnf : Module.checkPath (fun _ => false) .module path = Module.checkPath (natLetter il) .module path :=
    checkPath_nonfile _ _ .module (by decide) path
  rw [hcp, bind_ok, checkModPath_eq, hnf]
  cases hchk : Module.checkPath (natLetter il) .module path with
  | error x => simp [errOf, wrappedErrOf, wrapErr]
  | ok u =>
    cases u
    simp only [errOf, Option.isNone_none, Bool.not_true, Bool.false_eq_true, if_false]
    by_cases h47 : (47 : UInt8) ∈ path
    · have hi : i0 = (((path.takeWhile (· != 47)).length : Nat) : Int) := by
        simp only [i0, index_single, h47, if_true]
      have hneg : ¬ (i0 < 0) := by rw [hi]; omega
      simp only [hneg, decide_false, Bool.false_eq_true, if_false]
      rw [hi, hk]
    · have hi : i0 < 0 := by
        simp only [i0, index_single, h47, if_false]; omega
      have hl : ilen = (((path.takeWhile (· != 47)).length : Nat) : Int) := by
        simp only [ilen, len_eq, takeWhile_ne_of_not_mem h47]
      simp only [hi, decide_true, if_true]
      rw [hl, hk]


theorem CheckPath_spec (ef : Bytes → Bytes → Bool) (il : Int → Bool) (path : Bytes) (fuel : Nat)
    (hfold : ∀ bad ∈ Module.badWindowsNames, ∀ s, ef bad s = Module.equalFoldAscii bad s)
    (hf : 2 * path.length + 24 ≤ fuel) :
    Generated.Module.CheckPath ef il fuel path = .ok (wrappedErrOf (Module.checkModPath path)) :=
  CheckPath_spec_aux ef il path fuel hfold hf (SplitPathVersion_spec path fuel (by omega))

/-! ### Check -/

/-- the Go `error` of Check from the model's result: CheckPath's own error, or `&ModuleError{Path, Err}` around an
    `*InvalidVersionError` -/
def checkErrOf : Except Module.CheckErr Unit → Option String
  | .ok () => none
  | .error (.path e) => some ("InvalidPathError|" ++ msg e)
  | .error .notSemver => wrapErr "ModuleError" (wrapErr "InvalidVersionError" (some "not a semantic version"))
  | .error .major => wrapErr "ModuleError" majorErr

theorem Check_spec (ef : Bytes → Bytes → Bool) (il : Int → Bool) (path version : Bytes) (fuel : Nat)
    (hfold : ∀ bad ∈ Module.badWindowsNames, ∀ s, ef bad s = Module.equalFoldAscii bad s)
    (hf : 2 * path.length + 2 * version.length + 24 ≤ fuel) :
    Generated.Module.Check ef il fuel path version = .ok (checkErrOf (Module.check path version)) := by
  unfold Generated.Module.Check Module.check
  rw [CheckPath_spec ef il path fuel hfold (by omega), bind_ok]
  cases hcp : Module.checkModPath path with
  | error x => simp [wrappedErrOf, checkErrOf]
  | ok u =>
    cases u
    simp only [wrappedErrOf, Option.isNone_none, Bool.not_true, Bool.false_eq_true, if_false,
      Tie.FnSemver.IsValid_tie version fuel (by omega), bind_ok]
    cases hv : Semver.isValid version
    · simp [checkErrOf]
    simp only [Bool.not_true, Bool.false_eq_true, if_false, SplitPathVersion_spec path fuel (by omega), bind_ok,
      CheckPathMajor_spec version _ fuel (by omega)]
    cases hm : Module.checkPathMajor version (Module.splitPathVersion path).2.1 <;> simp [checkErrOf, majorErr, wrapErr]

/-! ### EscapePath, EscapeVersion, UnescapePath, UnescapeVersion -/

/-- (escaped, err) of EscapePath / EscapeVersion from the model's result -/
def escResOf : Except Module.EscErr Bytes → Bytes × Option String
  | .ok e => (e, none)
  | .error (.path e) => ([], some ("InvalidPathError|" ++ msg e))
  | .error .disallowed => ([], wrapErr "InvalidVersionError" (some "disallowed version string"))
  | .error .internal => ([], some "internal error: inconsistency in EscapePath")

theorem EscapePath_spec (ef : Bytes → Bytes → Bool) (il : Int → Bool) (path : Bytes) (fuel : Nat)
    (hfold : ∀ bad ∈ Module.badWindowsNames, ∀ s, ef bad s = Module.equalFoldAscii bad s)
    (hf : 2 * path.length + 24 ≤ fuel) :
    Generated.Module.EscapePath ef il fuel path = .ok (escResOf (Module.escapePath path)) := by
  unfold Generated.Module.EscapePath Module.escapePath
  rw [CheckPath_spec ef il path fuel hfold hf, bind_ok]
  cases hcp : Module.checkModPath path with
  | error x => simp [wrappedErrOf, escResOf]
  | ok u =>
    cases u
    simp only [wrappedErrOf, Option.isNone_none, Bool.not_true, Bool.false_eq_true, if_false,
      escapeString_spec path fuel (by omega)]
    cases Module.escapeString path <;> simp [escResOf]

theorem EscapeVersion_spec (ef : Bytes → Bytes → Bool) (il : Int → Bool) (v : Bytes) (fuel : Nat)
    (hfold : ∀ bad ∈ Module.badWindowsNames, ∀ s, ef bad s = Module.equalFoldAscii bad s)
    (hf : v.length + 23 ≤ fuel) :
    Generated.Module.EscapeVersion ef il fuel v = .ok (escResOf (Module.escapeVersion (natLetter il) v)) := by
  unfold Generated.Module.EscapeVersion Module.escapeVersion
  have hce := checkElem_spec ef il .file v fuel hfold hf
  simp only [kindInt] at hce
  rw [hce, bind_ok, contains_single]
  cases hchk : Module.checkElem (natLetter il) .file v with
  | error x => simp [errOf, escResOf]
  | ok u =>
    cases u
    cases hb : v.contains 33
    · simp only [errOf, Option.isNone_none, Bool.not_true, Bool.or_self, Bool.false_eq_true, if_false,
        escapeString_spec v fuel (by omega)]
      cases Module.escapeString v <;> simp [escResOf]
    · simp [errOf, escResOf]

/-- (result, err) of UnescapePath / UnescapeVersion from the model's result; `what` is "module path" / "version",
    `inner` renders the error of the validity check on the unescaped string -/
def unescResOf (bad badWrap : String) (inner : Module.PathErr → String) : Except Module.UnescErr Bytes → Bytes × Option String
  | .ok p => (p, none)
  | .error .escaped => ([], some bad)
  | .error (.invalid e) => ([], wrapErr badWrap (some (inner e)))

theorem unescapeString_length (e p : Bytes) (h : Module.unescapeString e = some p) : p.length ≤ e.length := by
  rw [Module.unescapeString_eq] at h
  have key : ∀ (rs : List Nat) (bang : Bool) (out : Bytes), Module.unescapeRunes bang rs = some out →
      out.length ≤ rs.length := by
    intro rs
    induction rs with
    | nil => intro bang out h; cases bang <;> simp [Module.unescapeRunes] at h; subst h; simp
    | cons r rs ih =>
      intro bang out h
      unfold Module.unescapeRunes at h
      split at h
      · cases h
      · split at h
        · split at h
          · cases h
          · simp only [Option.map_eq_some_iff] at h
            obtain ⟨o, ho, rfl⟩ := h
            have := ih _ _ ho; simp; omega
        · split at h
          · have := ih _ _ h; simp; omega
          · split at h
            · cases h
            · simp only [Option.map_eq_some_iff] at h
              obtain ⟨o, ho, rfl⟩ := h
              have := ih _ _ ho; simp; omega
  have := key _ _ _ h
  simpa using this

theorem UnescapePath_spec (ef : Bytes → Bytes → Bool) (il : Int → Bool) (escaped : Bytes) (fuel : Nat)
    (hfold : ∀ bad ∈ Module.badWindowsNames, ∀ s, ef bad s = Module.equalFoldAscii bad s)
    (hf : 2 * escaped.length + 24 ≤ fuel) :
    Generated.Module.UnescapePath ef il fuel escaped =
      .ok (unescResOf "invalid escaped module path %q" "invalid escaped module path %q: %v"
        (fun e => "InvalidPathError|" ++ msg e) (Module.unescapePath escaped)) := by
  unfold Generated.Module.UnescapePath Module.unescapePath
  rw [unescapeString_spec escaped fuel (by omega), bind_ok]
  cases hu : Module.unescapeString escaped with
  | none => simp [unescResOf]
  | some p =>
    have hl := unescapeString_length escaped p hu
    simp only [Bool.not_true, Bool.false_eq_true, if_false, CheckPath_spec ef il p fuel hfold (by omega), bind_ok]
    cases hcp : Module.checkModPath p with
    | error x => simp [wrappedErrOf, unescResOf]
    | ok u => cases u; simp [wrappedErrOf, unescResOf]

theorem UnescapeVersion_spec (ef : Bytes → Bytes → Bool) (il : Int → Bool) (escaped : Bytes) (fuel : Nat)
    (hfold : ∀ bad ∈ Module.badWindowsNames, ∀ s, ef bad s = Module.equalFoldAscii bad s)
    (hf : escaped.length + 23 ≤ fuel) :
    Generated.Module.UnescapeVersion ef il fuel escaped =
      .ok (unescResOf "invalid escaped version %q" "invalid escaped version %q: %v" msg
        (Module.unescapeVersion (natLetter il) escaped)) := by
  unfold Generated.Module.UnescapeVersion Module.unescapeVersion
  rw [unescapeString_spec escaped fuel (by omega), bind_ok]
  cases hu : Module.unescapeString escaped with
  | none => simp [unescResOf]
  | some p =>
    have hl := unescapeString_length escaped p hu
    have hce := checkElem_spec ef il .file p fuel hfold (by omega)
    simp only [kindInt] at hce
    simp only [Bool.not_true, Bool.false_eq_true, if_false, hce, bind_ok]
    cases hcp : Module.checkElem (natLetter il) .file p with
    | error x => simp [errOf, unescResOf]
    | ok u => cases u; simp [errOf, unescResOf]

end ModVerif.TieFnModule
