/-
  EditWork, part 6 — where the lines added by a bulk setter land: a closed form for repeated `addLine` with the nil hint and
  a common verb (`AddNewRequire` / `AddUse` from `SetRequire` / `SetUse`), each followed by an update of the new line.
  The first addition selects ONE statement (the last statement with the verb; a new one at the end if there is none) and
  every later addition appends to the block that statement has become: `addMany_block`, `addMany_line`, `addMany_none`.
-/
import ModVerif.Proofs.EditRefineTree
set_option linter.unusedSimpArgs false
namespace ModVerif.Modfile.Edit
open ModVerif ModVerif.Modfile

/-- the statements the nil-hint search of `addLine` looks for: a live line or any block with the verb -/
def Qual (verb : Bytes) : Expr → Bool
  | .line l => !l.token.isEmpty && headIs l.token verb
  | .lineBlock b => headIs b.token verb
  | _ => false

theorem lastStmtWith_step (verb : Bytes) (x : Expr) (xs : List Expr) (i : Nat) (acc : Option Nat) :
    lastStmtWith verb (x :: xs) i acc = lastStmtWith verb xs (i + 1) (if Qual verb x then some i else acc) := by
  cases x <;> simp only [lastStmtWith, Qual] <;> rfl

theorem lastStmtWith_noqual (verb : Bytes) : ∀ (xs : List Expr) (i : Nat) (acc : Option Nat),
    (∀ x ∈ xs, Qual verb x = false) → lastStmtWith verb xs i acc = acc := by
  intro xs
  induction xs with
  | nil => intro i acc _; rfl
  | cons x xs ih =>
    intro i acc h
    rw [lastStmtWith_step, h x List.mem_cons_self]
    simp only [Bool.false_eq_true, if_false]
    exact ih _ _ (fun y hy => h y (List.mem_cons_of_mem _ hy))

theorem lastStmtWith_split (verb : Bytes) (x : Expr) (post : List Expr) (hq : Qual verb x = true)
    (hpost : ∀ y ∈ post, Qual verb y = false) : ∀ (pre : List Expr) (i : Nat) (acc : Option Nat),
    lastStmtWith verb (pre ++ x :: post) i acc = some (i + pre.length) := by
  intro pre
  induction pre with
  | nil =>
    intro i acc
    simp only [List.nil_append, List.length_nil, Nat.add_zero]
    rw [lastStmtWith_step, hq]
    simp only [if_true]
    exact lastStmtWith_noqual verb post _ _ hpost
  | cons p pre ih =>
    intro i acc
    simp only [List.cons_append, List.length_cons]
    rw [lastStmtWith_step, ih]
    congr 1; omega

/-- either no statement qualifies, or there is a last one -/
theorem qual_cases (verb : Bytes) : ∀ xs : List Expr, (∀ x ∈ xs, Qual verb x = false) ∨
    ∃ pre x post, xs = pre ++ x :: post ∧ Qual verb x = true ∧ ∀ y ∈ post, Qual verb y = false := by
  intro xs
  induction xs with
  | nil => left; intro x hx; cases hx
  | cons y ys ih =>
    rcases ih with h | ⟨pre, x, post, rfl, hq, hp⟩
    · cases hy : Qual verb y with
      | true => right; exact ⟨[], y, ys, rfl, hy, h⟩
      | false =>
        left; intro x hx
        rcases List.mem_cons.1 hx with rfl | hx
        · exact hy
        · exact h x hx
    · right; exact ⟨y :: pre, x, post, rfl, hq, hp⟩

/-- what `addLine` does to the statement the nil-hint search selected -/
def grow (t : List Bytes) (new : Nat) : Expr → Expr
  | .line l => .lineBlock { token := l.token.take 1,
                            lines := [{ l with inBlock := true, token := l.token.drop 1 }, mkLine new (t.drop 1) true] }
  | .lineBlock b => .lineBlock { b with lines := b.lines ++ [mkLine new (t.drop 1) true] }
  | x => x

theorem hint_stmt_ne_line (a b : Nat) : (Hint.stmt a == Hint.line b) = false := by
  simp [BEq.beq, instBEqOfDecidableEq]

theorem hint_stmt_beq (a b : Nat) : (Hint.stmt a == Hint.stmt b) = decide (a = b) := by
  by_cases h : a = b
  · subst h; simp
  · simp [h]

theorem addLineWalk_stmt (t : List Bytes) (new : Nat) (x : Expr) (post : List Expr)
    (hq : Qual (t.head?.getD []) x = true) : ∀ (pre : List Expr) (i : Nat),
    addLineWalk (.stmt (i + pre.length)) t new (pre ++ x :: post) i = some (pre ++ grow t new x :: post) := by
  intro pre
  induction pre with
  | nil =>
    intro i
    simp only [List.nil_append, List.length_nil, Nat.add_zero]
    unfold addLineWalk
    cases x with
    | line l =>
      simp only [Qual, Bool.and_eq_true, Bool.not_eq_true'] at hq
      simp [hint_stmt_ne_line, hq.1, hq.2, grow]
    | lineBlock b =>
      simp only [Qual] at hq
      simp [hq, grow]
    | commentBlock c => simp [Qual] at hq
    | lparen c => simp [Qual] at hq
    | rparen c => simp [Qual] at hq
  | cons p pre ih =>
    intro i
    have hne : (Hint.stmt (i + (pre.length + 1)) == Hint.stmt i) = false := by
      rw [hint_stmt_beq]; simp
    have hidx : i + (pre.length + 1) = (i + 1) + pre.length := by omega
    simp only [List.cons_append, List.length_cons]
    unfold addLineWalk
    cases p with
    | line l =>
      simp only [hint_stmt_ne_line, hne, Bool.or_self, Bool.false_eq_true, if_false]
      rw [hidx, ih (i + 1)]; rfl
    | lineBlock b =>
      simp only [hne, Bool.false_eq_true, if_false]
      rw [hidx, ih (i + 1)]; rfl
    | commentBlock c => simp only []; rw [hidx, ih (i + 1)]; rfl
    | lparen c => simp only []; rw [hidx, ih (i + 1)]; rfl
    | rparen c => simp only []; rw [hidx, ih (i + 1)]; rfl

/-- `addLine` with the nil hint: no statement with the verb — the line goes to the end of the file -/
theorem addLine_none_noqual (fs : FileSyntax) (t : List Bytes) (new : Nat)
    (h : ∀ x ∈ fs.stmts, Qual (t.head?.getD []) x = false) :
    (addLine fs none t new).stmts = fs.stmts ++ [.line (mkLine new t false)] := by
  unfold addLine
  simp only [lastStmtWith_noqual _ _ _ _ h]

/-- … otherwise the last statement with the verb grows -/
theorem addLine_none_split (fs : FileSyntax) (t : List Bytes) (new : Nat) (pre : List Expr) (x : Expr) (post : List Expr)
    (hs : fs.stmts = pre ++ x :: post) (hq : Qual (t.head?.getD []) x = true)
    (hp : ∀ y ∈ post, Qual (t.head?.getD []) y = false) :
    (addLine fs none t new).stmts = pre ++ grow t new x :: post := by
  unfold addLine
  simp only [hs, lastStmtWith_split _ x post hq hp pre 0 none, Nat.zero_add]
  have := addLineWalk_stmt t new x post hq pre 0
  simp only [Nat.zero_add] at this
  simp only [this]

/-! ### the update of the new line -/

theorem updateLineIn_notin (id : Nat) (g : Line → Line) : ∀ ls : List Line, id ∉ ls.map (·.id) → updateLineIn id g ls = ls := by
  intro ls
  induction ls with
  | nil => intro _; rfl
  | cons l ls ih =>
    intro h
    simp only [List.map_cons, List.mem_cons, not_or] at h
    unfold updateLineIn
    have : (l.id == id) = false := by simp [Ne.symm h.1]
    simp only [this, Bool.false_eq_true, if_false, ih h.2]

theorem updateLineIn_last (id : Nat) (g : Line → Line) (nl : Line) (hn : nl.id = id) : ∀ ls : List Line, id ∉ ls.map (·.id) →
    updateLineIn id g (ls ++ [nl]) = ls ++ [g nl] := by
  intro ls
  induction ls with
  | nil => intro _; simp [updateLineIn, hn]
  | cons l ls ih =>
    intro h
    simp only [List.map_cons, List.mem_cons, not_or] at h
    simp only [List.cons_append]
    unfold updateLineIn
    have : (l.id == id) = false := by simp [Ne.symm h.1]
    simp only [this, Bool.false_eq_true, if_false, ih h.2]

/-- the statement map of `FileSyntax.updateLine` -/
def updStmt (id : Nat) (g : Line → Line) : Expr → Expr
  | .line l => if l.id == id then .line (g l) else .line l
  | .lineBlock b => .lineBlock { b with lines := updateLineIn id g b.lines }
  | x => x

theorem updateLine_stmts_map (fs : FileSyntax) (id : Nat) (g : Line → Line) :
    (fs.updateLine id g).stmts = fs.stmts.map (updStmt id g) := by
  unfold FileSyntax.updateLine
  simp only
  apply List.map_congr_left
  intro x _
  cases x <;> rfl

theorem updStmt_notin (id : Nat) (g : Line → Line) : ∀ xs : List Expr, id ∉ treeIds xs → xs.map (updStmt id g) = xs := by
  intro xs
  induction xs with
  | nil => intro _; rfl
  | cons x xs ih =>
    intro h
    rw [treeIds_cons, List.mem_append, not_or] at h
    simp only [List.map_cons, ih h.2]
    congr 1
    cases x with
    | line l =>
      have : (l.id == id) = false := by
        have := h.1; simp [treeIds, loc, locStmt] at this; simp [Ne.symm this]
      simp [updStmt, this]
    | lineBlock b =>
      have := h.1; rw [treeIds_block] at this
      simp [updStmt, updateLineIn_notin id g b.lines this]
    | commentBlock c => rfl
    | lparen c => rfl
    | rparen c => rfl

/-! ### one addition followed by the update of the new line -/

/-- one step of a bulk setter's additions: `addLine` with the nil hint, then `g` on the new line -/
def addStep (fs : FileSyntax) (p : List Bytes × Nat × (Line → Line)) : FileSyntax :=
  (addLine fs none p.1 p.2.1).updateLine p.2.1 p.2.2

/-- the new line as it stands inside a block -/
def mkG (p : List Bytes × Nat × (Line → Line)) : Line := p.2.2 (mkLine p.2.1 (p.1.drop 1) true)

/-- `g` touches neither the tokens nor the id, and commutes with moving the line into a block -/
structure GoodG (g : Line → Line) : Prop where
  tok : ∀ l, (g l).token = l.token
  id : ∀ l, (g l).id = l.id
  comm : ∀ (l : Line) (tok : List Bytes), { g l with inBlock := true, token := tok } = g { l with inBlock := true, token := tok }

theorem addStep_block (fs : FileSyntax) (p : List Bytes × Nat × (Line → Line)) (pre post : List Expr) (b : LineBlock)
    (hs : fs.stmts = pre ++ .lineBlock b :: post) (hq : headIs b.token (p.1.head?.getD []) = true)
    (hp : ∀ y ∈ post, Qual (p.1.head?.getD []) y = false) (hfresh : p.2.1 ∉ treeIds fs.stmts) :
    (addStep fs p).stmts = pre ++ .lineBlock { b with lines := b.lines ++ [mkG p] } :: post := by
  unfold addStep
  rw [updateLine_stmts_map, addLine_none_split fs p.1 p.2.1 pre _ post hs (by simpa [Qual] using hq) hp]
  rw [hs, treeIds_append, treeIds_cons, treeIds_block] at hfresh
  simp only [List.mem_append, not_or] at hfresh
  rw [List.map_append, List.map_cons, updStmt_notin _ _ pre hfresh.1, updStmt_notin _ _ post hfresh.2.2]
  simp only [grow, updStmt, mkG]
  rw [updateLineIn_last p.2.1 p.2.2 _ (by simp [mkLine]) b.lines hfresh.2.1]

theorem addStep_line (fs : FileSyntax) (p : List Bytes × Nat × (Line → Line)) (pre post : List Expr) (l : Line)
    (hs : fs.stmts = pre ++ .line l :: post) (hq : Qual (p.1.head?.getD []) (.line l) = true)
    (hp : ∀ y ∈ post, Qual (p.1.head?.getD []) y = false) (hfresh : p.2.1 ∉ treeIds fs.stmts) :
    (addStep fs p).stmts = pre ++
      .lineBlock { token := l.token.take 1, lines := [{ l with inBlock := true, token := l.token.drop 1 }, mkG p] } :: post := by
  unfold addStep
  rw [updateLine_stmts_map, addLine_none_split fs p.1 p.2.1 pre _ post hs hq hp]
  rw [hs, treeIds_append, treeIds_cons] at hfresh
  simp only [List.mem_append, not_or] at hfresh
  rw [List.map_append, List.map_cons, updStmt_notin _ _ pre hfresh.1, updStmt_notin _ _ post hfresh.2.2]
  have hl : l.id ≠ p.2.1 := by
    have := hfresh.2.1; simp [treeIds, loc, locStmt] at this; exact Ne.symm this
  simp only [grow, updStmt, mkG]
  have := updateLineIn_last p.2.1 p.2.2 (mkLine p.2.1 (p.1.drop 1) true) (by simp [mkLine])
    [{ l with inBlock := true, token := l.token.drop 1 }] (by simp [Ne.symm hl])
  simp only [List.cons_append, List.nil_append] at this
  rw [this]

theorem addStep_none (fs : FileSyntax) (p : List Bytes × Nat × (Line → Line))
    (h : ∀ x ∈ fs.stmts, Qual (p.1.head?.getD []) x = false) (hfresh : p.2.1 ∉ treeIds fs.stmts) :
    (addStep fs p).stmts = fs.stmts ++ [.line (p.2.2 (mkLine p.2.1 p.1 false))] := by
  unfold addStep
  rw [updateLine_stmts_map, addLine_none_noqual fs p.1 p.2.1 h, List.map_append, updStmt_notin _ _ _ hfresh]
  simp [updStmt, mkLine]

/-! ### many additions -/

/-- the ids of the additions are pairwise different and not in the tree -/
def FreshFor (stmts : List Expr) (ps : List (List Bytes × Nat × (Line → Line))) : Prop :=
  (ps.map (·.2.1)).Nodup ∧ ∀ p ∈ ps, p.2.1 ∉ treeIds stmts

theorem mkG_id (p : List Bytes × Nat × (Line → Line)) (hg : GoodG p.2.2) : (mkG p).id = p.2.1 := by
  simp [mkG, hg.id, mkLine]

/-- **every further addition goes to the end of the same block** -/
theorem addMany_block (verb : Bytes) (pre post : List Expr) (hp : ∀ y ∈ post, Qual verb y = false) :
    ∀ (ps : List (List Bytes × Nat × (Line → Line))) (fs : FileSyntax) (b : LineBlock),
    fs.stmts = pre ++ .lineBlock b :: post → headIs b.token verb = true → (∀ p ∈ ps, p.1.head?.getD [] = verb) →
    (∀ p ∈ ps, GoodG p.2.2) → FreshFor fs.stmts ps →
    (ps.foldl addStep fs).stmts = pre ++ .lineBlock { b with lines := b.lines ++ ps.map mkG } :: post := by
  intro ps
  induction ps with
  | nil => intro fs b hs _ _ _ _; simp [hs]
  | cons p ps ih =>
    intro fs b hs hq hv hg hf
    simp only [List.foldl_cons]
    have hvp := hv p List.mem_cons_self
    have h1 := addStep_block fs p pre post b hs (by rw [hvp]; exact hq) (by rw [hvp]; exact hp) (hf.2 p List.mem_cons_self)
    have hf' : FreshFor (addStep fs p).stmts ps := by
      refine ⟨(List.nodup_cons.1 (by simpa using hf.1)).2, ?_⟩
      intro q hq'
      have hq0 := hf.2 q (List.mem_cons_of_mem _ hq')
      rw [h1, treeIds_append, treeIds_cons, treeIds_block]
      rw [hs, treeIds_append, treeIds_cons, treeIds_block] at hq0
      simp only [List.mem_append, not_or, List.map_append, List.map_cons, List.map_nil, List.mem_singleton] at hq0 ⊢
      refine ⟨hq0.1, ⟨hq0.2.1, ?_⟩, hq0.2.2⟩
      rw [mkG_id p (hg p List.mem_cons_self)]
      intro e
      have hnd := hf.1
      simp only [List.map_cons, List.nodup_cons] at hnd
      exact hnd.1 (by rw [← e]; exact List.mem_map.2 ⟨q, hq', rfl⟩)
    rw [ih (addStep fs p) { b with lines := b.lines ++ [mkG p] } h1 hq (fun q hq' => hv q (List.mem_cons_of_mem _ hq'))
      (fun q hq' => hg q (List.mem_cons_of_mem _ hq')) hf']
    simp

theorem headIs_take_one {tok : List Bytes} {verb : Bytes} (h : headIs tok verb = true) : headIs (tok.take 1) verb = true := by
  cases tok with
  | nil => simp [headIs] at h
  | cons a as => simpa [headIs] using h

/-- the selected statement is a live line: it becomes a block holding the old line and all the new ones -/
theorem addMany_line (verb : Bytes) (pre post : List Expr) (hp : ∀ y ∈ post, Qual verb y = false) (l : Line)
    (p : List Bytes × Nat × (Line → Line)) (ps : List (List Bytes × Nat × (Line → Line))) (fs : FileSyntax)
    (hs : fs.stmts = pre ++ .line l :: post) (hq : Qual verb (.line l) = true) (hv : ∀ q ∈ p :: ps, q.1.head?.getD [] = verb)
    (hg : ∀ q ∈ p :: ps, GoodG q.2.2) (hf : FreshFor fs.stmts (p :: ps)) :
    ((p :: ps).foldl addStep fs).stmts = pre ++
      .lineBlock { token := l.token.take 1,
                   lines := { l with inBlock := true, token := l.token.drop 1 } :: (p :: ps).map mkG } :: post := by
  simp only [List.foldl_cons]
  have hvp := hv p List.mem_cons_self
  have h1 := addStep_line fs p pre post l hs (by rw [hvp]; exact hq) (by rw [hvp]; exact hp) (hf.2 p List.mem_cons_self)
  have hl : l.id ∉ ps.map (·.2.1) ∧ l.id ≠ p.2.1 := by
    have hmem : l.id ∈ treeIds fs.stmts := by
      rw [hs, treeIds_append, treeIds_cons]; simp [treeIds, loc, locStmt]
    refine ⟨?_, fun e => hf.2 p List.mem_cons_self (e ▸ hmem)⟩
    intro hm
    rcases List.mem_map.1 hm with ⟨q, hq', e⟩
    exact hf.2 q (List.mem_cons_of_mem _ hq') (e ▸ hmem)
  have hf' : FreshFor (addStep fs p).stmts ps := by
    refine ⟨(List.nodup_cons.1 (by simpa using hf.1)).2, ?_⟩
    intro q hq'
    have hq0 := hf.2 q (List.mem_cons_of_mem _ hq')
    rw [h1, treeIds_append, treeIds_cons, treeIds_block]
    rw [hs, treeIds_append, treeIds_cons] at hq0
    simp only [List.mem_append, not_or, List.map_cons, List.map_nil, List.mem_cons, List.mem_nil_iff, or_false] at hq0 ⊢
    refine ⟨hq0.1, ?_, hq0.2.2⟩
    rw [mkG_id p (hg p List.mem_cons_self)]
    refine ⟨fun e => hl.1 (by rw [← e]; exact List.mem_map.2 ⟨q, hq', rfl⟩), fun e => ?_⟩
    have hnd := hf.1
    simp only [List.map_cons, List.nodup_cons] at hnd
    exact hnd.1 (by rw [← e]; exact List.mem_map.2 ⟨q, hq', rfl⟩)
  have hqb : headIs (l.token.take 1) verb = true := by
    simp only [Qual, Bool.and_eq_true] at hq
    exact headIs_take_one hq.2
  rw [addMany_block verb pre post hp ps (addStep fs p) _ h1 hqb (fun q hq' => hv q (List.mem_cons_of_mem _ hq'))
    (fun q hq' => hg q (List.mem_cons_of_mem _ hq')) hf']
  simp

/-- no statement with the verb: one addition is a new line at the end of the file, two or more a new block there -/
theorem addMany_none (verb : Bytes) (p1 p2 : List Bytes × Nat × (Line → Line)) (ps : List (List Bytes × Nat × (Line → Line)))
    (fs : FileSyntax) (h : ∀ x ∈ fs.stmts, Qual verb x = false) (hv : ∀ q ∈ p1 :: p2 :: ps, q.1.head?.getD [] = verb)
    (hne : ∀ q ∈ p1 :: p2 :: ps, q.1 ≠ []) (hg : ∀ q ∈ p1 :: p2 :: ps, GoodG q.2.2) (hf : FreshFor fs.stmts (p1 :: p2 :: ps)) :
    ((p1 :: p2 :: ps).foldl addStep fs).stmts =
      fs.stmts ++ [.lineBlock { token := p1.1.take 1, lines := (p1 :: p2 :: ps).map mkG }] := by
  have hv1 := hv p1 List.mem_cons_self
  have hg1 := hg p1 List.mem_cons_self
  have h1 := addStep_none fs p1 (by rw [hv1]; exact h) (hf.2 p1 List.mem_cons_self)
  rw [List.foldl_cons]
  have hq : Qual verb (.line (p1.2.2 (mkLine p1.2.1 p1.1 false))) = true := by
    have hne1 := hne p1 List.mem_cons_self
    simp only [Qual, hg1.tok, mkLine, Bool.and_eq_true, Bool.not_eq_true', List.isEmpty_eq_false_iff]
    refine ⟨hne1, ?_⟩
    cases ht : p1.1 with
    | nil => exact absurd ht hne1
    | cons a as => rw [ht] at hv1; simpa [headIs] using hv1
  have hf' : FreshFor (addStep fs p1).stmts (p2 :: ps) := by
    refine ⟨(List.nodup_cons.1 (by simpa using hf.1)).2, ?_⟩
    intro q hq'
    have hq0 := hf.2 q (List.mem_cons_of_mem _ hq')
    rw [h1, treeIds_append]
    simp only [List.mem_append, not_or]
    refine ⟨hq0, ?_⟩
    simp only [treeIds, loc, locStmt, List.flatMap_cons, List.flatMap_nil, List.append_nil, List.map_cons, List.map_nil,
      List.mem_singleton, hg1.id, mkLine]
    intro e
    have hnd := hf.1
    simp only [List.map_cons, List.nodup_cons] at hnd
    exact hnd.1 (by rw [← e]; exact List.mem_map.2 ⟨q, hq', rfl⟩ : p1.2.1 ∈ (p2 :: ps).map (·.2.1))
  have := addMany_line verb fs.stmts [] (fun y hy => by cases hy) (p1.2.2 (mkLine p1.2.1 p1.1 false)) p2 ps (addStep fs p1)
    (by rw [h1]) hq (fun q hq' => hv q (List.mem_cons_of_mem _ hq')) (fun q hq' => hg q (List.mem_cons_of_mem _ hq')) hf'
  rw [this]
  simp only [hg1.tok, mkLine, List.map_cons, mkG]
  rw [hg1.comm]

end ModVerif.Modfile.Edit
