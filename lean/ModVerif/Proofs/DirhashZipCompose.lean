/-
  C19 `zip_dir_agree_composed`: the h1 hash of the archive `Zip.create` produces equals the h1 hash of the
  directory `Zip.unzip` builds from it, stated over the actual zip models (C05 / C12), not over the naming
  convention.  Three links are proved here and composed with `hashModZip_eq_hashUnzipped`:

    (1) `zipPairs_create`: the entries of a successful `create` ARE `modZipEntries mpath mvers` of the valid
        files (path, content);
    (2) `treeOfEffects_unzip`: the directory tree read off the effect list of the extraction
        (`treeOfEffects`) is the directory holding exactly those files with their contents;
    (3) `cleanRel_of_cfpSound`, `cleanRel_modPrefix`: every `CheckFilePath`-accepted path and every accepted
        `path@version` is `Dirhash.CleanRel`.
  Core Lean only.
-/
import ModVerif.Proofs.DirhashZip
import ModVerif.Proofs.ZipAUnzip
namespace ModVerif.DirhashZip
open ModVerif ModVerif.PathClean ModVerif.Zip ModVerif.ZipSpec ModVerif.Proofs.Zip ModVerif.Proofs.ZipB
  ModVerif.Proofs.ZipA

/-! ### definitions: archive as (name, content) pairs, directory tree of an effect list -/

/-- the archive as `dirhash.HashZip` reads it: (entry name, content) in central-directory order -/
def zipPairs (es : List Entry) : List (Bytes × Bytes) := es.map fun e => (e.name, e.content)

/-- the (path, content) pairs of the files `Create` writes: the valid files of the file check -/
def validPairs (E : Env) (files : List FileInfo) : List (Bytes × Bytes) :=
  (checkFilesSt E files (goVers files)).validFiles.map fun f => (f.path, f.content)

/-- the slash path of `p` below the directory `dir`, when `p` lies strictly below it: decidable form of
    `ZipSpec.IsUnder dir p` (same rootedness, the kept elements of `dir` are a proper prefix of those of
    `p`); the remaining elements joined by `/`. -/
def relUnder (dir p : Bytes) : Option Bytes :=
  if isRooted p == isRooted dir && (comps dir).isPrefixOf (comps p)
      && decide ((comps dir).length < (comps p).length) then
    some (joinWith [47] ((comps p).drop (comps dir).length))
  else none

/-- the regular files an effect list leaves below `dir`, in creation order, with their contents
    (a failed copy - content `none`, excluded by a successful extraction - is not listed) -/
def filesUnder (dir : Bytes) : List Effect → List (Bytes × Bytes)
  | [] => []
  | .createExcl p (some c) :: rest =>
    match relUnder dir p with
    | some r => (r, c) :: filesUnder dir rest
    | none => filesUnder dir rest
  | _ :: rest => filesUnder dir rest

/-- `MkdirAll` of (a spelling of) `dir` -/
def madeDir (dir : Bytes) : Effect → Bool
  | .mkdirAll p => pathClean p == pathClean dir
  | _ => false

/-- what `dir` names after the effects were performed on a fresh (missing or empty) target: a directory
    with the files created below it once `MkdirAll(dir)` happened, nothing before. -/
def treeOfEffects (dir : Bytes) (fx : List Effect) : Dirhash.Root :=
  if fx.any (madeDir dir) then .dir (filesUnder dir fx) else .missing

/-- what the composition needs from `module.Check` + `module.CanonicalVersion`: an accepted module path has
    no empty, `.` or `..` element, an accepted version has no slash. -/
def ModOKSound (modOK : Bytes → Bytes → Bool) : Prop :=
  ∀ p v, modOK p v = true →
    (∀ c ∈ splitOn 47 p, c ≠ [] ∧ c ≠ [46] ∧ c ≠ [46, 46]) ∧ (47 : UInt8) ∉ v

/-! ### (3) accepted names are clean relative paths -/

theorem cleanRel_of_cfpSound {cfp : Bytes → Bool} (h : CfpSound cfp) {p : Bytes} (hp : cfp p = true) :
    Dirhash.CleanRel p := fun c hc => h p hp c hc

/-- splitting `a ++ b` when `b` has no separator: the last piece of `a` is extended by `b` -/
theorem splitOn_append_noSep (sep : UInt8) (b : Bytes) (hb : sep ∉ b) : ∀ a : Bytes,
    ∃ init last, splitOn sep a = init ++ [last] ∧ splitOn sep (a ++ b) = init ++ [last ++ b]
  | [] => ⟨[], [], rfl, by simpa using Proofs.ZipB.splitOn_noSep sep b hb⟩
  | x :: a => by
    obtain ⟨init, last, h1, h2⟩ := splitOn_append_noSep sep b hb a
    by_cases hx : (x == sep) = true
    · refine ⟨[] :: init, last, ?_, ?_⟩
      · simp [splitOn, hx, h1]
      · simp [splitOn, hx, h2]
    · have hx' : (x == sep) = false := by simpa using hx
      cases init with
      | nil =>
        refine ⟨[], x :: last, ?_, ?_⟩
        · simp only [List.nil_append] at h1; simp [splitOn, hx', h1]
        · simp only [List.nil_append] at h2; simp [splitOn, hx', h2]
      | cons i is =>
        refine ⟨(x :: i) :: is, last, ?_, ?_⟩
        · simp only [List.cons_append] at h1; simp [splitOn, hx', h1]
        · simp only [List.cons_append] at h2; simp [splitOn, hx', h2]

theorem cleanRel_modPrefix {p v : Bytes} (hp : ∀ c ∈ splitOn 47 p, c ≠ [] ∧ c ≠ [46] ∧ c ≠ [46, 46])
    (hv : (47 : UInt8) ∉ v) : Dirhash.CleanRel (Dirhash.modPrefix p v) := by
  have hb : (47 : UInt8) ∉ (64 :: v) := by
    intro h; rcases List.mem_cons.1 h with h | h
    · exact absurd h (by decide)
    · exact hv h
  obtain ⟨init, last, h1, h2⟩ := splitOn_append_noSep 47 (64 :: v) hb p
  have e : Dirhash.modPrefix p v = p ++ 64 :: v := by simp [Dirhash.modPrefix]
  intro c hc
  rw [e] at hc
  change c ∈ splitOn 47 (p ++ 64 :: v) at hc
  rw [h2] at hc
  rcases List.mem_append.1 hc with hc | hc
  · exact hp c (by rw [h1]; exact List.mem_append_left _ hc)
  · have hc : c = last ++ 64 :: v := by simpa using hc
    have h64 : (64 : UInt8) ∈ c := by rw [hc]; simp
    refine ⟨?_, ?_, ?_⟩ <;> intro e' <;> rw [e'] at h64 <;> revert h64 <;> decide

theorem cleanRel_modPrefix_of_sound {modOK : Bytes → Bytes → Bool} (h : ModOKSound modOK) {p v : Bytes}
    (hpv : modOK p v = true) : Dirhash.CleanRel (Dirhash.modPrefix p v) :=
  cleanRel_modPrefix (h p v hpv).1 (h p v hpv).2

/-! ### (1) the created entries are `modZipEntries` of the valid files -/

theorem zipPairs_create (E : Env) (mpath mvers : Bytes) (files : List FileInfo) (es : List Entry)
    (h : create E mpath mvers files = .ok es) :
    zipPairs es = Dirhash.modZipEntries mpath mvers (validPairs E files) := by
  obtain ⟨_, _, hes, _⟩ := create_ok E mpath mvers files es h
  rw [hes]
  simp [zipPairs, validPairs, Dirhash.modZipEntries, Dirhash.modPrefix, Dirhash.slash, zipPrefix, entryOf,
    List.map_map, Function.comp_def]

/-- the valid files have `CheckFilePath`-accepted, pairwise distinct paths -/
theorem validPairs_normal (E : Env) (hE : CfpSound E.cfp) (files : List FileInfo) :
    ∀ f ∈ (checkFilesSt E files (goVers files)).validFiles, NormalName f.path := fun f hf =>
  normalName_of_cfpSound hE ((checkFilesSt_validInv E (goVers files) files).nameOK f hf).cfp

theorem validPairs_cleanRel (E : Env) (hE : CfpSound E.cfp) (files : List FileInfo) :
    ∀ q ∈ validPairs E files, Dirhash.CleanRel q.1 := by
  intro q hq
  obtain ⟨f, hf, rfl⟩ := List.mem_map.1 hq
  exact cleanRel_of_cfpSound hE ((checkFilesSt_validInv E (goVers files) files).nameOK f hf).cfp

theorem validPairs_nodup (E : Env) (files : List FileInfo) : ((validPairs E files).map (·.1)).Nodup := by
  have hd := (checkFilesSt_validInv E (goVers files) files).foldDistinct
  unfold validPairs
  rw [List.map_map]
  unfold List.Nodup
  rw [List.pairwise_map]
  exact hd.imp (fun hab e => hab (congrArg E.toFold e))

/-! ### (2) the tree the extraction effects build -/

theorem relUnder_fpJoin (dir : Bytes) {n : Bytes} (h : NormalName n) : relUnder dir (fpJoin dir n) = some n := by
  unfold relUnder
  rw [isRooted_fpJoin dir h, comps_fpJoin dir h]
  have h1 : (comps dir).isPrefixOf (comps dir ++ splitOn 47 n) = true :=
    List.isPrefixOf_iff_prefix.2 (List.prefix_append _ _)
  have h2 : (comps dir).length < (comps dir ++ splitOn 47 n).length := by
    have : 0 < (splitOn 47 n).length := List.length_pos_iff.2 (Proofs.ZipB.splitOn_ne_nil 47 n)
    rw [List.length_append]; omega
  simp only [beq_self_eq_true, h1, h2, decide_true, Bool.and_self, if_true, List.drop_left]
  exact congrArg some (J_splitOn n)

theorem dstOf_entryOf (dir pfx : Bytes) (f : FileInfo) : dstOf dir pfx (entryOf pfx f) = fpJoin dir f.path := by
  unfold dstOf entryOf
  rw [show (pfx ++ f.path).drop pfx.length = f.path from List.drop_left' rfl]

theorem filesUnder_expected (dir pfx : Bytes) : ∀ vf : List FileInfo, (∀ f ∈ vf, NormalName f.path) →
    filesUnder dir ((vf.map (entryOf pfx)).flatMap (fun e =>
      [.mkdirAll (pathDir (dstOf dir pfx e)), .createExcl (dstOf dir pfx e) (some e.content)])) =
    vf.map fun f => (f.path, f.content)
  | [], _ => rfl
  | f :: vf, h => by
    have ih := filesUnder_expected dir pfx vf (fun g hg => h g (List.mem_cons_of_mem _ hg))
    simp only [List.map_cons, List.flatMap_cons, List.cons_append, List.nil_append, filesUnder]
    rw [dstOf_entryOf, relUnder_fpJoin dir (h f List.mem_cons_self)]
    simp only []
    rw [ih]
    rfl

/-- C05 `create_unzip`, read as a directory: extraction of the created archive into a fresh target leaves
    at `dir` a directory holding exactly the valid files, each with its complete content. -/
theorem treeOfEffects_unzip (E : Env) (hE : CfpSound E.cfp) (dir : Bytes)
    (hdir : dir = [] ∨ pathClean dir = dir ∨ ([46, 46] : Bytes) ∉ splitOn 47 dir) (t : Target)
    (ht : t = .missing ∨ t = .emptyDir) (mpath mvers : Bytes) (files : List FileInfo) (es : List Entry)
    (zipSize : Nat) (h : create E mpath mvers files = .ok es) (hz : zipSize ≤ MaxZipFile) :
    (unzip E dir t mpath mvers zipSize es).err = none ∧
    treeOfEffects dir (unzip E dir t mpath mvers zipSize es).effects = .dir (validPairs E files) := by
  obtain ⟨h1, h2, _, _⟩ := create_unzip E hE dir hdir t ht mpath mvers files es zipSize h hz
  refine ⟨h1, ?_⟩
  obtain ⟨_, _, hes, _⟩ := create_ok E mpath mvers files es h
  rw [h2]
  unfold treeOfEffects
  have hany : (Effect.mkdirAll dir :: es.flatMap (fun e =>
      [.mkdirAll (pathDir (dstOf dir (zipPrefix mpath mvers) e)),
       .createExcl (dstOf dir (zipPrefix mpath mvers) e) (some e.content)])).any (madeDir dir) = true := by
    simp [madeDir]
  rw [if_pos hany]
  congr 1
  show filesUnder dir (es.flatMap _) = _
  rw [hes]
  exact filesUnder_expected dir (zipPrefix mpath mvers) _ (validPairs_normal E hE files)

/-! ### composition -/

/-- the composed statement (wrapped as `Props.C19.zip_dir_agree_composed`) -/
theorem hashZip_create_eq_hashDir_unzip (sha : Bytes → Bytes) (E : Env) (hE : CfpSound E.cfp)
    (hM : ModOKSound E.modOK) (dir : Bytes)
    (hdir : dir = [] ∨ pathClean dir = dir ∨ ([46, 46] : Bytes) ∉ splitOn 47 dir) (t : Target)
    (ht : t = .missing ∨ t = .emptyDir) (mpath mvers : Bytes) (files : List FileInfo) (es : List Entry)
    (zipSize : Nat) (h : create E mpath mvers files = .ok es) (hz : zipSize ≤ MaxZipFile) :
    Dirhash.hashZip sha (zipPairs es) =
      Dirhash.hashDir sha (treeOfEffects dir (unzip E dir t mpath mvers zipSize es).effects)
        (mpath ++ [64] ++ mvers) := by
  obtain ⟨hm, _, _, _⟩ := create_ok E mpath mvers files es h
  rw [zipPairs_create E mpath mvers files es h,
    (treeOfEffects_unzip E hE dir hdir t ht mpath mvers files es zipSize h hz).2]
  exact Dirhash.hashModZip_eq_hashUnzipped sha mpath mvers (validPairs E files)
    (cleanRel_modPrefix_of_sound hM hm) (validPairs_cleanRel E hE files) (validPairs_nodup E files)

end ModVerif.DirhashZip
