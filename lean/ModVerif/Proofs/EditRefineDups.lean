/-
  EditRefine, part 2 — the typed half of the model's `removeDups` (kill lists of line ids, then filtering the typed
  lists by line id) against the specification's `dedupFirst` / `dedupLast`.
-/
import ModVerif.Proofs.EditRefineLists
namespace ModVerif.Modfile.Edit
open ModVerif ModVerif.Modfile ModVerif.EditSpec

section keepFirst
variable {α κ : Type} [BEq κ] [LawfulBEq κ]

/-- forward form of "earlier entries win" -/
def keepFirst (key : α → κ) : List α → List κ → List α
  | [], _ => []
  | x :: xs, seen => if seen.contains (key x) then keepFirst key xs seen else x :: keepFirst key xs (key x :: seen)

theorem dedupLast_snoc (key : α → κ) (l : List α) (x : α) :
    dedupLast key (l ++ [x]) = (dedupLast key l).filter (fun y => !(key y == key x)) ++ [x] := by
  induction l with
  | nil => simp [dedupLast]
  | cons y ys ih =>
    simp only [List.cons_append, dedupLast, List.any_append, List.any_cons, List.any_nil, Bool.or_false]
    by_cases h1 : ys.any (fun z => key z == key y) = true
    · simp [h1, ih]
    · simp only [Bool.not_eq_true] at h1
      by_cases h2 : (key x == key y) = true
      · have : (key y == key x) = true := by rw [eq_of_beq h2]; exact beq_self_eq_true _
        simp [h1, h2, ih, this]
      · simp only [Bool.not_eq_true] at h2
        have : (key y == key x) = false := by
          cases h : key y == key x with
          | false => rfl
          | true => have : key x = key y := (eq_of_beq h).symm; simp [this] at h2
        simp [h1, h2, ih, this]

theorem dedupFirst_cons (key : α → κ) (x : α) (xs : List α) :
    dedupFirst key (x :: xs) = x :: (dedupFirst key xs).filter (fun y => !(key y == key x)) := by
  unfold dedupFirst
  rw [List.reverse_cons, dedupLast_snoc]
  simp [List.filter_reverse]

theorem keepFirst_filter (key : α → κ) (l : List α) : ∀ (s1 s2 : List κ) (k : κ),
    keepFirst key l (s1 ++ k :: s2) = (keepFirst key l (s1 ++ s2)).filter (fun y => !(key y == k)) := by
  induction l with
  | nil => intro s1 s2 k; rfl
  | cons x xs ih =>
    intro s1 s2 k
    have hc : (s1 ++ k :: s2).contains (key x) = ((s1 ++ s2).contains (key x) || key x == k) := by
      simp only [List.contains_append, List.contains_cons]
      cases s1.contains (key x) <;> cases s2.contains (key x) <;> cases (key x == k) <;> rfl
    simp only [keepFirst, hc]
    by_cases h1 : (s1 ++ s2).contains (key x) = true
    · simp only [h1, Bool.true_or, if_true, ih]
    · simp only [Bool.not_eq_true] at h1
      by_cases h2 : (key x == k) = true
      · simp only [h1, h2, Bool.or_true, if_true, Bool.false_eq_true, if_false, ih]
        have h3 := ih [] (s1 ++ s2) (key x)
        simp only [List.nil_append] at h3
        have hk : key x = k := eq_of_beq h2
        rw [List.filter_cons]
        subst hk
        rw [h3]
        simp [List.filter_filter]
      · simp only [Bool.not_eq_true] at h2
        have := ih (key x :: s1) s2 k
        simp only [List.cons_append] at this
        simp only [h1, h2, Bool.or_false, Bool.false_eq_true, if_false, this]
        rw [List.filter_cons]
        simp [h2]

theorem dedupFirst_eq_keepFirst (key : α → κ) (l : List α) : dedupFirst key l = keepFirst key l [] := by
  induction l with
  | nil => rfl
  | cons x xs ih =>
    rw [dedupFirst_cons, ih]
    simp only [keepFirst, List.contains_nil, Bool.false_eq_true, if_false]
    have := keepFirst_filter key xs [] [] (key x)
    simp only [List.nil_append] at this
    rw [this]

omit [LawfulBEq κ] in
/-- de-duplication only looks at key equality -/
theorem dedupLast_congr {κ' : Type} [BEq κ'] (k1 : α → κ) (k2 : α → κ') (h : ∀ x y, (k1 x == k1 y) = (k2 x == k2 y))
    (l : List α) : dedupLast k1 l = dedupLast k2 l := by
  induction l with
  | nil => rfl
  | cons x xs ih =>
    have : xs.any (fun y => k1 y == k1 x) = xs.any (fun y => k2 y == k2 x) := by
      congr 1; funext y; exact h y x
    simp [dedupLast, this, ih]

omit [LawfulBEq κ] in
theorem dedupFirst_congr {κ' : Type} [BEq κ'] (k1 : α → κ) (k2 : α → κ') (h : ∀ x y, (k1 x == k1 y) = (k2 x == k2 y))
    (l : List α) : dedupFirst k1 l = dedupFirst k2 l := by
  unfold dedupFirst; rw [dedupLast_congr k1 k2 h]

end keepFirst
section kill
variable {α β κ κ' : Type} [BEq κ] [BEq κ']
  (key : α → κ) (id : α → Nat) (live : α → Bool) (a : α → β) (key' : β → κ')

/-- live entries carry a real line id, the others (cleared placeholders) the nil id -/
def IdWF (live : α → Bool) (id : α → Nat) (l : List α) : Prop :=
  ∀ x ∈ l, (live x = true → id x ≠ 0) ∧ (live x = false → id x = 0)

/-- the line ids of the live entries -/
def liveIds (live : α → Bool) (id : α → Nat) (l : List α) : List Nat := (l.filter live).map id

theorem liveIds_cons (x : α) (xs : List α) :
    liveIds live id (x :: xs) = if live x then id x :: liveIds live id xs else liveIds live id xs := by
  unfold liveIds; by_cases h : live x = true <;> simp [List.filter, h]

theorem IdWF_tail {x : α} {xs : List α} (h : IdWF live id (x :: xs)) : IdWF live id xs :=
  fun y hy => h y (List.mem_cons_of_mem _ hy)

theorem killLater_subset (l : List α) : ∀ (seen : List κ) (i : Nat), i ∈ killLater key id l seen → ∃ x ∈ l, id x = i := by
  induction l with
  | nil => intro seen i h; simp [killLater] at h
  | cons x xs ih =>
    intro seen i h
    unfold killLater at h
    split at h
    · rcases List.mem_cons.1 h with rfl | h
      · exact ⟨x, List.mem_cons_self, rfl⟩
      · rcases ih _ _ h with ⟨y, hy, e⟩; exact ⟨y, List.mem_cons_of_mem _ hy, e⟩
    · rcases ih _ _ h with ⟨y, hy, e⟩; exact ⟨y, List.mem_cons_of_mem _ hy, e⟩

/-- a live head entry's id is not the id of any entry of the tail -/
theorem head_id_fresh {x : α} {xs : List α} (hwf : IdWF live id (x :: xs)) (hnd : (liveIds live id (x :: xs)).Nodup)
    (hx : live x = true) : ∀ y ∈ xs, id y ≠ id x := by
  intro y hy e
  rw [liveIds_cons] at hnd
  simp only [hx, if_true] at hnd
  rcases List.nodup_cons.1 hnd with ⟨h1, _⟩
  by_cases hly : live y = true
  · apply h1
    rw [← e]
    exact List.mem_map.2 ⟨y, List.mem_filter.2 ⟨hy, hly⟩, rfl⟩
  · simp only [Bool.not_eq_true] at hly
    have := (hwf y (List.mem_cons_of_mem _ hy)).2 hly
    have := (hwf x List.mem_cons_self).1 hx
    omega

theorem nodup_tail {x : α} {xs : List α} (hnd : (liveIds live id (x :: xs)).Nodup) : (liveIds live id xs).Nodup := by
  rw [liveIds_cons] at hnd
  split at hnd
  · exact (List.nodup_cons.1 hnd).2
  · exact hnd

/-- ids to kill later in `K` never hit a live entry of the tail once the head's id is added -/
theorem K_snoc_ok {x : α} {xs : List α} (hwf : IdWF live id (x :: xs)) (hnd : (liveIds live id (x :: xs)).Nodup)
    {K : List Nat} (hK : ∀ y ∈ x :: xs, live y = true → id y ∉ K) : ∀ y ∈ xs, live y = true → id y ∉ K ++ [id x] := by
  intro y hy hly hmem
  rcases List.mem_append.1 hmem with h | h
  · exact hK y (List.mem_cons_of_mem _ hy) hly h
  · simp only [List.mem_singleton] at h
    by_cases hx : live x = true
    · exact head_id_fresh id live hwf hnd hx y hy h
    · simp only [Bool.not_eq_true] at hx
      have := (hwf x List.mem_cons_self).2 hx
      have := (hwf y (List.mem_cons_of_mem _ hy)).1 hly
      omega

theorem killLater_abs
    (hk : ∀ x y, live x = true → live y = true → (key y == key x) = (key' (a y) == key' (a x)))
    (hnl : ∀ x y, live x = false → live y = true → (key y == key x) = false)
    (l : List α) : ∀ (K : List Nat) (seen : List κ) (seen' : List κ'),
      IdWF live id l → (liveIds live id l).Nodup → (∀ x ∈ l, live x = true → id x ∉ K) →
      (∀ y, live y = true → seen.contains (key y) = seen'.contains (key' (a y))) →
      liveAbs live a (l.filter (fun x => !(K ++ killLater key id l seen).contains (id x)))
        = keepFirst key' (liveAbs live a l) seen' := by
  induction l with
  | nil => intro K seen seen' _ _ _ _; rfl
  | cons x xs ih =>
    intro K seen seen' hwf hnd hK hseen
    have hwf' := IdWF_tail id live hwf
    have hnd' := nodup_tail id live hnd
    unfold killLater
    by_cases hs : seen.contains (key x) = true
    · simp only [hs, if_true]
      have hrem : (!(K ++ id x :: killLater key id xs seen).contains (id x)) = false := by simp
      rw [List.filter_cons]
      simp only [hrem, Bool.false_eq_true, if_false]
      have hKK : K ++ id x :: killLater key id xs seen = (K ++ [id x]) ++ killLater key id xs seen := by simp
      rw [hKK, ih (K ++ [id x]) seen seen' hwf' hnd' (K_snoc_ok id live hwf hnd hK) hseen, liveAbs_cons]
      by_cases hl : live x = true
      · have := hseen x hl
        rw [hs] at this
        simp only [hl, if_true, keepFirst, ← this]
      · simp [hl]
    · simp only [Bool.not_eq_true] at hs
      simp only [hs, Bool.false_eq_true, if_false]
      by_cases hl : live x = true
      · have hkeep : (!(K ++ killLater key id xs (key x :: seen)).contains (id x)) = true := by
          simp only [Bool.not_eq_true', List.contains_eq_mem, decide_eq_false_iff_not, List.mem_append, not_or]
          refine ⟨hK x List.mem_cons_self hl, ?_⟩
          intro hmem
          rcases killLater_subset key id xs _ _ hmem with ⟨y, hy, e⟩
          exact head_id_fresh id live hwf hnd hl y hy e
        rw [List.filter_cons]
        simp only [hkeep, if_true]
        rw [liveAbs_cons, liveAbs_cons]
        have hs' : seen'.contains (key' (a x)) = false := by rw [← hseen x hl]; exact hs
        simp only [hl, if_true, keepFirst, hs', Bool.false_eq_true, if_false]
        congr 1
        apply ih K (key x :: seen) (key' (a x) :: seen') hwf' hnd' (fun y hy => hK y (List.mem_cons_of_mem _ hy))
        intro y hy
        simp only [List.contains_cons, hseen y hy, hk x y hl hy]
      · simp only [Bool.not_eq_true] at hl
        have hgoal : liveAbs live a ((x :: xs).filter (fun z => !(K ++ killLater key id xs (key x :: seen)).contains (id z)))
            = liveAbs live a (xs.filter (fun z => !(K ++ killLater key id xs (key x :: seen)).contains (id z))) := by
          rw [List.filter_cons]
          split
          · rw [liveAbs_cons]; simp [hl]
          · rfl
        rw [hgoal, liveAbs_cons]
        simp only [hl, Bool.false_eq_true, if_false]
        apply ih K (key x :: seen) seen' hwf' hnd' (fun y hy => hK y (List.mem_cons_of_mem _ hy))
        intro y hy
        simp only [List.contains_cons, hseen y hy, hnl x y hl hy, Bool.false_or]

theorem killEarlier_subset (l : List Replace) : ∀ (i : Nat), i ∈ killEarlier l → ∃ x ∈ l, x.lineId = i := by
  induction l with
  | nil => intro i h; simp [killEarlier] at h
  | cons x xs ih =>
    intro i h
    unfold killEarlier at h
    split at h
    · rcases List.mem_cons.1 h with rfl | h
      · exact ⟨x, List.mem_cons_self, rfl⟩
      · rcases ih _ h with ⟨y, hy, e⟩; exact ⟨y, List.mem_cons_of_mem _ hy, e⟩
    · rcases ih _ h with ⟨y, hy, e⟩; exact ⟨y, List.mem_cons_of_mem _ hy, e⟩

theorem liveAbs_mem {α β : Type} (live : α → Bool) (a : α → β) (l : List α) (b : β) :
    b ∈ liveAbs live a l ↔ ∃ x ∈ l, live x = true ∧ a x = b := by
  unfold liveAbs
  simp only [List.mem_map, List.mem_filter]
  constructor
  · rintro ⟨x, ⟨h1, h2⟩, h3⟩; exact ⟨x, h1, h2, h3⟩
  · rintro ⟨x, h1, h2, h3⟩; exact ⟨x, ⟨h1, h2⟩, h3⟩

theorem killEarlier_abs {β κ' : Type} [BEq κ'] (live : Replace → Bool) (a : Replace → β) (key' : β → κ')
    (hk : ∀ x y, live x = true → live y = true → (y.old == x.old) = (key' (a y) == key' (a x)))
    (hnl : ∀ x y, live x = true → live y = false → (y.old == x.old) = false)
    (l : List Replace) : ∀ (K : List Nat),
      IdWF live (·.lineId) l → (liveIds live (·.lineId) l).Nodup → (∀ x ∈ l, live x = true → x.lineId ∉ K) →
      liveAbs live a (l.filter (fun x => !(K ++ killEarlier l).contains x.lineId)) = dedupLast key' (liveAbs live a l) := by
  induction l with
  | nil => intro K _ _ _; rfl
  | cons x xs ih =>
    intro K hwf hnd hK
    have hwf' := IdWF_tail (·.lineId) live hwf
    have hnd' := nodup_tail (·.lineId) live hnd
    -- the specification's test on the live abstraction is the model's test
    have hany : live x = true → (liveAbs live a xs).any (fun y => key' y == key' (a x)) = xs.any (fun y => y.old == x.old) := by
      intro hl
      cases hc : xs.any (fun y => y.old == x.old) with
      | true =>
        rcases List.any_eq_true.1 hc with ⟨y, hy, hyx⟩
        have hly : live y = true := by
          cases h : live y with
          | true => rfl
          | false => rw [hnl x y hl h] at hyx; exact absurd hyx (by simp)
        exact List.any_eq_true.2 ⟨a y, (liveAbs_mem live a xs _).2 ⟨y, hy, hly, rfl⟩, by rw [← hk x y hl hly]; exact hyx⟩
      | false =>
        apply List.any_eq_false.2
        intro b hb
        rcases (liveAbs_mem live a xs b).1 hb with ⟨y, hy, hly, rfl⟩
        rw [← hk x y hl hly]
        have := List.any_eq_false.1 hc y hy
        simpa using this
    unfold killEarlier
    by_cases hc : xs.any (fun y => y.old == x.old) = true
    · simp only [hc, if_true]
      have hrem : (!(K ++ x.lineId :: killEarlier xs).contains x.lineId) = false := by simp
      rw [List.filter_cons]
      simp only [hrem, Bool.false_eq_true, if_false]
      have hKK : K ++ x.lineId :: killEarlier xs = (K ++ [x.lineId]) ++ killEarlier xs := by simp
      rw [hKK, ih (K ++ [x.lineId]) hwf' hnd' (K_snoc_ok (·.lineId) live hwf hnd hK), liveAbs_cons]
      by_cases hl : live x = true
      · simp only [hl, if_true, dedupLast, hany hl, hc]
      · simp [hl]
    · simp only [Bool.not_eq_true] at hc
      simp only [hc, Bool.false_eq_true, if_false]
      by_cases hl : live x = true
      · have hkeep : (!(K ++ killEarlier xs).contains x.lineId) = true := by
          simp only [Bool.not_eq_true', List.contains_eq_mem, decide_eq_false_iff_not, List.mem_append, not_or]
          refine ⟨hK x List.mem_cons_self hl, ?_⟩
          intro hmem
          rcases killEarlier_subset xs _ hmem with ⟨y, hy, e⟩
          exact head_id_fresh (·.lineId) live hwf hnd hl y hy e
        rw [List.filter_cons]
        simp only [hkeep, if_true]
        rw [liveAbs_cons, liveAbs_cons]
        simp only [hl, if_true, dedupLast, hany hl, hc, Bool.false_eq_true, if_false]
        congr 1
        exact ih K hwf' hnd' (fun y hy => hK y (List.mem_cons_of_mem _ hy))
      · simp only [Bool.not_eq_true] at hl
        have hgoal : liveAbs live a ((x :: xs).filter (fun z => !(K ++ killEarlier xs).contains z.lineId))
            = liveAbs live a (xs.filter (fun z => !(K ++ killEarlier xs).contains z.lineId)) := by
          rw [List.filter_cons]
          split
          · rw [liveAbs_cons]; simp [hl]
          · rfl
        rw [hgoal, liveAbs_cons]
        simp only [hl, Bool.false_eq_true, if_false]
        exact ih K hwf' hnd' (fun y hy => hK y (List.mem_cons_of_mem _ hy))

end kill

end ModVerif.Modfile.Edit
