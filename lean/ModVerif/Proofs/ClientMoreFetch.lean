/-
  ClientMore, part 6 — `fetch_once`: the once-per-key cache machine (Model/ParCache.lean) instantiated with the keys
  `Client.Lookup` uses for its record cache.

      epath, err := module.EscapePath(path)
      evers, err := module.EscapeVersion(strings.TrimSuffix(vers, "/go.mod"))
      remotePath := "/lookup/" + epath + "@" + evers
      file := c.name + remotePath
      result := c.record.Do(file, func() interface{} { ReadCache(file) / ReadRemote(remotePath) / … })

  `lookupFile` is that `file` (`none` = Lookup returns the escape error before it reaches `Do`); `lookupKey` numbers the
  files injectively.  Two requests share a key exactly when they name the same module path (case sensitive: the
  escaping is injective) and the same version after the `/go.mod` suffix is stripped.
-/
import ModVerif.Proofs.ParCacheInv
import ModVerif.Props.C11
import ModVerif.Model.Tile
namespace ModVerif.ClientFetch
open ModVerif ModVerif.Module

/-- `strings.TrimSuffix(vers, "/go.mod")` (same definition as `Client.trimGoMod` of Model/Client.lean) -/
def trimGoMod (vers : Bytes) : Bytes := Module.trimSuffixB vers (B "/go.mod")

/-- the cache file name / `parCache` key of `Lookup(path, vers)` on the client named `name` -/
def lookupFile (isLetter : Nat → Bool) (name path vers : Bytes) : Option Bytes :=
  match Module.escapePath path with
  | .error _ => none
  | .ok epath =>
    match Module.escapeVersion isLetter (trimGoMod vers) with
    | .error _ => none
    | .ok evers => some (name ++ (B "/lookup/" ++ epath ++ [64] ++ evers))

/-- injective numbering of byte strings (bijective base 257) -/
def encBytes : Bytes → Nat
  | [] => 0
  | b :: bs => b.toNat + 1 + 257 * encBytes bs

theorem encBytes_inj : ∀ a b : Bytes, encBytes a = encBytes b → a = b := by
  intro a
  induction a with
  | nil =>
    intro b h
    cases b with
    | nil => rfl
    | cons y ys => simp only [encBytes] at h; omega
  | cons x xs ih =>
    intro b h
    cases b with
    | nil => simp only [encBytes] at h; omega
    | cons y ys =>
      simp only [encBytes] at h
      have hx := x.toNat_lt; have hy := y.toNat_lt
      have h1 : x.toNat = y.toNat := by omega
      have h2 : encBytes xs = encBytes ys := by omega
      rw [ih ys h2, UInt8.toNat_inj.mp h1]

/-- the `parCache` key as a number; `0` stands for "no call of `Do`" (the request is rejected before) -/
def lookupKey (isLetter : Nat → Bool) (name path vers : Bytes) : Nat :=
  match lookupFile isLetter name path vers with
  | none => 0
  | some f => encBytes f + 1

theorem lookupKey_eq_iff (isLetter : Nat → Bool) (name p v q w f g : Bytes)
    (hf : lookupFile isLetter name p v = some f) (hg : lookupFile isLetter name q w = some g) :
    lookupKey isLetter name p v = lookupKey isLetter name q w ↔ f = g := by
  simp only [lookupKey, hf, hg]
  constructor
  · intro h; exact encBytes_inj f g (by omega)
  · intro h; rw [h]

/-! ### `/go.mod` -/

theorem isPrefixOfB_self_append : ∀ a b : Bytes, isPrefixOfB a (a ++ b) = true
  | [], _ => rfl
  | x :: xs, b => by simp [isPrefixOfB, isPrefixOfB_self_append xs b]

theorem hasSuffixB_append (s suf : Bytes) : hasSuffixB (s ++ suf) suf = true := by
  simp [hasSuffixB, isPrefixOfB_self_append]

/-- `v/go.mod` is trimmed to `v` -/
theorem trimGoMod_append (v : Bytes) : trimGoMod (v ++ B "/go.mod") = v := by
  simp [trimGoMod, Module.trimSuffixB, hasSuffixB_append]

/-- a version without the suffix is left alone -/
theorem trimGoMod_id (v : Bytes) (h : hasSuffixB v (B "/go.mod") = false) : trimGoMod v = v := by
  simp [trimGoMod, Module.trimSuffixB, h]

/-- **The two spellings of a request — `v` and `v/go.mod` — use the same cache file**, for every path, whenever `v`
itself does not end in `/go.mod`. -/
theorem lookupFile_gomod (isLetter : Nat → Bool) (name path v : Bytes) (h : hasSuffixB v (B "/go.mod") = false) :
    lookupFile isLetter name path (v ++ B "/go.mod") = lookupFile isLetter name path v := by
  simp only [lookupFile, trimGoMod_append, trimGoMod_id v h]

/-! ### the key determines path and trimmed version -/

theorem escapeRunes_no_at (s : Bytes) (hs : ∀ b ∈ s, b.toNat < 128 ∧ b.toNat ≠ 64) :
    ∀ c ∈ escapeRunes (s.map (·.toNat)), c.toNat ≠ 64 := by
  induction s with
  | nil => intro c hc; simp [escapeRunes] at hc
  | cons b s ih =>
    have hb := hs b (by simp)
    have ih' := ih (fun c hc => hs c (by simp [hc]))
    intro c hc
    simp only [List.map_cons, escapeRunes] at hc
    split at hc
    · rename_i hup
      simp at hup
      simp only [List.mem_cons] at hc
      rcases hc with rfl | rfl | hc
      · simp
      · rw [toNat_ofNat_lt _ (by omega)]; omega
      · exact ih' c hc
    · simp only [List.mem_cons] at hc
      rcases hc with rfl | hc
      · rw [toNat_ofNat_lt _ (by omega)]; omega
      · exact ih' c hc

/-- an escaped module path contains no `@` -/
theorem escapePath_no_at (p e : Bytes) (h : escapePath p = .ok e) : (64 : UInt8) ∉ e := by
  obtain ⟨hv, hs⟩ := (escapePath_ok_iff p e).mp h
  obtain ⟨hall, rfl⟩ := escapeString_some p e hs
  intro hmem
  refine escapeRunes_no_at p (fun b hb => ⟨okByte_ascii p hall b hb, ?_⟩) 64 hmem rfl
  rcases checkModPath_bytes p hv b hb with h47 | hok
  · subst h47; decide
  · intro h64; rw [h64] at hok; revert hok; decide

theorem split_at_first (c : UInt8) : ∀ (a a' b b' : Bytes), c ∉ a → c ∉ a' → a ++ c :: b = a' ++ c :: b' → a = a' ∧ b = b' := by
  intro a
  induction a with
  | nil =>
    intro a' b b' _ h2 h
    cases a' with
    | nil => simpa using h
    | cons x xs => simp at h; exact absurd (by simp [h.1]) h2
  | cons x xs ih =>
    intro a' b b' h1 h2 h
    cases a' with
    | nil => simp at h; exact absurd (by simp [h.1]) h1
    | cons y ys =>
      simp only [List.cons_append, List.cons.injEq] at h
      obtain ⟨e1, e2⟩ := ih ys b b' (fun hm => h1 (by simp [hm])) (fun hm => h2 (by simp [hm])) h.2
      exact ⟨by rw [h.1, e1], e2⟩

/-- **Which requests share a cache file**: exactly those with the same module path (byte for byte — `Foo` and `foo`
are different modules with different files, `!foo` and `foo`) and the same version once `/go.mod` is stripped. -/
theorem lookupFile_eq_iff (isLetter : Nat → Bool) (name p v q w f g : Bytes)
    (hf : lookupFile isLetter name p v = some f) (hg : lookupFile isLetter name q w = some g) :
    f = g ↔ p = q ∧ trimGoMod v = trimGoMod w := by
  unfold lookupFile at hf hg
  cases h1 : escapePath p with
  | error x => simp [h1] at hf
  | ok ep =>
    cases h2 : escapeVersion isLetter (trimGoMod v) with
    | error x => simp [h1, h2] at hf
    | ok ev =>
      cases h3 : escapePath q with
      | error x => simp [h3] at hg
      | ok eq =>
        cases h4 : escapeVersion isLetter (trimGoMod w) with
        | error x => simp [h3, h4] at hg
        | ok ew =>
          simp only [h1, h2, Option.some.injEq] at hf
          simp only [h3, h4, Option.some.injEq] at hg
          subst hf; subst hg
          constructor
          · intro h
            have h' := List.append_cancel_left h
            simp only [List.append_assoc, List.singleton_append] at h'
            have h'' := List.append_cancel_left h'
            obtain ⟨e1, e2⟩ := split_at_first 64 ep eq ev ew (escapePath_no_at p ep h1) (escapePath_no_at q eq h3) h''
            subst e1; subst e2
            exact ⟨Props.C11.escapePath_fold_inj p q ep ep h1 h3 rfl,
              Props.C11.escapeVersion_fold_inj isLetter _ _ ev ev h2 h4 rfl⟩
          · rintro ⟨rfl, e⟩
            rw [e] at h2
            rw [h1] at h3; rw [h2] at h4
            cases h3; cases h4; rfl

/-! ### the composition with `parCache_once` -/

section
open ModVerif.ParCache
variable {V : Type}

/-- **Each distinct lookup is fetched at most once per client, and every caller gets that fetch's result.**
The record cache of one client, `c.record`, is a `parCache`; caller `i` performs `Lookup(path i, vers i)`, i.e.
`c.record.Do(file i, f i)` where `f i` does the `ReadCache` / `ReadRemote` / verification of `file i`
(`fval i` = what `f i` would return).  In every state of every interleaving:
 * the fetch function has run at most once for every key — hence at most once per distinct cache file;
 * two callers whose requests share a cache file (same path, same version up to `/go.mod`) and that have returned
   received the same result: the result of the one fetch that ran for that file. -/
theorem fetch_once_inv (isLetter : Nat → Bool) (name : Bytes) (path vers : Nat → Bytes) (fval : Nat → V) (s : St V)
    (h : Reachable (fun i => lookupKey isLetter name (path i) (vers i)) fval s) :
    (∀ k, s.runs k ≤ 1) ∧
    (∀ i, s.pc i = .returned →
      s.runs (lookupKey isLetter name (path i) (vers i)) = 1 ∧
      (s.ran (lookupKey isLetter name (path i) (vers i))).isSome = true ∧
      s.got i = s.ran (lookupKey isLetter name (path i) (vers i))) ∧
    (∀ i j, s.pc i = .returned → s.pc j = .returned →
      lookupFile isLetter name (path i) (vers i) = lookupFile isLetter name (path j) (vers j) → s.got i = s.got j) := by
  have hI := inv_reachable _ fval s h
  refine ⟨hI.runs_le, fun i hi => ⟨(hI.returned_ok i hi).2.2, (hI.returned_ok i hi).2.1, (hI.returned_ok i hi).1⟩, ?_⟩
  intro i j hi hj hf
  have hk : lookupKey isLetter name (path i) (vers i) = lookupKey isLetter name (path j) (vers j) := by
    simp only [lookupKey, hf]
  rw [(hI.returned_ok i hi).1, (hI.returned_ok j hj).1, hk]

/-- The same for ANY key type with an injective numbering (`sync.Map` compares keys with `==`): at most one run per
key, and callers with equal keys that have returned hold the same result. -/
theorem once_per_key {K : Type} (enc : K → Nat) (hinj : ∀ a b, enc a = enc b → a = b) (keyOf : Nat → K) (fval : Nat → V)
    (s : St V) (h : Reachable (fun i => enc (keyOf i)) fval s) :
    (∀ k, s.runs (enc k) ≤ 1) ∧
    (∀ i, s.pc i = .returned → s.runs (enc (keyOf i)) = 1 ∧ s.got i = s.ran (enc (keyOf i)) ∧ (s.got i).isSome = true) ∧
    (∀ i j, s.pc i = .returned → s.pc j = .returned → (keyOf i = keyOf j ↔ enc (keyOf i) = enc (keyOf j)) ∧
      (keyOf i = keyOf j → s.got i = s.got j)) := by
  have hI := inv_reachable _ fval s h
  refine ⟨fun k => hI.runs_le _, fun i hi => ?_, fun i j hi hj => ⟨⟨fun e => by rw [e], hinj _ _⟩, fun e => ?_⟩⟩
  · have := hI.returned_ok i hi
    exact ⟨this.2.2, this.1, by rw [this.1]; exact this.2.1⟩
  · have h1 := (hI.returned_ok i hi).1
    have h2 := (hI.returned_ok j hj).1
    rw [h1, h2, e]

end

/-! ### the tile cache: `c.tileCache.Do(tile, …)` is keyed by the `tlog.Tile` value -/

/-- injective numbering of lists of numbers -/
def encNats : List Nat → Nat
  | [] => 0
  | x :: xs => 2 ^ x * (2 * encNats xs + 1)

theorem pow_odd_inj : ∀ (x y a b : Nat), 2 ^ x * (2 * a + 1) = 2 ^ y * (2 * b + 1) → x = y ∧ a = b := by
  intro x
  induction x with
  | zero =>
    intro y a b h
    cases y with
    | zero => simp at h; exact ⟨rfl, by omega⟩
    | succ y =>
      have e : 2 ^ (y + 1) * (2 * b + 1) = 2 * (2 ^ y * (2 * b + 1)) := by rw [Nat.pow_succ]; ac_rfl
      rw [e] at h; simp at h; omega
  | succ x ih =>
    intro y a b h
    have e1 : 2 ^ (x + 1) * (2 * a + 1) = 2 * (2 ^ x * (2 * a + 1)) := by rw [Nat.pow_succ]; ac_rfl
    cases y with
    | zero => rw [e1] at h; simp at h; omega
    | succ y =>
      have e2 : 2 ^ (y + 1) * (2 * b + 1) = 2 * (2 ^ y * (2 * b + 1)) := by rw [Nat.pow_succ]; ac_rfl
      rw [e1, e2] at h
      obtain ⟨h1, h2⟩ := ih y a b (by omega)
      exact ⟨by omega, h2⟩

theorem encNats_inj : ∀ a b : List Nat, encNats a = encNats b → a = b := by
  intro a
  induction a with
  | nil =>
    intro b h
    cases b with
    | nil => rfl
    | cons y ys =>
      simp only [encNats] at h
      have : 0 < 2 ^ y * (2 * encNats ys + 1) := Nat.mul_pos (Nat.pow_pos (by omega)) (by omega)
      omega
  | cons x xs ih =>
    intro b h
    cases b with
    | nil =>
      simp only [encNats] at h
      have : 0 < 2 ^ x * (2 * encNats xs + 1) := Nat.mul_pos (Nat.pow_pos (by omega)) (by omega)
      omega
    | cons y ys =>
      simp only [encNats] at h
      obtain ⟨h1, h2⟩ := pow_odd_inj x y _ _ h
      rw [h1, ih ys h2]

/-- the tile cache key: the `tlog.Tile` value itself (height, level, index, width) -/
def tileKey (t : Tile.Tile) : Nat := encNats [t.h, t.l, t.n, t.w, t.data.toNat]

theorem tileKey_inj (t u : Tile.Tile) (h : tileKey t = tileKey u) : t = u := by
  have := encNats_inj _ _ h
  simp only [List.cons.injEq, and_true] at this
  obtain ⟨h1, h2, h3, h4, h5⟩ := this
  cases t; cases u
  simp only [Tile.Tile.mk.injEq]
  refine ⟨h1, h2, h3, h4, ?_⟩
  rename_i d1 _ _ _ _ d2
  cases d1 <;> cases d2 <;> simp_all

end ModVerif.ClientFetch
