/-
  Helper lemmas for C06: shape of SplitPathVersion / splitGopkgIn results.
-/
import ModVerif.Model.Module
import ModVerif.Spec.PathSpec
namespace ModVerif.Module
open ModVerif

theorem isPrefixOfB_iff (a b : Bytes) : isPrefixOfB a b = true ↔ ∃ t, b = a ++ t := by
  induction a generalizing b with
  | nil => simp [isPrefixOfB]
  | cons x a ih =>
    cases b with
    | nil => simp [isPrefixOfB]
    | cons y b =>
      simp only [isPrefixOfB, Bool.and_eq_true, beq_iff_eq, ih, List.cons_append, List.cons.injEq]
      constructor
      · rintro ⟨rfl, t, rfl⟩; exact ⟨t, rfl, rfl⟩
      · rintro ⟨t, rfl, rfl⟩; exact ⟨rfl, t, rfl⟩

theorem isDigit_iff (c : UInt8) : isDigit c = true ↔ 48 ≤ c.toNat ∧ c.toNat ≤ 57 := by
  simp [isDigit, UInt8.le_iff_toNat_le]

theorem splitPathVersion_nongopkg (p pre maj : Bytes) (hg : isPrefixOfB (B "gopkg.in/") p = false)
    (h : splitPathVersion p = (pre, maj, true)) :
    pre ++ maj = p ∧ (maj = [] ∨ PathSpec.SlashMajor maj) := by
  unfold splitPathVersion at h
  simp only [hg, Bool.false_eq_true, if_false] at h
  have hsplit : p.reverse.takeWhile (fun c => isDigit c || c == 46) ++ p.reverse.dropWhile (fun c => isDigit c || c == 46) = p.reverse :=
    List.takeWhile_append_dropWhile
  have hall : ∀ c ∈ p.reverse.takeWhile (fun c => isDigit c || c == 46), (isDigit c || c == 46) = true := by
    intro c hc
    have := List.all_eq_true.mp (List.all_takeWhile (l := p.reverse) (p := fun c => isDigit c || c == 46)) c hc
    exact this
  generalize p.reverse.takeWhile (fun c => isDigit c || c == 46) = tl at h hsplit hall
  generalize p.reverse.dropWhile (fun c => isDigit c || c == 46) = rest at h hsplit
  have hB : B "/v1" = [47, 118, 49] := by decide +kernel
  split at h
  · simp only [Prod.mk.injEq] at h
    obtain ⟨rfl, rfl, _⟩ := h
    simp
  · rename_i hne
    split at h
    · rename_i pre'
      split at h
      · simp at h
      · rename_i hc
        simp only [Prod.mk.injEq] at h
        obtain ⟨rfl, rfl, _⟩ := h
        simp only [Bool.or_eq_true, not_or, Bool.not_eq_true] at hc
        obtain ⟨⟨⟨hdot, _⟩, h0⟩, h1⟩ := hc
        constructor
        · have := congrArg List.reverse hsplit
          simp at this
          simp [← this]
        · right
          refine ⟨tl.reverse, rfl, ⟨?_, ?_, ?_⟩, ?_, ?_⟩
          · intro h; apply hne; simpa using h
          · intro d hd
            have hd' : d ∈ tl := by simpa using hd
            have := hall d hd'
            have hd46 : d ≠ 46 := by
              intro h46; subst h46
              have : tl.contains 46 = true := by simpa using hd'
              rw [hdot] at this; cases this
            have : isDigit d = true := by simpa [hd46] using this
            exact (isDigit_iff d).mp this
          · intro h48
            simp at h0
            rw [List.head?_eq_getElem?] at h48
            exact absurd h48 h0
          · intro h48
            simp at h0
            rw [h48] at h0; simp at h0
          · intro h49
            rw [hB, h49] at h1; simp at h1
    · simp only [Prod.mk.injEq] at h
      obtain ⟨rfl, rfl, _⟩ := h
      simp

end ModVerif.Module
