/-
  Helper lemmas for C06: shape of SplitPathVersion / splitGopkgIn results.
-/
import ModVerif.Model.Module
import ModVerif.Spec.PathSpec
namespace ModVerif.Module
open ModVerif

theorem isPrefixOfB_iff (a b : Bytes) : isPrefixOfB a b = true ↔ ∃ t, b = a ++ t := by
  induction a generalizing b with
  | nil => simp [isPrefixOfB]
  | cons x a ih =>
    cases b with
    | nil => simp [isPrefixOfB]
    | cons y b =>
      simp only [isPrefixOfB, Bool.and_eq_true, beq_iff_eq, ih, List.cons_append, List.cons.injEq]
      constructor
      · rintro ⟨rfl, t, rfl⟩; exact ⟨t, rfl, rfl⟩
      · rintro ⟨t, rfl, rfl⟩; exact ⟨rfl, t, rfl⟩

theorem isDigit_iff (c : UInt8) : isDigit c = true ↔ 48 ≤ c.toNat ∧ c.toNat ≤ 57 := by
  simp [isDigit, UInt8.le_iff_toNat_le]

theorem splitPathVersion_nongopkg (p pre maj : Bytes) (hg : isPrefixOfB (B "gopkg.in/") p = false)
    (h : splitPathVersion p = (pre, maj, true)) :
    pre ++ maj = p ∧ (maj = [] ∨ PathSpec.SlashMajor maj) := by
  unfold splitPathVersion at h
  simp only [hg, Bool.false_eq_true, if_false] at h
  have hsplit : p.reverse.takeWhile (fun c => isDigit c || c == 46) ++ p.reverse.dropWhile (fun c => isDigit c || c == 46) = p.reverse :=
    List.takeWhile_append_dropWhile
  have hall : ∀ c ∈ p.reverse.takeWhile (fun c => isDigit c || c == 46), (isDigit c || c == 46) = true := by
    intro c hc
    have := List.all_eq_true.mp (List.all_takeWhile (l := p.reverse) (p := fun c => isDigit c || c == 46)) c hc
    exact this
  generalize p.reverse.takeWhile (fun c => isDigit c || c == 46) = tl at h hsplit hall
  generalize p.reverse.dropWhile (fun c => isDigit c || c == 46) = rest at h hsplit
  have hB : B "/v1" = [47, 118, 49] := by decide +kernel
  split at h
  · simp only [Prod.mk.injEq] at h
    obtain ⟨rfl, rfl, _⟩ := h
    simp
  · rename_i hne
    split at h
    · rename_i pre'
      split at h
      · simp at h
      · rename_i hc
        simp only [Prod.mk.injEq] at h
        obtain ⟨rfl, rfl, _⟩ := h
        simp only [Bool.or_eq_true, not_or, Bool.not_eq_true] at hc
        obtain ⟨⟨⟨hdot, _⟩, h0⟩, h1⟩ := hc
        constructor
        · have := congrArg List.reverse hsplit
          simp at this
          simp [← this]
        · right
          refine ⟨tl.reverse, rfl, ⟨?_, ?_, ?_⟩, ?_, ?_⟩
          · intro h; apply hne; simpa using h
          · intro d hd
            have hd' : d ∈ tl := by simpa using hd
            have := hall d hd'
            have hd46 : d ≠ 46 := by
              intro h46; subst h46
              have : tl.contains 46 = true := by simpa using hd'
              rw [hdot] at this; cases this
            have : isDigit d = true := by simpa [hd46] using this
            exact (isDigit_iff d).mp this
          · intro h48
            simp at h0
            rw [List.head?_eq_getElem?] at h48
            exact absurd h48 h0
          · intro h48
            simp at h0
            rw [h48] at h0; simp at h0
          · intro h49
            rw [hB, h49] at h1; simp at h1
    · simp only [Prod.mk.injEq] at h
      obtain ⟨rfl, rfl, _⟩ := h
      simp

theorem splitGopkgIn_ok (p pre maj : Bytes) (h : splitGopkgIn p = (pre, maj, true)) :
    pre ++ maj = p ∧ isPrefixOfB (B "gopkg.in/") p = true ∧ PathSpec.GopkgMajor maj := by
  unfold splitGopkgIn at h
  split at h
  · simp at h
  · rename_i hpre
    simp only [Bool.not_eq_eq_eq_not, Bool.not_true] at hpre
    have hpre' : isPrefixOfB (B "gopkg.in/") p = true := by
      cases hh : isPrefixOfB (B "gopkg.in/") p
      · rw [hh] at hpre; simp at hpre
      · rfl
    -- the reversed path without the optional "-unstable"
    have hrev1 : ∃ sfx : Bytes, (sfx = [] ∨ sfx = B "-unstable") ∧
        (if hasSuffixB p (B "-unstable") = true then B "-unstable" else []) = sfx ∧
        p = ((if hasSuffixB p (B "-unstable") = true then p.reverse.drop 9 else p.reverse)).reverse ++ sfx := by
      cases hu : hasSuffixB p (B "-unstable")
      · exact ⟨[], Or.inl rfl, by simp, by simp⟩
      · refine ⟨B "-unstable", Or.inr rfl, by simp, ?_⟩
        obtain ⟨t, ht⟩ := (isPrefixOfB_iff _ _).mp hu
        have hlen : (B "-unstable").reverse.length = 9 := by decide +kernel
        have : p.reverse.drop 9 = t := by rw [ht, ← hlen]; simp
        simp only [if_true, this]
        have := congrArg List.reverse ht
        simpa using this
    obtain ⟨sfx, hsfx, hsfx', hp⟩ := hrev1
    dsimp only at h
    rw [hsfx'] at h
    generalize (if hasSuffixB p (B "-unstable") = true then p.reverse.drop 9 else p.reverse) = rev1 at h hp
    have hsplit : rev1.takeWhile isDigit ++ rev1.dropWhile isDigit = rev1 := List.takeWhile_append_dropWhile
    have hall : ∀ c ∈ rev1.takeWhile isDigit, isDigit c = true := by
      intro c hc
      exact List.all_eq_true.mp (List.all_takeWhile (l := rev1) (p := isDigit)) c hc
    generalize rev1.takeWhile isDigit = digs at h hsplit hall
    generalize rev1.dropWhile isDigit = rest at h hsplit
    split at h
    · simp at h
    · rename_i hne
      split at h
      · rename_i pre'
        split at h
        · simp at h
        · rename_i hc
          simp only [Prod.mk.injEq] at h
          obtain ⟨rfl, rfl, _⟩ := h
          refine ⟨?_, hpre', digs.reverse, ⟨?_, ?_, ?_⟩, ?_⟩
          · rw [hp, ← hsplit]; simp
          · intro h; apply hne; simpa using h
          · intro d hd
            exact (isDigit_iff d).mp (hall d (by simpa using hd))
          · intro h48
            simp only [Bool.or_eq_true, not_or, Bool.not_eq_true, Bool.and_eq_false_iff] at hc
            have hc2 := hc.2
            have hnum : digs.reverse ≠ [] := by intro h; apply hne; simpa using h
            have h2 : (46 :: 118 :: (digs.reverse ++ sfx))[2]? = some 48 := by
              cases hd : digs.reverse with
              | nil => exact absurd hd hnum
              | cons x xs => rw [hd] at h48; simp at h48; simp [h48]
            rcases hc2 with hc2 | hc2
            · rw [h2] at hc2; simp at hc2
            · have hB : B ".v0" = [46, 118, 48] := by decide +kernel
              simp only [bne_eq_false_iff_eq, hB, List.cons.injEq, true_and] at hc2
              cases hd : digs.reverse with
              | nil => exact absurd hd hnum
              | cons x xs =>
                rw [hd] at hc2
                simp at hc2
                simp [hc2.1, hc2.2.1]
          · rcases hsfx with rfl | rfl
            · left; simp
            · right; rfl
      · simp at h

end ModVerif.Module
