/-
  Helper lemmas for Tie/FnRuleLeaf.lean, part B: parseVersionInterval on token VIEWS.

  `pviOut path toks fx` is the Go function on a token LIST (same branch order as rule.go; the in-place stores
  `*s = …` of parseVersion become the new list): interval, error, number of tokens consumed (the returned `args` is the view
  advanced by that many tokens), tokens after the stores.  `parseVersionInterval_spec`: the regenerated function on a view
  `TokView h r pre toks` computes exactly that, the heap afterwards is `setToksH h r.owner (pre ++ out.toks)`.
  `pviOut_model`: `pviOut` is the hand model's `parseVersionInterval` (errors under `errAbs`).
-/
import ModVerif.Proofs.TieFnRuleLeafA
set_option linter.unusedSimpArgs false
set_option linter.unusedVariables false
namespace ModVerif.Tie.FnRuleLeafB
open ModVerif ModVerif.GoRt ModVerif.Generated ModVerif.Tie.FnRuleRep ModVerif.Tie.FnRuleLeafA
open ModVerif.Drv.GenModfile (isPrintI unquoteI)
open ModVerif.Drv.GenRule (fixG)

/-! ### views of cons lists -/

section view
variable {h : Rule.Heap} {r : Rule.TokRef} {pre : List Bytes}

theorem V.len (toks : List Bytes) (v : TokView h r pre toks) : Rule.TokRef.len r h = .ok (toks.length : Int) := v.len

theorem V.get0 {t : Bytes} {rest : List Bytes} (v : TokView h r pre (t :: rest)) : Rule.TokRef.get r 0 h = .ok t :=
  v.getI 0 (by omega) rfl

theorem V.get1 {t u : Bytes} {rest : List Bytes} (v : TokView h r pre (t :: u :: rest)) : Rule.TokRef.get r 1 h = .ok u :=
  v.getI 1 (by omega) rfl

theorem V.get2 {t u x : Bytes} {rest : List Bytes} (v : TokView h r pre (t :: u :: x :: rest)) : Rule.TokRef.get r 2 h = .ok x :=
  v.getI 2 (by omega) rfl

theorem V.get3 {t u x y : Bytes} {rest : List Bytes} (v : TokView h r pre (t :: u :: x :: y :: rest)) :
    Rule.TokRef.get r 3 h = .ok y :=
  v.getI 3 (by omega) rfl

theorem V.get4 {t u x y z : Bytes} {rest : List Bytes} (v : TokView h r pre (t :: u :: x :: y :: z :: rest)) :
    Rule.TokRef.get r 4 h = .ok z :=
  v.getI 4 (by omega) rfl

theorem V.set0 {t : Bytes} {rest : List Bytes} (v : TokView h r pre (t :: rest)) (x : Bytes) :
    Rule.TokRef.set r 0 x h = .ok (setToksH h r.owner (pre ++ x :: rest)) ∧
      TokView (setToksH h r.owner (pre ++ x :: rest)) r pre (x :: rest) :=
  v.setI 0 (by omega) (by simp) x

theorem V.set1 {t u : Bytes} {rest : List Bytes} (v : TokView h r pre (t :: u :: rest)) (x : Bytes) :
    Rule.TokRef.set r 1 x h = .ok (setToksH h r.owner (pre ++ t :: x :: rest)) ∧
      TokView (setToksH h r.owner (pre ++ t :: x :: rest)) r pre (t :: x :: rest) :=
  v.setI 1 (by omega) (by simp) x

theorem V.set2 {t u y : Bytes} {rest : List Bytes} (v : TokView h r pre (t :: u :: y :: rest)) (x : Bytes) :
    Rule.TokRef.set r 2 x h = .ok (setToksH h r.owner (pre ++ t :: u :: x :: rest)) ∧
      TokView (setToksH h r.owner (pre ++ t :: u :: x :: rest)) r pre (t :: u :: x :: rest) :=
  v.setI 2 (by omega) (by simp) x

theorem V.set3 {t u y z : Bytes} {rest : List Bytes} (v : TokView h r pre (t :: u :: y :: z :: rest)) (x : Bytes) :
    Rule.TokRef.set r 3 x h = .ok (setToksH h r.owner (pre ++ t :: u :: y :: x :: rest)) ∧
      TokView (setToksH h r.owner (pre ++ t :: u :: y :: x :: rest)) r pre (t :: u :: y :: x :: rest) :=
  v.setI 3 (by omega) (by simp) x

theorem V.set4 {t u y z a : Bytes} {rest : List Bytes} (v : TokView h r pre (t :: u :: y :: z :: a :: rest)) (x : Bytes) :
    Rule.TokRef.set r 4 x h = .ok (setToksH h r.owner (pre ++ t :: u :: y :: z :: x :: rest)) ∧
      TokView (setToksH h r.owner (pre ++ t :: u :: y :: z :: x :: rest)) r pre (t :: u :: y :: z :: x :: rest) :=
  v.setI 4 (by omega) (by simp) x

theorem V.drop1 {t : Bytes} {rest : List Bytes} (v : TokView h r pre (t :: rest)) :
    Rule.TokRef.drop r 1 h = .ok { r with lo := r.lo + 1 } ∧ TokView h { r with lo := r.lo + 1 } (pre ++ [t]) rest :=
  v.dropI 1 (by omega) (by simp)

end view

/-! ### the Go function on a token list -/

def tokSum (toks : List Bytes) : Nat := (toks.map (·.length)).sum

@[simp] theorem tokSum_nil : tokSum [] = 0 := rfl
@[simp] theorem tokSum_cons (t : Bytes) (ts : List Bytes) : tokSum (t :: ts) = t.length + tokSum ts := by simp [tokSum]

structure PviOut where
  vi : Rule.VersionInterval
  err : Option String
  dropped : Int
  toks : List Bytes

def viOf (low high : Bytes) : Rule.VersionInterval := { Low := low, High := high }

/-- parseVersionInterval on a token list (rule.go order) -/
def pviOut (path : Bytes) (toks : List Bytes) (fx : Option ModVerif.Modfile.Fixer) : PviOut :=
  match toks with
  | [] => ⟨default, some "expected '[' or version", 0, toks⟩
  | t0 :: rest =>
    if t0 = [40] then ⟨default, some "expected '[' or version", 0, toks⟩
    else if ¬ t0 = [91] then
      if ((pvOut path t0 fx).1.2).isNone then ⟨viOf (pvOut path t0 fx).1.1 (pvOut path t0 fx).1.1, none, 1, (pvOut path t0 fx).2 :: rest⟩
      else ⟨default, (pvOut path t0 fx).1.2, 0, (pvOut path t0 fx).2 :: rest⟩
    else
      match rest with
      | [] => ⟨default, some "expected version after '['", 0, toks⟩
      | t1 :: rest1 =>
        if ¬ ((pvOut path t1 fx).1.2).isNone then ⟨default, (pvOut path t1 fx).1.2, 0, t0 :: (pvOut path t1 fx).2 :: rest1⟩
        else
          match rest1 with
          | [] => ⟨default, some "expected ',' after version", 0, t0 :: (pvOut path t1 fx).2 :: rest1⟩
          | c :: rest2 =>
            if ¬ c = [44] then ⟨default, some "expected ',' after version", 0, t0 :: (pvOut path t1 fx).2 :: rest1⟩
            else
              match rest2 with
              | [] => ⟨default, some "expected version after ','", 0, t0 :: (pvOut path t1 fx).2 :: rest1⟩
              | t2 :: rest3 =>
                if ¬ ((pvOut path t2 fx).1.2).isNone then
                  ⟨default, (pvOut path t2 fx).1.2, 0, t0 :: (pvOut path t1 fx).2 :: c :: (pvOut path t2 fx).2 :: rest3⟩
                else
                  match rest3 with
                  | [] => ⟨default, some "expected ']' after version", 0, t0 :: (pvOut path t1 fx).2 :: c :: (pvOut path t2 fx).2 :: rest3⟩
                  | rb :: rest4 =>
                    if ¬ rb = [93] then
                      ⟨default, some "expected ']' after version", 0, t0 :: (pvOut path t1 fx).2 :: c :: (pvOut path t2 fx).2 :: rest3⟩
                    else
                      ⟨viOf (pvOut path t1 fx).1.1 (pvOut path t2 fx).1.1, none, 5,
                        t0 :: (pvOut path t1 fx).2 :: c :: (pvOut path t2 fx).2 :: rb :: rest4⟩

theorem lenNe {α : Type} (a : α) (l : List α) : ¬ (((a :: l).length : Int) = 0) := by simp; omega

theorem lo5 (r : Rule.TokRef) : ({ owner := r.owner, lo := r.lo + 1 + 1 + 1 + 1 + 1 } : Rule.TokRef) = { r with lo := r.lo + 5 } := by
  congr 1; omega

/-- the simp set of the symbolic execution below -/
local macro "pvi_simp" "[" ts:Lean.Parser.Tactic.simpLemma,* "]" : tactic =>
  `(tactic| simp only [bind, Except.bind, pure, Except.pure, ModVerif.Tie.FnRuleLeafB.lenNe, decide_false, decide_true, Bool.false_eq_true, if_false, if_true,
      ModVerif.Tie.FnRuleLeafB.pviOut, Bool.not_true, Bool.not_false, not_true_eq_false, not_false_eq_true, Bool.not_eq_true, List.length_nil, Int.natCast_zero,
      List.append_assoc, List.cons_append, List.nil_append, ModVerif.Tie.FnRuleLeafB.viOf, $ts,*])


theorem parseVersionInterval_spec {h : Rule.Heap} {r : Rule.TokRef} {pre toks : List Bytes} (v : TokView h r pre toks)
    (verb path : Bytes) (fx : Option ModVerif.Modfile.Fixer) (fuel : Nat) (hf : 8 * tokSum toks + 1 ≤ fuel) :
    Rule.parseVersionInterval isPrintI Quote.quote unquoteI fuel verb path r (fixG fx) h =
      .ok ((((pviOut path toks fx).vi, (pviOut path toks fx).err), { r with lo := r.lo + (pviOut path toks fx).dropped }),
        setToksH h r.owner (pre ++ (pviOut path toks fx).toks)) := by
  unfold Rule.parseVersionInterval
  have hr0 : ({ r with lo := r.lo + 0 } : Rule.TokRef) = r := by cases r; simp
  rcases toks with _ | ⟨t0, rest⟩
  · -- no token
    pvi_simp [V.len _ v, hr0,
      v.setToksH_self]
  simp only [tokSum_cons] at hf
  by_cases h40 : t0 = [40]
  · subst h40
    pvi_simp [V.len _ v, V.get0 v, hr0, v.setToksH_self]
  by_cases h91 : t0 = [91]
  · subst h91
    obtain ⟨hd1, v1⟩ := V.drop1 v
    rcases rest with _ | ⟨t1, rest1⟩
    · pvi_simp [V.len _ v, V.get0 v, hr0, v.setToksH_self, h40, hd1, V.len _ v1, List.length_nil, Int.natCast_zero, Bool.not_true]
    simp only [tokSum_cons] at hf
    obtain ⟨hs1, v1'⟩ := V.set0 v1 (pvOut path t1 fx).2
    dsimp only at hs1 v1'; try simp only [List.append_assoc, List.cons_append, List.nil_append] at hs1 v1'
    by_cases he1 : ((pvOut path t1 fx).1.2).isNone = true
    · obtain ⟨hd2, v2⟩ := V.drop1 v1'
      dsimp only at hd2 v2; try simp only [List.append_assoc, List.cons_append, List.nil_append] at hd2 v2
      rcases rest1 with _ | ⟨c, rest2⟩
      · pvi_simp [V.len _ v, V.get0 v, hr0, h40, hd1, V.len _ v1, Bool.not_true, V.get0 v1,
          parseVersion_spec verb path t1 fx fuel (by omega), hs1, he1, hd2, V.len _ v2, List.length_nil, Int.natCast_zero,
          List.append_assoc, List.cons_append, List.nil_append, not_true_eq_false, Bool.not_eq_true]
      by_cases h44 : c = [44]
      · subst h44
        obtain ⟨hd3, v3⟩ := V.drop1 v2
        dsimp only at hd3 v3; try simp only [List.append_assoc, List.cons_append, List.nil_append] at hd3 v3
        rcases rest2 with _ | ⟨t2, rest3⟩
        · pvi_simp [V.len _ v, V.get0 v, hr0, h40, hd1, V.len _ v1, Bool.not_true, V.get0 v1,
            parseVersion_spec verb path t1 fx fuel (by omega), hs1, he1, hd2, V.len _ v2, V.get0 v2, hd3, V.len _ v3,
            List.length_nil, Int.natCast_zero, List.append_assoc, List.cons_append, List.nil_append, not_true_eq_false,
            Bool.not_eq_true]
        simp only [tokSum_cons] at hf
        obtain ⟨hs3, v3'⟩ := V.set0 v3 (pvOut path t2 fx).2
        dsimp only at hs3 v3'; try simp only [List.append_assoc, List.cons_append, List.nil_append] at hs3 v3'
        have hh3 : setToksH (setToksH h r.owner (pre ++ [91] :: (pvOut path t1 fx).2 :: [44] :: t2 :: rest3)) r.owner
            (pre ++ [91] :: (pvOut path t1 fx).2 :: [44] :: (pvOut path t2 fx).2 :: rest3) =
            setToksH h r.owner (pre ++ [91] :: (pvOut path t1 fx).2 :: [44] :: (pvOut path t2 fx).2 :: rest3) := by
          rw [v.setToksH_twice]
        rw [hh3] at hs3 v3'
        by_cases he2 : ((pvOut path t2 fx).1.2).isNone = true
        · obtain ⟨hd4, v4⟩ := V.drop1 v3'
          dsimp only at hd4 v4; try simp only [List.append_assoc, List.cons_append, List.nil_append] at hd4 v4
          rcases rest3 with _ | ⟨rb, rest4⟩
          · pvi_simp [V.len _ v, V.get0 v, hr0, h40, hd1, V.len _ v1, Bool.not_true, V.get0 v1,
              parseVersion_spec verb path t1 fx fuel (by omega), hs1, he1, hd2, V.len _ v2, V.get0 v2, hd3, V.len _ v3, V.get0 v3,
              parseVersion_spec verb path t2 fx fuel (by omega), hs3, he2, hd4, V.len _ v4, hh3,
              List.length_nil, Int.natCast_zero, not_true_eq_false, Bool.not_eq_true]
          by_cases h93 : rb = [93]
          · subst h93
            obtain ⟨hd5, v5⟩ := V.drop1 v4
            dsimp only at hd5 v5; try simp only [List.append_assoc, List.cons_append, List.nil_append] at hd5 v5
            pvi_simp [V.len _ v, V.get0 v, h40, hd1, V.len _ v1, Bool.not_true, V.get0 v1,
              parseVersion_spec verb path t1 fx fuel (by omega), hs1, he1, hd2, V.len _ v2, V.get0 v2, hd3, V.len _ v3, V.get0 v3,
              parseVersion_spec verb path t2 fx fuel (by omega), hs3, he2, hd4, V.len _ v4, V.get0 v4, hd5, hh3, lo5, viOf,
              not_true_eq_false, Bool.not_eq_true]
          · pvi_simp [V.len _ v, V.get0 v, hr0, h40, hd1, V.len _ v1, Bool.not_true, V.get0 v1,
              parseVersion_spec verb path t1 fx fuel (by omega), hs1, he1, hd2, V.len _ v2, V.get0 v2, hd3, V.len _ v3, V.get0 v3,
              parseVersion_spec verb path t2 fx fuel (by omega), hs3, he2, hd4, V.len _ v4, V.get0 v4, h93, hh3,
              not_true_eq_false, not_false_eq_true, Bool.not_eq_true, Bool.not_false]
        · pvi_simp [V.len _ v, V.get0 v, hr0, h40, hd1, V.len _ v1, Bool.not_true, V.get0 v1,
            parseVersion_spec verb path t1 fx fuel (by omega), hs1, he1, hd2, V.len _ v2, V.get0 v2, hd3, V.len _ v3, V.get0 v3,
            parseVersion_spec verb path t2 fx fuel (by omega), hs3, he2, hh3, not_true_eq_false, not_false_eq_true,
            Bool.not_eq_true, Bool.not_false]
      · pvi_simp [V.len _ v, V.get0 v, hr0, h40, hd1, V.len _ v1, Bool.not_true, V.get0 v1,
          parseVersion_spec verb path t1 fx fuel (by omega), hs1, he1, hd2, V.len _ v2, V.get0 v2, h44,
          List.append_assoc, List.cons_append, List.nil_append, not_true_eq_false, not_false_eq_true, Bool.not_eq_true, Bool.not_false]
    · pvi_simp [V.len _ v, V.get0 v, hr0, h40, hd1, V.len _ v1, Bool.not_true, V.get0 v1,
        parseVersion_spec verb path t1 fx fuel (by omega), hs1, he1, List.append_assoc, List.cons_append, List.nil_append,
        not_true_eq_false, not_false_eq_true, Bool.not_eq_true, Bool.not_false]
  · -- a single version
    obtain ⟨hs0, v0'⟩ := V.set0 v (pvOut path t0 fx).2
    by_cases he0 : ((pvOut path t0 fx).1.2).isNone = true
    · obtain ⟨hd1, _⟩ := V.drop1 v0'
      pvi_simp [V.len _ v, V.get0 v, h40, h91, Bool.not_false, parseVersion_spec verb path t0 fx fuel (by omega), hs0, he0, hd1, viOf,
        not_true_eq_false, not_false_eq_true, Bool.not_eq_true, Bool.not_true]
    · pvi_simp [V.len _ v, V.get0 v, hr0, h40, h91, Bool.not_false, parseVersion_spec verb path t0 fx fuel (by omega), hs0, he0,
        not_true_eq_false, not_false_eq_true, Bool.not_eq_true]


/-! ### `pviOut` is the hand model's parseVersionInterval -/

def viG (v : ModVerif.Modfile.VersionInterval) : Rule.VersionInterval := { Low := v.low, High := v.high }

/-- what `pviOut` is in terms of the model's result -/
def PviRel (o : PviOut) (m : List Bytes × Except ModVerif.Modfile.RuleErrKind (ModVerif.Modfile.VersionInterval × List Bytes)) : Prop :=
  o.toks = m.1 ∧
  match m.2 with
  | .ok (mvi, rest) => o.err = none ∧ o.vi = viG mvi ∧ 0 ≤ o.dropped ∧ o.dropped.toNat ≤ m.1.length ∧ m.1.drop o.dropped.toNat = rest
  | .error k => errAbs o.err k ∧ o.vi = default ∧ o.dropped = 0

theorem errAbs_lit {s : String} {k : ModVerif.Modfile.RuleErrKind} (h : s ∈ errStrs k) : errAbs (some s) k := ⟨s, rfl, h⟩

theorem pviOut_model (path : Bytes) (toks : List Bytes) (fx : Option ModVerif.Modfile.Fixer) :
    PviRel (pviOut path toks fx) (ModVerif.Modfile.parseVersionInterval path toks fx) := by
  unfold PviRel
  rcases toks with _ | ⟨t0, rest⟩
  · refine ⟨?_, ?_, ?_, ?_⟩ <;> first | trivial | rfl | exact errAbs_lit (by simp [errStrs])
  by_cases h40 : t0 = [40]
  · subst h40
    refine ⟨?_, ?_, ?_, ?_⟩ <;> first | trivial | rfl | exact errAbs_lit (by simp [errStrs])
  have h40b : (t0 == [40]) = false := by simpa using h40
  by_cases h91 : t0 = [91]
  · subst h91
    have h91b : (([91] : Bytes) != [91]) = false := by decide
    rcases rest with _ | ⟨t1, rest1⟩
    · refine ⟨?_, ?_, ?_, ?_⟩ <;> first | trivial | rfl | exact errAbs_lit (by simp [errStrs])
    rcases hpv1 : ModVerif.Modfile.parseVersion path t1 fx with ⟨t1', (k1 | low)⟩
    · have e1 := pvOut_error hpv1
      have n1 := parseVersionErr_isSome hpv1
      simp only [pviOut, ModVerif.Modfile.parseVersionInterval, h40b, h91b, hpv1, e1, n1, h40, Bool.false_eq_true, if_false,
        not_true_eq_false, not_false_eq_true, if_true]
      refine ⟨?_, ?_, ?_, ?_⟩ <;> first | trivial | rfl | exact parseVersion_errAbs hpv1
    have e1 := pvOut_ok hpv1
    rcases rest1 with _ | ⟨c, rest2⟩
    · simp only [pviOut, ModVerif.Modfile.parseVersionInterval, h40b, h91b, hpv1, e1, h40, Bool.false_eq_true, if_false,
        not_true_eq_false, not_false_eq_true, if_true, Option.isNone_none]
      refine ⟨?_, ?_, ?_, ?_⟩ <;> first | trivial | rfl | exact errAbs_lit (by simp [errStrs])
    by_cases h44 : c = [44]
    · subst h44
      have h44b : (([44] : Bytes) != [44]) = false := by decide
      rcases rest2 with _ | ⟨t2, rest3⟩
      · simp only [pviOut, ModVerif.Modfile.parseVersionInterval, h40b, h91b, h44b, hpv1, e1, h40, Bool.false_eq_true, if_false,
          not_true_eq_false, not_false_eq_true, if_true, Option.isNone_none]
        refine ⟨?_, ?_, ?_, ?_⟩ <;> first | trivial | rfl | exact errAbs_lit (by simp [errStrs])
      rcases hpv2 : ModVerif.Modfile.parseVersion path t2 fx with ⟨t2', (k2 | high)⟩
      · have e2 := pvOut_error hpv2
        have n2 := parseVersionErr_isSome hpv2
        simp only [pviOut, ModVerif.Modfile.parseVersionInterval, h40b, h91b, h44b, hpv1, e1, hpv2, e2, n2, h40, Bool.false_eq_true,
          if_false, not_true_eq_false, not_false_eq_true, if_true, Option.isNone_none]
        refine ⟨?_, ?_, ?_, ?_⟩ <;> first | trivial | rfl | exact parseVersion_errAbs hpv2
      have e2 := pvOut_ok hpv2
      rcases rest3 with _ | ⟨rb, rest4⟩
      · simp only [pviOut, ModVerif.Modfile.parseVersionInterval, h40b, h91b, h44b, hpv1, e1, hpv2, e2, h40, Bool.false_eq_true,
          if_false, not_true_eq_false, not_false_eq_true, if_true, Option.isNone_none]
        refine ⟨?_, ?_, ?_, ?_⟩ <;> first | trivial | rfl | exact errAbs_lit (by simp [errStrs])
      by_cases h93 : rb = [93]
      · subst h93
        have h93b : (([93] : Bytes) != [93]) = false := by decide
        simp only [pviOut, ModVerif.Modfile.parseVersionInterval, h40b, h91b, h44b, h93b, hpv1, e1, hpv2, e2, h40, Bool.false_eq_true,
          if_false, not_true_eq_false, not_false_eq_true, if_true, Option.isNone_none]
        refine ⟨?_, ?_, ?_, ?_, ?_, ?_⟩ <;> first | trivial | rfl | omega | simp
      · have h93b : (rb != [93]) = true := by simpa using h93
        simp only [pviOut, ModVerif.Modfile.parseVersionInterval, h40b, h91b, h44b, h93b, h93, hpv1, e1, hpv2, e2, h40,
          Bool.false_eq_true, if_false, not_true_eq_false, not_false_eq_true, if_true, Option.isNone_none]
        refine ⟨?_, ?_, ?_, ?_⟩ <;> first | trivial | rfl | exact errAbs_lit (by simp [errStrs])
    · have h44b : (c != [44]) = true := by simpa using h44
      simp only [pviOut, ModVerif.Modfile.parseVersionInterval, h40b, h91b, h44b, h44, hpv1, e1, h40, Bool.false_eq_true, if_false,
        not_true_eq_false, not_false_eq_true, if_true, Option.isNone_none]
      refine ⟨?_, ?_, ?_, ?_⟩ <;> first | trivial | rfl | exact errAbs_lit (by simp [errStrs])
  · have h91b : (t0 != [91]) = true := by simpa using h91
    rcases hpv0 : ModVerif.Modfile.parseVersion path t0 fx with ⟨t0', (k0 | v0)⟩
    · have e0 := pvOut_error hpv0
      have n0 := parseVersionErr_isSome hpv0
      simp only [pviOut, ModVerif.Modfile.parseVersionInterval, h40b, h91b, h40, h91, hpv0, e0, n0, Bool.false_eq_true, if_false,
        not_true_eq_false, not_false_eq_true, if_true]
      refine ⟨?_, ?_, ?_, ?_⟩ <;> first | trivial | rfl | exact parseVersion_errAbs hpv0
    · have e0 := pvOut_ok hpv0
      simp only [pviOut, ModVerif.Modfile.parseVersionInterval, h40b, h91b, h40, h91, hpv0, e0, Bool.false_eq_true, if_false,
        not_true_eq_false, not_false_eq_true, if_true, Option.isNone_none]
      refine ⟨?_, ?_, ?_, ?_, ?_, ?_⟩ <;> first | trivial | rfl | omega | simp

/-- the returned view after `parseVersionInterval`: the tokens the model returns as the remaining arguments -/
theorem pviOut_view {h : Rule.Heap} {r : Rule.TokRef} {pre toks : List Bytes} (v : TokView h r pre toks) (path : Bytes)
    (fx : Option ModVerif.Modfile.Fixer) :
    TokView (setToksH h r.owner (pre ++ (pviOut path toks fx).toks)) { r with lo := r.lo + (pviOut path toks fx).dropped }
      (pre ++ (pviOut path toks fx).toks.take (pviOut path toks fx).dropped.toNat)
      ((pviOut path toks fx).toks.drop (pviOut path toks fx).dropped.toNat) := by
  have hm := pviOut_model path toks fx
  obtain ⟨L, hg, ht, hlo⟩ := v
  refine ⟨_, heapGet_setToksH_same hg _, ?_, ?_⟩
  · simp only [List.append_assoc, List.take_append_drop]
  · show r.lo + (pviOut path toks fx).dropped = _
    unfold PviRel at hm
    obtain ⟨h1, h2⟩ := hm
    rcases hr : (ModVerif.Modfile.parseVersionInterval path toks fx).2 with k | ⟨mvi, rest⟩
    · rw [hr] at h2; simp [h2.2.2, hlo]
    · rw [hr] at h2
      obtain ⟨_, _, h0, hle, _⟩ := h2
      rw [← h1] at hle
      simp only [List.length_append, List.length_take, Nat.min_eq_left hle, hlo]
      omega

end ModVerif.Tie.FnRuleLeafB
