/-
  C10: composition of `newTiles_sufficient` with the reader — the tiles published along a growth sequence keep the
  contents they had when published, and those are the true tiles of the final tree; `readHashes` consults the
  server only on the planned tiles.
-/
import ModVerif.Proofs.TileAuthNew
namespace ModVerif.TileAuth
open ModVerif ModVerif.Tlog ModVerif.Tile ModVerif.TlogStore ModVerif.RFC6962

/-- every tile `NewTiles` lists for one level is a non-empty tile inside the new tree -/
theorem newTilesLevel_mem (h L old new : Nat) (t : Tile) (ht : t ∈ newTilesLevel h L old new) :
    t.h = h ∧ t.l = L ∧ 0 < t.w ∧ t.n * 2 ^ h + t.w ≤ cnt h new L := by
  unfold newTilesLevel at ht
  simp only [Nat.shiftRight_eq_div_pow, Nat.shiftLeft_eq, cnt_div] at ht
  have hp := Nat.two_pow_pos h
  have hfull : ∀ t : Tile, t ∈ (List.range (cnt h new L / 2 ^ h - cnt h old L / 2 ^ h)).map (fun i =>
      ({ h := h, l := L, n := cnt h old L / 2 ^ h + i, w := 2 ^ h } : Tile)) →
      t.h = h ∧ t.l = L ∧ 0 < t.w ∧ t.n * 2 ^ h + t.w ≤ cnt h new L := by
    intro t ht
    rw [List.mem_map] at ht
    obtain ⟨i, hi, e⟩ := ht
    have hi' := List.mem_range.mp hi
    subst e
    refine ⟨rfl, rfl, hp, ?_⟩
    simp only
    have h1 : cnt h old L / 2 ^ h + i + 1 ≤ cnt h new L / 2 ^ h := by omega
    have h2 := (Nat.le_div_iff_mul_le hp).mp h1
    rw [Nat.add_mul] at h2
    omega
  split at ht
  · simp at ht
  · split at ht
    · rename_i hw
      rcases List.mem_append.mp ht with h1 | h1
      · exact hfull t h1
      · simp only [List.mem_singleton] at h1
        subst h1
        refine ⟨rfl, rfl, hw, ?_⟩
        simp only
        have := Nat.div_mul_le_self (cnt h new L) (2 ^ h)
        omega
    · exact hfull t ht

theorem newTilesF_mem (h old new : Nat) : ∀ f level ts, newTilesF h old new f level = .ok ts →
    ∀ t ∈ ts, ∃ L, t ∈ newTilesLevel h L old new := by
  intro f
  induction f with
  | zero =>
    intro level ts hts t ht
    simp only [newTilesF] at hts
    split at hts
    · cases hts
    · cases hts; simp at ht
  | succ f ih =>
    intro level ts hts t ht
    simp only [newTilesF] at hts
    split at hts
    · simp only [bind, Except.bind] at hts
      cases hr : newTilesF h old new f (level + 1) with
      | error e => rw [hr] at hts; cases hts
      | ok rest =>
        rw [hr] at hts
        simp only [pure, Except.pure, Except.ok.injEq] at hts
        subst hts
        rcases List.mem_append.mp ht with h1 | h1
        · exact ⟨level, h1⟩
        · exact ih (level + 1) rest hr t h1
    · cases hts; simp at ht

theorem newTiles_mem (h old new : Nat) (ts : List Tile) (hts : newTiles h old new = .ok ts) (t : Tile) (ht : t ∈ ts) :
    t.h = h ∧ 0 < t.w ∧ t.n * 2 ^ h + t.w ≤ cnt h new t.l := by
  unfold newTiles at hts
  split at hts
  · cases hts
  · obtain ⟨L, hL⟩ := newTilesF_mem h old new _ _ ts hts t ht
    obtain ⟨a, b, c, d⟩ := newTilesLevel_mem h L old new t hL
    exact ⟨a, c, by rw [b]; exact d⟩

section
variable {H : Type} (leaf : Bytes → H) (node : H → H → H) (empty : H)

theorem tdata_congr (T T' : Nat → Nat → H) (h L n w : Nat)
    (hT : ∀ i, i < w → T (L * h) (n * 2 ^ h + i) = T' (L * h) (n * 2 ^ h + i)) :
    tdata T h L n w = tdata T' h L n w := by
  unfold tdata
  apply List.map_congr_left
  intro a ha
  rw [List.mem_range'_1] at ha
  have := hT (a - n * 2 ^ h) (by omega)
  rw [show n * 2 ^ h + (a - n * 2 ^ h) = a by omega] at this
  exact this

/-- the true hash of a complete subtree does not change when the log grows -/
theorem trueHash_take (D : List Bytes) (b l k : Nat) (hb : b ≤ D.length) (hv : (k + 1) * 2 ^ l ≤ b) :
    trueHash leaf node empty (D.take b) l k = trueHash leaf node empty D l k := by
  unfold trueHash
  have : D.map leaf = (D.take b).map leaf ++ (D.drop b).map leaf := by
    rw [← List.map_append, List.take_append_drop]
  rw [this, leavesOf_append _ _ l k (by simp; omega)]

/-- a tile inside tree `b` has the same true content in every larger tree of the same log -/
theorem trueTile_stable (D : List Bytes) (stN stb : List H) (hokN : StoreOK leaf node empty D stN)
    (hR : D.length < 2 ^ 62) (b : Nat) (hb : b ≤ D.length) (hokb : StoreOK leaf node empty (D.take b) stb)
    (t : Tile) (hw : 0 < t.w) (hin : t.n * 2 ^ t.h + t.w ≤ cnt t.h b t.l) :
    trueTile stb t = trueTile stN t := by
  have hlen : (D.take b).length = b := by simp; omega
  have envb := env_of_storeOK leaf node empty (D.take b) stb hokb (by omega)
  have envN := env_of_storeOK leaf node empty D stN hokN hR
  rw [hlen] at envb
  rw [trueTile_eq node _ b stb envb t hw hin,
    trueTile_eq node _ D.length stN envN t hw (Nat.le_trans hin (cnt_mono t.h t.l b D.length hb))]
  congr 1
  apply tdata_congr
  intro i hi
  apply trueHash_take leaf node empty D b _ _ hb
  rw [valid_iff]
  omega

variable [DecidableEq H]

/-- `readHashes` consults the tile server on the planned tiles only -/
theorem readHashes_congr (N : Nat) (th : H) (h : Nat) (idx : List Nat) (serve serve' : Tile → Option (List H))
    (hs : ∀ p, plan h N idx = .ok p → ∀ t ∈ p.tiles, serve t = serve' t) :
    readHashes node N th h idx serve = readHashes node N th h idx serve' := by
  unfold readHashes
  cases hp : plan h N idx with
  | error e => rfl
  | ok p =>
    simp only
    have : p.tiles.mapM serve = p.tiles.mapM serve' := by
      have := hs p hp
      generalize p.tiles = l at this
      induction l with
      | nil => rfl
      | cons a l ih =>
        rw [List.mapM_cons, List.mapM_cons, this a (by simp), ih (fun t ht => this t (by simp [ht]))]
    rw [this]

omit [DecidableEq H] in
/-- ★ the publisher's tiles suffice: along any growth sequence `0 = n₀ ≤ … ≤ n_k = N` of the log `D`, every tile the
    reader of tree `N` plans is published at some step `(a, b)` (`NewTiles(h, a, b)`, exact width), and the content it had
    then — the true tile of the log's first `b` records — is its true content in tree `N`. -/
theorem published_tiles_true (D : List Bytes) (stN : List H) (hokN : StoreOK leaf node empty D stN)
    (hR : D.length < 2 ^ 62) (h : Nat) (hh : 1 ≤ h) (ns : List Nat) (hs : ns.Pairwise (· ≤ ·))
    (h0 : ns.head? = some 0) (hl : ns.getLast? = some D.length) (idx : List Nat) (p : Plan)
    (hp : plan h D.length idx = .ok p) :
    ∀ t ∈ p.tiles, ∃ a b ts stb, (a, b) ∈ ns.zip ns.tail ∧ newTiles h a b = .ok ts ∧ t ∈ ts ∧
      buildStore leaf node (D.take b) = .ok stb ∧ trueTile stb t = trueTile stN t := by
  intro t ht
  obtain ⟨a, b, ts, m1, m2, m3⟩ := newTiles_sufficient h D.length hh hR ns hs h0 hl idx p hp t ht
  have hbN : b ≤ D.length := le_last ns D.length hs hl b (List.mem_of_mem_tail (List.of_mem_zip m1).2)
  have hlen : (D.take b).length = b := by simp; omega
  obtain ⟨stb, s1, s2⟩ := buildStore_ok leaf node empty (D.take b) (by omega)
  obtain ⟨g1, g2, g3⟩ := newTiles_mem h a b ts m2 t m3
  exact ⟨a, b, ts, stb, m1, m2, m3, s1,
    trueTile_stable leaf node empty D stN stb hokN hR b hbN s2 t g2 (by rw [g1]; exact g3)⟩

end
end ModVerif.TileAuth
