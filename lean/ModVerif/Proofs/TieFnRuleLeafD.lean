/-
  Helper lemmas for Tie/FnRuleLeaf.lean, part D: `prOut` (parseReplace on a token list, Proofs/TieFnRuleLeafC.lean) is the
  hand model's `Modfile.parseReplace`: same rewritten tokens; a `Replace` object with the model's fields and
  `Syntax = line`, or an `Error` object at `pos` whose inner error is of the model's kind (`errAbs`).
-/
import ModVerif.Proofs.TieFnRuleLeafC
set_option linter.unusedSimpArgs false
set_option linter.unusedVariables false
namespace ModVerif.Tie.FnRuleLeafD
open ModVerif ModVerif.GoRt ModVerif.Generated ModVerif.Tie.FnRuleRep ModVerif.Tie.FnRuleLeafA ModVerif.Tie.FnRuleLeafB
open ModVerif.Tie.FnRuleLeafC

/-- `prOut` against the model's result -/
def PrRel (pos : Rule.Position) (line : Int) (o : PrOut) (m : List Bytes × Except ModVerif.Modfile.RuleErrKind ModVerif.Modfile.Replace) : Prop :=
  o.toks = m.1 ∧
  match m.2 with
  | .ok R => ∃ obj, o.res = .ok obj ∧ obj.Old = mvG R.old ∧ obj.New = mvG R.new ∧ obj.Syntax = line
  | .error k => ∃ e, o.res = .error e ∧ e.Pos = pos ∧ errAbs e.Err k

theorem B_arrow : B "=>" = arrowB := by decide +kernel

theorem eF_usage (fn : Bytes) (pos : Rule.Position) : errAbs (eF fn pos fmtUsage).Err .replaceUsage :=
  ⟨_, by show some (bytesToStr fmtUsage) = some _; rfl, by
    have : bytesToStr fmtUsage = "usage: %s module/path [v1.2.3] => other/module v1.4\n\t or %s module/path [v1.2.3] => ../local/directory" := by
      decide +kernel
    rw [this]; simp [errStrs]⟩
theorem eF_quoted (fn : Bytes) (pos : Rule.Position) : errAbs (eF fn pos fmtQuoted).Err .invalidQuotedString :=
  ⟨_, by show some (bytesToStr fmtQuoted) = some _; rfl, by
    have : bytesToStr fmtQuoted = "invalid quoted string: %v" := by decide +kernel
    rw [this]; simp [errStrs]⟩
theorem eF_dirVersion (fn : Bytes) (pos : Rule.Position) : errAbs (eF fn pos fmtDirVersion).Err .replaceDirWithVersion :=
  ⟨_, by show some (bytesToStr fmtDirVersion) = some _; rfl, by
    have : bytesToStr fmtDirVersion = "replacement module directory path %q cannot have version" := by decide +kernel
    rw [this]; simp [errStrs]⟩
theorem eF_atVersion (fn : Bytes) (pos : Rule.Position) : errAbs (eF fn pos fmtAtVersion).Err .replaceAtVersion :=
  ⟨_, by show some (bytesToStr fmtAtVersion) = some _; rfl, by
    have : bytesToStr fmtAtVersion = "replacement module must match format 'path version', not 'path@version'" := by decide +kernel
    rw [this]; simp [errStrs]⟩
theorem eF_needsDir (fn : Bytes) (pos : Rule.Position) : errAbs (eF fn pos fmtNeedsDir).Err .replaceNeedsDir :=
  ⟨_, by show some (bytesToStr fmtNeedsDir) = some _; rfl, by
    have : bytesToStr fmtNeedsDir = "replacement module without version must be directory path (rooted or starting with . or ..)" := by
      decide +kernel
    rw [this]; simp [errStrs]⟩
theorem eF_windows (fn : Bytes) (pos : Rule.Position) : errAbs (eF fn pos fmtWindows).Err .replaceWindowsPath :=
  ⟨_, by show some (bytesToStr fmtWindows) = some _; rfl, by
    have : bytesToStr fmtWindows = "replacement directory appears to be Windows path (on a non-windows system)" := by decide +kernel
    rw [this]; simp [errStrs]⟩
theorem eM_path (fn : Bytes) (pos : Rule.Position) (verb mp : Bytes) :
    errAbs (eM fn pos verb mp (some "invalid module path")).Err .invalidModulePath := ⟨_, rfl, by simp [errStrs]⟩
theorem eM_major (fn : Bytes) (pos : Rule.Position) (verb mp : Bytes) :
    errAbs (eM fn pos verb mp TieFnModule.majorErr).Err .pathMajorMismatch :=
  ⟨"InvalidVersionError|should be %s, not %s", by show TieFnModule.majorErr = _; decide +kernel, by simp [errStrs]⟩

theorem usageRel (fn : Bytes) (pos : Rule.Position) (line : Int) (args : List Bytes) :
    PrRel pos line ⟨args, .error (eF fn pos fmtUsage), 0⟩ (args, .error .replaceUsage) :=
  ⟨rfl, _, rfl, rfl, eF_usage fn pos⟩

/-- closes a `PrRel` error goal whose two sides have been evaluated -/
local macro "pr_err" t:term : tactic => `(tactic| exact ⟨rfl, _, rfl, rfl, $t⟩)

/-- the simp set that evaluates both sides -/
local macro "pr_eval" "[" ts:Lean.Parser.Tactic.simpLemma,* "]" : tactic =>
  `(tactic| simp [ModVerif.Tie.FnRuleLeafC.prOut, ModVerif.Tie.FnRuleLeafC.prHead1, ModVerif.Tie.FnRuleLeafC.prHead2,
      ModVerif.Tie.FnRuleLeafC.prTail, ModVerif.Modfile.parseReplace, ModVerif.Tie.FnRuleLeafD.B_arrow,
      ModVerif.TieFnModfile.parseStringErr, ModVerif.GoRtModfile.contains_eq, $ts,*])

theorem model3 (fn : Bytes) (pos : Rule.Position) (line : Int) (verb : Bytes) (fx : Option ModVerif.Modfile.Fixer) (lineId : Nat)
    (a0 a1 ns : Bytes) :
    PrRel pos line (prOut fn pos line verb [a0, a1, ns] fx) (ModVerif.Modfile.parseReplace lineId [a0, a1, ns] fx) := by
  by_cases hx : a1 = arrowB
  rotate_left
  · pr_eval [hx]
    pr_err (eF_usage _ _)
  subst hx
  rcases hps : ModVerif.Modfile.parseString a0 with _ | ⟨s, a0'⟩
  · pr_eval [hps, psOut_none hps]
    pr_err (eF_quoted _ _)
  have e0 := psOut_some hps
  rcases hm : ModVerif.Modfile.modulePathMajor s with _ | pm
  · pr_eval [hps, e0, hm]
    pr_err (eM_path _ _ _ _)
  rcases hps2 : ModVerif.Modfile.parseString ns with _ | ⟨ns', nsTok'⟩
  · pr_eval [hps, e0, hm, hps2, psOut_none hps2]
    pr_err (eF_quoted _ _)
  have e2 := psOut_some hps2
  rcases Bool.eq_false_or_eq_true (ModVerif.Modfile.isDirectoryPath ns') with d | d
  rotate_left
  · rcases Bool.eq_false_or_eq_true (GoStrings.contains ns' [64]) with c | c
    · pr_eval [hps, e0, hm, hps2, e2, d, c]
      pr_err (eF_atVersion _ _)
    · pr_eval [hps, e0, hm, hps2, e2, d, c]
      pr_err (eF_needsDir _ _)
  rcases Bool.eq_false_or_eq_true (GoStrings.contains ns' [92]) with c | c
  · pr_eval [hps, e0, hm, hps2, e2, d, c]
    pr_err (eF_windows _ _)
  · pr_eval [hps, e0, hm, hps2, e2, d, c]
    exact ⟨rfl, _, rfl, rfl, rfl, rfl⟩

theorem pvErr_ne {path s : Bytes} {fx : Option ModVerif.Modfile.Fixer} {tok : Bytes} {k : ModVerif.Modfile.RuleErrKind}
    (h : ModVerif.Modfile.parseVersion path s fx = (tok, .error k)) : parseVersionErr s k ≠ none := by
  have := parseVersionErr_isSome h
  intro hn; rw [hn] at this; cases this

theorem model4 (fn : Bytes) (pos : Rule.Position) (line : Int) (verb : Bytes) (fx : Option ModVerif.Modfile.Fixer) (lineId : Nat)
    (a0 a1 ar ns : Bytes) :
    PrRel pos line (prOut fn pos line verb [a0, a1, ar, ns] fx) (ModVerif.Modfile.parseReplace lineId [a0, a1, ar, ns] fx) := by
  by_cases hx : a1 = arrowB
  · -- a0 => ar ns
    subst hx
    rcases hps : ModVerif.Modfile.parseString a0 with _ | ⟨s, a0'⟩
    · pr_eval [hps, psOut_none hps]
      pr_err (eF_quoted _ _)
    have e0 := psOut_some hps
    rcases hm : ModVerif.Modfile.modulePathMajor s with _ | pm
    · pr_eval [hps, e0, hm]
      pr_err (eM_path _ _ _ _)
    rcases hps2 : ModVerif.Modfile.parseString ar with _ | ⟨ns', nsTok'⟩
    · pr_eval [hps, e0, hm, hps2, psOut_none hps2]
      pr_err (eF_quoted _ _)
    have e2 := psOut_some hps2
    rcases hpv : ModVerif.Modfile.parseVersion ns' ns fx with ⟨nv', (k | nv)⟩
    · have n1 := pvErr_ne hpv
      pr_eval [hps, e0, hm, hps2, e2, hpv, pvOut_error hpv, n1]
      pr_err (parseVersion_errAbs hpv)
    have e3 := pvOut_ok hpv
    rcases Bool.eq_false_or_eq_true (ModVerif.Modfile.isDirectoryPath ns') with d | d
    · pr_eval [hps, e0, hm, hps2, e2, hpv, e3, d]
      pr_err (eF_dirVersion _ _)
    · pr_eval [hps, e0, hm, hps2, e2, hpv, e3, d]
      exact ⟨rfl, _, rfl, rfl, rfl, rfl⟩
  by_cases hy : ar = arrowB
  rotate_left
  · pr_eval [hx, hy]
    pr_err (eF_usage _ _)
  subst hy
  have hx' : ¬ a1 = B "=>" := by rw [B_arrow]; exact hx
  rcases hps : ModVerif.Modfile.parseString a0 with _ | ⟨s, a0'⟩
  · pr_eval [hx, hx', hps, psOut_none hps]
    pr_err (eF_quoted _ _)
  have e0 := psOut_some hps
  rcases hm : ModVerif.Modfile.modulePathMajor s with _ | pm
  · pr_eval [hx, hx', hps, e0, hm]
    pr_err (eM_path _ _ _ _)
  rcases hpv : ModVerif.Modfile.parseVersion s a1 fx with ⟨a1', (k | v)⟩
  · have n1 := pvErr_ne hpv
    pr_eval [hx, hx', hps, e0, hm, hpv, pvOut_error hpv, n1]
    pr_err (parseVersion_errAbs hpv)
  have e1 := pvOut_ok hpv
  rcases Bool.eq_false_or_eq_true (Module.checkPathMajor v pm) with cm | cm
  rotate_left
  · pr_eval [hx, hx', hps, e0, hm, hpv, e1, cm]
    pr_err (eM_major _ _ _ _)
  rcases hps2 : ModVerif.Modfile.parseString ns with _ | ⟨ns', nsTok'⟩
  · pr_eval [hx, hx', hps, e0, hm, hpv, e1, cm, hps2, psOut_none hps2]
    pr_err (eF_quoted _ _)
  have e2 := psOut_some hps2
  rcases Bool.eq_false_or_eq_true (ModVerif.Modfile.isDirectoryPath ns') with d | d
  rotate_left
  · rcases Bool.eq_false_or_eq_true (GoStrings.contains ns' [64]) with c | c
    · pr_eval [hx, hx', hps, e0, hm, hpv, e1, cm, hps2, e2, d, c]
      pr_err (eF_atVersion _ _)
    · pr_eval [hx, hx', hps, e0, hm, hpv, e1, cm, hps2, e2, d, c]
      pr_err (eF_needsDir _ _)
  rcases Bool.eq_false_or_eq_true (GoStrings.contains ns' [92]) with c | c
  · pr_eval [hx, hx', hps, e0, hm, hpv, e1, cm, hps2, e2, d, c]
    pr_err (eF_windows _ _)
  · pr_eval [hx, hx', hps, e0, hm, hpv, e1, cm, hps2, e2, d, c]
    exact ⟨rfl, _, rfl, rfl, rfl, rfl⟩

theorem model5 (fn : Bytes) (pos : Rule.Position) (line : Int) (verb : Bytes) (fx : Option ModVerif.Modfile.Fixer) (lineId : Nat)
    (a0 a1 ar ns nv : Bytes) :
    PrRel pos line (prOut fn pos line verb [a0, a1, ar, ns, nv] fx) (ModVerif.Modfile.parseReplace lineId [a0, a1, ar, ns, nv] fx) := by
  by_cases hx : a1 = arrowB
  · pr_eval [hx]
    pr_err (eF_usage _ _)
  by_cases hy : ar = arrowB
  rotate_left
  · pr_eval [hx, hy]
    pr_err (eF_usage _ _)
  subst hy
  have hx' : ¬ a1 = B "=>" := by rw [B_arrow]; exact hx
  rcases hps : ModVerif.Modfile.parseString a0 with _ | ⟨s, a0'⟩
  · pr_eval [hx, hx', hps, psOut_none hps]
    pr_err (eF_quoted _ _)
  have e0 := psOut_some hps
  rcases hm : ModVerif.Modfile.modulePathMajor s with _ | pm
  · pr_eval [hx, hx', hps, e0, hm]
    pr_err (eM_path _ _ _ _)
  rcases hpv : ModVerif.Modfile.parseVersion s a1 fx with ⟨a1', (k | v)⟩
  · have n1 := pvErr_ne hpv
    pr_eval [hx, hx', hps, e0, hm, hpv, pvOut_error hpv, n1]
    pr_err (parseVersion_errAbs hpv)
  have e1 := pvOut_ok hpv
  rcases Bool.eq_false_or_eq_true (Module.checkPathMajor v pm) with cm | cm
  rotate_left
  · pr_eval [hx, hx', hps, e0, hm, hpv, e1, cm]
    pr_err (eM_major _ _ _ _)
  rcases hps2 : ModVerif.Modfile.parseString ns with _ | ⟨ns', nsTok'⟩
  · pr_eval [hx, hx', hps, e0, hm, hpv, e1, cm, hps2, psOut_none hps2]
    pr_err (eF_quoted _ _)
  have e2 := psOut_some hps2
  rcases hpv2 : ModVerif.Modfile.parseVersion ns' nv fx with ⟨nv', (k | nvv)⟩
  · have n1 := pvErr_ne hpv2
    pr_eval [hx, hx', hps, e0, hm, hpv, e1, cm, hps2, e2, hpv2, pvOut_error hpv2, n1]
    pr_err (parseVersion_errAbs hpv2)
  have e3 := pvOut_ok hpv2
  rcases Bool.eq_false_or_eq_true (ModVerif.Modfile.isDirectoryPath ns') with d | d
  · pr_eval [hx, hx', hps, e0, hm, hpv, e1, cm, hps2, e2, hpv2, e3, d]
    pr_err (eF_dirVersion _ _)
  · pr_eval [hx, hx', hps, e0, hm, hpv, e1, cm, hps2, e2, hpv2, e3, d]
    exact ⟨rfl, _, rfl, rfl, rfl, rfl⟩

/-- **`prOut` is the hand model's parseReplace** -/
theorem prOut_model (fn : Bytes) (pos : Rule.Position) (line : Int) (verb : Bytes) (fx : Option ModVerif.Modfile.Fixer) (lineId : Nat)
    (args : List Bytes) :
    PrRel pos line (prOut fn pos line verb args fx) (ModVerif.Modfile.parseReplace lineId args fx) := by
  rcases args with _ | ⟨a, _ | ⟨b, _ | ⟨c, _ | ⟨d, _ | ⟨e, _ | ⟨f, rest⟩⟩⟩⟩⟩⟩
  · pr_eval []
    pr_err (eF_usage _ _)
  · pr_eval []
    pr_err (eF_usage _ _)
  · by_cases hx : b = arrowB
    · pr_eval [hx]
      pr_err (eF_usage _ _)
    · have hx' : ¬ b = B "=>" := by rw [B_arrow]; exact hx
      pr_eval [hx, hx']
      pr_err (eF_usage _ _)
  · exact model3 ..
  · exact model4 ..
  · exact model5 ..
  · by_cases hx : b = arrowB
    · pr_eval [hx]
      pr_err (eF_usage _ _)
    · have hx' : ¬ b = B "=>" := by rw [B_arrow]; exact hx
      pr_eval [hx, hx']
      pr_err (eF_usage _ _)

/-! ### the fuel of module.CheckPathMajor -/

theorem prHead1_vlen (fn : Bytes) (pos : Rule.Position) (line : Int) (verb : Bytes) (fx : Option ModVerif.Modfile.Fixer)
    (a0 ar nsTok : Bytes) (nvTok : Option Bytes) : (prHead1 fn pos line verb fx a0 ar nsTok nvTok).vlen = 0 := by
  unfold prHead1
  split
  · rfl
  · split
    · rfl
    · exact prTail_vlen ..

/-- `vlen` is 0 or the length of the old version the model parses from the second argument -/
theorem prHead2_vlen_cases (fn : Bytes) (pos : Rule.Position) (line : Int) (verb : Bytes) (fx : Option ModVerif.Modfile.Fixer)
    (a0 a1 ar nsTok : Bytes) (nvTok : Option Bytes) :
    (prHead2 fn pos line verb fx a0 a1 ar nsTok nvTok).vlen = 0 ∨
      ∃ s a0' a1' v, ModVerif.Modfile.parseString a0 = some (s, a0') ∧ ModVerif.Modfile.parseVersion s a1 fx = (a1', .ok v) ∧
        (prHead2 fn pos line verb fx a0 a1 ar nsTok nvTok).vlen = v.length := by
  rcases hps : ModVerif.Modfile.parseString a0 with _ | ⟨s, a0'⟩
  · left
    simp [prHead2, psOut_none hps, TieFnModfile.parseStringErr]
  have e0 := psOut_some hps
  rcases hm : ModVerif.Modfile.modulePathMajor s with _ | pm
  · left
    simp [prHead2, e0, hm]
  rcases hpv : ModVerif.Modfile.parseVersion s a1 fx with ⟨a1', (k | v)⟩
  · left
    have n1 := pvErr_ne hpv
    simp [prHead2, e0, hm, pvOut_error hpv, n1]
  · right
    refine ⟨s, a0', a1', v, rfl, hpv, ?_⟩
    have e1 := pvOut_ok hpv
    have p0 : ((psOut a0).1.2).isNone = true := by rw [e0]; rfl
    have hm' : ModVerif.Modfile.modulePathMajor (psOut a0).1.1 = some pm := by rw [e0]; exact hm
    have p1 : ((pvOut (psOut a0).1.1 a1 fx).1.2).isNone = true := by rw [e0]; simp only []; rw [e1]; rfl
    rw [prHead2_vlen p0 hm' p1, e0]
    simp only []
    rw [e1]

/-- **the fuel parseReplace needs for module.CheckPathMajor**: 0, or the length of the old version the model parses -/
theorem prOut_vlen_cases (fn : Bytes) (pos : Rule.Position) (line : Int) (verb : Bytes) (args : List Bytes) (fx : Option ModVerif.Modfile.Fixer) :
    (prOut fn pos line verb args fx).vlen = 0 ∨
      ∃ a0 a1 rest s a0' a1' v, args = a0 :: a1 :: rest ∧ ModVerif.Modfile.parseString a0 = some (s, a0') ∧
        ModVerif.Modfile.parseVersion s a1 fx = (a1', .ok v) ∧ (prOut fn pos line verb args fx).vlen = v.length := by
  rcases args with _ | ⟨a, _ | ⟨b, _ | ⟨c, _ | ⟨d, _ | ⟨e, _ | ⟨f, rest⟩⟩⟩⟩⟩⟩
  · left; rfl
  · left; rfl
  · left; rfl
  · left
    simp only [prOut]
    split
    · exact prHead1_vlen ..
    · rfl
  · simp only [prOut]
    split
    · left; exact prHead1_vlen ..
    · split
      · rcases prHead2_vlen_cases fn pos line verb fx a b c d none with h0 | ⟨s, a0', a1', v, h1, h2, h3⟩
        · left; exact h0
        · right; exact ⟨a, b, _, s, a0', a1', v, rfl, h1, h2, h3⟩
      · left; rfl
  · simp only [prOut]
    split
    · left; rfl
    · split
      · rcases prHead2_vlen_cases fn pos line verb fx a b c d (some e) with h0 | ⟨s, a0', a1', v, h1, h2, h3⟩
        · left; exact h0
        · right; exact ⟨a, b, _, s, a0', a1', v, rfl, h1, h2, h3⟩
      · left; rfl
  · left; rfl

end ModVerif.Tie.FnRuleLeafD
