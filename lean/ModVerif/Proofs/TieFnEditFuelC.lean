/-
  Closed fuel of the FnEdit session ties, part C (agent edit-fuel): per-operation bounds for every go.mod operation other
  than the two bulk requirement setters — `stepFuel_le` (fuel demand ≤ `3 * (W e + G op)`) and `applyMod_W` (growth of the
  potential ≤ `G op`).
-/
import ModVerif.Proofs.TieFnEditFuelB
set_option linter.unusedSimpArgs false
set_option linter.unusedVariables false
namespace ModVerif.Tie.FnEditFuelC
open ModVerif ModVerif.Modfile ModVerif.Tie.FnEditFuelA ModVerif.Tie.FnEditFuelB ModVerif.Tie.FnEditSessionA ModVerif.Tie.FnEditSessionB
open ModVerif.TieFnEditAddLine (nodeCount)
open ModVerif.Tie.FnEditSortB (nodes)
open ModVerif.Tie.FnEditSortC (dupsSize)
open ModVerif.Tie.FnEditSortE (sortSize sortFuel goLen)
open ModVerif.Tie.FnEditSortG (cleanSize)
open ModVerif.Tie.FnEditReqE (modPath)
open ModVerif.Modfile.Edit (EFile EditErr applyMod treeIds firstRest clearAll)

/-! ### fuel demand of one operation -/

theorem addToolPre_W (e : EFile) (p : Bytes) : W (addToolPre e p) ≤ W e + 2 * p.length + 13 := by
  have h1 := addLine_treeW e.f.syn none [B "tool", p] e.next
  rw [tokW2, len_tool] at h1
  unfold W listsW addToolPre goLen modPath at *
  simp only [List.length_append, List.length_cons, List.length_nil] at *
  omega

/-- **the fuel demand of one operation (not a bulk setter) is linear in the potential and the operation's size** -/
theorem stepFuel_le (e : EFile) (op : EditSpec.Op) (hb : NotBulk op) : stepFuel e op ≤ 3 * (W e + G op) := by
  have hn := nodeCount_le_W e
  have hl : listsW e ≤ W e := by unfold W; omega
  have hm : (modPath e).length ≤ W e := by unfold W; omega
  cases op <;> simp only [stepFuel, G, opSize, qsz] <;> try (unfold listsW at hl; omega)
  · exact hb.elim
  · exact hb.elim
  · -- addTool
    rename_i p
    have h1 := sortFuel_le (addToolPre e p)
    have h2 := addToolPre_W e p
    unfold listsW at hl
    split <;> omega
  · have := sortFuel_le e; omega
  · have := cleanupFuel_le e; simp only [stepFuel] at this; omega

/-! ### growth of the potential, operation by operation -/

theorem addModuleStmt_W (e : EFile) (p : Bytes) (hn : (treeIds e.f.syn.stmts).Nodup) :
    W (Edit.addModuleStmt e p) ≤ W e + 4 * qsz p + 32 := by
  unfold Edit.addModuleStmt
  cases hm : e.f.module with
  | none =>
    have h1 := addLine_treeW e.f.syn none [B "module", autoQuote p] e.next
    rw [tokW2, len_module] at h1
    simp only [W, listsW, goLen, modPath, hm, qsz] at *
    omega
  | some m =>
    have h1 := editUpdateLine_treeW e.f.syn m.lineId [B "module", autoQuote p] hn
    rw [tokW2, len_module] at h1
    simp only [W, listsW, goLen, modPath, hm, qsz] at *
    omega

theorem addGoStmt_W (e e' : EFile) (v : Bytes) (hn : (treeIds e.f.syn.stmts).Nodup) (h : Edit.addGoStmt e v = .ok e') :
    W e' ≤ W e + 4 * v.length + 32 := by
  unfold Edit.addGoStmt at h
  split at h
  · cases h
  · cases hg : e.f.go with
    | none =>
      simp only [hg, Except.ok.injEq] at h
      subst h
      have h1 := addLine_treeW e.f.syn (e.f.module.map (·.lineId)) [B "go", v] e.next
      rw [tokW2, len_go] at h1
      simp only [W, listsW, goLen, modPath, hg] at *
      omega
    | some g =>
      simp only [hg, Except.ok.injEq] at h
      subst h
      have h1 := editUpdateLine_treeW e.f.syn g.lineId [B "go", v] hn
      rw [tokW2, len_go] at h1
      simp only [W, listsW, goLen, modPath, hg] at *
      omega

theorem dropGoStmt_W (e : EFile) : W (Edit.dropGoStmt e) ≤ W e := by
  unfold Edit.dropGoStmt
  cases hg : e.f.go with
  | none => exact Nat.le_refl _
  | some g =>
    have h1 := markRemoved_treeW e.f.syn g.lineId
    simp only [W, listsW, goLen, modPath, hg] at *
    omega

theorem addToolchainStmt_W (e e' : EFile) (n : Bytes) (hn : (treeIds e.f.syn.stmts).Nodup) (h : Edit.addToolchainStmt e n = .ok e') :
    W e' ≤ W e + 4 * n.length + 32 := by
  unfold Edit.addToolchainStmt at h
  split at h
  · cases h
  · cases hg : e.f.toolchain with
    | none =>
      simp only [hg, Except.ok.injEq] at h
      subst h
      have key : ∀ hint : Option Nat, W ({ f := { e.f with toolchain := some { name := n, lineId := e.next }, syn := Edit.addLine e.f.syn hint [B "toolchain", n] e.next }, next := e.next + 1 } : EFile) ≤ W e + 4 * n.length + 32 := by
        intro hint
        have h1 := addLine_treeW e.f.syn hint [B "toolchain", n] e.next
        rw [tokW2, len_toolchain] at h1
        simp only [W, listsW, goLen, modPath] at *
        omega
      exact key _
    | some t =>
      simp only [hg, Except.ok.injEq] at h
      subst h
      have h1 := editUpdateLine_treeW e.f.syn t.lineId [B "toolchain", n] hn
      rw [tokW2, len_toolchain] at h1
      simp only [W, listsW, goLen, modPath] at *
      omega

theorem dropToolchainStmt_W (e : EFile) : W (Edit.dropToolchainStmt e) ≤ W e := by
  unfold Edit.dropToolchainStmt
  cases hg : e.f.toolchain with
  | none => exact Nat.le_refl _
  | some g =>
    have h1 := markRemoved_treeW e.f.syn g.lineId
    simp only [W, listsW, goLen, modPath] at *
    omega

theorem addGodebug_W (e e' : EFile) (k v : Bytes) (hn : (treeIds e.f.syn.stmts).Nodup) (h : Edit.addGodebug e k v = .ok e') :
    W e' ≤ W e + 4 * (k.length + v.length) + 32 := by
  unfold Edit.addGodebug Edit.addGodebugCore at h
  simp only [bind, Except.bind] at h
  cases hfr : firstRest (fun g : Godebug => g.key == k) (·.lineId) (fun g => { g with value := v }) Edit.clearedGodebug e.f.godebug true with
  | error err => simp [hfr] at h
  | ok r =>
    obtain ⟨gd', first, dead⟩ := r
    have hl := firstRest_length _ _ _ _ _ _ _ _ _ hfr
    simp only [hfr] at h
    have ht : tokW [B "godebug", k ++ [61] ++ v] = 2 * k.length + 2 * v.length + 18 := by
      rw [tokW2, len_godebug]; simp; omega
    cases first with
    | some i =>
      simp only [pure, Except.pure, Except.ok.injEq] at h
      subst h
      have h1 := editUpdateLine_treeW e.f.syn i [B "godebug", k ++ [61] ++ v] hn
      have h2 := markAll_treeW dead (Edit.updateLine e.f.syn i [B "godebug", k ++ [61] ++ v])
      rw [ht] at h1
      simp only [W, listsW, goLen, modPath] at *
      omega
    | none =>
      simp only [pure, Except.pure, Except.ok.injEq] at h
      subst h
      have h1 := addLine_treeW e.f.syn none [B "godebug", k ++ [61] ++ v] e.next
      rw [ht] at h1
      simp only [W, listsW, goLen, modPath, List.length_append, List.length_cons, List.length_nil] at *
      omega

/-- the shape shared by the Drop operations: a typed list of the same length, some lines marked removed -/
theorem dropGodebug_W (e e' : EFile) (k : Bytes) (h : Edit.dropGodebug e k = .ok e') : W e' ≤ W e := by
  unfold Edit.dropGodebug at h
  simp only [bind, Except.bind] at h
  cases hc : clearAll (fun g : Godebug => g.key == k) (·.lineId) Edit.clearedGodebug e.f.godebug with
  | error err => simp [hc] at h
  | ok r =>
    obtain ⟨gd, dead⟩ := r
    have hl := clearAll_length _ _ _ _ _ _ hc
    simp only [hc, pure, Except.pure, Except.ok.injEq] at h
    subst h
    have h2 := markAll_treeW dead e.f.syn
    simp only [W, listsW, goLen, modPath] at *
    omega

theorem setIndirectLine_token (b : Bool) (l : Line) : (Edit.setIndirectLine b l).token = l.token := by
  unfold Edit.setIndirectLine
  split
  · rfl
  · split
    · split <;> rfl
    · split
      · rfl
      · simp only []
        split <;> rfl

theorem addNewRequire_W (e : EFile) (p v : Bytes) (i : Bool) : W (Edit.addNewRequire e p v i) ≤ W e + 2 * (autoQuote p).length + 2 * v.length + 20 := by
  unfold Edit.addNewRequire
  have h1 := addLine_treeW e.f.syn none [B "require", autoQuote p, v] e.next
  have h2 := updateLine_treeW_le (Edit.addLine e.f.syn none [B "require", autoQuote p, v] e.next) e.next (Edit.setIndirectLine i)
    (fun l => by simp [lineW, setIndirectLine_token])
  rw [tokW3, len_require] at h1
  simp only [W, listsW, goLen, modPath, List.length_append, List.length_cons, List.length_nil] at *
  omega

theorem addRequire_W (e e' : EFile) (p v : Bytes) (hn : (treeIds e.f.syn.stmts).Nodup) (h : Edit.addRequire e p v = .ok e') :
    W e' ≤ W e + 4 * (qsz p + v.length) + 32 := by
  unfold Edit.addRequire at h
  simp only [bind, Except.bind] at h
  cases hfr : firstRest (fun r : Require => r.mod.path == p) (·.lineId)
      (fun r => { r with mod := { r.mod with version := v } }) Edit.clearedRequire e.f.require true with
  | error err => simp [hfr] at h
  | ok r =>
    obtain ⟨rq, first, dead⟩ := r
    have hl := firstRest_length _ _ _ _ _ _ _ _ _ hfr
    simp only [hfr] at h
    cases first with
    | some i =>
      simp only [pure, Except.pure, Except.ok.injEq] at h
      subst h
      have h1 := editUpdateLine_treeW e.f.syn i [B "require", autoQuote p, v] hn
      have h2 := markAll_treeW dead (Edit.updateLine e.f.syn i [B "require", autoQuote p, v])
      rw [tokW3, len_require] at h1
      simp only [W, listsW, goLen, modPath, qsz] at *
      omega
    | none =>
      simp only [pure, Except.pure, Except.ok.injEq] at h
      subst h
      have := addNewRequire_W e p v false
      simp only [qsz]; omega

theorem dropRequire_W (e e' : EFile) (p : Bytes) (h : Edit.dropRequire e p = .ok e') : W e' ≤ W e := by
  unfold Edit.dropRequire at h
  simp only [bind, Except.bind] at h
  cases hc : clearAll (fun r : Require => r.mod.path == p) (·.lineId) Edit.clearedRequire e.f.require with
  | error err => simp [hc] at h
  | ok r =>
    obtain ⟨gd, dead⟩ := r
    have hl := clearAll_length _ _ _ _ _ _ hc
    simp only [hc, pure, Except.pure, Except.ok.injEq] at h
    subst h
    have h2 := markAll_treeW dead e.f.syn
    simp only [W, listsW, goLen, modPath] at *
    omega

theorem addExclude_W (e e' : EFile) (p v : Bytes) (h : Edit.addExclude e p v = .ok e') :
    W e' ≤ W e + 4 * (qsz p + v.length) + 32 := by
  unfold Edit.addExclude at h
  split at h
  · cases h
  · split at h
    · simp only [Except.ok.injEq] at h; subst h; omega
    · simp only [Except.ok.injEq] at h
      subst h
      have h1 := addLinePtr_treeW e.f.syn (Edit.lastWith (fun x : Exclude => x.mod.path == p) (·.lineId) e.f.exclude none)
        [B "exclude", autoQuote p, v] e.next
      rw [tokW3, len_exclude] at h1
      simp only [W, listsW, goLen, modPath, qsz, List.length_append, List.length_cons, List.length_nil] at *
      omega

theorem dropExclude_W (e e' : EFile) (p v : Bytes) (h : Edit.dropExclude e p v = .ok e') : W e' ≤ W e := by
  unfold Edit.dropExclude at h
  simp only [bind, Except.bind] at h
  cases hc : clearAll (fun x : Exclude => x.mod.path == p && x.mod.version == v) (·.lineId) Edit.clearedExclude e.f.exclude with
  | error err => simp [hc] at h
  | ok r =>
    obtain ⟨gd, dead⟩ := r
    have hl := clearAll_length _ _ _ _ _ _ hc
    simp only [hc, pure, Except.pure, Except.ok.injEq] at h
    subst h
    have h2 := markAll_treeW dead e.f.syn
    simp only [W, listsW, goLen, modPath] at *
    omega

theorem sortBlocks_W (e : EFile) : W (Edit.sortBlocks e) ≤ W e := by
  simp only [Edit.sortBlocks, Edit.removeDups, Option.map_some, Option.getD_some, W, listsW, goLen, modPath, sortStmts_treeW]
  have h1 := dropKilled_treeW
    (Edit.killLater (fun x : Exclude => x.mod) (·.lineId) e.f.exclude [] ++ Edit.killEarlier e.f.replace ++
      Edit.killLater (fun t : Tool => t.path) (·.lineId) e.f.tool []) e.f.syn.stmts
  have h2 := List.length_filter_le (fun x : Exclude => !(Edit.killLater (fun x : Exclude => x.mod) (·.lineId) e.f.exclude []).contains x.lineId) e.f.exclude
  have h3 := List.length_filter_le (fun x : Replace => !(Edit.killLater (fun x : Exclude => x.mod) (·.lineId) e.f.exclude [] ++ Edit.killEarlier e.f.replace).contains x.lineId) e.f.replace
  have h4 := List.length_filter_le (fun t : Tool => !(Edit.killLater (fun x : Exclude => x.mod) (·.lineId) e.f.exclude [] ++ Edit.killEarlier e.f.replace ++
      Edit.killLater (fun t : Tool => t.path) (·.lineId) e.f.tool []).contains t.lineId) e.f.tool
  omega

theorem cleanup_W (e : EFile) : W (Edit.cleanup e) ≤ W e := by
  simp only [Edit.cleanup, Edit.cleanupSyntax, W, listsW, goLen, modPath]
  have h1 := cleanupStmts_treeW e.f.syn.stmts
  have h2 := List.length_filter_le (fun g : Godebug => !g.key.isEmpty) e.f.godebug
  have h3 := List.length_filter_le (fun r : Require => !r.mod.path.isEmpty) e.f.require
  have h4 := List.length_filter_le (fun x : Exclude => !x.mod.path.isEmpty) e.f.exclude
  have h5 := List.length_filter_le (fun r : Replace => !r.old.path.isEmpty) e.f.replace
  have h6 := List.length_filter_le (fun r : Retract => !r.interval.low.isEmpty || !r.interval.high.isEmpty) e.f.retract
  have h7 := List.length_filter_le (fun t : Tool => !t.path.isEmpty) e.f.tool
  omega

theorem addTool_W (e : EFile) (p : Bytes) : W (Edit.addTool e p) ≤ W e + 4 * p.length + 32 := by
  unfold Edit.addTool
  split
  · omega
  · have h1 := sortBlocks_W (addToolPre e p)
    have h2 := addToolPre_W e p
    unfold addToolPre at h1 h2
    omega

theorem dropTool_W (e e' : EFile) (p : Bytes) (h : Edit.dropTool e p = .ok e') : W e' ≤ W e := by
  unfold Edit.dropTool at h
  simp only [bind, Except.bind] at h
  cases hc : clearAll (fun t : Tool => t.path == p) (·.lineId) Edit.clearedTool e.f.tool with
  | error err => simp [hc] at h
  | ok r =>
    obtain ⟨gd, dead⟩ := r
    have hl := clearAll_length _ _ _ _ _ _ hc
    simp only [hc, pure, Except.pure, Except.ok.injEq] at h
    subst h
    have h2 := markAll_treeW dead e.f.syn
    simp only [W, listsW, goLen, modPath] at *
    omega

theorem dropRetract_W (e e' : EFile) (vi : VersionInterval) (h : Edit.dropRetract e vi = .ok e') : W e' ≤ W e := by
  unfold Edit.dropRetract at h
  simp only [bind, Except.bind] at h
  cases hc : clearAll (fun r : Retract => r.interval == vi) (·.lineId) Edit.clearedRetract e.f.retract with
  | error err => simp [hc] at h
  | ok r =>
    obtain ⟨gd, dead⟩ := r
    have hl := clearAll_length _ _ _ _ _ _ hc
    simp only [hc, pure, Except.pure, Except.ok.injEq] at h
    subst h
    have h2 := markAll_treeW dead e.f.syn
    simp only [W, listsW, goLen, modPath] at *
    omega

theorem dropReplace_W (e e' : EFile) (a b : Bytes) (h : Edit.dropReplace e a b = .ok e') : W e' ≤ W e := by
  unfold Edit.dropReplace Edit.dropReplaceCore at h
  simp only [bind, Except.bind] at h
  cases hc : clearAll (fun r : Replace => r.old.path == a && r.old.version == b) (·.lineId) Edit.clearedReplace e.f.replace with
  | error err => simp [hc] at h
  | ok r =>
    obtain ⟨gd, dead⟩ := r
    have hl := clearAll_length _ _ _ _ _ _ hc
    simp only [hc, pure, Except.pure, Except.ok.injEq] at h
    subst h
    have h2 := markAll_treeW dead e.f.syn
    simp only [W, listsW, goLen, modPath] at *
    omega

theorem replaceToks_W (a b c d : Bytes) :
    tokW ([B "replace", autoQuote a] ++ (if b.isEmpty then [] else [b]) ++ [B "=>", autoQuote c] ++ (if d.isEmpty then [] else [d])) ≤
      2 * (autoQuote a).length + 2 * b.length + 2 * (autoQuote c).length + 2 * d.length + 24 := by
  simp only [tokW_append, tokW2, len_replace, len_arrow]
  split <;> split <;> simp <;> omega

theorem addReplace_W (e e' : EFile) (a b c d : Bytes) (hn : (treeIds e.f.syn.stmts).Nodup) (h : Edit.addReplace e a b c d = .ok e') :
    W e' ≤ W e + 4 * (qsz a + b.length + qsz c + d.length) + 32 := by
  unfold Edit.addReplace Edit.addReplaceCore at h
  simp only [bind, Except.bind] at h
  have ht := replaceToks_W a b c d
  generalize ([B "replace", autoQuote a] ++ (if b.isEmpty then [] else [b]) ++ [B "=>", autoQuote c] ++ (if d.isEmpty then [] else [d])) = toks at h ht
  cases hfr : firstRest (fun r : Replace => r.old.path == a && (b.isEmpty || r.old.version == b)) (·.lineId)
      (fun r => { r with old := { path := a, version := b }, new := { path := c, version := d } }) Edit.clearedReplace e.f.replace true with
  | error err => simp [hfr] at h
  | ok r =>
    obtain ⟨rp, first, dead⟩ := r
    have hl := firstRest_length _ _ _ _ _ _ _ _ _ hfr
    simp only [hfr] at h
    cases first with
    | some i =>
      simp only [pure, Except.pure, Except.ok.injEq] at h
      subst h
      have h1 := editUpdateLine_treeW e.f.syn i toks hn
      have h2 := markAll_treeW dead (Edit.updateLine e.f.syn i toks)
      simp only [W, listsW, goLen, modPath, qsz] at *
      omega
    | none =>
      simp only [pure, Except.pure, Except.ok.injEq] at h
      subst h
      have h1 := addLinePtr_treeW e.f.syn (Edit.lastWith (fun r : Replace => r.old.path == a) (·.lineId) e.f.replace none) toks e.next
      simp only [W, listsW, goLen, modPath, qsz, List.length_append, List.length_cons, List.length_nil] at *
      omega

theorem addRetract_W (e e' : EFile) (vi : VersionInterval) (why : Bytes) (h : Edit.addRetract e vi why = .ok e') :
    W e' ≤ W e + 4 * (qsz vi.low + qsz vi.high + why.length) + 32 := by
  rw [FnEditReqE.addRetract_eq] at h
  split at h
  · cases h
  · split at h
    · cases h
    · simp only [Except.ok.injEq] at h
      subst h
      have ht : tokW (FnEditReqE.retrTokens vi) ≤ 2 * (autoQuote vi.low).length + 2 * (autoQuote vi.high).length + 26 := by
        unfold FnEditReqE.retrTokens
        split
        · rw [tokW2, len_retract]; omega
        · simp [len_retract]; omega
      have h1 := addLine_treeW e.f.syn none (FnEditReqE.retrTokens vi) e.next
      have h3 := updateLine_treeW_le (Edit.addLine e.f.syn none (FnEditReqE.retrTokens vi) e.next) e.next
        (FnEditReqE.addBefore (FnEditReqE.ratComs why)) (fun l => Nat.le_refl _)
      simp only [FnEditReqE.addRetractOk, W, listsW, goLen, modPath, qsz, List.length_append, List.length_cons, List.length_nil] at *
      omega

/-- **one operation (not a bulk setter) increases the potential by at most `G op`** -/
theorem applyMod_W (e e' : EFile) (op : EditSpec.Op) (hb : NotBulk op) (hn : (treeIds e.f.syn.stmts).Nodup)
    (h : applyMod e (opM op) = some (.ok e')) : W e' ≤ W e + G op := by
  cases op <;> simp only [opM, opR, applyMod, Option.some.injEq, Except.ok.injEq, reduceCtorEq] at h <;>
    simp only [G, opSize]
  · subst h; exact addModuleStmt_W e _ hn
  · exact addGoStmt_W e e' _ hn h
  · subst h; have := dropGoStmt_W e; omega
  · exact addToolchainStmt_W e e' _ hn h
  · subst h; have := dropToolchainStmt_W e; omega
  · exact addGodebug_W e e' _ _ hn h
  · have := dropGodebug_W e e' _ h; omega
  · exact addRequire_W e e' _ _ hn h
  · subst h; rename_i p v i; have := addNewRequire_W e p v i; simp only [qsz]; omega
  · have := dropRequire_W e e' _ h; omega
  · exact hb.elim
  · exact hb.elim
  · exact addExclude_W e e' _ _ h
  · have := dropExclude_W e e' _ _ h; omega
  · exact addReplace_W e e' _ _ _ _ hn h
  · have := dropReplace_W e e' _ _ h; omega
  · exact addRetract_W e e' _ _ h
  · have := dropRetract_W e e' _ h; omega
  · subst h; exact addTool_W e _
  · have := dropTool_W e e' _ h; omega
  · subst h; have := sortBlocks_W e; omega
  · subst h; have := cleanup_W e; omega

end ModVerif.Tie.FnEditFuelC
