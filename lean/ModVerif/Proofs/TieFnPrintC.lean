/-
  Helper lemmas for Tie/FnPrint.lean, part C: the static costs of the printer's operations on the model's tree, and the
  model-side facts the simulation needs: every operation preserves the margin, and the potential `pot M` grows by at most
  the cost of the operation (see the header of TieFnPrintB.lean).  No generated code in this file.
-/
import ModVerif.Proofs.TieFnPrintB
set_option linter.unusedSimpArgs false
set_option linter.unusedVariables false
namespace ModVerif.TieFnPrint
open ModVerif ModVerif.Modfile

/-! ### costs -/

/-- whole-line comments, each followed by `newline` -/
def cLines (M : Nat) : List Modfile.Comment → Nat
  | [] => 1
  | c :: cs => (GoStrings.trimSpace c.token).length + cNewline M + 1 + cLines M cs

/-- the prologue of `expr` -/
def cBefore (M : Nat) (cs : List Modfile.Comment) : Nat := if cs.isEmpty then 0 else M + 2 + cLines M cs

def cToks : List Bytes → Nat
  | [] => 0
  | t :: ts => t.length + 1 + cToks ts

def cLine (M : Nat) (l : Modfile.Line) : Nat :=
  cBefore M l.comments.before + cToks l.token + cComs M l.comments.suffix + 2

/-- `(`, `)` and a comment block: at most one byte -/
def cParen (M : Nat) (c : Modfile.Comments) : Nat := cBefore M c.before + cComs M c.suffix + 3

def cBlockLines (M : Nat) : List Modfile.Line → Nat
  | [] => 1
  | l :: ls => cNewline M + cLine M l + 1 + cBlockLines M ls

def cBlock (M : Nat) (b : Modfile.LineBlock) : Nat :=
  cBefore M b.comments.before + cToks b.token + cParen M b.lparen.comments + cBlockLines M b.lines + cNewline M
    + cParen M b.rparen.comments + cComs M b.comments.suffix + 3

def cExpr (M : Nat) : Modfile.Expr → Nat
  | .commentBlock x => cParen M x.comments
  | .line x => cLine M x
  | .lineBlock x => cBlock M x
  | .lparen x => cParen M x.comments
  | .rparen x => cParen M x.comments

def cStmts (M : Nat) : List Modfile.Expr → Nat
  | [] => 1
  | s :: rest => cExpr M s + cNewline M + cLines M s.comments.after + cNewline M + 1 + cStmts M rest

def cFile (M : Nat) (f : Modfile.FileSyntax) : Nat := cLines M f.comments.before + cStmts M f.stmts

/-! ### potential of the primitive operations -/

@[simp] theorem pot_write (M : Nat) (mp : Printer) (s : Bytes) : pot M (mp.write s) = pot M mp + s.length := by
  simp [pot]; omega
@[simp] theorem pot_writeByte (M : Nat) (mp : Printer) (c : UInt8) : pot M (mp.writeByte c) = pot M mp + 1 := by
  simp [pot]; omega
@[simp] theorem pot_tabs (M : Nat) (mp : Printer) : pot M mp.tabs = pot M mp + mp.margin := by
  simp [pot]; omega
theorem pot_trim (M : Nat) (mp : Printer) : pot M mp.trim ≤ pot M mp := by
  have := trim_length mp
  simp [pot]; omega
theorem pot_len (M : Nat) (mp : Printer) : mp.bufRev.length ≤ pot M mp := by simp [pot]

@[simp] theorem queueSuffix_margin (mp : Printer) (s : List Modfile.Comment) : (mp.queueSuffix s).margin = mp.margin := rfl
@[simp] theorem pot_queueSuffix (M : Nat) (mp : Printer) (s : List Modfile.Comment) :
    pot M (mp.queueSuffix s) = pot M mp + cComs M s := by
  simp [pot, Printer.queueSuffix, cComs_append]; omega

/-- the potential does not depend on the margin -/
@[simp] theorem pot_setMargin (M : Nat) (mp : Printer) (m : Nat) : pot M { mp with margin := m } = pot M mp := rfl

/-! ### commentLines, emitBefore -/

@[simp] theorem commentLines_margin (cs : List Modfile.Comment) : ∀ mp : Printer, (mp.commentLines cs).margin = mp.margin := by
  induction cs with
  | nil => intro mp; rfl
  | cons c cs ih => intro mp; simp [Printer.commentLines, ih]

theorem commentLines_pot (M : Nat) (cs : List Modfile.Comment) : ∀ mp : Printer, mp.margin ≤ M →
    pot M (mp.commentLines cs) + 1 ≤ pot M mp + cLines M cs := by
  induction cs with
  | nil => intro mp hm; simp [Printer.commentLines, cLines]
  | cons c cs ih =>
    intro mp hm
    have h1 := newline_pot M (mp.write (GoStrings.trimSpace c.token)) (by simpa using hm)
    have h2 := ih (mp.write (GoStrings.trimSpace c.token)).newline (by simpa using hm)
    simp only [pot_write] at h1
    simp only [Printer.commentLines, cLines]
    omega

@[simp] theorem emitBefore_margin (mp : Printer) (cs : List Modfile.Comment) : (mp.emitBefore cs).margin = mp.margin := by
  unfold Printer.emitBefore
  split
  · rfl
  · simp only [commentLines_margin, tabs_margin]
    split <;> simp

theorem emitBefore_pot (M : Nat) (mp : Printer) (cs : List Modfile.Comment) (hm : mp.margin ≤ M) :
    pot M (mp.emitBefore cs) ≤ pot M mp + cBefore M cs := by
  unfold Printer.emitBefore cBefore
  split
  · omega
  · have ht := pot_trim M mp
    simp only []
    split
    · have := commentLines_pot M cs (mp.trim.writeByte 10).tabs (by simpa using hm)
      simp only [pot_tabs, pot_writeByte, writeByte_margin, trim_margin] at this
      omega
    · have := commentLines_pot M cs mp.trim.tabs (by simpa using hm)
      simp only [pot_tabs, trim_margin] at this
      omega

/-! ### tokens -/

@[simp] theorem tokensAux_margin (ts : List Bytes) : ∀ (mp : Printer) (sep : Bytes),
    (mp.tokensAux ts sep).margin = mp.margin := by
  induction ts with
  | nil => intro mp sep; rfl
  | cons t ts ih => intro mp sep; simp [Printer.tokensAux, ih]

@[simp] theorem tokensAux_comment (ts : List Bytes) : ∀ (mp : Printer) (sep : Bytes),
    (mp.tokensAux ts sep).comment = mp.comment := by
  induction ts with
  | nil => intro mp sep; rfl
  | cons t ts ih => intro mp sep; simp [Printer.tokensAux, ih]

theorem tokensAux_length (ts : List Bytes) : ∀ (mp : Printer) (sep : Bytes), sep.length ≤ 1 →
    (mp.tokensAux ts sep).bufRev.length ≤ mp.bufRev.length + cToks ts := by
  induction ts with
  | nil => intro mp sep hs; simp [Printer.tokensAux, cToks]
  | cons t ts ih =>
    intro mp sep hs
    simp only [Printer.tokensAux, cToks]
    have h1 : (if Printer.noSepBefore.contains t = true then ([] : Bytes) else sep).length ≤ 1 := by
      split <;> simp [hs]
    have h2 : (if Printer.noSepAfter.contains t = true then ([] : Bytes) else [32]).length ≤ 1 := by
      split <;> simp
    have := ih ((mp.write (if Printer.noSepBefore.contains t = true then [] else sep)).write t) _ h2
    simp only [write_length] at this
    omega

@[simp] theorem tokens_margin (mp : Printer) (ts : List Bytes) : (mp.tokens ts).margin = mp.margin := by
  simp [Printer.tokens]

theorem tokens_pot (M : Nat) (mp : Printer) (ts : List Bytes) : pot M (mp.tokens ts) ≤ pot M mp + cToks ts := by
  have := tokensAux_length ts mp [] (by simp)
  simp only [pot, Printer.tokens, tokensAux_comment]
  omega

theorem length_le_cToks : ∀ ts : List Bytes, ts.length ≤ cToks ts
  | [] => Nat.le_refl _
  | t :: ts => by have := length_le_cToks ts; simp only [List.length_cons, cToks]; omega

/-! ### the node kinds of expr -/

@[simp] theorem exprCommentBlock_margin (mp : Printer) (x : Modfile.CommentBlock) :
    (mp.exprCommentBlock x).margin = mp.margin := by simp [Printer.exprCommentBlock]
@[simp] theorem exprLParen_margin (mp : Printer) (x : Modfile.LParen) : (mp.exprLParen x).margin = mp.margin := by
  simp [Printer.exprLParen]
@[simp] theorem exprRParen_margin (mp : Printer) (x : Modfile.RParen) : (mp.exprRParen x).margin = mp.margin := by
  simp [Printer.exprRParen]
@[simp] theorem exprLine_margin (mp : Printer) (x : Modfile.Line) : (mp.exprLine x).margin = mp.margin := by
  simp [Printer.exprLine]

theorem exprCommentBlock_pot (M : Nat) (mp : Printer) (x : Modfile.CommentBlock) (hm : mp.margin ≤ M) :
    pot M (mp.exprCommentBlock x) + 3 ≤ pot M mp + cParen M x.comments := by
  have := emitBefore_pot M mp x.comments.before hm
  simp only [Printer.exprCommentBlock, pot_queueSuffix, cParen]; omega

theorem exprLParen_pot (M : Nat) (mp : Printer) (x : Modfile.LParen) (hm : mp.margin ≤ M) :
    pot M (mp.exprLParen x) + 2 ≤ pot M mp + cParen M x.comments := by
  have := emitBefore_pot M mp x.comments.before hm
  simp only [Printer.exprLParen, pot_queueSuffix, pot_writeByte, cParen]; omega

theorem exprRParen_pot (M : Nat) (mp : Printer) (x : Modfile.RParen) (hm : mp.margin ≤ M) :
    pot M (mp.exprRParen x) + 2 ≤ pot M mp + cParen M x.comments := by
  have := emitBefore_pot M mp x.comments.before hm
  simp only [Printer.exprRParen, pot_queueSuffix, pot_writeByte, cParen]; omega

theorem exprLine_pot (M : Nat) (mp : Printer) (x : Modfile.Line) (hm : mp.margin ≤ M) :
    pot M (mp.exprLine x) + 2 ≤ pot M mp + cLine M x := by
  have h1 := emitBefore_pot M mp x.comments.before hm
  have h2 := tokens_pot M (mp.emitBefore x.comments.before) x.token
  simp only [Printer.exprLine, pot_queueSuffix, cLine]; omega

@[simp] theorem exprLines_margin (ls : List Modfile.Line) : ∀ mp : Printer, (mp.exprLines ls).margin = mp.margin := by
  induction ls with
  | nil => intro mp; rfl
  | cons l ls ih => intro mp; simp [Printer.exprLines, ih]

theorem exprLines_pot (M : Nat) (ls : List Modfile.Line) : ∀ mp : Printer, mp.margin ≤ M →
    pot M (mp.exprLines ls) + 1 ≤ pot M mp + cBlockLines M ls := by
  induction ls with
  | nil => intro mp hm; simp [Printer.exprLines, cBlockLines]
  | cons l ls ih =>
    intro mp hm
    have h1 := newline_pot M mp hm
    have h2 := exprLine_pot M mp.newline l (by simpa using hm)
    have h3 := ih (mp.newline.exprLine l) (by simpa using hm)
    simp only [Printer.exprLines, cBlockLines]
    omega

@[simp] theorem exprLineBlock_margin (mp : Printer) (x : Modfile.LineBlock) : (mp.exprLineBlock x).margin = mp.margin := by
  simp [Printer.exprLineBlock]

theorem exprLineBlock_pot (M : Nat) (mp : Printer) (x : Modfile.LineBlock) (hm : mp.margin + 1 ≤ M) :
    pot M (mp.exprLineBlock x) + 3 ≤ pot M mp + cBlock M x := by
  have hm0 : mp.margin ≤ M := by omega
  have h1 := emitBefore_pot M mp x.comments.before hm0
  have h2 := tokens_pot M (mp.emitBefore x.comments.before) x.token
  let p2 := ((mp.emitBefore x.comments.before).tokens x.token).writeByte 32
  have h3 := exprLParen_pot M p2 x.lparen (by simpa [p2] using hm0)
  let p3 : Printer := { p2.exprLParen x.lparen with margin := (p2.exprLParen x.lparen).margin + 1 }
  have h4 := exprLines_pot M x.lines p3 (by simpa [p3, p2] using hm)
  let p4 : Printer := { p3.exprLines x.lines with margin := (p3.exprLines x.lines).margin - 1 }
  have h5 := newline_pot M p4 (by simp [p4, p3, p2]; omega)
  have h6 := exprRParen_pot M p4.newline x.rparen (by simp [p4, p3, p2]; omega)
  have e : mp.exprLineBlock x = (p4.newline.exprRParen x.rparen).queueSuffix x.comments.suffix := rfl
  rw [e, pot_queueSuffix]
  simp only [p4, p3, p2, pot_setMargin, pot_writeByte] at h3 h4 h5 h6 ⊢
  simp only [cBlock]
  omega

@[simp] theorem expr_margin (mp : Printer) (x : Modfile.Expr) : (mp.expr x).margin = mp.margin := by
  cases x <;> simp [Printer.expr]

theorem expr_pot (M : Nat) (mp : Printer) (x : Modfile.Expr) (hm : mp.margin + 1 ≤ M) :
    pot M (mp.expr x) + 2 ≤ pot M mp + cExpr M x := by
  have hm0 : mp.margin ≤ M := by omega
  cases x with
  | commentBlock x => have := exprCommentBlock_pot M mp x hm0; simp only [Printer.expr, cExpr]; omega
  | line x => exact exprLine_pot M mp x hm0
  | lineBlock x => have := exprLineBlock_pot M mp x hm; simp only [Printer.expr, cExpr]; omega
  | lparen x => exact exprLParen_pot M mp x hm0
  | rparen x => exact exprRParen_pot M mp x hm0

/-! ### file -/

/-- one iteration of the statement loop of `file` -/
def stmtStep (mp : Printer) (s : Modfile.Expr) (last : Bool) : Printer :=
  let p := match s with
    | .commentBlock x => mp.exprCommentBlock x
    | s => (mp.expr s).newline
  let p := p.commentLines s.comments.after
  if last then p else p.newline

theorem stmts_cons (mp : Printer) (s : Modfile.Expr) (rest : List Modfile.Expr) :
    mp.stmts (s :: rest) = (stmtStep mp s rest.isEmpty).stmts rest := by
  cases s <;> rfl

@[simp] theorem stmtStep_margin (mp : Printer) (s : Modfile.Expr) (last : Bool) : (stmtStep mp s last).margin = mp.margin := by
  unfold stmtStep
  cases s <;> cases last <;> simp

theorem stmtStep_pot (M : Nat) (mp : Printer) (s : Modfile.Expr) (last : Bool) (hm : mp.margin + 1 ≤ M) :
    pot M (stmtStep mp s last) + 1 ≤ pot M mp + cExpr M s + cNewline M + cLines M s.comments.after + cNewline M := by
  have hm0 : mp.margin ≤ M := by omega
  have key : ∀ q : Printer, q.margin = mp.margin → pot M q ≤ pot M mp + cExpr M s + cNewline M →
      pot M (if last then q.commentLines s.comments.after else (q.commentLines s.comments.after).newline) + 1
        ≤ pot M mp + cExpr M s + cNewline M + cLines M s.comments.after + cNewline M := by
    intro q hq hp
    have h1 := commentLines_pot M s.comments.after q (by omega)
    have h2 := newline_pot M (q.commentLines s.comments.after) (by simp; omega)
    cases last
    · simp only [Bool.false_eq_true, if_false]; omega
    · simp only [if_true]; omega
  cases s with
  | commentBlock x =>
    have := exprCommentBlock_pot M mp x hm0
    exact key (mp.exprCommentBlock x) (by simp) (by simp only [cExpr]; omega)
  | line x =>
    have h1 := expr_pot M mp (.line x) hm
    have h2 := newline_pot M (mp.expr (.line x)) (by simp; omega)
    exact key (mp.expr (.line x)).newline (by simp) (by omega)
  | lineBlock x =>
    have h1 := expr_pot M mp (.lineBlock x) hm
    have h2 := newline_pot M (mp.expr (.lineBlock x)) (by simp; omega)
    exact key (mp.expr (.lineBlock x)).newline (by simp) (by omega)
  | lparen x =>
    have h1 := expr_pot M mp (.lparen x) hm
    have h2 := newline_pot M (mp.expr (.lparen x)) (by simp; omega)
    exact key (mp.expr (.lparen x)).newline (by simp) (by omega)
  | rparen x =>
    have h1 := expr_pot M mp (.rparen x) hm
    have h2 := newline_pot M (mp.expr (.rparen x)) (by simp; omega)
    exact key (mp.expr (.rparen x)).newline (by simp) (by omega)

theorem stmts_pot (M : Nat) (ss : List Modfile.Expr) : ∀ mp : Printer, mp.margin + 1 ≤ M →
    pot M (mp.stmts ss) + 1 ≤ pot M mp + cStmts M ss := by
  induction ss with
  | nil => intro mp hm; simp [Printer.stmts, cStmts]
  | cons s rest ih =>
    intro mp hm
    have h1 := stmtStep_pot M mp s rest.isEmpty hm
    have h2 := ih (stmtStep mp s rest.isEmpty) (by simpa using hm)
    rw [stmts_cons]
    simp only [cStmts]
    omega

theorem file_pot (M : Nat) (mp : Printer) (f : Modfile.FileSyntax) (hm : mp.margin + 1 ≤ M) :
    pot M (mp.file f) + 2 ≤ pot M mp + cFile M f := by
  have h1 := commentLines_pot M f.comments.before mp (by omega)
  have h2 := stmts_pot M f.stmts (mp.commentLines f.comments.before) (by simpa using hm)
  simp only [Printer.file, cFile]
  omega

end ModVerif.TieFnPrint
