/-
  Helper lemmas for Tie/FnRuleAdd.lean, part H: the statement loops of the regenerated `parseToFile`
  (`parseToFile_loop2` over the lines of a block = `addBlockLines`, `parseToFile_loop1` over the statements = `addStmts`).
  Owner: rule-add.
-/
import ModVerif.Proofs.TieFnRuleAddG
set_option linter.unusedSimpArgs false
set_option linter.unusedVariables false
namespace ModVerif.Tie.FnRuleAddH
open ModVerif ModVerif.GoRt ModVerif.Generated ModVerif.Tie.FnRuleRep ModVerif.Tie.FnRuleAddA ModVerif.Tie.FnRuleAddB ModVerif.Tie.FnRuleAddC
open ModVerif.Tie.FnRuleAddD ModVerif.Tie.FnRuleAddF ModVerif.Tie.FnRuleAddG
open ModVerif.Drv.GenRule (isPrintI unquoteI laxSubI deprecatedSubI fixG parseSynI)
open ModVerif.Modfile.Edit (treeIds)

abbrev PL2 := Rule.parseToFile_loop2 deprecatedSubI Modfile.goVersionRE isPrintI laxSubI parseSynI Quote.quote Modfile.toolchainRE unquoteI
abbrev PL1 := Rule.parseToFile_loop1 deprecatedSubI Modfile.goVersionRE isPrintI laxSubI parseSynI Quote.quote Modfile.toolchainRE unquoteI

/-- the leaf calls of `File.add` for the line `l` (arguments `args` after `pre`), whatever the heap and the pointer of
    the line are at the time of the call, for every fuel the loops may pass -/
def LineLeaf (ι : Int → Nat) (F : Nat) (block : Int) (bc : Option Modfile.Comments) (verb : Bytes) (fx : Option Modfile.Fixer)
    (l : Modfile.Line) (pre args : List Bytes) : Prop :=
  ∀ fuel', F ≤ fuel' → ∀ (hc : Rule.Heap) (p : Int), RLine ι hc p l → BlockRep hc block bc →
    AddLeaf fuel' hc block bc p l pre args verb fx

theorem RLines.frame {ι : Int → Nat} {h h' : Rule.Heap} :
    ∀ {ps : List Int} {ls : List Modfile.Line}, RLines ι h ps ls → (∀ p ∈ ps, heapGet h'.lines p = heapGet h.lines p) → RLines ι h' ps ls
  | [], [], _, _ => trivial
  | p :: ps, l :: ls, r, hf => ⟨⟨by rw [hf p List.mem_cons_self]; exact r.1.1, r.1.2⟩,
      RLines.frame r.2 (fun q hq => hf q (List.mem_cons_of_mem _ hq))⟩
  | [], _ :: _, r, _ => r.elim
  | _ :: _, [], r, _ => r.elim

/-- pointers of represented lines with different ids are different -/
theorem RLines.ne_of_id {ι : Int → Nat} {h : Rule.Heap} {p : Int} {l : Modfile.Line} (hl : RLine ι h p l) :
    ∀ {ps : List Int} {ls : List Modfile.Line}, RLines ι h ps ls → l.id ∉ ls.map (·.id) → p ∉ ps
  | [], [], _, _ => by simp
  | q :: ps, m :: ls, r, hn => by
    simp only [List.map_cons, List.mem_cons, not_or] at hn
    intro hm
    rcases List.mem_cons.1 hm with rfl | hm'
    · exact hn.1 (by rw [← hl.2, ← r.1.2])
    · exact RLines.ne_of_id hl r.2 hn.2 hm'
  | [], _ :: _, r, _ => r.elim
  | _ :: _, [], r, _ => r.elim


/-- the model tree with the block at position `A.length` having the lines `ls` -/
def synBlk (syn : Modfile.FileSyntax) (A B : List Modfile.Expr) (b : Modfile.LineBlock) (ls : List Modfile.Line) : Modfile.FileSyntax :=
  { syn with stmts := A ++ .lineBlock { b with lines := ls } :: B }

/-- **the loop of `parseToFile` over the lines of a block = the model's `addBlockLines`** -/
theorem PL2_spec {ι : Int → Nat} {fp bp : Int} {F : Nat} {fx : Option Modfile.Fixer} {strict : Bool} {verb : Bytes}
    {b : Modfile.LineBlock} {syn0 : Modfile.FileSyntax} {A B : List Modfile.Expr} (hbt : b.token = [verb]) :
    ∀ (todo : List Int) (LT : List Modfile.Line) (done : List Int) (LD : List Modfile.Line) (h : Rule.Heap) (errs : List Rule.Error)
      (st : Modfile.AddState) (bps : List Int) (fuel : Nat),
      F + todo.length + 1 ≤ fuel →
      RepRS ι h fp errs st (synBlk syn0 A B b (LD ++ LT)) →
      heapGet h.blocks bp = .ok (blockG b bps) →
      RLines ι h todo LT →
      (∀ l ∈ LT, LineLeaf ι F bp (some b.comments) verb fx l [] l.token) →
      ∃ ri errs' h', PL2 (done ++ todo) (fixG fx) strict fp bp fuel (done.length : Int) h errs = .ok (ri, h', errs') ∧
        RepRS ι h' fp errs' (Modfile.addBlockLines b.comments verb fx strict st LT).1
          (synBlk syn0 A B b (LD ++ (Modfile.addBlockLines b.comments verb fx strict st LT).2)) ∧
        h'.blocks = h.blocks ∧ h'.cbs = h.cbs ∧ h'.files = h.files ∧ h'.lines.length = h.lines.length ∧
        (∀ p, p ∉ todo → heapGet h'.lines p = heapGet h.lines p) ∧
        (∀ o o', heapGet h.mods fp = .ok o → heapGet h'.mods fp = .ok o' → o'.Syntax = o.Syntax) := by
  intro todo
  induction todo with
  | nil =>
    intro LT done LD h errs st bps fuel hf R hb hls _
    cases LT with
    | cons _ _ => exact hls.elim
    | nil =>
      obtain ⟨n, rfl⟩ : ∃ n, fuel = n + 1 := ⟨fuel - 1, by omega⟩
      refine ⟨(done.length : Int), errs, h, ?_, ?_, rfl, rfl, rfl, rfl, fun _ _ => rfl, ?_⟩
      · unfold PL2 Rule.parseToFile_loop2
        simp only [List.append_nil, not_lt_len_self, decide_false, Bool.false_eq_true, if_false, pure, Except.pure]
      · simpa [Modfile.addBlockLines] using R
      · intro a a' ha ha'; rw [ha] at ha'; cases ha'; rfl
  | cons p todo' ih =>
    intro LT done LD h errs st bps fuel hf R hb hls hleaf
    cases LT with
    | nil => exact hls.elim
    | cons l LT' =>
    obtain ⟨n, rfl⟩ : ∃ n, fuel = n + 1 := ⟨fuel - 1, by omega⟩
    obtain ⟨hl, hls'⟩ := hls
    have hFn : F ≤ n := by simp at hf; omega
    have hBR : BlockRep h bp (some b.comments) := ⟨_, hb, rfl⟩
    have hstep := FA_step R hl (pre := []) (args := l.token) (by simp) n bp (some b.comments) verb fx strict
      (hleaf l List.mem_cons_self n hFn h p hl hBR)
    obtain ⟨errs1, h1, hrun1, hpost⟩ := hstep
    -- the tree after the step
    obtain ⟨o, _, _, es, hsa⟩ := R.obj
    have hnod : (treeIds (synBlk syn0 A B b (LD ++ l :: LT')).stmts).Nodup := hsa.nodupL
    have hsyn1 : (synBlk syn0 A B b (LD ++ l :: LT')).updateLine l.id
          (fun x => { x with token := [] ++ (Modfile.File.add st (some b.comments) l verb l.token fx strict).2 }) =
        synBlk syn0 A B b ((LD ++ [{ l with token := (Modfile.File.add st (some b.comments) l verb l.token fx strict).2 }]) ++ LT') := by
      have := updateLine_block_at (synBlk syn0 A B b (LD ++ l :: LT')) A B { b with lines := LD ++ l :: LT' } LD LT' l
        (fun x => { x with token := [] ++ (Modfile.File.add st (some b.comments) l verb l.token fx strict).2 }) rfl rfl hnod
      have e : ∀ (fs : Modfile.FileSyntax) (id : Nat) (g : Modfile.Line → Modfile.Line),
          fs.updateLine id g = { fs with stmts := (fs.updateLine id g).stmts } := fun _ _ _ => rfl
      rw [e, this]
      simp only [synBlk, List.nil_append, List.append_assoc, List.singleton_append]
    have R1 := hpost.rep
    rw [hsyn1] at R1
    -- the other lines are untouched
    have hids : l.id ∉ LT'.map (·.id) := by
      have h1 : (treeIds [Modfile.Expr.lineBlock { b with lines := LD ++ l :: LT' }]).Nodup := by
        simp only [synBlk, Modfile.Edit.treeIds_append] at hnod
        have := (List.nodup_append.1 hnod).2.1
        rw [Modfile.Edit.treeIds_cons] at this
        exact (List.nodup_append.1 this).1
      rw [treeIds_one] at h1
      simp only [stmtLines, List.map_append, List.map_cons] at h1
      exact (List.nodup_cons.1 (List.nodup_append.1 h1).2.1).1
    have hpn : p ∉ todo' := RLines.ne_of_id hl hls' hids
    have hlines1 : ∀ q, q ≠ p → heapGet h1.lines q = heapGet h.lines q := by
      intro q hq
      rw [hpost.lines]
      exact heapGet_setToksH_other h _ hq
    have hls1 : RLines ι h1 todo' LT' := RLines.frame hls' (fun q hq => hlines1 q (fun e => hpn (e ▸ hq)))
    have hb1 : heapGet h1.blocks bp = .ok (blockG b bps) := by rw [hpost.blocks]; exact hb
    obtain ⟨ri, errs', h', hrun, R', hbl, hcb, hfi, hll, hfr, hfs⟩ :=
      ih LT' (done ++ [p]) (LD ++ [{ l with token := (Modfile.File.add st (some b.comments) l verb l.token fx strict).2 }]) h1 errs1
        (Modfile.File.add st (some b.comments) l verb l.token fx strict).1 bps n (by simp at hf; omega) R1 hb1 hls1
        (fun m hm => hleaf m (List.mem_cons_of_mem _ hm))
    simp only [List.append_assoc, List.singleton_append, List.length_append, List.length_singleton, Int.natCast_add, Int.natCast_one] at hrun R'
    have hmk := TokView.make hl.1 (k := 0) (by omega)
    have hmk1 : tkMake p 0 h.lines = .ok { owner := p, lo := 0 } := by rw [← TokRef_make_eq]; exact hmk.1
    have hidx : idxL (blockG b bps).Token 0 = .ok verb := by rw [blockG_Token, hbt]; rfl
    refine ⟨ri, errs', h', ?_, ?_, by rw [hbl, hpost.blocks], by rw [hcb, hpost.cbs], by rw [hfi, hpost.files],
      by rw [hll, hpost.lines]; simp, ?_, ?_⟩
    · unfold PL2 Rule.parseToFile_loop2
      simp only [lt_len_mid, decide_true, if_true, idxL_mid, hb, hidx, TokRef_make_eq, hmk1, bind, Except.bind, pure, Except.pure]
      have hrun1' : Rule.File_add deprecatedSubI Modfile.goVersionRE isPrintI laxSubI Quote.quote Modfile.toolchainRE unquoteI n fp errs bp p verb
          { owner := p, lo := 0 } (fixG fx) strict h = .ok (((), errs1), h1) := hrun1
      simp only [hrun1']
      exact hrun
    · simpa [Modfile.addBlockLines] using R'
    · intro q hq
      rw [hfr q (fun hm => hq (List.mem_cons_of_mem _ hm))]
      exact hlines1 q (fun e => hq (e ▸ List.mem_cons_self))
    · intro a a' ha ha'
      obtain ⟨o1, ho1, _⟩ := R1.obj
      rw [hfs o1 a' ho1 ha', hpost.fsyn a o1 ha ho1]


/-! ### the statement loop -/

theorem RStmts.dropLeft {ι : Int → Nat} {h : Rule.Heap} : ∀ {a : List Rule.Expr} {c : List Modfile.Expr} {b : List Rule.Expr} {d : List Modfile.Expr},
    RStmts ι h (a ++ b) (c ++ d) → a.length = c.length → RStmts ι h b d
  | [], [], _, _, r, _ => r
  | _ :: _, _ :: _, _, _, r, hl => RStmts.dropLeft (a := _) (c := _) r.2 (by simpa using hl)
  | [], _ :: _, _, _, _, hl => by simp at hl
  | _ :: _, [], _, _, _, hl => by simp at hl

/-- the model tree with the statement list `stmts` -/
def synTop (syn : Modfile.FileSyntax) (stmts : List Modfile.Expr) : Modfile.FileSyntax := { syn with stmts := stmts }

/-- the leaf calls of `File.add` for the lines of a statement, and what the loops need of its tokens (a parsed line /
    block has at least one token) -/
def StmtLeaf (ι : Int → Nat) (F : Nat) (fx : Option Modfile.Fixer) : Modfile.Expr → Prop
  | .line l => ∃ verb args, l.token = verb :: args ∧ LineLeaf ι F 0 none verb fx l [verb] args
  | .lineBlock b => b.token ≠ [] ∧ ∀ verb, b.token = [verb] → ∀ bp, ∀ l ∈ b.lines, LineLeaf ι F bp (some b.comments) verb fx l [] l.token
  | _ => True

/-- the block verbs of `parseToFile`, as the regenerated code tests them -/
theorem blockVerbs_iff (verb : Bytes) : Modfile.verbIn verb Modfile.blockVerbs =
    (decide (verb = ([109, 111, 100, 117, 108, 101] : Bytes)) || decide (verb = ([103, 111, 100, 101, 98, 117, 103] : Bytes)) ||
      decide (verb = ([114, 101, 113, 117, 105, 114, 101] : Bytes)) || decide (verb = ([101, 120, 99, 108, 117, 100, 101] : Bytes)) ||
      decide (verb = ([114, 101, 112, 108, 97, 99, 101] : Bytes)) || decide (verb = ([114, 101, 116, 114, 97, 99, 116] : Bytes)) ||
      decide (verb = ([116, 111, 111, 108] : Bytes))) := by
  simp only [Modfile.verbIn, Modfile.blockVerbs, List.any_cons, List.any_nil, Bool.or_false, B_module, B_godebug, B_require, B_exclude,
    B_replace, B_retract, B_tool, bytes_beq_eq_decide]
  simp only [eq_comm (a := verb), Bool.or_assoc]

/-- the number of lines of the largest block -/
def maxBlock : List Modfile.Expr → Nat
  | [] => 0
  | .lineBlock b :: xs => max b.lines.length (maxBlock xs)
  | _ :: xs => maxBlock xs

/-- **the statement loop of `parseToFile` = the model's `addStmts`** -/
theorem PL1_spec {ι : Int → Nat} {fp : Int} {F : Nat} {fx : Option Modfile.Fixer} {strict : Bool} {syn0 : Modfile.FileSyntax} (file : Bytes) (fsp : Int) :
    ∀ (todo : List Rule.Expr) (ST : List Modfile.Expr) (done : List Rule.Expr) (SD : List Modfile.Expr) (h : Rule.Heap) (errs : List Rule.Error)
      (st : Modfile.AddState) (fuel : Nat),
      F + maxBlock ST + todo.length + 2 ≤ fuel →
      RepRS ι h fp errs st (synTop syn0 (SD ++ ST)) →
      (∀ o, heapGet h.mods fp = .ok o → ∃ fo, heapGet h.files o.Syntax = .ok fo ∧ fo.Stmt = done ++ todo) →
      done.length = SD.length →
      (∀ x ∈ ST, StmtLeaf ι F fx x) →
      ∃ ri errs' h', PL1 (done ++ todo) file (fixG fx) strict fsp fp fuel (done.length : Int) h errs = .ok (ri, h', errs') ∧
        RepRS ι h' fp errs' (Modfile.addStmts fx strict st ST).1 (synTop syn0 (SD ++ (Modfile.addStmts fx strict st ST).2)) := by
  intro todo
  induction todo with
  | nil =>
    intro ST done SD h errs st fuel hf R hfile hlen _
    obtain ⟨n, rfl⟩ : ∃ n, fuel = n + 1 := ⟨fuel - 1, by omega⟩
    have hST : ST = [] := by
      obtain ⟨o, ho, _, es, hsa⟩ := R.obj
      obtain ⟨fo, hfo, hst⟩ := hfile o ho
      have : es = done := by have := hsa.file; rw [hfo] at this; cases this; simpa using hst
      subst this
      have hl := hsa.stmts.length
      simp only [synTop, List.length_append] at hl
      exact List.eq_nil_of_length_eq_zero (by omega)
    subst hST
    refine ⟨(done.length : Int), errs, h, ?_, by simpa [Modfile.addStmts] using R⟩
    unfold PL1 Rule.parseToFile_loop1
    simp only [List.append_nil, not_lt_len_self, decide_false, Bool.false_eq_true, if_false, pure, Except.pure]
  | cons x todo' ih =>
    intro ST done SD h errs st fuel hf R hfile hlen hleaf
    obtain ⟨n, rfl⟩ : ∃ n, fuel = n + 1 := ⟨fuel - 1, by omega⟩
    obtain ⟨o, ho, rt, es, hsa⟩ := R.obj
    obtain ⟨fo, hfo, hst⟩ := hfile o ho
    have hes : es = done ++ x :: todo' := by have := hsa.file; rw [hfo] at this; cases this; simpa using hst
    subst hes
    have hRS : RStmts ι h (x :: todo') ST := RStmts.dropLeft hsa.stmts hlen
    cases ST with
    | nil => exact hRS.elim
    | cons s ST' =>
    obtain ⟨hx, _⟩ := hRS
    have hnod : (treeIds (synTop syn0 (SD ++ s :: ST')).stmts).Nodup := hsa.nodupL
    -- the continuation: after the statement, the rest of the loop
    have hcont : ∀ (h1 : Rule.Heap) (errs1 : List Rule.Error) (st1 : Modfile.AddState) (s1 : Modfile.Expr),
        RepRS ι h1 fp errs1 st1 (synTop syn0 ((SD ++ [s1]) ++ ST')) → h1.files = h.files →
        (∀ o1, heapGet h1.mods fp = .ok o1 → o1.Syntax = o.Syntax) →
        ∃ ri errs' h', PL1 (done ++ x :: todo') file (fixG fx) strict fsp fp n ((done.length : Int) + 1) h1 errs1 = .ok (ri, h', errs') ∧
          RepRS ι h' fp errs' (Modfile.addStmts fx strict st1 ST').1 (synTop syn0 (SD ++ s1 :: (Modfile.addStmts fx strict st1 ST').2)) := by
      intro h1 errs1 st1 s1 R1 hf1 hsyn1
      have hmb : maxBlock ST' ≤ maxBlock (s :: ST') := by
        cases s <;> simp [maxBlock]
        exact Nat.le_max_right _ _
      obtain ⟨ri, errs', h', hrun, R'⟩ := ih ST' (done ++ [x]) (SD ++ [s1]) h1 errs1 st1 n (by simp at hf; omega) R1
        (fun o1 ho1 => ⟨fo, by rw [hsyn1 o1 ho1, hf1]; exact hfo, by rw [hst]; simp⟩) (by simp [hlen])
        (fun y hy => hleaf y (List.mem_cons_of_mem _ hy))
      simp only [List.append_assoc, List.singleton_append, List.length_append, List.length_singleton, Int.natCast_add, Int.natCast_one] at hrun R'
      exact ⟨ri, errs', h', hrun, R'⟩
    have hupd : ∀ (fs : Modfile.FileSyntax) (id : Nat) (g : Modfile.Line → Modfile.Line),
        fs.updateLine id g = { fs with stmts := (fs.updateLine id g).stmts } := fun _ _ _ => rfl
    cases x with
    | Line p =>
      cases s with
      | line l =>
        have hl : RLine ι h p l := hx
        obtain ⟨verb, args, htok, hLL⟩ := hleaf (.line l) List.mem_cons_self
        have hFn : F ≤ n := by simp at hf; omega
        obtain ⟨errs1, h1, hrun1, hpost⟩ := FA_step R hl (pre := [verb]) (args := args) htok n 0 none verb fx strict
          (hLL n hFn h p hl rfl)
        have hsyn1 : (synTop syn0 (SD ++ .line l :: ST')).updateLine l.id
              (fun x => { x with token := [verb] ++ (Modfile.File.add st none l verb args fx strict).2 }) =
            synTop syn0 ((SD ++ [.line { l with token := verb :: (Modfile.File.add st none l verb args fx strict).2 }]) ++ ST') := by
          rw [hupd, updateLine_line_at (synTop syn0 (SD ++ .line l :: ST')) SD ST' l _ rfl hnod]
          simp only [synTop, List.singleton_append, List.append_assoc]
        have R1 := hpost.rep
        rw [hsyn1] at R1
        obtain ⟨ri, errs', h', hrun, R'⟩ := hcont h1 errs1 _ _ R1 hpost.files (fun o1 ho1 => hpost.fsyn o o1 ho ho1)
        have hmk := TokView.make hl.1 (k := 1) (by rw [lineG_Token, htok]; simp)
        have hmk1 : tkMake p 1 h.lines = .ok { owner := p, lo := 1 } := by rw [← TokRef_make_eq]; exact hmk.1
        have hidx : idxL (lineG l).Token 0 = .ok verb := by rw [lineG_Token, htok]; rfl
        have hrun1' : Rule.File_add deprecatedSubI Modfile.goVersionRE isPrintI laxSubI Quote.quote Modfile.toolchainRE unquoteI n fp errs 0 p verb
            { owner := p, lo := 1 } (fixG fx) strict h = .ok (((), errs1), h1) := hrun1
        refine ⟨ri, errs', h', ?_, ?_⟩
        · unfold PL1 Rule.parseToFile_loop1
          simp only [lt_len_mid, decide_true, if_true, idxL_mid, hl.1, hidx, TokRef_make_eq, hmk1, hrun1', bind, Except.bind, pure, Except.pure]
          exact hrun
        · simpa [Modfile.addStmts, htok] using R'
      | _ => exact hx.elim
    | LineBlock bp =>
      cases s with
      | lineBlock b =>
        obtain ⟨ps, hb, hps⟩ : ∃ ps, heapGet h.blocks bp = .ok (blockG b ps) ∧ RLines ι h ps b.lines := hx
        obtain ⟨hbne, hbl⟩ := hleaf (.lineBlock b) List.mem_cons_self
        -- a block that is not processed: an error in strict mode, nothing otherwise
        have hunk : ∀ (K : M (Int × Rule.Heap × List Rule.Error)),
            (K = if strict then
                PL1 (done ++ Rule.Expr.LineBlock bp :: todo') file (fixG fx) strict fsp fp n ((done.length : Int) + 1) h
                  (errs ++ [({ (default : Rule.Error) with Filename := file, Pos := (blockG b ps).Start, Err := (some "unknown block type: %s") } : Rule.Error)])
              else PL1 (done ++ Rule.Expr.LineBlock bp :: todo') file (fixG fx) strict fsp fp n ((done.length : Int) + 1) h errs) →
            ∃ ri errs' h', K = .ok (ri, h', errs') ∧
              RepRS ι h' fp errs' (Modfile.addStmts fx strict (if strict then st.err b.start .unknownBlock else st) ST').1
                (synTop syn0 (SD ++ .lineBlock b :: (Modfile.addStmts fx strict (if strict then st.err b.start .unknownBlock else st) ST').2)) := by
          intro K hK
          have R0 : RepRS ι h fp errs st (synTop syn0 ((SD ++ [.lineBlock b]) ++ ST')) := by
            simpa only [List.append_assoc, List.singleton_append] using R
          cases strict with
          | false =>
            simp only [Bool.false_eq_true, if_false] at hK ⊢
            rw [hK]
            exact hcont h errs st _ R0 rfl (fun o1 ho1 => by rw [ho] at ho1; cases ho1; rfl)
          | true =>
            simp only [if_true] at hK ⊢
            rw [hK]
            refine hcont h _ (st.err b.start .unknownBlock) _ ⟨R0.obj, R0.inj, ?_⟩ rfl (fun o1 ho1 => by rw [ho] at ho1; cases ho1; rfl)
            exact R0.errs.snoc_rev ⟨rfl, errAbs_some (k := .unknownBlock) (by decide)⟩
        cases hbt : b.token with
        | nil => exact absurd hbt hbne
        | cons verb rest =>
          cases rest with
          | cons v2 rest2 =>
            have hgt : GoRt.len (blockG b ps).Token > 1 := by rw [blockG_Token, hbt, len_eq]; simp; omega
            obtain ⟨ri, errs', h', hrun, R'⟩ := hunk _ rfl
            refine ⟨ri, errs', h', ?_, ?_⟩
            · rw [← hrun]
              unfold PL1
              rw [Rule.parseToFile_loop1]
              simp only [lt_len_mid, decide_true, if_true, idxL_mid, hb, hgt, bind, Except.bind, pure, Except.pure]
            · simpa [Modfile.addStmts, hbt] using R'
          | nil =>
            have hgt : ¬ (GoRt.len (blockG b ps).Token > 1) := by rw [blockG_Token, hbt, len_eq]; simp
            have hidx : idxL (blockG b ps).Token 0 = .ok verb := by rw [blockG_Token, hbt]; rfl
            by_cases hv : Modfile.verbIn verb Modfile.blockVerbs = true
            · -- a known block: the inner loop
              have hplen := hps.length
              have hmb : b.lines.length ≤ maxBlock (Modfile.Expr.lineBlock b :: ST') := by simp [maxBlock]; exact Nat.le_max_left _ _
              have R0 : RepRS ι h fp errs st (synBlk syn0 SD ST' b ([] ++ b.lines)) := R
              obtain ⟨ri2, errs2, h2, hrun2, R2, hbl2, hcb2, hfi2, hll2, hfr2, hfs2⟩ :=
                PL2_spec (F := F) (strict := strict) hbt ps b.lines [] [] h errs st ps n (by simp at hf; omega) R0 hb hps (hbl verb hbt bp)
              have R2' : RepRS ι h2 fp errs2 (Modfile.addBlockLines b.comments verb fx strict st b.lines).1
                  (synTop syn0 ((SD ++ [.lineBlock { b with lines := (Modfile.addBlockLines b.comments verb fx strict st b.lines).2 }]) ++ ST')) := by
                simpa only [synBlk, synTop, List.nil_append, List.append_assoc, List.singleton_append] using R2
              obtain ⟨ri, errs', h', hrun, R'⟩ := hcont h2 errs2 _ _ R2' hfi2 (fun o1 ho1 => hfs2 o o1 ho ho1)
              refine ⟨ri, errs', h', ?_, ?_⟩
              · rw [← hrun]
                unfold PL1
                rw [Rule.parseToFile_loop1]
                rw [blockVerbs_iff] at hv
                have hrun2' : Rule.parseToFile_loop2 deprecatedSubI Modfile.goVersionRE isPrintI laxSubI parseSynI Quote.quote Modfile.toolchainRE unquoteI
                    ps (fixG fx) strict fp bp n 0 h errs = .ok (ri2, h2, errs2) := by
                  have := hrun2; simp only [List.nil_append, List.length_nil, Int.natCast_zero] at this; exact this
                simp only [lt_len_mid, decide_true, if_true, idxL_mid, hb, hgt, decide_false, Bool.false_eq_true, if_false, hidx, hv, blockG_Line,
                  hrun2', bind, Except.bind, pure, Except.pure]
              · simpa [Modfile.addStmts, hbt, hv] using R'
            · have hv' : Modfile.verbIn verb Modfile.blockVerbs = false := by simpa using hv
              obtain ⟨ri, errs', h', hrun, R'⟩ := hunk _ rfl
              refine ⟨ri, errs', h', ?_, ?_⟩
              · rw [← hrun]
                unfold PL1
                rw [Rule.parseToFile_loop1]
                rw [blockVerbs_iff] at hv'
                simp only [lt_len_mid, decide_true, if_true, idxL_mid, hb, hgt, decide_false, Bool.false_eq_true, if_false, hidx, hv',
                  bind, Except.bind, pure, Except.pure]
              · simpa [Modfile.addStmts, hbt, hv'] using R'
      | _ => exact hx.elim
    | CommentBlock cp =>
      cases s with
      | commentBlock c =>
        have R0 : RepRS ι h fp errs st (synTop syn0 ((SD ++ [.commentBlock c]) ++ ST')) := by
          simpa only [List.append_assoc, List.singleton_append] using R
        obtain ⟨ri, errs', h', hrun, R'⟩ := hcont h errs st _ R0 rfl (fun o1 ho1 => by rw [ho] at ho1; cases ho1; rfl)
        refine ⟨ri, errs', h', ?_, by simpa [Modfile.addStmts] using R'⟩
        rw [← hrun]
        unfold PL1
        rw [Rule.parseToFile_loop1]
        simp only [lt_len_mid, decide_true, if_true, idxL_mid, bind, Except.bind, pure, Except.pure]
      | _ => exact hx.elim
    | LParen _ => cases s <;> exact hx.elim
    | RParen _ => cases s <;> exact hx.elim
    | FileSyntax _ => cases s <;> exact hx.elim
    | nil => cases s <;> exact hx.elim

end ModVerif.Tie.FnRuleAddH
