/-
  C06, full statements: `checkModPath_iff` against the specification only, the dead error returns of
  CheckPath, `check_iff` with the single predicate `PathSpec.MajorMatches`, and `pathMajorPrefix_spec`.
-/
import ModVerif.Proofs.ModuleFullSplit
import ModVerif.Proofs.SemverGrammar
import ModVerif.Proofs.SemverCanonical
namespace ModVerif.Module
open ModVerif

/-! ### the first path element -/

theorem takeWhile_ne_eq_head_splitOn (sep : UInt8) (p : Bytes) :
    p.takeWhile (· != sep) = (splitOn sep p).headD [] := by
  induction p with
  | nil => simp [splitOn]
  | cons c rest ih =>
    by_cases hc : c = sep
    · subst hc; rw [splitOn_cons_sep]; simp
    · obtain ⟨hd, tl, h1, h2⟩ := splitOn_cons_ne sep c rest hc
      rw [h2]
      rw [h1] at ih
      have : (c != sep) = true := by simpa using hc
      simp [this]
      simpa using ih

theorem head_splitOn_mem (sep : UInt8) (p : Bytes) : (splitOn sep p).headD [] ∈ splitOn sep p := by
  cases h : splitOn sep p with
  | nil => exact absurd h (splitOn_ne_nil sep p)
  | cons a t => simp

theorem takeWhile_head? {α : Type} (q : α → Bool) (l : List α) (c : α)
    (h : (l.takeWhile q).head? = some c) : l.head? = some c := by
  cases l with
  | nil => simp at h
  | cons a t =>
    by_cases hq : q a = true
    · simpa [List.takeWhile, hq] using h
    · simp [List.takeWhile, hq] at h

theorem head?_takeWhile_of {α : Type} (q : α → Bool) (l : List α) (c : α)
    (h : l.head? = some c) (hq : q c = true) : (l.takeWhile q).head? = some c := by
  cases l with
  | nil => simp at h
  | cons a t =>
    have : a = c := by simpa using h
    subst this
    simp [List.takeWhile, hq]

theorem firstPathOK_iff (r : Nat) : firstPathOK r = true ↔ PathSpec.FirstChar r := by
  unfold firstPathOK PathSpec.FirstChar PathSpec.isAsciiDigit
  simp
  omega

/-- CheckPath (module paths) accepts exactly: the general rules of kind `module`, the first-element rule,
    and the documented major-version rule — all three stated without reference to the model. -/
theorem checkModPath_iff_full (p : Bytes) :
    checkModPath p = .ok () ↔
      PathSpec.ValidPath (fun _ => false) .module p ∧ PathSpec.FirstElemOK p ∧ PathSpec.MajorRuleOK p := by
  rw [checkModPath_ok_iff, checkPath_iff_spec, splitPathVersion_ok_iff, takeWhile_ne_eq_head_splitOn]
  unfold PathSpec.FirstElemOK
  simp only [toSpec]
  constructor
  · rintro ⟨hv, _, hdot, hdash, hchars, hmaj⟩
    refine ⟨hv, ⟨by simpa using hdot, ?_, ?_⟩, hmaj⟩
    · intro hh
      rw [← takeWhile_ne_eq_head_splitOn] at hh
      have := takeWhile_head? _ _ _ hh
      simp [this] at hdash
    · intro r hr
      exact (firstPathOK_iff r).mp (List.all_eq_true.mp hchars r hr)
  · rintro ⟨hv, ⟨hdot, _, hchars⟩, hmaj⟩
    refine ⟨hv, ?_, by simpa using hdot, ?_, ?_, hmaj⟩
    · have := (hv.2.2.2 _ (head_splitOn_mem 47 p)).1
      simpa using this
    · have := hv.2.2.1 (by decide)
      simpa using this
    · rw [List.all_eq_true]
      intro r hr
      exact (firstPathOK_iff r).mpr (hchars r hr)

/-! ### unreachable error returns -/

theorem checkElem_err (il : Nat → Bool) (k : Kind) (e : Bytes) (x : PathErr)
    (h : checkElem il k e = .error x) : x ≠ .leadingSlash ∧ x ≠ .leadingDashFirst := by
  unfold checkElem at h
  dsimp only at h
  repeat' split at h
  all_goals first
    | (injection h with h; subst h; exact ⟨by decide, by decide⟩)
    | cases h

theorem checkElems_err (il : Nat → Bool) (k : Kind) (l : List Bytes) (x : PathErr)
    (h : checkElems il k l = .error x) : x ≠ .leadingSlash ∧ x ≠ .leadingDashFirst := by
  induction l with
  | nil => simp [checkElems] at h
  | cons e es ih =>
    unfold checkElems at h
    cases he : checkElem il k e with
    | error y =>
      rw [he] at h
      injection h with h; subst h
      exact checkElem_err il k e _ he
    | ok u =>
      rw [he] at h
      exact ih h

theorem checkPath_err (il : Nat → Bool) (k : Kind) (p : Bytes) (x : PathErr)
    (h : checkPath il k p = .error x) : x ≠ .leadingSlash ∧ x ≠ .leadingDashFirst := by
  unfold checkPath at h
  repeat' split at h
  all_goals first
    | (injection h with h; subst h; exact ⟨by decide, by decide⟩)
    | exact checkElems_err il k _ x h

/-- The `leading slash` and `leading dash in first path element` returns of CheckPath are unreachable:
    the general checker has already rejected an empty first element (empty path, or "empty path element" /
    double slash) and a leading dash. -/
theorem checkModPath_dead (p : Bytes) :
    checkModPath p ≠ .error .leadingSlash ∧ checkModPath p ≠ .error .leadingDashFirst := by
  unfold checkModPath
  cases h : checkPath (fun _ => false) .module p with
  | error x =>
    have := checkPath_err _ _ _ _ h
    simp only
    exact ⟨fun hh => this.1 (by injection hh), fun hh => this.2 (by injection hh)⟩
  | ok u =>
    have hp := (checkPath_ok_iff _ _ _).mp h
    have hfirst : (p.takeWhile (· != 47)).isEmpty = false := by
      rw [takeWhile_ne_eq_head_splitOn]
      exact ((checkElem_ok_iff _ _ _).mp (hp.2.2.2.2.2 _ (head_splitOn_mem 47 p))).1
    have hdash : (p.head? == some 45) = false := by simpa using hp.2.2.1
    simp only [hfirst, hdash, Bool.false_eq_true, if_false]
    constructor <;> (repeat' split) <;> simp

/-! ### Check: CheckPathMajor on the suffixes SplitPathVersion returns = `PathSpec.MajorMatches` -/

theorem noHead_unstable : NoHead isDigit (B "-unstable") := by
  rw [B_unstable]; intro c r e; simp at e; rw [← e.1]; decide

theorem noHead_unstable_or_nil (uns : Bool) : NoHead isDigit (if uns then B "-unstable" else []) := by
  cases uns
  · intro c r e; simp at e
  · exact noHead_unstable

/-- uniqueness of the decomposition of a gopkg.in suffix: a run of digits followed by "" or "-unstable"
    has only one reading (the bookkeeping lemma behind `check_iff`). -/
theorem gopkg_suffix_unique (n n' : Bytes) (u u' : Bool)
    (hn : ∀ d ∈ n, isDigit d = true) (hn' : ∀ d ∈ n', isDigit d = true)
    (h : n ++ (if u then B "-unstable" else []) = n' ++ (if u' then B "-unstable" else [])) :
    n = n' := by
  have h1 := takeWhile_append_all isDigit n _ (List.all_eq_true.mpr hn) (noHead_unstable_or_nil u)
  have h2 := takeWhile_append_all isDigit n' _ (List.all_eq_true.mpr hn') (noHead_unstable_or_nil u')
  rw [← h1, ← h2, h]

theorem majorMatches_gopkg (v n : Bytes) (hn : ∀ d ∈ n, PathSpec.isAsciiDigit d.toNat) (uns : Bool) :
    PathSpec.MajorMatches (46 :: 118 :: (n ++ if uns then B "-unstable" else [])) v ↔
      (Semver.major v = 118 :: n ∨ (n = [49] ∧ isPrefixOfB (B "v0.0.0-") v = true)) := by
  unfold PathSpec.MajorMatches
  constructor
  · rintro (⟨h, _⟩ | ⟨m, h, _⟩ | ⟨n', hn', hform, hm⟩)
    · cases h
    · simp at h
    · have hnn : n = n' := by
        have hd : ∀ d ∈ n, isDigit d = true := fun d hd => (isDigit_iff d).mpr (hn d hd)
        have hd' : ∀ d ∈ n', isDigit d = true := fun d hd => (isDigit_iff d).mpr (hn' d hd)
        rcases hform with hf | hf
        · exact gopkg_suffix_unique n n' uns false hd hd' (by simpa using hf)
        · exact gopkg_suffix_unique n n' uns true hd hd' (by simpa using hf)
      subst hnn
      exact hm
  · intro hm
    right; right
    refine ⟨n, hn, ?_, hm⟩
    cases uns
    · left; simp
    · right; rfl

/-- on every suffix of the documented shape, CheckPathMajor is the documented correspondence -/
theorem checkPathMajor_iff_matches (p maj v : Bytes) (hs : PathSpec.MajorSuffix p maj) :
    checkPathMajor v maj = true ↔ PathSpec.MajorMatches maj v := by
  rcases hs with rfl | ⟨n, rfl, _⟩ | ⟨_, n, hnum, hform⟩
  · exact checkPathMajor_nil v
  · exact checkPathMajor_slash v n
  · rcases hform with rfl | rfl
    · have h1 := checkPathMajor_gopkg v n hnum.2.1 false
      have h2 := majorMatches_gopkg v n hnum.2.1 false
      simp only [Bool.false_eq_true, if_false, List.append_nil] at h1 h2
      rw [h1, h2]
    · have h1 := checkPathMajor_gopkg v n hnum.2.1 true
      have h2 := majorMatches_gopkg v n hnum.2.1 true
      simp only [if_true] at h1 h2
      rw [h1, h2]

theorem split_spec' (p : Bytes) (hok : (splitPathVersion p).2.2 = true) :
    (splitPathVersion p).1 ++ (splitPathVersion p).2.1 = p ∧ PathSpec.MajorSuffix p (splitPathVersion p).2.1 := by
  have h : splitPathVersion p = ((splitPathVersion p).1, (splitPathVersion p).2.1, true) := by rw [← hok]
  cases hg : isPrefixOfB (B "gopkg.in/") p
  · obtain ⟨h1, h2⟩ := splitPathVersion_nongopkg p _ _ hg h
    exact ⟨h1, h2.elim Or.inl (fun x => Or.inr (Or.inl x))⟩
  · have e : splitPathVersion p = splitGopkgIn p := by unfold splitPathVersion; simp [hg]
    rw [e] at h ⊢
    obtain ⟨h1, h2, h3⟩ := splitGopkgIn_ok p _ _ h
    exact ⟨h1, Or.inr (Or.inr ⟨h2, h3⟩)⟩

/-- Check(path, version) = nil exactly when the path is a valid module path, the version a valid semantic
    version, and the path's major suffix matches the version under the documented exceptions. -/
theorem check_iff_full (p v : Bytes) :
    check p v = .ok () ↔
      checkModPath p = .ok () ∧ Semver.isValid v = true ∧ PathSpec.MajorMatches (splitPathVersion p).2.1 v := by
  rw [check_ok_iff]
  constructor
  · rintro ⟨h1, h2, h3⟩
    have hok := ((checkModPath_ok_iff p).mp h1).2.2.2.2.2
    have hs := (split_spec' p hok).2
    exact ⟨h1, h2, (checkPathMajor_iff_matches p _ v hs).mp h3⟩
  · rintro ⟨h1, h2, h3⟩
    have hok := ((checkModPath_ok_iff p).mp h1).2.2.2.2.2
    have hs := (split_spec' p hok).2
    exact ⟨h1, h2, (checkPathMajor_iff_matches p _ v hs).mpr h3⟩

end ModVerif.Module
