/-
  C02, end-of-line comments on the SOURCE text, part a/b: the source condition `NoMultiLineToken`.

  * `readToken_withId`: the lexer neither reads nor changes the line-identity counter `nextId`, so the lexer
    states the parser reaches (`Reach`, which includes the parser's `setId` steps) are, up to that counter,
    the states of the pure token stream (`LexSeq`, `reach_lexSeq`).
  * `tokensOf x`: the token stream of `x` as a list; `NoMultiLineToken x`: no token other than the newline token
    contains a newline byte (decidable).
  * `reach_tok_no_nl`: under `NoMultiLineToken`, no token the parser ever sees (other than newline) contains a
    newline byte.
-/
import ModVerif.Proofs.ModfileC20Lay
namespace ModVerif.Proofs.ModfileSrc
open ModVerif ModVerif.Modfile ModVerif.Proofs.ModfileLex
open ModVerif.Proofs.ModfilePos ModVerif.Proofs.ModfileC20

/-- the lexer state with the line-identity counter set to `n` -/
def withId (n : Nat) (i : Input) : Input := { i with nextId := n }

@[simp] theorem withId_remaining (n : Nat) (i : Input) : (withId n i).remaining = i.remaining := rfl
@[simp] theorem withId_eof (n : Nat) (i : Input) : (withId n i).eof = i.eof := rfl
@[simp] theorem withId_peekRune (n : Nat) (i : Input) : (withId n i).peekRune = i.peekRune := rfl
@[simp] theorem withId_peekPrefix (n : Nat) (i : Input) (p : Bytes) : (withId n i).peekPrefix p = i.peekPrefix p := rfl
@[simp] theorem withId_error (n : Nat) (i : Input) (k : SynErrKind) : (withId n i).error k = i.error k := rfl
@[simp] theorem withId_token (n : Nat) (i : Input) : (withId n i).token = i.token := rfl
@[simp] theorem withId_withId (n m : Nat) (i : Input) : withId n (withId m i) = withId n i := rfl
theorem withId_self (i : Input) : withId i.nextId i = i := rfl
@[simp] theorem withId_startToken (n : Nat) (i : Input) : startToken (withId n i) = withId n (startToken i) := rfl
@[simp] theorem withId_endToken (n : Nat) (k : TokKind) (i : Input) : endToken k (withId n i) = withId n (endToken k i) := rfl

theorem readRune_withId (n : Nat) (i : Input) :
    readRune (withId n i) = (readRune i).map (fun p => (p.1, withId n p.2)) := by
  cases i with
  | mk c r t tok pos cm nid => cases r <;> rfl

theorem skipSpaces_withId (n : Nat) : ∀ (fuel : Nat) (i : Input),
    skipSpaces fuel (withId n i) = (skipSpaces fuel i).map (withId n) := by
  intro fuel
  induction fuel with
  | zero => intro i; rfl
  | succ f ih =>
    intro i
    unfold skipSpaces
    simp only [withId_eof, withId_peekRune, readRune_withId]
    split
    · rfl
    · split
      · cases readRune i with
        | error e => rfl
        | ok v => simp only [Except.map, bind, Except.bind]; exact ih v.2
      · rfl

theorem consumeLine_withId (n : Nat) : ∀ (fuel : Nat) (i : Input),
    consumeLine fuel (withId n i) = (consumeLine fuel i).map (withId n) := by
  intro fuel
  induction fuel with
  | zero => intro i; rfl
  | succ f ih =>
    intro i
    unfold consumeLine
    simp only [withId_eof, readRune_withId]
    split
    · rfl
    · cases readRune i with
      | error e => rfl
      | ok v =>
        simp only [Except.map, bind, Except.bind]
        split
        · rfl
        · exact ih v.2

theorem readString_withId (n q : Nat) : ∀ (fuel : Nat) (i : Input),
    readString q fuel (withId n i) = (readString q fuel i).map (withId n) := by
  intro fuel
  induction fuel with
  | zero => intro i; rfl
  | succ f ih =>
    intro i
    unfold readString
    simp only [withId_eof, withId_peekRune, withId_token, withId_error, readRune_withId]
    split
    · rfl
    · split
      · rfl
      · cases readRune i with
        | error e => rfl
        | ok v =>
          simp only [Except.map, bind, Except.bind]
          split
          · rfl
          · split
            · simp only [withId_eof, withId_token, readRune_withId]
              split
              · rfl
              · cases readRune v.2 with
                | error e => rfl
                | ok w => simp only [Except.map]; exact ih w.2
            · exact ih v.2

theorem readIdent_withId (n : Nat) : ∀ (fuel : Nat) (i : Input),
    readIdent fuel (withId n i) = (readIdent fuel i).map (withId n) := by
  intro fuel
  induction fuel with
  | zero => intro i; rfl
  | succ f ih =>
    intro i
    unfold readIdent
    simp only [withId_peekRune, withId_peekPrefix, withId_error, readRune_withId]
    split
    · split
      · rfl
      · split
        · rfl
        · cases readRune i with
          | error e => rfl
          | ok v => simp only [Except.map, bind, Except.bind]; exact ih v.2
    · rfl

theorem readComment_withId (n : Nat) (i : Input) :
    readComment (withId n i) = (readComment i).map (withId n) := by
  unfold readComment
  simp only [withId_startToken, readRune_withId, bind, Except.bind]
  cases readRune (startToken i) with
  | error e => rfl
  | ok v1 =>
    simp only [Except.map, readRune_withId]
    cases readRune v1.2 with
    | error e => rfl
    | ok v2 =>
      simp only [Except.map, withId_remaining, consumeLine_withId]
      cases consumeLine (v2.2.remaining.length + 1) v2.2 with
      | error e => rfl
      | ok v3 =>
        have hcr : (withId n (startToken i)).consumedRev = (startToken i).consumedRev := rfl
        dsimp only
        simp only [hcr]
        split
        · next hc => first | rfl | (rw [if_pos hc]; rfl)
        · next hc => first | rfl | (rw [if_neg hc]; rfl)

theorem readToken_withId (n : Nat) (i : Input) :
    readToken (withId n i) = (readToken i).map (withId n) := by
  unfold readToken
  simp only [withId_remaining, skipSpaces_withId, bind, Except.bind]
  cases skipSpaces (i.remaining.length + 1) i with
  | error e => rfl
  | ok i0 =>
    simp only [Except.map, withId_eof, withId_peekPrefix, withId_error, readComment_withId, withId_startToken,
      withId_peekRune, readRune_withId, withId_endToken, withId_remaining]
    split
    · rfl
    · split
      · rfl
      · split
        · rfl
        · split
          · cases readRune (startToken i0) with
            | error e => rfl
            | ok v1 => rfl
          · split
            · cases readRune (startToken i0) with
              | error e => rfl
              | ok v1 =>
                simp only [Except.map, withId_remaining, readString_withId]
                cases readString (startToken i0).peekRune (v1.2.remaining.length + 1) v1.2 with
                | error e => rfl
                | ok v2 => rfl
            · split
              · next hc => simp only [hc, ↓reduceIte]
              · next hc =>
                simp only [hc]
                simp only [readIdent_withId]
                cases readIdent ((startToken i0).remaining.length + 1) (startToken i0) with
                | error e => rfl
                | ok v2 => rfl

/-! ### the token stream of an input -/

/-- the tokens `readToken` delivers from state `i` on, up to and including the end-of-input token, or up to the
    first lexical error.  `fuel`: every token other than end-of-input consumes a byte (`readToken_spec`), so one more
    than the number of remaining bytes suffices — `lexSeq_mem`: the token of EVERY state reached by iterating
    `readToken` from `newInput x` is the end-of-input token or occurs in `tokensOf x`. -/
def lexAll : Nat → Input → List Token
  | 0, _ => []
  | fuel + 1, i =>
    match readToken i with
    | .error _ => []
    | .ok i' => i'.token :: (if i'.token.kind = .eof then [] else lexAll fuel i')

/-- all tokens the lexer of `read.go` delivers on input `x` -/
def tokensOf (x : Bytes) : List Token := lexAll (x.length + 2) (newInput x)

/-- ★ No token of the input spans two source lines: every token the lexer delivers on `x`, other than the
    newline token itself, has no newline byte in its text.  (Only a double-quoted string with a
    backslash-newline inside can violate this: identifiers, punctuation and back-quoted strings never contain
    a newline, and the newline that ends a `//` comment is not part of its text.) -/
def NoMultiLineToken (x : Bytes) : Prop :=
  ∀ t ∈ tokensOf x, t.kind ≠ .punct 10 → (10 : UInt8) ∉ t.text

instance (x : Bytes) : Decidable (NoMultiLineToken x) := by
  unfold NoMultiLineToken
  infer_instance

/-- the lexer states reached by `readToken` alone -/
inductive LexSeq (data : Bytes) : Input → Prop
  | start {i : Input} : readToken (newInput data) = .ok i → LexSeq data i
  | lex {i i' : Input} : LexSeq data i → readToken i = .ok i' → LexSeq data i'

theorem LexSeq.reach {data : Bytes} {i : Input} (h : LexSeq data i) : Reach data i := by
  induction h with
  | start h => exact Reach.start h
  | lex _ h ih => exact Reach.lex ih h

/-- a state the parser reaches is a state of the pure token stream, up to the line-identity counter -/
theorem reach_lexSeq {data : Bytes} {i : Input} (h : Reach data i) : ∃ j, LexSeq data j ∧ i = withId i.nextId j := by
  induction h with
  | start h => exact ⟨_, LexSeq.start h, rfl⟩
  | @lex i i' _ h ih =>
    obtain ⟨j, hj, hij⟩ := ih
    rw [hij, readToken_withId] at h
    cases hr : readToken j with
    | error e => rw [hr] at h; cases h
    | ok j' =>
      rw [hr] at h
      simp only [Except.map, Except.ok.injEq] at h
      refine ⟨j', LexSeq.lex hj hr, ?_⟩
      rw [← h]
      rfl
  | @setId i n _ ih =>
    obtain ⟨j, hj, hij⟩ := ih
    refine ⟨j, hj, ?_⟩
    show ({ i with nextId := n } : Input) = withId n j
    rw [hij]
    rfl

theorem lexAll_succ_ok {f : Nat} {i i' : Input} (h : readToken i = .ok i') :
    lexAll (f + 1) i = i'.token :: (if i'.token.kind = .eof then [] else lexAll f i') := by
  simp only [lexAll, h]

/-- every token of the pure stream is the end-of-input token or occurs in `tokensOf` -/
theorem lexSeq_mem {data : Bytes} {j : Input} (h : LexSeq data j) :
    (j.token.kind = .eof → j.remaining = []) ∧
    (j.token.kind = .eof ∨
      (j.token ∈ tokensOf data ∧ ∃ f, j.remaining.length < f ∧ ∀ t ∈ lexAll f j, t ∈ tokensOf data)) := by
  induction h with
  | @start i h =>
    refine ⟨fun hk => ((readToken_lay h).eof hk).1, ?_⟩
    by_cases hk : i.token.kind = .eof
    · exact Or.inl hk
    · right
      have htk : tokensOf data = i.token :: lexAll (data.length + 1) i := by
        unfold tokensOf
        rw [lexAll_succ_ok h, if_neg hk]
      have hlen : i.remaining.length ≤ data.length := by
        rcases readToken_spec (newInput data) with ⟨i2, h2, hle, _, _⟩ | ⟨e, h2, _⟩
        · rw [h] at h2; cases h2; simpa [newInput] using hle
        · rw [h] at h2; cases h2
      refine ⟨by rw [htk]; simp, data.length + 1, by omega, ?_⟩
      intro t ht
      rw [htk]
      exact List.mem_cons_of_mem _ ht
  | @lex i i' hi h ih =>
    refine ⟨fun hk => ((readToken_lay h).eof hk).1, ?_⟩
    obtain ⟨heof, hmem⟩ := ih
    by_cases hk' : i'.token.kind = .eof
    · exact Or.inl hk'
    · right
      rcases hmem with hk | ⟨_, f, hf, hsub⟩
      · exact absurd (readToken_at_eof (heof hk) h) hk'
      · cases f with
        | zero => omega
        | succ f =>
          rw [lexAll_succ_ok h, if_neg hk'] at hsub
          have hlt : i'.remaining.length < i.remaining.length := by
            rcases readToken_spec i with ⟨i2, h2, _, hlt, _⟩ | ⟨e, h2, _⟩
            · rw [h] at h2; cases h2; exact hlt hk'
            · rw [h] at h2; cases h2
          exact ⟨hsub _ (by simp), f, by omega, fun t ht => hsub t (List.mem_cons_of_mem _ ht)⟩

/-- ★ under `NoMultiLineToken`, no token the parser ever sees (other than the newline token) contains a
    newline byte -/
theorem reach_tok_no_nl {data : Bytes} (hN : NoMultiLineToken data) {i : Input} (h : Reach data i)
    (hk : i.token.kind ≠ .punct 10) : (10 : UInt8) ∉ i.token.text := by
  obtain ⟨j, hj, hij⟩ := reach_lexSeq h
  have htok : i.token = j.token := by rw [hij]; rfl
  rw [htok] at hk ⊢
  rcases (lexSeq_mem hj).2 with he | ⟨hm, _⟩
  · rw [(reach_rlay hj.reach).eofText he]
    simp
  · exact hN _ hm hk

end ModVerif.Proofs.ModfileSrc
