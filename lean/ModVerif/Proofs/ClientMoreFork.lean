/-
  ClientMore, part 7 (C13) — `fork_rejected` against the STORED head, under the hypothesis that excludes the recorded
  finding: along the run no lookup's reconciliation with the configuration fails (a goroutine that has advanced the
  in-memory head and is inside the flush loop of `mergeLatest` never ends with an error: that is the only way the
  in-memory head is left on a tree that was never reconciled, since there is no rollback).  The hypothesis is a
  decidable predicate on schedules, `cleanRun`.  Server hostile, any number of clients and goroutines.
-/
import ModVerif.Proofs.ClientMoreFlush
namespace ModVerif.ClientLatest
variable {M T : Type}

/-- program counters inside the flush loop of `mergeLatest` (after the first `mergeLatestMem` advanced `c.latest`) -/
def inFlush : PC → Bool
  | .readConfig | .memRead .loop | .memCheck .loop | .memInstall .loop | .readLatestMsg | .writeConfig => true
  | _ => false

/-- returned with an error (ordinary or security) -/
def failed : PC → Bool
  | .done .err | .done .security => true
  | _ => false

/-- the step from `s` to `s'` by goroutine `t` is not a failed reconciliation: it does not take `t` from inside the flush
loop to an error return -/
def CleanStep (s s' : St M T) (t : Nat) : Prop := ¬ (inFlush (s.th t).pc = true ∧ failed (s'.th t).pc = true)

variable [DecidableEq M] [DecidableEq T]

/-- **The trace predicate**: the schedule can be run from `s` and none of its steps is a failed reconciliation. -/
def cleanRun (P : Params M T) (cl : Nat → Nat) (presented : Nat → Option M) (priv : Nat → Bool) :
    St M T → List (Nat × Res) → Bool
  | _, [] => true
  | s, (t, r) :: rest =>
    match step P cl presented priv s t r with
    | none => false
    | some s' => !(inFlush (s.th t).pc && failed (s'.th t).pc) && cleanRun P cl presented priv s' rest

/-- states reachable without a failed reconciliation -/
inductive CReachable (P : Params M T) (cl : Nat → Nat) (presented : Nat → Option M) (priv : Nat → Bool) (c0 : Option M) :
    St M T → Prop
  | init : CReachable P cl presented priv c0 (init P c0)
  | step {s s' : St M T} (t : Nat) (r : Res) :
      CReachable P cl presented priv c0 s → step P cl presented priv s t r = some s' → CleanStep s s' t →
      CReachable P cl presented priv c0 s'

theorem CReachable.reachable {P : Params M T} {cl : Nat → Nat} {presented : Nat → Option M} {priv : Nat → Bool}
    {c0 : Option M} {s : St M T} (h : CReachable P cl presented priv c0 s) : Reachable P cl presented priv c0 s := by
  induction h with
  | init => exact Reachable.init
  | step t r _ hs _ ih => exact Reachable.step t r ih hs

theorem cleanRun_creachable (P : Params M T) (cl : Nat → Nat) (presented : Nat → Option M) (priv : Nat → Bool) (c0 : Option M) :
    ∀ (sched : List (Nat × Res)) (s s' : St M T), CReachable P cl presented priv c0 s →
      cleanRun P cl presented priv s sched = true → run P cl presented priv s sched = some s' →
      CReachable P cl presented priv c0 s' := by
  intro sched
  induction sched with
  | nil => intro s s' h _ hr; simp [run] at hr; subst hr; exact h
  | cons x rest ih =>
    intro s s' h hc hr
    obtain ⟨t, r⟩ := x
    simp only [run, cleanRun] at hr hc
    cases hs : step P cl presented priv s t r with
    | none => simp [hs] at hr
    | some s1 =>
      simp only [hs, Bool.and_eq_true, Bool.not_eq_true', Bool.and_eq_false_iff] at hr hc
      refine ih s1 s' (CReachable.step t r h hs ?_) hc.2 hr
      intro ⟨h1, h2⟩
      rcases hc.1 with h3 | h3 <;> simp_all

/-- a clean schedule splits into clean parts -/
theorem cleanRun_append (P : Params M T) (cl : Nat → Nat) (presented : Nat → Option M) (priv : Nat → Bool) :
    ∀ (a b : List (Nat × Res)) (s s1 : St M T), run P cl presented priv s a = some s1 →
      cleanRun P cl presented priv s (a ++ b) = true →
      cleanRun P cl presented priv s a = true ∧ cleanRun P cl presented priv s1 b = true := by
  intro a
  induction a with
  | nil => intro b s s1 hr hc; simp [run] at hr; subst hr; exact ⟨rfl, by simpa using hc⟩
  | cons x a ih =>
    intro b s s1 hr hc
    obtain ⟨t, r⟩ := x
    simp only [run, cleanRun, List.cons_append] at hr hc ⊢
    cases hs : step P cl presented priv s t r with
    | none => simp [hs] at hr
    | some s0 =>
      simp only [hs, Bool.and_eq_true] at hr hc ⊢
      obtain ⟨h1, h2⟩ := ih b s0 s1 hr hc.2
      exact ⟨⟨hc.1, h1⟩, h2⟩

/-- what a step of `t` does to the responsibility for its own client's head, when it is not a failed reconciliation
(hostile server allowed) -/
theorem flush_step_own_clean (P : Params M T) (le : T → T → Prop) (hS : Sound P le)
    (hzero : ∀ a, P.size a = 0 → le a P.zero) (heq : ∀ a b, le a b → P.size b ≤ P.size a → le b a)
    (cl : Nat → Nat) (presented : Nat → Option M) (priv : Nat → Bool)
    (s s' : St M T) (t : Nat) (r : Res)
    (hI : Inv P le cl presented priv s) (hF : FlushInv P le cl s) (hcl : CleanStep s s' t)
    (h : step P cl presented priv s t r = some s')
    (hpre : Resp P le cl s t ∨ le (s.latest (cl t)) (cfgTree P s.config) ∨ s'.latest (cl t) ≠ s.latest (cl t)) :
    Resp P le cl s' t ∨ le (s'.latest (cl t)) (cfgTree P s'.config) := by
  have f2 := hF.cfg_le t
  have i1 := hI.snap t
  have i2 := hI.checked t
  have i3 := hI.loop_msg t
  have i6 := hI.write_up t
  have i4 := hI.mem_msg (cl t)
  have i5 := cfgTree_of_MsgOf P _ _ i4
  obtain ⟨s1, s2, s3, s4⟩ := hS
  unfold CleanStep at hcl
  step_cases
  all_goals (simp only [Resp, inFlush, failed, upd_same] at *; grind [upd, cfgTree_some, cfgTree_none])

theorem flush_creachable (P : Params M T) (le : T → T → Prop) (hS : Sound P le)
    (hzero : ∀ a, P.size a = 0 → le a P.zero) (heq : ∀ a b, le a b → P.size b ≤ P.size a → le b a)
    (cl : Nat → Nat) (presented : Nat → Option M) (priv : Nat → Bool) (c0 : Option M)
    (s : St M T) (h : CReachable P cl presented priv c0 s) : FlushInv P le cl s := by
  induction h with
  | init => exact flush_init P le hS cl c0
  | @step s s' t r hr hs hcl ih =>
    have hI := inv_reachable P le hS cl presented priv c0 _ hr.reachable
    exact ⟨flush_step_cfg_first P le cl presented priv s s' t r ih hs,
      flush_step_cfg_le P le hS cl presented priv s s' t r hI ih hs,
      flush_step_cfg_merged P le hS cl presented priv s s' t r hI ih hs,
      flush_step_lm_below P le hS cl presented priv s s' t r hI ih hs,
      flush_step_flush_of_own P le hS cl presented priv s s' t r hI ih hs
        (flush_step_own_clean P le hS hzero heq cl presented priv s s' t r hI ih hcl hs)⟩

/-- **Every accepted head is a prefix of the stored head** once its client has no reconciliation under way — in every
run without a failed reconciliation, whatever the server and the other clients do. -/
theorem accepted_below_stored (P : Params M T) (le : T → T → Prop) (hS : Sound P le)
    (hzero : ∀ a, P.size a = 0 → le a P.zero) (heq : ∀ a b, le a b → P.size b ≤ P.size a → le b a)
    (cl : Nat → Nat) (presented : Nat → Option M) (priv : Nat → Bool) (c0 : Option M)
    (s : St M T) (h : CReachable P cl presented priv c0 s)
    (t : Nat) (m : M) (pt : T) (hm : presented t = some m) (hp : P.parse m = some pt) (hd : (s.th t).pc = .done .ok)
    (hquiet : ∀ t', cl t' = cl t → inFlush (s.th t').pc = false) :
    le pt (s.latest (cl t)) ∧ le (s.latest (cl t)) (cfgTree P s.config) := by
  have hI := inv_reachable P le hS cl presented priv c0 s h.reachable
  have hF := flush_creachable P le hS hzero heq cl presented priv c0 s h
  refine ⟨hI.accepted t m pt hm hp (by simp [PastFirst, hd]), ?_⟩
  rcases hF.flush (cl t) with h1 | ⟨t', hc, hr⟩
  · exact h1
  · exfalso
    have hq := hquiet t' hc
    rcases hr with h1 | h1 | h1 | ⟨h1 | h1, _⟩ | ⟨h1, _⟩ <;> simp [h1, inFlush] at hq

end ModVerif.ClientLatest
