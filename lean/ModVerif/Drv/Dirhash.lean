import ModVerif.Drv.Util
namespace ModVerif.Drv.Dirhash
open ModVerif ModVerif.Drv

/-- stub: no ops modelled yet -/
def handle : Handler
  | _, _ => none

end ModVerif.Drv.Dirhash
