/-
  Line-protocol ops for sumdb/dirhash (prefix `dirhash.`).  No logic: decode, call the model, encode.

    sort <names>                                  sort.Strings on a copy
    clean <path>                                  filepath.Clean (Unix)
    join <a> <b>                                  filepath.Join(a, b) (Unix)
    summary <names> <contents>                    bytes written to the outer hash by Hash1, or err
    hash1 <names> <contents>                      Hash1; `open` = first pair with the name; a name
                                                  without a content (contents list shorter) fails to open
    dirfiles <missing|file|dir> <prefix> <rels>   DirFiles
    hashdir <missing|file|dir> <prefix> <rels> <contents>   HashDir with Hash1
    dirfilesat <dirspelling> <kind> <prefix> <rels>            DirFiles called with a spelling of /S/c19root
    hashdirat <dirspelling> <kind> <prefix> <rels> <contents>  HashDir called with a spelling of /S/c19root
                                                  (`/S` stands for the scratch directory the Go side creates)
    dirfilesrel <cwd> <dir> <kind> <prefix> <rels>             DirFiles called with the relative name <dir> of a directory
    hashdirrel <cwd> <dir> <kind> <prefix> <rels> <contents>   after chdir(<cwd>) (<cwd> = /S, /S/c19root, /S/c19root/sub ...)
    dirfileslink <layout> <kind> <prefix> <rels>               DirFiles / HashDir called with a path that reaches the directory THROUGH A
    hashdirlink <layout> <kind> <prefix> <rels> <contents>     SYMBOLIC LINK in an ancestor component (layouts `anc-…`, built by the Go side):
                                                  the operating system resolves the link, the directory reached is the tree of the
                                                  op, so the result is that of dirfiles / hashdir (the model has no links; layouts
                                                  where the directory ITSELF is a link are not modelled: bad-op)
    hashzip <names> <contents>                    HashZip with Hash1 on the archive with these entries, in order
    hashmodzip <path> <version> <rels> <contents>   HashZip of zip.Create's archive for these files
    hashunzip <path> <version> <rels> <contents>    HashDir (prefix path@version) of the directory zip.Unzip extracts that archive to
    sha256 <bytes>                                the executable SHA-256 the driver links
    after <read|crc> <fnames> <fcontents> <bad> <k> <together> <hash1|hashzip|hashdir> <prefix> <names> <contents>
                                                  a two-call history, output `<first> <second>`: first Hash1 (read) / HashZip (crc) on
                                                  (fnames, fcontents) where reading the file `bad` fails (after k bytes / at the CRC
                                                  check: one error kind with open failures, so k and together do not matter here),
                                                  then Hash1 / HashZip / HashDir(prefix) on (names, contents): the model has no state,
                                                  the second result is that of the single-call op
-/
import ModVerif.Drv.Util
import ModVerif.Basic.Sha256
import ModVerif.Model.Dirhash
namespace ModVerif.Drv.Dirhash
open ModVerif ModVerif.Drv ModVerif.Dirhash

def showErr : Err → String
  | .newline => "err:newline"
  | .openFail => "err:open"
  | .notDir => "err:notdir"
  | .walk => "err:walk"

def showRes : Except Err Bytes → String
  | .ok b => xh b
  | .error e => showErr e

def showResList : Except Err (List Bytes) → String
  | .ok l => xhList l
  | .error e => showErr e

def parseRoot (kind : String) (files : List (Bytes × Bytes)) : Option Root :=
  if kind == "missing" then some .missing
  else if kind == "file" then some .file
  else if kind == "dir" then some (.dir files)
  else none

def sha : Bytes → Bytes := Sha256.sha256

/-- the file system of the `...at` ops: the symbolic scratch directory `/S` holds `c19root` and nothing else -/
def scratchFs (root : Root) (p : Bytes) : Root :=
  if p == B "/S/c19root" then root else .missing

/-- the same file system seen from the working directory `cwd` (an absolute path): a relative path is
    resolved against `cwd` (`joinPath` cleans lexically; the scratch directory has no symbolic links) -/
def relFs (root : Root) (cwd p : Bytes) : Root :=
  if p.head? == some slash then scratchFs root p else scratchFs root (joinPath cwd p)

def handle : Handler
  | "sort", [l] => do let l ← hxList l; pure (xhList (sortStrings l))
  | "clean", [p] => do let p ← hx p; pure (xh (clean p))
  | "join", [a, b] => do let a ← hx a; let b ← hx b; pure (xh (joinPath a b))
  | "summary", [ns, cs] => do
      let ns ← hxList ns; let cs ← hxList cs
      pure (showRes (summary sha ns (openPairs (ns.zip cs))))
  | "hash1", [ns, cs] => do
      let ns ← hxList ns; let cs ← hxList cs
      pure (showRes (hash1 sha ns (openPairs (ns.zip cs))))
  | "dirfiles", [kind, pfx, rels] => do
      let pfx ← hx pfx; let rels ← hxList rels
      let root ← parseRoot kind (rels.map fun r => (r, []))
      pure (showResList (dirFiles root pfx))
  | "hashdir", [kind, pfx, rels, cs] => do
      let pfx ← hx pfx; let rels ← hxList rels; let cs ← hxList cs
      let root ← parseRoot kind (rels.zip cs)
      pure (showRes (hashDir sha root pfx))
  | "dirfilesat", [dir, kind, pfx, rels] => do
      let dir ← hx dir; let pfx ← hx pfx; let rels ← hxList rels
      let root ← parseRoot kind (rels.map fun r => (r, []))
      pure (showResList (dirFilesAt (scratchFs root) dir pfx))
  | "hashdirat", [dir, kind, pfx, rels, cs] => do
      let dir ← hx dir; let pfx ← hx pfx; let rels ← hxList rels; let cs ← hxList cs
      let root ← parseRoot kind (rels.zip cs)
      pure (showRes (hashDirAt sha (scratchFs root) dir pfx))
  | "dirfilesrel", [cwd, dir, kind, pfx, rels] => do
      let cwd ← hx cwd; let dir ← hx dir; let pfx ← hx pfx; let rels ← hxList rels
      let root ← parseRoot kind (rels.map fun r => (r, []))
      pure (showResList (dirFilesAt (relFs root cwd) dir pfx))
  | "hashdirrel", [cwd, dir, kind, pfx, rels, cs] => do
      let cwd ← hx cwd; let dir ← hx dir; let pfx ← hx pfx; let rels ← hxList rels; let cs ← hxList cs
      let root ← parseRoot kind (rels.zip cs)
      pure (showRes (hashDirAt sha (relFs root cwd) dir pfx))
  | "dirfileslink", [lay, kind, pfx, rels] => do
      guard (lay.startsWith "anc-")
      let pfx ← hx pfx; let rels ← hxList rels
      let root ← parseRoot kind (rels.map fun r => (r, []))
      pure (showResList (dirFiles root pfx))
  | "hashdirlink", [lay, kind, pfx, rels, cs] => do
      guard (lay.startsWith "anc-")
      let pfx ← hx pfx; let rels ← hxList rels; let cs ← hxList cs
      let root ← parseRoot kind (rels.zip cs)
      pure (showRes (hashDir sha root pfx))
  | "hashzip", [ns, cs] => do
      let ns ← hxList ns; let cs ← hxList cs
      pure (showRes (hashZip sha (ns.zip cs)))
  | "hashmodzip", [path, ver, rels, cs] => do
      let path ← hx path; let ver ← hx ver; let rels ← hxList rels; let cs ← hxList cs
      pure (showRes (hashModZip sha path ver (rels.zip cs)))
  | "hashunzip", [path, ver, rels, cs] => do
      let path ← hx path; let ver ← hx ver; let rels ← hxList rels; let cs ← hxList cs
      pure (showRes (hashUnzipped sha path ver (rels.zip cs)))
  | "sha256", [b] => do let b ← hx b; pure (xh (sha b))
  | "after", [k1, fns, fcs, bad, _k, _together, k2, pfx, ns, cs] => do
      let fns ← hxList fns; let fcs ← hxList fcs; let bad ← hx bad
      let pfx ← hx pfx; let ns ← hxList ns; let cs ← hxList cs
      let fpairs := fns.zip fcs
      let r1 ←
        if k1 == "read" then some (hash1 sha fns (fun n => if n == bad then none else openPairs fpairs n))
        else if k1 == "crc" then some (hash1 sha (hashZipNames fpairs) (fun n => if n == bad then none else lookupLast fpairs n))
        else none
      let r2 ←
        if k2 == "hash1" then some (hash1 sha ns (openPairs (ns.zip cs)))
        else if k2 == "hashzip" then some (hashZip sha (ns.zip cs))
        else if k2 == "hashdir" then some (hashDir sha (.dir (ns.zip cs)) pfx)
        else none
      pure (showRes r1 ++ " " ++ showRes r2)
  | _, _ => none

end ModVerif.Drv.Dirhash
