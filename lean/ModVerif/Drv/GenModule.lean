import ModVerif.Drv.Util
import ModVerif.Drv.Module
import ModVerif.Basic.FoldTable
import ModVerif.Model.Pseudo
import ModVerif.Generated.FnModule
/-! Handlers that run the code REGENERATED from module/module.go and module/pseudo.go (Generated/FnModule.lean) on the same
    ops as the hand models.  unicode.IsLetter, path.Match, strings.EqualFold, time formatting and the pseudo-version regexp
    are parameters of the generated code; they are instantiated with the executable stand-ins of `Basic/`. -/
namespace ModVerif.Drv.GenModule
open ModVerif ModVerif.Drv ModVerif.GoRt
open ModVerif.Generated.Module

def isLetterI (r : Int) : Bool := Module.isLetter r.toNat
def pathMatchI (p n : Bytes) : Bool × Option String := (Module.glob p n, none)

/-- strings.EqualFold: simple folding, rune by rune -/
def foldRunes (s : Bytes) : List Nat := (Utf8.runes s).map FoldTable.foldMin
def equalFoldI (a b : Bytes) : Bool := foldRunes a == foldRunes b

def F (l : List Bytes) : Nat := 4 * (l.map List.length).sum + 64

def lastSeg (s : String) : String := (s.splitOn "|").getLast!

def pathKind (msg : String) : String :=
  match msg with
  | "invalid UTF-8" => "utf8"
  | "empty string" => "empty"
  | "leading dash" => "leading-dash"
  | "double slash" => "double-slash"
  | "trailing slash" => "trailing-slash"
  | "empty path element" => "empty-elem"
  | "leading dot in path element" => "leading-dot"
  | "trailing dot in path element" => "trailing-dot"
  | "trailing tilde and digits in path element" => "tilde-digits"
  | "leading slash" => "leading-slash"
  | "missing dot in first path element" => "missing-dot"
  | "leading dash in first path element" => "leading-dash-first"
  | "invalid version" => "version"
  | "invalid char %q in first path element" => "char-first"
  | "invalid char %q" => "char"
  | "invalid path element %q" => "all-dots"
  | "%q disallowed as path element component on Windows" => "windows"
  | _ => "unknown"

def showPathErr : M (Option String) → String
  | .ok none => "ok"
  | .ok (some e) => if e.startsWith "InvalidPathError|" then "err:" ++ pathKind (lastSeg e) else "err:unknown"
  | .error e => e.toString

def showCheckErr : M (Option String) → String
  | .ok none => "ok"
  | .ok (some e) =>
    if e.startsWith "InvalidPathError|" then "err:" ++ pathKind (lastSeg e)
    else if (e.splitOn "InvalidVersionError|").length > 1 then
      (if lastSeg e == "not a semantic version" then "err:not-semver" else "err:major")
    else "err:unknown"
  | .error e => e.toString

def showEscG : M (Bytes × Option String) → String
  | .ok (b, none) => xh b
  | .ok (_, some e) =>
    if e.startsWith "InvalidPathError|" then "err:" ++ pathKind (lastSeg e)
    else if e.startsWith "InvalidVersionError|" then "err:disallowed"
    else if e == "internal error: inconsistency in EscapePath" then "err:internal"
    else "err:unknown"
  | .error e => e.toString

def showUnescG : M (Bytes × Option String) → String
  | .ok (b, none) => xh b
  | .ok (_, some e) => if (e.splitOn "|").length == 1 then "err:escaped" else "err:invalid:" ++ pathKind (lastSeg e)
  | .error e => e.toString

def handle : Handler
  | "checkpath", [a] => do let a ← hx a; pure (showPathErr (CheckPath equalFoldI isLetterI (F [a]) a))
  | "checkimportpath", [a] => do let a ← hx a; pure (showPathErr (CheckImportPath equalFoldI isLetterI (F [a]) a))
  | "checkfilepath", [a] => do let a ← hx a; pure (showPathErr (CheckFilePath equalFoldI isLetterI (F [a]) a))
  | "splitpathversion", [a] => do
      let a ← hx a
      pure (match SplitPathVersion (F [a]) a with
        | .ok (p, m, ok) => xh p ++ " " ++ xh m ++ " " ++ showBool ok
        | .error e => e.toString)
  | "matchpathmajor", [v, m] => do
      let v ← hx v; let m ← hx m
      pure (match MatchPathMajor (F [v, m]) v m with | .ok b => showBool b | .error e => e.toString)
  | "checkpathmajor", [v, m] => do
      let v ← hx v; let m ← hx m
      pure (match CheckPathMajor (F [v, m]) v m with | .ok none => "ok" | .ok (some _) => "err:major" | .error e => e.toString)
  | "pathmajorprefix", [m] => do
      let m ← hx m
      pure (match PathMajorPrefix (F [m]) m with | .ok b => xh b | .error e => e.toString)
  | "check", [p, v] => do
      let p ← hx p; let v ← hx v
      pure (showCheckErr (Check equalFoldI isLetterI (F [p, v]) p v))
  | "escapepath", [a] => do let a ← hx a; pure (showEscG (EscapePath equalFoldI isLetterI (F [a]) a))
  | "escapeversion", [a] => do let a ← hx a; pure (showEscG (EscapeVersion equalFoldI isLetterI (F [a]) a))
  | "unescapepath", [a] => do let a ← hx a; pure (showUnescG (UnescapePath equalFoldI isLetterI (F [a]) a))
  | "unescapeversion", [a] => do let a ← hx a; pure (showUnescG (UnescapeVersion equalFoldI isLetterI (F [a]) a))
  | "matchprefixpatterns", [g, t] => do
      let g ← hx g; let t ← hx t
      pure (match MatchPrefixPatterns pathMatchI (F [g, t]) g t with | .ok b => showBool b | .error e => e.toString)
  | _, _ => none

/-! pseudo.go: `time.Time` is `Option Int` (Unix seconds; `none` = the zero Time) -/

def fmtTimeI (t : Option Int) (_layout : Bytes) : Bytes :=
  match t with
  | some s => Pseudo.formatUnix s
  | none => B "00010101000000"

def pseudoErr (e : String) : String :=
  if !e.startsWith "InvalidVersionError|" then "err:other"
  else
    let m := lastSeg e
    if m == "errPseudoSyntax" then "err:syntax"
    else if m.startsWith "malformed time" then "err:time"
    else if m.startsWith "lacks base version" then "err:build"
    else if m.startsWith "version before" then "err:negative"
    else "err:other"

def showPs : M (Bytes × Option String) → String
  | .ok (b, none) => xh b
  | .ok (_, some e) => pseudoErr e
  | .error e => e.toString

def showB : M Bytes → String
  | .ok b => xh b
  | .error e => e.toString

def showBo : M Bool → String
  | .ok b => showBool b
  | .error e => e.toString

def handlePseudo : Handler
  | "pseudoversion", [maj, older, secs, rev] => do
      let maj ← hx maj; let older ← hx older; let secs ← secs.toInt?; let rev ← hx rev
      pure (showB (PseudoVersion fmtTimeI (F [maj, older, rev]) maj older (some secs) rev))
  | "zeropseudo", [maj] => do let maj ← hx maj; pure (showB (ZeroPseudoVersion fmtTimeI (F [maj]) maj))
  | "ispseudo", [v] => do let v ← hx v; pure (showBo (IsPseudoVersion Pseudo.matchPseudoVersionRE (F [v]) v))
  | "iszeropseudo", [v] => do let v ← hx v; pure (showBo (IsZeroPseudoVersion fmtTimeI (F [v]) v))
  | "base", [v] => do let v ← hx v; pure (showPs (PseudoVersionBase Pseudo.matchPseudoVersionRE (F [v]) v))
  | "rev", [v] => do let v ← hx v; pure (showPs (PseudoVersionRev Pseudo.matchPseudoVersionRE (F [v]) v))
  | _, _ => none

end ModVerif.Drv.GenModule
