import ModVerif.Drv.Util
import ModVerif.Drv.Modfile
import ModVerif.Generated.FnPrint
/-! `gmodfile.format <data>`: parse with the hand model's parser, convert the tree to the structures REGENERATED from read.go,
    and print it with the code REGENERATED from print.go (Generated/FnPrint.lean: Format, printer.newline/trim/file/expr/tokens). -/
namespace ModVerif.Drv.GenPrint
open ModVerif ModVerif.Drv ModVerif.GoRt
namespace G
open ModVerif.Generated.Print

def pos (p : ModVerif.Modfile.Position) : Position := { Line := p.line, LineRune := p.lineRune, Byte := p.byte }
def com (c : ModVerif.Modfile.Comment) : Comment := { Start := pos c.start, Token := c.token, Suffix := c.suffix }
def coms (c : ModVerif.Modfile.Comments) : Comments :=
  { Before := c.before.map com, Suffix := c.suffix.map com, After := c.after.map com }
def line (l : ModVerif.Modfile.Line) : Line :=
  { Comments := coms l.comments, Start := pos l.start, Token := l.token, InBlock := l.inBlock, End := pos l.«end» }
def lparen (x : ModVerif.Modfile.LParen) : LParen := { Comments := coms x.comments, Pos := pos x.pos }
def rparen (x : ModVerif.Modfile.RParen) : RParen := { Comments := coms x.comments, Pos := pos x.pos }
def expr : ModVerif.Modfile.Expr → Expr
  | .commentBlock x => Expr.CommentBlock { Comments := coms x.comments, Start := pos x.start }
  | .line x => Expr.Line (line x)
  | .lineBlock x => Expr.LineBlock ⟨coms x.comments, pos x.start, lparen x.lparen, x.token, x.lines.map line, rparen x.rparen⟩
  | .lparen x => Expr.LParen (lparen x)
  | .rparen x => Expr.RParen (rparen x)
def file (f : ModVerif.Modfile.FileSyntax) : FileSyntax :=
  { Name := f.name, Comments := coms f.comments, Stmt := f.stmts.map expr }

def run (f : ModVerif.Modfile.FileSyntax) (size : Nat) : String :=
  match Format (8 * size + 64) (file f) with
  | .ok b => "ok " ++ xh b
  | .error e => e.toString
end G

def handle : Handler
  | "format", [d] => do
    let d ← hx d
    pure (match ModVerif.Modfile.parse Modfile.fileName d with
      | .error e => Modfile.showSynErr e
      | .ok f => G.run f d.length)
  | _, _ => none

end ModVerif.Drv.GenPrint
