import ModVerif.Drv.Util
import ModVerif.Model.Semver
namespace ModVerif.Drv.Semver
open ModVerif ModVerif.Drv ModVerif.Semver

def handle : Handler
  | "isvalid", [a] => do let a ← hx a; pure (showBool (isValid a))
  | "canonical", [a] => do let a ← hx a; pure (xh (canonical a))
  | "major", [a] => do let a ← hx a; pure (xh (major a))
  | "majorminor", [a] => do let a ← hx a; pure (xh (majorMinor a))
  | "prerelease", [a] => do let a ← hx a; pure (xh (prerelease a))
  | "build", [a] => do let a ← hx a; pure (xh (build a))
  | "compare", [a, b] => do let a ← hx a; let b ← hx b; pure (toString (Semver.compare a b))
  | "max", [a, b] => do let a ← hx a; let b ← hx b; pure (xh (Semver.max a b))
  | "canonicalversion", [a] => do let a ← hx a; pure (xh (canonicalVersion a))
  | "sort", [l] => do let l ← hxList l; pure (xhList (sort l))
  | _, _ => none

end ModVerif.Drv.Semver
