import ModVerif.Drv.Util
import ModVerif.Drv.Zip
import ModVerif.Drv.GenZip
import ModVerif.Drv.GenZipIO
import ModVerif.Generated.FnZip
import ModVerif.Model.Zip
/-! Handlers that run `listFilesInDir` / `CheckDir` / `CreateFromDir` REGENERATED from zip/zip.go (Generated/FnZip.lean) on
    the ops of the hand model: the directory tree of the op becomes the `FsTree` that `filepath.Walk` traverses
    (Basic/GoRtWalk.lean), and `os.ReadFile` / `os.Lstat` / `os.Open` read the same tree. -/
namespace ModVerif.Drv.GenZipDir
open ModVerif ModVerif.Drv ModVerif.GoRt
open ModVerif.Generated.Zip

def dirInfo : FileInfo := { Mode := 2147483648, IsDir := true, Size := 0 }

mutual
def toFs : ModVerif.Zip.Node → FsTree FileInfo
  | .file mode size _ _ => .file { Mode := GenZip.modeBits mode, IsDir := false, Size := size }
  | .dir cs => .dir dirInfo (toFsList cs)
def toFsList : List (Bytes × ModVerif.Zip.Node) → List (Bytes × FsTree FileInfo)
  | [] => []
  | (n, x) :: rest => (n, toFs x) :: toFsList rest
end

/-- the node at the component path below a directory with the given children -/
def findNode : List Bytes → List (Bytes × ModVerif.Zip.Node) → Option ModVerif.Zip.Node
  | [], cs => some (.dir cs)
  | [c], cs => (cs.find? (fun e => e.1 == c)).map (·.2)
  | c :: rest, cs =>
    match ((cs.find? (fun e => e.1 == c)).map (·.2) : Option ModVerif.Zip.Node) with
    | some (ModVerif.Zip.Node.dir cs') => findNode rest cs'
    | _ => none

/-- path below the driver's root directory `t` as components (`none`: not below it) -/
def compsOf (p : Bytes) : Option (List Bytes) :=
  if p == Zip.tdir then some []
  else if isPrefixOfB (Zip.tdir ++ [47]) p then some (splitOn 47 (p.drop 2)) else none

def lookup (root : List (Bytes × ModVerif.Zip.Node)) (p : Bytes) : Option ModVerif.Zip.Node :=
  (compsOf p).bind fun cs => findNode cs root

/-- content standing for a root go.mod that says go >= 1.24 (the op carries that flag explicitly) -/
def ge124Marker : Bytes := B "\x00go1.24\x00"

def relP (p : Bytes) : Bytes := if isPrefixOfB (Zip.tdir ++ [47]) p then p.drop 2 else p

def showErrsD (l : List FileError) : String :=
  if l.isEmpty then "_" else ",".intercalate (l.map fun e => xh (relP e.Path) ++ ":" ++ GenZipIO.reasonOfZ (match e.Err.getD "" with
    | "errVCS" => "errVCS" | x => x))

def reasonD (e : String) : String :=
  match e with
  | "errVCS" => "vcs" | "errSubmoduleDir" => "submoduledir" | _ => GenZipIO.reasonOfZ e

def showErrsD' (l : List FileError) : String :=
  if l.isEmpty then "_" else ",".intercalate (l.map fun e => xh (relP e.Path) ++ ":" ++ reasonD (e.Err.getD ""))

def showCfD (cf : CheckedFiles) : String :=
  let e := if cf.SizeError.isSome then "size" else if !cf.Invalid.isEmpty then "invalid" else "none"
  s!"valid={xhList (cf.Valid.map relP)} omitted={showErrsD' cf.Omitted} invalid={showErrsD' cf.Invalid} sizeerr={showBool cf.SizeError.isSome} err={e}"

def handle (cfp : Bytes → Bool) (equalFold : Bytes → Bytes → Bool) (canon : Bytes → Bytes) (mcheck : Bytes → Bytes → Bool) : Handler :=
  let cfpE : Bytes → Option String := fun p => if cfp p then none else some "filepath"
  let mchk : Bytes → Bytes → Option String := fun p v => if mcheck p v then none else some "badmodule"
  let env (g : Bool) (fs : List ModVerif.Zip.FileInfo) :=
    let root := ModVerif.Zip.treeOfList (fs.map Zip.nodeOfFile)
    let walkRoot : Bytes → FsTree FileInfo := fun p => match lookup root p with | some n => toFs n | none => .file default
    let osReadFile : Bytes → (Bytes × Option String) := fun p =>
      match lookup root p with
      | some (.file _ _ c _) => if p == Zip.tdir ++ B "/go.mod" then (if g then ge124Marker else c, none) else (c, none)
      | _ => ([], some "read")
    let osLstat : Bytes → (FileInfo × Option String) := fun p =>
      match lookup root p with
      | some n => ((toFs n).info, none)
      | none => (default, some "lstat")
    let osOpenRead : Bytes → (Bytes × Option String) := fun p =>
      match lookup root p with
      | some (.file _ _ c _) => (c, none)
      | _ => ([], some "open")
    -- only the ROOT go.mod is ever parsed for its go version; its flag was derived from what is on disk (a file whose
    -- reported size exceeds its content is padded with NUL bytes there, which makes the parse fail), so it is looked up
    -- by path first: another file with the same content may carry another flag
    let pgv : Bytes → Bytes → Bytes := fun _ data =>
      let byRoot := match fs.find? (fun f => f.path == B "go.mod") with
        | some f => if f.content == data then some f.goGe124 else none
        | none => none
      let ge := match byRoot with
        | some b => b
        | none => fs.any (fun f => f.content == data && f.goGe124)
      if data == ge124Marker || ge then B "go1.24" else B "go1.0"
    let total := (fs.map fun f => f.path.length).sum
    let fuel := 8 * total + 8 * fs.length + 64
    (walkRoot, osReadFile, osLstat, osOpenRead, pgv, fuel)
  fun op args => match op, args with
  | "checkdir", [g, fs] => do
    let g ← parseBool g; let fs ← Zip.parseFiles fs
    let (walkRoot, osReadFile, osLstat, osOpenRead, pgv, fuel) := env g fs
    pure (match CheckDir cfpE equalFold osLstat osOpenRead osReadFile pgv GenZip.simpleFoldI (fun s => s.map ModVerif.Zip.asciiLower)
                 GenZip.versionCompareI id walkRoot fuel Zip.tdir with
      | .ok (cf, _) => showCfD cf
      | .error e => e.toString)
  | "createfromdir", [m, v, g, fs] => do
    let m ← hx m; let v ← hx v; let g ← parseBool g; let fs ← Zip.parseFiles fs
    let (walkRoot, osReadFile, osLstat, osOpenRead, pgv, fuel) := env g fs
    pure (match CreateFromDir canon cfpE equalFold mchk osLstat osOpenRead osReadFile pgv GenZip.simpleFoldI
                 (fun s => s.map ModVerif.Zip.asciiLower) GenZip.versionCompareI id walkRoot fuel () { Path := m, Version := v } Zip.tdir [] with
      | .ok (none, w) => "ok " ++ Zip.showEntries (w.map fun e => ⟨e.1, e.2.length, e.2⟩)
      | .ok (some e, _) => GenZipIO.createErr e
      | .error e => e.toString)
  | _, _ => none

end ModVerif.Drv.GenZipDir
