import ModVerif.Drv.Util
import ModVerif.Basic.UnicodePrint
import ModVerif.Model.Modfile.Lex
import ModVerif.Generated.FnLex
/-! Token-level ops of the go.mod lexer: `modfile.lex <data>` runs the HAND MODEL's readToken/lex to EOF,
    `gmodfile.lex <data>` runs the code REGENERATED from read.go (Generated/FnLex.lean).  Output: the tokens
    `kind@byte:line:col-byte:line:col=hextext`, then ` comments=` the recorded end-of-line comments; `err` on a lexer error. -/
namespace ModVerif.Drv.LexOps
open ModVerif ModVerif.Drv

/-! hand model -/
namespace M
open ModVerif.Modfile

def kindCode : TokKind → Int
  | .eof => -1 | .eolComment => -2 | .ident => -3 | .string => -4 | .comment => -5
  | .punct c => Int.ofNat c.toNat

def showPos (p : Position) : String := s!"{p.byte}:{p.line}:{p.lineRune}"
def showTok (t : Token) : String := s!"{kindCode t.kind}@{showPos t.pos}-{showPos t.endPos}={xh t.text}"
def showComment (c : Comment) : String := s!"{showPos c.start}={xh c.token}:{showBool c.suffix}"

def lexAll : Nat → Input → List Token → Option (List Token × Input)
  | 0, _, _ => none
  | f + 1, i, acc =>
    match lex i with
    | .error _ => none
    | .ok (t, i') => if t.kind == .eof then some ((t :: acc).reverse, i') else lexAll f i' (t :: acc)

def run (d : Bytes) : String :=
  match readToken (newInput d) with
  | .error _ => "err"
  | .ok i =>
    match lexAll (d.length + 2) i [] with
    | none => "err"
    | some (ts, i') =>
      let cs := i'.commentsRev.reverse
      ",".intercalate (ts.map showTok) ++ " comments=" ++ (if cs.isEmpty then "_" else ",".intercalate (cs.map showComment))
end M

/-! regenerated code -/
namespace G
open ModVerif.GoRt ModVerif.Generated.Lex

def isPrintI (r : Int) : Bool := UnicodePrint.isPrint r.toNat
def isSpaceI (r : Int) : Bool := UnicodePrint.isSpace r.toNat

def showPos (p : Position) : String := s!"{p.Byte}:{p.Line}:{p.LineRune}"
def showTok (t : token) : String := s!"{t.kind}@{showPos t.pos}-{showPos t.endPos}={xh t.text}"
def showComment (c : Comment) : String := s!"{showPos c.Start}={xh c.Token}:{showBool c.Suffix}"

def lexAll (fuel : Nat) : Nat → input → List token → Option (List token × input)
  | 0, _, _ => none
  | f + 1, i, acc =>
    match input_lex isPrintI isSpaceI fuel i with
    | .error _ => none
    | .ok (t, i') => if t.kind == -1 then some ((t :: acc).reverse, i') else lexAll fuel f i' (t :: acc)

def run (d : Bytes) : String :=
  let fuel := d.length + 8
  let i0 : input := { (default : input) with complete := d, remaining := d, pos := { Line := 1, LineRune := 1, Byte := 0 } }
  match input_readToken isPrintI isSpaceI fuel i0 with
  | .error _ => "err"
  | .ok (_, i) =>
    match lexAll fuel (d.length + 2) i [] with
    | none => "err"
    | some (ts, i') =>
      let cs := i'.comments
      ",".intercalate (ts.map showTok) ++ " comments=" ++ (if cs.isEmpty then "_" else ",".intercalate (cs.map showComment))
end G

def handleModel : Handler
  | "lex", [d] => do let d ← hx d; pure (M.run d)
  | _, _ => none

def handleGen : Handler
  | "lex", [d] => do let d ← hx d; pure (G.run d)
  | _, _ => none

end ModVerif.Drv.LexOps
