import ModVerif.Drv.Util
import ModVerif.Basic.UnicodeLetter
import ModVerif.Basic.PathMatch
import ModVerif.Model.Module
namespace ModVerif.Drv.Module
open ModVerif ModVerif.Drv ModVerif.Module

def isLetter : Nat → Bool := UnicodeLetter.isLetter
def glob : Bytes → Bytes → Bool := PathMatch.pathMatch

def showPath : Except PathErr Unit → String
  | .ok () => "ok"
  | .error e => "err:" ++ e.name

def showCheck : Except CheckErr Unit → String
  | .ok () => "ok"
  | .error (.path e) => "err:" ++ e.name
  | .error .notSemver => "err:not-semver"
  | .error .major => "err:major"

def showEsc : Except EscErr Bytes → String
  | .ok b => xh b
  | .error (.path e) => "err:" ++ e.name
  | .error .disallowed => "err:disallowed"
  | .error .internal => "err:internal"

def showUnesc : Except UnescErr Bytes → String
  | .ok b => xh b
  | .error .escaped => "err:escaped"
  | .error (.invalid e) => "err:invalid:" ++ e.name

def handle : Handler
  | "checkpath", [a] => do let a ← hx a; pure (showPath (checkModPath a))
  | "checkimportpath", [a] => do let a ← hx a; pure (showPath (checkImportPath a))
  | "checkfilepath", [a] => do let a ← hx a; pure (showPath (checkFilePath isLetter a))
  | "splitpathversion", [a] => do
      let a ← hx a
      let r := splitPathVersion a
      pure (xh r.1 ++ " " ++ xh r.2.1 ++ " " ++ showBool r.2.2)
  | "matchpathmajor", [v, m] => do let v ← hx v; let m ← hx m; pure (showBool (matchPathMajor v m))
  | "checkpathmajor", [v, m] => do let v ← hx v; let m ← hx m; pure (if checkPathMajor v m then "ok" else "err:major")
  | "pathmajorprefix", [m] => do
      let m ← hx m
      pure (match pathMajorPrefix m with | none => "panic" | some p => xh p)
  | "check", [p, v] => do let p ← hx p; let v ← hx v; pure (showCheck (check p v))
  | "escapepath", [a] => do let a ← hx a; pure (showEsc (escapePath a))
  | "escapeversion", [a] => do let a ← hx a; pure (showEsc (escapeVersion isLetter a))
  | "unescapepath", [a] => do let a ← hx a; pure (showUnesc (unescapePath a))
  | "unescapeversion", [a] => do let a ← hx a; pure (showUnesc (unescapeVersion isLetter a))
  | "matchprefixpatterns", [g, t] => do let g ← hx g; let t ← hx t; pure (showBool (matchPrefixPatterns glob g t))
  | "pathmatch", [p, n] => do let p ← hx p; let n ← hx n; pure (showBool (glob p n))
  | "isletter", [n] => do let n ← n.toNat?; pure (showBool (isLetter n))
  | "validutf8", [a] => do let a ← hx a; pure (showBool (Utf8.validString a))
  | "runes", [a] => do let a ← hx a; pure (showNatList (Utf8.runes a))
  | _, _ => none

end ModVerif.Drv.Module
