import ModVerif.Drv.Util
import ModVerif.Model.Module
namespace ModVerif.Drv.Module
open ModVerif ModVerif.Drv ModVerif.Module

def handle : Handler
  | "canonicalversion", [a] => do let a ← hx a; pure (xh (canonicalVersion a))
  | _, _ => none

end ModVerif.Drv.Module
