import ModVerif.Drv.Util
import ModVerif.Drv.TlogUtil
import ModVerif.Drv.Tile
import ModVerif.Drv.GenTlog
import ModVerif.Generated.FnTile
/-! Handlers that run the code REGENERATED from sumdb/tlog/tile.go (Generated/FnTile.lean) on the same ops as the hand
    model: hash type = Bytes (32 bytes), tile data = flat bytes exactly as in Go. -/
namespace ModVerif.Drv.GenTile
open ModVerif ModVerif.Drv ModVerif.Drv.TlogUtil ModVerif.GoRt
open ModVerif.Generated.Tile

abbrev GT := ModVerif.Generated.Tile.Tile

def toG (t : ModVerif.Tile.Tile) : GT :=
  { H := t.h, L := if t.data then -1 else t.l, N := t.n, W := t.w }

def ofG (t : GT) : ModVerif.Tile.Tile :=
  if t.L == -1 then { h := t.H.toNat, l := 0, n := t.N.toNat, w := t.W.toNat, data := true }
  else { h := t.H.toNat, l := t.L.toNat, n := t.N.toNat, w := t.W.toNat }

def showG (t : GT) : String := s!"{t.H}/{t.L}/{t.N}/{t.W}"
def showGs (l : List GT) : String := if l.isEmpty then "_" else ",".intercalate (l.map showG)

def errKind (s : String) : String :=
  if s == "indexes not in tree" then "err:range"
  else if s == "downloaded inconsistent tile" then "err:inconsistent"
  else if s.startsWith "bad math in tileHashReader" then "err:badmath"
  else if s.startsWith "invalid tile" || s.startsWith "data len" || s.startsWith "index " || s.startsWith "TileReader returned bad result slice" then "err:tile"
  else if s.startsWith "tilereader:" then "err:reader"
  else GenTlog.errKind s

def F : Nat := 100000

def showSavedG (log : List (List GT × List Bytes)) : String :=
  match log with
  | [] => "none"
  | (ts, ds) :: _ =>
    let l := ts.zip ds
    if l.isEmpty then "_" else ",".intercalate (l.map fun (t, d) => showG t ++ "=" ++ ((Sha256.sum256Hex d).take 16).toString)

def hashes32 (b : Bytes) : List Bytes :=
  (List.range (b.length / 32)).map fun i => (b.drop (32 * i)).take 32

def handle : Handler
  | "tileforindex", [h, i] => do
    let h ← int? h; let i ← int? i
    pure (match TileForIndex F h i with | .ok t => showG t | .error e => e.toString)
  | "newtiles", [h, o, n] => do
    let h ← int? h; let o ← int? o; let n ← int? n
    pure (match NewTiles F h o n with | .ok l => showGs l | .error e => e.toString)
  | "tilepath", [t] => do
    let t ← Tile.tile? t
    pure (match Tile_Path F (toG t) with | .ok p => xh p | .error e => e.toString)
  | "parsetilepath", [p] => do
    let p ← hx p
    pure (match ParseTilePath F p with
      | .ok (t, none) => showG t
      | .ok (_, some _) => "err"
      | .error e => e.toString)
  | "hashfromtile", [t, d, i] => do
    let t ← Tile.tile? t; let d ← hxList d; let i ← int? i
    pure (match HashFromTile nodeH id F (toG t) d.flatten i with
      | .ok (h, none) => xh h
      | .ok (_, some e) => errKind e
      | .error e => e.toString)
  | "readtiledata", [t, r] => do
    let t ← Tile.tile? t; let r ← records r
    pure (GenTlog.withStoreG r fun st =>
      match ReadTileData id F (toG t) (GenTlog.reader st) with
      | .ok (d, none) => xhList (hashes32 d)
      | .ok (_, some e) => errKind e
      | .error e => e.toString)
  | "readhashes", [n, h, idx, fs, seed] => do
    let n ← n.toNat?; let h ← h.toNat?; let idx ← natList idx; let fs ← Tile.faults? fs; let seed ← seed.toNat?
    let recs := (List.range n).map (synthRecord seed)
    pure (match Tlog.store recs with
      | .error e => showErr e
      | .ok st =>
        match ModVerif.Tlog.treeHash nodeH emptyH n (ModVerif.Tlog.storeReader st) with
        | .error e => showErr e
        | .ok th =>
          let tr : TileReader := {
            Height := h,
            ReadTiles := fun ts =>
              match ts.mapM (fun t => (Tile.serve st fs (ofG t)).map List.flatten) with
              | some ds => (ds, none)
              | none => ([], some "tilereader: missing tile") }
          let r : tileHashReader Bytes := { tree := { N := n, Hash := th }, tr := tr }
          match tileHashReader_ReadHashes nodeH id F r (idx.map Int.ofNat) with
          | .ok ((hs, none), log) => xhList hs ++ " saved=" ++ showSavedG log
          | .ok ((_, some e), log) => errKind e ++ " saved=" ++ showSavedG log
          | .error e => e.toString ++ " saved=none")
  | "readuni", [n, h, idx, fs, seed] => do
    let n ← n.toNat?; let h ← h.toNat?; let idx ← natList idx; let fs ← Tile.faults? fs; let seed ← seed.toNat?
    let lv := Tile.uniLevels seed
    let tr : TileReader := {
      Height := h,
      ReadTiles := fun ts =>
        match ts.mapM (fun t => (Tile.serveWith (Tile.uniTile lv n) fs (ofG t)).map List.flatten) with
        | some ds => (ds, none)
        | none => ([], some "tilereader: missing tile") }
    let r : tileHashReader Bytes := { tree := { N := n, Hash := Tile.uniTreeHash lv n }, tr := tr }
    pure (match tileHashReader_ReadHashes nodeH id F r (idx.map Int.ofNat) with
      | .ok ((hs, none), log) => xhList hs ++ " saved=" ++ showSavedG log
      | .ok ((_, some e), log) => errKind e ++ " saved=" ++ showSavedG log
      | .error e => e.toString ++ " saved=none")
  | _, _ => none

end ModVerif.Drv.GenTile
