/-
  Driver module for the sumdb client (prefix `client.`): trace-validation ops.

    client.pctrace <keys> <events>
        keys   comma-separated key (natural number) of caller 0, 1, …
        events comma-separated  c<i> (caller i entered Do) | f<i> (f started running for caller i) | r<i> (caller i returned)
        -> `ok` if the sequence is the visible projection of a run of the parCache machine, else `reject <index>`

    client.trace <p> <hostile:0|1> <c0> <threads> <events>
        p        length of the common prefix of logs A and B
        c0       initial stored head (`-` empty, `A<n>`, `B<n>`)
        threads  comma-separated `<client>:<presented head>:<private 0|1>` for thread 0, 1, …  (`_` = no threads)
        events   comma-separated  b.<t> | r.<t>.<head> | w.<t>.<old>.<new>.<o|c> | s.<t>.<older>.<newer> | e.<t>.<k>   (`_` = none)
        -> `ok` / `reject <index>` from the latest-tree-head machine

    client.lookup <h> <nosumdb> <pub> <vtable> <reads> <writes> <lookups>
        one instance of the sequential client (Model/Client.lean) over a REPLAY environment, SHA-256 hashes:
        h        tile height (SetTileHeight; 0 = not called)
        nosumdb  hex GONOSUMDB list
        pub      hex Ed25519 public key the verdict table speaks about
        vtable   comma-separated `<hextext>.<hexsig>`: the (text, signature) pairs ed25519.Verify accepts under pub (`_` none)
        reads    comma-separated `<r|c|f>.<hexfile>.<hexdata|!>`: the successive answers of ReadRemote / ReadCache / ReadConfig
                 per file (`!` = error); a read with no answer left fails
        writes   comma-separated `o|c|e`: the successive results of WriteConfig (none left = e)
        lookups  comma-separated `<hexpath>.<hexvers>`, run in order on the one client
        -> `<result>;<result>… <effects> <reads>`: result `ok:<n>:<digest of the lines>` or the error kind; effects
           `wc.<hexfile>.<digest>` / `wf.<o|c|e>.<hexfile>.<digest old>.<digest new>` / `sec.<digest>` in order (`_` none);
           reads = digest of the sorted multiset of read operations with their success flag

  No logic here: decode, call the model's checker, encode.
-/
import ModVerif.Drv.Util
import ModVerif.Model.ParCache
import ModVerif.Model.ClientTrace
import ModVerif.Model.Client
import ModVerif.Basic.Sha256
import ModVerif.Basic.UnicodeLetter
import ModVerif.Basic.PathMatch
namespace ModVerif.Drv.Client
open ModVerif ModVerif.Drv

def listOf (s : String) : List String := if s == "_" then [] else s.splitOn ","

def parseHead (s : String) : Option (Option ClientLatest.Head) :=
  if s == "-" then some none
  else
    let rest := (s.drop 1).toString
    match s.front, rest.toNat? with
    | 'A', some n => some (some (0, n))
    | 'B', some n => some (some (1, n))
    | _, _ => none

def parseVis (s : String) : Option ParCache.Vis := do
  let i ← ((s.drop 1).toString).toNat?
  match s.front with
  | 'c' => some (.call i)
  | 'f' => some (.frun i)
  | 'r' => some (.ret i)
  | _ => none

def parseEv (s : String) : Option ClientTrace.Ev :=
  match s.splitOn "." with
  | ["r", t, v] => do some (.rcfg (← t.toNat?) (← parseHead v))
  | ["w", t, o, n, k] => do
      let okk ← (if k == "o" then some true else if k == "c" then some false else none)
      some (.wcfg (← t.toNat?) (← parseHead o) (← parseHead n) okk)
  | ["s", t, a, b] => do some (.sec (← t.toNat?) (← parseHead a) (← parseHead b))
  | ["e", t, k] => do some (.fin (← t.toNat?) (← k.toNat?))
  | ["b", t] => do some (.beg (← t.toNat?))
  | _ => none

def parseThread (s : String) : Option (Nat × Option ClientLatest.Head × Bool) :=
  match s.splitOn ":" with
  | [c, h, p] => do some (← c.toNat?, ← parseHead h, p == "1")
  | _ => none

def showVerdict : Option Nat → String
  | none => "ok"
  | some n => s!"reject {n}"

/-! ### client.lookup: the sequential client over a replay environment -/

/-- the replay environment: remaining answers -/
structure Replay where
  reads : List (ModVerif.Client.ReadKind × Bytes × Option Bytes)
  writes : List ModVerif.Client.WriteRes

/-- remove the first answer recorded for `(k, file)` -/
def popRead (k : ModVerif.Client.ReadKind) (file : Bytes) :
    List (ModVerif.Client.ReadKind × Bytes × Option Bytes) → Option (Option Bytes × List (ModVerif.Client.ReadKind × Bytes × Option Bytes))
  | [] => none
  | e :: rest =>
    if e.1 == k && e.2.1 == file then some (e.2.2, rest)
    else (popRead k file rest).map fun r => (r.1, e :: r.2)

def replayRead (k : ModVerif.Client.ReadKind) (s : Replay) (file : Bytes) : Option Bytes × Replay :=
  match popRead k file s.reads with
  | some (ans, rest) => (ans, { s with reads := rest })
  | none => (none, s)

def replayEnv : ModVerif.Client.Env Replay :=
  { readRemote := replayRead .remote
    readCache := replayRead .cache
    readConfig := replayRead .config
    writeCache := fun s _ _ => s
    writeConfig := fun s _ _ _ => match s.writes with
      | [] => (.error, s)
      | r :: rest => (r, { s with writes := rest })
    securityError := fun s _ => s }

/-- SHA-256 instance of the hash parameters: RecordHash = SHA-256(0x00 ‖ data), NodeHash = SHA-256(0x01 ‖ l ‖ r) -/
def shaParams (h : Nat) (nosumdb pub : Bytes) (table : List (Bytes × Bytes)) : ModVerif.Client.Params Bytes :=
  { leaf := fun d => Sha256.sha256 (0 :: d)
    node := fun a b => Sha256.sha256 (1 :: (a ++ b))
    empty := Sha256.sha256 []
    hashSize := 32
    dec := id
    enc := id
    height := h
    nosumdb := nosumdb
    isLetter := UnicodeLetter.isLetter
    glob := PathMatch.pathMatch
    sha := Sha256.sha256
    edVerify := fun p msg sig => p == pub && table.contains (msg, sig)
    retries := 1000 }

def dig (b : Bytes) : String := ((Sha256.sum256Hex b).take 12).toString

def parseRead (s : String) : Option (ModVerif.Client.ReadKind × Bytes × Option Bytes) :=
  match s.splitOn "." with
  | [k, f, d] => do
    let k ← match k with
      | "r" => some ModVerif.Client.ReadKind.remote | "c" => some .cache | "f" => some .config | _ => none
    let f ← hx f
    let d ← if d == "!" then some none else (hx d).map some
    pure (k, f, d)
  | _ => none

def parseWrite : String → Option ModVerif.Client.WriteRes
  | "o" => some .ok | "c" => some .conflict | "e" => some .error | _ => none

def parsePair (s : String) : Option (Bytes × Bytes) :=
  match s.splitOn "." with
  | [a, b] => do pure (← hx a, ← hx b)
  | _ => none

def showWriteRes : ModVerif.Client.WriteRes → String
  | .ok => "o" | .conflict => "c" | .error => "e"

def showReadKind : ModVerif.Client.ReadKind → String
  | .remote => "r" | .cache => "c" | .config => "f"

def showResult : Except ModVerif.Client.Err (List Bytes) → String
  | .ok lines => s!"ok:{lines.length}:{dig (joinWith [10] lines)}"
  | .error e => e.name

def showEffect : ModVerif.Client.Effect → Option String
  | .writeCache f d => some s!"wc.{xh f}.{dig d}"
  | .writeConfig f o n r => some s!"wf.{showWriteRes r}.{xh f}.{dig o}.{dig n}"
  | .securityError m => some s!"sec.{dig m}"
  | .read _ _ _ => none

def showReadLine : ModVerif.Client.Effect → Option String
  | .read k f ok => some s!"{showReadKind k} {xh f} {if ok then 1 else 0}"
  | _ => none

/-- run the lookups in order on one client -/
def runLookups (P : ModVerif.Client.Params Bytes) :
    ModVerif.Client.World Replay Bytes → List (Bytes × Bytes) → List String → List String × ModVerif.Client.World Replay Bytes
  | w, [], acc => (acc.reverse, w)
  | w, (p, v) :: rest, acc =>
    let r := ModVerif.Client.lookup P replayEnv w p v
    runLookups P r.2 rest (showResult r.1 :: acc)

def handle : Handler
  | "lookup", [h, nosumdb, pub, vtable, reads, writes, lookups] => do
      let h ← h.toNat?
      let nosumdb ← hx nosumdb
      let pub ← hx pub
      let table ← (listOf vtable).mapM parsePair
      let reads ← (listOf reads).mapM parseRead
      let writes ← (listOf writes).mapM parseWrite
      let looks ← (listOf lookups).mapM parsePair
      let P := shaParams h nosumdb pub table
      let w0 : ModVerif.Client.World Replay Bytes :=
        { s := { reads := reads, writes := writes }, c := ModVerif.Client.newClient P, tr := [] }
      let (res, w) := runLookups P w0 looks []
      let effs := w.tr.filterMap showEffect
      let rds := (w.tr.filterMap showReadLine).mergeSort (fun a b => decide (a ≤ b))
      some s!"{";".intercalate res} {if effs.isEmpty then "_" else ",".intercalate effs} {dig (Bytes.ofString ("\n".intercalate rds))}"
  | "pctrace", [keys, events] => do
      let ks ← natList keys
      let evs ← (listOf events).mapM parseVis
      let key : Nat → Nat := fun i => ks.getD i 0
      some (showVerdict (ParCache.accepts (List.range ks.length) ks.eraseDups key evs))
  | "trace", [p, hostile, c0, threads, events] => do
      let p ← p.toNat?
      let c0 ← parseHead c0
      let ths ← (listOf threads).mapM parseThread
      let evs ← (listOf events).mapM parseEv
      let ncl := (ths.map (·.1)).foldl max 0 + 1
      let w : ClientTrace.World :=
        { p := p, hostile := hostile == "1", nth := ths.length, ncl := ncl,
          cl := fun t => (ths.getD t (0, none, false)).1,
          presented := fun t => (ths.getD t (0, none, false)).2.1,
          priv := fun t => (ths.getD t (0, none, false)).2.2 }
      some (showVerdict (ClientTrace.check w c0 evs))
  | _, _ => none

end ModVerif.Drv.Client
