/-
  Driver module for the sumdb client (prefix `client.`): trace-validation ops.

    client.pctrace <keys> <events>
        keys   comma-separated key (natural number) of caller 0, 1, …
        events comma-separated  c<i> (caller i entered Do) | f<i> (f started running for caller i) | r<i> (caller i returned)
        -> `ok` if the sequence is the visible projection of a run of the parCache machine, else `reject <index>`

    client.trace <p> <hostile:0|1> <c0> <threads> <events>
        p        length of the common prefix of logs A and B
        c0       initial stored head (`-` empty, `A<n>`, `B<n>`)
        threads  comma-separated `<client>:<presented head>:<private 0|1>` for thread 0, 1, …  (`_` = no threads)
        events   comma-separated  b.<t> | r.<t>.<head> | w.<t>.<old>.<new>.<o|c> | s.<t>.<older>.<newer> | e.<t>.<k>   (`_` = none)
        -> `ok` / `reject <index>` from the latest-tree-head machine

  No logic here: decode, call the model's checker, encode.
-/
import ModVerif.Drv.Util
import ModVerif.Model.ParCache
import ModVerif.Model.ClientTrace
namespace ModVerif.Drv.Client
open ModVerif ModVerif.Drv

def listOf (s : String) : List String := if s == "_" then [] else s.splitOn ","

def parseHead (s : String) : Option (Option ClientLatest.Head) :=
  if s == "-" then some none
  else
    let rest := (s.drop 1).toString
    match s.front, rest.toNat? with
    | 'A', some n => some (some (0, n))
    | 'B', some n => some (some (1, n))
    | _, _ => none

def parseVis (s : String) : Option ParCache.Vis := do
  let i ← ((s.drop 1).toString).toNat?
  match s.front with
  | 'c' => some (.call i)
  | 'f' => some (.frun i)
  | 'r' => some (.ret i)
  | _ => none

def parseEv (s : String) : Option ClientTrace.Ev :=
  match s.splitOn "." with
  | ["r", t, v] => do some (.rcfg (← t.toNat?) (← parseHead v))
  | ["w", t, o, n, k] => do
      let okk ← (if k == "o" then some true else if k == "c" then some false else none)
      some (.wcfg (← t.toNat?) (← parseHead o) (← parseHead n) okk)
  | ["s", t, a, b] => do some (.sec (← t.toNat?) (← parseHead a) (← parseHead b))
  | ["e", t, k] => do some (.fin (← t.toNat?) (← k.toNat?))
  | ["b", t] => do some (.beg (← t.toNat?))
  | _ => none

def parseThread (s : String) : Option (Nat × Option ClientLatest.Head × Bool) :=
  match s.splitOn ":" with
  | [c, h, p] => do some (← c.toNat?, ← parseHead h, p == "1")
  | _ => none

def showVerdict : Option Nat → String
  | none => "ok"
  | some n => s!"reject {n}"

def handle : Handler
  | "pctrace", [keys, events] => do
      let ks ← natList keys
      let evs ← (listOf events).mapM parseVis
      let key : Nat → Nat := fun i => ks.getD i 0
      some (showVerdict (ParCache.accepts (List.range ks.length) ks.eraseDups key evs))
  | "trace", [p, hostile, c0, threads, events] => do
      let p ← p.toNat?
      let c0 ← parseHead c0
      let ths ← (listOf threads).mapM parseThread
      let evs ← (listOf events).mapM parseEv
      let ncl := (ths.map (·.1)).foldl max 0 + 1
      let w : ClientTrace.World :=
        { p := p, hostile := hostile == "1", nth := ths.length, ncl := ncl,
          cl := fun t => (ths.getD t (0, none, false)).1,
          presented := fun t => (ths.getD t (0, none, false)).2.1,
          priv := fun t => (ths.getD t (0, none, false)).2.2 }
      some (showVerdict (ClientTrace.check w c0 evs))
  | _, _ => none

end ModVerif.Drv.Client
