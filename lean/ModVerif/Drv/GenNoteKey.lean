import ModVerif.Drv.Util
import ModVerif.Drv.Note
import ModVerif.Drv.GenNote
import ModVerif.Generated.FnNoteKey
/-! Handlers that run `NewVerifier` / `NewSigner` REGENERATED from sumdb/note/note.go (Generated/FnNoteKey.lean) on the
    ops of the hand model. -/
namespace ModVerif.Drv.GenNoteKey
open ModVerif ModVerif.Drv ModVerif.GoRt
open ModVerif.Generated.NoteKey

/-- `h.Sum(pre)` of a SHA-256 accumulator holding `acc` -/
def shaSumI (acc pre : Bytes) : Bytes := pre ++ Sha256.sha256 acc

def keyErr (e : String) : String :=
  match e with
  | "errVerifierID" | "errSignerID" => "err:id"
  | "errVerifierAlg" | "errSignerAlg" => "err:alg"
  | "errVerifierHash" | "errSignerHash" => "err:hash"
  | _ => "err:unknown:" ++ e

def handle : Handler
  | "newverifier", [k] => do
    let k ← hx k
    pure (match NewVerifier GenNote.b64decI (fun _ _ _ => false) GenNote.isSpaceI shaSumI k with
      | .ok (v, none) => s!"ok {xh v.Name} {v.KeyHash.toNat}"
      | .ok (_, some e) => keyErr e
      | .error e => e.toString)
  | "newsigner", [k, pubHint] => do
    let k ← hx k; let pubHint ← hx pubHint
    -- ed25519.NewKeyFromSeed(seed) = seed ‖ public key
    pure (match NewSigner GenNote.b64decI (fun seed => seed ++ pubHint) (fun _ _ => []) GenNote.isSpaceI shaSumI k with
      | .ok (s, none) => s!"ok {xh s.Name} {s.KeyHash.toNat}"
      | .ok (_, some e) => keyErr e
      | .error e => e.toString)
  | _, _ => none

end ModVerif.Drv.GenNoteKey
