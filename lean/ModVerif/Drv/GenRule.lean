import ModVerif.Drv.Util
import ModVerif.Drv.Modfile
import ModVerif.Drv.GenModfile
import ModVerif.Generated.FnRule
/-! `gmodfile.parse` / `parselax` / `parsework`: the DIRECTIVE layer of modfile REGENERATED from rule.go / work.go
    (Generated/FnRule.lean: parseToFile, File.add, WorkFile.add, parseReplace, parseVersionInterval, parseVersion,
    parseString, fixRetract, parseDeprecation, ParseWork) on the pointer graph as a heap.  The syntax tree comes from the
    hand model's parser (the `parse` call of the Go code is the parameter `parseSyn`; the regenerated parser is tied to the
    model's by Tie/FnParse.lean): it is LOADED into the heap, the regenerated directive layer runs on it (token slices that
    alias a line's tokens are views into the heap), the typed file and the syntax graph are read back and printed as
    `modfile.parse` prints them. -/
namespace ModVerif.Drv.GenRule
open ModVerif ModVerif.Drv ModVerif.GoRt
open ModVerif.Generated.Rule

def posG (p : ModVerif.Modfile.Position) : Position := { Line := p.line, LineRune := p.lineRune, Byte := p.byte }
def comG (c : ModVerif.Modfile.Comment) : Comment := { Start := posG c.start, Token := c.token, Suffix := c.suffix }
def comsG (c : ModVerif.Modfile.Comments) : Comments := { Before := c.before.map comG, Suffix := c.suffix.map comG, After := c.after.map comG }
def posM (p : Position) : ModVerif.Modfile.Position := { line := p.Line.toNat, lineRune := p.LineRune.toNat, byte := p.Byte.toNat }
def comM (c : Comment) : ModVerif.Modfile.Comment := { start := posM c.Start, token := c.Token, suffix := c.Suffix }
def comsM (c : Comments) : ModVerif.Modfile.Comments := { before := c.Before.map comM, suffix := c.Suffix.map comM, after := c.After.map comM }

/-- loading: the map from heap pointers of lines to model line ids is built on the way -/
structure Ld where
  h : Heap := default
  ids : List (Int × Nat) := []

def Ld.line (s : Ld) (l : ModVerif.Modfile.Line) : Ld × Int :=
  let (p, ls) := heapAlloc s.h.lines ({ Comments := comsG l.comments, Start := posG l.start, Token := l.token, InBlock := l.inBlock, End := posG l.«end» } : Line)
  ({ h := { s.h with lines := ls }, ids := (p, l.id) :: s.ids }, p)

def Ld.lines (s : Ld) : List ModVerif.Modfile.Line → Ld × List Int
  | [] => (s, [])
  | l :: rest =>
    let (s, p) := s.line l
    let (s, ps) := s.lines rest
    (s, p :: ps)

def Ld.stmt (s : Ld) : ModVerif.Modfile.Expr → Ld × Expr
  | .commentBlock c =>
    let (p, l) := heapAlloc s.h.cbs ({ Comments := comsG c.comments, Start := posG c.start } : CommentBlock)
    ({ s with h := { s.h with cbs := l } }, .CommentBlock p)
  | .line l => let (s, p) := s.line l; (s, .Line p)
  | .lineBlock b =>
    let (s, ps) := s.lines b.lines
    let lp : LParen := { Comments := comsG b.lparen.comments, Pos := posG b.lparen.pos }
    let rp : RParen := { Comments := comsG b.rparen.comments, Pos := posG b.rparen.pos }
    let blk : LineBlock := { Comments := comsG b.comments, Start := posG b.start, LParen := lp, Token := b.token, Line := ps, RParen := rp }
    let (p, l) := heapAlloc s.h.blocks blk
    ({ s with h := { s.h with blocks := l } }, .LineBlock p)
  | _ => (s, .nil)

def Ld.stmts (s : Ld) : List ModVerif.Modfile.Expr → Ld × List Expr
  | [] => (s, [])
  | e :: rest =>
    let (s, x) := s.stmt e
    let (s, xs) := s.stmts rest
    (s, x :: xs)

/-- an `ErrorList` as the error value of the regenerated code (`errListErr` of the generated file): entries separated by
    U+0001, each `line,col,byte,inner error` -/
def encErr (pos : ModVerif.Modfile.Position) (inner : String) : String := s!"{pos.line},{pos.lineRune},{pos.byte},{inner}"

/-- the Go `parse(file, data)`: the hand model's parser, its tree loaded into the heap.  The line-id map is recomputed by
    the caller (loading is deterministic). -/
def parseSynI (name data : Bytes) (w : Heap) : M ((Int × Option String) × Heap) :=
  match ModVerif.Modfile.parse name data with
  | .error e => pure (((0 : Int), some (encErr e.pos ("syn:" ++ Modfile.synKindName e.kind))), w)
  | .ok fs =>
    let (s, stmts) := ({ h := w } : Ld).stmts fs.stmts
    let (p, fl) := heapAlloc s.h.files ({ Name := fs.name, Comments := comsG fs.comments, Stmt := stmts } : FileSyntax)
    pure ((p, none), { s.h with files := fl })

def idsOf (name data : Bytes) : List (Int × Nat) :=
  match ModVerif.Modfile.parse name data with
  | .error _ => []
  | .ok fs => (({} : Ld).stmts fs.stmts).1.ids

/-! reading back -/
def idOf (ids : List (Int × Nat)) (p : Int) : Nat := (ids.lookup p).getD 0

def lineM (ids : List (Int × Nat)) (h : Heap) (p : Int) : Option ModVerif.Modfile.Line :=
  match heapGet h.lines p with
  | .ok l => some { id := idOf ids p, comments := comsM l.Comments, start := posM l.Start, token := l.Token, inBlock := l.InBlock, «end» := posM l.End }
  | .error _ => none

def exprM (ids : List (Int × Nat)) (h : Heap) : Expr → Option ModVerif.Modfile.Expr
  | .CommentBlock p => match heapGet h.cbs p with
    | .ok c => some (.commentBlock { comments := comsM c.Comments, start := posM c.Start })
    | .error _ => none
  | .Line p => (lineM ids h p).map .line
  | .LineBlock p => match heapGet h.blocks p with
    | .ok b => do
      let ls ← b.Line.mapM (lineM ids h)
      pure (.lineBlock { comments := comsM b.Comments, start := posM b.Start, lparen := { comments := comsM b.LParen.Comments, pos := posM b.LParen.Pos },
                         token := b.Token, lines := ls, rparen := { comments := comsM b.RParen.Comments, pos := posM b.RParen.Pos } })
    | .error _ => none
  | _ => none

def synM (ids : List (Int × Nat)) (h : Heap) (p : Int) : Option ModVerif.Modfile.FileSyntax :=
  match heapGet h.files p with
  | .ok f => do
    let ss ← f.Stmt.mapM (exprM ids h)
    pure { name := f.Name, comments := comsM f.Comments, stmts := ss }
  | .error _ => none

def getAll {α : Type} (l : List α) (ps : List Int) : Option (List α) := ps.mapM fun p => (heapGet l p).toOption

def fileM (ids : List (Int × Nat)) (h : Heap) (fp : Int) : Option ModVerif.Modfile.File := do
  let f ← (heapGet h.mods fp).toOption
  let syn ← synM ids h f.Syntax
  let module ← (if f.Module == 0 then some none else do
    let m ← (heapGet h.modules f.Module).toOption
    pure (some ({ mod := { path := m.Mod.Path, version := m.Mod.Version }, deprecated := m.Deprecated, lineId := idOf ids m.Syntax } : ModVerif.Modfile.Module)))
  let go ← (if f.Go == 0 then some none else do
    let g ← (heapGet h.gos f.Go).toOption
    pure (some ({ version := g.Version, lineId := idOf ids g.Syntax } : ModVerif.Modfile.Go)))
  let tc ← (if f.Toolchain == 0 then some none else do
    let t ← (heapGet h.toolchains f.Toolchain).toOption
    pure (some ({ name := t.Name, lineId := idOf ids t.Syntax } : ModVerif.Modfile.Toolchain)))
  let gd ← getAll h.godebugs f.Godebug
  let rq ← getAll h.requires f.Require
  let ex ← getAll h.excludes f.Exclude
  let rp ← getAll h.replaces f.Replace
  let rt ← getAll h.retracts f.Retract
  let tl ← getAll h.tools f.Tool
  pure { module := module, go := go, toolchain := tc,
         godebug := gd.map fun g => { key := g.Key, value := g.Value, lineId := idOf ids g.Syntax },
         require := rq.map fun r => { mod := { path := r.Mod.Path, version := r.Mod.Version }, indirect := r.Indirect, lineId := idOf ids r.Syntax },
         exclude := ex.map fun r => { mod := { path := r.Mod.Path, version := r.Mod.Version }, lineId := idOf ids r.Syntax },
         replace := rp.map fun r => { old := { path := r.Old.Path, version := r.Old.Version }, new := { path := r.New.Path, version := r.New.Version }, lineId := idOf ids r.Syntax },
         retract := rt.map fun r => { interval := { low := r.VersionInterval.Low, high := r.VersionInterval.High }, rationale := r.Rationale, lineId := idOf ids r.Syntax },
         tool := tl.map fun t => { path := t.Path, lineId := idOf ids t.Syntax },
         syn := syn }

def workM (ids : List (Int × Nat)) (h : Heap) (fp : Int) : Option ModVerif.Modfile.WorkFile := do
  let f ← (heapGet h.works fp).toOption
  let syn ← synM ids h f.Syntax
  let go ← (if f.Go == 0 then some none else do
    let g ← (heapGet h.gos f.Go).toOption
    pure (some ({ version := g.Version, lineId := idOf ids g.Syntax } : ModVerif.Modfile.Go)))
  let tc ← (if f.Toolchain == 0 then some none else do
    let t ← (heapGet h.toolchains f.Toolchain).toOption
    pure (some ({ name := t.Name, lineId := idOf ids t.Syntax } : ModVerif.Modfile.Toolchain)))
  let gd ← getAll h.godebugs f.Godebug
  let us ← getAll h.uses f.Use
  let rp ← getAll h.replaces f.Replace
  pure { go := go, toolchain := tc,
         godebug := gd.map fun g => { key := g.Key, value := g.Value, lineId := idOf ids g.Syntax },
         use := us.map fun u => { path := u.Path, modulePath := u.ModulePath, lineId := idOf ids u.Syntax },
         replace := rp.map fun r => { old := { path := r.Old.Path, version := r.Old.Version }, new := { path := r.New.Path, version := r.New.Version }, lineId := idOf ids r.Syntax },
         syn := syn }

/-! the abstract parameters of the regenerated code, bound to the model's definitions -/
def isPrintI := GenModfile.isPrintI
def unquoteI := GenModfile.unquoteI
def laxSubI (s : Bytes) : List Bytes := match ModVerif.Modfile.laxGoVersionRE s with | some m => [s, m] | none => []
def deprecatedSubI (s : Bytes) : List Bytes := match ModVerif.Modfile.deprecatedRE s with | some m => [s, m] | none => []

def fixG (fx : Option ModVerif.Modfile.Fixer) : Option (Bytes → Bytes → (Bytes × Option String)) :=
  fx.map fun g => fun p v => match g p v with
    | .ok r => (r, none)
    | .error .plain => ([], some "fix-plain")
    | .error .moduleError => ([], some "ModuleError|fix-mod")

/-- the kind name `modfile.parse` prints for an inner error of the regenerated code -/
def kindOf (inner : String) : String :=
  let has (p : String) : Bool := (inner.splitOn p).length > 1
  if inner.startsWith "syn:" then "syn-" ++ (inner.drop 4).toString
  else if inner.startsWith "unknown block type" then "unknown-block"
  else if inner.startsWith "unknown directive" then "unknown-directive"
  else if inner == "repeated go statement" then "repeated-go"
  else if inner == "go directive expects exactly one argument" then "go-args"
  else if inner.startsWith "invalid go version" then "invalid-go-version"
  else if inner == "repeated toolchain statement" then "repeated-toolchain"
  else if inner == "toolchain directive expects exactly one argument" then "toolchain-args"
  else if inner.startsWith "invalid toolchain version" then "invalid-toolchain"
  else if inner == "repeated module statement" then "repeated-module"
  else if inner == "usage: module module/path" then "module-usage"
  else if inner.startsWith "invalid quoted string" then "invalid-quoted-string"
  else if inner == "usage: godebug key=value" then "godebug-usage"
  else if inner == "usage: %s module/path v1.2.3" then "require-usage"
  else if inner.startsWith "Error|InvalidVersionError|must be of the form" then "version-not-canonical"
  else if inner.startsWith "Error|InvalidVersionError|" then "version-string"
  else if inner == "fix-plain" then "fix-error"
  else if inner == "Error|fix-mod" then "fix-module-error"
  else if inner == "invalid module path" then "invalid-module-path"
  else if has "should be %s, not %s" then "path-major-mismatch"
  else if inner.startsWith "usage: %s module/path [v1.2.3]" then "replace-usage"
  else if inner.startsWith "replacement module must match format" then "replace-at-version"
  else if inner.startsWith "replacement module without version" then "replace-needs-dir"
  else if inner.startsWith "replacement directory appears to be Windows" then "replace-windows-path"
  else if inner.startsWith "replacement module directory path" then "replace-dir-with-version"
  else if inner == "expected '[' or version" then "interval-start"
  else if inner == "expected version after '['" then "interval-after-lbracket"
  else if inner == "expected ',' after version" then "interval-comma"
  else if inner == "expected version after ','" then "interval-after-comma"
  else if inner == "expected ']' after version" then "interval-rbracket"
  else if inner.startsWith "unexpected token after version" then "token-after-version"
  else if inner == "tool directive expects exactly one argument" then "tool-args"
  else if inner == "usage: %s local/dir" then "use-usage"
  else if inner.startsWith "no module directive found" then "retract-no-module"
  else "?" ++ inner

def showErr (e : String) : String :=
  let ents := e.splitOn (String.singleton (Char.ofNat 1))
  "err " ++ ";".intercalate (ents.map fun ent =>
    match ent.splitOn "," with
    | l :: c :: b :: rest => s!"{l}.{c}.{b}:{kindOf (",".intercalate rest)}"
    | _ => "?" ++ ent)

def fuelOf (d : Bytes) : Nat := 8 * d.length + 4096

def handle : Handler
  | "parse", [fx, d] => do
    let fx ← Modfile.fixOf fx
    let d ← hx d
    pure (match parseToFile deprecatedSubI ModVerif.Modfile.goVersionRE isPrintI laxSubI parseSynI Quote.quote ModVerif.Modfile.toolchainRE unquoteI
                 (fuelOf d) Modfile.fileName d (fixG fx) true default with
      | .error e => e.toString
      | .ok ((_, some e), _) => showErr e
      | .ok ((fp, none), h) => match fileM (idsOf Modfile.fileName d) h fp with
        | some f => Modfile.showTypedFile f
        | none => "bad-heap")
  | "parselax", [fx, d] => do
    let fx ← Modfile.fixOf fx
    let d ← hx d
    pure (match parseToFile deprecatedSubI ModVerif.Modfile.goVersionRE isPrintI laxSubI parseSynI Quote.quote ModVerif.Modfile.toolchainRE unquoteI
                 (fuelOf d) Modfile.fileName d (fixG fx) false default with
      | .error e => e.toString
      | .ok ((_, some e), _) => showErr e
      | .ok ((fp, none), h) => match fileM (idsOf Modfile.fileName d) h fp with
        | some f => Modfile.showTypedFile f
        | none => "bad-heap")
  | "parsework", [fx, d] => do
    let fx ← Modfile.fixOf fx
    let d ← hx d
    pure (match ParseWork ModVerif.Modfile.goVersionRE isPrintI parseSynI Quote.quote ModVerif.Modfile.toolchainRE unquoteI
                 (fuelOf d) Modfile.fileName d (fixG fx) default with
      | .error e => e.toString
      | .ok ((_, some e), _) => showErr e
      | .ok ((fp, none), h) => match workM (idsOf Modfile.fileName d) h fp with
        | some f => Modfile.showWorkFile f
        | none => "bad-heap")
  | _, _ => none

end ModVerif.Drv.GenRule
