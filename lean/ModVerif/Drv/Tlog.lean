import ModVerif.Drv.Util
import ModVerif.Drv.TlogUtil
import ModVerif.Model.Tlog
import ModVerif.Model.TlogNote
import ModVerif.Spec.RFC6962
namespace ModVerif.Drv.Tlog
open ModVerif ModVerif.Drv ModVerif.Drv.TlogUtil ModVerif.Tlog ModVerif.TlogNote

def store (recs : List Bytes) : Except Err (List Bytes) := buildStore leafH nodeH recs

def withStore (recs : List Bytes) (f : List Bytes → Except Err (List Bytes)) : String :=
  showHashes (store recs >>= f)

/-- `count` level hashes of a log of identical records: `h`, `node h h`, … (a complete subtree's hash depends
    only on its level) -/
def uniformLevels (h : Bytes) : Nat → List Bytes
  | 0 => []
  | k + 1 => h :: uniformLevels (nodeH h h) k

/-- the synthetic hash reader of an unbounded log of identical records `r` (C03 uniform-log class: the provers
    at tree sizes up to 2^62+1): the stored hash at an index is the level hash of the index's level -/
def uniformReader (r : Bytes) : HashReader Bytes := fun idxs =>
  let lvl := uniformLevels (leafH r) 64
  idxs.mapM fun i =>
    match splitStoredHashIndex i with
    | .ok (l, _) => lvl[l]?
    | .error _ => none

def handle : Handler
  | "sha256", [a] => do let a ← hx a; pure (xh (Sha256.sha256 a))
  | "recordhash", [a] => do let a ← hx a; pure (xh (leafH a))
  | "nodehash", [a, b] => do let a ← hx a; let b ← hx b; pure (xh (nodeH a b))
  | "maxpow2", [n] => do let n ← n.toNat?; let (k, l) := maxpow2 n; pure s!"{k} {l}"
  | "storedhashindex", [l, n] => do let l ← l.toNat?; let n ← n.toNat?; pure (toString (storedHashIndex l n))
  | "splitstoredhashindex", [i] => do
    let i ← i.toNat?
    match splitStoredHashIndex i with
    | .ok (l, n) => pure s!"{l} {n}"
    | .error e => pure (showErr e)
  | "storedhashcount", [n] => do let n ← n.toNat?; pure (toString (storedHashCount n))
  | "storedhashes", [r] => do let r ← records r; pure (withStore r pure)
  | "treehash", [m, r] => do
    let m ← m.toNat?; let r ← records r
    pure (match store r >>= fun st => treeHash nodeH emptyH m (storeReader st) with
      | .ok h => xh h
      | .error e => showErr e)
  | "proverecord", [t, n, r] => do
    let t ← int? t; let n ← int? n; let r ← records r
    pure (withStore r fun st => proveRecord nodeH t n (storeReader st))
  | "provetree", [t, n, r] => do
    let t ← int? t; let n ← int? n; let r ← records r
    pure (withStore r fun st => proveTree nodeH t n (storeReader st))
  | "uproverecord", [t, n, r] => do
    let t ← int? t; let n ← int? n; let r ← hx r
    pure (showHashes (proveRecord nodeH t n (uniformReader r)))
  | "uprovetree", [t, n, r] => do
    let t ← int? t; let n ← int? n; let r ← hx r
    pure (showHashes (proveTree nodeH t n (uniformReader r)))
  | "checkrecord", [p, t, th, n, h] => do
    let p ← hxList p; let t ← int? t; let th ← hx th; let n ← int? n; let h ← hx h
    pure (showUnit (checkRecord nodeH p t th n h))
  | "checktree", [p, t, th, n, h] => do
    let p ← hxList p; let t ← int? t; let th ← hx th; let n ← int? n; let h ← hx h
    pure (showUnit (checkTree nodeH p t th n h))
  | "formattree", [n, h] => do let n ← int? n; let h ← hx h; pure (xh (formatTree { n := n, hash := h }))
  | "parsetree", [t] => do
    let t ← hx t
    pure (match parseTree t with
      | some tr => s!"{tr.n} {xh tr.hash}"
      | none => "err")
  | "formatrecord", [id, t] => do
    let id ← int? id; let t ← hx t
    pure (match formatRecord id t with
      | some m => xh m
      | none => "err")
  | "parserecord", [m] => do
    let m ← hx m
    pure (match parseRecord m with
      | some (id, text, rest) => s!"{id} {xh text} {xh rest}"
      | none => "err")
  | "parsehash", [s] => do
    let s ← hx s
    pure (match parseHash s with
      | some h => xh h
      | none => "err")
  | "hashstring", [h] => do let h ← hx h; pure (xh (hashString h))
  | "marshaljson", [h] => do let h ← hx h; pure (xh (marshalJSON h))
  | "unmarshaljson", [s] => do
    let s ← hx s
    pure (match unmarshalJSON s with
      | some h => xh h
      | none => "err")
  -- the independent specification (Spec/RFC6962.lean), validated against the harness's own RFC code and the real package
  | "specmth", [r] => do let r ← records r; pure (xh (RFC6962.mth nodeH emptyH (r.map leafH)))
  | "specpath", [m, r] => do let m ← m.toNat?; let r ← records r; pure (xhList (RFC6962.path nodeH emptyH m (r.map leafH)))
  | "specproof", [m, r] => do let m ← m.toNat?; let r ← records r; pure (xhList (RFC6962.proof nodeH emptyH m (r.map leafH)))
  | "specincl", [p, t, th, n, h] => do
    let p ← hxList p; let t ← int? t; let th ← hx th; let n ← int? n; let h ← hx h
    pure (showBool (if t < 0 || n < 0 then false else RFC6962.verifyInclusion nodeH p t.toNat n.toNat h th))
  | "speccons", [p, t, th, n, h] => do
    let p ← hxList p; let t ← int? t; let th ← hx th; let n ← int? n; let h ← hx h
    pure (showBool (if t < 1 || n < 1 || n > t then false
      else if n == t then p.isEmpty && th == h
      else RFC6962.verifyConsistency nodeH p n.toNat t.toNat h th))
  | "specaccincl", [p, t, th, n, h] => do
    let p ← hxList p; let t ← int? t; let th ← hx th; let n ← int? n; let h ← hx h
    pure (showBool (if t < 0 || n < 0 then false else decide (RFC6962.AcceptIncl nodeH p t.toNat n.toNat h th)))
  | "specacccons", [p, t, th, n, h] => do
    let p ← hxList p; let t ← int? t; let th ← hx th; let n ← int? n; let h ← hx h
    pure (showBool (if t < 0 || n < 0 then false else decide (RFC6962.AcceptCons nodeH p t.toNat n.toNat h th)))
  | "speclayout", [n] => do
    let n ← n.toNat?
    let l := RFC6962.layout n
    pure (if l.isEmpty then "_" else ",".intercalate (l.map fun (a, b) => s!"{a}.{b}"))
  | _, _ => none

end ModVerif.Drv.Tlog
