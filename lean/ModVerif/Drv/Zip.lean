/-
  Line-protocol driver for the zip model (prefix `zip.`).  Decode, call the model, encode.
  File token:   <path>:<mode r|d|s|i|e>:<size>:<content>:<g 0|1>     (hex path; content hex or z<N> = N zero bytes)
  Entry token:  <name>:<declared size>:<content>[:<header mode letter>]
  The executable environment plugs module.CheckFilePath / module.Check / CanonicalVersion from the
  module and semver models and `strToFold` over the committed fold table.
-/
import ModVerif.Drv.Util
import ModVerif.Model.Zip
import ModVerif.Model.Module
import ModVerif.Basic.UnicodeLetter
namespace ModVerif.Drv.Zip
open ModVerif ModVerif.Drv ModVerif.Zip

def realEnv : Env where
  cfp p := match Module.checkFilePath UnicodeLetter.isLetter p with
    | .ok _ => true
    | .error _ => false
  toFold := strToFold
  modOK p v := Semver.canonicalVersion v == v &&
    (match Module.check p v with
     | .ok _ => true
     | .error _ => false)

/-- contents on the line: hex, or `z<N>` for N zero bytes (so that contents of 16 MiB stay short). -/
def hxC (s : String) : Option Bytes :=
  if s.startsWith "z" then (s.drop 1).toNat?.map (fun n => List.replicate n 0) else hx s

def xhC (c : Bytes) : String :=
  if c.length ≥ 4096 && c.all (· == 0) then "z" ++ toString c.length else xh c

def parseMode : String → Option Mode
  | "r" => some .regular
  | "d" => some .dir
  | "s" => some .symlink
  | "i" => some .irregular
  | "e" => some .lstatErr
  | _ => none

def parseFile (tok : String) : Option FileInfo :=
  match tok.splitOn ":" with
  | [p, m, sz, c, g] => do
    let p ← hx p
    let m ← parseMode m
    let sz ← sz.toInt?
    let c ← hxC c
    let g ← (if g == "1" then some true else if g == "0" then some false else none)
    pure ⟨p, m, sz, c, g⟩
  | _ => none

def parseFiles (s : String) : Option (List FileInfo) :=
  if s == "_" then some [] else (s.splitOn ",").mapM parseFile

def parseEntry (tok : String) : Option Entry :=
  match tok.splitOn ":" with
  | [n, sz, c] => do
    let n ← hx n
    let sz ← sz.toNat?
    let c ← hxC c
    pure ⟨n, sz, c⟩
  -- optional 4th field: mode bits of the header.  zip.go never looks at them (a directory entry is a
  -- name with a trailing slash), so the model's `Entry` has no such field and the token is dropped.
  | [n, sz, c, _mode] => do
    let n ← hx n
    let sz ← sz.toNat?
    let c ← hxC c
    pure ⟨n, sz, c⟩
  | _ => none

def parseEntries (s : String) : Option (List Entry) :=
  if s == "_" then some [] else (s.splitOn ",").mapM parseEntry

def nodeOfFile (f : FileInfo) : Bytes × Node :=
  (f.path, if f.mode == .dir then .dir [] else .file f.mode f.size f.content f.goGe124)

def parseTarget : String → Option Target
  | "m" => some .missing
  | "e" => some .emptyDir
  | "n" => some .nonEmptyDir
  | "f" => some .notDir
  | _ => none

/-- Target shapes of the op `unzipat`: the first letter says how the directory argument reaches what it denotes
    (d plain path, t trailing slash, l/a/c symbolic link as final element - relative, absolute, chain -, s link
    followed by a slash, p below a symlinked parent), the second letter is the state of what it denotes (a third
    letter, what a non-empty directory holds, does not matter to the model). `none` for the shapes the model has
    no state for: a dangling link and `file/`. -/
def parseShape (s : String) : Option Target :=
  match s.toList with
  | via :: st :: _ =>
    if st == 'e' then some .emptyDir
    else if st == 'n' then some .nonEmptyDir
    else if st == 'm' && (via == 'd' || via == 't' || via == 'p') then some .missing
    else if st == 'f' && (via == 'd' || via == 'l' || via == 'a' || via == 'c' || via == 'p') then some .notDir
    else none
  | _ => none

def reasonStr : Reason → String
  | .notClean => "notclean" | .notRelative => "notrelative" | .vendored => "vendored"
  | .submoduleFile => "submodulefile" | .hgArchival => "hgarchival" | .filePath => "filepath"
  | .goModCase => "gomodcase" | .lstat => "lstat" | .caseCollision => "casecollision"
  | .fileAndDir => "fileanddir" | .multiple => "multiple" | .symlink => "symlink"
  | .notRegular => "notregular" | .goModSize => "gomodsize" | .licenseSize => "licensesize"
  | .vcs => "vcs" | .submoduleDir => "submoduledir" | .noPrefix => "noprefix"
  | .goModNotRoot => "gomodnotroot" | .panic => "panic"

def showErrs (l : List (Bytes × Reason)) : String :=
  if l.isEmpty then "_" else ",".intercalate (l.map fun e => xh e.1 ++ ":" ++ reasonStr e.2)

def showCf (cf : CheckedFiles) : String :=
  let e := match cf.err with
    | none => "none"
    | some .size => "size"
    | some .invalid => "invalid"
  s!"valid={xhList cf.valid} omitted={showErrs cf.omitted} invalid={showErrs cf.invalid} sizeerr={showBool cf.sizeError} err={e}"

def createErrStr : CreateErr → String
  | .badModule => "err:badmodule" | .size => "err:size" | .invalid => "err:invalid"
  | .contentLarger => "err:contentlarger" | .nameTooLong => "err:nametoolong"

def showEntries (es : List Entry) : String :=
  if es.isEmpty then "_" else ",".intercalate (es.map fun e => xh e.name ++ "=" ++ xhC e.content)

def showCreate : Except CreateErr (List Entry) → String
  | .ok es => "ok " ++ showEntries es
  | .error e => createErrStr e

def unzipErrStr : Option UnzipErr → String
  | none => "ok"
  | some .notEmpty => "err:notempty" | some .badModule => "err:badmodule" | some .size => "err:size"
  | some .invalid => "err:invalid" | some .mkdir => "err:mkdir" | some .exists => "err:exists"
  | some .contentSize => "err:contentsize"

/-- driver's abstract target directory -/
def tdir : Bytes := [116]

/-- path relative to the target directory (`.` for the target itself); anything else is printed
    with a `!` so that an escape shows up as a disagreement. -/
def relTo (p : Bytes) : String :=
  if p == tdir then "." else
  if isPrefixOfB (tdir ++ [47]) p then xh (p.drop 2) else "!" ++ xh p

def sortStrs (l : List String) : List String := (l.mergeSort (fun a b => a ≤ b)).eraseDups

def showStrs (l : List String) : String := if l.isEmpty then "_" else ",".intercalate l

def showUnzip (t : Target) (r : UnzipResult) : String :=
  let files := sortStrs ((createdFiles r.effects).map relTo)
  let dirs := sortStrs (((createdDirs r.effects).filter (fun d => d != tdir || t == .missing)).map relTo)
  s!"{unzipErrStr r.err} files={showStrs files} dirs={showStrs dirs}"

def handle : Handler
  | "pathclean", [a] => do let a ← hx a; pure (xh (PathClean.pathClean a))
  | "pathdir", [a] => do let a ← hx a; pure (xh (PathClean.pathDir a))
  | "pathbase", [a] => do let a ← hx a; pure (xh (PathClean.pathBase a))
  | "strtofold", [a] => do let a ← hx a; pure (xh (strToFold a))
  | "isvendoredpackage", [a, g] => do
    let a ← hx a; let g ← parseBool g; pure (showBool (isVendoredPackage a g))
  | "checkfiles", [fs] => do let fs ← parseFiles fs; pure (showCf (checkFilesV realEnv fs))
  | "checkdir", [g, fs] => do
    let g ← parseBool g; let fs ← parseFiles fs
    pure (showCf (checkDir realEnv g (treeOfList (fs.map nodeOfFile))))
  | "create", [m, v, fs] => do
    let m ← hx m; let v ← hx v; let fs ← parseFiles fs
    pure (showCreate (create realEnv m v fs))
  | "createfromdir", [m, v, g, fs] => do
    let m ← hx m; let v ← hx v; let g ← parseBool g; let fs ← parseFiles fs
    pure (showCreate (createFromDir realEnv m v g (treeOfList (fs.map nodeOfFile))))
  | "checkzip", [m, v, zs, es] => do
    let m ← hx m; let v ← hx v; let zs ← zs.toNat?; let es ← parseEntries es
    match checkZip realEnv m v zs es with
    | .error _ => pure "err:badmodule"
    | .ok cf => pure (showCf cf)
  | "unzip", [m, v, zs, t, es] => do
    let m ← hx m; let v ← hx v; let zs ← zs.toNat?; let t ← parseTarget t; let es ← parseEntries es
    pure (showUnzip t (unzip realEnv tdir t m v zs es))
  | "unzipat", [m, v, zs, sh, es] => do
    let m ← hx m; let v ← hx v; let zs ← zs.toNat?; let t ← parseShape sh; let es ← parseEntries es
    pure (showUnzip t (unzip realEnv tdir t m v zs es))
  | _, _ => none

end ModVerif.Drv.Zip
