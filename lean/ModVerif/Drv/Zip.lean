import ModVerif.Drv.Util
namespace ModVerif.Drv.Zip
open ModVerif ModVerif.Drv

/-- stub: no ops modelled yet -/
def handle : Handler
  | _, _ => none

end ModVerif.Drv.Zip
