/-
  Line-protocol ops of the zip model for directory entry points called with a SPELLED directory argument
  (`zip.checkdirsp <spelling> <g> <files>`, `zip.createfromdirsp <spelling> <m> <v> <g> <files>`).
  The spelling token names how the Go side writes the path of the same directory on disk (clean, trailing
  separator, `.` / `..` element, doubled separator, relative with or without a leading `./`).  In the model the
  directory is a tree value: CheckDir / CreateFromDir are functions of the tree alone, so every spelling gives
  the answer of `zip.checkdir` / `zip.createfromdir`.  No logic: check the token, forward to `Zip.handle`.
  (A module of its own so that `Drv/Zip.lean`, which proof modules import, is left untouched.)
-/
import ModVerif.Drv.Zip
namespace ModVerif.Drv.ZipSpell
open ModVerif.Drv

/-- the spellings the Go side (`c17Spellings` in harness/cmd/corr/c17.go) knows -/
def spellings : List String :=
  ["clean", "trail", "trail2", "dotend", "dotmid", "dotdot", "subup", "dbl", "rel", "reltrail", "dotrel", "dotreltrail"]

def handle : Handler
  | "checkdirsp", [k, g, fs] => if spellings.contains k then Zip.handle "checkdir" [g, fs] else none
  | "createfromdirsp", [k, m, v, g, fs] =>
    if spellings.contains k then Zip.handle "createfromdir" [m, v, g, fs] else none
  | _, _ => none

end ModVerif.Drv.ZipSpell
