/-
  Generic line-protocol main loop.  Reads one operation per line on stdin, prints one result line
  per operation.  No logic here: dispatch on the prefix to the given handlers.
-/
import ModVerif.Drv.Util
namespace ModVerif.Drv

def dispatch (handlers : List (String × Handler)) (line : String) : String :=
  let toks := (line.trimAscii.toString.splitOn " ").filter (· ≠ "")
  match toks with
  | [] => "bad-op"
  | head :: args =>
    match head.splitOn "." with
    | [pfx, op] =>
      match handlers.lookup pfx with
      | some h => (h op args).getD "bad-op"
      | none => "bad-op"
    | _ => "bad-op"

partial def loop (handlers : List (String × Handler)) (hin hout : IO.FS.Stream) : IO Unit := do
  let line ← hin.getLine
  if line.isEmpty then return ()
  hout.putStrLn (dispatch handlers line)
  loop handlers hin hout

def runMain (handlers : List (String × Handler)) : IO Unit := do
  let hin ← IO.getStdin
  let hout ← IO.getStdout
  loop handlers hin hout
  hout.flush

end ModVerif.Drv
