import ModVerif.Drv.Util
import ModVerif.Basic.FoldTable
import ModVerif.Generated.FnZip
/-! Handlers that run the code REGENERATED from zip/zip.go (Generated/FnZip.lean: isVendoredPackage, strToFold,
    collisionChecker.check) on the ops of the hand model. -/
namespace ModVerif.Drv.GenZip
open ModVerif ModVerif.Drv ModVerif.GoRt
open ModVerif.Generated.Zip

/-- stands for unicode.SimpleFold inside strToFold's loop: jumping straight to the orbit minimum ends the loop with the same rune -/
def simpleFoldI (r : Int) : Int := Int.ofNat (FoldTable.foldMin r.toNat)
def versionCompareI (a _b : Bytes) : Int := if a == B "go1.24" then 0 else -1

def handle : Handler
  | "strtofold", [a] => do
    let a ← hx a
    pure (match strToFold simpleFoldI (2 * a.length + 8) a with | .ok b => xh b | .error e => e.toString)
  | "isvendoredpackage", [a, g] => do
    let a ← hx a
    let vers := if g == "true" then B "go1.24" else B "go1.23"
    pure (match isVendoredPackage versionCompareI a vers with | .ok b => showBool b | .error e => e.toString)
  | "cccheck", [ps] => do
    -- a list of `path:d|f` entries checked in order against an initially empty collision table
    let items ← (if ps == "_" then some [] else (ps.splitOn ",").mapM fun it =>
      match it.splitOn ":" with
      | [p, k] => do let p ← hx p; pure (p, k == "d")
      | _ => none)
    let rec go (cc : List (Bytes × pathInfo)) : List (Bytes × Bool) → List String → List String
      | [], acc => acc.reverse
      | (p, d) :: rest, acc =>
        match collisionChecker_check simpleFoldI (4 * p.length + 16) cc p d with
        | .ok (none, cc') => go cc' rest ("ok" :: acc)
        | .ok (some e, cc') => go cc' rest ((e.takeWhile (· != ' ')).toString :: acc)
        | .error e => go cc rest (e.toString :: acc)
    pure (",".intercalate (go [] items []))
  | _, _ => none

end ModVerif.Drv.GenZip
