import ModVerif.Drv.Util
import ModVerif.Basic.FoldTable
import ModVerif.Generated.FnZip
import ModVerif.Model.Zip
/-! Handlers that run the code REGENERATED from zip/zip.go (Generated/FnZip.lean: isVendoredPackage, strToFold,
    collisionChecker.check) on the ops of the hand model. -/
namespace ModVerif.Drv.GenZip
open ModVerif ModVerif.Drv ModVerif.GoRt
open ModVerif.Generated.Zip

/-- stands for unicode.SimpleFold inside strToFold's loop: jumping straight to the orbit minimum ends the loop with the same rune -/
def simpleFoldI (r : Int) : Int := Int.ofNat (FoldTable.foldMin r.toNat)
def versionCompareI (a _b : Bytes) : Int := if a == B "go1.24" then 0 else -1

def handle : Handler
  | "strtofold", [a] => do
    let a ← hx a
    pure (match strToFold simpleFoldI (2 * a.length + 8) a with | .ok b => xh b | .error e => e.toString)
  | "isvendoredpackage", [a, g] => do
    let a ← hx a
    let vers := if g == "true" then B "go1.24" else B "go1.23"
    pure (match isVendoredPackage versionCompareI a vers with | .ok b => showBool b | .error e => e.toString)
  | "cccheck", [ps] => do
    -- a list of `path:d|f` entries checked in order against an initially empty collision table
    let items ← (if ps == "_" then some [] else (ps.splitOn ",").mapM fun it =>
      match it.splitOn ":" with
      | [p, k] => do let p ← hx p; pure (p, k == "d")
      | _ => none)
    let rec go (cc : List (Bytes × pathInfo)) : List (Bytes × Bool) → List String → List String
      | [], acc => acc.reverse
      | (p, d) :: rest, acc =>
        match collisionChecker_check simpleFoldI (4 * p.length + 16) cc p d with
        | .ok (none, cc') => go cc' rest ("ok" :: acc)
        | .ok (some e, cc') => go cc' rest ((e.takeWhile (· != ' ')).toString :: acc)
        | .error e => go cc rest (e.toString :: acc)
    pure (",".intercalate (go [] items []))
  | _, _ => none

end ModVerif.Drv.GenZip

/-! checkFiles regenerated whole (closures addError / inSubmodule hoisted) -/
namespace ModVerif.Drv.GenZip
open ModVerif ModVerif.Drv ModVerif.GoRt
open ModVerif.Generated.Zip

def modeBits : ModVerif.Zip.Mode → Int
  | .regular => 0 | .dir => 2147483648 | .symlink => 134217728 | .irregular => 33554432 | .lstatErr => 0

def toGFile (f : ModVerif.Zip.FileInfo) : File :=
  { Path := f.path,
    Lstat := if f.mode == .lstatErr then (default, some "lstat") else ({ Mode := modeBits f.mode, IsDir := f.mode == .dir, Size := f.size }, none),
    Open := (f.content, none) }

def reasonOf (e : String) : String :=
  match e with
  | "errPathNotClean" => "notclean" | "errPathNotRelative" => "notrelative" | "errVendored" => "vendored"
  | "errSubmoduleFile" => "submodulefile" | "errHgArchivalTxt" => "hgarchival" | "filepath" => "filepath"
  | "errGoModCase" => "gomodcase" | "lstat" => "lstat"
  | "case-insensitive file name collision: %q and %q" => "casecollision"
  | "entry %q is both a file and a directory" => "fileanddir"
  | "multiple entries for file %q" => "multiple"
  | "errSymlink" => "symlink" | "errNotRegular" => "notregular" | "errGoModSize" => "gomodsize" | "errLICENSESize" => "licensesize"
  | _ => "unknown:" ++ e

def showErrsG (l : List FileError) : String :=
  if l.isEmpty then "_" else ",".intercalate (l.map fun e => xh e.Path ++ ":" ++ reasonOf (e.Err.getD ""))

def showCfG (cf : CheckedFiles) : String :=
  let e := if cf.SizeError.isSome then "size" else if !cf.Invalid.isEmpty then "invalid" else "none"
  s!"valid={xhList cf.Valid} omitted={showErrsG cf.Omitted} invalid={showErrsG cf.Invalid} sizeerr={showBool cf.SizeError.isSome} err={e}"

def handleCf (parseFiles : String → Option (List ModVerif.Zip.FileInfo)) (cfp : Bytes → Bool) (equalFold : Bytes → Bytes → Bool) : Handler
  | "checkfiles", [fs] => do
    let fs ← parseFiles fs
    let total := (fs.map fun f => f.path.length).sum
    let fuel := 8 * total + 4 * fs.length + 64
    let pgv : Bytes → Bytes → Bytes := fun _ data => if fs.any (fun f => f.content == data && f.goGe124) then B "go1.24" else B "go1.0"
    pure (match checkFiles (fun p => if cfp p then none else some "filepath") equalFold pgv simpleFoldI (fun s => s.map ModVerif.Zip.asciiLower)
                 versionCompareI id fuel (fs.map toGFile) with
      | .ok (cf, _, _) => showCfG cf
      | .error e => e.toString)
  | _, _ => none

end ModVerif.Drv.GenZip
