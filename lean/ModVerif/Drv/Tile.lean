import ModVerif.Drv.Util
import ModVerif.Drv.TlogUtil
import ModVerif.Model.Tlog
import ModVerif.Model.Tile
namespace ModVerif.Drv.Tile
open ModVerif ModVerif.Drv ModVerif.Drv.TlogUtil ModVerif.Tlog ModVerif.Tile

/-- tile token `H/L/N/W`, `L = -1` for a data tile -/
def tile? (s : String) : Option Tile :=
  match s.splitOn "/" with
  | [h, l, n, w] => do
    let h ← h.toNat?; let n ← n.toNat?; let w ← w.toNat?
    if l == "-1" then pure { h := h, l := 0, n := n, w := w, data := true }
    else do let l ← l.toNat?; pure { h := h, l := l, n := n, w := w }
  | _ => none

def showTile (t : Tile) : String :=
  let l := if t.data then "-1" else toString t.l
  s!"{t.h}/{l}/{t.n}/{t.w}"

def showTiles (l : List Tile) : String :=
  if l.isEmpty then "_" else ",".intercalate (l.map showTile)

/-! the adversarial tile server of `readhashes` (environment, not model): faults are
    `L:N:kind:a:b` applied, in order, to the true data of every requested tile with that (L, N). -/

structure Fault where
  l : Nat
  n : Nat
  kind : String
  a : Nat
  b : Nat

def fault? (s : String) : Option Fault :=
  match s.splitOn ":" with
  | [l, n, k, a, b] => do
    let l ← l.toNat?; let n ← n.toNat?; let a ← a.toNat?; let b ← b.toNat?
    pure ⟨l, n, k, a, b⟩
  | _ => none

def faults? (s : String) : Option (List Fault) :=
  if s == "_" then some [] else (s.splitOn ",").mapM fault?

def flipBit (h : Bytes) (bit : Nat) : Bytes :=
  h.mapIdx fun i c => if i == bit / 8 then c ^^^ (UInt8.ofNat (1 <<< (bit % 8))) else c

/-- Flat bytes of a served tile as the list of "hashes" the hand model sees, for a tile of nominal width `w`: the
    whole 32-byte chunks, then the ragged tail if there is one, and one empty element more if that list happened to
    have `w` elements. So `flatten (ofRaw w b) = b` (the regenerated code, which works on flat bytes, sees exactly `b`)
    and `(ofRaw w b).length = w ↔ b.length = w * 32` (the model's `widthsOk` stands for the byte-length check). -/
def ofRaw (w : Nat) (b : Bytes) : List Bytes :=
  let q := b.length / 32
  let full := (List.range q).map fun i => (b.drop (32 * i)).take 32
  if b.length % 32 == 0 then full
  else
    let l := full ++ [b.drop (32 * q)]
    if l.length == w then l ++ [[]] else l

def applyFaultWith (tt : Tile → Option (List Bytes)) (t : Tile) (d : Option (List Bytes)) (f : Fault) : Option (List Bytes) :=
  match d with
  | none => none
  | some d =>
    match f.kind with
    | "flip" => some (d.mapIdx fun i x => if i == f.a then flipBit x f.b else x)
    | "swap" =>
      match d[f.a]?, d[f.b]? with
      | some x, some y => some ((d.set f.a y).set f.b x)
      | _, _ => some d
    | "dup" =>
      match d[f.a]?, d[f.b]? with
      | some x, some _ => some (d.set f.b x)
      | _, _ => some d
    | "trunc" => some (d.take (d.length - f.a))
    | "ext" =>
      match d with
      | [] => some d
      | x :: _ => some (d ++ List.replicate f.a x)
    -- ragged length (bytes, not whole hashes); the generator puts these after the whole-hash kinds
    | "extb" => some (ofRaw t.w (d.flatten ++ (List.range f.a).map fun i => UInt8.ofNat (f.b + i)))
    | "truncb" => some (ofRaw t.w (d.flatten.take (d.flatten.length - f.a)))
    | "repl" => tt { t with l := f.a, n := f.b }
    | "miss" => none
    | _ => some d

/-- the tile server over the true-tile function `tt` of a log -/
def serveWith (tt : Tile → Option (List Bytes)) (fs : List Fault) (t : Tile) : Option (List Bytes) :=
  (fs.filter fun f => f.l == t.l && f.n == t.n).foldl (applyFaultWith tt t) (tt t)

def serve (store : List Bytes) (fs : List Fault) (t : Tile) : Option (List Bytes) :=
  serveWith (trueTile store) fs t

/-! UNIFORM logs (environment of `readuni`, as harness/cmd/corr/util_c10uni.go): every record is record 0 of the synthetic
    log `seed`, so the stored hash at an index depends on its level only and the true tree hash and tiles of a tree of any
    size are computable without a store. -/

/-- `lv[l]` = hash of a complete subtree of `2^l` equal records, `l < 64` -/
def uniLevels (seed : Nat) : List Bytes :=
  let l0 := leafH (synthRecord seed 0)
  ((List.range 63).foldl (fun (acc : List Bytes × Bytes) _ =>
    let nx := nodeH acc.2 acc.2
    (acc.1 ++ [nx], nx)) ([l0], l0)).1

/-- RFC 6962 tree hash of `n` equal records: the complete subtrees of the binary expansion of `n`, combined from the right -/
def uniTreeHash (lv : List Bytes) (n : Nat) : Bytes :=
  (((List.range 63).filter fun b => n.testBit b).foldl (fun (acc : Option Bytes) b =>
    match acc with
    | none => some (lv.getD b [])
    | some th => some (nodeH (lv.getD b []) th)) none).getD emptyH

/-- the true tile `t` of the uniform log of `n` records, `none` if the log has no such tile -/
def uniTile (lv : List Bytes) (n : Nat) (t : Tile) : Option (List Bytes) :=
  if !t.data && 1 ≤ t.h && t.h ≤ 30 && t.l ≤ 62 && t.h * t.l ≤ 62 && 1 ≤ t.w && t.w ≤ 2 ^ t.h
      && (t.n <<< t.h) + t.w ≤ n >>> (t.h * t.l) then
    some (List.replicate t.w (lv.getD (t.h * t.l) []))
  else none

def digest (d : List Bytes) : String := (Sha256.sum256Hex d.flatten).take 16 |>.toString

def showSaved : Option (List (Tile × List Bytes)) → String
  | none => "none"
  | some l => if l.isEmpty then "_" else ",".intercalate (l.map fun (t, d) => showTile t ++ "=" ++ digest d)

/-- the calls of a `readseq` history: `idx faults` token pairs -/
def calls? : List String → Option (List (List Nat × List Fault))
  | [] => some []
  | [_] => none
  | idx :: fs :: rest => do
    let idx ← natList idx; let fs ← faults? fs; let r ← calls? rest
    pure ((idx, fs) :: r)

def handle : Handler
  | "tileforindex", [h, i] => do
    let h ← h.toNat?; let i ← i.toNat?
    pure (match tileForIndexPub h i with
      | .ok t => showTile t
      | .error e => showErr e)
  | "newtiles", [h, o, n] => do
    let h ← h.toNat?; let o ← o.toNat?; let n ← n.toNat?
    pure (match newTiles h o n with
      | .ok l => showTiles l
      | .error e => showErr e)
  | "tilepath", [t] => do let t ← tile? t; pure (xh (tilePath t))
  | "parsetilepath", [p] => do
    let p ← hx p
    pure (match parseTilePath p with
      | some t => showTile t
      | none => "err")
  | "hashfromtile", [t, d, i] => do
    let t ← tile? t; let d ← hxList d; let i ← i.toNat?
    pure (match hashFromTile nodeH t d i with
      | .ok h => xh h
      | .error e => showErr e)
  | "readtiledata", [t, r] => do
    let t ← tile? t; let r ← records r
    pure (showHashes (buildStore leafH nodeH r >>= fun st => readTileData t (storeReader st)))
  | "readhashes", [n, h, idx, fs, seed] => do
    let n ← n.toNat?; let h ← h.toNat?; let idx ← natList idx; let fs ← faults? fs; let seed ← seed.toNat?
    let recs := (List.range n).map (synthRecord seed)
    pure (match buildStore leafH nodeH recs with
      | .error e => showErr e
      | .ok st =>
        match treeHash nodeH emptyH n (storeReader st) with
        | .error e => showErr e
        | .ok th =>
          let out := readHashes nodeH n th h idx (serve st fs)
          showHashes out.result ++ " saved=" ++ showSaved out.saved)
  | "readuni", [n, h, idx, fs, seed] => do
    let n ← n.toNat?; let h ← h.toNat?; let idx ← natList idx; let fs ← faults? fs; let seed ← seed.toNat?
    let lv := uniLevels seed
    let out := readHashes nodeH n (uniTreeHash lv n) h idx (serveWith (uniTile lv n) fs)
    pure (showHashes out.result ++ " saved=" ++ showSaved out.saved)
  -- a history of calls through one reader value: the model's reader has no state, so every call is `readHashes`
  -- against the server of that call (the tile server may answer differently from call to call)
  | "readseq", n :: h :: seed :: cs => do
    let n ← n.toNat?; let h ← h.toNat?; let seed ← seed.toNat?; let cs ← calls? cs
    let recs := (List.range n).map (synthRecord seed)
    pure (match buildStore leafH nodeH recs with
      | .error e => showErr e
      | .ok st =>
        match treeHash nodeH emptyH n (storeReader st) with
        | .error e => showErr e
        | .ok th =>
          " | ".intercalate (cs.map fun (idx, fs) =>
            let out := readHashes nodeH n th h idx (serve st fs)
            showHashes out.result ++ " saved=" ++ showSaved out.saved))
  | _, _ => none

end ModVerif.Drv.Tile
