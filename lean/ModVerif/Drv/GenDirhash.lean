import ModVerif.Drv.Util
import ModVerif.Drv.Dirhash
import ModVerif.Basic.Base64
import ModVerif.Generated.FnDirhash
import ModVerif.Model.Zip
/-! `gdirhash.hash1`: the code REGENERATED from sumdb/dirhash/hash.go (Hash1) on the ops of the hand model. -/
namespace ModVerif.Drv.GenDirhash
open ModVerif ModVerif.Drv ModVerif.GoRt
open ModVerif.Generated.Dirhash

def shaSumI (acc pre : Bytes) : Bytes := pre ++ Dirhash.sha acc

def handle : Handler
  | "hash1", [ns, cs] => do
      let ns ← hxList ns; let cs ← hxList cs
      let pairs := ns.zip cs
      let openI : Bytes → (Bytes × Option String) := fun name =>
        match pairs.lookup name with
        | some c => (c, none)
        | none => ([], some "open")
      pure (match Hash1 Base64.encodeStd shaSumI (ns.length + 4) ns openI with
        | .ok (h, none) => xh h
        | .ok (_, some e) => if e == "open" then "err:open" else if e.startsWith "dirhash: filenames with newlines" then "err:newline" else "err:unknown"
        | .error e => e.toString)
  | _, _ => none

end ModVerif.Drv.GenDirhash

/-! `gdirhash.dirfiles…` / `gdirhash.hashdir…`: DirFiles and HashDir REGENERATED from sumdb/dirhash/hash.go, walking the
    directory tree of the op (Basic/GoRtWalk.lean). -/
namespace ModVerif.Drv.GenDirhash
open ModVerif ModVerif.Drv ModVerif.GoRt
open ModVerif.Generated.Dirhash

mutual
def toFs : ModVerif.Zip.Node → FsTree FileInfo
  | .file .. => .file { IsDir := false }
  | .dir cs => .dir { IsDir := true } (toFsList cs)
def toFsList : List (Bytes × ModVerif.Zip.Node) → List (Bytes × FsTree FileInfo)
  | [] => []
  | (n, x) :: rest => (n, toFs x) :: toFsList rest
end

/-- the symbolic scratch directory of the `…at` / `…rel` ops -/
def rootPath : Bytes := B "/S/c19root"

def treeOf : ModVerif.Dirhash.Root → Option (FsTree FileInfo)
  | .missing => none
  | .file => some (.file { IsDir := false })
  | .dir files => some (.dir { IsDir := true }
      (toFsList (ModVerif.Zip.treeOfList (files.map fun f => (f.1, ModVerif.Zip.Node.file .regular (f.2.length : Int) f.2 false)))))

/-- a path as the file system resolves it from the working directory `cwd` -/
def resolve (cwd p : Bytes) : Bytes :=
  if p.head? == some 47 then ModVerif.Dirhash.clean p else ModVerif.Dirhash.joinPath cwd p

def run (files : Bool) (cwd dir : Bytes) (root : ModVerif.Dirhash.Root) (pfx : Bytes) : String :=
  let walkRoot : Bytes → Option (FsTree FileInfo) := fun p => if resolve cwd p == rootPath then treeOf root else none
  let content := match root with | .dir fs => fs | _ => []
  let osOpenRead : Bytes → (Bytes × Option String) := fun p =>
    let a := resolve cwd p
    if isPrefixOfB (rootPath ++ [47]) a then
      match content.lookup (a.drop (rootPath.length + 1)) with
      | some c => (c, none)
      | none => ([], some "open")
    else ([], some "open")
  let total := (content.map fun f => f.1.length).sum
  let fuel := 4 * total + 4 * content.length + 64
  let showE (e : String) : String :=
    if e == "open" then "err:open" else if e.startsWith "dirhash: filenames with newlines" then "err:newline"
    else if e == "%s is not a directory" then "err:notdir" else if e.startsWith "lstat" then "err:walk" else "err:unknown:" ++ e
  if files then
    match DirFiles walkRoot fuel dir pfx with
    | .ok (l, none) => xhList l
    | .ok (_, some e) => showE e
    | .error e => e.toString
  else
    let hash : List Bytes → (Bytes → (Bytes × Option String)) → (Bytes × Option String) := fun fl op =>
      match Hash1 Base64.encodeStd shaSumI (fl.length + 4) fl op with
      | .ok r => r
      | .error e => ([], some ("panic:" ++ e.toString))
    match HashDir osOpenRead walkRoot fuel dir pfx hash with
    | .ok (h, none) => xh h
    | .ok (_, some e) => showE e
    | .error e => e.toString

def handleDir : Handler
  | "dirfiles", [kind, pfx, rels] => do
      let pfx ← hx pfx; let rels ← hxList rels
      let root ← Dirhash.parseRoot kind (rels.map fun r => (r, []))
      pure (run true [47] rootPath root pfx)
  | "hashdir", [kind, pfx, rels, cs] => do
      let pfx ← hx pfx; let rels ← hxList rels; let cs ← hxList cs
      let root ← Dirhash.parseRoot kind (rels.zip cs)
      pure (run false [47] rootPath root pfx)
  | "dirfilesat", [dir, kind, pfx, rels] => do
      let dir ← hx dir; let pfx ← hx pfx; let rels ← hxList rels
      let root ← Dirhash.parseRoot kind (rels.map fun r => (r, []))
      pure (run true [47] dir root pfx)
  | "hashdirat", [dir, kind, pfx, rels, cs] => do
      let dir ← hx dir; let pfx ← hx pfx; let rels ← hxList rels; let cs ← hxList cs
      let root ← Dirhash.parseRoot kind (rels.zip cs)
      pure (run false [47] dir root pfx)
  | "dirfilesrel", [cwd, dir, kind, pfx, rels] => do
      let cwd ← hx cwd; let dir ← hx dir; let pfx ← hx pfx; let rels ← hxList rels
      let root ← Dirhash.parseRoot kind (rels.map fun r => (r, []))
      pure (run true cwd dir root pfx)
  | "hashdirrel", [cwd, dir, kind, pfx, rels, cs] => do
      let cwd ← hx cwd; let dir ← hx dir; let pfx ← hx pfx; let rels ← hxList rels; let cs ← hxList cs
      let root ← Dirhash.parseRoot kind (rels.zip cs)
      pure (run false cwd dir root pfx)
  | _, _ => none

end ModVerif.Drv.GenDirhash
