import ModVerif.Drv.Util
import ModVerif.Drv.Dirhash
import ModVerif.Basic.Base64
import ModVerif.Generated.FnDirhash
/-! `gdirhash.hash1`: the code REGENERATED from sumdb/dirhash/hash.go (Hash1) on the ops of the hand model. -/
namespace ModVerif.Drv.GenDirhash
open ModVerif ModVerif.Drv ModVerif.GoRt
open ModVerif.Generated.Dirhash

def shaSumI (acc pre : Bytes) : Bytes := pre ++ Dirhash.sha acc

def handle : Handler
  | "hash1", [ns, cs] => do
      let ns ← hxList ns; let cs ← hxList cs
      let pairs := ns.zip cs
      let openI : Bytes → (Bytes × Option String) := fun name =>
        match pairs.lookup name with
        | some c => (c, none)
        | none => ([], some "open")
      pure (match Hash1 Base64.encodeStd shaSumI (ns.length + 4) ns openI with
        | .ok (h, none) => xh h
        | .ok (_, some e) => if e == "open" then "err:open" else if e.startsWith "dirhash: filenames with newlines" then "err:newline" else "err:unknown"
        | .error e => e.toString)
  | _, _ => none

end ModVerif.Drv.GenDirhash
