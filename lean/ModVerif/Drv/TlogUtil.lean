/-
  Shared decoding helpers of the tlog/tile driver modules: the concrete SHA-256 hash instance
  (RecordHash / NodeHash / emptyHash exactly as tlog.go computes them) and token decoders.
-/
import ModVerif.Drv.Util
import ModVerif.Basic.Sha256
import ModVerif.Basic.Decimal
import ModVerif.Model.Tlog
namespace ModVerif.Drv.TlogUtil
open ModVerif ModVerif.Drv ModVerif.Tlog

/-- `RecordHash`: SHA256(0x00 ‖ data) -/
def leafH (d : Bytes) : Bytes := Sha256.sha256 (0 :: d)
/-- `NodeHash`: SHA256(0x01 ‖ left ‖ right) -/
def nodeH (a b : Bytes) : Bytes := Sha256.sha256 (1 :: (a ++ b))
/-- `emptyHash`: SHA256("") -/
def emptyH : Bytes := Sha256.sha256 []

/-- every fifth synthetic record is padded to one of these total lengths (as harness/cmd/corr/util_tlog.go) -/
def synthPad : List Nat := [0, 1, 31, 32, 33, 54, 55, 56, 63, 64, 65, 119, 120, 127, 128, 129, 255, 256, 257, 511, 512, 513]

/-- record `i` of the synthetic log `@seed:count` -/
def synthRecord (seed i : Nat) : Bytes :=
  let s := B "rec " ++ Decimal.formatNat seed ++ B " " ++ Decimal.formatNat i ++ [10]
  if i % 5 == 2 then
    let target := synthPad.getD ((seed * 7 + i / 5) % synthPad.length) 0
    s ++ List.replicate (target - s.length) 120
  else s

/-- records token: hex list, or `@seed:count` -/
def records (s : String) : Option (List Bytes) :=
  if s.startsWith "@" then
    match (s.drop 1).toString.splitOn ":" with
    | [a, b] => do
      let seed ← a.toNat?
      let cnt ← b.toNat?
      pure ((List.range cnt).map (synthRecord seed))
    | _ => none
  else hxList s

def showErr (e : Err) : String := e.toString

def showHashes (r : Except Err (List Bytes)) : String :=
  match r with
  | .ok l => xhList l
  | .error e => showErr e

def showUnit (r : Except Err Unit) : String :=
  match r with
  | .ok () => "ok"
  | .error e => showErr e

def int? (s : String) : Option Int := s.toInt?

end ModVerif.Drv.TlogUtil
