import ModVerif.Drv.Util
import ModVerif.Drv.Note
import ModVerif.Generated.FnNote
/-! Handlers that run the code REGENERATED from sumdb/note/note.go (Generated/FnNote.lean: isValidName, chop, Open) on the same
    ops as the hand model, with the same stub keys. -/
namespace ModVerif.Drv.GenNote
open ModVerif ModVerif.Drv ModVerif.GoRt
open ModVerif.Generated.Note

abbrev GV := ModVerif.Generated.Note.Verifier

def toGV (v : ModVerif.Note.Verifier) : GV :=
  { Name := v.name, KeyHash := Int.ofNat v.hash.toNat, Verify := v.verify }

def knownG (k : ModVerif.Note.Verifiers) : Bytes → Int → (GV × Option String) := fun name hash =>
  match k name (UInt32.ofNat hash.toNat) with
  | .found v => (toGV v, none)
  | .unknown => (default, errWith "UnknownVerifierError" [errHex name, toString hash])
  | .ambiguous => (default, errWith "ambiguousVerifierError" [errHex name, toString hash])
  | .otherErr => (default, some "other")

def isSpaceI (r : Int) : Bool := ModVerif.Note.isSpace r.toNat
def b64decI (s : Bytes) : Bytes × Option String :=
  match ModVerif.B64.b64dec s with
  | some b => (b, none)
  | none => ([], some "illegal base64 data")

def showSigG (s : Signature) : String := s!"{xh s.Name}.{s.Hash}.{xh s.Base64}"
def showSigsG (l : List Signature) : String := if l.isEmpty then "_" else ",".intercalate (l.map showSigG)

def showOpenG : M (Note × Option String) → String
  | .ok (n, none) => s!"ok {xh n.Text} {showSigsG n.Sigs} {showSigsG n.UnverifiedSigs}"
  | .ok (n, some e) =>
    if e == "errMalformedNote" then "err:malformed"
    else if e == "UnverifiedNoteError" then s!"err:unverified {xh n.Text} {showSigsG n.UnverifiedSigs}"
    else if e == "errMismatchedVerifier" then "err:mismatch"
    else match e.splitOn "|" with
      | ["InvalidSignatureError", nm, h] => s!"err:invalidsig {nm} {h}"
      | ["ambiguousVerifierError", nm, h] => s!"err:ambiguous {nm} {h}"
      | _ => "err:other"
  | .error e => e.toString

def handle : Handler
  | "open", [msg, mode, vs] => do
    let msg ← hx msg
    let vs ← (Note.splitList vs).mapM Note.verifierSpec
    let known ← Note.knownOf mode (vs.map (·.1))
    pure (showOpenG (Open b64decI isSpaceI (2 * msg.length + 16) msg (knownG known)))
  | "sign", [text, sigs, unv, signers] => do
    let text ← hx text
    let sigs ← (Note.splitList sigs).mapM Note.sigSpec
    let unv ← (Note.splitList unv).mapM Note.sigSpec
    let signers ← (Note.splitList signers).mapM Note.signerSpec
    let gsig : ModVerif.Note.Signature → Signature := fun s => { Name := s.name, Hash := Int.ofNat s.hash.toNat, Base64 := s.base64 }
    let gsigner : ModVerif.Note.Signer → Signer := fun s =>
      { Name := s.name, KeyHash := Int.ofNat s.hash.toNat,
        Sign := fun m => match s.sign m with | some b => (b, none) | none => ([], some "sign failed") }
    let n : Note := { Text := text, Sigs := sigs.map gsig, UnverifiedSigs := unv.map gsig }
    let total := text.length + ((sigs ++ unv).map fun s => s.name.length + s.base64.length).sum + (signers.map fun s => s.name.length).sum
    pure (match Sign b64decI ModVerif.B64.b64enc isSpaceI (4 * total + 64) n (signers.map gsigner) with
      | .ok (m, none) => xh m
      | .ok (_, some e) =>
        if e == "errMalformedNote" then "err:malformed" else if e == "errInvalidSigner" then "err:invalidsigner" else "err:signfailed"
      | .error e => e.toString)
  | "isvalidname", [a] => do let a ← hx a; pure (showBool (isValidName isSpaceI a))
  | "chop", [a, sep] => do
    let a ← hx a; let sep ← hx sep
    pure (match chop a sep with | .ok (x, y) => s!"{xh x} {xh y}" | .error e => e.toString)
  | _, _ => none

end ModVerif.Drv.GenNote
