import ModVerif.Drv.Util
import ModVerif.Drv.TlogUtil
import ModVerif.Drv.Tlog
import ModVerif.Generated.FnTlog
import ModVerif.Generated.FnTlogNote
import ModVerif.Basic.Base64
import ModVerif.Model.TlogNote
/-! Handlers that run the code REGENERATED from sumdb/tlog/tlog.go (Generated/FnTlog.lean) on the same ops as the
    hand model.  Hash type = Bytes with the executable SHA-256 node hash. -/
namespace ModVerif.Drv.GenTlog
open ModVerif ModVerif.Drv ModVerif.Drv.TlogUtil ModVerif.GoRt
open ModVerif.Generated.Tlog

def errKind (s : String) : String :=
  if (s.splitOn "invalid inputs in").length > 1 then "err:invalid"
  else if s == "errProofFailed" then "err:proof"
  else if s.startsWith "tlog: ReadHashes(" || s == "reader" then "err:reader"
  else "err:unknown"

def showME {α : Type} (sh : α → String) : M (α × Option String) → String
  | .ok (a, none) => sh a
  | .ok (_, some e) => errKind e
  | .error e => e.toString

def showMv {α : Type} (sh : α → String) : M α → String
  | .ok a => sh a
  | .error e => e.toString

def reader (st : List Bytes) : List Int → (List Bytes × Option String) := fun idxs =>
  match idxs.mapM (fun i => if i < 0 then none else st[i.toNat]?) with
  | some hs => (hs, none)
  | none => ([], some "reader")

def F : Nat := 4096

def withStoreG (recs : List Bytes) (f : List Bytes → String) : String :=
  match Tlog.store recs with
  | .ok st => f st
  | .error e => showErr e

def handle : Handler
  | "maxpow2", [n] => do let n ← int? n; pure (showMv (fun (p : Int × Int) => s!"{p.1} {p.2}") (maxpow2 F n))
  | "storedhashindex", [l, n] => do let l ← int? l; let n ← int? n; pure (showMv toString (StoredHashIndex F l n))
  | "splitstoredhashindex", [i] => do let i ← int? i; pure (showMv (fun (p : Int × Int) => s!"{p.1} {p.2}") (SplitStoredHashIndex F i))
  | "storedhashcount", [n] => do let n ← int? n; pure (showMv toString (StoredHashCount F n))
  | "treehash", [m, r] => do
    let m ← int? m; let r ← records r
    pure (withStoreG r fun st => showME xh (TreeHash emptyH nodeH F m (reader st)))
  | "proverecord", [t, n, r] => do
    let t ← int? t; let n ← int? n; let r ← records r
    pure (withStoreG r fun st => showME xhList (ProveRecord nodeH F t n (reader st)))
  | "provetree", [t, n, r] => do
    let t ← int? t; let n ← int? n; let r ← records r
    pure (withStoreG r fun st => showME xhList (ProveTree nodeH F t n (reader st)))
  | "checkrecord", [p, t, th, n, h] => do
    let p ← hxList p; let t ← int? t; let th ← hx th; let n ← int? n; let h ← hx h
    pure (match CheckRecord nodeH F p t th n h with
      | .ok none => "ok" | .ok (some e) => errKind e | .error e => e.toString)
  | "checktree", [p, t, th, n, h] => do
    let p ← hxList p; let t ← int? t; let th ← hx th; let n ← int? n; let h ← hx h
    pure (match CheckTree nodeH F p t th n h with
      | .ok none => "ok" | .ok (some e) => errKind e | .error e => e.toString)
  | _, _ => none

end ModVerif.Drv.GenTlog

/-! tlog/note.go (Generated/FnTlogNote.lean): tree heads and records as text -/
namespace ModVerif.Drv.GenTlogNote
open ModVerif ModVerif.Drv ModVerif.Drv.TlogUtil ModVerif.GoRt
open ModVerif.Generated.TlogNote

def b64decI (s : Bytes) : Bytes × Option String :=
  match Base64.decodeStd s with
  | some b => (b, none)
  | none => ([], some "illegal base64 data")

def handle : Handler
  | "formattree", [n, h] => do
    let n ← int? n; let h ← hx h
    pure (xh (FormatTree ModVerif.TlogNote.hashString ({ N := n, Hash := h } : Tree Bytes)))
  | "parsetree", [t] => do
    let t ← hx t
    pure (match ParseTree b64decI id t with
      | .ok (tr, none) => s!"{tr.N} {xh tr.Hash}"
      | .ok (_, some _) => "err"
      | .error e => e.toString)
  | "formatrecord", [idn, t] => do
    let idn ← int? idn; let t ← hx t
    pure (match FormatRecord (t.length + 8) idn t with
      | .ok (m, none) => xh m
      | .ok (_, some _) => "err"
      | .error e => e.toString)
  | "parserecord", [m] => do
    let m ← hx m
    pure (match ParseRecord (m.length + 8) m with
      | .ok (idn, text, rest, none) => s!"{idn} {xh text} {xh rest}"
      | .ok (_, _, _, some _) => "err"
      | .error e => e.toString)
  | _, _ => none

end ModVerif.Drv.GenTlogNote
