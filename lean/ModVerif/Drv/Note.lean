import ModVerif.Drv.Util
namespace ModVerif.Drv.Note
open ModVerif ModVerif.Drv

/-- stub: no ops modelled yet -/
def handle : Handler
  | _, _ => none

end ModVerif.Drv.Note
