/-
  Driver for sumdb/note (prefix `note.`).  Decode, call the model, encode.
  Keys are STUBS described by tokens so that both sides agree without Ed25519:
    verifier spec  `<hexname>.<hash>.<beh>`  beh: a = accept all, r = reject all, f = accept iff sig == stubSig name msg
    signer spec    `<hexname>.<hash>.<beh>`  beh: f = stubSig name msg, e = error, z = empty signature, k = constant [1,2,3]
    signature      `<hexname>.<hash>.<hexbase64>`
  lists are comma separated, `_` = empty.  known mode: L = VerifierList, N = nil (= empty list),
  E = every lookup fails with some other error, M = every lookup returns the first listed verifier.
-/
import ModVerif.Drv.Util
import ModVerif.Model.Note
import ModVerif.Basic.Sha256
namespace ModVerif.Drv.Note
open ModVerif ModVerif.Drv ModVerif.Note

/-- the stub signature function shared with harness/cmd/corr/c07.go -/
def stubSig (name msg : Bytes) : Bytes :=
  let h := (name ++ [0] ++ msg).foldl (fun (h : Nat) (b : UInt8) => (h * 131 + b.toNat + 1) % 4294967296) 7
  putU32 (UInt32.ofNat h) ++ [UInt8.ofNat (msg.length % 256)]

def splitList (s : String) : List String := if s == "_" then [] else s.splitOn ","

def parseU32 (s : String) : Option UInt32 := do
  let n ← s.toNat?
  if n < 4294967296 then some (UInt32.ofNat n) else none

def verifierSpec (s : String) : Option (Verifier × String) :=
  match s.splitOn "." with
  | [n, h, b] => do
    let name ← hx n
    let hash ← parseU32 h
    let f ← match b with
      | "a" => some fun (_ _ : Bytes) => true
      | "r" => some fun (_ _ : Bytes) => false
      | "f" => some fun (msg sig : Bytes) => sig == stubSig name msg
      | _ => none
    pure ({ name := name, hash := hash, verify := f }, s)
  | _ => none

def signerSpec (s : String) : Option Signer :=
  match s.splitOn "." with
  | [n, h, b] => do
    let name ← hx n
    let hash ← parseU32 h
    let f ← match b with
      | "f" => some fun (msg : Bytes) => some (stubSig name msg)
      | "e" => some fun (_ : Bytes) => (none : Option Bytes)
      | "z" => some fun (_ : Bytes) => some []
      | "k" => some fun (_ : Bytes) => some [1, 2, 3]
      | _ => none
    pure { name := name, hash := hash, sign := f }
  | _ => none

def sigSpec (s : String) : Option Signature :=
  match s.splitOn "." with
  | [n, h, b] => do
    let name ← hx n
    let hash ← parseU32 h
    let b64 ← hx b
    pure ⟨name, hash, b64⟩
  | _ => none

def showSig (s : Signature) : String := s!"{xh s.name}.{s.hash.toNat}.{xh s.base64}"

def showSigs (l : List Signature) : String :=
  if l.isEmpty then "_" else ",".intercalate (l.map showSig)

def knownOf (mode : String) (vs : List Verifier) : Option Verifiers :=
  match mode with
  | "L" => some (VerifierList vs)
  | "N" => some (VerifierList [])
  | "E" => some fun _ _ => .otherErr
  | "M" => some fun _ _ => match vs with | [] => .unknown | v :: _ => .found v
  | _ => none

def showOpen : Except OpenErr Note → String
  | .ok n => s!"ok {xh n.text} {showSigs n.sigs} {showSigs n.unverifiedSigs}"
  | .error .malformed => "err:malformed"
  | .error (.unverified n) => s!"err:unverified {xh n.text} {showSigs n.unverifiedSigs}"
  | .error (.invalidSignature name hash) => s!"err:invalidsig {xh name} {hash.toNat}"
  | .error (.ambiguous name hash) => s!"err:ambiguous {xh name} {hash.toNat}"
  | .error .mismatchedVerifier => "err:mismatch"
  | .error .other => "err:other"

def showKeyErr : KeyErr → String
  | .id => "err:id" | .alg => "err:alg" | .hash => "err:hash" | .panic => "panic"

def handle : Handler
  | "open", [msg, mode, vs] => do
    let msg ← hx msg
    let vs ← (splitList vs).mapM verifierSpec
    let known ← knownOf mode (vs.map (·.1))
    pure (showOpen (Open msg known))
  | "sign", [text, sigs, unv, signers] => do
    let text ← hx text
    let sigs ← (splitList sigs).mapM sigSpec
    let unv ← (splitList unv).mapM sigSpec
    let signers ← (splitList signers).mapM signerSpec
    pure (match Sign { text := text, sigs := sigs, unverifiedSigs := unv } signers with
      | .ok m => xh m
      | .error .malformed => "err:malformed"
      | .error .invalidSigner => "err:invalidsigner"
      | .error .signFailed => "err:signfailed")
  | "isvalidname", [a] => do let a ← hx a; pure (showBool (isValidName a))
  | "chop", [a, sep] => do
    let a ← hx a; let sep ← hx sep
    let (x, y) := chop a sep
    pure s!"{xh x} {xh y}"
  | "b64dec", [a] => do
    let a ← hx a
    pure (match B64.b64dec a with | some r => s!"ok {xh r}" | none => "err")
  | "b64enc", [a] => do let a ← hx a; pure (xh (B64.b64enc a))
  | "keyhash", [n, k] => do
    let n ← hx n; let k ← hx k
    pure (match keyHash Sha256.sha256 n k with | some h => toString h.toNat | none => "panic")
  | "newverifier", [k] => do
    let k ← hx k
    pure (match NewVerifier Sha256.sha256 (fun _ _ _ => false) k with
      | .ok v => s!"ok {xh v.name} {v.hash.toNat}"
      | .error e => showKeyErr e)
  | "newsigner", [k, pubHint] => do
    let k ← hx k; let pubHint ← hx pubHint
    pure (match NewSigner Sha256.sha256 (fun _ => pubHint) (fun _ _ => []) k with
      | .ok s => s!"ok {xh s.name} {s.hash.toNat}"
      | .error e => showKeyErr e)
  | "verifierlist", [vs, name, hash] => do
    let vs ← (splitList vs).mapM verifierSpec
    let name ← hx name
    let hash ← parseU32 hash
    pure (match VerifierList (vs.map (·.1)) name hash with
      | .found v => match vs.find? (fun p => p.1.name == v.name && p.1.hash == v.hash) with
        | some p => s!"found {p.2}"
        | none => "found ?"
      | .unknown => "unknown"
      | .ambiguous => "ambiguous"
      | .otherErr => "err:other")
  | _, _ => none

end ModVerif.Drv.Note
