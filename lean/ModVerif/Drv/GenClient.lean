import ModVerif.Drv.Util
import ModVerif.Drv.Client
import ModVerif.Drv.GenNote
import ModVerif.Drv.GenModule
import ModVerif.Drv.GenNoteKey
import ModVerif.Basic.Base64
import ModVerif.Generated.FnClient
/-! `gclient.lookup`: the sumdb client REGENERATED from sumdb/client.go (Generated/FnClient.lean, with FnTlogW / FnTileW for the
    reads through tiles) over the same replay environment as the hand model's `client.lookup`. -/
namespace ModVerif.Drv.GenClient
open ModVerif ModVerif.Drv ModVerif.GoRt
open ModVerif.Generated.SumdbClient ModVerif.Generated.Tile

/-- state behind ClientOps: the replay script and the effects so far -/
abbrev S := Client.Replay × List ModVerif.Client.Effect
abbrev W := CW S Bytes

def rd (k : ModVerif.Client.ReadKind) (errText : String) (file : Bytes) (w : W) : (Bytes × Option String) × W :=
  let (ans, s') := Client.replayRead k w.s.1 file
  let tr := w.s.2 ++ [ModVerif.Client.Effect.read k file ans.isSome]
  match ans with
  | some d => ((d, none), { w with s := (s', tr) })
  | none => (([], some errText), { w with s := (s', tr) })

def ofBytes32 (b : Bytes) : Bytes := (b ++ List.replicate 32 0).take 32

def env (pub : Bytes) (table : List (Bytes × Bytes)) : ClientEnv S Bytes :=
  { readRemote := rd .remote "remote"
    readCache := rd .cache "cache"
    readConfig := rd .config "config"
    writeConfig := fun file old new w =>
      let (r, s') := Client.replayEnv.writeConfig w.s.1 file old new
      let tr := w.s.2 ++ [ModVerif.Client.Effect.writeConfig file old new r]
      ((match r with | .ok => none | .conflict => some "ErrWriteConflict" | .error => some "config"), { w with s := (s', tr) })
    writeCache := fun file data w => ((), { w with s := (w.s.1, w.s.2 ++ [ModVerif.Client.Effect.writeCache file data]) })
    securityError := fun msg w => ((), { w with s := (w.s.1, w.s.2 ++ [ModVerif.Client.Effect.securityError msg]) })
    node := fun a b => Sha256.sha256 (1 :: (a ++ b))
    empty := Sha256.sha256 []
    recordHash := fun d => Sha256.sha256 (0 :: d)
    ofBytes := ofBytes32
    toBytes := id
    hashString := Base64.encodeStd
    b64dec := GenNote.b64decI
    isSpace := GenNote.isSpaceI
    edVerify := fun p msg sig => p == pub && table.contains (msg, sig)
    shaSum := GenNoteKey.shaSumI
    isLetter := GenModule.isLetterI
    equalFold := GenModule.equalFoldI
    pathMatch := GenModule.pathMatchI }

def contains (s sub : String) : Bool := (s.splitOn sub).length > 1

/-- the classification of the Go harness (`clErrKind`), on the error texts of the regenerated code -/
def errKind (e : String) : String :=
  if e == "ErrGONOSUMDB" then "err:gonosumdb"
  else if contains e "ErrSecurity" then "err:security"
  else if contains e "downloaded inconsistent tile" then "err:tile"
  else if contains e "reading tree note" || contains e "reading tree:" then "err:note"
  else if contains e "errMalformedRecord" then "err:record-syntax"
  else if contains e "cannot authenticate record data" then "err:record-hash"
  else if contains e "cannot validate record" then "err:record-id"
  else if contains e "remote" then "err:remote"
  else if contains e "TileReader returned bad result slice" || contains e "too short for tile" then "err:tile-len"
  else if contains e "ErrWriteConflict" then "err:conflict"
  else if contains e "bad math" || contains e "panic" then "err:internal"
  else "err:other"

def runLookups (E : ClientEnv S Bytes) (fuel : Nat) : W → List (Bytes × Bytes) → List String → List String × W
  | w, [], acc => (acc.reverse, w)
  | w, (p, v) :: rest, acc =>
    match Client_Lookup E fuel p v w with
    | .ok ((lines, none), w') => runLookups E fuel w' rest (s!"ok:{lines.length}:{Client.dig (joinWith [10] lines)}" :: acc)
    | .ok ((_, some e), w') => runLookups E fuel w' rest (errKind e :: acc)
    | .error .panic => runLookups E fuel w rest ("panic" :: acc)
    | .error .fuel => runLookups E fuel w rest ("hang" :: acc)
    | .error e => runLookups E fuel w rest (e.toString :: acc)

def handle : Handler
  | "lookup", [h, nosumdb, pub, vtable, reads, writes, lookups] => do
      let h ← h.toNat?
      let nosumdb ← hx nosumdb
      let pub ← hx pub
      let table ← (Client.listOf vtable).mapM Client.parsePair
      let reads ← (Client.listOf reads).mapM Client.parseRead
      let writes ← (Client.listOf writes).mapM Client.parseWrite
      let looks ← (Client.listOf lookups).mapM Client.parsePair
      let E := env pub table
      let w0 : W :=
        { s := ({ reads := reads, writes := writes }, []), didLookup := 0, initDone := false, initErr := none, name := [],
          verifiers := fun _ _ => (default, some "UnknownVerifierError"), tileHeight := 0, nosumdb := [], record := [], tileCache := [],
          latest := { N := 0, Hash := List.replicate 32 0 }, latestMsg := [], tileSaved := [] }
      -- the harness calls SetTileHeight(h) when h > 0 and SetGONOSUMDB(list) when the list is not empty
      let w0 := if h == 0 then w0 else match Client_SetTileHeight (h : Int) w0 with | .ok (_, w) => w | .error _ => w0
      let w0 := if nosumdb.isEmpty then w0 else match Client_SetGONOSUMDB nosumdb w0 with | .ok (_, w) => w | .error _ => w0
      let total := (reads.map fun r => (r.2.2.getD []).length).sum
      let fuel := 4 * total + 4096
      let (res, w) := runLookups E fuel w0 looks []
      let effs := w.s.2.filterMap Client.showEffect
      let rds := (w.s.2.filterMap Client.showReadLine).mergeSort (fun a b => decide (a ≤ b))
      some s!"{";".intercalate res} {if effs.isEmpty then "_" else ",".intercalate effs} {Client.dig (Bytes.ofString ("\n".intercalate rds))}"
  | _, _ => none

end ModVerif.Drv.GenClient
