import ModVerif.Drv.Util
import ModVerif.Drv.Semver
import ModVerif.Drv.Module
namespace ModVerif.Drv

/-- prefix → handler.  One entry per modelled subsystem. -/
def handlers : List (String × Handler) := [
  ("semver", Semver.handle),
  ("module", Module.handle)
]

end ModVerif.Drv
