import ModVerif.Drv.Util
import ModVerif.Drv.Zip
import ModVerif.Drv.GenZip
import ModVerif.Generated.FnZip
import ModVerif.Model.Zip
/-! Handlers that run `Create`, `checkZip` and `Unzip` REGENERATED from zip/zip.go (Generated/FnZip.lean) on the ops of the
    hand model.  The world the regenerated code threads (archive/zip writer, the archive file, the file system) is the
    one of Basic/GoRtZipIO.lean. -/
namespace ModVerif.Drv.GenZipIO
open ModVerif ModVerif.Drv ModVerif.GoRt
open ModVerif.Generated.Zip

/-- the inner-most error text (`wrapErr` nests as `Outer|inner`) -/
def innerErr (e : String) : String := (e.splitOn "|").getLast!

def createErr (e : String) : String :=
  let i := innerErr e
  if i.startsWith "version" || i == "badmodule" then "err:badmodule"
  else if i == "FileErrorList" then "err:invalid"
  else if i == "zip: FileHeader.Name too long" then "err:nametoolong"
  else if i.startsWith "file %q is larger" then "err:contentlarger"
  else if (i.splitOn "too large").length > 1 then "err:size"
  else "err:unknown:" ++ e

def unzipErr (e : String) : String :=
  let i := innerErr e
  if i.startsWith "target directory" then "err:notempty"
  else if i.startsWith "version" || i == "badmodule" then "err:badmodule"
  else if i == "FileErrorList" then "err:invalid"
  else if i.startsWith "mkdir" then "err:mkdir"
  else if i == "file exists" then "err:exists"
  else if i == "zip: format error" || i.startsWith "uncompressed size of file" then "err:contentsize"
  else if (i.splitOn "too large").length > 1 then "err:size"
  else "err:unknown:" ++ e

def reasonOfZ (e : String) : String :=
  match e with
  | "path does not have prefix %q" => "noprefix"
  | "go.mod file not in module root directory" => "gomodnotroot"
  | "go.mod file too large (max size is %d bytes)" => "gomodsize"
  | "LICENSE file too large (max size is %d bytes)" => "licensesize"
  | _ => GenZip.reasonOf e

def showErrsZ (l : List FileError) : String :=
  if l.isEmpty then "_" else ",".intercalate (l.map fun e => xh e.Path ++ ":" ++ reasonOfZ (e.Err.getD ""))

def showCfZ (cf : CheckedFiles) : String :=
  let e := if cf.SizeError.isSome then "size" else if !cf.Invalid.isEmpty then "invalid" else "none"
  s!"valid={xhList cf.Valid} omitted={showErrsZ cf.Omitted} invalid={showErrsZ cf.Invalid} sizeerr={showBool cf.SizeError.isSome} err={e}"

def toZEntry (e : ModVerif.Zip.Entry) : ZEntry := { Name := e.name, UncompressedSize64 := e.declSize, content := e.content }

def toEffect : FsEffect → ModVerif.Zip.Effect
  | .mkdirAll p => .mkdirAll p
  | .createExcl p c => .createExcl p c

def targetCode : ModVerif.Zip.Target → Int
  | .missing => 0 | .emptyDir => 1 | .nonEmptyDir => 2 | .notDir => 3

def entriesFuel (es : List ModVerif.Zip.Entry) : Nat := 8 * (es.map fun e => e.name.length).sum + 4 * es.length + 64

/-- `cfp`, `equalFold`: as for checkFiles; `canon` = module.CanonicalVersion; `mcheck p v` = `module.Check(p, v) == nil` -/
def handle (cfp : Bytes → Bool) (equalFold : Bytes → Bytes → Bool) (canon : Bytes → Bytes) (mcheck : Bytes → Bytes → Bool) : Handler :=
  let cfpE : Bytes → Option String := fun p => if cfp p then none else some "filepath"
  let mchk : Bytes → Bytes → Option String := fun p v => if mcheck p v then none else some "badmodule"
  fun op args => match op, args with
  | "create", [m, v, fs] => do
    let m ← hx m; let v ← hx v; let fs ← Zip.parseFiles fs
    let total := (fs.map fun f => f.path.length).sum
    let fuel := 8 * total + 4 * fs.length + 64
    let pgv : Bytes → Bytes → Bytes := fun _ data => if fs.any (fun f => f.content == data && f.goGe124) then B "go1.24" else B "go1.0"
    pure (match Create canon cfpE equalFold mchk pgv GenZip.simpleFoldI (fun s => s.map ModVerif.Zip.asciiLower)
                 GenZip.versionCompareI id fuel () { Path := m, Version := v } (fs.map GenZip.toGFile) [] with
      | .ok (none, w) => "ok " ++ Zip.showEntries (w.map fun e => ⟨e.1, e.2.length, e.2⟩)
      | .ok (some e, _) => createErr e
      | .error e => e.toString)
  | "checkzip", [m, v, zs, es] => do
    let m ← hx m; let v ← hx v; let zs ← zs.toNat?; let es ← Zip.parseEntries es
    let f : OsFile := { size := zs, statErr := none, entries := es.map toZEntry, readerErr := none }
    pure (match checkZip canon cfpE equalFold mchk GenZip.simpleFoldI (entriesFuel es) { Path := m, Version := v } f with
      | .ok (_, cf, err) =>
        (match err with
         | some e => if (innerErr e).startsWith "version" || innerErr e == "badmodule" then "err:badmodule" else showCfZ cf
         | none => showCfZ cf)
      | .error e => e.toString)
  | "unzip", [m, v, zs, t, es] => do
    let m ← hx m; let v ← hx v; let zs ← zs.toNat?; let t ← Zip.parseTarget t; let es ← Zip.parseEntries es
    let f : OsFile := { size := zs, statErr := none, entries := es.map toZEntry, readerErr := none }
    let w0 : FsW := { dir := Zip.tdir, target := targetCode t, archive := f, openErr := none, fx := [], readErr := none }
    pure (match Unzip canon cfpE equalFold mchk GenZip.simpleFoldI (entriesFuel es) Zip.tdir { Path := m, Version := v } (B "z") w0 with
      | .ok (err, w) =>
        let r : ModVerif.Zip.UnzipResult := ⟨w.fx.map toEffect, none⟩
        let body := Zip.showUnzip t r
        -- showUnzip prints "ok files=… dirs=…": replace the leading status by the classified error
        (match err with
         | none => body
         | some e => unzipErr e ++ (body.drop 2).toString)
      | .error e => e.toString)
  | _, _ => none

end ModVerif.Drv.GenZipIO
