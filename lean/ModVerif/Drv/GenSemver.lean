import ModVerif.Drv.Util
import ModVerif.Generated.FnSemver
/-! Line-protocol handlers that run the REGENERATED code (Generated/FnSemver.lean, translated from
    semver.go on every run) on the same ops as the hand model; validates the translator itself. -/
namespace ModVerif.Drv.GenSemver
open ModVerif ModVerif.Drv ModVerif.GoRt
open ModVerif.Generated.Semver

def fuelFor (l : List Bytes) : Nat := 2 * (l.map List.length).sum + 16

def showM {α : Type} (sh : α → String) : M α → String
  | .ok a => sh a
  | .error e => e.toString

def handle : Handler
  | "isvalid", [a] => do let a ← hx a; pure (showM showBool (IsValid (fuelFor [a]) a))
  | "canonical", [a] => do let a ← hx a; pure (showM xh (Canonical (fuelFor [a]) a))
  | "major", [a] => do let a ← hx a; pure (showM xh (Major (fuelFor [a]) a))
  | "majorminor", [a] => do let a ← hx a; pure (showM xh (MajorMinor (fuelFor [a]) a))
  | "prerelease", [a] => do let a ← hx a; pure (showM xh (Prerelease (fuelFor [a]) a))
  | "build", [a] => do let a ← hx a; pure (showM xh (Build (fuelFor [a]) a))
  | "compare", [a, b] => do let a ← hx a; let b ← hx b; pure (showM toString (Compare (fuelFor [a, b]) a b))
  | "max", [a, b] => do let a ← hx a; let b ← hx b; pure (showM xh (Max (fuelFor [a, b]) a b))
  | _, _ => none

end ModVerif.Drv.GenSemver
