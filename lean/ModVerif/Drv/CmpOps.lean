import ModVerif.Drv.Util
import ModVerif.Basic.UnicodeLetter
import ModVerif.Model.Modfile.Edit
import ModVerif.Generated.FnModfile
/-! `modfile.lineless <kind> <toksA> <toksB>` and `modfile.checkcanonical <path> <vers>`: the block-sorting comparators and
    checkCanonicalVersion, hand model (`modfile.`) and code regenerated from rule.go (`gmodfile.`). -/
namespace ModVerif.Drv.CmpOps
open ModVerif ModVerif.Drv

def handleModel : Handler
  | "lineless", [k, a, b] => do
    let a ← hxList a; let b ← hxList b
    pure (showBool (match k with
      | "exclude" => Modfile.Edit.lineExcludeLess a b
      | "retract" => Modfile.Edit.lineRetractLess a b
      | _ => Modfile.Edit.lineLess a b))
  | "checkcanonical", [p, v] => do
    let p ← hx p; let v ← hx v
    pure (if Modfile.Edit.checkCanonicalVersion p v then "ok" else "err")
  | _, _ => none

open ModVerif.GoRt ModVerif.Generated.Modfile in
def handleGen : Handler
  | "lineless", [k, a, b] => do
    let a ← hxList a; let b ← hxList b
    let la : Line := { (default : Line) with Token := a }
    let lb : Line := { (default : Line) with Token := b }
    let fuel := 4 * ((a ++ b).map List.length).sum + 64
    let r : M Bool := match k with
      | "exclude" => lineExcludeLess fuel la lb
      | "retract" => lineRetractLess fuel la lb
      | _ => lineLess fuel la lb
    pure (match r with | .ok x => showBool x | .error e => e.toString)
  | "checkcanonical", [p, v] => do
    let p ← hx p; let v ← hx v
    pure (match checkCanonicalVersion (4 * (p.length + v.length) + 64) p v with
      | .ok none => "ok" | .ok (some _) => "err" | .error e => e.toString)
  | _, _ => none

end ModVerif.Drv.CmpOps
