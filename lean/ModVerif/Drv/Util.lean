/-
  Line-protocol helpers shared by the per-subsystem driver modules.
  A line is `<prefix>.<op> tok tok ...`; byte strings are lower-case hex (`-` = empty),
  integers decimal, lists of byte strings comma-separated hex (`_` = empty list).
  The driver contains no logic of its own: decode, call the model, encode.
-/
import ModVerif.Basic.Bytes
namespace ModVerif.Drv
open ModVerif

def hx (s : String) : Option Bytes := Bytes.ofHex s
def xh (b : Bytes) : String := Bytes.toHex b

def hxList (s : String) : Option (List Bytes) :=
  if s == "_" then some [] else (s.splitOn ",").mapM Bytes.ofHex

def xhList (l : List Bytes) : String :=
  if l.isEmpty then "_" else ",".intercalate (l.map Bytes.toHex)

def natList (s : String) : Option (List Nat) :=
  if s == "_" then some [] else (s.splitOn ",").mapM String.toNat?

def showNatList (l : List Nat) : String :=
  if l.isEmpty then "_" else ",".intercalate (l.map toString)

def showBool (b : Bool) : String := if b then "true" else "false"

def parseBool (s : String) : Option Bool :=
  if s == "true" then some true else if s == "false" then some false else none

/-- Handler type: op name (after the prefix) and raw tokens; `none` = malformed line / unknown op. -/
abbrev Handler := String → List String → Option String

end ModVerif.Drv
