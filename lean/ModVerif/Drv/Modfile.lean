/-
  Driver module for the go.mod / go.work lexer, parser, printer and directive layer (C20, C02).
  No logic: decode, call the model, encode.  Canonical dumps:

    pos        L.C.B
    comment    pos~hex(token)~0|1
    comments   b[c,c]s[c,c]a[c,c]
    line       L(id;start;end;inBlock;tok,tok;comments)
    block      B(start;tok,tok;lparen-pos;lparen-comments;rparen-pos;rparen-comments;comments;line|line)
    cblock     C(start;comments)
    file       ok F(comments) stmt stmt …      /   err L.C.B kind
    typed      ok mod=… go=… tc=… gd=[…] req=[…] exc=[…] rep=[…] ret=[…] tool=[…] fmt=hex(Format(f.Syntax))
               /  err L.C.B:kind;L.C.B:kind
-/
import ModVerif.Drv.Util
import ModVerif.Model.Modfile.Work
namespace ModVerif.Drv.Modfile
open ModVerif ModVerif.Drv ModVerif.Modfile

def showPos (p : Position) : String := s!"{p.line}.{p.lineRune}.{p.byte}"

def showComment (c : Comment) : String := s!"{showPos c.start}~{xh c.token}~{if c.suffix then "1" else "0"}"

def showCommentList (l : List Comment) : String := "[" ++ ",".intercalate (l.map showComment) ++ "]"

def showComments (c : Comments) : String :=
  s!"b{showCommentList c.before}s{showCommentList c.suffix}a{showCommentList c.after}"

def showLine (l : Line) : String :=
  s!"L({l.id};{showPos l.start};{showPos l.end};{if l.inBlock then "1" else "0"};{xhList l.token};{showComments l.comments})"

def showExpr : Expr → String
  | .commentBlock x => s!"C({showPos x.start};{showComments x.comments})"
  | .line l => showLine l
  | .lineBlock b =>
    s!"B({showPos b.start};{xhList b.token};{showPos b.lparen.pos};{showComments b.lparen.comments};{showPos b.rparen.pos};{showComments b.rparen.comments};{showComments b.comments};{"|".intercalate (b.lines.map showLine)})"
  | .lparen x => s!"LP({showPos x.pos};{showComments x.comments})"
  | .rparen x => s!"RP({showPos x.pos};{showComments x.comments})"

def showFile (f : FileSyntax) : String :=
  " ".intercalate (s!"ok F({showComments f.comments})" :: f.stmts.map showExpr)

def synKindName : SynErrKind → String
  | .blockComment => "block-comment"
  | .eofInString => "eof-in-string"
  | .newlineInString => "newline-in-string"
  | .badChar => "bad-char"
  | .unterminatedBlock => "unterminated-block"
  | .afterRParen => "after-rparen"
  | .internal .readRuneAtEOF => "internal-readrune"
  | .internal .parseLineAtEOL => "internal-parseline"
  | .internal .fuel => "internal-fuel"

def ruleKindName : RuleErrKind → String
  | .syn k => "syn-" ++ synKindName k
  | .unknownBlock => "unknown-block"
  | .unknownDirective => "unknown-directive"
  | .repeatedGo => "repeated-go"
  | .goArgs => "go-args"
  | .invalidGoVersion => "invalid-go-version"
  | .repeatedToolchain => "repeated-toolchain"
  | .toolchainArgs => "toolchain-args"
  | .invalidToolchain => "invalid-toolchain"
  | .repeatedModule => "repeated-module"
  | .moduleUsage => "module-usage"
  | .invalidQuotedString => "invalid-quoted-string"
  | .godebugUsage => "godebug-usage"
  | .requireUsage => "require-usage"
  | .versionString => "version-string"
  | .versionNotCanonical => "version-not-canonical"
  | .fixError => "fix-error"
  | .fixModuleError => "fix-module-error"
  | .invalidModulePath => "invalid-module-path"
  | .pathMajorMismatch => "path-major-mismatch"
  | .replaceUsage => "replace-usage"
  | .replaceAtVersion => "replace-at-version"
  | .replaceNeedsDir => "replace-needs-dir"
  | .replaceWindowsPath => "replace-windows-path"
  | .replaceDirWithVersion => "replace-dir-with-version"
  | .intervalStart => "interval-start"
  | .intervalAfterLBracket => "interval-after-lbracket"
  | .intervalComma => "interval-comma"
  | .intervalAfterComma => "interval-after-comma"
  | .intervalRBracket => "interval-rbracket"
  | .tokenAfterVersion => "token-after-version"
  | .toolArgs => "tool-args"
  | .useUsage => "use-usage"
  | .retractNoModule => "retract-no-module"

def showSynErr (e : SynErr) : String := s!"err {showPos e.pos} {synKindName e.kind}"

def showRuleErrs (l : List RuleErr) : String :=
  "err " ++ ";".intercalate (l.map fun e => s!"{showPos e.pos}:{ruleKindName e.kind}")

def brackets (l : List String) : String := "[" ++ ",".intercalate l ++ "]"

def showMV (m : ModVersion) : String := s!"{xh m.path}/{xh m.version}"

def showGodebugs (l : List Godebug) : String := brackets (l.map fun g => s!"{xh g.key}/{xh g.value}/{g.lineId}")

def showReplaces (l : List Replace) : String := brackets (l.map fun r => s!"{showMV r.old}/{showMV r.new}/{r.lineId}")

def showGo : Option Go → String
  | none => "-"
  | some g => s!"{xh g.version}/{g.lineId}"

def showToolchain : Option Toolchain → String
  | none => "-"
  | some t => s!"{xh t.name}/{t.lineId}"

def showTypedFile (f : File) : String :=
  let m := match f.module with
    | none => "-"
    | some m => s!"{showMV m.mod}/{xh m.deprecated}/{m.lineId}"
  s!"ok mod={m} go={showGo f.go} tc={showToolchain f.toolchain} gd={showGodebugs f.godebug} " ++
  s!"req={brackets (f.require.map fun r => s!"{showMV r.mod}/{showBool r.indirect}/{r.lineId}")} " ++
  s!"exc={brackets (f.exclude.map fun r => s!"{showMV r.mod}/{r.lineId}")} " ++
  s!"rep={showReplaces f.replace} " ++
  s!"ret={brackets (f.retract.map fun r => s!"{xh r.interval.low}/{xh r.interval.high}/{xh r.rationale}/{r.lineId}")} " ++
  s!"tool={brackets (f.tool.map fun t => s!"{xh t.path}/{t.lineId}")} " ++
  s!"fmt={xh (format f.syn)}"

def showWorkFile (f : WorkFile) : String :=
  s!"ok go={showGo f.go} tc={showToolchain f.toolchain} gd={showGodebugs f.godebug} " ++
  s!"use={brackets (f.use.map fun u => s!"{xh u.path}/{xh u.modulePath}/{u.lineId}")} " ++
  s!"rep={showReplaces f.replace} " ++
  s!"fmt={xh (format f.syn)}"

def fixOf (s : String) : Option (Option Fixer) :=
  if s == "nofix" then some none else if s == "stub" then some (some fixStub) else none

def fileName : Bytes := B "go.mod"

def handle : Handler
  | "parsesyntax", [d] => do
    let d ← hx d
    pure (match parse fileName d with
      | .error e => showSynErr e
      | .ok f => showFile f)
  | "format", [d] => do
    let d ← hx d
    pure (match parse fileName d with
      | .error e => showSynErr e
      | .ok f => "ok " ++ xh (format f))
  | "reformat", [d] => do
    let d ← hx d
    pure (match parse fileName d with
      | .error e => showSynErr e
      | .ok f =>
        match parse fileName (format f) with
        | .error e => "second-" ++ showSynErr e
        | .ok f2 => "ok " ++ xh (format f2))
  | "parse", [fx, d] => do
    let fx ← fixOf fx
    let d ← hx d
    pure (match parseToFile fileName d fx true with
      | .error es => showRuleErrs es
      | .ok f => showTypedFile f)
  | "parselax", [fx, d] => do
    let fx ← fixOf fx
    let d ← hx d
    pure (match parseToFile fileName d fx false with
      | .error es => showRuleErrs es
      | .ok f => showTypedFile f)
  | "parsework", [fx, d] => do
    let fx ← fixOf fx
    let d ← hx d
    pure (match parseWork fileName d fx with
      | .error es => showRuleErrs es
      | .ok f => showWorkFile f)
  | "modulepath", [d] => do let d ← hx d; pure (xh (modulePath d))
  | "autoquote", [s] => do let s ← hx s; pure (s!"{showBool (mustQuote s)} {xh (autoQuote s)}")
  | "isdirpath", [s] => do let s ← hx s; pure (showBool (isDirectoryPath s))
  | "goversionre", [s] => do
    let s ← hx s
    pure (s!"{showBool (goVersionRE s)} {match laxGoVersionRE s with | none => "nomatch" | some m => xh m}")
  | "toolchainre", [s] => do let s ← hx s; pure (showBool (toolchainRE s))
  | "deprecatedre", [s] => do
    let s ← hx s
    pure (match deprecatedRE s with | none => "nomatch" | some m => xh m)
  | "unquote", [s] => do
    let s ← hx s
    pure (match Quote.unquote s with | none => "err" | some t => "ok " ++ xh t)
  | "quote", [s] => do let s ← hx s; pure (xh (Quote.quote s))
  | "trimspace", [s] => do let s ← hx s; pure (xh (GoStrings.trimSpace s))
  | "fields", [s] => do let s ← hx s; pure (xhList (GoStrings.fields s))
  | "isprint", [r] => do
    let r ← r.toNat?
    pure (s!"{showBool (UnicodePrint.isPrint r)} {showBool (UnicodePrint.isSpace r)}")
  | _, _ => none

end ModVerif.Drv.Modfile
