import ModVerif.Drv.Util
namespace ModVerif.Drv.Modfile
open ModVerif ModVerif.Drv

/-- stub: no ops modelled yet -/
def handle : Handler
  | _, _ => none

end ModVerif.Drv.Modfile
