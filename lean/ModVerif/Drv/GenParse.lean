import ModVerif.Drv.Util
import ModVerif.Drv.Modfile
import ModVerif.Drv.LexOps
import ModVerif.Generated.FnParse
/-! `gmodfile.parsesyntax`: the go.mod PARSER regenerated from modfile/read.go (Generated/FnParse.lean: lexer, parseFile /
    parseStmt / parseLineBlock / parseLine, order, assignComments) with its pointer graph as a heap; the driver runs it as
    `parse` does (newInput, readToken, parseFile, assignComments) and reads the resulting graph back as a tree value. -/
namespace ModVerif.Drv.GenParse
open ModVerif ModVerif.Drv ModVerif.GoRt
open ModVerif.Generated.Parse

def posOf (p : Position) : ModVerif.Modfile.Position := { line := p.Line.toNat, lineRune := p.LineRune.toNat, byte := p.Byte.toNat }
def comOf (c : Comment) : ModVerif.Modfile.Comment := { start := posOf c.Start, token := c.Token, suffix := c.Suffix }
def comsOf (c : Comments) : ModVerif.Modfile.Comments :=
  { before := c.Before.map comOf, suffix := c.Suffix.map comOf, after := c.After.map comOf }

/-- a line object read back; its identity is its position in the heap (creation order, from 0 as in the model) -/
def lineOf (h : Heap) (p : Int) : Option ModVerif.Modfile.Line :=
  match heapGet h.lines p with
  | .ok l => some { id := p.toNat - 1, comments := comsOf l.Comments, start := posOf l.Start, token := l.Token, inBlock := l.InBlock, «end» := posOf l.End }
  | .error _ => none

def exprOf (h : Heap) : Expr → Option ModVerif.Modfile.Expr
  | .CommentBlock p => match heapGet h.cbs p with
    | .ok c => some (.commentBlock { comments := comsOf c.Comments, start := posOf c.Start })
    | .error _ => none
  | .Line p => (lineOf h p).map .line
  | .LineBlock p => match heapGet h.blocks p with
    | .ok b => do
      let ls ← b.Line.mapM (lineOf h)
      pure (.lineBlock { comments := comsOf b.Comments, start := posOf b.Start, lparen := { comments := comsOf b.LParen.Comments, pos := posOf b.LParen.Pos },
                         token := b.Token, lines := ls, rparen := { comments := comsOf b.RParen.Comments, pos := posOf b.RParen.Pos } })
    | .error _ => none
  | _ => none

def fileOf (h : Heap) (p : Int) : Option ModVerif.Modfile.FileSyntax :=
  match heapGet h.files p with
  | .ok f => do
    let ss ← f.Stmt.mapM (exprOf h)
    pure { name := f.Name, comments := comsOf f.Comments, stmts := ss }
  | .error _ => none

/-- hand-model side of the same op: the tree, or `err` -/
def handleModel : Handler
  | "parsetree", [d] => do
    let d ← hx d
    pure (match ModVerif.Modfile.parse Modfile.fileName d with
      | .error _ => "err"
      | .ok f => Modfile.showFile f)
  | _, _ => none

def handle : Handler
  | "parsetree", [d] => do
    let d ← hx d
    let fuel := 4 * d.length + 64
    let in0 : input := { (default : input) with complete := d, remaining := d, pos := { Line := 1, LineRune := 1, Byte := 0 } }
    let run : M (input × Heap) := do
      let (_, i1) ← input_readToken LexOps.G.isPrintI LexOps.G.isSpaceI fuel in0
      let ((_, i2), h2) ← input_parseFile LexOps.G.isPrintI LexOps.G.isSpaceI fuel i1 (default : Heap)
      -- in.file.Name = in.filename
      let f ← heapGet h2.files i2.file
      let fl ← heapSet h2.files i2.file { f with Name := Modfile.fileName }
      let ((_, i3), h3) ← input_assignComments fuel i2 { h2 with files := fl }
      pure (i3, h3)
    pure (match run with
      | .ok (i, h) => (match fileOf h i.file with | some f => Modfile.showFile f | none => "bad-heap")
      | .error _ => "err")
  | _, _ => none

end ModVerif.Drv.GenParse
