import ModVerif.Drv.Util
namespace ModVerif.Drv.Pseudo
open ModVerif ModVerif.Drv

/-- stub: no ops modelled yet -/
def handle : Handler
  | _, _ => none

end ModVerif.Drv.Pseudo
