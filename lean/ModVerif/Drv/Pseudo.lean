import ModVerif.Drv.Util
import ModVerif.Model.Pseudo
namespace ModVerif.Drv.Pseudo
open ModVerif ModVerif.Drv ModVerif.Pseudo

def showRes : Except Err Bytes → String
  | .ok b => xh b
  | .error e => e.show

def showOpt : Option Bytes → String
  | some b => xh b
  | none => "panic"

/-- one step of a `history` op: `<k>:<hex>` with k = i (IsPseudoVersion), b (Base), r (Rev), t (Time) -/
def step (t : String) : Option String :=
  match t.splitOn ":" with
  | [k, v] => do
      let v ← hx v
      match k with
      | "i" => pure (showBool (isPseudoVersion v))
      | "b" => pure (showRes (pseudoVersionBase v))
      | "r" => pure (showRes (pseudoVersionRev v))
      | "t" => pure (showRes (pseudoVersionTime v))
      | _ => none
  | _ => none

def handle : Handler
  -- a call HISTORY in one op: the Go side makes the calls one after the other in one process, the model
  -- (pure functions) answers each call on its own; results as "[r1,r2,…]"
  | "history", toks => do let outs ← toks.mapM step; pure ("[" ++ ",".intercalate outs ++ "]")
  | "pseudoversion", [maj, older, secs, rev] => do
      let maj ← hx maj; let older ← hx older; let secs ← secs.toInt?; let rev ← hx rev
      pure (showRes (pseudoVersion maj older (formatUnix secs) rev))
  | "format", [secs] => do let secs ← secs.toInt?; pure (xh (formatUnix secs))
  | "zeropseudo", [maj] => do let maj ← hx maj; pure (showRes (zeroPseudoVersion maj))
  | "ispseudo", [v] => do let v ← hx v; pure (showBool (isPseudoVersion v))
  | "iszeropseudo", [v] => do let v ← hx v; pure (showBool (isZeroPseudoVersion v))
  | "base", [v] => do let v ← hx v; pure (showRes (pseudoVersionBase v))
  | "rev", [v] => do let v ← hx v; pure (showRes (pseudoVersionRev v))
  | "time", [v] => do let v ← hx v; pure (showRes (pseudoVersionTime v))
  | "compare", [a, b] => do let a ← hx a; let b ← hx b; pure (toString (Semver.compare a b))
  | "incdecimal", [d] => do let d ← hx d; pure (showOpt (incDecimal d))
  | "decdecimal", [d] => do let d ← hx d; pure (xh (decDecimal d))
  | _, _ => none

end ModVerif.Drv.Pseudo
