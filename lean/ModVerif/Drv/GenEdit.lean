import ModVerif.Drv.Util
import ModVerif.Drv.Edit
import ModVerif.Drv.GenModfile
import ModVerif.Generated.FnEdit
/-! `gedit.session`: the go.mod edit operations REGENERATED from modfile/read.go and rule.go (Generated/FnEdit.lean) on the
    pointer graph as a heap.  The driver parses the file with the hand model (the directive layer is not regenerated),
    LOADS the typed file and its syntax tree into a heap (one object per node; a typed entry points to its line), runs
    the regenerated operations and the final Cleanup, reads the graph back, and prints what `edit.session` prints. -/
namespace ModVerif.Drv.GenEdit
open ModVerif ModVerif.Drv ModVerif.GoRt
open ModVerif.Generated.Edit


def posG (p : ModVerif.Modfile.Position) : Position := { Line := p.line, LineRune := p.lineRune, Byte := p.byte }
def comG (c : ModVerif.Modfile.Comment) : Comment := { Start := posG c.start, Token := c.token, Suffix := c.suffix }
def comsG (c : ModVerif.Modfile.Comments) : Comments := { Before := c.before.map comG, Suffix := c.suffix.map comG, After := c.after.map comG }
def posM (p : Position) : ModVerif.Modfile.Position := { line := p.Line.toNat, lineRune := p.LineRune.toNat, byte := p.Byte.toNat }
def comM (c : Comment) : ModVerif.Modfile.Comment := { start := posM c.Start, token := c.Token, suffix := c.Suffix }
def comsM (c : Comments) : ModVerif.Modfile.Comments := { before := c.Before.map comM, suffix := c.Suffix.map comM, after := c.After.map comM }

/-- loading: the map from model line ids to heap pointers is built on the way -/
structure Ld where
  h : Heap := default
  ids : List (Nat × Int) := []

def Ld.line (s : Ld) (l : ModVerif.Modfile.Line) : Ld × Int :=
  let (p, ls) := heapAlloc s.h.lines ({ Comments := comsG l.comments, Start := posG l.start, Token := l.token, InBlock := l.inBlock, End := posG l.«end» } : Line)
  ({ h := { s.h with lines := ls }, ids := (l.id, p) :: s.ids }, p)

def Ld.lines (s : Ld) : List ModVerif.Modfile.Line → Ld × List Int
  | [] => (s, [])
  | l :: rest =>
    let (s, p) := s.line l
    let (s, ps) := s.lines rest
    (s, p :: ps)

def Ld.stmt (s : Ld) : ModVerif.Modfile.Expr → Ld × Expr
  | .commentBlock c =>
    let (p, l) := heapAlloc s.h.cbs ({ Comments := comsG c.comments, Start := posG c.start } : CommentBlock)
    ({ s with h := { s.h with cbs := l } }, .CommentBlock p)
  | .line l => let (s, p) := s.line l; (s, .Line p)
  | .lineBlock b =>
    let (s, ps) := s.lines b.lines
    let lp : LParen := { Comments := comsG b.lparen.comments, Pos := posG b.lparen.pos }
    let rp : RParen := { Comments := comsG b.rparen.comments, Pos := posG b.rparen.pos }
    let blk : LineBlock := { Comments := comsG b.comments, Start := posG b.start, LParen := lp, Token := b.token, Line := ps, RParen := rp }
    let (p, l) := heapAlloc s.h.blocks blk
    ({ s with h := { s.h with blocks := l } }, .LineBlock p)
  | _ => (s, .nil)

def Ld.stmts (s : Ld) : List ModVerif.Modfile.Expr → Ld × List Expr
  | [] => (s, [])
  | e :: rest =>
    let (s, x) := s.stmt e
    let (s, xs) := s.stmts rest
    (s, x :: xs)

def ptrOf (ids : List (Nat × Int)) (id : Nat) : Int := (ids.lookup id).getD 0
def mvG (m : ModVerif.Modfile.ModVersion) : ModVersion := { Path := m.path, Version := m.version }

/-- the typed file and its syntax graph as a heap; the result pointer is the `*File` -/
def load (f : ModVerif.Modfile.File) : Heap × Int :=
  let (s, stmts) := ({} : Ld).stmts f.syn.stmts
  let h := s.h
  let (fsP, fl) := heapAlloc h.files ({ Name := f.syn.name, Comments := comsG f.syn.comments, Stmt := stmts } : FileSyntax)
  let h := { h with files := fl }
  let pt := ptrOf s.ids
  let alloc {α : Type} (l : List α) (xs : List α) : List Int × List α :=
    xs.foldl (fun (acc : List Int × List α) x => let (p, l') := heapAlloc acc.2 x; (acc.1 ++ [p], l')) ([], l)
  let (modP, h) := match f.module with
    | none => ((0 : Int), h)
    | some m => let (p, l) := heapAlloc h.modules ({ Mod := mvG m.mod, Deprecated := m.deprecated, Syntax := pt m.lineId } : Module); (p, { h with modules := l })
  let (goP, h) := match f.go with
    | none => ((0 : Int), h)
    | some g => let (p, l) := heapAlloc h.gos ({ Version := g.version, Syntax := pt g.lineId } : Go); (p, { h with gos := l })
  let (tcP, h) := match f.toolchain with
    | none => ((0 : Int), h)
    | some t => let (p, l) := heapAlloc h.toolchains ({ Name := t.name, Syntax := pt t.lineId } : Toolchain); (p, { h with toolchains := l })
  let (gd, l) := alloc h.godebugs (f.godebug.map fun g => ({ Key := g.key, Value := g.value, Syntax := pt g.lineId } : Godebug))
  let h := { h with godebugs := l }
  let (rq, l) := alloc h.requires (f.require.map fun r => ({ Mod := mvG r.mod, Indirect := r.indirect, Syntax := pt r.lineId } : Require))
  let h := { h with requires := l }
  let (ex, l) := alloc h.excludes (f.exclude.map fun r => ({ Mod := mvG r.mod, Syntax := pt r.lineId } : Exclude))
  let h := { h with excludes := l }
  let (rp, l) := alloc h.replaces (f.replace.map fun r => ({ Old := mvG r.old, New := mvG r.new, Syntax := pt r.lineId } : Replace))
  let h := { h with replaces := l }
  let (rt, l) := alloc h.retracts (f.retract.map fun r => ({ VersionInterval := { Low := r.interval.low, High := r.interval.high }, Rationale := r.rationale, Syntax := pt r.lineId } : Retract))
  let h := { h with retracts := l }
  let (tl, l) := alloc h.tools (f.tool.map fun t => ({ Path := t.path, Syntax := pt t.lineId } : Tool))
  let h := { h with tools := l }
  let (fp, ml) := heapAlloc h.mods ({ Module := modP, Go := goP, Toolchain := tcP, Godebug := gd, Require := rq, Exclude := ex, Replace := rp, Retract := rt, Tool := tl, Syntax := fsP } : File)
  ({ h with mods := ml }, fp)

/-! reading back -/
def lineM (h : Heap) (p : Int) : Option ModVerif.Modfile.Line :=
  match heapGet h.lines p with
  | .ok l => some { id := p.toNat, comments := comsM l.Comments, start := posM l.Start, token := l.Token, inBlock := l.InBlock, «end» := posM l.End }
  | .error _ => none

def exprM (h : Heap) : Expr → Option ModVerif.Modfile.Expr
  | .CommentBlock p => match heapGet h.cbs p with
    | .ok c => some (.commentBlock { comments := comsM c.Comments, start := posM c.Start })
    | .error _ => none
  | .Line p => (lineM h p).map .line
  | .LineBlock p => match heapGet h.blocks p with
    | .ok b => do
      let ls ← b.Line.mapM (lineM h)
      pure (.lineBlock { comments := comsM b.Comments, start := posM b.Start, lparen := { comments := comsM b.LParen.Comments, pos := posM b.LParen.Pos },
                         token := b.Token, lines := ls, rparen := { comments := comsM b.RParen.Comments, pos := posM b.RParen.Pos } })
    | .error _ => none
  | _ => none

def synM (h : Heap) (p : Int) : Option ModVerif.Modfile.FileSyntax :=
  match heapGet h.files p with
  | .ok f => do
    let ss ← f.Stmt.mapM (exprM h)
    pure { name := f.Name, comments := comsM f.Comments, stmts := ss }
  | .error _ => none

def getAll {α : Type} (l : List α) (ps : List Int) : Option (List α) := ps.mapM fun p => (heapGet l p).toOption

/-- the typed lists read back as a model `File` (line ids are not printed by the dump) -/
def fileM (h : Heap) (fp : Int) : Option ModVerif.Modfile.File := do
  let f ← (heapGet h.mods fp).toOption
  let syn ← synM h f.Syntax
  let module ← (if f.Module == 0 then some none else do
    let m ← (heapGet h.modules f.Module).toOption
    pure (some ({ mod := { path := m.Mod.Path, version := m.Mod.Version }, deprecated := m.Deprecated, lineId := 0 } : ModVerif.Modfile.Module)))
  let go ← (if f.Go == 0 then some none else do
    let g ← (heapGet h.gos f.Go).toOption
    pure (some ({ version := g.Version, lineId := 0 } : ModVerif.Modfile.Go)))
  let tc ← (if f.Toolchain == 0 then some none else do
    let t ← (heapGet h.toolchains f.Toolchain).toOption
    pure (some ({ name := t.Name, lineId := 0 } : ModVerif.Modfile.Toolchain)))
  let gd ← getAll h.godebugs f.Godebug
  let rq ← getAll h.requires f.Require
  let ex ← getAll h.excludes f.Exclude
  let rp ← getAll h.replaces f.Replace
  let rt ← getAll h.retracts f.Retract
  let tl ← getAll h.tools f.Tool
  pure { module := module, go := go, toolchain := tc,
         godebug := gd.map fun g => { key := g.Key, value := g.Value, lineId := 0 },
         require := rq.map fun r => { mod := { path := r.Mod.Path, version := r.Mod.Version }, indirect := r.Indirect, lineId := 0 },
         exclude := ex.map fun r => { mod := { path := r.Mod.Path, version := r.Mod.Version }, lineId := 0 },
         replace := rp.map fun r => { old := { path := r.Old.Path, version := r.Old.Version }, new := { path := r.New.Path, version := r.New.Version }, lineId := 0 },
         retract := rt.map fun r => { interval := { low := r.VersionInterval.Low, high := r.VersionInterval.High }, rationale := r.Rationale, lineId := 0 },
         tool := tl.map fun t => { path := t.Path, lineId := 0 },
         syn := syn }

def isPrintI := GenModfile.isPrintI
def quoteI : Bytes → Bytes := Quote.quote

/-- one operation on the regenerated code: `some true/false` = returned nil / an error -/
def applyOp (fuel : Nat) (fp : Int) (h : Heap) (op : ModVerif.EditSpec.Op) : M (Option Bool × Heap) :=
  let res (r : M ((Option String) × Heap)) : M (Option Bool × Heap) := do let (e, h) ← r; pure (some e.isNone, h)
  let unit (r : M (Unit × Heap)) : M (Option Bool × Heap) := do let (_, h) ← r; pure (some true, h)
  let newReqs (l : List ModVerif.EditSpec.Req) (h : Heap) : List Int × Heap :=
    l.foldl (fun (acc : List Int × Heap) r =>
      let (p, rl) := heapAlloc acc.2.requires ({ Mod := { Path := r.path, Version := r.vers }, Indirect := r.indirect, Syntax := 0 } : Require)
      (acc.1 ++ [p], { acc.2 with requires := rl })) ([], h)
  match op with
  | .addModule p => res (File_AddModuleStmt isPrintI quoteI fuel fp p h)
  | .addGo v => res (File_AddGoStmt ModVerif.Modfile.goVersionRE fuel fp v h)
  | .dropGo => unit (File_DropGoStmt fp h)
  | .addToolchain n => res (File_AddToolchainStmt ModVerif.Modfile.toolchainRE fuel fp n h)
  | .dropToolchain => unit (File_DropToolchainStmt fp h)
  | .addGodebug k v => res (File_AddGodebug fuel fp k v h)
  | .dropGodebug k => res (File_DropGodebug fuel fp k h)
  | .addRequire p v => res (File_AddRequire isPrintI quoteI fuel fp p v h)
  | .addNewRequire p v i => unit (File_AddNewRequire isPrintI quoteI fuel fp p v i h)
  | .dropRequire p => res (File_DropRequire fuel fp p h)
  | .setRequire l => let (ps, h) := newReqs l h; unit (File_SetRequire isPrintI quoteI fuel fp ps h)
  | .setRequireSeparateIndirect l => let (ps, h) := newReqs l h; unit (File_SetRequireSeparateIndirect isPrintI quoteI fuel fp ps h)
  | .addExclude p v => res (File_AddExclude isPrintI quoteI fuel fp p v h)
  | .dropExclude p v => res (File_DropExclude fuel fp p v h)
  | .addReplace a b c d => res (File_AddReplace isPrintI quoteI fuel fp a b c d h)
  | .dropReplace a b => res (File_DropReplace fuel fp a b h)
  | .addRetract a b c => res (File_AddRetract isPrintI quoteI fuel fp { Low := a, High := b } c h)
  | .dropRetract a b => res (File_DropRetract fuel fp { Low := a, High := b } h)
  | .addTool p => res (File_AddTool fuel fp p h)
  | .dropTool p => res (File_DropTool fuel fp p h)
  | .sortBlocks => unit (File_SortBlocks fuel fp h)
  | .cleanup => unit (File_Cleanup fuel fp h)
  | _ => pure (none, h)

def opNameD : ModVerif.EditSpec.Op → String
  | .addModule _ => "module" | .addGo _ => "go" | .dropGo => "dropgo" | .addToolchain _ => "toolchain"
  | .dropToolchain => "droptoolchain" | .addGodebug _ _ => "godebug" | .dropGodebug _ => "dropgodebug"
  | .addRequire _ _ => "require" | .addNewRequire _ _ _ => "newrequire" | .dropRequire _ => "droprequire"
  | .setRequire _ => "setrequire" | .setRequireSeparateIndirect _ => "setrequiresep"
  | .addExclude _ _ => "exclude" | .dropExclude _ _ => "dropexclude" | .addReplace _ _ _ _ => "replace"
  | .dropReplace _ _ => "dropreplace" | .addRetract _ _ _ => "retract" | .dropRetract _ _ => "dropretract"
  | .addTool _ => "tool" | .dropTool _ => "droptool" | .sortBlocks => "sortblocks" | .cleanup => "cleanup"
  | .addUse _ _ => "use" | .addNewUse _ _ => "newuse" | .dropUse _ => "dropuse" | .setUse _ => "setuse"

inductive Run where
  | done (h : Heap) (res : List Bool)
  | panic (name : String)
  | badOp

def runOps (fuel : Nat) (fp : Int) : Heap → List ModVerif.EditSpec.Op → List Bool → Run
  | h, [], acc => .done h acc.reverse
  | h, op :: rest, acc =>
    match applyOp fuel fp h op with
    | .ok (some b, h') => runOps fuel fp h' rest (b :: acc)
    | .ok (none, _) => .badOp
    | .error _ => .panic (opNameD op)

def session (file : Bytes) (ops : List ModVerif.EditSpec.Op) : String :=
  match ModVerif.Modfile.parseStrict (B "go.mod") file none with
  | .error _ => "err:parse"
  | .ok f =>
    let (h0, fp) := load f
    let fuel := 8 * file.length + 64 * ops.length + 4096
    match runOps fuel fp h0 ops [] with
    | .badOp => "bad-op"
    | .panic n => "panic:" ++ n
    | .done h res =>
      match File_Cleanup fuel fp h with
      | .error _ => "panic:final-cleanup"
      | .ok (_, h) =>
        match fileM h fp with
        | none => "bad-heap"
        | some g =>
          let out := ModVerif.Modfile.format g.syn
          let re := match ModVerif.Modfile.parseStrict (B "go.mod") out none with
            | .ok g2 => Drv.Edit.M.dumpMod g2
            | .error _ => "err:reparse"
          "ops=" ++ Drv.Edit.encRes res ++ " typed: " ++ Drv.Edit.M.dumpMod g ++ " fmt=" ++ xh out ++ " reparse: " ++ re

/-! ### go.work -/

/-- the typed go.work file and its syntax graph as a heap; the result pointer is the `*WorkFile` -/
def loadWork (f : ModVerif.Modfile.WorkFile) : Heap × Int :=
  let (s, stmts) := ({} : Ld).stmts f.syn.stmts
  let h := s.h
  let (fsP, fl) := heapAlloc h.files ({ Name := f.syn.name, Comments := comsG f.syn.comments, Stmt := stmts } : FileSyntax)
  let h := { h with files := fl }
  let pt := ptrOf s.ids
  let alloc {α : Type} (l : List α) (xs : List α) : List Int × List α :=
    xs.foldl (fun (acc : List Int × List α) x => let (p, l') := heapAlloc acc.2 x; (acc.1 ++ [p], l')) ([], l)
  let (goP, h) := match f.go with
    | none => ((0 : Int), h)
    | some g => let (p, l) := heapAlloc h.gos ({ Version := g.version, Syntax := pt g.lineId } : Go); (p, { h with gos := l })
  let (tcP, h) := match f.toolchain with
    | none => ((0 : Int), h)
    | some t => let (p, l) := heapAlloc h.toolchains ({ Name := t.name, Syntax := pt t.lineId } : Toolchain); (p, { h with toolchains := l })
  let (gd, l) := alloc h.godebugs (f.godebug.map fun g => ({ Key := g.key, Value := g.value, Syntax := pt g.lineId } : Godebug))
  let h := { h with godebugs := l }
  let (us, l) := alloc h.uses (f.use.map fun u => ({ Path := u.path, ModulePath := u.modulePath, Syntax := pt u.lineId } : Use))
  let h := { h with uses := l }
  let (rp, l) := alloc h.replaces (f.replace.map fun r => ({ Old := mvG r.old, New := mvG r.new, Syntax := pt r.lineId } : Replace))
  let h := { h with replaces := l }
  let (fp, wl) := heapAlloc h.works ({ Go := goP, Toolchain := tcP, Godebug := gd, Use := us, Replace := rp, Syntax := fsP } : WorkFile)
  ({ h with works := wl }, fp)

def workM (h : Heap) (fp : Int) : Option ModVerif.Modfile.WorkFile := do
  let f ← (heapGet h.works fp).toOption
  let syn ← synM h f.Syntax
  let go ← (if f.Go == 0 then some none else do
    let g ← (heapGet h.gos f.Go).toOption
    pure (some ({ version := g.Version, lineId := 0 } : ModVerif.Modfile.Go)))
  let tc ← (if f.Toolchain == 0 then some none else do
    let t ← (heapGet h.toolchains f.Toolchain).toOption
    pure (some ({ name := t.Name, lineId := 0 } : ModVerif.Modfile.Toolchain)))
  let gd ← getAll h.godebugs f.Godebug
  let us ← getAll h.uses f.Use
  let rp ← getAll h.replaces f.Replace
  pure { go := go, toolchain := tc,
         godebug := gd.map fun g => { key := g.Key, value := g.Value, lineId := 0 },
         use := us.map fun u => { path := u.Path, modulePath := u.ModulePath, lineId := 0 },
         replace := rp.map fun r => { old := { path := r.Old.Path, version := r.Old.Version }, new := { path := r.New.Path, version := r.New.Version }, lineId := 0 },
         syn := syn }

def applyWorkOp (fuel : Nat) (fp : Int) (h : Heap) (op : ModVerif.EditSpec.Op) : M (Option Bool × Heap) :=
  let res (r : M ((Option String) × Heap)) : M (Option Bool × Heap) := do let (e, h) ← r; pure (some e.isNone, h)
  let unit (r : M (Unit × Heap)) : M (Option Bool × Heap) := do let (_, h) ← r; pure (some true, h)
  let newUses (l : List (Bytes × Bytes)) (h : Heap) : List Int × Heap :=
    l.foldl (fun (acc : List Int × Heap) u =>
      let (p, ul) := heapAlloc acc.2.uses ({ Path := u.1, ModulePath := u.2, Syntax := 0 } : Use)
      (acc.1 ++ [p], { acc.2 with uses := ul })) ([], h)
  match op with
  | .addGo v => res (WorkFile_AddGoStmt ModVerif.Modfile.goVersionRE fuel fp v h)
  | .dropGo => unit (WorkFile_DropGoStmt fp h)
  | .addToolchain n => res (WorkFile_AddToolchainStmt ModVerif.Modfile.toolchainRE fuel fp n h)
  | .dropToolchain => unit (WorkFile_DropToolchainStmt fp h)
  | .addGodebug k v => res (WorkFile_AddGodebug fuel fp k v h)
  | .dropGodebug k => res (WorkFile_DropGodebug fuel fp k h)
  | .addUse d m => res (WorkFile_AddUse isPrintI quoteI fuel fp d m h)
  | .addNewUse d m => unit (WorkFile_AddNewUse isPrintI quoteI fuel fp d m h)
  | .dropUse d => res (WorkFile_DropUse fuel fp d h)
  | .setUse l => let (ps, h) := newUses l h; unit (WorkFile_SetUse isPrintI quoteI fuel fp ps h)
  | .addReplace a b c d => res (WorkFile_AddReplace isPrintI quoteI fuel fp a b c d h)
  | .dropReplace a b => res (WorkFile_DropReplace fuel fp a b h)
  | .sortBlocks => unit (WorkFile_SortBlocks fuel fp h)
  | .cleanup => unit (WorkFile_Cleanup fuel fp h)
  | _ => pure (none, h)

def runWorkOps (fuel : Nat) (fp : Int) : Heap → List ModVerif.EditSpec.Op → List Bool → Run
  | h, [], acc => .done h acc.reverse
  | h, op :: rest, acc =>
    match applyWorkOp fuel fp h op with
    | .ok (some b, h') => runWorkOps fuel fp h' rest (b :: acc)
    | .ok (none, _) => .badOp
    | .error _ => .panic (opNameD op)

def workSession (file : Bytes) (ops : List ModVerif.EditSpec.Op) : String :=
  match ModVerif.Modfile.parseWork (B "go.work") file none with
  | .error _ => "err:parse"
  | .ok f =>
    let (h0, fp) := loadWork f
    let fuel := 8 * file.length + 64 * ops.length + 4096
    match runWorkOps fuel fp h0 ops [] with
    | .badOp => "bad-op"
    | .panic n => "panic:" ++ n
    | .done h res =>
      match WorkFile_Cleanup fuel fp h with
      | .error _ => "panic:final-cleanup"
      | .ok (_, h) =>
        match workM h fp with
        | none => "bad-heap"
        | some g =>
          let out := ModVerif.Modfile.format g.syn
          let re := match ModVerif.Modfile.parseWork (B "go.work") out none with
            | .ok g2 => Drv.Edit.M.dumpWork g2
            | .error _ => "err:reparse"
          "ops=" ++ Drv.Edit.encRes res ++ " typed: " ++ Drv.Edit.M.dumpWork g ++ " fmt=" ++ xh out ++ " reparse: " ++ re

def handle : Handler
  | "worksession", file :: rest => do
    let file ← hx file
    let ops ← Drv.Edit.decOps rest
    pure (workSession file ops)
  | "session", file :: rest => do
    let file ← hx file
    let ops ← Drv.Edit.decOps rest
    pure (session file ops)
  | _, _ => none

end ModVerif.Drv.GenEdit
