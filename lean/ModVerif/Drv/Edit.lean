import ModVerif.Drv.Util
import ModVerif.Spec.EditSpec
import ModVerif.Model.Modfile.Edit
namespace ModVerif.Drv.Edit
open ModVerif ModVerif.Drv ModVerif.EditSpec

/-! Line protocol of the edit subsystem.  No logic: decode, call the spec / model, encode. -/

def scalar (pfx : String) (t : String) : Option (Option Bytes) :=
  if t.startsWith pfx then
    let v := (t.drop pfx.length).toString
    if v == "~" then some none else (hx v).map some
  else none

def fields (s : String) : Option (List Bytes) := (s.splitOn ":").mapM hx

def listOf {α : Type} (pfx : String) (dec : String → Option α) (t : String) : Option (List α) :=
  if t.startsWith pfx then
    let v := (t.drop pfx.length).toString
    if v == "_" then some [] else (v.splitOn ",").mapM dec
  else none

def decPair (s : String) : Option (Bytes × Bytes) :=
  match s.splitOn ":" with
  | [a, b] => do pure (← hx a, ← hx b)
  | _ => none

def decReq (s : String) : Option Req :=
  match s.splitOn ":" with
  | [a, b, i] => do pure ⟨← hx a, ← hx b, i == "1"⟩
  | _ => none

def decRepl (s : String) : Option Repl :=
  match s.splitOn ":" with
  | [a, b, c, d] => do pure ⟨← hx a, ← hx b, ← hx c, ← hx d⟩
  | _ => none

def decRetr (s : String) : Option Retr :=
  match s.splitOn ":" with
  | [a, b, c] => do pure ⟨← hx a, ← hx b, ← hx c⟩
  | _ => none

def decAbs : List String → Option AbsFile
  | [m, g, t, d, r, x, p, c, l, u] => do
    pure { module := ← scalar "M=" m, go := ← scalar "G=" g, toolchain := ← scalar "T=" t,
           godebug := ← listOf "D=" decPair d, require := ← listOf "R=" decReq r,
           exclude := ← listOf "X=" decPair x, replace := ← listOf "P=" decRepl p,
           retract := ← listOf "C=" decRetr c, tool := ← listOf "L=" hx l, use := ← listOf "U=" hx u }
  | _ => none

def encList {α : Type} (enc : α → String) (l : List α) : String :=
  if l.isEmpty then "_" else ",".intercalate (l.map enc)

def encScalar : Option Bytes → String
  | none => "~"
  | some b => xh b

def encAbs (f : AbsFile) : String :=
  " ".intercalate [
    "M=" ++ encScalar f.module, "G=" ++ encScalar f.go, "T=" ++ encScalar f.toolchain,
    "D=" ++ encList (fun e => xh e.1 ++ ":" ++ xh e.2) f.godebug,
    "R=" ++ encList (fun r => xh r.path ++ ":" ++ xh r.vers ++ ":" ++ (if r.indirect then "1" else "0")) f.require,
    "X=" ++ encList (fun e => xh e.1 ++ ":" ++ xh e.2) f.exclude,
    "P=" ++ encList (fun r => xh r.oldPath ++ ":" ++ xh r.oldVers ++ ":" ++ xh r.newPath ++ ":" ++ xh r.newVers) f.replace,
    "C=" ++ encList (fun r => xh r.lo ++ ":" ++ xh r.hi ++ ":" ++ xh r.rationale) f.retract,
    "L=" ++ encList xh f.tool, "U=" ++ encList xh f.use]

def decReqList (s : String) : Option (List Req) := if s == "_" then some [] else (s.splitOn ",").mapM decReq
def decUseList (s : String) : Option (List (Bytes × Bytes)) := if s == "_" then some [] else (s.splitOn ",").mapM decPair

def decOp : List String → Option Op
  | ["module", a] => do pure (.addModule (← hx a))
  | ["go", a] => do pure (.addGo (← hx a))
  | ["dropgo"] => some .dropGo
  | ["toolchain", a] => do pure (.addToolchain (← hx a))
  | ["droptoolchain"] => some .dropToolchain
  | ["godebug", a, b] => do pure (.addGodebug (← hx a) (← hx b))
  | ["dropgodebug", a] => do pure (.dropGodebug (← hx a))
  | ["require", a, b] => do pure (.addRequire (← hx a) (← hx b))
  | ["newrequire", a, b, i] => do pure (.addNewRequire (← hx a) (← hx b) ((← hx i) == [49]))
  | ["droprequire", a] => do pure (.dropRequire (← hx a))
  | ["setrequire", l] => do pure (.setRequire (← decReqList l))
  | ["setrequire", l, _] => do pure (.setRequire (← decReqList l))
  | ["setrequiresep", l] => do pure (.setRequireSeparateIndirect (← decReqList l))
  | ["setrequiresep", l, _] => do pure (.setRequireSeparateIndirect (← decReqList l))
  | ["setuse", l, _] => do pure (.setUse (← decUseList l))
  | ["exclude", a, b] => do pure (.addExclude (← hx a) (← hx b))
  | ["dropexclude", a, b] => do pure (.dropExclude (← hx a) (← hx b))
  | ["replace", a, b, c, d] => do pure (.addReplace (← hx a) (← hx b) (← hx c) (← hx d))
  | ["dropreplace", a, b] => do pure (.dropReplace (← hx a) (← hx b))
  | ["retract", a, b, c] => do pure (.addRetract (← hx a) (← hx b) (← hx c))
  | ["dropretract", a, b] => do pure (.dropRetract (← hx a) (← hx b))
  | ["tool", a] => do pure (.addTool (← hx a))
  | ["droptool", a] => do pure (.dropTool (← hx a))
  | ["sortblocks"] => some .sortBlocks
  | ["cleanup"] => some .cleanup
  | ["use", a, b] => do pure (.addUse (← hx a) (← hx b))
  | ["newuse", a, b] => do pure (.addNewUse (← hx a) (← hx b))
  | ["dropuse", a] => do pure (.dropUse (← hx a))
  | ["setuse", l] => do pure (.setUse (← decUseList l))
  | _ => none

/-- split the token list at "|" -/
def splitBars : List String → List String → List (List String)
  | [], cur => [cur.reverse]
  | t :: ts, cur => if t == "|" then cur.reverse :: splitBars ts [] else splitBars ts (t :: cur)

def decOps (toks : List String) : Option (List Op) :=
  if toks.isEmpty then some [] else
  match toks with
  | "|" :: rest => (splitBars rest []).mapM decOp
  | _ => none

def encRes (l : List Bool) : String :=
  if l.isEmpty then "_" else ",".intercalate (l.map fun b => if b then "ok" else "err")

/-! ### edit.session / edit.worksession: the model of the real operations -/

namespace M
open ModVerif.Modfile ModVerif.Modfile.Edit

def toWant (r : Req) : Want := ⟨r.path, r.vers, r.indirect⟩

def decOp (toks : List String) : Option Edit.Op :=
  let rev := match toks with
    | [_, _, f] => f == "1"
    | _ => false
  match Drv.Edit.decOp toks with
  | none => none
  | some op => some (match op with
    | .addModule p => .addModule p
    | .addGo v => .addGo v
    | .dropGo => .dropGo
    | .addToolchain n => .addToolchain n
    | .dropToolchain => .dropToolchain
    | .addGodebug k v => .addGodebug k v
    | .dropGodebug k => .dropGodebug k
    | .addRequire p v => .addRequire p v
    | .addNewRequire p v i => .addNewRequire p v i
    | .dropRequire p => .dropRequire p
    | .setRequire w => .setRequire (w.map toWant) rev
    | .setRequireSeparateIndirect w => .setRequireSeparateIndirect (w.map toWant) rev
    | .addExclude p v => .addExclude p v
    | .dropExclude p v => .dropExclude p v
    | .addReplace a b c d => .addReplace a b c d
    | .dropReplace a b => .dropReplace a b
    | .addRetract a b c => .addRetract a b c
    | .dropRetract a b => .dropRetract a b
    | .addTool p => .addTool p
    | .dropTool p => .dropTool p
    | .sortBlocks => .sortBlocks
    | .cleanup => .cleanup
    | .addUse d m => .addUse d m
    | .addNewUse d m => .addNewUse d m
    | .dropUse d => .dropUse d
    | .setUse w => .setUse w rev)

def decOps (toks : List String) : Option (List Edit.Op) :=
  if toks.isEmpty then some [] else
  match toks with
  | "|" :: rest => (splitBars rest []).mapM decOp
  | _ => none

def sortStrs (l : List String) : List String := l.mergeSort (fun a b => !(b < a))

def encSorted {α : Type} (enc : α → String) (l : List α) : String :=
  if l.isEmpty then "_" else ",".intercalate (sortStrs (l.map enc))

def bit (b : Bool) : String := if b then "1" else "0"

def dumpMod (f : File) : String :=
  " ".intercalate [
    "M=" ++ encScalar (f.module.map (·.mod.path)), "G=" ++ encScalar (f.go.map (·.version)), "T=" ++ encScalar (f.toolchain.map (·.name)),
    "D=" ++ encSorted (fun g : Godebug => xh g.key ++ ":" ++ xh g.value) f.godebug,
    "R=" ++ encSorted (fun r : Require => xh r.mod.path ++ ":" ++ xh r.mod.version ++ ":" ++ bit r.indirect) f.require,
    "X=" ++ encSorted (fun x : Exclude => xh x.mod.path ++ ":" ++ xh x.mod.version) f.exclude,
    "P=" ++ encSorted (fun r : Replace => xh r.old.path ++ ":" ++ xh r.old.version ++ ":" ++ xh r.new.path ++ ":" ++ xh r.new.version) f.replace,
    "C=" ++ encSorted (fun r : Retract => xh r.interval.low ++ ":" ++ xh r.interval.high ++ ":" ++ xh r.rationale) f.retract,
    "L=" ++ encSorted (fun t : Tool => xh t.path) f.tool, "U=_"]

def dumpWork (f : WorkFile) : String :=
  " ".intercalate [
    "M=~", "G=" ++ encScalar (f.go.map (·.version)), "T=" ++ encScalar (f.toolchain.map (·.name)),
    "D=" ++ encSorted (fun g : Godebug => xh g.key ++ ":" ++ xh g.value) f.godebug,
    "R=_", "X=_",
    "P=" ++ encSorted (fun r : Replace => xh r.old.path ++ ":" ++ xh r.old.version ++ ":" ++ xh r.new.path ++ ":" ++ xh r.new.version) f.replace,
    "C=_", "L=_", "U=" ++ encSorted (fun u : Use => xh u.path) f.use]

def opName : Edit.Op → String
  | .addModule _ => "module" | .addGo _ => "go" | .dropGo => "dropgo" | .addToolchain _ => "toolchain"
  | .dropToolchain => "droptoolchain" | .addGodebug _ _ => "godebug" | .dropGodebug _ => "dropgodebug"
  | .addRequire _ _ => "require" | .addNewRequire _ _ _ => "newrequire" | .dropRequire _ => "droprequire"
  | .setRequire _ _ => "setrequire" | .setRequireSeparateIndirect _ _ => "setrequiresep"
  | .addExclude _ _ => "exclude" | .dropExclude _ _ => "dropexclude" | .addReplace _ _ _ _ => "replace"
  | .dropReplace _ _ => "dropreplace" | .addRetract _ _ _ => "retract" | .dropRetract _ _ => "dropretract"
  | .addTool _ => "tool" | .dropTool _ => "droptool" | .sortBlocks => "sortblocks" | .cleanup => "cleanup"
  | .addUse _ _ => "use" | .addNewUse _ _ => "newuse" | .dropUse _ => "dropuse" | .setUse _ _ => "setuse"

def sessionMod (file : Bytes) (ops : List Edit.Op) : String :=
  match parseStrict (B "go.mod") file none with
  | .error _ => "err:parse"
  | .ok f =>
    match runOps applyMod (load f) ops [] 0 with
    | .badOp => "bad-op"
    | .panic i => "panic:" ++ ((ops[i]?).map opName).getD "?"
    | .done e res =>
      let e := cleanup e
      let out := format e.f.syn
      let re := match parseStrict (B "go.mod") out none with
        | .ok g => dumpMod g
        | .error _ => "err:reparse"
      "ops=" ++ encRes res ++ " typed: " ++ dumpMod e.f ++ " fmt=" ++ xh out ++ " reparse: " ++ re

def sessionWork (file : Bytes) (ops : List Edit.Op) : String :=
  match parseWork (B "go.work") file none with
  | .error _ => "err:parse"
  | .ok f =>
    match runOps applyWork (loadWork f) ops [] 0 with
    | .badOp => "bad-op"
    | .panic i => "panic:" ++ ((ops[i]?).map opName).getD "?"
    | .done e res =>
      let e := workCleanup e
      let out := format e.f.syn
      let re := match parseWork (B "go.work") out none with
        | .ok g => dumpWork g
        | .error _ => "err:reparse"
      "ops=" ++ encRes res ++ " typed: " ++ dumpWork e.f ++ " fmt=" ++ xh out ++ " reparse: " ++ re

end M

def handle : Handler
  | "absstep", kind :: rest =>
    if kind != "mod" && kind != "work" then none else do
    let f ← decAbs (rest.take 10)
    let ops ← decOps (rest.drop 10)
    pure ("ops=" ++ encRes (runOk stdValidity f ops) ++ " abs: " ++ encAbs (run stdValidity f ops))
  | "session", file :: rest => do
    let file ← hx file
    let ops ← M.decOps rest
    pure (M.sessionMod file ops)
  | "worksession", file :: rest => do
    let file ← hx file
    let ops ← M.decOps rest
    pure (M.sessionWork file ops)
  | _, _ => none

end ModVerif.Drv.Edit
