import ModVerif.Drv.Util
namespace ModVerif.Drv.Edit
open ModVerif ModVerif.Drv

/-- stub: no ops modelled yet -/
def handle : Handler
  | _, _ => none

end ModVerif.Drv.Edit
