import ModVerif.Drv.Util
import ModVerif.Spec.EditSpec
namespace ModVerif.Drv.Edit
open ModVerif ModVerif.Drv ModVerif.EditSpec

/-! Line protocol of the edit subsystem.  No logic: decode, call the spec / model, encode. -/

def scalar (pfx : String) (t : String) : Option (Option Bytes) :=
  if t.startsWith pfx then
    let v := (t.drop pfx.length).toString
    if v == "~" then some none else (hx v).map some
  else none

def fields (s : String) : Option (List Bytes) := (s.splitOn ":").mapM hx

def listOf {α : Type} (pfx : String) (dec : String → Option α) (t : String) : Option (List α) :=
  if t.startsWith pfx then
    let v := (t.drop pfx.length).toString
    if v == "_" then some [] else (v.splitOn ",").mapM dec
  else none

def decPair (s : String) : Option (Bytes × Bytes) :=
  match s.splitOn ":" with
  | [a, b] => do pure (← hx a, ← hx b)
  | _ => none

def decReq (s : String) : Option Req :=
  match s.splitOn ":" with
  | [a, b, i] => do pure ⟨← hx a, ← hx b, i == "1"⟩
  | _ => none

def decRepl (s : String) : Option Repl :=
  match s.splitOn ":" with
  | [a, b, c, d] => do pure ⟨← hx a, ← hx b, ← hx c, ← hx d⟩
  | _ => none

def decRetr (s : String) : Option Retr :=
  match s.splitOn ":" with
  | [a, b, c] => do pure ⟨← hx a, ← hx b, ← hx c⟩
  | _ => none

def decAbs : List String → Option AbsFile
  | [m, g, t, d, r, x, p, c, l, u] => do
    pure { module := ← scalar "M=" m, go := ← scalar "G=" g, toolchain := ← scalar "T=" t,
           godebug := ← listOf "D=" decPair d, require := ← listOf "R=" decReq r,
           exclude := ← listOf "X=" decPair x, replace := ← listOf "P=" decRepl p,
           retract := ← listOf "C=" decRetr c, tool := ← listOf "L=" hx l, use := ← listOf "U=" hx u }
  | _ => none

def encList {α : Type} (enc : α → String) (l : List α) : String :=
  if l.isEmpty then "_" else ",".intercalate (l.map enc)

def encScalar : Option Bytes → String
  | none => "~"
  | some b => xh b

def encAbs (f : AbsFile) : String :=
  " ".intercalate [
    "M=" ++ encScalar f.module, "G=" ++ encScalar f.go, "T=" ++ encScalar f.toolchain,
    "D=" ++ encList (fun e => xh e.1 ++ ":" ++ xh e.2) f.godebug,
    "R=" ++ encList (fun r => xh r.path ++ ":" ++ xh r.vers ++ ":" ++ (if r.indirect then "1" else "0")) f.require,
    "X=" ++ encList (fun e => xh e.1 ++ ":" ++ xh e.2) f.exclude,
    "P=" ++ encList (fun r => xh r.oldPath ++ ":" ++ xh r.oldVers ++ ":" ++ xh r.newPath ++ ":" ++ xh r.newVers) f.replace,
    "C=" ++ encList (fun r => xh r.lo ++ ":" ++ xh r.hi ++ ":" ++ xh r.rationale) f.retract,
    "L=" ++ encList xh f.tool, "U=" ++ encList xh f.use]

def decReqList (s : String) : Option (List Req) := if s == "_" then some [] else (s.splitOn ",").mapM decReq
def decUseList (s : String) : Option (List (Bytes × Bytes)) := if s == "_" then some [] else (s.splitOn ",").mapM decPair

def decOp : List String → Option Op
  | ["module", a] => do pure (.addModule (← hx a))
  | ["go", a] => do pure (.addGo (← hx a))
  | ["dropgo"] => some .dropGo
  | ["toolchain", a] => do pure (.addToolchain (← hx a))
  | ["droptoolchain"] => some .dropToolchain
  | ["godebug", a, b] => do pure (.addGodebug (← hx a) (← hx b))
  | ["dropgodebug", a] => do pure (.dropGodebug (← hx a))
  | ["require", a, b] => do pure (.addRequire (← hx a) (← hx b))
  | ["newrequire", a, b, i] => do pure (.addNewRequire (← hx a) (← hx b) ((← hx i) == [49]))
  | ["droprequire", a] => do pure (.dropRequire (← hx a))
  | ["setrequire", l] => do pure (.setRequire (← decReqList l))
  | ["setrequiresep", l] => do pure (.setRequireSeparateIndirect (← decReqList l))
  | ["exclude", a, b] => do pure (.addExclude (← hx a) (← hx b))
  | ["dropexclude", a, b] => do pure (.dropExclude (← hx a) (← hx b))
  | ["replace", a, b, c, d] => do pure (.addReplace (← hx a) (← hx b) (← hx c) (← hx d))
  | ["dropreplace", a, b] => do pure (.dropReplace (← hx a) (← hx b))
  | ["retract", a, b, c] => do pure (.addRetract (← hx a) (← hx b) (← hx c))
  | ["dropretract", a, b] => do pure (.dropRetract (← hx a) (← hx b))
  | ["tool", a] => do pure (.addTool (← hx a))
  | ["droptool", a] => do pure (.dropTool (← hx a))
  | ["sortblocks"] => some .sortBlocks
  | ["cleanup"] => some .cleanup
  | ["use", a, b] => do pure (.addUse (← hx a) (← hx b))
  | ["newuse", a, b] => do pure (.addNewUse (← hx a) (← hx b))
  | ["dropuse", a] => do pure (.dropUse (← hx a))
  | ["setuse", l] => do pure (.setUse (← decUseList l))
  | _ => none

/-- split the token list at "|" -/
def splitBars : List String → List String → List (List String)
  | [], cur => [cur.reverse]
  | t :: ts, cur => if t == "|" then cur.reverse :: splitBars ts [] else splitBars ts (t :: cur)

def decOps (toks : List String) : Option (List Op) :=
  if toks.isEmpty then some [] else
  match toks with
  | "|" :: rest => (splitBars rest []).mapM decOp
  | _ => none

def encRes (l : List Bool) : String :=
  if l.isEmpty then "_" else ",".intercalate (l.map fun b => if b then "ok" else "err")

def handle : Handler
  | "absstep", kind :: rest =>
    if kind != "mod" && kind != "work" then none else do
    let f ← decAbs (rest.take 10)
    let ops ← decOps (rest.drop 10)
    pure ("ops=" ++ encRes (runOk stdValidity f ops) ++ " abs: " ++ encAbs (run stdValidity f ops))
  | _, _ => none

end ModVerif.Drv.Edit
