import ModVerif.Drv.Util
import ModVerif.Basic.UnicodePrint
import ModVerif.Basic.Quote
import ModVerif.Generated.FnModfile
/-! Handlers that run the code REGENERATED from modfile (Generated/FnModfile.lean: isIdent, IsDirectoryPath, MustQuote, AutoQuote,
    parseString, ModulePath) on the ops of the hand model. -/
namespace ModVerif.Drv.GenModfile
open ModVerif ModVerif.Drv ModVerif.GoRt
open ModVerif.Generated.Modfile

def isPrintI (r : Int) : Bool := UnicodePrint.isPrint r.toNat
def isSpaceI (r : Int) : Bool := UnicodePrint.isSpace r.toNat
def unquoteI (s : Bytes) : Bytes × Option String :=
  match Quote.unquote s with
  | some t => (t, none)
  | none => ([], some "invalid syntax")

def handle : Handler
  | "modulepath", [d] => do
    let d ← hx d
    pure (match ModulePath unquoteI (d.length + 4) d with | .ok p => xh p | .error e => e.toString)
  | "autoquote", [s] => do
    let s ← hx s
    pure (match MustQuote isPrintI (s.length + 4) s, AutoQuote isPrintI Quote.quote (s.length + 4) s with
      | .ok m, .ok q => s!"{showBool m} {xh q}"
      | .error e, _ => e.toString
      | _, .error e => e.toString)
  | "isdirpath", [s] => do
    let s ← hx s
    pure (match IsDirectoryPath s with | .ok b => showBool b | .error e => e.toString)
  | _, _ => none

end ModVerif.Drv.GenModfile
