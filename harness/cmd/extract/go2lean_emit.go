package main

import (
	"fmt"
	"go/ast"
	"go/types"
	"os"
	"path/filepath"
	"regexp"
	"sort"
	"strings"
)

// ---------------------------------------------------------------------------------------------------------
// function and unit emission

func (f *g2lFn) params() []nameType {
	out := []nameType{}
	add := func(fl *ast.FieldList) {
		if fl == nil {
			return
		}
		for _, fld := range fl.List {
			t := f.p.info.Types[fld.Type].Type
			if f.isWorldObj(t) {
				continue
			}
			if len(fld.Names) == 0 {
				out = append(out, nameType{"_", f.leanType(t, fld)})
			}
			for _, n := range fld.Names {
				if pv, ok := f.p.info.Defs[n].(*types.Var); ok && f.isViewObj(pv) {
					out = append(out, nameType{f.name(n), "TokRef"})
					continue
				}
				out = append(out, nameType{f.name(n), f.leanType(t, fld)})
			}
		}
	}
	add(f.fd.Recv)
	add(f.fd.Type.Params)
	for i := range out {
		if out[i].name == "_" {
			out[i].name = fmt.Sprintf("_x%d", i)
		}
	}
	if wt, ok := f.u.worldFns[f.goName]; ok {
		out = append(out, nameType{"world", wt})
	}
	return out
}

func (f *g2lFn) compileBody(monad string) (lines []string) {
	f.tmp, f.nloop, f.loops = 0, 0, nil
	f.labelFrames, f.inlineRanges, f.aliases, f.nilAlias, f.loopLabels, f.pendingLabel = nil, nil, nil, nil, nil, ""
	f.objNames, f.usedName = map[types.Object]string{}, map[string]bool{}
	f.deferBody, f.inDefer = nil, false
	f.monad = monad
	sig := f.p.info.Defs[f.fd.Name].Type().(*types.Signature)
	f.results = nil
	f.named = false
	rts := []string{}
	for i := 0; i < sig.Results().Len(); i++ {
		r := sig.Results().At(i)
		f.results = append(f.results, r)
		if r.Name() != "" && r.Name() != "_" {
			f.named = true
		}
		rts = append(rts, f.leanType(r.Type(), f.fd))
	}
	switch len(rts) {
	case 0:
		f.retType = "Unit"
	case 1:
		f.retType = rts[0]
	default:
		f.retType = "(" + strings.Join(rts, " × ") + ")"
	}
	f.labels = map[string]int{}
	for i, st := range f.fd.Body.List {
		if ls, ok := st.(*ast.LabeledStmt); ok {
			f.labels[ls.Label.Name] = i
		}
	}
	f.inoutName, f.inoutIdx = "", 0
	if pn, ok := f.u.inout[f.goName]; ok {
		for i, p := range f.params() {
			if p.name == leanIdent(pn) {
				f.inoutName, f.inoutIdx = p.name, i
				f.retType = "(" + f.retType + " × " + p.typ + ")"
			}
		}
		if f.inoutName == "" {
			f.bad(f.fd, "in-out parameter %s not found", pn)
		}
	}
	f.worldVar, f.worldType = nil, ""
	if wt, ok := f.u.worldFns[f.goName]; ok {
		f.worldType = wt
		f.worldVar = types.NewVar(f.fd.Pos(), f.p.pkg, "world", types.Typ[types.Invalid])
		f.objNames[f.worldVar] = "world"
		f.usedName["world"] = true
		f.retType = "(" + f.retType + " × " + wt + ")"
	}
	f.effType = f.u.effFns[f.goName]
	if f.effType != "" {
		f.retType = "(" + f.retType + " × List " + f.effType + ")"
		lines = append(lines, "let effLog : List "+f.effType+" := []")
	}
	if f.named {
		for _, r := range f.results {
			if r.Name() == "" || r.Name() == "_" {
				f.bad(f.fd, "mixed named and blank results")
			}
			lines = append(lines, fmt.Sprintf("let %s := %s", f.varName(r), f.zero(r.Type(), f.fd)))
		}
	}
	end := func() []string {
		if len(f.results) == 0 {
			if f.deferBody != nil && !f.inDefer {
				// falling off the end of a function with a deferred closure: run it, then return
				f.inDefer = true
				tail := f.stmts(f.deferBody, func() []string { return f.retTerm("()") })
				f.inDefer = false
				return tail
			}
			return f.retTerm("()")
		}
		if f.named {
			return f.retTerm(f.namedTuple())
		}
		f.bad(f.fd, "control reaches the end of a function with results")
		return nil
	}
	f.endK = end
	return append(lines, f.stmts(f.fd.Body.List, end)...)
}

func (f *g2lFn) emit() string {
	f.pure = true
	lines := f.compileBody("M")
	if f.pure && !f.fuel {
		lines = f.compileBody("Id")
	}
	monad := f.monad
	sort.Strings(f.absUsed)
	ps := f.params()
	out := &strings.Builder{}
	absBinder := ""
	absArgs := ""
	for _, a := range f.absUsed {
		absBinder += fmt.Sprintf("(%s : %s) ", a, f.u.absSigs[a])
		absArgs += a + " "
	}
	body := strings.Join(lines, "\n")
	f.checkJoins(body)
	for _, l := range f.loops {
		f.checkJoins(l)
	}
	typeVars := ""
	for _, tv := range sortedVals(f.u.absTypes) {
		typeVars += fmt.Sprintf("{%s : Type} [DecidableEq %s] [Inhabited %s] ", tv, tv, tv)
	}
	for _, tv := range f.u.extraTypeVars {
		// type variables that occur only in function signatures (the world type): no instances needed
		typeVars += fmt.Sprintf("{%s : Type} ", tv)
	}
	usesTV := func(s string) bool {
		for _, tv := range append(sortedVals(f.u.absTypes), f.u.extraTypeVars...) {
			if containsWord(s, tv) {
				return true
			}
		}
		return false
	}
	// a loop of a recursive function that calls the function back: the definitions are mutually recursive
	mutual := false
	if f.rec {
		for _, l := range f.loops {
			if strings.Contains(l, "("+f.leanName+" ") {
				mutual = true
			}
		}
	}
	if mutual {
		out.WriteString("mutual\n")
	}
	defer func() {}()
	for _, l := range f.loops {
		l = strings.ReplaceAll(l, "\x00ABS\x00", absArgs)
		tvs := ""
		if usesTV(l + absBinder) {
			tvs = typeVars
		}
		l = strings.ReplaceAll(l, "\x00ABSP\x00", tvs+absBinder)
		out.WriteString(l + "\n")
	}
	body = strings.ReplaceAll(body, "\x00ABS\x00", absArgs)
	paramStr := ""
	for _, p := range ps {
		paramStr += fmt.Sprintf("(%s : %s) ", p.name, p.typ)
	}
	tvs := ""
	if usesTV(paramStr + f.retType + body + absBinder) {
		tvs = typeVars
	}
	fmt.Fprintf(out, "/-- `%s` (%s) -/\n", f.goName, shortPos(f.pos(f.fd)))
	switch {
	case monad == "Id":
		if len(lines) == 1 && strings.HasPrefix(lines[0], "pure ") {
			fmt.Fprintf(out, "def %s %s%s%s: %s :=\n  %s\n", f.leanName, tvs, absBinder, paramStr, f.retType, strings.TrimPrefix(lines[0], "pure "))
		} else {
			fmt.Fprintf(out, "def %s %s%s%s: %s := Id.run (do\n%s)\n", f.leanName, tvs, absBinder, paramStr, f.retType, indent(body, 2))
		}
	case f.rec:
		tys, pats, wild := []string{}, []string{}, []string{}
		for _, p := range ps {
			tys = append(tys, p.typ)
			pats = append(pats, p.name)
			wild = append(wild, "_")
		}
		fmt.Fprintf(out, "def %s %s%s: Nat → %sM %s\n", f.leanName, tvs, absBinder, arrows(tys), f.retType)
		fmt.Fprintf(out, "  | 0%s => throw Err.fuel\n", prefixEach(wild, ", "))
		fmt.Fprintf(out, "  | fuel + 1%s => (do\n%s)\n", prefixEach(pats, ", "), indent(body, 4))
	case f.fuel:
		fmt.Fprintf(out, "def %s %s%s(fuel : Nat) %s: M %s := do\n%s\n", f.leanName, tvs, absBinder, paramStr, f.retType, indent(body, 2))
	default:
		fmt.Fprintf(out, "def %s %s%s%s: M %s := do\n%s\n", f.leanName, tvs, absBinder, paramStr, f.retType, indent(body, 2))
	}
	if mutual {
		out.WriteString("end\n")
	}
	return out.String()
}

func containsWord(s, w string) bool {
	i := 0
	for {
		j := strings.Index(s[i:], w)
		if j < 0 {
			return false
		}
		j += i
		before := j == 0 || !isWordByte(s[j-1])
		after := j+len(w) >= len(s) || !isWordByte(s[j+len(w)])
		// a struct FIELD of the same name (`{ t with H := … }`, `(t).H`) is not a use of the type variable
		if before && after && !strings.HasPrefix(strings.TrimLeft(s[j+len(w):], " "), ":=") {
			return true
		}
		i = j + len(w)
	}
}

func isWordByte(c byte) bool {
	return c == '_' || c == '.' || c >= '0' && c <= '9' || c >= 'a' && c <= 'z' || c >= 'A' && c <= 'Z'
}

func sortedVals(m map[string]string) []string {
	seen := map[string]bool{}
	out := []string{}
	for _, v := range m {
		if !seen[v] {
			seen[v] = true
			out = append(out, v)
		}
	}
	sort.Strings(out)
	return out
}

// callees of fn within the unit (for ordering)
func (u *g2lUnit) order(p *g2lPkg) []string {
	// a helper the listed functions call (same package, not abstract, not listed) is pulled in automatically, so that a
	// refactoring that merely extracts a helper keeps the unit translatable (the tie proofs notice the change; the
	// regenerated code can still be run against the implementation)
	in := map[string]bool{}
	for _, n := range u.fns {
		in[n] = true
	}
	for i := 0; i < len(u.fns); i++ {
		fd := p.decls[u.fns[i]]
		if fd == nil {
			continue
		}
		ast.Inspect(fd.Body, func(x ast.Node) bool {
			c, ok := x.(*ast.CallExpr)
			if !ok {
				return true
			}
			if id, ok := c.Fun.(*ast.Ident); ok {
				if _, isFn := p.info.Uses[id].(*types.Func); isFn && !in[id.Name] && p.decls[id.Name] != nil && u.absFuncs[id.Name] == "" && !u.exclude[id.Name] {
					if _, other := g2l.fns[u.pkgDir+"."+id.Name]; !other {
						in[id.Name] = true
						u.fns = append(u.fns, id.Name)
					}
				}
			}
			return true
		})
	}
	deps := map[string][]string{}
	for _, n := range u.fns {
		fd := p.decls[n]
		if fd == nil {
			continue
		}
		ast.Inspect(fd.Body, func(x ast.Node) bool {
			c, ok := x.(*ast.CallExpr)
			if !ok {
				return true
			}
			switch fn := c.Fun.(type) {
			case *ast.Ident:
				if in[fn.Name] && fn.Name != n {
					deps[n] = append(deps[n], fn.Name)
				}
			case *ast.SelectorExpr:
				if s, ok := p.info.Selections[fn]; ok && s.Kind() == types.MethodVal {
					rt := s.Recv()
					if pt, ok := rt.(*types.Pointer); ok {
						rt = pt.Elem()
					}
					if nt, ok := rt.(*types.Named); ok {
						m := nt.Obj().Name() + "." + fn.Sel.Name
						if in[m] && m != n {
							deps[n] = append(deps[n], m)
						}
					}
				}
			}
			return true
		})
	}
	done := map[string]int{}
	out := []string{}
	var visit func(n string)
	visit = func(n string) {
		if done[n] != 0 {
			return
		}
		done[n] = 1
		for _, d := range deps[n] {
			visit(d)
		}
		done[n] = 2
		out = append(out, n)
	}
	for _, n := range u.fns {
		visit(n)
	}
	return out
}

func (u *g2lUnit) structDecl(p *g2lPkg, name string, f *g2lFn) string {
	o := p.pkg.Scope().Lookup(name)
	if o == nil {
		return ""
	}
	st, ok := o.Type().Underlying().(*types.Struct)
	if !ok {
		return ""
	}
	b := &strings.Builder{}
	tvs, tvInst := "", ""
	if u.structTV[name] {
		for _, tv := range sortedVals(u.absTypes) {
			tvs += fmt.Sprintf(" (%s : Type)", tv)
			tvInst += fmt.Sprintf(" {%s : Type} [Inhabited %s]", tv, tv)
		}
	}
	fmt.Fprintf(b, "/-- `type %s struct` -/\nstructure %s%s where\n", name, name, tvs)
	zeros := []string{}
	for i := 0; i < st.NumFields(); i++ {
		fl := st.Field(i)
		if keep, ok := u.structFields[name]; ok {
			found := false
			for _, k := range keep {
				if k == fl.Name() {
					found = true
				}
			}
			if !found {
				continue
			}
		}
		fmt.Fprintf(b, "  %s : %s\n", leanIdent(fl.Name()), f.leanType(fl.Type(), f.fd))
		zeros = append(zeros, fmt.Sprintf("%s := %s", leanIdent(fl.Name()), f.zero(fl.Type(), f.fd)))
	}
	switch {
	case u.noEq[name]:
	case u.structTV[name]:
		fmt.Fprintf(b, "  deriving DecidableEq\n")
	default:
		fmt.Fprintf(b, "  deriving DecidableEq, Repr\n")
	}
	fmt.Fprintf(b, "instance%s : Inhabited %s := ⟨{ %s }⟩\n", tvInst, f.structType(name), strings.Join(zeros, ", "))
	return b.String()
}

func g2lEmitUnit(u *g2lUnit) string {
	p := g2lLoad(u.pkgDir)
	b := &strings.Builder{}
	fmt.Fprintf(b, "/- GENERATED by harness/cmd/extract (go2lean) from /repo's working tree: %s.  Do not edit; never committed. -/\n", u.pkgDir)
	fmt.Fprintf(b, "import ModVerif.Basic.GoRt\n")
	for _, im := range u.imports {
		fmt.Fprintf(b, "import %s\n", im)
	}
	fmt.Fprintf(b, "set_option linter.unusedVariables false\nnamespace ModVerif.Generated.%s\nopen ModVerif ModVerif.GoRt %s\n\n", u.ns, strings.Join(u.opens, " "))
	// struct types first (those named in u.structs order)
	dummy := &g2lFn{u: u, p: p}
	u.structTV = map[string]bool{}
	for _, ps := range u.paramStructs {
		u.structTV[ps] = true
	}
	for changed := true; changed; {
		changed = false
		for _, s := range u.structNames {
			o := p.pkg.Scope().Lookup(s)
			if o == nil || u.structTV[s] {
				continue
			}
			st, ok := o.Type().Underlying().(*types.Struct)
			if !ok {
				continue
			}
			for i := 0; i < st.NumFields(); i++ {
				ft := st.Field(i).Type()
				if pt, ok := ft.(*types.Pointer); ok {
					ft = pt.Elem()
				}
				if sl, ok := ft.Underlying().(*types.Slice); ok {
					ft = sl.Elem()
				}
				if n, ok := ft.(*types.Named); ok {
					if _, abs := u.absTypes[n.Obj().Name()]; abs || u.structTV[n.Obj().Name()] {
						u.structTV[s] = true
						changed = true
					}
				}
			}
		}
	}
	for _, s := range u.structNames {
		func() {
			defer func() {
				if r := recover(); r != nil {
					fmt.Fprintf(b, "-- UNTRANSLATABLE struct %s: %v\n\n", s, r)
				}
			}()
			if txt, ok := u.ifaceStructs[s]; ok {
				b.WriteString(txt + "\n")
				return
			}
			if variants, ok := u.sumTypes[s]; ok {
				fmt.Fprintf(b, "/-- `type %s interface`: the sum of the struct types that implement it -/\ninductive %s where\n", s, s)
				for _, v := range variants {
					pt := v
					if _, ok := u.heapTypes[v]; ok {
						pt = "Int"
					}
					if _, ok := u.interior[v]; ok {
						pt = "Int"
					}
					fmt.Fprintf(b, "  | %s (x : %s)\n", v, pt)
				}
				if u.sumNil[s] {
					fmt.Fprintf(b, "  | nil\n  deriving DecidableEq, Repr\n")
					fmt.Fprintf(b, "instance : Inhabited %s := ⟨%s.nil⟩\n", s, s)
				} else {
					fmt.Fprintf(b, "instance : Inhabited %s := ⟨%s.%s default⟩\n", s, s, variants[0])
				}
				flds := []string{}
				for _, fld := range u.embedGet {
					flds = append(flds, fld)
				}
				sort.Strings(flds)
				for i, fld := range flds {
					if i > 0 && flds[i-1] == fld {
						continue
					}
					fmt.Fprintf(b, "/-- the embedded `%s` of whichever variant (interface method) -/\ndef %s_%s : %s → %s\n", fld, s, fld, s, fld)
					for _, v := range variants {
						fmt.Fprintf(b, "  | .%s x => x.%s\n", v, fld)
					}
				}
				b.WriteString("\n")
				return
			}
			dummy.fd = nil
			for _, fd := range p.decls {
				dummy.fd = fd
				break
			}
			b.WriteString(u.structDecl(p, s, dummy) + "\n")
		}()
	}
	if len(u.heapTypes) > 0 {
		// the heap: one list of objects per heap type; helpers that read / write the struct embedded in every variant of a sum type
		hts := sortedKeys(u.heapTypes)
		fmt.Fprintf(b, "/-- the heap: the objects allocated so far, per type (a pointer is the 1-based position; 0 is nil) -/\nstructure Heap where\n")
		inits := []string{}
		for _, t := range hts {
			fmt.Fprintf(b, "  %s : List %s\n", u.heapTypes[t], t)
			inits = append(inits, u.heapTypes[t]+" := []")
		}
		fmt.Fprintf(b, "instance : Inhabited Heap := ⟨{ %s }⟩\n\n", strings.Join(inits, ", "))
		for _, owned := range sortedKeys(u.ownerPtr) {
			sum := u.ownerPtr[owned]
			get := &strings.Builder{}
			set := &strings.Builder{}
			fmt.Fprintf(get, "/-- the `%s` embedded in the node a `%s` value points to -/\ndef %s_get%s (e : %s) (world : Heap) : M %s :=\n  match e with\n", owned, sum, sum, owned, sum, owned)
			fmt.Fprintf(set, "/-- store the `%s` embedded in the node a `%s` value points to -/\ndef %s_set%s (e : %s) (c : %s) (world : Heap) : M Heap :=\n  match e with\n", owned, sum, sum, owned, sum, owned)
			for _, v := range u.sumTypes[sum] {
				if fld, ok := u.heapTypes[v]; ok {
					fmt.Fprintf(get, "  | .%s p => do let t ← heapGet world.%s p; pure t.%s\n", v, fld, owned)
					fmt.Fprintf(set, "  | .%s p => do let t ← heapGet world.%s p; let l ← heapSet world.%s p { t with %s := c }; pure { world with %s := l }\n", v, fld, fld, owned, fld)
				} else if spec, ok := u.interior[v]; ok {
					parts := strings.SplitN(spec, ".", 2)
					fld := u.heapTypes[parts[0]]
					fmt.Fprintf(get, "  | .%s p => do let t ← heapGet world.%s p; pure t.%s.%s\n", v, fld, parts[1], owned)
					fmt.Fprintf(set, "  | .%s p => do let t ← heapGet world.%s p; let l ← heapSet world.%s p { t with %s := { t.%s with %s := c } }; pure { world with %s := l }\n", v, fld, fld, parts[1], parts[1], owned, fld)
				}
			}
			if u.sumNil[sum] {
				fmt.Fprintf(get, "  | .nil => throw Err.panic\n")
				fmt.Fprintf(set, "  | .nil => throw Err.panic\n")
			}
			b.WriteString(get.String() + "\n" + set.String() + "\n")
		}
	}
	if len(u.viewVars) > 0 {
		b.WriteString(g2lTokRefText)
	}
	b.WriteString(u.preamble)
	for _, name := range u.order(p) {
		fd := p.decls[name]
		key := u.pkgDir + "." + name
		if fd == nil {
			fmt.Fprintf(b, "-- UNTRANSLATABLE %s: no such function in %s\n\n", name, u.pkgDir)
			fmt.Fprintf(os.Stderr, "go2lean: %s: no such function\n", key)
			continue
		}
		f := &g2lFn{u: u, p: p, fd: fd, goName: name, leanName: strings.ReplaceAll(name, ".", "_"), checked: u.checked[name]}
		g2l.fns[key] = f
		var text string
		func() {
			defer func() {
				if r := recover(); r != nil {
					msg := fmt.Sprint(r)
					if fl, ok := r.(fail); ok {
						msg = fl.msg
					} else {
						panic(r)
					}
					text = fmt.Sprintf("-- UNTRANSLATABLE %s: %s\n", name, strings.ReplaceAll(msg, "\n", " "))
					fmt.Fprintf(os.Stderr, "go2lean: %s\n", msg)
					delete(g2l.fns, key)
				}
			}()
			text = f.emit()
		}()
		if mid, ok := u.midamble[name]; ok {
			b.WriteString(mid + "\n")
		}
		b.WriteString(text + "\n")
	}
	fmt.Fprintf(b, "end ModVerif.Generated.%s\n", u.ns)
	return b.String()
}

func genGo2Lean() {
	for _, u := range g2lUnits {
		text := g2lEmitUnit(u)
		writeIfChanged(filepath.Join(*out, u.out+".lean"), []byte(text))
	}
}

func sortedKeys(m map[string]string) []string {
	out := []string{}
	for k := range m {
		out = append(out, k)
	}
	sort.Strings(out)
	return out
}

// g2lTokRefText: a Go `[]string` that shares its array with the tokens of a heap Line (args of File.add, toks of
// parseVersionInterval): the line and the offset of the view's first element; the view always extends to the end of the tokens.
const g2lTokRefText = `/-- a ` + "`[]string`" + ` that aliases the tail of a line's tokens: the owning line and the offset of its first element -/
structure TokRef where
  owner : Int
  lo : Int
  deriving DecidableEq, Repr, Inhabited

/-- ` + "`P.Token[k:]`" + ` as a view -/
def TokRef.make (p : Int) (k : Int) (world : Heap) : M TokRef := do
  let l ← heapGet world.lines p
  let _ ← sliceFrom l.Token k
  pure { owner := p, lo := k }
def TokRef.toks (r : TokRef) (world : Heap) : M (List Bytes) := do
  let l ← heapGet world.lines r.owner
  sliceFrom l.Token r.lo
def TokRef.len (r : TokRef) (world : Heap) : M Int := do
  let t ← r.toks world
  pure (ModVerif.GoRt.len t)
def TokRef.get (r : TokRef) (i : Int) (world : Heap) : M Bytes := do
  let t ← r.toks world
  idxL t i
def TokRef.drop (r : TokRef) (k : Int) (world : Heap) : M TokRef := do
  let t ← r.toks world
  let _ ← sliceFrom t k
  pure { r with lo := r.lo + k }
/-- ` + "`v[i] = x`" + `: a store into the line's token array -/
def TokRef.set (r : TokRef) (i : Int) (x : Bytes) (world : Heap) : M Heap := do
  let l ← heapGet world.lines r.owner
  let t ← sliceFrom l.Token r.lo
  let _ ← idxL t i
  let t' ← setIdxL l.Token (r.lo + i) x
  let ls ← heapSet world.lines r.owner { l with Token := t' }
  pure { world with lines := ls }

`

var g2lJoinRe = regexp.MustCompile(`let (k[0-9]+) := fun ((?:\([^()]*(?:\([^()]*\))?[^()]*\) ?)+)=> \(`)
var g2lWorldRebindRe = regexp.MustCompile(`\blet\b[^\n:=←]*\bworld\b[^\n:=←]*(:=|←)`)

// checkJoins: safety net for shared continuations (`let kN := fun params => (…)`, shareK).  A continuation whose body reads
// `world` without taking it as a parameter runs on the world of its DEFINITION; if the world is re-bound between the
// definition and a call, the update is lost (a translator bug of exactly this kind was found by a tie proof: a store through
// a token view was not recognised as a change of the world).  Conservative and textual: any re-binding of `world` between
// the end of the definition and a later call refuses the function.
func (f *g2lFn) checkJoins(text string) {
	for _, m := range g2lJoinRe.FindAllStringSubmatchIndex(text, -1) {
		name := text[m[2]:m[3]]
		params := text[m[4]:m[5]]
		open := m[1] - 1
		depth, end := 0, -1
		for i := open; i < len(text); i++ {
			switch text[i] {
			case '(':
				depth++
			case ')':
				depth--
				if depth == 0 {
					end = i
				}
			}
			if end >= 0 {
				break
			}
		}
		if end < 0 {
			continue
		}
		body := text[open:end]
		if !containsWord(body, "world") || strings.Contains(params, "(world :") {
			continue
		}
		rebound := false
		for _, line := range strings.Split(text[end:], "\n") {
			if containsWord(line, name) && rebound {
				f.bad(f.fd, "internal: the shared continuation %s reads the world of its definition, but the world is re-bound before it is called", name)
			}
			if g2lWorldRebindRe.MatchString(line) {
				rebound = true
			}
		}
	}
}
