package main

import (
	"fmt"
	"go/ast"
	"go/constant"
	"go/token"
	"go/types"
	"strings"
)

// ---------------------------------------------------------------------------------------------------------
// calls

type stdFn struct {
	lean string
	fx   bool // effectful (returns M)
}

// the standard-library functions the translated code may call, with their GoRt counterparts
var g2lStd = map[string]stdFn{
	"strings.HasPrefix":       {"hasPrefix", false},
	"strings.HasSuffix":       {"hasSuffix", false},
	"strings.IndexByte":       {"indexByte", false},
	"strings.LastIndexByte":   {"lastIndexByte", false},
	"strings.Index":           {"index", false},
	"strings.LastIndex":       {"lastIndex", false},
	"strings.Contains":        {"contains", false},
	"strings.ContainsRune":    {"containsRune", false},
	"strings.ContainsAny":     {"containsAny", false},
	"bytes.TrimSpace":         {"trimSpace", false},
	"strings.TrimSpace":       {"trimSpace", false},
	"strings.TrimPrefix":      {"trimPrefix", false},
	"strings.TrimSuffix":      {"trimSuffix", false},
	"strings.Count":           {"count", false},
	"strings.Cut":             {"cut", false},
	"strings.Repeat":          {"repeatB", true},
	"bytes.HasPrefix":         {"hasPrefix", false},
	"bytes.HasSuffix":         {"hasSuffix", false},
	"bytes.IndexByte":         {"indexByte", false},
	"bytes.Index":             {"index", false},
	"bits.TrailingZeros64":    {"trailingZeros64", false},
	"bits.Len64":              {"len64", false},
	"strconv.Itoa":            {"itoa", false},
	"strconv.Atoi":            {"atoi", false},
	"strconv.ParseInt":        {"parseInt", false},
	"strconv.FormatInt":       {"formatInt", false},
	"strings.SplitN":          {"splitN", false},
	"bytes.Count":             {"count", false},
	"utf8.DecodeRune":         {"decodeRune", false},
	"bytes.Contains":          {"contains", false},
	"bytes.Equal":             {"bytesEq", false},
	"bytes.LastIndex":         {"lastIndex", false},
	"bytes.TrimSuffix":        {"trimSuffix", false},
	"bytes.TrimPrefix":        {"trimPrefix", false},
	"strings.Split":           {"split", false},
	"strings.IndexFunc":       {"indexFunc", false},
	"strings.Join":            {"join", false},
	"strings.Fields":          {"fields", false},
	"strings.ToLower":         {"toLowerASCIIorUnicode", false},
	"utf8.RuneError":          {"(65533 : Int)", false},
	"utf8.ValidString":        {"validUtf8", false},
	"utf8.DecodeRuneInString": {"decodeRune", false},
	"utf8.RuneCountInString":  {"runeCount", false},
	"unicode.IsLetter":        {"unicodeIsLetter", false},
	"unicode.IsSpace":         {"unicodeIsSpace", false},
	"unicode.IsPrint":         {"unicodePrint", false},
}

func (f *g2lFn) calleeName(e *ast.CallExpr) (pkg, name string, obj types.Object) {
	switch fn := e.Fun.(type) {
	case *ast.Ident:
		return "", fn.Name, f.p.info.Uses[fn]
	case *ast.SelectorExpr:
		if id, ok := fn.X.(*ast.Ident); ok {
			if pn, ok := f.p.info.Uses[id].(*types.PkgName); ok {
				return pn.Imported().Name(), fn.Sel.Name, f.p.info.Uses[fn.Sel]
			}
		}
		return "", fn.Sel.Name, f.p.info.Uses[fn.Sel]
	}
	return "", "", nil
}

func (f *g2lFn) args(b *binds, e *ast.CallExpr) []string {
	out := []string{}
	sig, _ := f.typeOf(e.Fun).Underlying().(*types.Signature)
	isClosureCall := false
	if id, ok := e.Fun.(*ast.Ident); ok {
		_, isClosureCall = f.closures[f.p.info.Uses[id]]
	}
	if sig != nil && sig.Variadic() && !e.Ellipsis.IsValid() && (f.calleeGoName(e) != "" || isClosureCall) {
		// f(a, b, c) for a translated f(a T, rest ...U): the trailing arguments are the slice `rest`
		n := sig.Params().Len() - 1
		for i := 0; i < n && i < len(e.Args); i++ {
			out = append(out, f.exprAs(b, e.Args[i], sig.Params().At(i).Type()))
		}
		st := sig.Params().At(n).Type().(*types.Slice)
		parts := []string{}
		for i := n; i < len(e.Args); i++ {
			if f.u.anyType == "Unit" && f.leanType(st.Elem(), e) == "Unit" {
				// a value passed as interface{} only to be formatted: evaluated (it may panic), then forgotten
				_ = f.expr(b, e.Args[i])
				parts = append(parts, "()")
				continue
			}
			parts = append(parts, f.exprAs(b, e.Args[i], st.Elem()))
		}
		return append(out, "(["+strings.Join(parts, ", ")+"] : "+f.leanType(st, e)+")")
	}
	for i, a := range e.Args {
		var want types.Type
		if sig != nil && i < sig.Params().Len() && !(sig.Variadic() && i >= sig.Params().Len()-1) {
			want = sig.Params().At(i).Type()
			if f.isViewObj(sig.Params().At(i)) {
				if ue, ok := a.(*ast.UnaryExpr); ok && ue.Op == token.AND {
					a = ue.X
				}
				out = append(out, f.viewOf(b, a))
				continue
			}
		}
		out = append(out, f.exprAs(b, a, want))
	}
	return out
}

func (f *g2lFn) call(b *binds, e *ast.CallExpr) string {
	// conversion?
	if tv, ok := f.p.info.Types[e.Fun]; ok && tv.IsType() {
		if len(e.Args) != 1 {
			f.bad(e, "conversion arity")
		}
		return f.convert(b, tv.Type, e.Args[0], e)
	}
	if id, ok := e.Fun.(*ast.Ident); ok && id.Name == "new" && len(e.Args) == 1 {
		if fld, ok := f.heapField(f.typeOf(e)); ok {
			f.needWorld(e)
			p := f.fresh("p")
			b.add(fmt.Sprintf("let (%s, hl) := heapAlloc ((world).%s) %s", p, fld, f.zero(f.typeOf(e).(*types.Pointer).Elem(), e)))
			b.add(fmt.Sprintf("let world := { (world) with %s := hl }", fld))
			b.noteRebound("world")
			return p
		}
	}
	if sel, ok := e.Fun.(*ast.SelectorExpr); ok && f.u.ownerCalls[sel.Sel.Name] && len(e.Args) == 0 {
		// x.Comment(): the pointer to the embedded Comments of x is the owning sum value
		if sum, ok := f.ownerOf(f.typeOf(e)); ok {
			rt := f.typeOf(sel.X)
			if n, ok := rt.(*types.Named); ok && n.Obj().Name() == sum {
				return f.expr(b, sel.X)
			}
			if pt, ok := rt.(*types.Pointer); ok {
				if n, ok := pt.Elem().(*types.Named); ok {
					return "(" + sum + "." + n.Obj().Name() + " " + f.expr(b, sel.X) + ")"
				}
			}
			f.bad(e, "%s() on %s", sel.Sel.Name, rt)
		}
	}
	if sel, ok := e.Fun.(*ast.SelectorExpr); ok {
		// a method of the interface called on a sum value whose variants are pointers: dispatch on the variant
		if n, ok := f.typeOf(sel.X).(*types.Named); ok && len(f.u.heapTypes) > 0 {
			if variants, ok := f.u.sumTypes[n.Obj().Name()]; ok {
				x := f.expr(b, sel.X)
				args := f.args(b, e)
				arms := []string{}
				for _, v := range variants {
					callee, ok := g2l.fns[f.u.pkgDir+"."+v+"."+sel.Sel.Name]
					if !ok {
						f.bad(e, "dispatch of %s: %s.%s is not translated (list it before this function)", sel.Sel.Name, v, sel.Sel.Name)
					}
					var ib binds
					r := f.callFn(&ib, callee, append([]string{"dp"}, args...), e)
					arm := append(append([]string{}, ib.lines...), fmt.Sprintf("pure (%s, world)", r))
					arms = append(arms, fmt.Sprintf("  | %s.%s dp => %s", n.Obj().Name(), v, f.paren(arm)))
				}
				if f.u.sumNil[n.Obj().Name()] {
					arms = append(arms, fmt.Sprintf("  | %s.nil => throw Err.panic", n.Obj().Name()))
				}
				f.needWorld(e)
				r := f.fresh("dr")
				b.add(fmt.Sprintf("let (%s, world) ← (match %s with\n%s : M (%s × %s))", r, x, strings.Join(arms, "\n"), f.leanType(f.typeOf(e), e), f.worldType))
				b.noteRebound("world")
				return r
			}
		}
	}
	if tf, ok := f.u.walkCalls[strings.Join(strings.Fields(show(e.Fun)), "")]; ok {
		return f.walkCall(b, e, tf)
	}
	if fld, ok := f.u.onceCalls[strings.Join(strings.Fields(show(e.Fun)), "")]; ok {
		return f.onceCall(b, e, fld)
	}
	if fld, ok := f.u.cacheCalls[strings.Join(strings.Fields(show(e.Fun)), "")]; ok {
		return f.cacheCall(b, e, fld)
	}
	if src0 := strings.Join(strings.Fields(show(e.Fun)), ""); src0 == "atomic.LoadUint32" && len(e.Args) == 1 {
		if ue, ok := e.Args[0].(*ast.UnaryExpr); ok && ue.Op == token.AND {
			return f.expr(b, ue.X)
		}
	}
	if f.u.limitedReaders && strings.Join(strings.Fields(show(e.Fun)), "") == "io.Copy" && len(e.Args) == 2 {
		// io.Copy(w, lr) with lr an *io.LimitedReader: read what the limit allows (lr is updated), then write it to w
		if id, ok := e.Args[1].(*ast.Ident); ok && f.leanType(f.typeOf(id), e) == "LimitedReader" {
			data := f.fresh("data")
			b.add(fmt.Sprintf("let (%s, %s) := limRead %s", data, f.name(id), f.name(id)))
			b.noteRebound(f.name(id))
			wfn, ok := f.worldCall("io.Copy")
			if !ok || f.worldVar == nil {
				f.bad(e, "io.Copy from a LimitedReader needs a world call \"io.Copy\" in a world function")
			}
			f.pure = false
			r := f.fresh("wr")
			b.add(fmt.Sprintf("let (%s, world) := %s %s %s world", r, wfn, f.expr(b, e.Args[0]), data))
			b.noteRebound("world")
			return r
		}
	}
	if wfn, ok := f.worldCall(strings.Join(strings.Fields(show(e.Fun)), "")); ok {
		if f.worldVar == nil {
			f.bad(e, "world call %s in a function not listed in worldFns", show(e.Fun))
		}
		args := f.args(b, e)
		if strings.HasSuffix(wfn, ":recv") {
			wfn = strings.TrimSuffix(wfn, ":recv")
			if sel, ok := e.Fun.(*ast.SelectorExpr); ok {
				args = append([]string{f.expr(b, sel.X)}, args...)
			}
		}
		monadic := false
		if strings.HasSuffix(wfn, ":M") {
			// the world function is itself a computation in M (a regenerated function standing behind an interface)
			wfn = strings.TrimSuffix(wfn, ":M")
			monadic = true
		}
		f.useAbsIn(wfn)
		if containsWord(wfn, "fuel") {
			f.fuel = true
		}
		f.pure = false
		r := f.fresh("wr")
		if monadic {
			t := f.bindM(b, strings.TrimSpace(fmt.Sprintf("%s %s", wfn, strings.Join(append(args, "world"), " "))))
			b.add(fmt.Sprintf("let (%s, world) := %s", r, t))
		} else {
			b.add(strings.TrimSpace(fmt.Sprintf("let (%s, world) := %s %s", r, wfn, strings.Join(append(args, "world"), " "))))
		}
		b.noteRebound("world")
		return r
	}
	if p, ok := f.u.absCalls[strings.Join(strings.Fields(show(e.Fun)), "")]; ok {
		args := f.args(b, e)
		if strings.HasSuffix(p, ":recv") {
			p = strings.TrimSuffix(p, ":recv")
			root := e.Fun
			for {
				switch x := root.(type) {
				case *ast.SelectorExpr:
					root = x.X
					continue
				case *ast.CallExpr:
					root = x.Fun
					continue
				}
				break
			}
			args = append([]string{f.expr(b, root)}, args...)
		}
		f.useAbs(p)
		return "(" + p + " " + strings.Join(args, " ") + ")"
	}
	if s, ok := f.u.stdCalls[strings.Join(strings.Fields(show(e.Fun)), "")]; ok {
		args := f.args(b, e)
		if sel, ok := e.Fun.(*ast.SelectorExpr); ok {
			isPkg := false
			root := sel.X
			for {
				if s2, ok := root.(*ast.SelectorExpr); ok {
					root = s2.X
					continue
				}
				break
			}
			if id, ok := root.(*ast.Ident); ok {
				_, isPkg = f.p.info.Uses[id].(*types.PkgName)
			}
			if !isPkg {
				// a method of a foreign type (os.FileMode.IsRegular): the receiver is the first argument
				args = append([]string{f.expr(b, sel.X)}, args...)
			}
		}
		if containsWord(s.lean, "fuel") {
			f.fuel = true
		}
		f.useAbsIn(s.lean)
		t := "(" + s.lean + " " + strings.Join(args, " ") + ")"
		if s.fx {
			return f.bindM(b, t)
		}
		return t
	}
	if sel, ok := e.Fun.(*ast.SelectorExpr); ok {
		// a call through a function-typed struct field: v.verify(msg, sig)
		if s, ok := f.p.info.Selections[sel]; ok && s.Kind() == types.FieldVal {
			if _, isSig := s.Type().Underlying().(*types.Signature); isSig {
				return "(" + f.expr(b, sel) + " " + strings.Join(f.args(b, e), " ") + ")"
			}
		}
	}
	if id, ok := e.Fun.(*ast.Ident); ok {
		if v, ok := f.p.info.Uses[id].(*types.Var); ok {
			if n, ok := v.Type().(*types.Named); ok {
				if _, isOpt := f.u.optFuncs[n.Obj().Name()]; isOpt {
					// fix(path, vers) for a function value that may be nil: calling nil panics
					return f.bindM(b, fmt.Sprintf("(match %s with | some g => pure (g %s) | none => throw Err.panic)", f.varName(v), strings.Join(f.args(b, e), " ")))
				}
			}
		}
	}
	if id, ok := e.Fun.(*ast.Ident); ok {
		if v, ok := f.p.info.Uses[id].(*types.Var); ok && f.isWorldFnVar(v) {
			// less(a, b) where less holds one of the package's world functions
			f.needWorld(e)
			t := f.bindM(b, "("+f.varName(v)+" "+strings.Join(append(f.args(b, e), "world"), " ")+")")
			r := f.fresh("wr")
			b.add(fmt.Sprintf("let (%s, world) := %s", r, t))
			b.noteRebound("world")
			return r
		}
	}
	if srcT := strings.Join(strings.Fields(show(e.Fun)), ""); (srcT == "sort.SliceStable" || srcT == "sort.Slice") && len(e.Args) == 2 && f.worldVar != nil {
		return f.sortSliceCall(b, e)
	}
	if id, ok := e.Fun.(*ast.Ident); ok {
		if v, ok := f.p.info.Uses[id].(*types.Var); ok {
			if _, isSig := v.Type().Underlying().(*types.Signature); isSig {
				if _, isClosure := f.closures[v]; !isClosure {
					return "(" + f.varName(v) + " " + strings.Join(f.args(b, e), " ") + ")"
				}
			}
		}
	}
	if strings.Join(strings.Fields(show(e.Fun)), "") == "io.Copy" && len(e.Args) == 2 {
		if dst, ok := e.Args[0].(*ast.Ident); ok && f.leanType(f.typeOf(dst), e) == "Bytes" {
			src := f.expr(b, e.Args[1])
			b.add(fmt.Sprintf("let %s := %s ++ %s", f.name(dst), f.name(dst), src))
			b.noteRebound(f.name(dst))
			return "((len " + src + "), (none : Option String))"
		}
	}
	if id, ok := e.Fun.(*ast.Ident); ok {
		if cl, ok := f.closures[f.p.info.Uses[id]]; ok {
			args := f.args(b, e)
			all := append(append(append([]string{}, cl.captured...), args...), cl.modified...)
			t := f.bindM(b, "("+cl.lean+" \x00ABS\x00fuel "+strings.Join(all, " ")+")")
			if len(cl.modified) == 0 {
				return t
			}
			r := f.fresh("cr")
			b.add(fmt.Sprintf("let (%s, %s) := %s", r, tuple(cl.modified), t))
			for _, m := range cl.modified {
				b.noteRebound(m)
			}
			return r
		}
	}
	pkg, name, obj := f.calleeName(e)
	if p, ok := f.u.absFuncs[pkg+"."+name]; ok && pkg != "" {
		f.useAbs(p)
		return "(" + p + " " + strings.Join(f.args(b, e), " ") + ")"
	}
	if _, ok := obj.(*types.Builtin); ok {
		switch name {
		case "len":
			if v, ok := f.viewVar(e.Args[0]); ok {
				f.needWorld(e)
				return f.bindM(b, fmt.Sprintf("TokRef.len %s world", v))
			}
			return "(len " + f.expr(b, e.Args[0]) + ")"
		case "append":
			base := f.expr(b, e.Args[0])
			st := f.typeOf(e.Args[0])
			isBytes := isByteSlice(st)
			if e.Ellipsis.IsValid() {
				return "(" + base + " ++ " + f.expr(b, e.Args[1]) + ")"
			}
			parts := []string{}
			var elemT types.Type
			if sl, ok := st.Underlying().(*types.Slice); ok {
				elemT = sl.Elem()
			}
			for _, a := range e.Args[1:] {
				x := f.exprAs(b, a, elemT)
				if isBytes {
					x = "mkByte " + x
				}
				parts = append(parts, x)
			}
			return "(" + base + " ++ [" + strings.Join(parts, ", ") + "])"
		case "make":
			t := f.typeOf(e)
			if _, ok := t.Underlying().(*types.Map); ok {
				return "([] : " + f.leanType(t, e) + ")"
			}
			sl, ok := t.Underlying().(*types.Slice)
			if !ok || len(e.Args) < 2 {
				f.bad(e, "make of %s", t)
			}
			if len(e.Args) == 3 {
				// make([]T, 0, cap): capacity is not observable
				n := f.expr(b, e.Args[1])
				if n != "(0 : Int)" {
					f.bad(e, "make with length and capacity")
				}
				return "([] : " + f.leanType(t, e) + ")"
			}
			z := f.zero(sl.Elem(), e)
			if intKindOf(sl.Elem()) == kU8 {
				z = "(0 : UInt8)"
			}
			return f.bindM(b, fmt.Sprintf("makeList %s %s", f.expr(b, e.Args[1]), z))
		}
		f.bad(e, "builtin %s", name)
	}
	// abstract function (e.g. NodeHash)
	if pkg == "" {
		if p, ok := f.u.absFuncs[name]; ok {
			f.useAbs(p)
			return "(" + p + " " + strings.Join(f.args(b, e), " ") + ")"
		}
	}
	if sel, ok := e.Fun.(*ast.SelectorExpr); ok {
		if fld, ok := f.u.embedGet[sel.Sel.Name]; ok && len(e.Args) == 0 {
			rt := f.typeOf(sel.X)
			if pt, ok := rt.(*types.Pointer); ok {
				rt = pt.Elem()
			}
			if n, ok := rt.(*types.Named); ok {
				if _, ok := f.u.sumTypes[n.Obj().Name()]; ok {
					return "(" + n.Obj().Name() + "_" + fld + " " + f.expr(b, sel.X) + ")"
				}
				return "((" + f.expr(b, sel.X) + ")." + fld + ")"
			}
		}
		if s, ok := f.p.info.Selections[sel]; ok && s.Kind() == types.MethodVal && len(s.Index()) == 2 {
			// a method promoted from an embedded bytes.Buffer: p.Bytes(), p.Len()
			rt := s.Recv()
			if pt, ok := rt.(*types.Pointer); ok {
				rt = pt.Elem()
			}
			if st, ok := rt.Underlying().(*types.Struct); ok && isBytesBuffer(st.Field(s.Index()[0]).Type()) {
				buf := "((" + f.expr(b, sel.X) + ")." + leanIdent(st.Field(s.Index()[0]).Name()) + ")"
				switch sel.Sel.Name {
				case "Bytes", "String":
					return buf
				case "Len":
					return "(len " + buf + ")"
				}
			}
		}
	}
	if sel, ok := e.Fun.(*ast.SelectorExpr); ok {
		if tv, ok := f.p.info.Types[sel.X]; ok && tv.Type != nil && isBytesBuffer(tv.Type) {
			switch sel.Sel.Name {
			case "String", "Bytes":
				return f.expr(b, sel.X)
			case "Len":
				return "(len " + f.expr(b, sel.X) + ")"
			}
			f.bad(e, "bytes.Buffer method %s in an expression", sel.Sel.Name)
		}
	}
	// interface method call r.ReadHashes(x): the value is a function
	if sel, ok := e.Fun.(*ast.SelectorExpr); ok {
		if s, ok := f.p.info.Selections[sel]; ok && s.Kind() == types.MethodVal {
			rt := s.Recv()
			if p, ok := rt.(*types.Pointer); ok {
				rt = p.Elem()
			}
			if n, ok := rt.(*types.Named); ok {
				if _, ok := f.u.ifaceStructs[n.Obj().Name()]; ok {
					return strings.TrimSpace("((" + f.expr(b, sel.X) + ")." + leanIdent(sel.Sel.Name) + " " + strings.Join(f.args(b, e), " ") + ")")
				}
				if _, ok := f.u.ifaces[n.Obj().Name()]; ok {
					return "(" + f.expr(b, sel.X) + " " + strings.Join(f.args(b, e), " ") + ")"
				}
				key := f.u.pkgDir + "." + n.Obj().Name() + "." + sel.Sel.Name
				if callee, ok := g2l.fns[key]; ok {
					if f.isWorldObj(rt) {
						return f.callFn(b, callee, f.args(b, e), e)
					}
					recv := f.expr(b, sel.X)
					return f.callFn(b, callee, append([]string{recv}, f.args(b, e)...), e)
				}
			}
			f.bad(e, "method call %s", show(e.Fun))
		}
	}
	if pkg == "" {
		if callee, ok := g2l.fns[f.u.pkgDir+"."+name]; ok {
			if callee.inoutName != "" && callee.inoutIdx < len(e.Args) {
				if _, isId := e.Args[callee.inoutIdx].(*ast.Ident); !isId {
					// reverseComments(x.Comment().Suffix): the updated slice is stored back where the argument came from
					args := f.args(b, e)
					tmp := f.fresh("ia")
					b.add(fmt.Sprintf("let %s := %s", tmp, args[callee.inoutIdx]))
					args[callee.inoutIdx] = tmp
					r := f.callFn(b, callee, args, e)
					lines := []string{}
					target := e.Args[callee.inoutIdx]
					if ue, ok := target.(*ast.UnaryExpr); ok && ue.Op == token.AND {
						// addReplace(f.Syntax, &f.Replace, …): the updated slice goes back into the place whose address was passed
						target = ue.X
					}
					f.assignOne(&lines, target, tmp, f.typeOf(target))
					for _, l := range lines {
						b.add(l)
					}
					b.noteRebound("world")
					return r
				}
			}
			return f.callFn(b, callee, f.args(b, e), e)
		}
		f.bad(e, "call to %s, which is not in the translated set", name)
	}
	if ext, ok := f.u.externs[pkg+"."+name]; ok {
		a := f.args(b, e)
		if f.u.externFue[pkg+"."+name] {
			f.fuel = true
			a = append([]string{"fuel"}, a...)
		}
		f.useAbsIn(ext)
		t := "(" + ext + " " + strings.Join(a, " ") + ")"
		if f.u.externFx[pkg+"."+name] {
			return f.bindM(b, t)
		}
		return t
	}
	if s, ok := g2lStd[pkg+"."+name]; ok {
		t := "(" + s.lean + " " + strings.Join(f.args(b, e), " ") + ")"
		if s.fx {
			return f.bindM(b, t)
		}
		return t
	}
	if pkg == "fmt" && name == "Sprintf" {
		return f.sprintf(b, e)
	}
	// error constructors
	if (pkg == "fmt" && name == "Errorf") || (pkg == "errors" && name == "New") {
		if len(e.Args) >= 1 {
			if tv, ok := f.p.info.Types[e.Args[0]]; ok && tv.Value != nil {
				// the message is identified by its format literal; an error-typed argument (%v / %w of an inner error) is kept
				for _, a := range e.Args[1:] {
					if isErrorType(f.typeOf(a)) {
						return fmt.Sprintf("(wrapErr %s %s)", tv.Value.ExactString(), f.expr(b, a))
					}
				}
				return fmt.Sprintf("(some %s)", tv.Value.ExactString())
			}
			if isString(f.typeOf(e.Args[0])) {
				// the format is a variable (errorf := func(format string, args ...interface{}) { … fmt.Errorf(format, args...) }):
				// the message is still identified by its format; the arguments are evaluated (they may panic) and dropped
				fm := f.expr(b, e.Args[0])
				for _, a := range e.Args[1:] {
					_ = f.expr(b, a)
				}
				return fmt.Sprintf("(some (bytesToStr %s))", fm)
			}
		}
	}
	f.bad(e, "call to %s.%s", pkg, name)
	return ""
}

// useAbsIn: every abstract parameter of the unit that the Lean term mentions (E in `E.readRemote`, `parseTreeX E`) is used
func (f *g2lFn) useAbsIn(term string) {
	for name := range f.u.absSigs {
		// `E`, `E.readRemote`, `parseTreeX E`: the name as an identifier or as the root of a field path
		for _, tok := range strings.FieldsFunc(term, func(r rune) bool {
			return !(r == '_' || r >= '0' && r <= '9' || r >= 'a' && r <= 'z' || r >= 'A' && r <= 'Z' || r > 127)
		}) {
			if tok == name {
				f.useAbs(name)
			}
		}
	}
}

func (f *g2lFn) useAbs(p string) {
	if i := strings.IndexByte(p, '.'); i > 0 {
		p = p[:i]
	}
	for _, x := range f.absUsed {
		if x == p {
			return
		}
	}
	f.absUsed = append(f.absUsed, p)
}

func (f *g2lFn) callFn(b *binds, callee *g2lFn, args []string, at ast.Node) string {
	pre := []string{}
	for _, a := range callee.absUsed {
		f.useAbs(a)
		pre = append(pre, a)
	}
	if callee.fuel {
		f.fuel = true
		pre = append(pre, "fuel")
	}
	if _, ok := callee.u.worldFns[callee.goName]; ok {
		if f.worldVar == nil {
			f.bad(at, "call to the world function %s from a function that does not thread the world", callee.goName)
		}
		var call string
		if callee == f {
			call = "(" + callee.leanName + " \x00ABS\x00fuel " + strings.Join(append(args, "world"), " ") + ")"
			f.rec, f.fuel, f.pure = true, true, false
		} else {
			call = "(" + callee.leanName + " " + strings.Join(append(append(pre, args...), "world"), " ") + ")"
		}
		t := call
		if callee == f || !callee.pure {
			t = f.bindM(b, call)
		}
		r := f.fresh("wr")
		b.add(fmt.Sprintf("let (%s, world) := %s", r, t))
		b.noteRebound("world")
		if callee.inoutName != "" {
			// the callee also returns its in-out parameter: (result, param) inside the world pair
			target := args[callee.inoutIdx]
			if !isSimpleTerm(target) {
				f.bad(at, "in-out argument %s is not a variable", target)
			}
			r2 := f.fresh("io")
			b.add(fmt.Sprintf("let (%s, %s) := %s", r2, target, r))
			b.noteRebound(target)
			return r2
		}
		return r
	}
	if callee.inoutName != "" {
		// the callee returns its mutated map/pointer parameter as an extra last result: rebind the caller's variable
		target := args[callee.inoutIdx]
		if !isSimpleTerm(target) {
			f.bad(at, "in-out argument %s is not a variable", target)
		}
		var call string
		if callee == f {
			call = "(" + callee.leanName + " \x00ABS\x00fuel " + strings.Join(args, " ") + ")"
			f.rec, f.fuel, f.pure = true, true, false
		} else {
			call = "(" + callee.leanName + " " + strings.Join(append(pre, args...), " ") + ")"
		}
		var t string
		if callee == f || !callee.pure {
			t = f.bindM(b, call)
		} else {
			t = call
		}
		r := f.fresh("io")
		b.add(fmt.Sprintf("let (%s, %s) := %s", r, target, t))
		b.noteRebound(target)
		return r
	}
	if callee == f {
		f.rec = true
		f.fuel = true
		f.pure = false
		// the abstract parameters of f itself are only known once the whole body is compiled
		return f.bindM(b, "("+callee.leanName+" \x00ABS\x00fuel "+strings.Join(args, " ")+")")
	}
	t := "(" + callee.leanName + " " + strings.Join(append(pre, args...), " ") + ")"
	if len(pre)+len(args) == 0 {
		t = callee.leanName
	}
	if callee == f || !callee.pure {
		return f.bindM(b, t)
	}
	return t
}

// ---------------------------------------------------------------------------------------------------------
// statements
//
// A block is a list of Lean do-lines whose last line is a terminal term.  `k` produces the lines that
// follow when control falls off the end of the statement list.

func (f *g2lFn) name(id *ast.Ident) string {
	var o types.Object = f.p.info.Defs[id]
	if o == nil {
		o = f.p.info.Uses[id]
	}
	if o == nil || id.Name == "_" {
		return leanIdent(id.Name)
	}
	return f.varName(o)
}

// varName gives every Go variable OBJECT its own Lean name: a second variable with the same Go name (shadowing in an
// inner scope) gets a numeric suffix, so that inlined continuations never see the wrong binding.
func (f *g2lFn) varName(o types.Object) string {
	if n, ok := f.objNames[o]; ok {
		return n
	}
	if _, ok := o.(*types.Var); !ok {
		return leanIdent(o.Name())
	}
	base := leanIdent(o.Name())
	for _, tv := range f.u.absTypes {
		if base == tv {
			base += "_"
		}
	}
	for _, sn := range f.u.structNames {
		// a variable named like a struct type of the unit (`token []string` next to `type token struct`) would shadow the type
		if base == sn {
			base += "_"
		}
	}
	n := base
	for i := 1; f.usedName[n]; i++ {
		n = fmt.Sprintf("%s_%d", base, i)
	}
	f.usedName[n] = true
	f.objNames[o] = n
	return n
}

func (f *g2lFn) retTerm(vals string) []string {
	if f.inClosure {
		if len(f.closOuts) > 0 {
			vals = "(" + vals + ", " + tuple(f.closOuts) + ")"
		}
		return f.retRaw(vals)
	}
	if f.inoutName != "" {
		vals = "(" + vals + ", " + f.inoutName + ")"
	}
	if f.effType != "" {
		vals = "(" + vals + ", effLog)"
	}
	if f.worldVar != nil {
		vals = "(" + vals + ", world)"
	}
	return f.retRaw(vals)
}

// retRaw returns a complete result value (effect log included)
func (f *g2lFn) retRaw(vals string) []string {
	if f.inLoop != nil {
		if !f.inLoop.hasRet {
			die("%s: internal: return inside a loop without a return channel", f.goName)
		}
		return []string{"pure (Ctl.ret " + vals + ")"}
	}
	return []string{"pure " + vals}
}

func (f *g2lFn) namedTuple() string {
	parts := []string{}
	for _, r := range f.results {
		parts = append(parts, f.varName(r))
	}
	return tuple(parts)
}

func tuple(parts []string) string {
	if len(parts) == 0 {
		return "()"
	}
	if len(parts) == 1 {
		return parts[0]
	}
	return "(" + strings.Join(parts, ", ") + ")"
}

func (f *g2lFn) falls(list []ast.Stmt) bool {
	for _, s := range list {
		if !f.fallsStmt(s) {
			return false
		}
	}
	return true
}

func (f *g2lFn) fallsStmt(s ast.Stmt) bool {
	switch s := s.(type) {
	case *ast.ReturnStmt:
		return false
	case *ast.BranchStmt:
		return false
	case *ast.ExprStmt:
		if c, ok := s.X.(*ast.CallExpr); ok {
			if id, ok := c.Fun.(*ast.Ident); ok && id.Name == "panic" {
				return false
			}
			if f.isPanicCall(c) {
				return false
			}
		}
		return true
	case *ast.BlockStmt:
		return f.falls(s.List)
	case *ast.IfStmt:
		if s.Else == nil {
			return true
		}
		return f.falls(s.Body.List) || f.fallsStmt(s.Else)
	case *ast.SwitchStmt:
		hasDefault := false
		for _, c := range s.Body.List {
			cc := c.(*ast.CaseClause)
			if cc.List == nil {
				hasDefault = true
			}
			if f.falls(cc.Body) || containsBreak(cc.Body) {
				return true
			}
		}
		return !hasDefault
	case *ast.ForStmt:
		if s.Cond == nil && !containsBreak(s.Body.List) {
			return false
		}
		return true
	}
	return true
}

func containsBreak(list []ast.Stmt) bool {
	found := false
	for _, s := range list {
		ast.Inspect(s, func(n ast.Node) bool {
			switch n := n.(type) {
			case *ast.ForStmt, *ast.RangeStmt, *ast.SwitchStmt, *ast.FuncLit:
				return false
			case *ast.BranchStmt:
				if n.Tok == token.BREAK {
					found = true
				}
			}
			return true
		})
	}
	return found
}

type kont func() []string

func (f *g2lFn) stmts(list []ast.Stmt, k kont) []string {
	if len(list) == 0 {
		return k()
	}
	// labels of plain (non-loop) statements of this list: targets of a forward goto from inside nested statements
	if key := &list[len(list)-1]; f.labelFrameOf(key) == nil {
		var lbl map[string]int
		for i, st := range list {
			if ls, ok := st.(*ast.LabeledStmt); ok {
				switch ls.Stmt.(type) {
				case *ast.ForStmt, *ast.RangeStmt:
				default:
					if lbl == nil {
						lbl = map[string]int{}
					}
					lbl[ls.Label.Name] = i
				}
			}
		}
		if lbl != nil {
			f.labelFrames = append(f.labelFrames, &labelFrame{key: key, labels: lbl, list: list, k: k, loop: f.inLoop})
		}
	}
	s := list[0]
	rest := func() []string { return f.stmts(list[1:], k) }
	switch s := s.(type) {
	case *ast.ReturnStmt:
		var b binds
		var vals string
		switch {
		case len(s.Results) == 0:
			vals = f.namedTuple()
		case len(s.Results) == 1 && len(f.results) == 1:
			vals = f.exprAs(&b, s.Results[0], f.results[0].Type())
		case len(s.Results) == 1:
			vals = f.expr(&b, s.Results[0])
		default:
			parts := []string{}
			results := append([]ast.Expr{}, s.Results...)
			// `return nil, &T{x}` with T configured in errCarry: x travels in the first result slot
			if len(results) == 2 {
				if id, ok := results[0].(*ast.Ident); ok && id.Name == "nil" {
					if ue, ok := results[1].(*ast.UnaryExpr); ok && ue.Op == token.AND {
						if cl, ok := ue.X.(*ast.CompositeLit); ok && len(cl.Elts) == 1 {
							if n, ok := f.typeOf(cl).(*types.Named); ok && f.u.errCarry[n.Obj().Name()] {
								results[0] = cl.Elts[0]
							}
						}
					}
				}
			}
			for i, r := range results {
				parts = append(parts, f.exprAs(&b, r, f.results[i].Type()))
			}
			vals = tuple(parts)
		}
		if f.deferBody != nil && !f.inDefer {
			// Go: assign the results, run the deferred closure (it may rewrite the named results), return them
			lines := append([]string{}, b.lines...)
			if len(s.Results) > 0 {
				names := []string{}
				for _, r := range f.results {
					names = append(names, f.varName(r))
				}
				lines = append(lines, fmt.Sprintf("let %s := %s", tuple(names), vals))
			}
			f.inDefer = true
			tail := f.stmts(f.deferBody, func() []string { return f.retTerm(f.namedTuple()) })
			f.inDefer = false
			return append(lines, tail...)
		}
		return append(b.lines, f.retTerm(vals)...)
	case *ast.BranchStmt:
		if s.Tok == token.GOTO && s.Label != nil {
			// forward goto to a label at the top level of the function body: the rest of the function, from the label on
			idx, ok := f.labels[s.Label.Name]
			if !ok {
				// a label of an enclosing statement list (not inside a loop): the rest of that list, then its continuation
				for i := len(f.labelFrames) - 1; i >= 0; i-- {
					fr := f.labelFrames[i]
					if j, ok := fr.labels[s.Label.Name]; ok && fr.loop == nil {
						savedLoop, savedBrk := f.inLoop, f.brk
						f.inLoop, f.brk = nil, nil
						code := f.stmts(fr.list[j:], fr.k)
						f.inLoop, f.brk = savedLoop, savedBrk
						if savedLoop == nil {
							return code
						}
						r := f.fresh("g")
						if f.gotoVars == nil {
							f.gotoVars = map[string]bool{}
						}
						f.gotoVars[r] = true
						return []string{fmt.Sprintf("let %s ← %s", r, f.paren(code)), "pure (Ctl.ret " + r + ")"}
					}
				}
				f.bad(s, "goto %s (only labels of an enclosing statement list outside loops)", s.Label.Name)
			}
			savedLoop, savedBrk := f.inLoop, f.brk
			f.inLoop, f.brk = nil, nil
			code := f.stmts(f.fd.Body.List[idx:], f.endK)
			f.inLoop, f.brk = savedLoop, savedBrk
			if savedLoop == nil {
				return code
			}
			r := f.fresh("g")
			return []string{fmt.Sprintf("let %s ← %s", r, f.paren(code)), "pure (Ctl.ret " + r + ")"}
		}
		if s.Label != nil {
			// break / continue of a labelled loop from inside a switch of its body (not from an inner loop)
			lt, ok := f.loopLabels[s.Label.Name]
			if !ok || lt.loop != f.inLoop {
				f.bad(s, "labelled %s (only to the innermost enclosing loop)", s.Tok)
			}
			if s.Tok == token.BREAK {
				return lt.brk.onBreak()
			}
			if s.Tok == token.CONTINUE && lt.brk.onContinue != nil {
				return lt.brk.onContinue()
			}
			f.bad(s, "labelled %s", s.Tok)
		}
		if f.brk == nil {
			f.bad(s, "%s outside a loop", s.Tok)
		}
		if s.Tok == token.BREAK {
			return f.brk.onBreak()
		}
		if s.Tok == token.CONTINUE {
			if f.brk.onContinue == nil {
				f.bad(s, "continue inside switch")
			}
			return f.brk.onContinue()
		}
		f.bad(s, "%s", s.Tok)
	case *ast.ExprStmt:
		if c, ok := s.X.(*ast.CallExpr); ok {
			if id, ok := c.Fun.(*ast.Ident); ok && id.Name == "panic" {
				f.pure = false
				return []string{"throw Err.panic"}
			}
		}
		if c, ok := s.X.(*ast.CallExpr); ok {
			if id, ok := c.Fun.(*ast.Ident); ok && f.u.inlineFns[id.Name] {
				return f.inlineCall(c, id.Name, rest)
			}
			if f.isPanicCall(c) {
				f.pure = false
				return []string{"throw Err.panic"}
			}
			if l, ok := f.exprStmtCall(c); ok {
				return append(l, rest()...)
			}
			// a call to a translated function evaluated for its effect on an in-out receiver / parameter
			if _, name, _ := f.calleeName(c); name != "" {
				var b binds
				func() {
					defer func() {
						if r := recover(); r != nil {
							if _, isFail := r.(fail); !isFail {
								panic(r)
							}
							panic(r)
						}
					}()
					f.call(&b, c)
				}()
				return append(b.lines, rest()...)
			}
		}
		f.bad(s, "expression statement %s", show(s.X))
	case *ast.BlockStmt:
		return f.stmts(s.List, rest)
	case *ast.IfStmt:
		return f.ifStmt(s, rest)
	case *ast.SwitchStmt:
		return f.switchStmt(s, rest)
	case *ast.ForStmt:
		return f.forStmt(s, rest)
	case *ast.TypeSwitchStmt:
		return f.typeSwitch(s, rest)
	case *ast.RangeStmt:
		return f.rangeStmt(s, rest)
	case *ast.EmptyStmt:
		return rest()
	case *ast.LabeledStmt:
		switch s.Stmt.(type) {
		case *ast.ForStmt, *ast.RangeStmt:
			f.pendingLabel = s.Label.Name
		}
		return f.stmts(append([]ast.Stmt{s.Stmt}, list[1:]...), k)
	case *ast.GoStmt:
		// `go func(params){…}(args)`: the goroutine is run to completion at the point where it is started (the
		// schedule is not modelled here; DESIGN §6 C14 treats the interleavings at machine level)
		lit, ok := s.Call.Fun.(*ast.FuncLit)
		if !ok || containsReturnValue(lit.Body) {
			f.bad(s, "go statement (only `go func(…){…}(…)` without result-returning statements)")
		}
		var b binds
		lines := []string{}
		argi := 0
		for _, fld := range lit.Type.Params.List {
			for _, n := range fld.Names {
				if argi >= len(s.Call.Args) {
					f.bad(s, "go statement arity")
				}
				v := f.expr(&b, s.Call.Args[argi])
				argi++
				lines = append(lines, b.lines...)
				b.lines = nil
				lines = append(lines, fmt.Sprintf("let %s := %s", f.name(n), v))
			}
		}
		return append(lines, f.stmts(lit.Body.List, rest)...)
	case *ast.DeferStmt:
		if sel, ok := s.Call.Fun.(*ast.SelectorExpr); ok && f.u.ignoreCalls[sel.Sel.Name] {
			return rest()
		}
		if fl, ok := s.Call.Fun.(*ast.FuncLit); ok && f.u.ignoreRecover && callsRecover(fl.Body) {
			// defer func() { if e := recover(); e != nil { … } }(): a panic stays a panic (Err.panic) here
			return rest()
		}
		fl, ok := s.Call.Fun.(*ast.FuncLit)
		if !ok || len(s.Call.Args) != 0 || f.deferBody != nil || !(f.named || len(f.results) == 0) || f.inLoop != nil || containsReturn(fl.Body) {
			f.bad(s, "defer (only a leading `defer func() {…}()` over the named results is supported)")
		}
		f.deferBody = fl.Body.List
		return rest()
	default:
		lines := f.simple(s)
		return append(lines, rest()...)
	}
	return nil
}

type brkTarget struct {
	onBreak    kont
	onContinue kont
}

// paren turns block lines into one parenthesised term
func (f *g2lFn) paren(lines []string) string {
	if len(lines) == 1 && !strings.HasPrefix(lines[0], "let ") {
		return "(" + lines[0] + ")"
	}
	return "(do\n" + indent(strings.Join(lines, "\n"), 2) + ")"
}

// shareK evaluates the continuation once; when it is needed at several places a short one is duplicated as
// text and a long one becomes a local join function over the variables in `vars`.
func (f *g2lFn) shareK(k kont, uses int, vars []*types.Var, pre *[]string) kont {
	if uses <= 1 {
		return k
	}
	lines := k()
	if strings.Count(strings.Join(lines, "\n"), "\n") < 3 {
		return func() []string { return append([]string{}, lines...) }
	}
	name := f.fresh("k")
	params, argl := []string{}, []string{}
	for _, v := range vars {
		params = append(params, fmt.Sprintf("(%s : %s)", f.varName(v), f.varType(v, f.fd)))
		argl = append(argl, f.varName(v))
	}
	if len(params) == 0 {
		params = []string{"(_ : Unit)"}
		argl = []string{"()"}
	}
	*pre = append(*pre, fmt.Sprintf("let %s := fun %s => (%s : %s)", name, strings.Join(params, " "), f.paren(lines), f.blockType()))
	return func() []string { return []string{name + " " + strings.Join(argl, " ")} }
}

func (f *g2lFn) blockType() string {
	if f.inLoop != nil {
		return "M " + f.inLoop.resType
	}
	return "M " + f.retType
}

// assignedOuter: variables assigned in the statements that were declared before `before`
func (f *g2lFn) assignedOuter(nodes []ast.Node, before token.Pos) []*types.Var {
	seen := map[*types.Var]bool{}
	out := []*types.Var{}
	depth := 0
	var addRef func(e ast.Expr)
	add := func(e ast.Expr) {
		for {
			switch x := e.(type) {
			case *ast.SelectorExpr:
				if len(f.u.heapTypes) > 0 {
					if _, isPtr := f.typeOf(x.X).(*types.Pointer); isPtr {
						_, h := f.heapField(f.typeOf(x.X))
						_, _, in := f.interiorOf(f.typeOf(x.X))
						_, ow := f.ownerOf(f.typeOf(x.X))
						if h || in || ow {
							// a store through a pointer changes the heap, not the pointer variable
							if f.worldVar != nil && f.declaredBefore(f.worldVar, before) && !seen[f.worldVar] {
								seen[f.worldVar] = true
								out = append(out, f.worldVar)
							}
							return
						}
					}
				}
				e = x.X
				continue
			case *ast.IndexExpr:
				if _, isV := f.viewVar(x.X); isV {
					// a store through a view of a line's tokens changes the heap, not the view variable
					if f.worldVar != nil && f.declaredBefore(f.worldVar, before) && !seen[f.worldVar] {
						seen[f.worldVar] = true
						out = append(out, f.worldVar)
					}
					return
				}
				e = x.X
				continue
			case *ast.ParenExpr:
				e = x.X
				continue
			case *ast.UnaryExpr:
				if x.Op == token.AND {
					e = x.X
					continue
				}
			case *ast.StarExpr:
				e = x.X
				continue
			}
			break
		}
		id, ok := e.(*ast.Ident)
		if !ok || id.Name == "_" {
			return
		}
		if al, ok := f.aliases[f.p.info.Uses[id]]; ok && al != nil && al != ast.Expr(id) {
			// an assignment through an alias parameter is an assignment to the place it stands for
			if depth < 8 {
				depth++
				addRef(al)
				depth--
			}
			return
		}
		var o types.Object = f.p.info.Uses[id]
		if o == nil {
			o = f.p.info.Defs[id]
		}
		v, ok := o.(*types.Var)
		if ok && f.isWorldObj(v.Type()) {
			// an assignment to a field of the world object changes the world
			if f.worldVar != nil && f.declaredBefore(f.worldVar, before) && !seen[f.worldVar] {
				seen[f.worldVar] = true
				out = append(out, f.worldVar)
			}
			return
		}
		if !ok || !f.declaredBefore(v, before) || seen[v] {
			return
		}
		if v.Parent() == f.p.pkg.Scope() {
			return
		}
		seen[v] = true
		out = append(out, v)
	}
	addRef = add
	for _, n := range nodes {
		if n == nil {
			continue
		}
		ast.Inspect(n, func(n ast.Node) bool {
			switch n := n.(type) {
			case *ast.FuncLit:
				return f.isGoLit(n)
			case *ast.AssignStmt:
				for _, l := range n.Lhs {
					add(l)
				}
			case *ast.IncDecStmt:
				add(n.X)
			case *ast.UnaryExpr:
				if n.Op == token.AND && len(f.u.heapTypes) > 0 {
					if _, ok := f.heapField(f.typeOf(n)); ok && f.worldVar != nil && f.declaredBefore(f.worldVar, before) && !seen[f.worldVar] {
						seen[f.worldVar] = true
						out = append(out, f.worldVar)
					}
				}
			case *ast.CallExpr:
				if len(f.u.heapTypes) > 0 && f.worldVar != nil && f.declaredBefore(f.worldVar, before) && !seen[f.worldVar] {
					if id, ok := n.Fun.(*ast.Ident); ok && id.Name == "new" {
						seen[f.worldVar] = true
						out = append(out, f.worldVar)
					}
					if sel, ok := n.Fun.(*ast.SelectorExpr); ok {
						if nt, ok := f.typeOf(sel.X).(*types.Named); ok {
							if _, ok := f.u.sumTypes[nt.Obj().Name()]; ok && !f.u.ownerCalls[sel.Sel.Name] && !seen[f.worldVar] {
								seen[f.worldVar] = true
								out = append(out, f.worldVar)
							}
						}
					}
				}
				if _, ok := f.u.walkCalls[strings.Join(strings.Fields(show(n.Fun)), "")]; ok && len(n.Args) == 2 {
					if lit, ok := n.Args[1].(*ast.FuncLit); ok {
						for _, v := range f.assignedOuter([]ast.Node{lit.Body}, lit.Pos()) {
							if f.declaredBefore(v, before) && !seen[v] {
								seen[v] = true
								out = append(out, v)
							}
						}
					}
				}
				if f.worldVar != nil && f.isWorldCall(n) && f.declaredBefore(f.worldVar, before) && !seen[f.worldVar] {
					seen[f.worldVar] = true
					out = append(out, f.worldVar)
				}
				if f.u.limitedReaders && strings.Join(strings.Fields(show(n.Fun)), "") == "io.Copy" && len(n.Args) == 2 {
					add(n.Args[1])
				}
				// a call to a local closure assigns to the captured variables it modifies
				if id, ok := n.Fun.(*ast.Ident); ok {
					if cl, ok := f.closures[f.p.info.Uses[id]]; ok {
						for _, v := range cl.modV {
							if f.declaredBefore(v, before) && !seen[v] {
								seen[v] = true
								out = append(out, v)
							}
						}
					}
				}
				if sel, ok := n.Fun.(*ast.SelectorExpr); ok {
					if id, ok := sel.X.(*ast.Ident); ok {
						if tv, ok := f.p.info.Types[id]; ok && tv.Type != nil && (isBytesBuffer(tv.Type) || f.isAccum(tv.Type)) && strings.HasPrefix(sel.Sel.Name, "Write") {
							add(id)
						}
						// p.printf(…) / p.Truncate(n) write to the buffer embedded in p
						if tv, ok := f.p.info.Types[id]; ok && tv.Type != nil {
							rt := tv.Type
							if pt, ok := rt.(*types.Pointer); ok {
								rt = pt.Elem()
							}
							if n3, ok := rt.(*types.Named); ok {
								if _, ok := f.u.printfTo[n3.Obj().Name()+"."+sel.Sel.Name]; ok || sel.Sel.Name == "Truncate" {
									add(id)
								}
							}
						}
						// a call to an in-out method assigns to its receiver
						if s, ok := f.p.info.Selections[sel]; ok && s.Kind() == types.MethodVal {
							rt := s.Recv()
							if pt, ok := rt.(*types.Pointer); ok {
								rt = pt.Elem()
							}
							if n2, ok := rt.(*types.Named); ok {
								if _, ok := f.u.inout[n2.Obj().Name()+"."+sel.Sel.Name]; ok {
									if callee, ok := g2l.fns[f.u.pkgDir+"."+n2.Obj().Name()+"."+sel.Sel.Name]; ok && callee.inoutIdx > 0 {
										// the in-out parameter is not the receiver: f.add(&errs, …)
										if callee.inoutIdx-1 < len(n.Args) {
											add(n.Args[callee.inoutIdx-1])
										}
									} else {
										add(id)
									}
								}
							}
						}
					}
				}
				if src0 := strings.Join(strings.Fields(show(n.Fun)), ""); (src0 == "io.Copy" || src0 == "fmt.Fprintf" || f.u.mutCalls[src0] != "") && len(n.Args) >= 1 {
					add(n.Args[0])
				} else if src0 == "binary.BigEndian.PutUint32" && len(n.Args) == 2 {
					if se, ok := n.Args[0].(*ast.SliceExpr); ok {
						add(se.X)
					}
				}
				// a call to a function with an in-out parameter assigns to the argument (a variable, or a place in the heap)
				if id, ok := n.Fun.(*ast.Ident); ok {
					if callee, ok := g2l.fns[f.u.pkgDir+"."+id.Name]; ok && callee.inoutName != "" && callee.inoutIdx < len(n.Args) {
						add(n.Args[callee.inoutIdx])
					}
				}
				if id, ok := n.Fun.(*ast.Ident); ok && id.Name == "delete" && len(n.Args) == 2 {
					add(n.Args[0])
				}
				if srcS := strings.Join(strings.Fields(show(n.Fun)), ""); (srcS == "sort.SliceStable" || srcS == "sort.Slice") && len(n.Args) == 2 {
					add(n.Args[0])
				}
				// copy(dst[...], src) assigns to dst
				if id, ok := n.Fun.(*ast.Ident); ok && id.Name == "copy" && len(n.Args) == 2 {
					if se, ok := n.Args[0].(*ast.SliceExpr); ok {
						add(se.X)
					}
				}
			case *ast.RangeStmt:
				if n.Tok == token.ASSIGN {
					if n.Key != nil {
						add(n.Key)
					}
					if n.Value != nil {
						add(n.Value)
					}
				}
			}
			return true
		})
	}
	return out
}

func (f *g2lFn) ifStmt(s *ast.IfStmt, rest kont) []string {
	lines := []string{}
	if s.Init != nil {
		lines = append(lines, f.simple(s.Init)...)
	}
	var b binds
	c := f.expr(&b, s.Cond)
	lines = append(lines, b.lines...)
	if c == "false" || c == "true" {
		// statically decided (e.g. `known == nil` for an interface value that is never nil): the dead branch is not translated
		var live []ast.Stmt
		if c == "true" {
			live = s.Body.List
		} else if s.Else != nil {
			live = []ast.Stmt{s.Else}
		}
		return append(lines, f.stmts(live, rest)...)
	}
	uses := 0
	if f.falls(s.Body.List) {
		uses++
	}
	var elseList []ast.Stmt
	if s.Else != nil {
		switch e := s.Else.(type) {
		case *ast.BlockStmt:
			elseList = e.List
		default:
			elseList = []ast.Stmt{e}
		}
	}
	if s.Else == nil || f.falls(elseList) {
		uses++
	}
	nodes := []ast.Node{s.Body}
	if s.Else != nil {
		nodes = append(nodes, s.Else)
	}
	k := f.shareK(rest, uses, f.assignedOuter(nodes, s.Pos()), &lines)
	th := f.stmts(s.Body.List, k)
	el := f.stmts(elseList, k)
	lines = append(lines, fmt.Sprintf("if %s then %s else %s", c, f.paren(th), f.paren(el)))
	return lines
}

func (f *g2lFn) switchStmt(s *ast.SwitchStmt, rest kont) []string {
	lines := []string{}
	if s.Init != nil {
		lines = append(lines, f.simple(s.Init)...)
	}
	tag := ""
	var tagT types.Type
	if s.Tag != nil {
		var b binds
		tag = f.expr(&b, s.Tag)
		lines = append(lines, b.lines...)
		tagT = f.typeOf(s.Tag)
		if !isSimpleTerm(tag) {
			t := f.fresh("sw")
			lines = append(lines, fmt.Sprintf("let %s := %s", t, tag))
			tag = t
		}
	}
	var clauses []*ast.CaseClause
	var def *ast.CaseClause
	uses := 0
	nodes := []ast.Node{}
	for _, c := range s.Body.List {
		cc := c.(*ast.CaseClause)
		for _, st := range cc.Body {
			if br, ok := st.(*ast.BranchStmt); ok && br.Tok == token.FALLTHROUGH {
				f.bad(br, "fallthrough")
			}
		}
		if cc.List == nil {
			def = cc
		} else {
			clauses = append(clauses, cc)
		}
		if f.falls(cc.Body) {
			uses++
		}
		if containsBreak(cc.Body) {
			uses += 2
		}
		nodes = append(nodes, cc)
	}
	if def == nil {
		uses++
	}
	k := f.shareK(rest, uses, f.assignedOuter(nodes, s.Pos()), &lines)
	saved := f.brk
	var cont kont
	if saved != nil {
		cont = saved.onContinue
	}
	f.brk = &brkTarget{onBreak: k, onContinue: cont}
	defer func() { f.brk = saved }()
	var build func(i int) []string
	build = func(i int) []string {
		if i == len(clauses) {
			if def != nil {
				return f.stmts(def.Body, k)
			}
			return k()
		}
		cc := clauses[i]
		var b binds
		conds := []string{}
		for _, e := range cc.List {
			x := f.expr(&b, e)
			if s.Tag != nil {
				if isBool(tagT) {
					x = "(" + tag + " == " + x + ")"
				} else {
					x = "decide (" + tag + " = " + x + ")"
				}
			}
			conds = append(conds, x)
		}
		c := strings.Join(conds, " || ")
		if len(conds) > 1 {
			c = "(" + c + ")"
		}
		out := append([]string{}, b.lines...)
		th := f.stmts(cc.Body, k)
		el := build(i + 1)
		return append(out, fmt.Sprintf("if %s then %s else %s", c, f.paren(th), f.paren(el)))
	}
	return append(lines, build(0)...)
}

func isSimpleTerm(s string) bool {
	return !strings.ContainsAny(s, " \n(")
}

// ---------------------------------------------------------------------------------------------------------
// simple statements

func (f *g2lFn) assignOne(lines *[]string, lhs ast.Expr, term string, lt types.Type) {
	if se, ok := lhs.(*ast.SelectorExpr); ok && len(f.aliases) > 0 {
		if id, ok := se.X.(*ast.Ident); ok {
			if al, ok := f.aliases[f.p.info.Uses[id]]; ok {
				// the alias stands for X[i]: assign to X[i].field
				sel2 := &ast.SelectorExpr{X: al, Sel: se.Sel}
				if s0, ok := f.p.info.Selections[se]; ok {
					f.p.info.Selections[sel2] = s0
				}
				if tv, ok := f.p.info.Types[se]; ok {
					f.p.info.Types[sel2] = tv
				}
				f.assignOne(lines, sel2, term, lt)
				return
			}
		}
	}
	switch l := lhs.(type) {
	case *ast.Ident:
		if l.Name == "_" {
			return
		}
		*lines = append(*lines, fmt.Sprintf("let %s := %s", f.name(l), term))
	case *ast.SelectorExpr:
		// x.a.b.c = v  ==>  let x := { x with a := { x.a with b := { x.a.b with c := v } } }
		if len(f.u.heapTypes) > 0 {
			// x.a.b = v where some prefix is a pointer to a heap object: read the object, update the field path, write it back
			hchain := []string{}
			hcur := ast.Expr(l)
			for {
				se, ok := hcur.(*ast.SelectorExpr)
				if !ok {
					break
				}
				// the full field path of this selection (promoted fields included)
				seg := []string{}
				if sl, ok := f.p.info.Selections[se]; ok && sl.Kind() == types.FieldVal {
					t := f.typeOf(se.X)
					for _, ix := range sl.Index() {
						if pt, ok := t.(*types.Pointer); ok {
							t = pt.Elem()
						}
						st, ok := t.Underlying().(*types.Struct)
						if !ok {
							break
						}
						seg = append(seg, leanIdent(st.Field(ix).Name()))
						t = st.Field(ix).Type()
					}
				} else {
					seg = []string{leanIdent(se.Sel.Name)}
				}
				hchain = append(seg, hchain...)
				hcur = se.X
				if _, isPtr := f.typeOf(hcur).(*types.Pointer); isPtr {
					chainCopy := append([]string{}, hchain...)
					if f.storeHeap(lines, hcur, func(cur string) string {
						val := term
						for i := len(chainCopy) - 1; i >= 0; i-- {
							path := "(" + cur + ")"
							for _, c := range chainCopy[:i] {
								path = "(" + path + "." + c + ")"
							}
							val = fmt.Sprintf("{ %s with %s := %s }", path, chainCopy[i], val)
						}
						return val
					}) {
						return
					}
				}
			}
		}
		chain := []string{leanIdent(l.Sel.Name)}
		cur := l.X
		worldBase := false
		for {
			if f.isWorldObj(f.typeOf(cur)) {
				worldBase = true
				break
			}
			if se, ok := cur.(*ast.SelectorExpr); ok {
				chain = append([]string{leanIdent(se.Sel.Name)}, chain...)
				cur = se.X
				continue
			}
			break
		}
		if worldBase {
			if f.worldVar == nil {
				f.bad(lhs, "assignment to a field of a world object in a function that does not thread the world")
			}
			val := term
			for i := len(chain) - 1; i >= 0; i-- {
				path := "(world)"
				for _, c := range chain[:i] {
					path = "(" + path + "." + c + ")"
				}
				val = fmt.Sprintf("{ %s with %s := %s }", path, chain[i], val)
			}
			*lines = append(*lines, "let world := "+val)
			return
		}
		if id0, ok := cur.(*ast.Ident); ok {
			// zerr.path = dir on an error object obtained by a type assertion: error values carry only their kind here
			if t0 := f.typeOf(id0); t0 != nil && g2lImplementsError(t0) && !isErrorType(t0) {
				return
			}
		}
		base, ok := cur.(*ast.Ident)
		if !ok {
			// general case (x.list[i].field = v): rebuild the enclosing value and assign that
			var b binds
			outer := f.expr(&b, l.X)
			*lines = append(*lines, b.lines...)
			f.assignOne(lines, l.X, fmt.Sprintf("{ %s with %s := %s }", outer, leanIdent(l.Sel.Name), term), f.typeOf(l.X))
			return
		}
		val := term
		for i := len(chain) - 1; i >= 0; i-- {
			path := "(" + f.name(base) + ")"
			for _, c := range chain[:i] {
				path = "(" + path + "." + c + ")"
			}
			val = fmt.Sprintf("{ %s with %s := %s }", path, chain[i], val)
		}
		*lines = append(*lines, fmt.Sprintf("let %s := %s", f.name(base), val))
	case *ast.IndexExpr:
		if v, ok := f.viewVar(l.X); ok {
			var b binds
			i := f.expr(&b, l.Index)
			*lines = append(*lines, b.lines...)
			f.needWorld(lhs)
			f.pure = false
			*lines = append(*lines, fmt.Sprintf("let world ← TokRef.set %s %s %s world", v, i, term))
			return
		}
		base, ok := l.X.(*ast.Ident)
		if !ok {
			// general case (x.list[i] = v): the updated list is assigned to x.list
			if _, isMap := f.typeOf(l.X).Underlying().(*types.Map); isMap {
				var b binds
				outer := f.expr(&b, l.X)
				i := f.expr(&b, l.Index)
				*lines = append(*lines, b.lines...)
				f.assignOne(lines, l.X, fmt.Sprintf("(mapSet %s %s %s)", outer, i, term), f.typeOf(l.X))
				return
			}
			var b binds
			outer := f.expr(&b, l.X)
			i := f.expr(&b, l.Index)
			*lines = append(*lines, b.lines...)
			f.pure = false
			op := "setIdxL"
			if isByteSlice(f.typeOf(l.X)) {
				op = "setIdx"
			}
			t := f.fresh("t")
			*lines = append(*lines, fmt.Sprintf("let %s ← %s %s %s %s", t, op, outer, i, term))
			f.assignOne(lines, l.X, t, f.typeOf(l.X))
			return
		}
		var b binds
		i := f.expr(&b, l.Index)
		*lines = append(*lines, b.lines...)
		if _, ok := f.typeOf(l.X).Underlying().(*types.Map); ok {
			*lines = append(*lines, fmt.Sprintf("let %s := mapSet %s %s %s", f.name(base), f.name(base), i, term))
			return
		}
		f.pure = false
		op := "setIdxL"
		if isByteSlice(f.typeOf(l.X)) {
			op = "setIdx"
		}
		*lines = append(*lines, fmt.Sprintf("let %s ← %s %s %s %s", f.name(base), op, f.name(base), i, term))
	case *ast.StarExpr:
		if id, ok := l.X.(*ast.Ident); ok {
			if al, ok := f.aliases[f.p.info.Uses[id]]; ok && al != nil {
				// *param = v where the (inlined) parameter stands for the caller's place
				f.assignOne(lines, al, term, lt)
				return
			}
		}
		// *p = v where p points to a heap object: replace the object
		if len(f.u.heapTypes) > 0 {
			if f.storeHeap(lines, l.X, func(cur string) string { return term }) {
				return
			}
		}
		// *p = v where p is a pointer parameter (an in-out parameter of the function)
		if id, ok := l.X.(*ast.Ident); ok {
			if f.inoutName != f.name(id) && !f.inClosure {
				f.bad(lhs, "store through the pointer parameter %s of a function that is not configured in-out for it (the caller would not see it)", id.Name)
			}
			*lines = append(*lines, fmt.Sprintf("let %s := %s", f.name(id), term))
			return
		}
		f.bad(lhs, "assignment through %s", show(lhs))
	default:
		f.bad(lhs, "assignment target %s", show(lhs))
	}
}

func (f *g2lFn) simple(s ast.Stmt) []string {
	lines := []string{}
	switch s := s.(type) {
	case *ast.AssignStmt:
		if s.Tok == token.DEFINE && len(s.Lhs) == 1 && len(s.Rhs) == 1 {
			if ue, ok := s.Rhs[0].(*ast.UnaryExpr); ok && ue.Op == token.AND {
				if ix, ok := ue.X.(*ast.IndexExpr); ok {
					// com := &line.Suffix[0]
					if f.aliases == nil {
						f.aliases = map[types.Object]ast.Expr{}
					}
					f.aliases[f.p.info.Defs[s.Lhs[0].(*ast.Ident)]] = ix
					return lines
				}
			}
		}
		if len(s.Lhs) == 1 && len(s.Rhs) == 1 && f.isWorldObj(f.typeOf(s.Rhs[0])) {
			// c := r.c — another name for the world object; c.tileReader.c = c — a link between world objects
			return lines
		}
		if s.Tok == token.DEFINE && len(s.Lhs) == 1 && len(s.Rhs) == 1 {
			if lit, ok := s.Rhs[0].(*ast.FuncLit); ok {
				if f.u.lambdaClosures && len(lit.Body.List) == 1 {
					if _, isRet := lit.Body.List[0].(*ast.ReturnStmt); isRet {
						var lb binds
						v := f.expr(&lb, lit)
						if len(lb.lines) == 0 {
							return []string{fmt.Sprintf("let %s := %s", f.name(s.Lhs[0].(*ast.Ident)), v)}
						}
					}
				}
				f.defineClosure(s.Lhs[0].(*ast.Ident), lit)
				return lines
			}
		}
		if s.Tok != token.ASSIGN && s.Tok != token.DEFINE {
			// compound assignment x op= y
			op := map[token.Token]token.Token{token.ADD_ASSIGN: token.ADD, token.SUB_ASSIGN: token.SUB, token.MUL_ASSIGN: token.MUL,
				token.QUO_ASSIGN: token.QUO, token.REM_ASSIGN: token.REM, token.SHL_ASSIGN: token.SHL, token.SHR_ASSIGN: token.SHR,
				token.AND_ASSIGN: token.AND, token.OR_ASSIGN: token.OR, token.XOR_ASSIGN: token.XOR, token.AND_NOT_ASSIGN: token.AND_NOT}[s.Tok]
			be := &ast.BinaryExpr{X: s.Lhs[0], Op: op, Y: s.Rhs[0], OpPos: s.TokPos}
			f.p.info.Types[be] = types.TypeAndValue{Type: f.typeOf(s.Lhs[0])}
			var b binds
			t := f.binary(&b, be)
			lines = append(lines, b.lines...)
			f.assignOne(&lines, s.Lhs[0], t, f.typeOf(s.Lhs[0]))
			return lines
		}
		if len(s.Rhs) == 1 && len(s.Lhs) > 1 {
			var b binds
			t := f.expr(&b, s.Rhs[0])
			lines = append(lines, b.lines...)
			pats := []string{}
			later := []func(){}
			for _, l := range s.Lhs {
				if id, ok := l.(*ast.Ident); ok {
					pats = append(pats, f.name(id))
					continue
				}
				tmp := f.fresh("a")
				pats = append(pats, tmp)
				l := l
				later = append(later, func() { f.assignOne(&lines, l, tmp, nil) })
			}
			lines = append(lines, fmt.Sprintf("let (%s) := %s", strings.Join(pats, ", "), t))
			for _, g := range later {
				g()
			}
			return lines
		}
		if len(s.Lhs) != len(s.Rhs) {
			f.bad(s, "assignment arity")
		}
		if len(s.Lhs) == 1 {
			var b binds
			var want types.Type
			if id, ok := s.Lhs[0].(*ast.Ident); !ok || id.Name != "_" {
				want = f.typeOf(s.Lhs[0])
			}
			var t string
			if _, isV := f.viewVar(s.Lhs[0]); isV {
				t = f.viewOf(&b, s.Rhs[0])
			} else {
				t = f.exprAs(&b, s.Rhs[0], want)
			}
			lines = append(lines, b.lines...)
			f.assignOne(&lines, s.Lhs[0], t, nil)
			return lines
		}
		// parallel assignment: evaluate all right-hand sides first
		tmps := []string{}
		for i, r := range s.Rhs {
			var b binds
			var want types.Type
			if id, ok := s.Lhs[i].(*ast.Ident); !ok || id.Name != "_" {
				want = f.typeOf(s.Lhs[i])
			}
			t := f.exprAs(&b, r, want)
			lines = append(lines, b.lines...)
			tmp := f.fresh("a")
			lines = append(lines, fmt.Sprintf("let %s := %s", tmp, t))
			tmps = append(tmps, tmp)
		}
		for i, l := range s.Lhs {
			f.assignOne(&lines, l, tmps[i], nil)
		}
		return lines
	case *ast.IncDecStmt:
		one := &ast.BasicLit{Kind: token.INT, Value: "1"}
		f.p.info.Types[one] = types.TypeAndValue{Type: f.typeOf(s.X), Value: constantOne}
		op := token.ADD
		if s.Tok == token.DEC {
			op = token.SUB
		}
		be := &ast.BinaryExpr{X: s.X, Op: op, Y: one}
		f.p.info.Types[be] = types.TypeAndValue{Type: f.typeOf(s.X)}
		var b binds
		t := f.binary(&b, be)
		lines = append(lines, b.lines...)
		f.assignOne(&lines, s.X, t, nil)
		return lines
	case *ast.DeclStmt:
		gd, ok := s.Decl.(*ast.GenDecl)
		if !ok || gd.Tok != token.VAR {
			if ok && gd.Tok == token.CONST {
				return lines // constants are folded at their uses
			}
			if ok && gd.Tok == token.TYPE {
				return lines // a local type: used through the configured localTypes
			}
			f.bad(s, "declaration")
		}
		for _, sp := range gd.Specs {
			vs := sp.(*ast.ValueSpec)
			for i, n := range vs.Names {
				if n.Name == "_" {
					continue
				}
				if len(vs.Values) == 0 {
					o := f.p.info.Defs[n]
					lines = append(lines, fmt.Sprintf("let %s := %s", f.name(n), f.zero(o.Type(), n)))
				} else if len(vs.Values) == len(vs.Names) {
					var b binds
					t := f.expr(&b, vs.Values[i])
					lines = append(lines, b.lines...)
					lines = append(lines, fmt.Sprintf("let %s := %s", f.name(n), t))
				} else {
					f.bad(s, "var with tuple initialiser")
				}
			}
		}
		return lines
	}
	f.bad(s, "statement %T", s)
	return nil
}

// sprintf translates fmt.Sprintf with a literal format over %d, %0Nd, %s and %v (of strings and integers)
func (f *g2lFn) sprintf(b *binds, e *ast.CallExpr) string {
	tv, ok := f.p.info.Types[e.Args[0]]
	if !ok || tv.Value == nil {
		f.bad(e, "Sprintf with a non-literal format")
	}
	format := constant.StringVal(tv.Value)
	parts := []string{}
	lit := ""
	flush := func() {
		if lit != "" {
			parts = append(parts, bytesLit(lit))
			lit = ""
		}
	}
	arg := 1
	for i := 0; i < len(format); i++ {
		c := format[i]
		if c != '%' {
			lit += string(c)
			continue
		}
		i++
		if i < len(format) && format[i] == '%' {
			lit += "%"
			continue
		}
		width := 0
		zero := false
		if i < len(format) && format[i] == '0' {
			zero = true
			i++
		}
		for i < len(format) && format[i] >= '0' && format[i] <= '9' {
			width = width*10 + int(format[i]-'0')
			i++
		}
		if i >= len(format) || arg >= len(e.Args) {
			f.bad(e, "Sprintf format %q", format)
		}
		a := e.Args[arg]
		arg++
		at := f.typeOf(a)
		x := f.expr(b, a)
		flush()
		switch verb := format[i]; {
		case (verb == 'd' || verb == 'v') && intKindOf(at) != notInt:
			if width > 0 && zero {
				parts = append(parts, fmt.Sprintf("(padDec %d %s)", width, x))
			} else if width == 0 {
				parts = append(parts, "(itoa "+x+")")
			} else {
				f.bad(e, "Sprintf width without zero padding")
			}
		case (verb == 's' || verb == 'v') && isBytesLike(at) && width == 0:
			parts = append(parts, x)
		case verb == 'x' && isBytesLike(at) && width == 0:
			parts = append(parts, "(hexBytes "+x+")")
		case (verb == 's' || verb == 'v') && width == 0 && isErrorType(at):
			parts = append(parts, "(errBytes "+x+")")
		case (verb == 's' || verb == 'v') && width == 0 && f.absStringer(at) != "":
			parts = append(parts, "("+f.absStringer(at)+" "+x+")")
		default:
			f.bad(e, "Sprintf verb %%%c of %s", verb, at)
		}
	}
	flush()
	if len(parts) == 0 {
		return "([] : Bytes)"
	}
	return "(" + strings.Join(parts, " ++ ") + ")"
}

// exprStmtCall: calls used as statements: copy(dst, src) and interface methods configured as effects
func (f *g2lFn) exprStmtCall(c *ast.CallExpr) ([]string, bool) {
	if src0 := strings.Join(strings.Fields(show(c.Fun)), ""); src0 == "atomic.StoreUint32" && len(c.Args) == 2 {
		if ue, ok := c.Args[0].(*ast.UnaryExpr); ok && ue.Op == token.AND {
			var b binds
			v := f.expr(&b, c.Args[1])
			lines := b.lines
			f.assignOne(&lines, ue.X, v, f.typeOf(ue.X))
			return lines, true
		}
	}
	if src0 := strings.Join(strings.Fields(show(c.Fun)), ""); src0 == "fmt.Fprintf" && len(c.Args) >= 2 {
		// fmt.Fprintf(&buf, format, args…) into a local bytes.Buffer
		if ue, ok := c.Args[0].(*ast.UnaryExpr); ok && ue.Op == token.AND {
			if id, ok := ue.X.(*ast.Ident); ok && isBytesBuffer(f.typeOf(id)) {
				var b binds
				c2 := &ast.CallExpr{Fun: c.Fun, Args: c.Args[1:], Lparen: c.Lparen, Rparen: c.Rparen}
				txt := f.sprintf(&b, c2)
				return append(b.lines, fmt.Sprintf("let %s := %s ++ %s", f.name(id), f.name(id), txt)), true
			}
		}
	}
	if id, ok := c.Fun.(*ast.Ident); ok && id.Name == "delete" && len(c.Args) == 2 {
		if _, isB := f.p.info.Uses[id].(*types.Builtin); isB {
			var db binds
			m := f.expr(&db, c.Args[0])
			k := f.expr(&db, c.Args[1])
			lines := append([]string{}, db.lines...)
			f.assignOne(&lines, c.Args[0], fmt.Sprintf("(mapDelete %s %s)", m, k), f.typeOf(c.Args[0]))
			return lines, true
		}
	}
	var b binds
	if id, ok := c.Fun.(*ast.Ident); ok && id.Name == "copy" && len(c.Args) == 2 {
		se, ok := c.Args[0].(*ast.SliceExpr)
		if !ok {
			return nil, false
		}
		base, ok := se.X.(*ast.Ident)
		if !ok {
			// copy(x.Stmt[i+2:], x.Stmt[i+1:]): any assignable destination; the source value is taken first
			if se.High != nil {
				return nil, false
			}
			src := f.expr(&b, c.Args[1])
			st := f.fresh("cs")
			b.add(fmt.Sprintf("let %s := %s", st, src))
			dst := f.expr(&b, se.X)
			lo := "(0 : Int)"
			if se.Low != nil {
				lo = f.expr(&b, se.Low)
			}
			f.pure = false
			op := "copyAtL"
			if isByteSlice(f.typeOf(se.X)) {
				op = "copyAt"
			}
			t := f.bindM(&b, fmt.Sprintf("%s %s %s %s", op, dst, lo, st))
			lines := append([]string{}, b.lines...)
			f.assignOne(&lines, se.X, t, f.typeOf(se.X))
			return lines, true
		}
		src := f.expr(&b, c.Args[1])
		bt := f.typeOf(se.X)
		if n, ok := bt.(*types.Named); ok {
			if _, ok := f.u.absTypes[n.Obj().Name()]; ok && se.Low == nil && se.High == nil {
				p, ok := f.u.absFuncs["copy->"+n.Obj().Name()]
				if !ok {
					return nil, false
				}
				f.useAbs(p)
				return append(b.lines, fmt.Sprintf("let %s := %s %s", f.name(base), p, src)), true
			}
		}
		if isByteSlice(bt) && se.High == nil {
			lo := "(0 : Int)"
			if se.Low != nil {
				lo = f.expr(&b, se.Low)
			}
			f.pure = false
			return append(b.lines, fmt.Sprintf("let %s ← copyAt %s %s %s", f.name(base), f.name(base), lo, src)), true
		}
		return nil, false
	}
	if sel, ok := c.Fun.(*ast.SelectorExpr); ok && f.u.ignoreCalls[sel.Sel.Name] {
		return []string{}, true
	}
	src0 := strings.Join(strings.Fields(show(c.Fun)), "")
	if src0 == "fmt.Fprintf" && len(c.Args) >= 2 {
		if dst, ok := c.Args[0].(*ast.Ident); ok && f.leanType(f.typeOf(dst), c) == "Bytes" {
			c2 := *c
			c2.Args = c.Args[1:]
			txt := f.sprintf(&b, &c2)
			return append(b.lines, fmt.Sprintf("let %s := %s ++ %s", f.name(dst), f.name(dst), txt)), true
		}
	}
	if src0 == "binary.BigEndian.PutUint32" && len(c.Args) == 2 {
		if se, ok := c.Args[0].(*ast.SliceExpr); ok && se.Low == nil && se.High == nil {
			if dst, ok := se.X.(*ast.Ident); ok {
				v := f.expr(&b, c.Args[1])
				f.pure = false
				return append(b.lines, fmt.Sprintf("let %s ← bePut32 %s %s", f.name(dst), f.name(dst), v)), true
			}
		}
	}
	if fn, ok := f.u.mutCalls[src0]; ok && len(c.Args) == 1 {
		if dst, ok := c.Args[0].(*ast.Ident); ok {
			return []string{fmt.Sprintf("let %s := %s %s", f.name(dst), fn, f.name(dst))}, true
		}
	}
	if sel, ok := c.Fun.(*ast.SelectorExpr); ok {
		if id, ok := sel.X.(*ast.Ident); ok {
			rt := f.typeOf(id)
			if pt, ok := rt.(*types.Pointer); ok {
				rt = pt.Elem()
			}
			if n, ok := rt.(*types.Named); ok {
				if fld, ok := f.u.printfTo[n.Obj().Name()+"."+sel.Sel.Name]; ok {
					// p.printf(format, args…) appends the formatted text to the embedded buffer
					txt := f.sprintf(&b, c)
					return append(b.lines, fmt.Sprintf("let %s := { %s with %s := (%s).%s ++ %s }", f.name(id), f.name(id), fld, f.name(id), fld, txt)), true
				}
				if st, ok := n.Underlying().(*types.Struct); ok && sel.Sel.Name == "Truncate" && len(c.Args) == 1 {
					for i := 0; i < st.NumFields(); i++ {
						if st.Field(i).Embedded() && isBytesBuffer(st.Field(i).Type()) {
							fld := leanIdent(st.Field(i).Name())
							nn := f.expr(&b, c.Args[0])
							t := f.fresh("t")
							f.pure = false
							return append(b.lines, fmt.Sprintf("let %s ← sliceTo (%s).%s %s", t, f.name(id), fld, nn),
								fmt.Sprintf("let %s := { %s with %s := %s }", f.name(id), f.name(id), fld, t)), true
						}
					}
				}
			}
		}
	}
	if sel, ok := c.Fun.(*ast.SelectorExpr); ok {
		if id, ok := sel.X.(*ast.Ident); ok && (isBytesBuffer(f.typeOf(id)) || f.isAccum(f.typeOf(id))) && len(c.Args) == 1 {
			x := f.expr(&b, c.Args[0])
			switch sel.Sel.Name {
			case "WriteString", "Write":
				return append(b.lines, fmt.Sprintf("let %s := %s ++ %s", f.name(id), f.name(id), x)), true
			case "WriteByte":
				return append(b.lines, fmt.Sprintf("let %s := %s ++ [mkByte %s]", f.name(id), f.name(id), x)), true
			case "WriteRune":
				return append(b.lines, fmt.Sprintf("let %s := %s ++ encodeRune %s", f.name(id), f.name(id), x)), true
			}
		}
	}
	if sel, ok := c.Fun.(*ast.SelectorExpr); ok {
		if _, ok := f.u.effects[sel.Sel.Name]; ok {
			if f.inLoop != nil {
				f.bad(c, "effect call inside a loop")
			}
			if f.effType == "" {
				f.bad(c, "effect call in a function not listed in effFns")
			}
			f.pure = false
			args := f.args(&b, c)
			return append(b.lines, fmt.Sprintf("let effLog := effLog ++ [%s]", tuple(args))), true
		}
	}
	return nil, false
}

// absStringer: the abstract function standing for T.String() of an abstract named type (configured as "T.String")
func (f *g2lFn) absStringer(t types.Type) string {
	n, ok := t.(*types.Named)
	if !ok {
		return ""
	}
	if _, ok := f.u.absTypes[n.Obj().Name()]; !ok {
		return ""
	}
	p, ok := f.u.absFuncs[n.Obj().Name()+".String"]
	if !ok {
		return ""
	}
	f.useAbs(p)
	return p
}

// isPanicCall: a method configured as never returning (it panics), e.g. (*input).Error
func (f *g2lFn) isPanicCall(c *ast.CallExpr) bool {
	sel, ok := c.Fun.(*ast.SelectorExpr)
	if !ok {
		return false
	}
	s, ok := f.p.info.Selections[sel]
	if !ok || s.Kind() != types.MethodVal {
		return false
	}
	rt := s.Recv()
	if p, ok := rt.(*types.Pointer); ok {
		rt = p.Elem()
	}
	n, ok := rt.(*types.Named)
	return ok && f.u.panicCalls[n.Obj().Name()+"."+sel.Sel.Name]
}

func (f *g2lFn) defineClosure(name *ast.Ident, lit *ast.FuncLit) {
	f.defineClosureAs(name.Name, f.p.info.Defs[name], lit)
}

func (f *g2lFn) defineClosureAs(nameStr string, key types.Object, lit *ast.FuncLit) *g2lClosure {
	name := &ast.Ident{Name: nameStr}
	if f.closures == nil {
		f.closures = map[types.Object]*g2lClosure{}
	}
	f.fuel, f.pure = true, false
	sig := f.p.info.Types[lit].Type.(*types.Signature)
	modifiedV := f.assignedOuter([]ast.Node{lit.Body}, lit.Pos())
	ex := map[*types.Var]bool{}
	for _, v := range modifiedV {
		ex[v] = true
	}
	capturedV := f.usedOuter([]ast.Node{lit.Body}, lit.Pos(), ex)
	cl := &g2lClosure{lean: f.leanName + "_" + leanIdent(name.Name), modV: modifiedV, capV: capturedV}
	params := []string{}
	for _, v := range capturedV {
		cl.captured = append(cl.captured, f.varName(v))
		params = append(params, fmt.Sprintf("(%s : %s)", f.varName(v), f.varType(v, lit)))
	}
	for i := 0; i < sig.Params().Len(); i++ {
		v := sig.Params().At(i)
		params = append(params, fmt.Sprintf("(%s : %s)", f.varName(v), f.leanType(v.Type(), lit)))
	}
	outTypes := []string{}
	for _, v := range modifiedV {
		cl.modified = append(cl.modified, f.varName(v))
		params = append(params, fmt.Sprintf("(%s : %s)", f.varName(v), f.varType(v, lit)))
		outTypes = append(outTypes, f.varType(v, lit))
	}
	// compile the body in a fresh control context
	sResults, sNamed, sRet, sLoop, sBrk, sDefer := f.results, f.named, f.retType, f.inLoop, f.brk, f.deferBody
	sEff, sInout, sOuts, sIn, sEnd := f.effType, f.inoutName, f.closOuts, f.inClosure, f.endK
	f.results, f.named = nil, false
	rts := []string{}
	for i := 0; i < sig.Results().Len(); i++ {
		f.results = append(f.results, sig.Results().At(i))
		rts = append(rts, f.leanType(sig.Results().At(i).Type(), lit))
	}
	ret := "Unit"
	if len(rts) == 1 {
		ret = rts[0]
	} else if len(rts) > 1 {
		ret = "(" + strings.Join(rts, " × ") + ")"
	}
	full := ret
	if len(outTypes) > 0 {
		full = "(" + ret + " × " + strings.Join(outTypes, " × ") + ")"
	}
	f.retType, f.inLoop, f.brk, f.deferBody, f.effType, f.inoutName = full, nil, nil, nil, "", ""
	f.closOuts, f.inClosure = cl.modified, true
	end := func() []string {
		if len(f.results) == 0 {
			return f.retTerm("()")
		}
		f.bad(lit, "control reaches the end of a closure with results")
		return nil
	}
	f.endK = end
	body := f.stmts(lit.Body.List, end)
	if f.worldVar != nil && containsWord(strings.Join(body, "\n"), "world") {
		// a closure that only READS the world (heap dereferences): the world is one more captured value
		has := false
		for _, m := range cl.modified {
			if m == "world" {
				has = true
			}
		}
		for _, m := range cl.captured {
			if m == "world" {
				has = true
			}
		}
		if !has {
			cl.captured = append(cl.captured, "world")
			// captured parameters come first: insert before the closure's own parameters
			nc := len(capturedV)
			params = append(params[:nc], append([]string{fmt.Sprintf("(world : %s)", f.worldType)}, params[nc:]...)...)
		}
	}
	f.results, f.named, f.retType, f.inLoop, f.brk, f.deferBody = sResults, sNamed, sRet, sLoop, sBrk, sDefer
	f.effType, f.inoutName, f.closOuts, f.inClosure, f.endK = sEff, sInout, sOuts, sIn, sEnd
	def := &strings.Builder{}
	fmt.Fprintf(def, "/-- closure `%s` of `%s` (%s) -/\n", name.Name, f.goName, shortPos(f.pos(lit)))
	fmt.Fprintf(def, "def %s \x00ABSP\x00(fuel : Nat) %s : M %s := do\n%s\n", cl.lean, strings.Join(params, " "), full, indent(strings.Join(body, "\n"), 2))
	f.loops = append(f.loops, def.String())
	f.closures[key] = cl
	return cl
}

// walkCall: err := filepath.Walk(root, func(path string, info os.FileInfo, err error) error {…}): the closure is hoisted
// (the captured variables it assigns become the walk's state) and driven by GoRt.walkTree over the tree that the abstract
// parameter configured in walkCalls yields for the root.
func (f *g2lFn) walkCall(b *binds, e *ast.CallExpr, treeFn string) string {
	lit, ok := e.Args[1].(*ast.FuncLit)
	if !ok || len(e.Args) != 2 {
		f.bad(e, "filepath.Walk needs a function literal")
	}
	f.nloop++
	key := types.NewVar(lit.Pos(), f.p.pkg, fmt.Sprintf("walkFn%d", f.nloop), types.Typ[types.Invalid])
	cl := f.defineClosureAs(fmt.Sprintf("walkFn%d", f.nloop), key, lit)
	f.useAbs(strings.TrimSuffix(treeFn, "?"))
	root := f.expr(b, e.Args[0])
	stPat, stVal := "_", "()"
	if len(cl.modified) > 0 {
		stPat, stVal = tuple(cl.modified), tuple(cl.modified)
	}
	callArgs := append(append(append([]string{}, cl.captured...), "wp", "wi", "we"), cl.modified...)
	call := "(" + cl.lean + " \x00ABS\x00fuel " + strings.Join(callArgs, " ") + ")"
	fn := ""
	if len(cl.modified) > 0 {
		fn = fmt.Sprintf("(fun wp wi we %s => %s)", stPat, call)
	} else {
		fn = fmt.Sprintf("(fun wp wi we _ => do let r ← %s; pure (r, ()))", call)
	}
	walker := "walkTree"
	if strings.HasSuffix(treeFn, "?") {
		// the root may be missing: the abstract parameter yields an Option
		treeFn = strings.TrimSuffix(treeFn, "?")
		walker = "walkTreeOpt"
	}
	t := f.bindM(b, fmt.Sprintf("%s %s fuel %s (%s %s) %s", walker, fn, root, treeFn, root, stVal))
	r := f.fresh("wk")
	b.add(fmt.Sprintf("let (%s, %s) := %s", r, stPat, t))
	for _, m := range cl.modified {
		b.noteRebound(m)
	}
	return r
}

// typeSwitch: `switch x := e.(type) { case *T: … default: … }` over a configured sum type becomes a match
func (f *g2lFn) typeSwitch(s *ast.TypeSwitchStmt, rest kont) []string {
	var bind *ast.Ident
	var subj ast.Expr
	switch a := s.Assign.(type) {
	case *ast.AssignStmt:
		bind = a.Lhs[0].(*ast.Ident)
		subj = a.Rhs[0].(*ast.TypeAssertExpr).X
	case *ast.ExprStmt:
		subj = a.X.(*ast.TypeAssertExpr).X
	}
	st := f.typeOf(subj)
	sn, ok := st.(*types.Named)
	if !ok {
		f.bad(s, "type switch on %s", st)
	}
	variants, ok := f.u.sumTypes[sn.Obj().Name()]
	if !ok {
		f.bad(s, "type switch on %s (not a configured sum type)", sn.Obj().Name())
	}
	lines := []string{}
	var b binds
	x := f.expr(&b, subj)
	lines = append(lines, b.lines...)
	uses := 0
	nodes := []ast.Node{}
	for _, c := range s.Body.List {
		cc := c.(*ast.CaseClause)
		if f.falls(cc.Body) {
			uses++
		}
		nodes = append(nodes, cc)
	}
	k := f.shareK(rest, uses+1, f.assignedOuter(nodes, s.Pos()), &lines)
	arms := []string{}
	covered := map[string]bool{}
	var def *ast.CaseClause
	for _, c := range s.Body.List {
		cc := c.(*ast.CaseClause)
		if cc.List == nil {
			def = cc
			continue
		}
		for _, te := range cc.List {
			if id, ok := te.(*ast.Ident); ok && id.Name == "nil" && f.u.sumNil[sn.Obj().Name()] {
				body := f.stmts(cc.Body, k)
				arms = append(arms, fmt.Sprintf("| %s.nil => %s", sn.Obj().Name(), f.paren(body)))
				covered["\x00nil"] = true
				continue
			}
			t := f.p.info.Types[te].Type
			if pt, ok := t.(*types.Pointer); ok {
				t = pt.Elem()
			}
			tn, ok := t.(*types.Named)
			if !ok {
				f.bad(te, "type switch case %s", show(te))
			}
			name := tn.Obj().Name()
			covered[name] = true
			v := "_"
			if bind != nil {
				// the per-clause variable object
				if o := f.p.info.Implicits[cc]; o != nil {
					v = f.varName(o)
				}
			}
			body := f.stmts(cc.Body, k)
			arms = append(arms, fmt.Sprintf("| %s.%s %s => %s", sn.Obj().Name(), name, v, f.paren(body)))
		}
	}
	missing := false
	for _, v := range variants {
		if !covered[v] {
			missing = true
		}
	}
	if f.u.sumNil[sn.Obj().Name()] && !covered["\x00nil"] {
		missing = true
	}
	if missing {
		if def == nil {
			arms = append(arms, "| _ => "+f.paren(k()))
		} else {
			pre := []string{}
			if bind != nil {
				if o := f.p.info.Implicits[def]; o != nil {
					pre = append(pre, fmt.Sprintf("let %s := %s", f.varName(o), x))
				}
			}
			arms = append(arms, "| _ => "+f.paren(append(pre, f.stmts(def.Body, k)...)))
		}
	}
	return append(lines, "match "+x+" with\n"+strings.Join(arms, "\n"))
}

// calleeGoName: the table key ("name" or "Type.method") of the package function / method a call refers to ("" if none)
func (f *g2lFn) calleeGoName(c *ast.CallExpr) string {
	switch fn := c.Fun.(type) {
	case *ast.Ident:
		if _, ok := f.p.info.Uses[fn].(*types.Func); ok {
			return fn.Name
		}
	case *ast.SelectorExpr:
		if s, ok := f.p.info.Selections[fn]; ok && s.Kind() == types.MethodVal {
			rt := s.Recv()
			if p, ok := rt.(*types.Pointer); ok {
				rt = p.Elem()
			}
			if n, ok := rt.(*types.Named); ok && n.Obj().Pkg() == f.p.pkg {
				return n.Obj().Name() + "." + fn.Sel.Name
			}
		}
	}
	return ""
}

// isWorldCall: the call reads or changes the threaded world (a configured external call, or a call to a function
// of the unit that threads the world itself)
func (f *g2lFn) isWorldCall(c *ast.CallExpr) bool {
	if _, ok := f.worldCall(strings.Join(strings.Fields(show(c.Fun)), "")); ok {
		return true
	}
	if n := f.calleeGoName(c); n != "" {
		if _, ok := f.u.worldFns[n]; ok {
			return true
		}
	}
	return false
}

// worldCall: the configured Lean function for an external call that touches the world ("Fn:callee" overrides "callee")
func (f *g2lFn) worldCall(src string) (string, bool) {
	if w, ok := f.u.worldCalls[f.goName+":"+src]; ok {
		return w, true
	}
	w, ok := f.u.worldCalls[src]
	return w, ok
}

// isGoLit: the function literal is the body of a `go func(){…}()` statement of this function (translated inline)
func (f *g2lFn) isGoLit(lit *ast.FuncLit) bool {
	found := false
	ast.Inspect(f.fd.Body, func(n ast.Node) bool {
		if g, ok := n.(*ast.GoStmt); ok && g.Call.Fun == ast.Expr(lit) {
			found = true
		}
		return !found
	})
	return found
}

func callsRecover(n ast.Node) bool {
	found := false
	ast.Inspect(n, func(n ast.Node) bool {
		if c, ok := n.(*ast.CallExpr); ok {
			if id, ok := c.Fun.(*ast.Ident); ok && id.Name == "recover" {
				found = true
			}
		}
		return !found
	})
	return found
}

// containsReturnValue: a return statement directly in the body (not inside a nested function literal)
func containsReturnValue(n ast.Node) bool {
	found := false
	ast.Inspect(n, func(n ast.Node) bool {
		if _, ok := n.(*ast.FuncLit); ok {
			return false
		}
		if _, ok := n.(*ast.ReturnStmt); ok {
			found = true
		}
		return !found
	})
	return found
}

// onceCall: c.initOnce.Do(c.initWork) — run the method unless the world's flag says it already ran, and set the flag
func (f *g2lFn) onceCall(b *binds, e *ast.CallExpr, field string) string {
	if f.worldVar == nil || len(e.Args) != 1 {
		f.bad(e, "sync.Once.Do outside a world function")
	}
	sel, ok := e.Args[0].(*ast.SelectorExpr)
	if !ok {
		f.bad(e, "sync.Once.Do needs a method value")
	}
	rt := f.typeOf(sel.X)
	if pt, ok := rt.(*types.Pointer); ok {
		rt = pt.Elem()
	}
	n, ok := rt.(*types.Named)
	if !ok {
		f.bad(e, "sync.Once.Do needs a method value of a package type")
	}
	callee, ok := g2l.fns[f.u.pkgDir+"."+n.Obj().Name()+"."+sel.Sel.Name]
	if !ok {
		f.bad(e, "sync.Once.Do: %s is not translated", sel.Sel.Name)
	}
	var ib binds
	f.pure = false
	_ = f.callFn(&ib, callee, nil, e)
	inner := append([]string{fmt.Sprintf("let world := { (world) with %s := true }", field)}, ib.lines...)
	inner = append(inner, "pure world")
	b.add(fmt.Sprintf("let world ← (if ((world).%s) then (pure world) else %s : M %s)", field, f.paren(inner), f.worldType))
	b.noteRebound("world")
	return "()"
}

// cacheCall: c.record.Do(key, func() interface{} {…}) — the memo table is an association list in the world: a hit returns
// the stored value, a miss runs the (hoisted) closure and stores its result under the key
func (f *g2lFn) cacheCall(b *binds, e *ast.CallExpr, field string) string {
	if f.worldVar == nil || len(e.Args) != 2 {
		f.bad(e, "parCache.Do outside a world function")
	}
	lit, ok := e.Args[1].(*ast.FuncLit)
	if !ok {
		f.bad(e, "parCache.Do needs a function literal")
	}
	key := f.expr(b, e.Args[0])
	k := f.fresh("key")
	b.add(fmt.Sprintf("let %s := %s", k, key))
	f.nloop++
	obj := types.NewVar(lit.Pos(), f.p.pkg, fmt.Sprintf("cacheFn%d", f.nloop), types.Typ[types.Invalid])
	cl := f.defineClosureAs(fmt.Sprintf("cacheFn%d", f.nloop), obj, lit)
	hasWorld := false
	for _, m := range cl.modified {
		if m == "world" {
			hasWorld = true
		}
	}
	mods := append([]string{}, cl.modified...)
	if !hasWorld {
		mods = append(mods, "world")
	}
	callArgs := append(append([]string{}, cl.captured...), cl.modified...)
	call := "(" + cl.lean + " \x00ABS\x00fuel " + strings.Join(callArgs, " ") + ")"
	v := f.fresh("cv")
	any := f.u.anyType
	miss := []string{}
	if len(cl.modified) > 0 {
		miss = append(miss, fmt.Sprintf("let (%s, %s) ← %s", v, tuple(cl.modified), call))
	} else {
		miss = append(miss, fmt.Sprintf("let %s ← %s", v, call))
	}
	miss = append(miss, fmt.Sprintf("let world := { (world) with %s := mapSet ((world).%s) %s %s }", field, field, k, v))
	miss = append(miss, fmt.Sprintf("pure (%s, %s)", v, tuple(mods)))
	r := f.fresh("cr")
	b.add(fmt.Sprintf("let (%s, %s) ← (match mapGet ((world).%s) %s (default : %s) with\n  | (hit, true) => pure (hit, %s)\n  | (_, false) => %s)", r, tuple(mods), field, k, any, tuple(mods), f.paren(miss)))
	for _, m := range mods {
		b.noteRebound(m)
	}
	f.pure, f.fuel = false, true
	return r
}

// inlineCall: a statement call of a package function configured in inlineFns is compiled in place: a pointer parameter
// whose argument is `&place` stands for that place (reads, writes and nil tests go to it), one whose argument is nil is the
// nil pointer (the branches guarded by `p != nil` are dead), other parameters are bound to their arguments.  Used for
// functions that update several of the caller's slices through pointers (removeDups).
func (f *g2lFn) inlineCall(c *ast.CallExpr, name string, rest kont) []string {
	fd := f.p.decls[name]
	if fd == nil || fd.Recv != nil || containsReturnValue(fd.Body) {
		f.bad(c, "inline call of %s (needs a plain function without return statements)", name)
	}
	if f.aliases == nil {
		f.aliases = map[types.Object]ast.Expr{}
	}
	if f.nilAlias == nil {
		f.nilAlias = map[types.Object]bool{}
	}
	lines := []string{}
	i := 0
	for _, fld := range fd.Type.Params.List {
		for _, n := range fld.Names {
			if i >= len(c.Args) {
				f.bad(c, "inline call arity")
			}
			arg := c.Args[i]
			i++
			obj := f.p.info.Defs[n]
			pt, isPtr := obj.Type().(*types.Pointer)
			_, heapPtr := f.heapField(obj.Type())
			if isPtr && !heapPtr && pt != nil {
				if id, ok := arg.(*ast.Ident); ok && id.Name == "nil" {
					f.nilAlias[obj] = true
					continue
				}
				if ue, ok := arg.(*ast.UnaryExpr); ok && ue.Op == token.AND {
					f.aliases[obj] = ue.X
					continue
				}
				f.bad(c, "inline call of %s: pointer argument %s is neither &place nor nil", name, show(arg))
			}
			var b binds
			v := f.exprAs(&b, arg, obj.Type())
			lines = append(lines, b.lines...)
			lines = append(lines, fmt.Sprintf("let %s := %s", f.name(n), v))
		}
	}
	f.inlineRanges = append(f.inlineRanges, [2]token.Pos{fd.Pos(), fd.End()})
	return append(lines, f.stmts(fd.Body.List, rest)...)
}

// isWorldFnVar: a local variable of function type that is assigned (somewhere in this function) one of the unit's world functions
func (f *g2lFn) isWorldFnVar(v *types.Var) bool {
	if f.worldVar == nil {
		return false
	}
	if _, ok := v.Type().Underlying().(*types.Signature); !ok {
		return false
	}
	found := false
	ast.Inspect(f.fd.Body, func(n ast.Node) bool {
		as, ok := n.(*ast.AssignStmt)
		if !ok || len(as.Lhs) != len(as.Rhs) {
			return true
		}
		for i, l := range as.Lhs {
			id, ok := l.(*ast.Ident)
			if !ok {
				continue
			}
			var o types.Object = f.p.info.Defs[id]
			if o == nil {
				o = f.p.info.Uses[id]
			}
			if o != types.Object(v) {
				continue
			}
			if rid, ok := as.Rhs[i].(*ast.Ident); ok {
				if fo, ok := f.p.info.Uses[rid].(*types.Func); ok {
					if _, isW := f.u.worldFns[fo.Name()]; isW {
						found = true
					}
				}
			}
		}
		return true
	})
	return found
}

// sortSliceCall: sort.SliceStable(X, func(i, j int) bool { return E }) where E mentions the slice only as X[i] and X[j]:
// the index comparator is an ELEMENT comparator (sa, sb); the sorted list is stored back into X.
func (f *g2lFn) sortSliceCall(b *binds, e *ast.CallExpr) string {
	lit, ok := e.Args[1].(*ast.FuncLit)
	if !ok || len(lit.Body.List) != 1 || len(lit.Type.Params.List) == 0 {
		f.bad(e, "sort.SliceStable needs func(i, j int) bool { return … }")
	}
	ret, ok := lit.Body.List[0].(*ast.ReturnStmt)
	if !ok || len(ret.Results) != 1 {
		f.bad(e, "sort.SliceStable comparator must be a single return")
	}
	var pi, pj types.Object
	names := []*ast.Ident{}
	for _, fld := range lit.Type.Params.List {
		names = append(names, fld.Names...)
	}
	if len(names) != 2 {
		f.bad(e, "sort.SliceStable comparator arity")
	}
	pi, pj = f.p.info.Defs[names[0]], f.p.info.Defs[names[1]]
	xsrc := strings.Join(strings.Fields(show(e.Args[0])), "")
	sl, ok := f.typeOf(e.Args[0]).Underlying().(*types.Slice)
	if !ok {
		f.bad(e, "sort.SliceStable of %s", f.typeOf(e.Args[0]))
	}
	mk := func(name string) *ast.Ident {
		id := &ast.Ident{Name: name}
		v := types.NewVar(lit.Pos(), f.p.pkg, name, sl.Elem())
		f.p.info.Uses[id] = v
		f.p.info.Types[id] = types.TypeAndValue{Type: sl.Elem()}
		f.objNames[v] = name
		return id
	}
	sa, sb := mk(f.fresh("sa")), mk(f.fresh("sb"))
	bad := false
	var subst func(x ast.Expr) ast.Expr
	subst = func(x ast.Expr) ast.Expr {
		switch t := x.(type) {
		case *ast.IndexExpr:
			if strings.Join(strings.Fields(show(t.X)), "") == xsrc {
				if id, ok := t.Index.(*ast.Ident); ok {
					switch f.p.info.Uses[id] {
					case pi:
						return sa
					case pj:
						return sb
					}
				}
			}
			bad = true
			return x
		case *ast.CallExpr:
			c2 := *t
			c2.Args = nil
			for _, a := range t.Args {
				c2.Args = append(c2.Args, subst(a))
			}
			if tv, ok := f.p.info.Types[t]; ok {
				f.p.info.Types[&c2] = tv
			}
			return &c2
		case *ast.Ident:
			if o := f.p.info.Uses[t]; o == pi || o == pj {
				bad = true
			}
			return x
		case *ast.BinaryExpr:
			b2 := *t
			b2.X, b2.Y = subst(t.X), subst(t.Y)
			if tv, ok := f.p.info.Types[t]; ok {
				f.p.info.Types[&b2] = tv
			}
			return &b2
		case *ast.UnaryExpr:
			u2 := *t
			u2.X = subst(t.X)
			if tv, ok := f.p.info.Types[t]; ok {
				f.p.info.Types[&u2] = tv
			}
			return &u2
		case *ast.ParenExpr:
			return subst(t.X)
		case *ast.SelectorExpr:
			if strings.Contains(strings.Join(strings.Fields(show(t)), ""), xsrc+"[") {
				bad = true
			}
			return x
		}
		return x
	}
	body := subst(ret.Results[0])
	if bad {
		f.bad(e, "sort.SliceStable comparator uses the indices other than as %s[i] / %s[j]", xsrc, xsrc)
	}
	f.needWorld(e)
	var cb binds
	r := f.expr(&cb, body)
	cmp := append(append([]string{}, cb.lines...), fmt.Sprintf("pure (%s, world)", r))
	ea := f.leanType(sl.Elem(), e)
	x := f.expr(b, e.Args[0])
	t := f.bindM(b, fmt.Sprintf("sortStableW (fun (%s %s : %s) (world : %s) => (%s : M (Bool × %s))) %s world", f.name(sa), f.name(sb), ea, f.worldType, f.paren(cmp), f.worldType, x))
	sorted := f.fresh("st")
	b.add(fmt.Sprintf("let (%s, world) := %s", sorted, t))
	b.noteRebound("world")
	lines := []string{}
	f.assignOne(&lines, e.Args[0], sorted, f.typeOf(e.Args[0]))
	for _, l := range lines {
		b.add(l)
	}
	return "()"
}

type labelFrame struct {
	key    *ast.Stmt
	labels map[string]int
	list   []ast.Stmt
	k      kont
	loop   *g2lLoop
}

func (f *g2lFn) labelFrameOf(key *ast.Stmt) *labelFrame {
	for _, fr := range f.labelFrames {
		if fr.key == key {
			return fr
		}
	}
	return nil
}
