package main

// Facts for sumdb/dirhash/hash.go (C19): the literals of Hash1 that fix the h1 format —
// the Fprintf format of a summary line and its arguments, the refused substring, the result
// prefix and the encoder.

import (
	"fmt"
	"go/ast"
	"go/token"
	"strconv"
	"strings"
)

func dirhashStrLit(e ast.Expr, what string) string {
	lit, ok := e.(*ast.BasicLit)
	if !ok || lit.Kind != token.STRING {
		die("sumdb/dirhash/hash.go: Hash1: %s is not a string literal but %s", what, show(e))
	}
	s, err := strconv.Unquote(lit.Value)
	if err != nil {
		die("sumdb/dirhash/hash.go: Hash1: %s: %v", what, err)
	}
	return s
}

func init() {
	extraHooks = append(extraHooks, func(b *strings.Builder) {
		const rel = "sumdb/dirhash/hash.go"
		fd := findFunc(parse(rel), "Hash1")
		if fd == nil {
			die("%s: Hash1 not found", rel)
		}
		var formats, fmtArgs, refused, prefixes, encoders []string
		ast.Inspect(fd.Body, func(n ast.Node) bool {
			switch x := n.(type) {
			case *ast.CallExpr:
				switch show(x.Fun) {
				case "fmt.Fprintf":
					if len(x.Args) < 2 {
						die("%s: Hash1: Fprintf with fewer than two arguments", rel)
					}
					formats = append(formats, dirhashStrLit(x.Args[1], "Fprintf format"))
					var as []string
					for _, a := range x.Args[2:] {
						as = append(as, show(a))
					}
					fmtArgs = append(fmtArgs, strings.Join(as, ","))
				case "strings.Contains":
					if len(x.Args) != 2 {
						die("%s: Hash1: strings.Contains without two arguments", rel)
					}
					refused = append(refused, dirhashStrLit(x.Args[1], "strings.Contains argument"))
				}
			case *ast.ReturnStmt:
				if len(x.Results) == 2 {
					if be, ok := x.Results[0].(*ast.BinaryExpr); ok && be.Op == token.ADD {
						prefixes = append(prefixes, dirhashStrLit(be.X, "result prefix"))
						call, ok := be.Y.(*ast.CallExpr)
						if !ok {
							die("%s: Hash1: result is not prefix + call", rel)
						}
						encoders = append(encoders, show(call.Fun)+"("+show(call.Args[0])+")")
					}
				}
			}
			return true
		})
		one := func(l []string, what string) string {
			if len(l) != 1 {
				die("%s: Hash1: expected exactly one %s, found %d", rel, what, len(l))
			}
			return l[0]
		}
		f := one(formats, "Fprintf call")
		fmt.Fprintf(b, "/-- sumdb/dirhash/hash.go: Hash1: format of one summary line = %q -/\ndef dirhash_Hash1_lineFormat : List UInt8 := %s\n\n", f, leanStr(f))
		a := one(fmtArgs, "Fprintf call")
		fmt.Fprintf(b, "/-- sumdb/dirhash/hash.go: Hash1: arguments of that format = %q -/\ndef dirhash_Hash1_lineArgs : List UInt8 := %s\n\n", a, leanStr(a))
		r := one(refused, "strings.Contains call")
		fmt.Fprintf(b, "/-- sumdb/dirhash/hash.go: Hash1: refused substring of a file name = %q -/\ndef dirhash_Hash1_refused : List UInt8 := %s\n\n", r, leanStr(r))
		p := one(prefixes, "`prefix + encode(...)` return")
		fmt.Fprintf(b, "/-- sumdb/dirhash/hash.go: Hash1: result prefix = %q -/\ndef dirhash_Hash1_prefix : List UInt8 := %s\n\n", p, leanStr(p))
		e := one(encoders, "`prefix + encode(...)` return")
		fmt.Fprintf(b, "/-- sumdb/dirhash/hash.go: Hash1: encoder applied to the outer digest = %q -/\ndef dirhash_Hash1_encoder : List UInt8 := %s\n\n", e, leanStr(e))
	})
}
