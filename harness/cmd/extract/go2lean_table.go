package main

// The functions translated whole on every run.  Order inside a unit does not matter (callees are emitted first).
var g2lUnits = []*g2lUnit{
	{
		out: "FnSemver", ns: "Semver", pkgDir: "semver",
		structNames: []string{"parsed"},
		fns: []string{"isIdentChar", "isBadNum", "isNum", "parseInt", "parsePrerelease", "parseBuild", "parse",
			"compareInt", "nextIdent", "comparePrerelease", "IsValid", "Canonical", "Major", "MajorMinor", "Prerelease", "Build", "Compare", "Max"},
	},
	{
		out: "FnTlog", ns: "Tlog", pkgDir: "sumdb/tlog",
		fns: []string{"maxpow2", "StoredHashIndex", "SplitStoredHashIndex", "StoredHashCount",
			"StoredHashesForRecordHash", "TreeHash", "subTreeIndex", "subTreeHash",
			"ProveRecord", "leafProofIndex", "leafProof", "CheckRecord", "runRecordProof",
			"ProveTree", "treeProofIndex", "treeProof", "CheckTree", "runTreeProof"},
		checked: map[string]bool{"maxpow2": true, "StoredHashIndex": true, "SplitStoredHashIndex": true, "StoredHashCount": true,
			"StoredHashesForRecordHash": true, "TreeHash": true, "subTreeIndex": true, "subTreeHash": true,
			"ProveRecord": true, "leafProofIndex": true, "leafProof": true, "CheckRecord": true, "runRecordProof": true,
			"ProveTree": true, "treeProofIndex": true, "treeProof": true, "CheckTree": true, "runTreeProof": true},
		absTypes: map[string]string{"Hash": "H"},
		absFuncs: map[string]string{"NodeHash": "node"},
		absVars:  map[string]string{"emptyHash": "empty"},
		absSigs:  map[string]string{"node": "H → H → H", "empty": "H"},
		ifaces:   map[string]string{"HashReader": "List Int → (List H × Option String)"},
	},
}

func init() {
	g2lUnits = append(g2lUnits, &g2lUnit{
		out: "FnTile", ns: "Tile", pkgDir: "sumdb/tlog",
		imports:      []string{"ModVerif.Generated.FnTlog"},
		opens:        []string{"ModVerif.Generated.Tlog"},
		structNames:  []string{"Tile", "TileReader", "Tree", "tileHashReader"},
		noEq:         map[string]bool{"tileHashReader": true},
		ifaceStructs: map[string]string{"TileReader": "/-- `type TileReader interface` (SaveTiles is an effect: see `effLog`) -/\nstructure TileReader where\n  Height : Int\n  ReadTiles : List Tile → (List Bytes × Option String)\ninstance : Inhabited TileReader := ⟨{ Height := 0, ReadTiles := fun _ => ([], none) }⟩\n"},
		effects:      map[string]string{"SaveTiles": "(List Tile × List Bytes)"},
		effFns:       map[string]string{"tileHashReader.ReadHashes": "(List Tile × List Bytes)"},
		fns: []string{"tileForIndex", "TileForIndex", "HashFromTile", "tileHash", "NewTiles", "ReadTileData", "Tile.Path", "ParseTilePath",
			"tileParent", "tileHashReader.ReadHashes"},
		checked: map[string]bool{"tileForIndex": true, "TileForIndex": true, "HashFromTile": true, "tileHash": true, "NewTiles": true,
			"ReadTileData": true, "Tile.Path": true, "ParseTilePath": true, "tileParent": true, "tileHashReader.ReadHashes": true},
		absTypes: map[string]string{"Hash": "H"},
		absFuncs: map[string]string{"NodeHash": "node", "copy->Hash": "ofBytes", "Hash[:]": "toBytes"},
		absSigs:  map[string]string{"node": "H → H → H", "ofBytes": "Bytes → H", "toBytes": "H → Bytes"},
		ifaces:   map[string]string{"HashReader": "List Int → (List H × Option String)"},
		externs:  map[string]string{},
	})
}

func init() {
	semverExt := map[string]string{}
	semverFx := map[string]bool{}
	for _, n := range []string{"IsValid", "Canonical", "Major", "MajorMinor", "Prerelease", "Build", "Compare"} {
		semverExt["semver."+n] = "ModVerif.Generated.Semver." + n
		semverFx["semver."+n] = true
	}
	g2lUnits = append(g2lUnits, &g2lUnit{
		out: "FnModule", ns: "Module", pkgDir: "module",
		imports: []string{"ModVerif.Basic.GoRtUtf8", "ModVerif.Generated.Facts", "ModVerif.Generated.FnSemver"},
		fns: []string{"firstPathOK", "modPathOK", "importPathOK", "fileNameOK", "checkElem", "checkPath", "CheckPath", "CheckImportPath", "CheckFilePath",
			"SplitPathVersion", "splitGopkgIn", "CheckPathMajor", "MatchPathMajor", "PathMajorPrefix", "Check", "CanonicalVersion",
			"escapeString", "unescapeString", "EscapePath", "EscapeVersion", "UnescapePath", "UnescapeVersion", "MatchPrefixPatterns",
			"incDecimal", "decDecimal", "PseudoVersion", "ZeroPseudoVersion", "IsPseudoVersion", "IsZeroPseudoVersion", "parsePseudoVersion",
			"PseudoVersionRev", "PseudoVersionBase"},
		absTypes: map[string]string{"Time": "T"},
		absFuncs: map[string]string{"unicode.IsLetter": "isLetter", "path.Match": "pathMatch", "strings.EqualFold": "equalFold"},
		absCalls: map[string]string{"t.UTC().Format": "fmtTime:recv", "pseudoVersionRE.MatchString": "pseudoRE"},
		absSigs: map[string]string{"isLetter": "Int → Bool", "pathMatch": "Bytes → Bytes → (Bool × Option String)", "equalFold": "Bytes → Bytes → Bool",
			"fmtTime": "T → Bytes → Bytes", "pseudoRE": "Bytes → Bool"},
		pkgVars:   map[string]string{"badWindowsNames": "ModVerif.Generated.module_badWindowsNames"},
		externs:   semverExt,
		externFx:  semverFx,
		externFue: semverFx,
	})
}

func init() {
	g2lUnits = append(g2lUnits, &g2lUnit{
		out: "FnTlogNote", ns: "TlogNote", pkgDir: "sumdb/tlog",
		imports:     []string{"ModVerif.Basic.GoRtUtf8", "ModVerif.Generated.Facts"},
		structNames: []string{"Tree"},
		fns:         []string{"FormatTree", "ParseTree", "FormatRecord", "isValidRecordText", "ParseRecord"},
		absTypes:    map[string]string{"Hash": "H"},
		absFuncs:    map[string]string{"copy->Hash": "ofBytes", "Hash.String": "hashString", "base64.DecodeString": "b64dec"},
		absCalls:    map[string]string{"base64.StdEncoding.DecodeString": "b64dec"},
		absVars:     map[string]string{},
		pkgVars:     map[string]string{"treePrefix": "(ModVerif.Generated.tlog_treePrefix)"},
		absSigs:     map[string]string{"ofBytes": "Bytes → H", "hashString": "H → Bytes", "b64dec": "Bytes → (Bytes × Option String)"},
	})
}

func init() {
	g2lUnits = append(g2lUnits, &g2lUnit{
		out: "FnNote", ns: "Note", pkgDir: "sumdb/note",
		imports:     []string{"ModVerif.Basic.GoRtNote", "ModVerif.Generated.Facts"},
		structNames: []string{"Signature", "Note", "nameHash", "Verifier", "Signer"},
		ifaceStructs: map[string]string{
			"Verifier": "/-- `type Verifier interface` -/\nstructure Verifier where\n  Name : Bytes\n  KeyHash : Int\n  Verify : Bytes → Bytes → Bool\ninstance : Inhabited Verifier := ⟨{ Name := [], KeyHash := 0, Verify := fun _ _ => false }⟩\n",
			"Signer":   "/-- `type Signer interface` -/\nstructure Signer where\n  Name : Bytes\n  KeyHash : Int\n  Sign : Bytes → (Bytes × Option String)\ninstance : Inhabited Signer := ⟨{ Name := [], KeyHash := 0, Sign := fun _ => ([], none) }⟩\n",
		},
		ifaces:       map[string]string{"Verifiers": "Bytes → Int → (Verifier × Option String)"},
		nonNilIfaces: map[string]bool{"Verifiers": true},
		errCarry:     map[string]bool{"UnverifiedNoteError": true},
		exclude:      map[string]bool{"VerifierList": true},
		errFields:    map[string]bool{"InvalidSignatureError": true},
		fns:          []string{"isValidName", "chop", "Open", "Sign", "keyHash"},
		accumTypes:   map[string]bool{"hash.Hash": true},
		absFuncs:     map[string]string{"unicode.IsSpace": "isSpace"},
		absCalls:     map[string]string{"base64.StdEncoding.DecodeString": "b64dec", "base64.StdEncoding.EncodeToString": "b64enc", "h.Sum": "shaSum:recv"},
		stdCalls:     map[string]stdFn{"binary.BigEndian.Uint32": {"beUint32", true}, "sha256.New": {"emptyBytesN", false}},
		absSigs:      map[string]string{"isSpace": "Int → Bool", "b64dec": "Bytes → (Bytes × Option String)", "b64enc": "Bytes → Bytes", "shaSum": "Bytes → Bytes → Bytes"},
		pkgVars:      map[string]string{"sigSplit": "(ModVerif.Generated.note_sigSplit)", "sigPrefix": "(ModVerif.Generated.note_sigPrefix)"},
	})
}

func init() {
	g2lUnits = append(g2lUnits, &g2lUnit{
		out: "FnZip", ns: "Zip", pkgDir: "zip",
		imports:     []string{"ModVerif.Basic.GoRtUtf8", "ModVerif.Basic.GoRtPath", "ModVerif.Basic.GoRtZipIO", "ModVerif.Basic.GoRtWalk", "ModVerif.Basic.GoRtNote"},
		structNames: []string{"pathInfo", "FileInfo", "File", "FileError", "CheckedFiles", "dirFile"},
		walkCalls:   map[string]string{"filepath.Walk": "walkRoot"},
		worldFns:    map[string]string{"Create": "ZipW", "Unzip": "FsW", "CreateFromDir": "ZipW"},
		absCalls:    map[string]string{"os.ReadFile": "osReadFile", "os.Lstat": "osLstat", "os.Open": "osOpenRead"},
		worldCalls: map[string]string{"zw.Create": "zwCreate", "Create:io.Copy": "zwWrite", "zw.Close": "zwClose",
			"os.ReadDir": "osReadDir", "Unzip:os.Open": "osOpen", "os.MkdirAll": "osMkdirAll", "os.OpenFile": "osOpenFile",
			"zf.Open": "zfOpen:recv", "Unzip:io.Copy": "osCopy", "w.Close": "osClose:recv"},
		foreignTypes: map[string]string{"zip.Reader": "ZReader", "zip.File": "ZEntry", "zip.Writer": "Unit", "os.File": "OsFile",
			"io.LimitedReader": "LimitedReader", "module.Version": "ModVersion", "fs.DirEntry": "Unit"},
		limitedReaders: true,
		preamble:       "/-- `f.Stat()` of the opened archive -/\ndef osStat (f : OsFile) : FileInfo × Option String := ({ Mode := 0, IsDir := false, Size := f.size }, f.statErr)\n",
		ifaceStructs: map[string]string{
			"FileInfo": "/-- `os.FileInfo` as the zip code uses it -/\nstructure FileInfo where\n  Mode : Int\n  IsDir : Bool\n  Size : Int\n  deriving DecidableEq, Repr\ninstance : Inhabited FileInfo := ⟨{ Mode := 0, IsDir := false, Size := 0 }⟩\n",
			"File":     "/-- `type File interface` (Open yields the content) -/\nstructure File where\n  Path : Bytes\n  Lstat : FileInfo × Option String\n  Open : Bytes × Option String\n  deriving DecidableEq, Repr\ninstance : Inhabited File := ⟨{ Path := [], Lstat := (default, none), Open := ([], none) }⟩\n",
		},
		ifaces:      map[string]string{"ReadCloser": "Bytes", "Writer": "Unit"},
		ignoreCalls: map[string]bool{"Close": true},
		fns: []string{"isVendoredPackage", "strToFold", "collisionChecker.check", "checkFiles", "CheckedFiles.Err", "checkZip", "Create", "Unzip",
			"CheckFiles", "dirFile.Path", "dirFile.Lstat", "dirFile.Open", "listFilesInDir", "CheckDir", "CreateFromDir"},
		inout: map[string]string{"collisionChecker.check": "cc"},
		absFuncs: map[string]string{"version.Compare": "versionCompare", "unicode.SimpleFold": "simpleFold", "strings.EqualFold": "equalFold",
			"module.CheckFilePath": "checkFilePath", "module.CanonicalVersion": "canonicalVersion", "module.Check": "moduleCheck", "strings.ToLower": "toLower", "version.Lang": "versionLang", "parseGoVers": "parseGoVers"},
		absSigs: map[string]string{"versionCompare": "Bytes → Bytes → Int", "simpleFold": "Int → Int", "equalFold": "Bytes → Bytes → Bool",
			"checkFilePath": "Bytes → Option String", "canonicalVersion": "Bytes → Bytes", "moduleCheck": "Bytes → Bytes → Option String", "walkRoot": "Bytes → FsTree FileInfo", "osReadFile": "Bytes → (Bytes × Option String)",
			"osLstat": "Bytes → (FileInfo × Option String)", "osOpenRead": "Bytes → (Bytes × Option String)", "toLower": "Bytes → Bytes", "versionLang": "Bytes → Bytes", "parseGoVers": "Bytes → Bytes → Bytes"},
		stdCalls: map[string]stdFn{"zip.NewWriter": {"zipNewWriter", false}, "zip.NewReader": {"zipNewReader", false}, "f.Stat": {"osStat", false},
			"filepath.Join": {"fpJoin", false}, "filepath.Rel": {"fpRel", false}, "filepath.ToSlash": {"id", false}, "filepath.Base": {"pathBase", false}, "filepath.Dir": {"pathDir", false}, "path.Base": {"pathBase", false},
			"path.Dir": {"pathDir", false}, "path.Split": {"pathSplit", false}, "path.Clean": {"pathClean", false}, "path.IsAbs": {"pathIsAbs", false},
			"io.ReadAll": {"readAll", false}, "info.Mode().IsRegular": {"modeIsRegular", false}},
	})
}

func init() {
	g2lUnits = append(g2lUnits, &g2lUnit{
		out: "FnModfile", ns: "Modfile", pkgDir: "modfile",
		imports:     []string{"ModVerif.Basic.GoRtUtf8", "ModVerif.Basic.GoRtStrings", "ModVerif.Generated.FnSemver", "ModVerif.Generated.FnModule"},
		structNames: []string{"Position", "Comment", "Comments", "Line", "VersionInterval"},
		fns: []string{"isIdent", "IsDirectoryPath", "MustQuote", "AutoQuote", "parseString", "ModulePath",
			"lineLess", "lineExcludeLess", "lineRetractLess", "checkCanonicalVersion"},
		inout:    map[string]string{"parseString": "s"},
		absFuncs: map[string]string{"unicode.IsPrint": "isPrint", "unicode.IsSpace": "isSpace", "strconv.Quote": "quote", "strconv.Unquote": "unquote"},
		absSigs:  map[string]string{"isPrint": "Int → Bool", "isSpace": "Int → Bool", "quote": "Bytes → Bytes", "unquote": "Bytes → (Bytes × Option String)"},
		externs: map[string]string{"semver.Compare": "ModVerif.Generated.Semver.Compare", "semver.Major": "ModVerif.Generated.Semver.Major",
			"module.SplitPathVersion": "ModVerif.Generated.Module.SplitPathVersion", "module.CanonicalVersion": "ModVerif.Generated.Module.CanonicalVersion",
			"module.PathMajorPrefix": "ModVerif.Generated.Module.PathMajorPrefix", "module.CheckPathMajor": "ModVerif.Generated.Module.CheckPathMajor"},
		externFx: map[string]bool{"semver.Compare": true, "semver.Major": true, "module.SplitPathVersion": true, "module.CanonicalVersion": true,
			"module.PathMajorPrefix": true, "module.CheckPathMajor": true},
		externFue: map[string]bool{"semver.Compare": true, "semver.Major": true, "module.SplitPathVersion": true, "module.CanonicalVersion": true,
			"module.PathMajorPrefix": true, "module.CheckPathMajor": true},
	})
}

func init() {
	g2lUnits = append(g2lUnits, &g2lUnit{
		out: "FnLex", ns: "Lex", pkgDir: "modfile",
		imports:      []string{"ModVerif.Basic.GoRtUtf8", "ModVerif.Basic.GoRtStrings"},
		structNames:  []string{"Position", "Comment", "token", "input"},
		structFields: map[string][]string{"input": {"complete", "remaining", "tokenStart", "token", "pos", "comments"}},
		fns: []string{"isIdent", "input.eof", "input.peekRune", "input.peekPrefix", "input.readRune", "tokenKind.isComment", "tokenKind.isEOL",
			"input.startToken", "input.endToken", "input.peek", "input.lex", "input.readToken"},
		inout:      map[string]string{"input.readRune": "in", "input.startToken": "in", "input.endToken": "in", "input.lex": "in", "input.readToken": "in"},
		panicCalls: map[string]bool{"input.Error": true},
		absFuncs:   map[string]string{"unicode.IsPrint": "isPrint", "unicode.IsSpace": "isSpace"},
		absSigs:    map[string]string{"isPrint": "Int → Bool", "isSpace": "Int → Bool"},
	})
}

func init() {
	g2lUnits = append(g2lUnits, &g2lUnit{
		out: "FnPrint", ns: "Print", pkgDir: "modfile",
		imports:     []string{"ModVerif.Basic.GoRtUtf8", "ModVerif.Basic.GoRtStrings"},
		structNames: []string{"Position", "Comment", "Comments", "CommentBlock", "LParen", "RParen", "Line", "LineBlock", "Expr", "FileSyntax", "printer"},
		sumTypes:    map[string][]string{"Expr": {"CommentBlock", "LParen", "RParen", "Line", "LineBlock"}},
		embedGet:    map[string]string{"Comment": "Comments"},
		printfTo:    map[string]string{"printer.printf": "Buffer"},
		noEq:        map[string]bool{"LineBlock": true, "FileSyntax": true, "Line": true, "CommentBlock": true, "LParen": true, "RParen": true, "Comments": true, "printer": true},
		fns:         []string{"Format", "printer.indent", "printer.newline", "printer.trim", "printer.file", "printer.expr", "printer.tokens"},
		inout:       map[string]string{"printer.newline": "p", "printer.trim": "p", "printer.file": "p", "printer.expr": "p", "printer.tokens": "p"},
		exclude:     map[string]bool{"printf": true},
	})
}

func init() {
	g2lUnits = append(g2lUnits, &g2lUnit{
		out: "FnDirhash", ns: "Dirhash", pkgDir: "sumdb/dirhash",
		imports:     []string{"ModVerif.Basic.GoRtSort", "ModVerif.Basic.GoRtWalk"},
		fns:         []string{"Hash1", "DirFiles", "HashDir"},
		structNames: []string{"FileInfo"},
		ifaceStructs: map[string]string{
			"FileInfo": "/-- `os.FileInfo` as the dirhash code uses it -/\nstructure FileInfo where\n  IsDir : Bool\n  deriving DecidableEq, Repr\ninstance : Inhabited FileInfo := ⟨{ IsDir := false }⟩\n",
		},
		walkCalls:      map[string]string{"filepath.Walk": "walkRoot?"},
		lambdaClosures: true,
		accumTypes:     map[string]bool{"hash.Hash": true},
		ifaces:         map[string]string{"ReadCloser": "Bytes"},
		ignoreCalls:    map[string]bool{"Close": true},
		mutCalls:       map[string]string{"sort.Strings": "sortStrings"},
		stdCalls:       map[string]stdFn{"sha256.New": {"emptyBytes", false}, "filepath.Clean": {"pathClean", false}, "filepath.Join": {"fpJoin", false}, "filepath.ToSlash": {"id", false}},
		absCalls:       map[string]string{"h.Sum": "shaSum:recv", "hf.Sum": "shaSum:recv", "base64.StdEncoding.EncodeToString": "b64enc", "os.Open": "osOpenRead"},
		absSigs:        map[string]string{"shaSum": "Bytes → Bytes → Bytes", "b64enc": "Bytes → Bytes", "walkRoot": "Bytes → Option (FsTree FileInfo)", "osOpenRead": "Bytes → (Bytes × Option String)"},
	})
}

func init() {
	g2lUnits = append(g2lUnits, &g2lUnit{
		out: "FnNoteKey", ns: "NoteKey", pkgDir: "sumdb/note",
		imports:      []string{"ModVerif.Basic.GoRtNote", "ModVerif.Basic.GoRtStrconv", "ModVerif.Generated.Facts", "ModVerif.Generated.FnNote"},
		opens:        []string{"ModVerif.Generated.Note"},
		structNames:  []string{"verifier", "signer"},
		noEq:         map[string]bool{"verifier": true, "signer": true},
		ifaceStructs: map[string]string{"Verifier": "", "Signer": ""},
		ifaces:       map[string]string{"Verifiers": "Bytes → Int → (Verifier × Option String)"},
		errFields:    map[string]bool{},
		fns: []string{"verifier.Name", "verifier.KeyHash", "verifier.Verify", "signer.Name", "signer.KeyHash", "signer.Sign",
			"NewVerifier", "NewSigner"},
		exclude:  map[string]bool{"VerifierList": true},
		absFuncs: map[string]string{"ed25519.Verify": "edVerify", "ed25519.Sign": "edSign", "ed25519.NewKeyFromSeed": "edNewKey", "unicode.IsSpace": "isSpace"},
		absCalls: map[string]string{"base64.StdEncoding.DecodeString": "b64dec", "h.Sum": "shaSum:recv"},
		stdCalls: map[string]stdFn{"strconv.ParseUint": {"parseUint", false}},
		absSigs: map[string]string{"edVerify": "Bytes → Bytes → Bytes → Bool", "edSign": "Bytes → Bytes → Bytes", "edNewKey": "Bytes → Bytes",
			"b64dec": "Bytes → (Bytes × Option String)", "isSpace": "Int → Bool", "shaSum": "Bytes → Bytes → Bytes"},
	})
}

// World-mode regenerations of the tlog functions that read through a HashReader / TileReader whose reads change the
// outside world (the sumdb client's tileReader reads through the network and the on-disk cache): the reader calls are
// abstract world functions, everything else is the code of FnTlog / FnTile.
func init() {
	allChecked := map[string]bool{"TreeHash": true, "ProveTree": true, "ProveRecord": true, "tileHashReader.ReadHashes": true}
	g2lUnits = append(g2lUnits, &g2lUnit{
		out: "FnTlogW", ns: "TlogW", pkgDir: "sumdb/tlog",
		imports:       []string{"ModVerif.Generated.FnTlog"},
		opens:         []string{"ModVerif.Generated.Tlog"},
		fns:           []string{"TreeHash", "ProveTree", "ProveRecord"},
		checked:       allChecked,
		absTypes:      map[string]string{"Hash": "H"},
		extraTypeVars: []string{"W"},
		absFuncs:      map[string]string{"NodeHash": "node"},
		absVars:       map[string]string{"emptyHash": "empty"},
		ifaces:        map[string]string{"HashReader": "Unit"},
		worldFns:      map[string]string{"TreeHash": "W", "ProveTree": "W", "ProveRecord": "W"},
		worldCalls:    map[string]string{"r.ReadHashes": "readHashes:M", "h.ReadHashes": "readHashes:M"},
		absSigs:       map[string]string{"node": "H → H → H", "empty": "H", "readHashes": "List Int → W → M ((List H × Option String) × W)"},
	})
	g2lUnits = append(g2lUnits, &g2lUnit{
		out: "FnTileW", ns: "TileW", pkgDir: "sumdb/tlog",
		imports:       []string{"ModVerif.Generated.FnTlog", "ModVerif.Generated.FnTile"},
		opens:         []string{"ModVerif.Generated.Tlog", "ModVerif.Generated.Tile"},
		structNames:   []string{"tileHashReader"},
		noEq:          map[string]bool{"tileHashReader": true},
		fns:           []string{"tileHashReader.ReadHashes"},
		checked:       allChecked,
		absTypes:      map[string]string{"Hash": "H"},
		extraTypeVars: []string{"W"},
		paramStructs:  []string{"Tree"},
		absFuncs:      map[string]string{"NodeHash": "node", "copy->Hash": "ofBytes", "Hash[:]": "toBytes"},
		ifaces:        map[string]string{"TileReader": "Unit", "HashReader": "Unit"},
		worldFns:      map[string]string{"tileHashReader.ReadHashes": "W"},
		worldCalls:    map[string]string{"r.tr.ReadTiles": "readTiles:M", "r.tr.SaveTiles": "saveTiles:M", "r.tr.Height": "height:M"},
		absSigs: map[string]string{"node": "H → H → H", "ofBytes": "Bytes → H", "toBytes": "H → Bytes",
			"readTiles": "List Tile → W → M ((List Bytes × Option String) × W)", "saveTiles": "List Tile → List Bytes → W → M (Unit × W)", "height": "W → M (Int × W)"},
	})
}

func init() {
	worldT := "(CW σ H)"
	wf := map[string]string{}
	for _, n := range []string{"Client.init", "Client.initWork", "Client.skip", "Client.Lookup", "Client.mergeLatest", "Client.mergeLatestMem", "Client.checkTrees",
		"Client.checkRecord", "Client.readTile", "Client.markTileSaved", "Client.tileCacheKey", "Client.tileRemotePath",
		"tileReader.Height", "tileReader.ReadTiles", "tileReader.SaveTiles", "Client.SetTileHeight", "Client.SetGONOSUMDB"} {
		wf[n] = worldT
	}
	g2lUnits = append(g2lUnits, &g2lUnit{
		out: "FnClient", ns: "SumdbClient", pkgDir: "sumdb",
		imports: []string{"ModVerif.Basic.GoRtClient", "ModVerif.Basic.GoRtStrings", "ModVerif.Generated.FnTlog", "ModVerif.Generated.FnTile", "ModVerif.Generated.FnTlogNote",
			"ModVerif.Generated.FnNote", "ModVerif.Generated.FnNoteKey", "ModVerif.Generated.FnModule", "ModVerif.Generated.FnTlogW", "ModVerif.Generated.FnTileW"},
		opens:          []string{"ModVerif.Generated.Tile", "ModVerif.Generated.Note"},
		worldObjs:      map[string]bool{"Client": true, "tileReader": true},
		worldFns:       wf,
		extraTypeVars:  []string{"σ"},
		absTypes:       map[string]string{"Hash": "H"},
		paramStructs:   []string{"Tree"},
		anyType:        "Cached",
		localTypes:     map[string]string{"cached": "Cached"},
		ignoreRecover:  true,
		lambdaClosures: true,
		ignoreCalls:    map[string]bool{"Lock": true, "Unlock": true, "Add": true, "Done": true, "Wait": true, "Log": true},
		onceCalls:      map[string]string{"c.initOnce.Do": "initDone"},
		cacheCalls:     map[string]string{"c.record.Do": "record", "c.tileCache.Do": "tileCache"},
		ifaceStructs:   map[string]string{"Verifier": ""},
		foreignTypes: map[string]string{"tlog.Tile": "Tile", "tlog.Tree": "(Tree H)", "tlog.HashReader": "(Tree H)", "tlog.TreeProof": "(List H)", "sync.WaitGroup": "Unit",
			"note.Verifiers": "(Bytes → Int → (Verifier × Option String))", "note.Verifier": "Verifier", "note.Note": "Note"},
		fns: []string{"Client.tileCacheKey", "Client.tileRemotePath", "Client.markTileSaved", "Client.readTile", "tileReader.Height", "tileReader.ReadTiles", "tileReader.SaveTiles",
			"Client.checkTrees", "Client.checkRecord", "Client.mergeLatestMem", "Client.mergeLatest", "Client.initWork", "Client.init", "Client.skip", "Client.Lookup",
			"Client.SetTileHeight", "Client.SetGONOSUMDB"},
		worldCalls: map[string]string{"c.ops.ReadRemote": "E.readRemote", "c.ops.ReadCache": "E.readCache", "c.ops.ReadConfig": "E.readConfig",
			"c.ops.WriteConfig": "E.writeConfig", "c.ops.WriteCache": "E.writeCache", "c.ops.SecurityError": "E.securityError",
			"tlog.TreeHash": "treeHashW E fuel:M", "tlog.ProveTree": "proveTreeW E fuel:M", "thr.ReadHashes": "readHashesW E fuel:M:recv",
			"tlog.TileHashReader(latest,&c.tileReader).ReadHashes": "readHashesW E fuel latest:M"},
		stdCalls: map[string]stdFn{"tlog.TileHashReader": {"tileHashReaderX", false}, "note.VerifierList": {"verifierList1", false},
			"bytes.Replace": {"replaceAll", false}, "tile.Path": {"tilePathX fuel", true}},
		absFuncs: map[string]string{"tlog.RecordHash": "E.recordHash", "Hash.String": "E.hashString"},
		externs: map[string]string{"tlog.ParseRecord": "parseRecordX", "tlog.ParseTree": "parseTreeX E", "tlog.CheckTree": "checkTreeX E", "tlog.StoredHashIndex": "storedHashIndexX",
			"note.Open": "noteOpenX E", "note.NewVerifier": "newVerifierX E", "module.EscapePath": "escapePathX E", "module.EscapeVersion": "escapeVersionX E",
			"module.MatchPrefixPatterns": "matchPrefixPatternsX E"},
		externFx: map[string]bool{"tlog.ParseRecord": true, "tlog.ParseTree": true, "tlog.CheckTree": true, "tlog.StoredHashIndex": true, "note.Open": true, "note.NewVerifier": true,
			"module.EscapePath": true, "module.EscapeVersion": true, "module.MatchPrefixPatterns": true},
		externFue: map[string]bool{"tlog.ParseRecord": true, "tlog.CheckTree": true, "tlog.StoredHashIndex": true, "note.Open": true, "module.EscapePath": true,
			"module.EscapeVersion": true, "module.MatchPrefixPatterns": true},
		absSigs:  map[string]string{"E": "ClientEnv σ H"},
		preamble: clientPreamble,
		midamble: map[string]string{"Client.checkTrees": clientGlue},
	})
}

const clientPreamble = `/-- the state of the one ` + "`Client`" + ` object and of the world behind its ` + "`ClientOps`" + ` (state ` + "`σ`" + `): fields of the Go struct, the
    two parCache tables as association lists, ` + "`initOnce`" + ` as a flag -/
structure CW (σ H : Type) where
  s : σ
  didLookup : Int
  initDone : Bool
  initErr : Option String
  name : Bytes
  verifiers : Bytes → Int → (Verifier × Option String)
  tileHeight : Int
  nosumdb : Bytes
  record : List (Bytes × Cached)
  tileCache : List (Tile × Cached)
  latest : Tree H
  latestMsg : Bytes
  tileSaved : List (Tile × Bool)

/-- everything outside client.go the client talks to: the ClientOps methods as functions on the world, and the abstract
    functions of the packages it calls -/
structure ClientEnv (σ H : Type) where
  readRemote : Bytes → CW σ H → ((Bytes × Option String) × CW σ H)
  readCache : Bytes → CW σ H → ((Bytes × Option String) × CW σ H)
  readConfig : Bytes → CW σ H → ((Bytes × Option String) × CW σ H)
  writeConfig : Bytes → Bytes → Bytes → CW σ H → (Option String × CW σ H)
  writeCache : Bytes → Bytes → CW σ H → (Unit × CW σ H)
  securityError : Bytes → CW σ H → (Unit × CW σ H)
  node : H → H → H
  empty : H
  recordHash : Bytes → H
  ofBytes : Bytes → H
  toBytes : H → Bytes
  hashString : H → Bytes
  b64dec : Bytes → (Bytes × Option String)
  isSpace : Int → Bool
  edVerify : Bytes → Bytes → Bytes → Bool
  shaSum : Bytes → Bytes → Bytes
  isLetter : Int → Bool
  equalFold : Bytes → Bytes → Bool
  pathMatch : Bytes → Bytes → (Bool × Option String)

section
variable {σ H : Type} [DecidableEq H] [Inhabited H]
def parseRecordX (fuel : Nat) (msg : Bytes) := ModVerif.Generated.TlogNote.ParseRecord fuel msg
def parseTreeX (E : ClientEnv σ H) (text : Bytes) : M (Tree H × Option String) := do
  let (t, e) ← ModVerif.Generated.TlogNote.ParseTree E.b64dec E.ofBytes text
  pure ({ N := t.N, Hash := t.Hash }, e)
def checkTreeX (E : ClientEnv σ H) (fuel : Nat) (p : List H) (t : Int) (th : H) (n : Int) (h : H) := ModVerif.Generated.Tlog.CheckTree E.node fuel p t th n h
def storedHashIndexX (fuel : Nat) (level n : Int) := ModVerif.Generated.Tlog.StoredHashIndex fuel level n
def noteOpenX (E : ClientEnv σ H) (fuel : Nat) (msg : Bytes) (known : Bytes → Int → (Verifier × Option String)) := ModVerif.Generated.Note.Open E.b64dec E.isSpace fuel msg known
def newVerifierX (E : ClientEnv σ H) (vkey : Bytes) := ModVerif.Generated.NoteKey.NewVerifier E.b64dec E.edVerify E.isSpace E.shaSum vkey
def escapePathX (E : ClientEnv σ H) (fuel : Nat) (p : Bytes) := ModVerif.Generated.Module.EscapePath E.equalFold E.isLetter fuel p
def escapeVersionX (E : ClientEnv σ H) (fuel : Nat) (v : Bytes) := ModVerif.Generated.Module.EscapeVersion E.equalFold E.isLetter fuel v
def matchPrefixPatternsX (E : ClientEnv σ H) (fuel : Nat) (globs target : Bytes) := ModVerif.Generated.Module.MatchPrefixPatterns E.pathMatch fuel globs target
def tilePathX (fuel : Nat) (t : Tile) := ModVerif.Generated.Tile.Tile_Path fuel t
/-- tlog.TileHashReader(tree, &c.tileReader): the only TileReader is the client's, so the reader is its tree -/
def tileHashReaderX (tree : Tree H) (_ : Unit) : Tree H := tree
/-- note.VerifierList(v): the one-element list -/
def verifierList1 (v : Verifier) : Bytes → Int → (Verifier × Option String) :=
  fun name hash => if name = v.Name ∧ hash = v.KeyHash then (v, none) else (default, some "UnknownVerifierError")
end
`

const clientGlue = `section
variable {σ H : Type} [DecidableEq H] [Inhabited H]
/-- tlog.TileHashReader(tree, &c.tileReader).ReadHashes(indexes): the regenerated tileHashReader.ReadHashes (FnTileW) reading
    through the regenerated methods of the client's tileReader -/
def readHashesW (E : ClientEnv σ H) (fuel : Nat) (tree : Tree H) (indexes : List Int) (world : CW σ H) :=
  ModVerif.Generated.TileW.tileHashReader_ReadHashes (W := CW σ H) (fun w => pure (tileReader_Height w)) E.node E.ofBytes
    (fun ts w => tileReader_ReadTiles E fuel ts w) (fun ts d w => tileReader_SaveTiles E fuel ts d w) fuel { tree := tree, tr := () } indexes world
def treeHashW (E : ClientEnv σ H) (fuel : Nat) (n : Int) (tree : Tree H) (world : CW σ H) :=
  ModVerif.Generated.TlogW.TreeHash (W := CW σ H) E.empty E.node (fun idx w => readHashesW E fuel tree idx w) fuel n () world
def proveTreeW (E : ClientEnv σ H) (fuel : Nat) (t n : Int) (tree : Tree H) (world : CW σ H) :=
  ModVerif.Generated.TlogW.ProveTree (W := CW σ H) E.node (fun idx w => readHashesW E fuel tree idx w) fuel t n () world
end
`

// The go.mod PARSER with its pointer graph: nodes are heap objects (a pointer is an Int), the interface Expr is a sum of
// pointers, `x.Comment()` is the owning node, interior pointers (&x.LParen) are the owner's pointer.
func init() {
	lex := []string{"isIdent", "input.eof", "input.peekRune", "input.peekPrefix", "input.readRune", "tokenKind.isComment", "tokenKind.isEOL",
		"input.startToken", "input.endToken", "input.peek", "input.lex", "input.readToken"}
	syn := []string{"Position.add", "CommentBlock.Span", "Line.Span", "LineBlock.Span", "LParen.Span", "RParen.Span", "FileSyntax.Span", "reverseComments",
		"input.order", "input.assignComments", "input.parseLine", "input.parseLineBlock", "input.parseStmt", "input.parseFile"}
	wf := map[string]string{}
	for _, n := range syn[1:] {
		if n != "reverseComments" {
			wf[n] = "Heap"
		}
	}
	g2lUnits = append(g2lUnits, &g2lUnit{
		out: "FnParse", ns: "Parse", pkgDir: "modfile",
		imports:      []string{"ModVerif.Basic.GoRtUtf8", "ModVerif.Basic.GoRtStrings", "ModVerif.Basic.GoRtHeap", "ModVerif.Basic.GoRtRunes"},
		structNames:  []string{"Position", "Comment", "Comments", "CommentBlock", "LParen", "RParen", "Line", "LineBlock", "Expr", "FileSyntax", "token", "input"},
		structFields: map[string][]string{"input": {"complete", "remaining", "tokenStart", "token", "pos", "comments", "file", "pre", "post"}},
		sumTypes:     map[string][]string{"Expr": {"CommentBlock", "LParen", "RParen", "Line", "LineBlock", "FileSyntax"}},
		sumNil:       map[string]bool{"Expr": true},
		heapTypes:    map[string]string{"CommentBlock": "cbs", "Line": "lines", "LineBlock": "blocks", "FileSyntax": "files"},
		interior:     map[string]string{"LParen": "LineBlock.LParen", "RParen": "LineBlock.RParen"},
		ownerPtr:     map[string]string{"Comments": "Expr"},
		ownerCalls:   map[string]bool{"Comment": true},
		fns:          append(append([]string{}, lex...), syn...),
		inout: map[string]string{"input.readRune": "in", "input.startToken": "in", "input.endToken": "in", "input.lex": "in", "input.readToken": "in",
			"input.order": "in", "input.assignComments": "in", "input.parseLine": "in", "input.parseLineBlock": "in", "input.parseStmt": "in", "input.parseFile": "in",
			"reverseComments": "list"},
		worldFns:   wf,
		panicCalls: map[string]bool{"input.Error": true},
		absFuncs:   map[string]string{"unicode.IsPrint": "isPrint", "unicode.IsSpace": "isSpace"},
		absSigs:    map[string]string{"isPrint": "Int → Bool", "isSpace": "Int → Bool"},
	})
}

// The edit operations of modfile (read.go tree operations, rule.go typed operations) on the pointer graph as a heap.
func init() {
	tree := []string{"commentsAdd", "stringsAdd", "FileSyntax.addLine", "FileSyntax.updateLine", "Line.markRemoved", "FileSyntax.Cleanup"}
	ops := []string{"MustQuote", "AutoQuote", "checkCanonicalVersion", "lineLess", "lineExcludeLess", "lineRetractLess", "isIndirect", "Require.markRemoved", "Require.setVersion", "Require.setIndirect",
		"File.AddModuleStmt", "File.AddGoStmt", "File.DropGoStmt", "File.DropToolchainStmt", "File.AddToolchainStmt", "File.AddGodebug", "File.addNewGodebug", "File.DropGodebug",
		"File.AddRequire", "File.AddNewRequire", "File.DropRequire", "File.AddExclude", "File.DropExclude", "File.AddReplace", "addReplace", "File.DropReplace",
		"File.AddRetract", "File.DropRetract", "File.SortBlocks", "File.removeDups", "File.AddTool", "File.DropTool", "File.Cleanup",
		"File.SetRequire", "File.SetRequireSeparateIndirect",
		"WorkFile.Cleanup", "WorkFile.AddGoStmt", "WorkFile.AddToolchainStmt", "WorkFile.DropGoStmt", "WorkFile.DropToolchainStmt", "WorkFile.AddGodebug", "WorkFile.addNewGodebug",
		"WorkFile.DropGodebug", "WorkFile.AddUse", "WorkFile.AddNewUse", "WorkFile.SetUse", "WorkFile.DropUse", "WorkFile.AddReplace", "WorkFile.DropReplace",
		"WorkFile.SortBlocks", "WorkFile.removeDups"}
	wf := map[string]string{}
	for _, n := range append(append([]string{"parseDirectiveComment"}, tree[2:]...), ops[3:]...) {
		wf[n] = "Heap"
	}
	g2lUnits = append(g2lUnits, &g2lUnit{
		out: "FnEdit", ns: "Edit", pkgDir: "modfile",
		imports: []string{"ModVerif.Basic.GoRtUtf8", "ModVerif.Basic.GoRtStrings", "ModVerif.Basic.GoRtHeap", "ModVerif.Basic.GoRtZipIO", "ModVerif.Basic.GoRtEdit", "ModVerif.Generated.FnSemver", "ModVerif.Generated.FnModule"},
		structNames: []string{"Position", "Comment", "Comments", "CommentBlock", "LParen", "RParen", "Line", "LineBlock", "Expr", "FileSyntax",
			"VersionInterval", "Module", "Go", "Toolchain", "Godebug", "Require", "Exclude", "Replace", "Retract", "Tool", "File", "Use", "WorkFile"},
		sumTypes: map[string][]string{"Expr": {"CommentBlock", "LParen", "RParen", "Line", "LineBlock", "FileSyntax"}},
		sumNil:   map[string]bool{"Expr": true},
		heapTypes: map[string]string{"CommentBlock": "cbs", "Line": "lines", "LineBlock": "blocks", "FileSyntax": "files", "Module": "modules", "Go": "gos", "Toolchain": "toolchains",
			"Godebug": "godebugs", "Require": "requires", "Exclude": "excludes", "Replace": "replaces", "Retract": "retracts", "Tool": "tools", "File": "mods",
			"Use": "uses", "WorkFile": "works"},
		interior:     map[string]string{"LParen": "LineBlock.LParen", "RParen": "LineBlock.RParen"},
		ownerPtr:     map[string]string{"Comments": "Expr"},
		ownerCalls:   map[string]bool{"Comment": true},
		foreignTypes: map[string]string{"module.Version": "ModVersion"},
		fns:          append(append([]string{}, tree...), ops...),
		worldFns:     wf,
		inout:        map[string]string{"addReplace": "replace"},
		inlineFns:    map[string]bool{"removeDups": true},
		exclude:      map[string]bool{"removeDups": true},
		localTypes:   map[string]string{"elem": "ReqElem"},
		preamble:     "/-- `type elem struct { version string; indirect bool }` (local to SetRequire) -/\nstructure ReqElem where\n  version : Bytes\n  indirect : Bool\n  deriving DecidableEq, Repr, Inhabited\n\n",
		externs: map[string]string{"semver.Compare": "ModVerif.Generated.Semver.Compare", "semver.Major": "ModVerif.Generated.Semver.Major",
			"module.SplitPathVersion": "ModVerif.Generated.Module.SplitPathVersion", "module.CanonicalVersion": "ModVerif.Generated.Module.CanonicalVersion",
			"module.PathMajorPrefix": "ModVerif.Generated.Module.PathMajorPrefix", "module.CheckPathMajor": "ModVerif.Generated.Module.CheckPathMajor"},
		externFx: map[string]bool{"semver.Compare": true, "semver.Major": true, "module.SplitPathVersion": true, "module.CanonicalVersion": true,
			"module.PathMajorPrefix": true, "module.CheckPathMajor": true},
		externFue: map[string]bool{"semver.Compare": true, "semver.Major": true, "module.SplitPathVersion": true, "module.CanonicalVersion": true,
			"module.PathMajorPrefix": true, "module.CheckPathMajor": true},
		absCalls: map[string]string{"GoVersionRE.MatchString": "goVersionRE", "ToolchainRE.MatchString": "toolchainRE"},
		absFuncs: map[string]string{"unicode.IsPrint": "isPrint", "unicode.IsSpace": "isSpace", "strconv.Quote": "quote"},
		absSigs:  map[string]string{"isPrint": "Int → Bool", "isSpace": "Int → Bool", "quote": "Bytes → Bytes", "goVersionRE": "Bytes → Bool", "toolchainRE": "Bytes → Bool"},
	})
}

// The DIRECTIVE layer of modfile (rule.go parseToFile / File.add / WorkFile.add / parseReplace / parseVersionInterval / fixRetract,
// work.go ParseWork): from the syntax graph (heap) to the typed file.  Token slices that alias a Line's tokens are VIEWS.
func init() {
	fns := []string{"MustQuote", "AutoQuote", "IsDirectoryPath", "isIndirect", "parseString", "parseVersion", "parseVersionInterval", "modulePathMajor",
		"parseDirectiveComment", "parseDeprecation", "parseReplace", "File.add", "File.fixRetract", "WorkFile.add", "parseToFile", "ParseWork"}
	wf := map[string]string{}
	for _, n := range fns[3:] {
		if n != "modulePathMajor" {
			wf[n] = "Heap"
		}
	}
	g2lUnits = append(g2lUnits, &g2lUnit{
		out: "FnRule", ns: "Rule", pkgDir: "modfile",
		imports: []string{"ModVerif.Basic.GoRtUtf8", "ModVerif.Basic.GoRtStrings", "ModVerif.Basic.GoRtHeap", "ModVerif.Basic.GoRtZipIO", "ModVerif.Basic.GoRtEdit", "ModVerif.Basic.GoRtNote", "ModVerif.Basic.GoRtRule", "ModVerif.Generated.FnSemver", "ModVerif.Generated.FnModule"},
		structNames: []string{"Position", "Comment", "Comments", "CommentBlock", "LParen", "RParen", "Line", "LineBlock", "Expr", "FileSyntax",
			"VersionInterval", "Module", "Go", "Toolchain", "Godebug", "Require", "Exclude", "Replace", "Retract", "Tool", "File", "Use", "WorkFile", "Error"},
		sumTypes: map[string][]string{"Expr": {"CommentBlock", "LParen", "RParen", "Line", "LineBlock", "FileSyntax"}},
		sumNil:   map[string]bool{"Expr": true},
		heapTypes: map[string]string{"CommentBlock": "cbs", "Line": "lines", "LineBlock": "blocks", "FileSyntax": "files", "Module": "modules", "Go": "gos", "Toolchain": "toolchains",
			"Godebug": "godebugs", "Require": "requires", "Exclude": "excludes", "Replace": "replaces", "Retract": "retracts", "Tool": "tools", "File": "mods",
			"Use": "uses", "WorkFile": "works", "Error": "errors"},
		interior:     map[string]string{"LParen": "LineBlock.LParen", "RParen": "LineBlock.RParen"},
		ownerPtr:     map[string]string{"Comments": "Expr"},
		ownerCalls:   map[string]bool{"Comment": true},
		foreignTypes: map[string]string{"module.Version": "ModVersion"},
		fns:          fns,
		worldFns:     wf,
		inout:        map[string]string{"parseString": "s", "parseVersion": "s", "parseVersionInterval": "args", "File.add": "errs", "WorkFile.add": "errs", "File.fixRetract": "errs"},
		viewVars: map[string]bool{"File.add.args": true, "WorkFile.add.args": true, "parseReplace.args": true, "parseVersionInterval.args": true,
			"parseVersionInterval.toks": true, "File.fixRetract.args": true},
		externs: map[string]string{"semver.Compare": "ModVerif.Generated.Semver.Compare", "semver.Major": "ModVerif.Generated.Semver.Major",
			"module.SplitPathVersion": "ModVerif.Generated.Module.SplitPathVersion", "module.CanonicalVersion": "ModVerif.Generated.Module.CanonicalVersion",
			"module.PathMajorPrefix": "ModVerif.Generated.Module.PathMajorPrefix", "module.CheckPathMajor": "ModVerif.Generated.Module.CheckPathMajor"},
		externFx: map[string]bool{"semver.Compare": true, "semver.Major": true, "module.SplitPathVersion": true, "module.CanonicalVersion": true,
			"module.PathMajorPrefix": true, "module.CheckPathMajor": true},
		externFue: map[string]bool{"semver.Compare": true, "semver.Major": true, "module.SplitPathVersion": true, "module.CanonicalVersion": true,
			"module.PathMajorPrefix": true, "module.CheckPathMajor": true},
		absCalls: map[string]string{"GoVersionRE.MatchString": "goVersionRE", "ToolchainRE.MatchString": "toolchainRE",
			"laxGoVersionRE.FindStringSubmatch": "laxGoVersionSub", "deprecatedRE.FindStringSubmatch": "deprecatedSub"},
		anyType:     "Unit",
		worldCalls:  map[string]string{"parse": "parseSyn:M"},
		exclude:     map[string]bool{"parse": true},
		errConv:     map[string]string{"ErrorList": "errListErr"},
		optFuncs:    map[string]string{"VersionFixer": "Bytes → Bytes → (Bytes × Option String)"},
		valueIdents: map[string]string{"dontFixRetract": "(some dontFixRetract)"},
		errStructs:  map[string]bool{"module.ModuleError": true},
		preamble: "/-- `var dontFixRetract VersionFixer = func(_, vers string) (string, error) { return vers, nil }` -/\ndef dontFixRetract : Bytes → Bytes → (Bytes × Option String) := fun _ vers => (vers, none)\n\n" +
			"/-- an `ErrorList` as an `error` value: every entry with its position and its inner error, separated by U+0001 -/\ndef errListErr (l : List Error) : Option String :=\n  some (String.intercalate (String.singleton (Char.ofNat 1)) (l.map fun e => s!\"{e.Pos.Line},{e.Pos.LineRune},{e.Pos.Byte},{e.Err.getD \"\"}\"))\n\n",
		absFuncs: map[string]string{"unicode.IsPrint": "isPrint", "unicode.IsSpace": "isSpace", "strconv.Quote": "quote", "strconv.Unquote": "unquote"},
		absSigs: map[string]string{"isPrint": "Int → Bool", "isSpace": "Int → Bool", "quote": "Bytes → Bytes", "unquote": "Bytes → (Bytes × Option String)",
			"goVersionRE": "Bytes → Bool", "toolchainRE": "Bytes → Bool", "laxGoVersionSub": "Bytes → List Bytes", "deprecatedSub": "Bytes → List Bytes",
			"parseSyn": "Bytes → Bytes → Heap → M ((Int × Option String) × Heap)"},
	})
}
