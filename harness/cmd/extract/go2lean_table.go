package main

// The functions translated whole on every run.  Order inside a unit does not matter (callees are emitted first).
var g2lUnits = []*g2lUnit{
	{
		out: "FnSemver", ns: "Semver", pkgDir: "semver",
		structNames: []string{"parsed"},
		fns: []string{"isIdentChar", "isBadNum", "isNum", "parseInt", "parsePrerelease", "parseBuild", "parse",
			"compareInt", "nextIdent", "comparePrerelease", "IsValid", "Canonical", "Major", "MajorMinor", "Prerelease", "Build", "Compare", "Max"},
	},
	{
		out: "FnTlog", ns: "Tlog", pkgDir: "sumdb/tlog",
		fns: []string{"maxpow2", "StoredHashIndex", "SplitStoredHashIndex", "StoredHashCount",
			"StoredHashesForRecordHash", "TreeHash", "subTreeIndex", "subTreeHash",
			"ProveRecord", "leafProofIndex", "leafProof", "CheckRecord", "runRecordProof",
			"ProveTree", "treeProofIndex", "treeProof", "CheckTree", "runTreeProof"},
		checked: map[string]bool{"maxpow2": true, "StoredHashIndex": true, "SplitStoredHashIndex": true, "StoredHashCount": true,
			"StoredHashesForRecordHash": true, "TreeHash": true, "subTreeIndex": true, "subTreeHash": true,
			"ProveRecord": true, "leafProofIndex": true, "leafProof": true, "CheckRecord": true, "runRecordProof": true,
			"ProveTree": true, "treeProofIndex": true, "treeProof": true, "CheckTree": true, "runTreeProof": true},
		absTypes: map[string]string{"Hash": "H"},
		absFuncs: map[string]string{"NodeHash": "node"},
		absVars:  map[string]string{"emptyHash": "empty"},
		absSigs:  map[string]string{"node": "H → H → H", "empty": "H"},
		ifaces:   map[string]string{"HashReader": "List Int → (List H × Option String)"},
	},
}
