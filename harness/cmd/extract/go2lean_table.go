package main

// The functions translated whole on every run.  Order inside a unit does not matter (callees are emitted first).
var g2lUnits = []*g2lUnit{
	{
		out: "FnSemver", ns: "Semver", pkgDir: "semver",
		structNames: []string{"parsed"},
		fns: []string{"isIdentChar", "isBadNum", "isNum", "parseInt", "parsePrerelease", "parseBuild", "parse",
			"compareInt", "nextIdent", "comparePrerelease", "IsValid", "Canonical", "Major", "MajorMinor", "Prerelease", "Build", "Compare", "Max"},
	},
}
