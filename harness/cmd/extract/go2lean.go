// go2lean: whole-function Go -> Lean translator (the regenerated half of the tie, DESIGN §3.1b).
//
// For every function listed in go2lean_table.go it type-checks the package with go/types and emits a Lean
// definition over the vocabulary of lean/ModVerif/Basic/GoRt.lean:
//
//	integers (all Go integer types)  -> Int        string, []byte -> Bytes      []T -> List T
//	struct types                     -> structure  error          -> Option String (the message literal / constructor name)
//	loops                            -> a hoisted definition recursing on a fuel argument, carried variables as arguments
//	index / slice / division / shift -> effectful GoRt operations in the monad `M = Except Err`
//
// A function outside the supported subset is NOT emitted (a comment says why); the tie theorems that mention it
// then fail to build, which bin/check reports as a broken tie for the properties that depend on it.
package main

import (
	"fmt"
	"go/ast"
	"go/constant"
	"go/importer"
	"go/parser"
	"go/token"
	"go/types"
	"os"
	"path/filepath"
	"sort"
	"strings"
)

// ---------------------------------------------------------------------------------------------------------
// configuration

type g2lUnit struct {
	out            string              // Lean module name under Generated: "FnSemver"
	ns             string              // Lean namespace suffix: "Semver"
	pkgDir         string              // "semver"
	fns            []string            // function names; methods as "Recv.Name"
	checked        map[string]bool     // functions translated in checked-int64 mode
	absTypes       map[string]string   // Go named type -> Lean type variable ("Hash" -> "H")
	absFuncs       map[string]string   // Go function -> Lean parameter name ("NodeHash" -> "node")
	absSigs        map[string]string   // Lean parameter name -> Lean type ("node" -> "H → H → H")
	absVars        map[string]string   // Go package variable -> Lean parameter name ("emptyHash" -> "empty")
	pkgVars        map[string]string   // Go package variable -> Lean constant (regenerated table in Generated/Facts.lean)
	sumTypes       map[string][]string // interface -> the struct types that implement it: emitted as an inductive sum
	embedGet       map[string]string   // method name -> embedded field it returns ("Comment" -> "Comments")
	printfTo       map[string]string   // "printer.printf" -> the bytes.Buffer field the method formats into
	accumTypes     map[string]bool     // foreign types treated as byte accumulators ("hash.Hash": Write appends, Sum hashes)
	mutCalls       map[string]string   // statement calls that replace their argument: "sort.Strings" -> "sortStrings"
	ignoreCalls    map[string]bool     // method names whose calls (as statements) are dropped: "Close"
	errFields      map[string]bool     // error struct types whose (string / integer) fields are kept in the error text
	errCarry       map[string]bool     // error struct types whose single field is returned in the (otherwise nil) first result slot
	nonNilIfaces   map[string]bool     // interface-typed values of these types are never nil (`x == nil` is false)
	stdCalls       map[string]stdFn    // source text of a call's function expression -> GoRt function (e.g. binary.BigEndian.Uint32)
	absCalls       map[string]string   // source text of a call's function expression -> Lean parameter (":recv" suffix: pass the root receiver)
	ifaces         map[string]string   // interface type name -> Lean type of the value (its single method is application)
	imports        []string            // extra Lean imports
	opens          []string            // extra namespaces to open
	externs        map[string]string   // calls to functions of OTHER units: "semver.IsValid" -> "ModVerif.Generated.Semver.IsValid"
	externFx       map[string]bool     // extern is effectful (in M)
	externFue      map[string]bool     // extern takes fuel
	structNames    []string            // struct types of the package to emit
	noEq           map[string]bool     // structs without DecidableEq (function fields)
	structFields   map[string][]string // struct -> the fields to keep (others are dropped; functions touching them are untranslatable)
	panicCalls     map[string]bool     // methods that never return (they panic): "input.Error"
	exclude        map[string]bool     // functions never pulled in automatically (only called on statically dead branches)
	inout          map[string]string   // function -> name of the map/pointer parameter (or receiver) it mutates; returned as an extra last result
	effFns         map[string]string   // function -> Lean type of one effect-log entry (its result becomes R × List entry)
	ifaceStructs   map[string]string   // multi-method interface -> Lean structure text (emitted verbatim); method call = field application
	effects        map[string]string   // interface method with no result -> treated as an effect appended to `effLog` (value = Lean type of one log entry)
	preamble       string              // extra Lean text after the struct declarations
	worldFns       map[string]string   // function -> Lean type W of the world it threads: extra last parameter `world : W`, result R × W
	worldCalls     map[string]string   // source text of a call's function expression -> Lean function `args… → W → (result × W)` (an external call that reads / changes the world)
	foreignTypes   map[string]string   // "zip.Reader" -> Lean structure name (declared in the imports / preamble) for a struct type of another package
	limitedReaders bool                // io.LimitedReader{R, N} values are `LimitedReader` structures; io.Copy(w, lr) reads through `limRead`
	walkCalls      map[string]string   // "filepath.Walk" -> abstract parameter `Bytes → FsTree FileInfo` (what the file system holds at the root): Walk(root, func…) becomes `walkTree` over that tree with the hoisted closure
	heapTypes      map[string]string   // struct type -> field of the world structure `Heap` holding its objects: a pointer to it is an Int (0 = nil)
	interior       map[string]string   // struct type whose pointers point INTO a heap object: "LParen" -> "LineBlock.LParen" (the pointer is the owner's pointer)
	ownerPtr       map[string]string   // struct type embedded in every variant of a sum type: "Comments" -> "Expr" (a pointer to it is the owning sum value)
	ownerCalls     map[string]bool     // methods that return the pointer to the embedded struct of their receiver: "Comment"
	sumNil         map[string]bool     // sum types with a nil value (constructor `nil`)
	worldObjs      map[string]bool     // struct types whose (single) instance lives in the threaded world: fields of a value of such a type are fields of `world`, its methods take no receiver
	onceCalls      map[string]string   // "c.initOnce.Do" -> Boolean world field: sync.Once.Do(f) runs the method value f unless the field is set, and sets it
	cacheCalls     map[string]string   // "c.record.Do" -> world field holding the memo table (association list): parCache.Do(key, func) looks the key up and otherwise runs the function and stores its result
	viewVars       map[string]bool     // "Fn.var": a []string variable that aliases the tail of a heap Line's Token: a (line pointer, offset) pair (TokRef)
	errConv        map[string]string   // named type of the package that implements error -> Lean function to the error value (Option String): ErrorList -> errListErr
	optFuncs       map[string]string   // named function type that may be nil (VersionFixer) -> Lean function type; values are `Option` of it
	valueIdents    map[string]string   // package-level variable -> Lean term (a function value defined in the preamble)
	errStructs     map[string]bool     // foreign struct types that are errors with an `Err` field ("module.ModuleError"): a type assertion on an error tests the constructor name; x.Err is the inner error
	anyType        string              // Lean type standing for interface{} (the value type of the memo tables)
	localTypes     map[string]string   // types declared inside function bodies -> Lean structure of the preamble ("cached" -> "Cached")
	inlineFns      map[string]bool     // plain functions compiled in place at their (statement) call sites, pointer parameters as aliases of the caller's places
	midamble       map[string]string   // function -> hand-written Lean text emitted right before its definition (glue between regenerated functions and imported units)
	ignoreRecover  bool                // `defer func() { … recover() … }()` is dropped: a panic stays Err.panic
	extraTypeVars  []string            // type variables of function signatures besides the abstract types (the world type W)
	paramStructs   []string            // struct types declared in an imported unit that take the abstract type variables as parameters ("Tree")
	lambdaClosures bool                // `f := func(x) T { return <pure expr> }` becomes a Lean function VALUE (it can be passed on), not a hoisted definition
	structTV       map[string]bool     // computed: struct is parametric in the abstract type variables
}

type g2lPkg struct {
	fset  *token.FileSet
	files []*ast.File
	info  *types.Info
	pkg   *types.Package
	decls map[string]*ast.FuncDecl
}

var g2lPkgs = map[string]*g2lPkg{}

func g2lLoad(dir string) *g2lPkg {
	if p, ok := g2lPkgs[dir]; ok {
		return p
	}
	fs := token.NewFileSet()
	abs := filepath.Join(*repo, dir)
	pkgs, err := parser.ParseDir(fs, abs, func(fi os.FileInfo) bool { return !strings.HasSuffix(fi.Name(), "_test.go") }, parser.ParseComments)
	if err != nil {
		die("go2lean: parse %s: %v", dir, err)
	}
	p := &g2lPkg{fset: fs, decls: map[string]*ast.FuncDecl{}}
	for _, pk := range pkgs {
		names := []string{}
		for n := range pk.Files {
			names = append(names, n)
		}
		sort.Strings(names)
		for _, n := range names {
			f := pk.Files[n]
			// honour build tags crudely: skip files guarded by the verif tag or by go:build ignore
			skip := false
			for _, cg := range f.Comments {
				if cg.Pos() < f.Package && (strings.Contains(cg.Text(), "go:build verif") || strings.Contains(cg.Text(), "go:build ignore")) {
					skip = true
				}
			}
			if !skip {
				p.files = append(p.files, f)
			}
		}
	}
	p.info = &types.Info{Types: map[ast.Expr]types.TypeAndValue{}, Defs: map[*ast.Ident]types.Object{}, Uses: map[*ast.Ident]types.Object{}, Selections: map[*ast.SelectorExpr]*types.Selection{}, Implicits: map[ast.Node]types.Object{}}
	cwd, _ := os.Getwd()
	os.Chdir(*repo)
	conf := types.Config{Importer: importer.ForCompiler(fs, "source", nil), Error: func(error) {}}
	p.pkg, _ = conf.Check(dir, fs, p.files, p.info)
	os.Chdir(cwd)
	for _, f := range p.files {
		for _, d := range f.Decls {
			if fd, ok := d.(*ast.FuncDecl); ok && fd.Body != nil {
				name := fd.Name.Name
				if fd.Recv != nil && len(fd.Recv.List) == 1 {
					t := fd.Recv.List[0].Type
					if st, ok := t.(*ast.StarExpr); ok {
						t = st.X
					}
					if id, ok := t.(*ast.Ident); ok {
						name = id.Name + "." + name
					}
				}
				p.decls[name] = fd
			}
		}
	}
	g2lPkgs[dir] = p
	return p
}

// ---------------------------------------------------------------------------------------------------------
// translation context

type g2lFn struct {
	u            *g2lUnit
	p            *g2lPkg
	fd           *ast.FuncDecl
	goName       string
	leanName     string
	checked      bool
	pure         bool // no effects at all: emitted as a plain definition
	fuel         bool // takes a fuel argument
	rec          bool // self-recursive
	absUsed      []string
	results      []*types.Var
	named        bool
	tmp          int
	loops        []string // hoisted loop definitions (Lean text), in dependency order
	nloop        int
	retType      string
	inLoop       *g2lLoop
	deferBody    []ast.Stmt // body of a leading `defer func() {…}()` that only touches the named results
	inDefer      bool
	brk          *brkTarget
	monad        string
	want         types.Type // expected type of the expression being compiled (for nil)
	objNames     map[types.Object]string
	usesEff      bool
	inoutName    string // Lean name of the in-out parameter of this function
	inoutIdx     int    // its position among the parameters (receiver first)
	endK         kont
	closures     map[types.Object]*g2lClosure
	closOuts     []string // while compiling a closure body: the captured variables it modifies (returned with the result)
	inClosure    bool
	labels       map[string]int // top-level labels of the body -> statement index
	effType      string
	labelFrames  []*labelFrame
	gotoVars     map[string]bool       // results of a goto issued inside a loop: the code up to `pure (Ctl.ret g)` leaves the loop
	inlineRanges [][2]token.Pos        // source ranges of the functions whose bodies are being compiled inline
	nilAlias     map[types.Object]bool // inlined pointer parameters whose argument is nil
	pendingLabel string
	loopLabels   map[string]labelTarget
	aliases      map[types.Object]ast.Expr // local pointer variables initialised with &X[i]: they stand for the place X[i]
	worldVar     *types.Var                // synthetic variable standing for the threaded world (nil: the function does not thread one)
	worldType    string
	usedName     map[string]bool
	structs      map[string]*types.Named
}

type g2lLoop struct {
	name    string
	carried []*types.Var
	hasRet  bool
	resType string // Lean type of the loop's result (inside M)
}

var constantOne = constant.MakeInt64(1)

type g2lCtx struct {
	units map[string]*g2lUnit
	fns   map[string]*g2lFn // key: pkgDir + "." + goName
}

var g2l = &g2lCtx{units: map[string]*g2lUnit{}, fns: map[string]*g2lFn{}}

var leanKeywords = map[string]bool{"end": true, "at": true, "from": true, "fun": true, "show": true, "have": true, "open": true,
	"instance": true, "where": true, "then": true, "type": true, "Type": true, "do": true, "in": true, "let": true, "if": true,
	"else": true, "match": true, "with": true, "def": true, "theorem": true, "prefix": true, "infix": true, "local": true,
	"section": true, "namespace": true, "variable": true, "universe": true, "mut": true, "for": true, "return": true,
	"try": true, "catch": true, "finally": true, "unless": true, "by": true, "using": true, "calc": true, "deriving": true,
	"structure": true, "class": true, "inductive": true, "abbrev": true, "example": true, "import": true, "export": true,
	"macro": true, "syntax": true, "notation": true, "set_option": true, "attribute": true, "private": true, "protected": true,
	"partial": true, "mutual": true, "fuel": true, "pure": true, "throw": true, "some": true, "none": true, "k": false}

func leanIdent(s string) string {
	if s == "_" {
		return "_"
	}
	if leanKeywords[s] {
		return s + "_"
	}
	return s
}

func (f *g2lFn) fresh(prefix string) string {
	f.tmp++
	return fmt.Sprintf("%s%d", prefix, f.tmp)
}

func (f *g2lFn) pos(n ast.Node) string {
	return f.p.fset.Position(n.Pos()).String()
}

func (f *g2lFn) bad(n ast.Node, format string, a ...any) {
	die("%s: %s: unsupported: %s", f.goName, f.pos(n), fmt.Sprintf(format, a...))
}

// ---------------------------------------------------------------------------------------------------------
// types

type intKind int

const (
	notInt intKind = iota
	kI64           // int, int64
	kU64           // uint, uint64, uintptr
	kU8
	kI32
	kU32
	kI8
	kI16
	kU16
	kUntyped
)

func intKindOf(t types.Type) intKind {
	b, ok := t.Underlying().(*types.Basic)
	if !ok {
		return notInt
	}
	switch b.Kind() {
	case types.Int, types.Int64:
		return kI64
	case types.Uint, types.Uint64, types.Uintptr:
		return kU64
	case types.Uint8:
		return kU8
	case types.Int32:
		return kI32
	case types.Uint32:
		return kU32
	case types.Int8:
		return kI8
	case types.Int16:
		return kI16
	case types.Uint16:
		return kU16
	case types.UntypedInt, types.UntypedRune:
		return kUntyped
	}
	return notInt
}

func isString(t types.Type) bool {
	b, ok := t.Underlying().(*types.Basic)
	return ok && (b.Kind() == types.String || b.Kind() == types.UntypedString)
}

func isBool(t types.Type) bool {
	b, ok := t.Underlying().(*types.Basic)
	return ok && (b.Kind() == types.Bool || b.Kind() == types.UntypedBool)
}

func isByteSlice(t types.Type) bool {
	s, ok := t.Underlying().(*types.Slice)
	return ok && intKindOf(s.Elem()) == kU8
}

func isBytesLike(t types.Type) bool { return isString(t) || isByteSlice(t) }

func isErrorType(t types.Type) bool {
	n, ok := t.(*types.Named)
	return ok && n.Obj().Name() == "error" && n.Obj().Pkg() == nil
}

func (f *g2lFn) leanType(t types.Type, at ast.Node) string {
	if isBytesBuffer(t) || f.isAccum(t) {
		return "Bytes"
	}
	if at2, ok := t.(*types.Array); ok && intKindOf(at2.Elem()) == kU8 {
		return "Bytes"
	}
	if n0, ok := t.(*types.Named); ok {
		if lt, ok := f.u.optFuncs[n0.Obj().Name()]; ok && n0.Obj().Pkg() == f.p.pkg {
			return "(Option (" + lt + "))"
		}
		if sig0, ok := n0.Underlying().(*types.Signature); ok && n0.Obj().Pkg() == f.p.pkg {
			// a named function type (type Hash func(…) (…)): its signature
			return f.leanType(sig0, at)
		}
	}
	if sig, ok := t.(*types.Signature); ok {
		// a function-typed parameter (open func(string) (io.ReadCloser, error))
		ps := []string{}
		for i := 0; i < sig.Params().Len(); i++ {
			ps = append(ps, f.leanType(sig.Params().At(i).Type(), at))
		}
		return "(" + strings.Join(ps, " → ") + " → " + f.leanType(sig.Results(), at) + ")"
	}
	if f.errStructName(t) != "" {
		return "(Option String)"
	}
	if ft := f.foreignType(t); ft != "" {
		return ft
	}
	if _, ok := f.heapField(t); ok {
		return "Int"
	}
	if _, _, ok := f.interiorOf(t); ok {
		return "Int"
	}
	if sum, ok := f.ownerOf(t); ok {
		return sum
	}
	if it, ok := t.Underlying().(*types.Interface); ok && it.NumMethods() == 0 && f.u.anyType != "" {
		return f.u.anyType
	}
	if n, ok := t.(*types.Named); ok && n.Obj().Parent() != f.p.pkg.Scope() && n.Obj().Pkg() == f.p.pkg {
		if lt, ok := f.u.localTypes[n.Obj().Name()]; ok {
			return lt
		}
	}
	if n, ok := t.(*types.Named); ok {
		name := n.Obj().Name()
		if v, ok := f.u.absTypes[name]; ok {
			f.noteAbsType(v)
			return v
		}
		if v, ok := f.u.ifaces[name]; ok {
			return "(" + v + ")"
		}
		if isErrorType(t) {
			return "(Option String)"
		}
		if _, ok := f.u.ifaceStructs[name]; ok {
			return name
		}
		if _, ok := f.u.sumTypes[name]; ok {
			return name
		}
		if _, ok := n.Underlying().(*types.Struct); ok {
			return f.structType(name)
		}
	}
	if p, ok := t.(*types.Pointer); ok {
		if n, ok := p.Elem().(*types.Named); ok {
			if _, ok := n.Underlying().(*types.Struct); ok {
				return f.structType(n.Obj().Name())
			}
		}
		// *string, *[]T parameters: the pointee (the function must be configured as in-out for that parameter)
		if _, ok := p.Elem().Underlying().(*types.Basic); ok {
			return f.leanType(p.Elem(), at)
		}
		if _, ok := p.Elem().Underlying().(*types.Slice); ok {
			return f.leanType(p.Elem(), at)
		}
	}
	if st, ok := t.Underlying().(*types.Struct); ok && st.NumFields() == 0 {
		return "Unit"
	}
	switch u := t.Underlying().(type) {
	case *types.Map:
		return "(List (" + f.leanType(u.Key(), at) + " × " + f.leanType(u.Elem(), at) + "))"
	case *types.Basic:
		switch {
		case intKindOf(t) != notInt:
			return "Int"
		case isString(t):
			return "Bytes"
		case isBool(t):
			return "Bool"
		}
	case *types.Slice:
		if intKindOf(u.Elem()) == kU8 {
			return "Bytes"
		}
		return "(List " + f.leanType(u.Elem(), at) + ")"
	case *types.Tuple:
		parts := []string{}
		for i := 0; i < u.Len(); i++ {
			parts = append(parts, f.leanType(u.At(i).Type(), at))
		}
		if len(parts) == 0 {
			return "Unit"
		}
		return "(" + strings.Join(parts, " × ") + ")"
	}
	f.bad(at, "type %s", t)
	return ""
}

func (f *g2lFn) noteAbsType(string) {}

// foreignType: the configured Lean structure for a (pointer to a) named type of another package ("" if none)
func (f *g2lFn) foreignType(t types.Type) string {
	if p, ok := t.(*types.Pointer); ok {
		t = p.Elem()
	}
	n, ok := t.(*types.Named)
	if !ok || n.Obj().Pkg() == nil || n.Obj().Pkg() == f.p.pkg {
		return ""
	}
	return f.u.foreignTypes[n.Obj().Pkg().Name()+"."+n.Obj().Name()]
}

func (f *g2lFn) structType(name string) string {
	if f.u.structTV[name] {
		return "(" + name + " " + strings.Join(sortedVals(f.u.absTypes), " ") + ")"
	}
	return name
}

func (f *g2lFn) zero(t types.Type, at ast.Node) string {
	if isBytesBuffer(t) || f.isAccum(t) {
		return "([] : Bytes)"
	}
	if n0, ok := t.(*types.Named); ok {
		if _, ok := f.u.optFuncs[n0.Obj().Name()]; ok && n0.Obj().Pkg() == f.p.pkg {
			return "(none : " + f.leanType(t, at) + ")"
		}
	}
	if _, ok := t.(*types.Signature); ok {
		// the nil function value: never called by correct code; any function stands for it
		return "(default : " + f.leanType(t, at) + ")"
	}
	if at2, ok := t.(*types.Array); ok && intKindOf(at2.Elem()) == kU8 {
		return fmt.Sprintf("(List.replicate %d (0 : UInt8))", at2.Len())
	}
	if ft := f.foreignType(t); ft != "" {
		return "(default : " + ft + ")"
	}
	if _, ok := f.heapField(t); ok {
		return "(0 : Int)"
	}
	if _, _, ok := f.interiorOf(t); ok {
		return "(0 : Int)"
	}
	if sum, ok := f.ownerOf(t); ok {
		return "(" + sum + ".nil)"
	}
	if n, ok := t.(*types.Named); ok && f.u.sumNil[n.Obj().Name()] {
		return "(" + n.Obj().Name() + ".nil)"
	}
	if n, ok := t.(*types.Named); ok && n.Obj().Parent() != f.p.pkg.Scope() && n.Obj().Pkg() == f.p.pkg {
		if lt, ok := f.u.localTypes[n.Obj().Name()]; ok {
			return "(default : " + lt + ")"
		}
	}
	if n, ok := t.(*types.Named); ok {
		if v, ok := f.u.absTypes[n.Obj().Name()]; ok {
			return "(default : " + v + ")"
		}
		if isErrorType(t) {
			return "(none : Option String)"
		}
		if _, ok := f.u.ifaceStructs[n.Obj().Name()]; ok {
			return "(default : " + n.Obj().Name() + ")"
		}
		if v, ok := f.u.ifaces[n.Obj().Name()]; ok {
			return "(default : (" + v + "))"
		}
		if _, ok := n.Underlying().(*types.Struct); ok {
			return "(default : " + f.structType(n.Obj().Name()) + ")"
		}
	}
	if pt, ok := t.(*types.Pointer); ok {
		if n, ok := pt.Elem().(*types.Named); ok {
			if _, ok := n.Underlying().(*types.Struct); ok {
				return "(default : " + f.structType(n.Obj().Name()) + ")"
			}
		}
	}
	if st, ok := t.Underlying().(*types.Struct); ok && st.NumFields() == 0 {
		return "()"
	}
	switch t.Underlying().(type) {
	case *types.Map:
		return "([] : " + f.leanType(t, at) + ")"
	case *types.Basic:
		switch {
		case intKindOf(t) != notInt:
			return "(0 : Int)"
		case isString(t):
			return "([] : Bytes)"
		case isBool(t):
			return "false"
		}
	case *types.Slice:
		return "([] : " + f.leanType(t, at) + ")"
	}
	f.bad(at, "zero value of %s", t)
	return ""
}

// ---------------------------------------------------------------------------------------------------------
// expressions
//
// compileExpr returns a Lean term that is PURE; whatever effectful sub-computation it needs is appended to
// *binds as `let t ← …` lines evaluated before it (Go's left-to-right order).  Short-circuit operators whose
// right operand has effects become an effectful conditional bound to a temporary.

type binds struct {
	lines   []string
	rebound []string // variables re-bound by in-out calls evaluated in these lines (must escape a short-circuit operand)
}

func (b *binds) noteRebound(v string) {
	for _, x := range b.rebound {
		if x == v {
			return
		}
	}
	b.rebound = append(b.rebound, v)
}

func (b *binds) add(s string) { b.lines = append(b.lines, s) }

func bytesLit(s string) string {
	if s == "" {
		return "([] : Bytes)"
	}
	parts := make([]string, len(s))
	for i := 0; i < len(s); i++ {
		parts[i] = fmt.Sprint(s[i])
	}
	return "([" + strings.Join(parts, ", ") + "] : Bytes)"
}

func intLit(v constant.Value) string {
	s := v.ExactString()
	if strings.HasPrefix(s, "-") {
		return "(" + s + " : Int)"
	}
	return "(" + s + " : Int)"
}

func (f *g2lFn) typeOf(e ast.Expr) types.Type {
	tv, ok := f.p.info.Types[e]
	if !ok || tv.Type == nil {
		if id, ok := e.(*ast.Ident); ok {
			if o := f.p.info.Uses[id]; o != nil {
				return o.Type()
			}
			if o := f.p.info.Defs[id]; o != nil {
				return o.Type()
			}
		}
		f.bad(e, "no type for %s", show(e))
	}
	return tv.Type
}

// effectful wraps an M-valued term into a temp and returns the temp.
func (f *g2lFn) bindM(b *binds, term string) string {
	f.pure = false
	t := f.fresh("t")
	b.add(fmt.Sprintf("let %s ← %s", t, term))
	return t
}

// arith result of signed 64-bit type in checked mode goes through chk64
func (f *g2lFn) arith(b *binds, t types.Type, term string) string {
	switch intKindOf(t) {
	case kI64:
		if f.checked {
			return f.bindM(b, "chk64 ("+term+")")
		}
		return "(" + term + ")"
	case kU64:
		return "(toU64 (" + term + "))"
	case kU8:
		return "(toU8 (" + term + "))"
	case kU32:
		return "(toU32 (" + term + "))"
	case kI32:
		return "(toI32 (" + term + "))"
	}
	return "(" + term + ")"
}

// exprAs compiles e where a value of type t is expected (so that `nil` gets the right zero value)
func (f *g2lFn) exprAs(b *binds, e ast.Expr, t types.Type) string {
	if id, ok := e.(*ast.Ident); ok && id.Name == "nil" && t != nil {
		return f.zero(t, e)
	}
	if t != nil && isErrorType(t) && len(f.u.errConv) > 0 {
		if n, ok := f.typeOf(e).(*types.Named); ok && n.Obj().Pkg() == f.p.pkg {
			if fn, ok := f.u.errConv[n.Obj().Name()]; ok {
				return "(" + fn + " " + f.expr(b, e) + ")"
			}
		}
	}
	if t != nil && isErrorType(t) {
		if ue, ok := e.(*ast.UnaryExpr); ok && ue.Op == token.AND {
			if cl, ok := ue.X.(*ast.CompositeLit); ok {
				if n, ok := f.typeOf(cl).(*types.Named); ok && g2lImplementsError(types.NewPointer(n)) {
					if _, isHeap := f.u.heapTypes[n.Obj().Name()]; isHeap {
						// &T{…, Err: x} of a heap type used as an error VALUE: no object is allocated, the error is "T|inner"
						for _, el := range cl.Elts {
							if kv, ok := el.(*ast.KeyValueExpr); ok {
								if id, ok := kv.Key.(*ast.Ident); ok && id.Name == "Err" {
									return fmt.Sprintf("(wrapErr %q %s)", n.Obj().Name(), f.exprAs(b, kv.Value, g2lErrorType))
								}
							}
						}
					}
				}
			}
		}
	}
	if t != nil {
		if r := f.toIface(b, e, t); r != "" {
			return r
		}
		if n, ok := t.(*types.Named); ok {
			if variants, ok := f.u.sumTypes[n.Obj().Name()]; ok {
				at := f.typeOf(e)
				if pt, ok := at.(*types.Pointer); ok {
					at = pt.Elem()
				}
				if an, ok := at.(*types.Named); ok {
					for _, v := range variants {
						if v == an.Obj().Name() {
							return "(" + n.Obj().Name() + "." + v + " " + f.expr(b, e) + ")"
						}
					}
				}
			}
		}
	}
	return f.expr(b, e)
}

func (f *g2lFn) expr(b *binds, e ast.Expr) string {
	if tv, ok := f.p.info.Types[e]; ok && tv.Value != nil {
		switch tv.Value.Kind() {
		case constant.Int:
			return intLit(tv.Value)
		case constant.Float:
			if iv := constant.ToInt(tv.Value); iv.Kind() == constant.Int && intKindOf(tv.Type) != notInt {
				return intLit(iv)
			}
		case constant.String:
			return bytesLit(constant.StringVal(tv.Value))
		case constant.Bool:
			if constant.BoolVal(tv.Value) {
				return "true"
			}
			return "false"
		}
	}
	if tv, ok := f.p.info.Types[e]; ok && tv.Type != nil && !tv.IsType() && f.isWorldObj(tv.Type) {
		// the client object itself is not a value: its state is in `world`
		return "()"
	}
	switch e := e.(type) {
	case *ast.ParenExpr:
		return f.expr(b, e.X)
	case *ast.Ident:
		switch e.Name {
		case "true", "false":
			return e.Name
		case "nil":
			if f.want != nil {
				return f.zero(f.want, e)
			}
			return "none"
		}
		if pv, ok := f.p.info.Uses[e].(*types.Var); ok && pv.Parent() == f.p.pkg.Scope() {
			if t, ok := f.u.valueIdents[e.Name]; ok {
				return t
			}
		}
		if fo, ok := f.p.info.Uses[e].(*types.Func); ok && fo.Pkg() == f.p.pkg {
			if _, isW := f.u.worldFns[fo.Name()]; isW {
				if callee, ok := g2l.fns[f.u.pkgDir+"."+fo.Name()]; ok {
					// less := lineLess — a world function as a value: a function of the arguments and the world
					sig := fo.Type().(*types.Signature)
					ps := []string{}
					for i := 0; i < sig.Params().Len(); i++ {
						ps = append(ps, fmt.Sprintf("a%d", i))
					}
					pre := ""
					for _, a := range callee.absUsed {
						f.useAbs(a)
						pre += a + " "
					}
					if callee.fuel {
						f.fuel = true
						pre += "fuel "
					}
					f.pure = false
					return fmt.Sprintf("(fun %s w => %s %s%s w)", strings.Join(ps, " "), callee.leanName, pre, strings.Join(ps, " "))
				}
			}
		}
		if al, ok := f.aliases[f.p.info.Uses[e]]; ok {
			// com := &line.Suffix[0]: the variable stands for the place it points to
			return f.expr(b, al)
		}
		if o, ok := f.p.info.Uses[e].(*types.Var); ok && !o.IsField() && o.Parent() == f.p.pkg.Scope() {
			if p, ok := f.u.absVars[e.Name]; ok {
				f.useAbs(p)
				return p
			}
			if c, ok := f.u.pkgVars[e.Name]; ok {
				return c
			}
			// `var x = []byte("literal")` / `var x = "literal"`: inlined from the declaration (regenerated with the source)
			for _, file := range f.p.files {
				for _, d := range file.Decls {
					gd, ok := d.(*ast.GenDecl)
					if !ok || gd.Tok != token.VAR {
						continue
					}
					for _, sp := range gd.Specs {
						vs := sp.(*ast.ValueSpec)
						for i, n := range vs.Names {
							if n.Name != e.Name || i >= len(vs.Values) {
								continue
							}
							v := vs.Values[i]
							if c, ok := v.(*ast.CallExpr); ok && len(c.Args) == 1 {
								if tv, ok := f.p.info.Types[c.Fun]; ok && tv.IsType() && isByteSlice(tv.Type) {
									v = c.Args[0]
								}
							}
							if tv, ok := f.p.info.Types[v]; ok && tv.Value != nil && tv.Value.Kind() == constant.String {
								return bytesLit(constant.StringVal(tv.Value))
							}
						}
					}
				}
			}
			// package-level variable: only error sentinels are supported
			if isErrorType(o.Type()) {
				return fmt.Sprintf("(some %q)", e.Name)
			}
			f.bad(e, "package variable %s", e.Name)
		}
		return f.name(e)
	case *ast.BasicLit:
		f.bad(e, "literal %s", e.Value)
	case *ast.UnaryExpr:
		if e.Op == token.AND {
			if fld, ok := f.heapField(f.typeOf(e)); ok {
				// &T{…} of a heap type: allocate
				f.needWorld(e)
				v := f.expr(b, e.X)
				p := f.fresh("p")
				b.add(fmt.Sprintf("let (%s, hl) := heapAlloc ((world).%s) %s", p, fld, v))
				b.add(fmt.Sprintf("let world := { (world) with %s := hl }", fld))
				b.noteRebound("world")
				return p
			}
			if _, _, ok := f.interiorOf(f.typeOf(e)); ok {
				// &x.LParen: the pointer into the object x points to is x's pointer
				if se, ok := e.X.(*ast.SelectorExpr); ok {
					return f.expr(b, se.X)
				}
			}
			if cl, ok := e.X.(*ast.CompositeLit); ok {
				if n, ok := f.typeOf(cl).(*types.Named); ok && g2lImplementsError(types.NewPointer(n)) {
					for _, el := range cl.Elts {
						if kv, ok := el.(*ast.KeyValueExpr); ok {
							if id, ok := kv.Key.(*ast.Ident); ok && (id.Name == "Err" || (isErrorType(f.typeOf(kv.Value)) && id.Name == "err")) {
								return fmt.Sprintf("(wrapErr %q %s)", n.Obj().Name(), f.exprAs(b, kv.Value, g2lErrorType))
							}
						}
					}
					// an error struct whose fields are strings / integers keeps them: "T|<hex>|<n>"
					if f.u.errFields[n.Obj().Name()] && len(cl.Elts) > 0 {
						parts := []string{}
						okAll := true
						for _, el := range cl.Elts {
							v := el
							if kv, ok := el.(*ast.KeyValueExpr); ok {
								v = kv.Value
							}
							switch vt := f.typeOf(v); {
							case isBytesLike(vt):
								parts = append(parts, "errHex "+f.expr(b, v))
							case intKindOf(vt) != notInt:
								parts = append(parts, "toString "+f.expr(b, v))
							default:
								okAll = false
							}
						}
						if okAll {
							return fmt.Sprintf("(errWith %q [%s])", n.Obj().Name(), strings.Join(parts, ", "))
						}
					}
					return fmt.Sprintf("(some %q)", n.Obj().Name())
				}
			}
		}
		x := f.expr(b, e.X)
		switch e.Op {
		case token.NOT:
			return "(!" + x + ")"
		case token.SUB:
			return f.arith(b, f.typeOf(e), "-"+x)
		case token.AND:
			// &T{...}: pointers to structs are values
			return x
		}
		f.bad(e, "unary %s", e.Op)
	case *ast.StarExpr:
		if len(f.u.heapTypes) > 0 {
			if v, ok := f.derefHeap(b, e.X); ok {
				return v
			}
		}
		return f.expr(b, e.X)
	case *ast.BinaryExpr:
		return f.binary(b, e)
	case *ast.IndexExpr:
		if v, ok := f.viewVar(e.X); ok {
			f.needWorld(e)
			return f.bindM(b, fmt.Sprintf("TokRef.get %s %s world", v, f.expr(b, e.Index)))
		}
		x := f.expr(b, e.X)
		i := f.expr(b, e.Index)
		if isBytesLike(f.typeOf(e.X)) {
			return f.bindM(b, fmt.Sprintf("idx %s %s", x, i))
		}
		if _, ok := f.typeOf(e.X).Underlying().(*types.Slice); ok {
			return f.bindM(b, fmt.Sprintf("idxL %s %s", x, i))
		}
		if mt, ok := f.typeOf(e.X).Underlying().(*types.Map); ok {
			if tup, ok := f.typeOf(e).(*types.Tuple); ok && tup.Len() == 2 {
				return fmt.Sprintf("(mapGet %s %s %s)", x, i, f.zero(mt.Elem(), e))
			}
			return fmt.Sprintf("(mapGet %s %s %s).1", x, i, f.zero(mt.Elem(), e))
		}
		f.bad(e, "index of %s", f.typeOf(e.X))
	case *ast.SliceExpr:
		// x[lo:hi:max]: the capacity limit only forces a later append to copy — which is what a value does anyway
		if v, ok := f.viewVar(e.X); ok {
			if e.High != nil || e.Max != nil {
				f.bad(e, "only v[k:] of a token view")
			}
			if e.Low == nil {
				return v
			}
			f.needWorld(e)
			return f.bindM(b, fmt.Sprintf("TokRef.drop %s %s world", v, f.expr(b, e.Low)))
		}
		x := f.expr(b, e.X)
		if _, ok := f.typeOf(e.X).Underlying().(*types.Array); ok {
			if n, ok := f.typeOf(e.X).(*types.Named); ok && e.Low == nil && e.High == nil {
				if _, ok := f.u.absTypes[n.Obj().Name()]; ok {
					if p, ok := f.u.absFuncs[n.Obj().Name()+"[:]"]; ok {
						f.useAbs(p)
						return "(" + p + " " + x + ")"
					}
				}
			}
			if at2, ok := f.typeOf(e.X).(*types.Array); ok && intKindOf(at2.Elem()) == kU8 && e.Low == nil && e.High == nil {
				return x
			}
			f.bad(e, "slice of array")
		}
		switch {
		case e.Low == nil && e.High == nil:
			return x
		case e.High == nil:
			return f.bindM(b, fmt.Sprintf("sliceFrom %s %s", x, f.expr(b, e.Low)))
		case e.Low == nil:
			return f.bindM(b, fmt.Sprintf("sliceTo %s %s", x, f.expr(b, e.High)))
		}
		lo := f.expr(b, e.Low)
		hi := f.expr(b, e.High)
		return f.bindM(b, fmt.Sprintf("slice %s %s %s", x, lo, hi))
	case *ast.SelectorExpr:
		if es := f.errStructName(f.typeOf(e.X)); es != "" && e.Sel.Name == "Err" {
			return fmt.Sprintf("(errInner %q %s)", es, f.expr(b, e.X))
		}
		if sel, ok := f.p.info.Selections[e]; ok && sel.Kind() == types.FieldVal {
			// promoted fields of embedded structs: x.Before  ==>  x.Comments.Before
			t := f.typeOf(e.X)
			if base, ok := f.derefHeap(b, e.X); ok {
				path := base
				if pt, ok := t.(*types.Pointer); ok {
					t = pt.Elem()
				}
				for _, ix := range sel.Index() {
					if pt, ok := t.(*types.Pointer); ok {
						t = pt.Elem()
					}
					st, ok := t.Underlying().(*types.Struct)
					if !ok {
						f.bad(e, "field path of %s", show(e))
					}
					fl := st.Field(ix)
					path = "(" + path + "." + leanIdent(fl.Name()) + ")"
					t = fl.Type()
				}
				return path
			}
			if f.isWorldObj(t) {
				if f.worldVar == nil {
					f.bad(e, "field of a world object in a function that does not thread the world")
				}
				return "((world)." + leanIdent(e.Sel.Name) + ")"
			}
			path := "(" + f.expr(b, e.X) + ")"
			for _, ix := range sel.Index() {
				if pt, ok := t.(*types.Pointer); ok {
					t = pt.Elem()
				}
				st, ok := t.Underlying().(*types.Struct)
				if !ok {
					f.bad(e, "field path of %s", show(e))
				}
				fl := st.Field(ix)
				if fl.Embedded() && f.foreignType(t) != "" {
					// a promoted field of a foreign struct (zip.File embeds FileHeader): the Lean structure is flat
					t = fl.Type()
					continue
				}
				path = "(" + path + "." + leanIdent(fl.Name()) + ")"
				t = fl.Type()
			}
			return path
		}
		// an error sentinel of another package (filepath.SkipDir)
		if id, ok := e.X.(*ast.Ident); ok {
			if _, ok := f.p.info.Uses[id].(*types.PkgName); ok {
				if v, ok := f.p.info.Uses[e.Sel].(*types.Var); ok && isErrorType(v.Type()) {
					return fmt.Sprintf("(some %q)", e.Sel.Name)
				}
			}
		}
		// a package function used as a value (strings.IndexFunc(name, unicode.IsSpace))
		if id, ok := e.X.(*ast.Ident); ok {
			if pn, ok := f.p.info.Uses[id].(*types.PkgName); ok {
				if p, ok := f.u.absFuncs[pn.Imported().Name()+"."+e.Sel.Name]; ok {
					f.useAbs(p)
					return p
				}
			}
		}
		f.bad(e, "selector %s", show(e))
	case *ast.CompositeLit:
		return f.composite(b, e)
	case *ast.TypeAssertExpr:
		// block, ok := stmt.(*LineBlock) on a sum of pointers
		if sn, ok := f.typeOf(e.X).(*types.Named); ok && e.Type != nil {
			if variants, ok := f.u.sumTypes[sn.Obj().Name()]; ok && len(f.u.heapTypes) > 0 {
				tt := f.p.info.Types[e.Type].Type
				if pt, ok := tt.(*types.Pointer); ok {
					tt = pt.Elem()
				}
				if tn, ok := tt.(*types.Named); ok {
					for _, v := range variants {
						if v == tn.Obj().Name() {
							x := f.expr(b, e.X)
							if tup, ok := f.typeOf(e).(*types.Tuple); ok && tup.Len() == 2 {
								return fmt.Sprintf("(match %s with | %s.%s p => (p, true) | _ => ((0 : Int), false))", x, sn.Obj().Name(), v)
							}
							return f.bindM(b, fmt.Sprintf("(match %s with | %s.%s p => pure p | _ => throw Err.panic : M Int)", x, sn.Obj().Name(), v))
						}
					}
				}
			}
		}
		// x.(T) where x has the configured interface{} representation and T is its local struct type: the value itself
		if f.u.anyType != "" && e.Type != nil {
			if it, ok := f.typeOf(e.X).Underlying().(*types.Interface); ok && it.NumMethods() == 0 {
				if f.leanType(f.p.info.Types[e.Type].Type, e) == f.u.anyType {
					return f.expr(b, e.X)
				}
			}
		}
		// `_, ok := err.(*T)` on an error value: only the boolean is meaningful
		if isErrorType(f.typeOf(e.X)) && e.Type != nil {
			t := f.p.info.Types[e.Type].Type
			if pt, ok := t.(*types.Pointer); ok {
				t = pt.Elem()
			}
			if n, ok := t.(*types.Named); ok {
				if tup, ok := f.typeOf(e).(*types.Tuple); ok && tup.Len() == 2 {
					if n.Obj().Pkg() != nil && f.u.errStructs[n.Obj().Pkg().Name()+"."+n.Obj().Name()] {
						// the asserted value stays the error value; its Err field is read with errInner
						x := f.expr(b, e.X)
						return fmt.Sprintf("(%s, errIs %q %s)", x, n.Obj().Name(), x)
					}
					return fmt.Sprintf("((), errIs %q %s)", n.Obj().Name(), f.expr(b, e.X))
				}
			}
		}
		f.bad(e, "type assertion %s", show(e))
	case *ast.FuncLit:
		// func(r T) U { return <pure expr> }
		// Go closures capture variables by reference, the Lean function captures the current values: refuse the
		// translation if a captured variable is assigned after the literal
		for _, cv := range f.usedOuter([]ast.Node{e.Body}, e.Pos(), nil) {
			ast.Inspect(f.fd.Body, func(n ast.Node) bool {
				if n == nil || n.End() <= e.End() {
					return n == nil || n.End() > e.End() || true
				}
				check := func(l ast.Expr) {
					for {
						switch x := l.(type) {
						case *ast.SelectorExpr:
							l = x.X
							continue
						case *ast.IndexExpr:
							l = x.X
							continue
						case *ast.StarExpr:
							l = x.X
							continue
						}
						break
					}
					if id, ok := l.(*ast.Ident); ok && id.Pos() > e.End() {
						if o, _ := f.p.info.Uses[id].(*types.Var); o == cv {
							f.bad(e, "function literal captures %s, which is assigned later (capture by reference)", cv.Name())
						}
					}
				}
				switch st := n.(type) {
				case *ast.AssignStmt:
					if st.Pos() > e.End() {
						for _, l := range st.Lhs {
							check(l)
						}
					}
				case *ast.IncDecStmt:
					if st.Pos() > e.End() {
						check(st.X)
					}
				}
				return true
			})
		}
		if len(e.Body.List) == 1 && e.Type.Params != nil {
			if rs, ok := e.Body.List[0].(*ast.ReturnStmt); ok && len(rs.Results) >= 1 {
				ps := []string{}
				for _, fld := range e.Type.Params.List {
					for _, n := range fld.Names {
						ps = append(ps, fmt.Sprintf("(%s : %s)", f.name(n), f.leanType(f.p.info.Types[fld.Type].Type, fld)))
					}
				}
				var lb binds
				body := ""
				if len(rs.Results) == 1 {
					body = f.expr(&lb, rs.Results[0])
				} else {
					sig, _ := f.typeOf(e).(*types.Signature)
					parts := []string{}
					for i, r := range rs.Results {
						var want types.Type
						if sig != nil && i < sig.Results().Len() {
							want = sig.Results().At(i).Type()
						}
						parts = append(parts, f.exprAs(&lb, r, want))
					}
					body = tuple(parts)
				}
				if len(lb.lines) == 0 {
					return "(fun " + strings.Join(ps, " ") + " => " + body + ")"
				}
			}
		}
		f.bad(e, "function literal")
	case *ast.CallExpr:
		r := f.call(b, e)
		return r
	}
	f.bad(e, "expression %s (%T)", show(e), e)
	return ""
}

func (f *g2lFn) composite(b *binds, e *ast.CompositeLit) string {
	t := f.typeOf(e)
	if n, ok := t.(*types.Named); ok {
		if v, ok := f.u.absTypes[n.Obj().Name()]; ok {
			if len(e.Elts) != 0 {
				f.bad(e, "non-zero literal of abstract type %s", n.Obj().Name())
			}
			return "(default : " + v + ")"
		}
	}
	switch u := t.Underlying().(type) {
	case *types.Slice:
		parts := []string{}
		for _, el := range e.Elts {
			if _, ok := el.(*ast.KeyValueExpr); ok {
				f.bad(e, "keyed slice literal")
			}
			x := f.expr(b, el)
			if intKindOf(u.Elem()) == kU8 {
				x = "mkByte " + x
			}
			parts = append(parts, x)
		}
		return "([" + strings.Join(parts, ", ") + "] : " + f.leanType(t, e) + ")"
	case *types.Struct:
		if u.NumFields() == 0 {
			return "()"
		}
		name := f.leanType(t, e)
		if len(e.Elts) == 0 {
			return "(default : " + name + ")"
		}
		parts := []string{}
		for i, el := range e.Elts {
			if kv, ok := el.(*ast.KeyValueExpr); ok {
				var ft types.Type
				for j := 0; j < u.NumFields(); j++ {
					if u.Field(j).Name() == kv.Key.(*ast.Ident).Name {
						ft = u.Field(j).Type()
					}
				}
				parts = append(parts, fmt.Sprintf("%s := %s", leanIdent(kv.Key.(*ast.Ident).Name), f.exprAs(b, kv.Value, ft)))
			} else {
				parts = append(parts, fmt.Sprintf("%s := %s", leanIdent(u.Field(i).Name()), f.exprAs(b, el, u.Field(i).Type())))
			}
		}
		return "({ (default : " + name + ") with " + strings.Join(parts, ", ") + " } : " + name + ")"
	}
	f.bad(e, "composite literal of %s", t)
	return ""
}

func (f *g2lFn) binary(b *binds, e *ast.BinaryExpr) string {
	if e.Op == token.EQL || e.Op == token.NEQ {
		// p == nil / p != nil for an inlined pointer parameter: decided by its argument
		for _, pr := range [][2]ast.Expr{{e.X, e.Y}, {e.Y, e.X}} {
			if id, ok := pr[0].(*ast.Ident); ok {
				if nid, ok := pr[1].(*ast.Ident); ok && nid.Name == "nil" {
					o := f.p.info.Uses[id]
					if f.nilAlias[o] {
						if e.Op == token.EQL {
							return "true"
						}
						return "false"
					}
					if al, ok := f.aliases[o]; ok && al != nil {
						if _, isPtr := o.Type().(*types.Pointer); isPtr {
							if e.Op == token.EQL {
								return "false"
							}
							return "true"
						}
					}
				}
			}
		}
	}
	xt := f.typeOf(e.X)
	switch e.Op {
	case token.LAND, token.LOR:
		x := f.expr(b, e.X)
		var rb binds
		y := f.expr(&rb, e.Y)
		if len(rb.lines) == 0 {
			if e.Op == token.LAND {
				return "(" + x + " && " + y + ")"
			}
			return "(" + x + " || " + y + ")"
		}
		if len(rb.rebound) > 0 {
			// the right operand calls an in-out method: the re-bound variables leave the conditional together with the value
			f.pure = false
			vars := strings.Join(rb.rebound, ", ")
			inner := "(do\n" + indent(strings.Join(rb.lines, "\n")+"\npure ("+y+", "+vars+")", 2) + ")"
			t := f.fresh("t")
			skip := "false"
			if e.Op == token.LOR {
				skip = "true"
			}
			if e.Op == token.LAND {
				b.add(fmt.Sprintf("let (%s, %s) ← (if %s then %s else pure (%s, %s))", t, vars, x, inner, skip, vars))
			} else {
				b.add(fmt.Sprintf("let (%s, %s) ← (if %s then pure (%s, %s) else %s)", t, vars, x, skip, vars, inner))
			}
			for _, v := range rb.rebound {
				b.noteRebound(v)
			}
			return t
		}
		inner := "(do\n" + indent(strings.Join(rb.lines, "\n")+"\npure "+y, 2) + ")"
		if e.Op == token.LAND {
			return f.bindM(b, fmt.Sprintf("(if %s then %s else pure false)", x, inner))
		}
		return f.bindM(b, fmt.Sprintf("(if %s then pure true else %s)", x, inner))
	}
	if e.Op == token.EQL || e.Op == token.NEQ {
		for _, pair := range [][2]ast.Expr{{e.X, e.Y}, {e.Y, e.X}} {
			if id, ok := pair[1].(*ast.Ident); ok && id.Name == "nil" {
				if n, ok := f.typeOf(pair[0]).(*types.Named); ok {
					if _, isOpt := f.u.optFuncs[n.Obj().Name()]; isOpt {
						if e.Op == token.EQL {
							return "(" + f.expr(b, pair[0]) + ").isNone"
						}
						return "(" + f.expr(b, pair[0]) + ").isSome"
					}
				}
				if n, ok := f.typeOf(pair[0]).(*types.Named); ok && f.u.nonNilIfaces[n.Obj().Name()] {
					if e.Op == token.EQL {
						return "false"
					}
					return "true"
				}
			}
		}
	}
	x := f.exprAs(b, e.X, f.typeOf(e.Y))
	y := f.exprAs(b, e.Y, xt)
	rt := f.typeOf(e)
	switch e.Op {
	case token.EQL, token.NEQ:
		var eq string
		if isBool(xt) {
			eq = "(" + x + " == " + y + ")"
		} else if isErrorType(xt) || isErrorType(f.typeOf(e.Y)) {
			// err == nil / err != nil
			if y == "none" || y == "(none : Option String)" {
				eq = "(" + x + ").isNone"
			} else if x == "none" || x == "(none : Option String)" {
				eq = "(" + y + ").isNone"
			} else {
				eq = "decide (" + x + " = " + y + ")"
			}
		} else {
			eq = "decide (" + x + " = " + y + ")"
		}
		if e.Op == token.NEQ {
			return "(!" + eq + ")"
		}
		return "(" + eq + ")"
	case token.LSS, token.LEQ, token.GTR, token.GEQ:
		if isString(xt) {
			switch e.Op {
			case token.LSS:
				return "(strLt " + x + " " + y + ")"
			case token.GTR:
				return "(strLt " + y + " " + x + ")"
			case token.LEQ:
				return "(!strLt " + y + " " + x + ")"
			default:
				return "(!strLt " + x + " " + y + ")"
			}
		}
		op := map[token.Token]string{token.LSS: "<", token.LEQ: "≤", token.GTR: ">", token.GEQ: "≥"}[e.Op]
		return "(decide (" + x + " " + op + " " + y + "))"
	case token.ADD:
		if isString(rt) {
			return "(" + x + " ++ " + y + ")"
		}
		return f.arith(b, rt, x+" + "+y)
	case token.SUB:
		return f.arith(b, rt, x+" - "+y)
	case token.MUL:
		return f.arith(b, rt, x+" * "+y)
	case token.QUO:
		return f.bindM(b, "quo "+x+" "+y)
	case token.REM:
		return f.bindM(b, "rem "+x+" "+y)
	case token.SHL:
		t := f.bindM(b, "shl "+x+" "+y)
		return f.arith(b, rt, t)
	case token.SHR:
		return f.bindM(b, "shr "+x+" "+y)
	case token.AND:
		return "(band " + x + " " + y + ")"
	case token.OR:
		return "(bor " + x + " " + y + ")"
	case token.XOR:
		return "(bxor " + x + " " + y + ")"
	case token.AND_NOT:
		return "(bandNot " + x + " " + y + ")"
	}
	f.bad(e, "binary %s", e.Op)
	return ""
}

func indent(s string, n int) string {
	pad := strings.Repeat(" ", n)
	lines := strings.Split(s, "\n")
	for i, l := range lines {
		if l != "" {
			lines[i] = pad + l
		}
	}
	return strings.Join(lines, "\n")
}

// conversion T(x)
func (f *g2lFn) convert(b *binds, to types.Type, arg ast.Expr, at ast.Node) string {
	if id, ok := arg.(*ast.Ident); ok && id.Name == "nil" {
		return f.zero(to, at)
	}
	from := f.typeOf(arg)
	if n, ok := to.(*types.Named); ok && n.Obj().Pkg() == f.p.pkg && g2lImplementsError(to) && !isErrorType(from) {
		// FileErrorList(list) used as an error value: identified by the type name
		if _, isSlice := n.Underlying().(*types.Slice); isSlice {
			return fmt.Sprintf("(some %q)", n.Obj().Name())
		}
	}
	x := f.expr(b, arg)
	tk, fk := intKindOf(to), intKindOf(from)
	if tk != notInt && fk != notInt {
		if fk == kUntyped || tk == fk {
			return x
		}
		fits := map[intKind][]intKind{
			kI64: {kI64, kU8, kI32, kU32, kI8, kI16, kU16},
			kU64: {kU64, kU8, kU32, kU16},
			kI32: {kI32, kU8, kI8, kI16, kU16},
			kU32: {kU32, kU8, kU16},
			kU8:  {kU8},
		}
		for _, k := range fits[tk] {
			if k == fk {
				return x
			}
		}
		switch tk {
		case kI64:
			return "(toI64 " + x + ")"
		case kU64:
			return "(toU64 " + x + ")"
		case kU8:
			return "(toU8 " + x + ")"
		case kI32:
			return "(toI32 " + x + ")"
		case kU32:
			return "(toU32 " + x + ")"
		}
		f.bad(at, "conversion %s -> %s", from, to)
	}
	if isBytesLike(to) && isBytesLike(from) {
		return x
	}
	if isString(to) && fk != notInt {
		return "(encodeRune " + x + ")"
	}
	if types.Identical(to.Underlying(), from.Underlying()) {
		return x
	}
	f.bad(at, "conversion %s -> %s", from, to)
	return ""
}

var g2lErrorIface = types.Universe.Lookup("error").Type().Underlying().(*types.Interface)

func g2lImplementsError(t types.Type) bool { return types.Implements(t, g2lErrorIface) }

var g2lErrorType = types.Universe.Lookup("error").Type()

func isBytesBuffer(t types.Type) bool {
	if p, ok := t.(*types.Pointer); ok {
		t = p.Elem()
	}
	n, ok := t.(*types.Named)
	return ok && n.Obj().Name() == "Buffer" && n.Obj().Pkg() != nil && n.Obj().Pkg().Path() == "bytes"
}

// a local closure `name := func(params) results { … }`: hoisted like a loop; captured variables it only reads are extra
// parameters, captured variables it assigns are passed in and returned with the result
type g2lClosure struct {
	lean     string
	captured []string
	modified []string
	modV     []*types.Var
	capV     []*types.Var
}

func (f *g2lFn) isAccum(t types.Type) bool {
	if p, ok := t.(*types.Pointer); ok {
		t = p.Elem()
	}
	n, ok := t.(*types.Named)
	if !ok || n.Obj().Pkg() == nil {
		return false
	}
	return f.u.accumTypes[n.Obj().Pkg().Name()+"."+n.Obj().Name()]
}

// toIface: a value of a concrete type of the package used where a configured interface is expected (return v, nil with
// v *verifier and result type Verifier): the Lean value of the interface is built from the type's translated methods —
// a structure of the method values (ifaceStructs) or the single method as a function (ifaces).  "" if not applicable.
func (f *g2lFn) toIface(b *binds, e ast.Expr, t types.Type) string {
	n, ok := t.(*types.Named)
	if !ok {
		return ""
	}
	_, isStruct := f.u.ifaceStructs[n.Obj().Name()]
	_, isFn := f.u.ifaces[n.Obj().Name()]
	iface, isI := n.Underlying().(*types.Interface)
	if !isI || !(isStruct || isFn) {
		return ""
	}
	at := f.typeOf(e)
	if at == nil {
		return ""
	}
	if pt, ok := at.(*types.Pointer); ok {
		at = pt.Elem()
	}
	an, ok := at.(*types.Named)
	if !ok || an.Obj().Pkg() != f.p.pkg {
		return ""
	}
	if _, isIface := an.Underlying().(*types.Interface); isIface {
		return ""
	}
	x := f.expr(b, e)
	method := func(m *types.Func) string {
		callee, ok := g2l.fns[f.u.pkgDir+"."+an.Obj().Name()+"."+m.Name()]
		if !ok {
			f.bad(e, "conversion of %s to %s: method %s is not translated (list it before this function)", an.Obj().Name(), n.Obj().Name(), m.Name())
		}
		if !callee.pure || callee.fuel {
			f.bad(e, "conversion of %s to %s: method %s is not a pure definition", an.Obj().Name(), n.Obj().Name(), m.Name())
		}
		pre := ""
		for _, a := range callee.absUsed {
			f.useAbs(a)
			pre += a + " "
		}
		sig := m.Type().(*types.Signature)
		if sig.Params().Len() == 0 {
			return "(" + callee.leanName + " " + pre + x + ")"
		}
		ps := []string{}
		for i := 0; i < sig.Params().Len(); i++ {
			ps = append(ps, fmt.Sprintf("a%d", i))
		}
		return "(fun " + strings.Join(ps, " ") + " => " + callee.leanName + " " + pre + x + " " + strings.Join(ps, " ") + ")"
	}
	if isFn {
		if iface.NumMethods() != 1 {
			f.bad(e, "interface %s configured as a function has %d methods", n.Obj().Name(), iface.NumMethods())
		}
		return method(iface.Method(0))
	}
	parts := []string{}
	for i := 0; i < iface.NumMethods(); i++ {
		m := iface.Method(i)
		parts = append(parts, leanIdent(m.Name())+" := "+method(m))
	}
	return "({ " + strings.Join(parts, ", ") + " } : " + n.Obj().Name() + ")"
}

// isWorldObj: t is (a pointer to) a struct type of the package whose single instance lives in the threaded world
func (f *g2lFn) isWorldObj(t types.Type) bool {
	if t == nil || len(f.u.worldObjs) == 0 {
		return false
	}
	if p, ok := t.(*types.Pointer); ok {
		t = p.Elem()
	}
	n, ok := t.(*types.Named)
	return ok && n.Obj().Pkg() == f.p.pkg && f.u.worldObjs[n.Obj().Name()]
}

// heapField: t is a pointer to a struct of a configured heap type: the field of `Heap` that holds the objects
func (f *g2lFn) heapField(t types.Type) (string, bool) {
	p, ok := t.(*types.Pointer)
	if !ok || len(f.u.heapTypes) == 0 {
		return "", false
	}
	n, ok := p.Elem().(*types.Named)
	if !ok || n.Obj().Pkg() != f.p.pkg {
		return "", false
	}
	fld, ok := f.u.heapTypes[n.Obj().Name()]
	return fld, ok
}

// interiorOf: t is a pointer to a struct that lives inside a heap object ("LineBlock", "LParen")
func (f *g2lFn) interiorOf(t types.Type) (owner, field string, ok bool) {
	p, isP := t.(*types.Pointer)
	if !isP || len(f.u.interior) == 0 {
		return "", "", false
	}
	n, isN := p.Elem().(*types.Named)
	if !isN || n.Obj().Pkg() != f.p.pkg {
		return "", "", false
	}
	spec, has := f.u.interior[n.Obj().Name()]
	if !has {
		return "", "", false
	}
	parts := strings.SplitN(spec, ".", 2)
	return parts[0], parts[1], true
}

// ownerOf: t is a pointer to the struct embedded in every variant of a sum type (a *Comments is its owning Expr)
func (f *g2lFn) ownerOf(t types.Type) (string, bool) {
	p, ok := t.(*types.Pointer)
	if !ok || len(f.u.ownerPtr) == 0 {
		return "", false
	}
	n, ok := p.Elem().(*types.Named)
	if !ok || n.Obj().Pkg() != f.p.pkg {
		return "", false
	}
	sum, ok := f.u.ownerPtr[n.Obj().Name()]
	return sum, ok
}

// derefHeap: the Lean term (in M, bound in b) of the struct VALUE that the pointer-typed expression x points to
func (f *g2lFn) derefHeap(b *binds, x ast.Expr) (string, bool) {
	t := f.typeOf(x)
	if fld, ok := f.heapField(t); ok {
		f.needWorld(x)
		return f.bindM(b, fmt.Sprintf("heapGet ((world).%s) %s", fld, f.expr(b, x))), true
	}
	if owner, field, ok := f.interiorOf(t); ok {
		f.needWorld(x)
		o := f.bindM(b, fmt.Sprintf("heapGet ((world).%s) %s", f.u.heapTypes[owner], f.expr(b, x)))
		return "((" + o + ")." + leanIdent(field) + ")", true
	}
	if sum, ok := f.ownerOf(t); ok {
		f.needWorld(x)
		return f.bindM(b, fmt.Sprintf("%s_get%s %s world", sum, f.ownedName(sum), f.expr(b, x))), true
	}
	return "", false
}

func (f *g2lFn) ownedName(sum string) string {
	for k, v := range f.u.ownerPtr {
		if v == sum {
			return k
		}
	}
	return ""
}

func (f *g2lFn) needWorld(at ast.Node) {
	if f.worldVar == nil {
		f.bad(at, "heap access in a function that does not thread the world")
	}
	f.pure = false
}

// storeHeap: write the struct value `val` to the object the pointer-typed expression x points to (lines appended)
func (f *g2lFn) storeHeap(lines *[]string, x ast.Expr, update func(cur string) string) bool {
	t := f.typeOf(x)
	var b binds
	if fld, ok := f.heapField(t); ok {
		f.needWorld(x)
		p := f.expr(&b, x)
		cur := f.bindM(&b, fmt.Sprintf("heapGet ((world).%s) %s", fld, p))
		nl := f.bindM(&b, fmt.Sprintf("heapSet ((world).%s) %s %s", fld, p, update(cur)))
		*lines = append(*lines, b.lines...)
		*lines = append(*lines, fmt.Sprintf("let world := { (world) with %s := %s }", fld, nl))
		return true
	}
	if owner, field, ok := f.interiorOf(t); ok {
		f.needWorld(x)
		fld := f.u.heapTypes[owner]
		p := f.expr(&b, x)
		cur := f.bindM(&b, fmt.Sprintf("heapGet ((world).%s) %s", fld, p))
		inner := "((" + cur + ")." + leanIdent(field) + ")"
		nl := f.bindM(&b, fmt.Sprintf("heapSet ((world).%s) %s { (%s) with %s := %s }", fld, p, cur, leanIdent(field), update(inner)))
		*lines = append(*lines, b.lines...)
		*lines = append(*lines, fmt.Sprintf("let world := { (world) with %s := %s }", fld, nl))
		return true
	}
	if sum, ok := f.ownerOf(t); ok {
		f.needWorld(x)
		e := f.expr(&b, x)
		cur := f.bindM(&b, fmt.Sprintf("%s_get%s %s world", sum, f.ownedName(sum), e))
		nw := f.bindM(&b, fmt.Sprintf("%s_set%s %s %s world", sum, f.ownedName(sum), e, update(cur)))
		*lines = append(*lines, b.lines...)
		*lines = append(*lines, "let world := "+nw)
		return true
	}
	return false
}

// viewVar: e is (a dereference of) a variable configured as a VIEW of a heap Line's tokens: a TokRef (line pointer, offset)
func (f *g2lFn) viewVar(e ast.Expr) (string, bool) {
	if len(f.u.viewVars) == 0 {
		return "", false
	}
	for {
		switch x := e.(type) {
		case *ast.ParenExpr:
			e = x.X
			continue
		case *ast.StarExpr:
			e = x.X
			continue
		}
		break
	}
	id, ok := e.(*ast.Ident)
	if !ok {
		return "", false
	}
	var o types.Object = f.p.info.Uses[id]
	if o == nil {
		o = f.p.info.Defs[id]
	}
	v, ok := o.(*types.Var)
	if !ok || !f.isViewObj(v) {
		return "", false
	}
	return f.name(id), true
}

func (f *g2lFn) isViewObj(v *types.Var) bool {
	if v == nil || len(f.u.viewVars) == 0 {
		return false
	}
	// the variable belongs to the function whose source text contains its declaration
	for key := range f.u.viewVars {
		i := strings.LastIndex(key, ".")
		if key[i+1:] != v.Name() {
			continue
		}
		if fd := f.p.decls[key[:i]]; fd != nil && fd.Pos() <= v.Pos() && v.Pos() < fd.End() {
			return true
		}
	}
	return false
}

// viewOf: a value for a view variable / parameter: another view, or `P.Token` / `P.Token[k:]` of a heap line P
func (f *g2lFn) viewOf(b *binds, e ast.Expr) string {
	if se, ok := e.(*ast.SliceExpr); ok {
		if _, isV := f.viewVar(se.X); isV {
			return f.expr(b, e)
		}
	}
	if _, isV := f.viewVar(e); isV {
		return f.expr(b, e)
	}
	lo := "(0 : Int)"
	x := e
	if se, ok := e.(*ast.SliceExpr); ok && se.High == nil && se.Max == nil {
		x = se.X
		if se.Low != nil {
			lo = f.expr(b, se.Low)
		}
	}
	if sel, ok := x.(*ast.SelectorExpr); ok && sel.Sel.Name == "Token" {
		if hf, ok := f.heapField(f.typeOf(sel.X)); ok && hf == "lines" {
			f.needWorld(e)
			return f.bindM(b, fmt.Sprintf("TokRef.make %s %s world", f.expr(b, sel.X), lo))
		}
	}
	f.bad(e, "a view of a line's tokens must be another view, P.Token or P.Token[k:]: %s", show(e))
	return ""
}

// errStructName: t is (a pointer to) a foreign struct type configured as an error with an Err field
func (f *g2lFn) errStructName(t types.Type) string {
	if t == nil || len(f.u.errStructs) == 0 {
		return ""
	}
	if pt, ok := t.(*types.Pointer); ok {
		t = pt.Elem()
	}
	n, ok := t.(*types.Named)
	if !ok || n.Obj().Pkg() == nil || !f.u.errStructs[n.Obj().Pkg().Name()+"."+n.Obj().Name()] {
		return ""
	}
	return n.Obj().Name()
}
