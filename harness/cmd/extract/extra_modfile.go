package main

// Facts for modfile/read.go, modfile/rule.go, modfile/work.go (C20, C02): the verb lists of the
// switch statements of parseToFile, File.add, WorkFile.add and ParseWork; the source texts of the
// regexps; the rune lists of readToken's punctuation switch, isIdent's exclusion switch and
// MustQuote's two case lists; the tokens after/before which the printer omits the separator.

import (
	"fmt"
	"go/ast"
	"go/token"
	"strconv"
	"strings"
)

// modfileFindFunc finds a function or a method (recv = receiver type name, "" for a function).
func modfileFindFunc(f *ast.File, recv, name string) *ast.FuncDecl {
	for _, d := range f.Decls {
		fd, ok := d.(*ast.FuncDecl)
		if !ok || fd.Name.Name != name {
			continue
		}
		if recv == "" {
			if fd.Recv == nil {
				return fd
			}
			continue
		}
		if fd.Recv == nil || len(fd.Recv.List) != 1 {
			continue
		}
		t := fd.Recv.List[0].Type
		if st, ok := t.(*ast.StarExpr); ok {
			t = st.X
		}
		if id, ok := t.(*ast.Ident); ok && id.Name == recv {
			return fd
		}
	}
	return nil
}

// modfileSwitches returns the switch statements in fd whose tag prints as tag, in source order.
func modfileSwitches(fd *ast.FuncDecl, tag string) []*ast.SwitchStmt {
	var out []*ast.SwitchStmt
	ast.Inspect(fd.Body, func(n ast.Node) bool {
		if sw, ok := n.(*ast.SwitchStmt); ok && sw.Tag != nil && show(sw.Tag) == tag {
			out = append(out, sw)
		}
		return true
	})
	return out
}

// modfileCaseLits: the literals of all non-default cases of sw, in order (strings unquoted, runes as code points).
func modfileCaseLits(where string, sw *ast.SwitchStmt) (strs []string, runes []int) {
	for _, s := range sw.Body.List {
		cc := s.(*ast.CaseClause)
		for _, e := range cc.List {
			lit, ok := e.(*ast.BasicLit)
			if !ok {
				die("%s: case expression %s is not a literal", where, show(e))
			}
			switch lit.Kind {
			case token.STRING:
				v, err := strconv.Unquote(lit.Value)
				if err != nil {
					die("%s: %v", where, err)
				}
				strs = append(strs, v)
			case token.CHAR:
				v, _, _, err := strconv.UnquoteChar(lit.Value[1:len(lit.Value)-1], '\'')
				if err != nil {
					die("%s: %v", where, err)
				}
				runes = append(runes, int(v))
			default:
				die("%s: unsupported case literal %s", where, lit.Value)
			}
		}
	}
	return
}

func modfileLeanString(s string) string {
	var b strings.Builder
	b.WriteByte('"')
	for i := 0; i < len(s); i++ {
		c := s[i]
		switch {
		case c == '\\' || c == '"':
			b.WriteByte('\\')
			b.WriteByte(c)
		case c < 0x20 || c >= 0x7f:
			fmt.Fprintf(&b, "\\x%02x", c)
		default:
			b.WriteByte(c)
		}
	}
	b.WriteByte('"')
	return b.String()
}

func modfileStrList(l []string) string {
	out := make([]string, len(l))
	for i, s := range l {
		out[i] = modfileLeanString(s)
	}
	return "[" + strings.Join(out, ", ") + "]"
}

func modfileIntList(l []int) string {
	out := make([]string, len(l))
	for i, n := range l {
		out[i] = strconv.Itoa(n)
	}
	return "[" + strings.Join(out, ", ") + "]"
}

func init() {
	extraHooks = append(extraHooks, func(b *strings.Builder) {
		rule := parse("modfile/rule.go")
		work := parse("modfile/work.go")
		read := parse("modfile/read.go")
		print := parse("modfile/print.go")
		one := func(file string, fd *ast.FuncDecl, name, tag string, idx, total int) *ast.SwitchStmt {
			if fd == nil {
				die("%s: %s not found", file, name)
			}
			sws := modfileSwitches(fd, tag)
			if len(sws) != total {
				die("%s: %s: expected %d `switch %s`, found %d", file, name, total, tag, len(sws))
			}
			return sws[idx]
		}
		emitS := func(doc, lean string, l []string) {
			fmt.Fprintf(b, "/-- %s -/\ndef %s : List String := %s\n\n", doc, lean, modfileStrList(l))
		}
		emitN := func(doc, lean string, l []int) {
			fmt.Fprintf(b, "/-- %s -/\ndef %s : List Nat := %s\n\n", doc, lean, modfileIntList(l))
		}

		// parseToFile: switch x.Token[0] { default: …; case "module", … }
		ptf := modfileFindFunc(rule, "", "parseToFile")
		s, _ := modfileCaseLits("parseToFile", one("modfile/rule.go", ptf, "parseToFile", "x.Token[0]", 0, 1))
		emitS("modfile/rule.go: parseToFile: block verbs (`switch x.Token[0]`)", "modfile_parseToFile_blockVerbs", s)

		// File.add: first `switch verb` = the verbs kept when !strict, second = the directive switch
		add := modfileFindFunc(rule, "File", "add")
		s, _ = modfileCaseLits("File.add", one("modfile/rule.go", add, "File.add", "verb", 0, 2))
		emitS("modfile/rule.go: File.add: verbs kept when strict is false (first `switch verb`)", "modfile_add_laxVerbs", s)
		s, _ = modfileCaseLits("File.add", one("modfile/rule.go", add, "File.add", "verb", 1, 2))
		emitS("modfile/rule.go: File.add: directive verbs (second `switch verb`), in case order", "modfile_add_verbs", s)

		// WorkFile.add
		wadd := modfileFindFunc(rule, "WorkFile", "add")
		s, _ = modfileCaseLits("WorkFile.add", one("modfile/rule.go", wadd, "WorkFile.add", "verb", 0, 1))
		emitS("modfile/rule.go: WorkFile.add: directive verbs, in case order", "modfile_workAdd_verbs", s)

		// ParseWork
		pw := modfileFindFunc(work, "", "ParseWork")
		s, _ = modfileCaseLits("ParseWork", one("modfile/work.go", pw, "ParseWork", "x.Token[0]", 0, 1))
		emitS("modfile/work.go: ParseWork: block verbs (`switch x.Token[0]`)", "modfile_parseWork_blockVerbs", s)

		// regexps: var X = lazyregexp.New(`…`)
		for _, name := range []string{"GoVersionRE", "laxGoVersionRE", "ToolchainRE", "deprecatedRE"} {
			v := findValue(rule, name)
			call, ok := v.(*ast.CallExpr)
			if v == nil || !ok || show(call.Fun) != "lazyregexp.New" || len(call.Args) != 1 {
				die("modfile/rule.go: %s is not lazyregexp.New(<literal>)", name)
			}
			lit, ok := call.Args[0].(*ast.BasicLit)
			if !ok || lit.Kind != token.STRING {
				die("modfile/rule.go: %s: argument is not a string literal", name)
			}
			src, err := strconv.Unquote(lit.Value)
			if err != nil {
				die("modfile/rule.go: %s: %v", name, err)
			}
			fmt.Fprintf(b, "/-- modfile/rule.go: %s source text -/\ndef modfile_%s_src : String := %s\n\n", name, name, modfileLeanString(src))
		}

		// readToken: switch c := in.peekRune(); c { case '\n', '(', … : punctuation; case '"', '`': strings }
		rt := modfileFindFunc(read, "input", "readToken")
		if rt == nil {
			die("modfile/read.go: readToken not found")
		}
		var rsw *ast.SwitchStmt
		ast.Inspect(rt.Body, func(n ast.Node) bool {
			if sw, ok := n.(*ast.SwitchStmt); ok && sw.Init != nil && show(sw.Tag) == "c" {
				if rsw != nil {
					die("modfile/read.go: readToken: two `switch c := …; c`")
				}
				rsw = sw
			}
			return true
		})
		if rsw == nil || len(rsw.Body.List) != 2 {
			die("modfile/read.go: readToken: expected `switch c := in.peekRune(); c` with two cases")
		}
		_, r0 := modfileCaseLits("readToken", &ast.SwitchStmt{Body: &ast.BlockStmt{List: rsw.Body.List[:1]}})
		_, r1 := modfileCaseLits("readToken", &ast.SwitchStmt{Body: &ast.BlockStmt{List: rsw.Body.List[1:]}})
		emitN("modfile/read.go: readToken: punctuation runes (first case of `switch c`)", "modfile_readToken_punct", r0)
		emitN("modfile/read.go: readToken: string quote runes (second case of `switch c`)", "modfile_readToken_quotes", r1)

		// isIdent: switch r := rune(c); r { case ' ', '(', …: return false; default: … }
		ii := modfileFindFunc(read, "", "isIdent")
		if ii == nil {
			die("modfile/read.go: isIdent not found")
		}
		var isw *ast.SwitchStmt
		ast.Inspect(ii.Body, func(n ast.Node) bool {
			if sw, ok := n.(*ast.SwitchStmt); ok {
				isw = sw
			}
			return true
		})
		if isw == nil {
			die("modfile/read.go: isIdent: no switch")
		}
		_, r0 = modfileCaseLits("isIdent", isw)
		emitN("modfile/read.go: isIdent: runes excluded before the IsSpace/IsPrint test", "modfile_isIdent_excluded", r0)
		def := ""
		for _, st := range isw.Body.List {
			if cc := st.(*ast.CaseClause); cc.List == nil && len(cc.Body) == 1 {
				def = show(cc.Body[0])
			}
		}
		fmt.Fprintf(b, "/-- modfile/read.go: isIdent: the default case -/\ndef modfile_isIdent_default : String := %s\n\n", modfileLeanString(def))

		// MustQuote: switch r { case ' ', '"', '\'', '`': return true; case '(', …: if len(s) > 1 … }
		mq := modfileFindFunc(rule, "", "MustQuote")
		sw := one("modfile/rule.go", mq, "MustQuote", "r", 0, 1)
		if len(sw.Body.List) != 3 {
			die("modfile/rule.go: MustQuote: expected three cases")
		}
		_, r0 = modfileCaseLits("MustQuote", &ast.SwitchStmt{Body: &ast.BlockStmt{List: sw.Body.List[:1]}})
		_, r1 = modfileCaseLits("MustQuote", &ast.SwitchStmt{Body: &ast.BlockStmt{List: sw.Body.List[1:2]}})
		emitN("modfile/rule.go: MustQuote: runes that always force quoting", "modfile_MustQuote_always", r0)
		emitN("modfile/rule.go: MustQuote: runes that force quoting when len(s) > 1", "modfile_MustQuote_ifLong", r1)

		// printer.tokens: the two `if t == … || …` conditions
		tk := modfileFindFunc(print, "printer", "tokens")
		if tk == nil {
			die("modfile/print.go: tokens not found")
		}
		var conds []string
		ast.Inspect(tk.Body, func(n ast.Node) bool {
			if is, ok := n.(*ast.IfStmt); ok {
				conds = append(conds, show(is.Cond))
			}
			return true
		})
		if len(conds) != 2 {
			die("modfile/print.go: tokens: expected two if statements, found %d", len(conds))
		}
		fmt.Fprintf(b, "/-- modfile/print.go: tokens: no separator BEFORE these -/\ndef modfile_tokens_noSepBefore : String := %s\n\n", modfileLeanString(conds[0]))
		fmt.Fprintf(b, "/-- modfile/print.go: tokens: no separator AFTER these -/\ndef modfile_tokens_noSepAfter : String := %s\n\n", modfileLeanString(conds[1]))
	})
}
