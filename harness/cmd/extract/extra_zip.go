package main

// Facts for zip/zip.go (C17, C05, C12): the VCS directory names skipped by listFilesInDir, the
// literal compared with the path in checkFiles' hg-archive rule, and the string literals of
// isVendoredPackage (in source order).

import (
	"fmt"
	"go/ast"
	"go/token"
	"strconv"
	"strings"
)

func zipStringLits(n ast.Node) []string {
	var out []string
	ast.Inspect(n, func(x ast.Node) bool {
		if lit, ok := x.(*ast.BasicLit); ok && lit.Kind == token.STRING {
			s, err := strconv.Unquote(lit.Value)
			if err != nil {
				die("zip/zip.go: bad string literal %s", lit.Value)
			}
			out = append(out, s)
		}
		return true
	})
	return out
}

func zipLeanStrList(l []string) string {
	items := make([]string, len(l))
	for i, s := range l {
		items[i] = leanStr(s)
	}
	return "[" + strings.Join(items, ", ") + "]"
}

func init() {
	extraHooks = append(extraHooks, func(b *strings.Builder) {
		f := parse("zip/zip.go")
		// listFilesInDir: switch filepath.Base(filePath) { case <names>: ... SkipDir }
		fd := findFunc(f, "listFilesInDir")
		if fd == nil {
			die("zip/zip.go: listFilesInDir not found")
		}
		var vcs []string
		ast.Inspect(fd, func(x ast.Node) bool {
			sw, ok := x.(*ast.SwitchStmt)
			if !ok || sw.Tag == nil || show(sw.Tag) != "filepath.Base(filePath)" {
				return true
			}
			for _, st := range sw.Body.List {
				cc := st.(*ast.CaseClause)
				for _, e := range cc.List {
					vcs = append(vcs, zipStringLits(e)...)
				}
			}
			return false
		})
		if len(vcs) == 0 {
			die("zip/zip.go: listFilesInDir: the switch on filepath.Base(filePath) was not found")
		}
		fmt.Fprintf(b, "/-- zip/zip.go: directory names skipped by listFilesInDir -/\ndef zip_vcsDirs : List (List UInt8) := %s\n\n", zipLeanStrList(vcs))

		// checkFiles: if p == "<lit>" { ... errHgArchivalTxt ... }
		cf := findFunc(f, "checkFiles")
		if cf == nil {
			die("zip/zip.go: checkFiles not found")
		}
		hg := ""
		ast.Inspect(cf, func(x ast.Node) bool {
			is, ok := x.(*ast.IfStmt)
			if !ok {
				return true
			}
			if be, ok := is.Cond.(*ast.BinaryExpr); ok && be.Op == token.EQL && show(be.X) == "p" && strings.Contains(show(is.Body), "errHgArchivalTxt") {
				l := zipStringLits(be.Y)
				if len(l) == 1 {
					hg = l[0]
				}
			}
			return true
		})
		if hg == "" {
			die("zip/zip.go: checkFiles: the hg-archive rule `if p == <literal>` was not found")
		}
		fmt.Fprintf(b, "/-- zip/zip.go: checkFiles omits the file with this path (hg archive) = %q -/\ndef zip_hgArchival : List UInt8 := %s\n\n", hg, leanStr(hg))

		// isVendoredPackage: all string literals in source order
		iv := findFunc(f, "isVendoredPackage")
		if iv == nil {
			die("zip/zip.go: isVendoredPackage not found")
		}
		fmt.Fprintf(b, "/-- zip/zip.go: string literals of isVendoredPackage, in source order -/\ndef zip_isVendoredPackage_lits : List (List UInt8) := %s\n\n", zipLeanStrList(zipStringLits(iv.Body)))
	})
}
