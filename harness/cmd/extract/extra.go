package main

import "strings"

// extraHooks: each subsystem appends its fact writer from an init() in its own file
// (extra_<sub>.go), so that this file need not be edited again.  Hooks run in file-name order.
var extraHooks []func(b *strings.Builder)

// extraFacts is the extension point for structured facts (verb lists, loop facts, regexp texts).
func extraFacts(b *strings.Builder) {
	for _, h := range extraHooks {
		h(b)
	}
}
