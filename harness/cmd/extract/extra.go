package main

import "strings"

// extraFacts is the extension point for structured facts (verb lists, loop facts, regexp texts).
func extraFacts(b *strings.Builder) {
}
