// extract: the translator half of the tie between the Lean model and /repo's current source.
//
// It parses the working tree with go/parser and writes, under -out (lean/ModVerif/Generated):
//
//	Preds.lean   leaf predicates translated expression-by-expression (functions of one rune/byte)
//	Facts.lean   constants, string tables, verb lists, regexp source texts
//	hashes.json  a hash of the AST of every function in the anchored files (never an alarm; used to
//	             focus the generators on what changed)
//
// Anything outside the supported subset makes the translator fail (exit 3): that is a broken
// tie and is reported as such by bin/check.
package main

import (
	"bytes"
	"crypto/sha256"
	"encoding/hex"
	"encoding/json"
	"flag"
	"fmt"
	"go/ast"
	"go/constant"
	"go/format"
	"go/parser"
	"go/token"
	"os"
	"path/filepath"
	"sort"
	"strconv"
	"strings"
)

var repo = flag.String("repo", "/repo", "repository root")
var out = flag.String("out", "", "output directory (lean/ModVerif/Generated)")

type predSpec struct {
	file, fn, leanName string
}

// leaf predicates regenerated on every run
var preds = []predSpec{
	{"semver/semver.go", "isIdentChar", "semver_isIdentChar"},
	{"module/module.go", "firstPathOK", "module_firstPathOK"},
	{"module/module.go", "modPathOK", "module_modPathOK"},
	{"module/module.go", "importPathOK", "module_importPathOK"},
	{"module/module.go", "fileNameOK", "module_fileNameOK"},
}

type constSpec struct {
	file, name, leanName string
	scope                string // "" = package level; otherwise the enclosing function
}

var consts = []constSpec{
	{"zip/zip.go", "MaxZipFile", "zip_MaxZipFile", ""},
	{"zip/zip.go", "MaxGoMod", "zip_MaxGoMod", ""},
	{"zip/zip.go", "MaxLICENSE", "zip_MaxLICENSE", ""},
	{"sumdb/tlog/tlog.go", "HashSize", "tlog_HashSize", ""},
	{"sumdb/tlog/tile.go", "pathBase", "tile_pathBase", ""},
	{"sumdb/tlog/note.go", "treePrefix", "tlog_treePrefix", ""},
	{"module/pseudo.go", "PseudoVersionTimestampFormat", "pseudo_TimestampFormat", ""},
	{"module/module.go", "badWindowsNames", "module_badWindowsNames", ""},
	{"sumdb/note/note.go", "algEd25519", "note_algEd25519", ""},
	{"sumdb/note/note.go", "sigSplit", "note_sigSplit", ""},
	{"sumdb/note/note.go", "sigPrefix", "note_sigPrefix", ""},
}

type fail struct{ msg string }

func die(format string, a ...any) {
	panic(fail{fmt.Sprintf(format, a...)})
}

var fset = token.NewFileSet()
var files = map[string]*ast.File{}

func parse(rel string) *ast.File {
	if f, ok := files[rel]; ok {
		return f
	}
	f, err := parser.ParseFile(fset, filepath.Join(*repo, rel), nil, parser.ParseComments)
	if err != nil {
		die("parse %s: %v", rel, err)
	}
	files[rel] = f
	return f
}

func findFunc(f *ast.File, name string) *ast.FuncDecl {
	for _, d := range f.Decls {
		if fd, ok := d.(*ast.FuncDecl); ok && fd.Name.Name == name && fd.Recv == nil {
			return fd
		}
	}
	return nil
}

// ---- predicate translator

type predCtx struct {
	param  string
	locals map[string]string // local string constants
	known  map[string]string // go func name -> lean name (same file)
}

func litNat(e ast.Expr) (uint64, bool) {
	switch x := e.(type) {
	case *ast.BasicLit:
		switch x.Kind {
		case token.CHAR:
			r, _, _, err := strconv.UnquoteChar(x.Value[1:len(x.Value)-1], '\'')
			if err != nil {
				return 0, false
			}
			return uint64(r), true
		case token.INT:
			v := constant.MakeFromLiteral(x.Value, token.INT, 0)
			n, ok := constant.Uint64Val(v)
			return n, ok
		}
	case *ast.SelectorExpr:
		if id, ok := x.X.(*ast.Ident); ok && id.Name == "utf8" && x.Sel.Name == "RuneSelf" {
			return 0x80, true
		}
	case *ast.ParenExpr:
		return litNat(x.X)
	}
	return 0, false
}

func (c *predCtx) operand(e ast.Expr) string {
	if id, ok := e.(*ast.Ident); ok && id.Name == c.param {
		return "r"
	}
	if n, ok := litNat(e); ok {
		return strconv.FormatUint(n, 10)
	}
	die("unsupported operand %s", show(e))
	return ""
}

func show(n ast.Node) string {
	var b bytes.Buffer
	format.Node(&b, fset, n)
	return b.String()
}

func (c *predCtx) expr(e ast.Expr) string {
	switch x := e.(type) {
	case *ast.ParenExpr:
		return c.expr(x.X)
	case *ast.Ident:
		if x.Name == "true" || x.Name == "false" {
			return x.Name
		}
	case *ast.UnaryExpr:
		if x.Op == token.NOT {
			return "(!" + c.expr(x.X) + ")"
		}
	case *ast.BinaryExpr:
		switch x.Op {
		case token.LAND:
			return "(" + c.expr(x.X) + " && " + c.expr(x.Y) + ")"
		case token.LOR:
			return "(" + c.expr(x.X) + " || " + c.expr(x.Y) + ")"
		case token.EQL:
			return "(" + c.operand(x.X) + " == " + c.operand(x.Y) + ")"
		case token.NEQ:
			return "(" + c.operand(x.X) + " != " + c.operand(x.Y) + ")"
		case token.LSS:
			return "decide (" + c.operand(x.X) + " < " + c.operand(x.Y) + ")"
		case token.LEQ:
			return "decide (" + c.operand(x.X) + " ≤ " + c.operand(x.Y) + ")"
		case token.GTR:
			return "decide (" + c.operand(x.X) + " > " + c.operand(x.Y) + ")"
		case token.GEQ:
			return "decide (" + c.operand(x.X) + " ≥ " + c.operand(x.Y) + ")"
		}
	case *ast.CallExpr:
		if id, ok := x.Fun.(*ast.Ident); ok && len(x.Args) == 1 {
			if ln, ok := c.known[id.Name]; ok {
				if a, ok := x.Args[0].(*ast.Ident); ok && a.Name == c.param {
					return "(" + ln + " r)"
				}
			}
		}
		if sel, ok := x.Fun.(*ast.SelectorExpr); ok {
			pkg, _ := sel.X.(*ast.Ident)
			if pkg != nil && pkg.Name == "strings" && sel.Sel.Name == "ContainsRune" && len(x.Args) == 2 {
				s := ""
				switch a := x.Args[0].(type) {
				case *ast.BasicLit:
					s, _ = strconv.Unquote(a.Value)
				case *ast.Ident:
					v, ok := c.locals[a.Name]
					if !ok {
						die("unknown string constant %s", a.Name)
					}
					s = v
				default:
					die("unsupported ContainsRune argument %s", show(a))
				}
				if a, ok := x.Args[1].(*ast.Ident); !ok || a.Name != c.param {
					die("unsupported ContainsRune rune argument")
				}
				var cps []string
				for _, r := range s {
					cps = append(cps, strconv.Itoa(int(r)))
				}
				return "(List.elem r [" + strings.Join(cps, ", ") + "])"
			}
			if pkg != nil && pkg.Name == "unicode" && sel.Sel.Name == "IsLetter" && len(x.Args) == 1 {
				return "(isLetter r)"
			}
		}
	}
	die("unsupported expression %s", show(e))
	return ""
}

// block translates a statement list that must end in a return on every path.
func (c *predCtx) block(stmts []ast.Stmt, rest string) string {
	if len(stmts) == 0 {
		if rest == "" {
			die("missing return")
		}
		return rest
	}
	switch s := stmts[0].(type) {
	case *ast.ReturnStmt:
		if len(s.Results) != 1 {
			die("unsupported return")
		}
		return c.expr(s.Results[0])
	case *ast.DeclStmt:
		gd, ok := s.Decl.(*ast.GenDecl)
		if !ok || gd.Tok != token.CONST {
			die("unsupported declaration")
		}
		for _, sp := range gd.Specs {
			vs := sp.(*ast.ValueSpec)
			for i, n := range vs.Names {
				bl, ok := vs.Values[i].(*ast.BasicLit)
				if !ok || bl.Kind != token.STRING {
					die("unsupported local constant %s", n.Name)
				}
				v, _ := strconv.Unquote(bl.Value)
				c.locals[n.Name] = v
			}
		}
		return c.block(stmts[1:], rest)
	case *ast.IfStmt:
		if s.Init != nil {
			die("unsupported if-init")
		}
		tail := ""
		if len(stmts) > 1 {
			tail = c.block(stmts[1:], rest)
		} else {
			tail = rest
		}
		els := tail
		if s.Else != nil {
			switch e := s.Else.(type) {
			case *ast.BlockStmt:
				els = c.block(e.List, tail)
			case *ast.IfStmt:
				els = c.block([]ast.Stmt{e}, tail)
			}
		}
		if els == "" {
			die("if without fallthrough return")
		}
		return "(if " + c.expr(s.Cond) + " then " + c.block(s.Body.List, tail) + " else " + els + ")"
	}
	die("unsupported statement %s", show(stmts[0]))
	return ""
}

func genPreds() string {
	var b strings.Builder
	b.WriteString("/- GENERATED by harness/cmd/extract from /repo's working tree.  Do not edit; never committed. -/\n")
	b.WriteString("namespace ModVerif.Generated\n\nsection\nvariable (isLetter : Nat → Bool)\n\n")
	known := map[string]map[string]string{}
	for _, p := range preds {
		if known[p.file] == nil {
			known[p.file] = map[string]string{}
		}
	}
	for _, p := range preds {
		f := parse(p.file)
		fd := findFunc(f, p.fn)
		if fd == nil {
			die("%s: function %s not found", p.file, p.fn)
		}
		if fd.Type.Params.NumFields() != 1 || len(fd.Type.Params.List[0].Names) != 1 {
			die("%s: %s is not a one-parameter function", p.file, p.fn)
		}
		c := &predCtx{param: fd.Type.Params.List[0].Names[0].Name, locals: map[string]string{}, known: known[p.file]}
		body := c.block(fd.Body.List, "")
		fmt.Fprintf(&b, "/-- %s: %s -/\ndef %s (r : Nat) : Bool :=\n  %s\n\n", p.file, p.fn, p.leanName, body)
		known[p.file][p.fn] = p.leanName
	}
	b.WriteString("end\n\nend ModVerif.Generated\n")
	return b.String()
}

// ---- constants

func evalConst(f *ast.File, e ast.Expr, depth int) constant.Value {
	if depth > 20 {
		die("constant too deep")
	}
	switch x := e.(type) {
	case *ast.BasicLit:
		return constant.MakeFromLiteral(x.Value, x.Kind, 0)
	case *ast.ParenExpr:
		return evalConst(f, x.X, depth+1)
	case *ast.BinaryExpr:
		l, r := evalConst(f, x.X, depth+1), evalConst(f, x.Y, depth+1)
		if x.Op == token.SHL || x.Op == token.SHR {
			n, _ := constant.Uint64Val(r)
			return constant.Shift(l, x.Op, uint(n))
		}
		return constant.BinaryOp(l, x.Op, r)
	case *ast.Ident:
		if v := findValue(f, x.Name); v != nil {
			return evalConst(f, v, depth+1)
		}
	case *ast.CallExpr: // conversions like int64(x)
		if len(x.Args) == 1 {
			return evalConst(f, x.Args[0], depth+1)
		}
	}
	die("unsupported constant expression %s", show(e))
	return nil
}

func findValue(f *ast.File, name string) ast.Expr {
	var found ast.Expr
	ast.Inspect(f, func(n ast.Node) bool {
		if vs, ok := n.(*ast.ValueSpec); ok {
			for i, id := range vs.Names {
				if id.Name == name && i < len(vs.Values) {
					found = vs.Values[i]
				}
			}
		}
		return found == nil
	})
	return found
}

func leanStr(s string) string {
	// byte list literal, so arbitrary bytes are fine
	var parts []string
	for i := 0; i < len(s); i++ {
		parts = append(parts, strconv.Itoa(int(s[i])))
	}
	return "[" + strings.Join(parts, ", ") + "]"
}

func genFacts() string {
	var b strings.Builder
	b.WriteString("/- GENERATED by harness/cmd/extract from /repo's working tree.  Do not edit; never committed. -/\n")
	b.WriteString("namespace ModVerif.Generated\n\n")
	for _, c := range consts {
		f := parse(c.file)
		v := findValue(f, c.name)
		if v == nil {
			die("%s: %s not found", c.file, c.name)
		}
		if cl, ok := v.(*ast.CompositeLit); ok { // []string{...}
			var items []string
			for _, e := range cl.Elts {
				cv := evalConst(f, e, 0)
				items = append(items, leanStr(constant.StringVal(cv)))
			}
			fmt.Fprintf(&b, "/-- %s: %s -/\ndef %s : List (List UInt8) := [\n  %s]\n\n", c.file, c.name, c.leanName, strings.Join(items, ",\n  "))
			continue
		}
		cv := evalConst(f, v, 0)
		switch cv.Kind() {
		case constant.Int:
			fmt.Fprintf(&b, "/-- %s: %s -/\ndef %s : Nat := %s\n\n", c.file, c.name, c.leanName, cv.ExactString())
		case constant.String:
			fmt.Fprintf(&b, "/-- %s: %s = %q -/\ndef %s : List UInt8 := %s\n\n", c.file, c.name, constant.StringVal(cv), c.leanName, leanStr(constant.StringVal(cv)))
		default:
			die("%s: %s has unsupported kind", c.file, c.name)
		}
	}
	extraFacts(&b)
	b.WriteString("end ModVerif.Generated\n")
	return b.String()
}

// ---- AST hashes

func genHashes() []byte {
	res := map[string]string{}
	filepath.Walk(*repo, func(p string, info os.FileInfo, err error) error {
		if err != nil || info.IsDir() || !strings.HasSuffix(p, ".go") || strings.HasSuffix(p, "_test.go") {
			return nil
		}
		rel, _ := filepath.Rel(*repo, p)
		if strings.HasPrefix(rel, "gosumcheck") {
			return nil
		}
		f := parse(rel)
		for _, d := range f.Decls {
			if fd, ok := d.(*ast.FuncDecl); ok && fd.Body != nil {
				name := fd.Name.Name
				if fd.Recv != nil && len(fd.Recv.List) == 1 {
					name = strings.TrimPrefix(show(fd.Recv.List[0].Type), "*") + "." + name
				}
				h := sha256.Sum256([]byte(show(fd)))
				res[rel+":"+name] = hex.EncodeToString(h[:8])
			}
		}
		return nil
	})
	keys := make([]string, 0, len(res))
	for k := range res {
		keys = append(keys, k)
	}
	sort.Strings(keys)
	var b bytes.Buffer
	b.WriteString("{\n")
	for i, k := range keys {
		kk, _ := json.Marshal(k)
		fmt.Fprintf(&b, " %s: %q", kk, res[k])
		if i+1 < len(keys) {
			b.WriteString(",")
		}
		b.WriteString("\n")
	}
	b.WriteString("}\n")
	return b.Bytes()
}

func writeIfChanged(path string, data []byte) {
	old, err := os.ReadFile(path)
	if err == nil && bytes.Equal(old, data) {
		return
	}
	tmp := path + ".tmp"
	if err := os.WriteFile(tmp, data, 0o644); err != nil {
		die("write %s: %v", tmp, err)
	}
	if err := os.Rename(tmp, path); err != nil {
		die("rename: %v", err)
	}
}

func main() {
	flag.Parse()
	if *out == "" {
		fmt.Fprintln(os.Stderr, "usage: extract -repo /repo -out DIR")
		os.Exit(2)
	}
	defer func() {
		if r := recover(); r != nil {
			if f, ok := r.(fail); ok {
				fmt.Fprintln(os.Stderr, "extract: TRANSLATOR FAILURE:", f.msg)
				os.Exit(3)
			}
			panic(r)
		}
	}()
	os.MkdirAll(*out, 0o755)
	p := genPreds()
	f := genFacts()
	h := genHashes()
	writeIfChanged(filepath.Join(*out, "Preds.lean"), []byte(p))
	writeIfChanged(filepath.Join(*out, "Facts.lean"), []byte(f))
	writeIfChanged(filepath.Join(*out, "hashes.json"), h)
	genGo2Lean()
}
