package main

import (
	"fmt"
	"go/ast"
	"go/token"
	"go/types"
	"sort"
	"strings"
)

// ---------------------------------------------------------------------------------------------------------
// loops: every `for` becomes a hoisted definition that recurses on a fuel argument

type nameType struct{ name, typ string }

func containsReturn(n ast.Node) bool {
	found := false
	ast.Inspect(n, func(n ast.Node) bool {
		switch x := n.(type) {
		case *ast.FuncLit:
			return false
		case *ast.ReturnStmt:
			found = true
		case *ast.BranchStmt:
			if x.Tok == token.GOTO {
				found = true
			}
		}
		return true
	})
	return found
}

// usedOuter: local variables (parameters included) read in the nodes and declared before `before`
var aliasDepth = 0

func (f *g2lFn) usedOuter(nodes []ast.Node, before token.Pos, exclude map[*types.Var]bool) []*types.Var {
	seen := map[*types.Var]bool{}
	out := []*types.Var{}
	for _, n := range nodes {
		if n == nil {
			continue
		}
		ast.Inspect(n, func(n ast.Node) bool {
			if fl, ok := n.(*ast.FuncLit); ok && !f.isGoLit(fl) {
				return false
			}
			id, ok := n.(*ast.Ident)
			if !ok {
				return true
			}
			v, ok := f.p.info.Uses[id].(*types.Var)
			if !ok || v.IsField() || v.Parent() == f.p.pkg.Scope() || v.Pkg() != f.p.pkg {
				return true
			}
			if f.isWorldObj(v.Type()) {
				return true
			}
			if f.nilAlias[v] {
				return true
			}
			if al, ok := f.aliases[v]; ok && al != nil && aliasDepth < 8 {
				// an inlined pointer parameter: what is used is whatever its place expression uses
				aliasDepth++
				for _, av := range f.usedOuter([]ast.Node{al}, before, exclude) {
					if !seen[av] {
						seen[av] = true
						out = append(out, av)
					}
				}
				aliasDepth--
				return true
			}
			if cl, ok := f.closures[v]; ok {
				// a call to a local closure needs the variables the closure captures
				for _, cv := range append(append([]*types.Var{}, cl.capV...), cl.modV...) {
					if f.declaredBefore(cv, before) && !seen[cv] && !exclude[cv] {
						seen[cv] = true
						out = append(out, cv)
					}
				}
				return true
			}
			if !f.declaredBefore(v, before) || seen[v] || exclude[v] {
				return true
			}
			seen[v] = true
			out = append(out, v)
			return true
		})
	}
	// a bare `return` reads the named results
	if f.named {
		bare := false
		for _, n := range nodes {
			if n == nil {
				continue
			}
			ast.Inspect(n, func(n ast.Node) bool {
				if _, ok := n.(*ast.FuncLit); ok {
					return false
				}
				if r, ok := n.(*ast.ReturnStmt); ok && len(r.Results) == 0 {
					bare = true
				}
				return true
			})
		}
		if bare {
			for _, r := range f.results {
				if !seen[r] && !exclude[r] {
					seen[r] = true
					out = append(out, r)
				}
			}
		}
	}
	sort.Slice(out, func(i, j int) bool { return out[i].Pos() < out[j].Pos() })
	return out
}

type loopSpec struct {
	at       ast.Node
	carried  []nameType // loop state
	captured []nameType // read-only context
	hasRet   bool
	cond     func(b *binds) string // nil = true
	prelude  func() []string       // lines at the start of the body (range variables)
	body     []ast.Stmt
	post     func() []string
}

func (f *g2lFn) buildLoop(sp *loopSpec, rest kont) []string {
	f.fuel = true
	f.pure = false
	f.nloop++
	name := fmt.Sprintf("%s_loop%d", f.leanName, f.nloop)
	stNames, stTypes := []string{}, []string{}
	for _, c := range sp.carried {
		stNames = append(stNames, c.name)
		stTypes = append(stTypes, c.typ)
	}
	stType := "Unit"
	if len(stTypes) == 1 {
		stType = stTypes[0]
	} else if len(stTypes) > 1 {
		stType = "(" + strings.Join(stTypes, " × ") + ")"
	}
	stVal := tuple(stNames)
	resType := stType
	if sp.hasRet {
		resType = "(Ctl " + f.retType + " " + stType + ")"
	}
	loop := &g2lLoop{name: name, hasRet: sp.hasRet, resType: resType}
	if f.effType != "" {
		sp.captured = append(sp.captured, nameType{"effLog", "(List " + f.effType + ")"})
	}
	if f.worldVar != nil && !f.inClosure {
		// a loop of a world function that does not change the world still returns it (a `return` inside the loop)
		has := false
		for _, c := range sp.carried {
			if c.name == "world" {
				has = true
			}
		}
		for _, c := range sp.captured {
			if c.name == "world" {
				has = true
			}
		}
		if !has {
			sp.captured = append(sp.captured, nameType{"world", f.worldType})
		}
	}
	capArgs := []string{}
	capParams := []string{}
	for _, c := range sp.captured {
		capArgs = append(capArgs, c.name)
		capParams = append(capParams, fmt.Sprintf("(%s : %s)", c.name, c.typ))
	}
	exit := func() []string {
		if sp.hasRet {
			return []string{"pure (Ctl.next " + stVal + ")"}
		}
		return []string{"pure " + stVal}
	}
	// the abstract parameters used by the body are only known after compiling it; use a placeholder
	const absMark = "\x00ABS\x00"
	recur := func() []string {
		return []string{strings.TrimSpace(name + " " + absMark + strings.Join(append(append([]string{}, capArgs...), "fuel"), " ") + " " + strings.Join(stNames, " "))}
	}
	savedLoop, savedBrk := f.inLoop, f.brk
	absBefore := len(f.absUsed)
	_ = absBefore
	f.inLoop = loop
	next := func() []string {
		l := []string{}
		if sp.post != nil {
			l = append(l, sp.post()...)
		}
		return append(l, recur()...)
	}
	f.brk = &brkTarget{onBreak: exit, onContinue: next}
	if f.pendingLabel != "" {
		if f.loopLabels == nil {
			f.loopLabels = map[string]labelTarget{}
		}
		f.loopLabels[f.pendingLabel] = labelTarget{loop: loop, brk: f.brk}
		f.pendingLabel = ""
	}
	var body []string
	if sp.prelude != nil {
		body = append(body, sp.prelude()...)
	}
	body = append(body, f.stmts(sp.body, next)...)
	var step []string
	if sp.cond != nil {
		var b binds
		c := sp.cond(&b)
		step = append(step, b.lines...)
		step = append(step, fmt.Sprintf("if %s then %s else %s", c, f.paren(body), f.paren(exit())))
	} else {
		step = body
	}
	f.inLoop, f.brk = savedLoop, savedBrk
	// safety net: a variable that the compiled body re-binds must be loop-carried; if the carried-variable analysis missed an
	// assignment form, refuse to translate rather than silently dropping the update
	capSet := map[string]bool{}
	for _, c := range sp.captured {
		capSet[c.name] = true
	}
	inGoto := ""
	for _, l := range strings.Split(strings.Join(step, "\n"), "\n") {
		t := strings.TrimSpace(l)
		if inGoto != "" {
			// the continuation of a goto out of the loop: it ends in a return, its bindings are not the loop's
			if strings.HasPrefix(t, "pure (Ctl.ret "+inGoto+")") {
				inGoto = ""
			}
			continue
		}
		if !strings.HasPrefix(t, "let ") {
			continue
		}
		if fs := strings.Fields(t); len(fs) > 2 && f.gotoVars[fs[1]] && fs[2] == "←" {
			inGoto = fs[1]
			continue
		}
		end := strings.Index(t, ":=")
		if e2 := strings.Index(t, "←"); e2 >= 0 && (end < 0 || e2 < end) {
			end = e2
		}
		if end < 0 {
			continue
		}
		pat := t[4:end]
		for _, name := range strings.FieldsFunc(pat, func(r rune) bool { return r == '(' || r == ')' || r == ',' || r == ' ' }) {
			if capSet[name] {
				f.bad(sp.at, "internal: %s is re-bound inside the loop but was not recognised as loop-carried", name)
			}
		}
	}
	// definition
	pats := []string{}
	wild := []string{}
	for _, n := range stNames {
		pats = append(pats, n)
		wild = append(wild, "_")
	}
	def := &strings.Builder{}
	fmt.Fprintf(def, "/-- loop %d of `%s` (%s) -/\n", f.nloop, f.goName, shortPos(f.pos(sp.at)))
	fmt.Fprintf(def, "def %s %s%s : Nat → %sM %s\n", name, "\x00ABSP\x00", strings.Join(capParams, " "), arrows(stTypes), resType)
	fmt.Fprintf(def, "  | 0%s => throw Err.fuel\n", prefixEach(wild, ", "))
	fmt.Fprintf(def, "  | fuel + 1%s => %s\n", prefixEach(pats, ", "), strings.TrimLeft(indent(f.paren(step), 4), " "))
	f.loops = append(f.loops, def.String())
	// call site
	call := strings.TrimSpace(name + " " + absMark + strings.Join(append(append([]string{}, capArgs...), "fuel"), " ") + " " + strings.Join(stNames, " "))
	if !sp.hasRet {
		pat := stVal
		if len(stNames) == 0 {
			pat = "_"
		}
		lines := []string{fmt.Sprintf("let %s ← %s", pat, call)}
		return append(lines, rest()...)
	}
	r := f.fresh("r")
	rv := f.fresh("rv")
	lines := []string{fmt.Sprintf("let %s ← %s", r, call)}
	nextPat := stVal
	if len(stNames) == 0 {
		nextPat = "_"
	}
	m := fmt.Sprintf("match %s with\n| Ctl.ret %s => %s\n| Ctl.next %s => %s", r, rv, f.paren(f.retRaw(rv)), nextPat, f.paren(rest()))
	return append(lines, m)
}

func shortPos(p string) string {
	if i := strings.Index(p, "/repo/"); i >= 0 {
		p = p[i+6:]
	}
	if i := strings.LastIndex(p, ":"); i >= 0 {
		p = p[:i]
	}
	return p
}

func arrows(ts []string) string {
	s := ""
	for _, t := range ts {
		s += t + " → "
	}
	return s
}

func prefixEach(xs []string, sep string) string {
	s := ""
	for _, x := range xs {
		s += sep + x
	}
	return s
}

func (f *g2lFn) varsNT(vs []*types.Var, at ast.Node) []nameType {
	out := []nameType{}
	for _, v := range vs {
		out = append(out, nameType{f.varName(v), f.varType(v, at)})
	}
	return out
}

func (f *g2lFn) forStmt(s *ast.ForStmt, rest kont) []string {
	lines := []string{}
	if s.Init != nil {
		lines = append(lines, f.simple(s.Init)...)
	}
	nodes := []ast.Node{s.Body}
	if s.Post != nil {
		nodes = append(nodes, s.Post)
	}
	if s.Cond != nil {
		nodes = append(nodes, s.Cond) // a condition may call an in-out method
	}
	carried := f.assignedOuter(nodes, s.Body.Pos())
	ex := map[*types.Var]bool{}
	for _, v := range carried {
		ex[v] = true
	}
	all := append([]ast.Node{}, nodes...)
	if s.Cond != nil {
		all = append(all, s.Cond)
	}
	all = append(all, f.gotoTargets(s.Body)...)
	captured := f.usedOuter(all, s.Body.Pos(), ex)
	sp := &loopSpec{at: s, carried: f.varsNT(carried, s), captured: f.varsNT(captured, s), hasRet: containsReturn(s.Body), body: s.Body.List}
	if s.Cond != nil {
		sp.cond = func(b *binds) string { return f.expr(b, s.Cond) }
	}
	if s.Post != nil {
		sp.post = func() []string { return f.simple(s.Post) }
	}
	if s.Cond == nil && !containsBreak(s.Body.List) {
		// `for { … }` without break never falls through: what follows is unreachable (the Go compiler guarantees it)
		rest = func() []string { return []string{"throw Err.panic"} }
	}
	return append(lines, f.buildLoop(sp, rest)...)
}

func (f *g2lFn) rangeStmt(s *ast.RangeStmt, rest kont) []string {
	lines := []string{}
	xt := f.typeOf(s.X)
	var b binds
	x := f.expr(&b, s.X)
	lines = append(lines, b.lines...)
	xTemp := false
	if !isSimpleTerm(x) {
		t := f.fresh("rx")
		lines = append(lines, fmt.Sprintf("let %s := %s", t, x))
		x = t
		xTemp = true
	}
	ri := f.fresh("ri")
	lines = append(lines, fmt.Sprintf("let %s := (0 : Int)", ri))
	own := map[*types.Var]bool{}
	for _, e := range []ast.Expr{s.Key, s.Value} {
		if id, ok := e.(*ast.Ident); ok && s.Tok == token.DEFINE {
			if v, ok := f.p.info.Defs[id].(*types.Var); ok {
				own[v] = true
			}
		}
	}
	carriedV := []*types.Var{}
	for _, v := range f.assignedOuter([]ast.Node{s.Body}, s.Body.Pos()) {
		if !own[v] {
			carriedV = append(carriedV, v)
		}
	}
	if s.Tok == token.ASSIGN {
		// for _, r = range l: the outer variables are assigned at the start of every iteration (loop state)
		for _, e := range []ast.Expr{s.Key, s.Value} {
			id, ok := e.(*ast.Ident)
			if e == nil || (ok && id.Name == "_") {
				continue
			}
			if !ok {
				f.bad(s, "range with = into %s", show(e))
			}
			v, _ := f.p.info.Uses[id].(*types.Var)
			if v == nil {
				f.bad(s, "range with = into %s", id.Name)
			}
			dup := false
			for _, c := range carriedV {
				if c == v {
					dup = true
				}
			}
			if !dup {
				carriedV = append(carriedV, v)
			}
		}
	}
	ex := map[*types.Var]bool{}
	for _, v := range carriedV {
		ex[v] = true
	}
	for v := range own {
		ex[v] = true
	}
	capturedV := f.usedOuter([]ast.Node{s.Body, s.X}, s.Body.Pos(), ex)
	carried := append([]nameType{{ri, "Int"}}, f.varsNT(carriedV, s)...)
	captured := f.varsNT(capturedV, s)
	// the ranged-over value may be a temporary
	found := false
	for _, c := range captured {
		if c.name == x {
			found = true
		}
	}
	if _, isId := s.X.(*ast.Ident); !found && (xTemp || !isId) && !strings.Contains(x, ".") {
		captured = append([]nameType{{x, f.leanType(xt, s)}}, captured...)
	}
	keyName, valName := "_", "_"
	if id, ok := s.Key.(*ast.Ident); ok {
		keyName = f.name(id)
	}
	if id, ok := s.Value.(*ast.Ident); ok {
		valName = f.name(id)
	}
	sp := &loopSpec{at: s, carried: carried, captured: captured, hasRet: containsReturn(s.Body), body: s.Body.List}
	sp.cond = func(b *binds) string { return fmt.Sprintf("(decide (%s < len %s))", ri, x) }
	w := f.fresh("rw")
	switch {
	case isString(xt):
		sp.prelude = func() []string {
			l := []string{fmt.Sprintf("let (%s, %s) := decodeRuneAt %s %s", ifBlank(valName, f.fresh("rr")), w, x, ri)}
			if keyName != "_" {
				l = append(l, fmt.Sprintf("let %s := %s", keyName, ri))
			}
			return l
		}
		sp.post = func() []string { return []string{fmt.Sprintf("let %s := %s + %s", ri, ri, w)} }
	case func() bool { _, ok := xt.Underlying().(*types.Map); return ok }():
		// a map is an association list: iteration in insertion order over the value taken at the start (Go's order is
		// unspecified; a loop whose result depends on it is outside what the translation can state)
		sp.prelude = func() []string {
			f.pure = false
			pr := f.fresh("kv")
			l := []string{fmt.Sprintf("let %s ← idxL %s %s", pr, x, ri)}
			if keyName != "_" {
				l = append(l, fmt.Sprintf("let %s := (%s).1", keyName, pr))
			}
			if valName != "_" {
				l = append(l, fmt.Sprintf("let %s := (%s).2", valName, pr))
			}
			return l
		}
		sp.post = func() []string { return []string{fmt.Sprintf("let %s := %s + 1", ri, ri)} }
	default:
		if _, ok := xt.Underlying().(*types.Slice); !ok {
			f.bad(s, "range over %s", xt)
		}
		sp.prelude = func() []string {
			l := []string{}
			if valName != "_" {
				op := "idxL"
				if isByteSlice(xt) {
					op = "idx"
				}
				f.pure = false
				l = append(l, fmt.Sprintf("let %s ← %s %s %s", valName, op, x, ri))
			}
			if keyName != "_" {
				l = append(l, fmt.Sprintf("let %s := %s", keyName, ri))
			}
			return l
		}
		sp.post = func() []string { return []string{fmt.Sprintf("let %s := %s + 1", ri, ri)} }
	}
	// the hidden index is not visible after the loop
	return append(lines, f.buildLoop(sp, rest)...)
}

func ifBlank(s, alt string) string {
	if s == "_" {
		return alt
	}
	return s
}

// gotoTargets: the statements a `goto` inside n jumps to (they run with the loop's variables in scope)
func (f *g2lFn) gotoTargets(n ast.Node) []ast.Node {
	out := []ast.Node{}
	ast.Inspect(n, func(x ast.Node) bool {
		if b, ok := x.(*ast.BranchStmt); ok && b.Tok == token.GOTO && b.Label != nil {
			if idx, ok := f.labels[b.Label.Name]; ok {
				for _, st := range f.fd.Body.List[idx:] {
					out = append(out, st)
				}
			} else {
				// a label of a nested statement list: the labelled statement and everything that can run after it
				// (an over-approximation: every statement that starts after the label)
				var lpos token.Pos
				ast.Inspect(f.fd.Body, func(y ast.Node) bool {
					if ls, ok := y.(*ast.LabeledStmt); ok && ls.Label.Name == b.Label.Name {
						lpos = ls.Pos()
					}
					return true
				})
				if lpos.IsValid() {
					var walk func(list []ast.Stmt)
					walk = func(list []ast.Stmt) {
						for _, st := range list {
							if st.Pos() >= lpos {
								out = append(out, st)
								continue
							}
							if st.End() > lpos {
								ast.Inspect(st, func(y ast.Node) bool {
									if bl, ok := y.(*ast.BlockStmt); ok && bl.Pos() < lpos && bl.End() > lpos {
										walk(bl.List)
										return false
									}
									return true
								})
							}
						}
					}
					walk(f.fd.Body.List)
				}
			}
		}
		return true
	})
	return out
}

// varType: the Lean type of a variable (the synthetic world variable has the configured world type)
func (f *g2lFn) varType(v *types.Var, at ast.Node) string {
	if v == f.worldVar && v != nil {
		return f.worldType
	}
	if f.isViewObj(v) {
		return "TokRef"
	}
	if sig, ok := v.Type().Underlying().(*types.Signature); ok && f.isWorldFnVar(v) {
		ps := []string{}
		for i := 0; i < sig.Params().Len(); i++ {
			ps = append(ps, f.leanType(sig.Params().At(i).Type(), at))
		}
		return "(" + strings.Join(ps, " → ") + " → " + f.worldType + " → M (" + f.leanType(sig.Results(), at) + " × " + f.worldType + "))"
	}
	return f.leanType(v.Type(), at)
}

type labelTarget struct {
	loop *g2lLoop
	brk  *brkTarget
}

// declaredBefore: the variable is visible at source position `before` as an OUTER variable: declared earlier in the same
// function, or — while the body of an inlined function is compiled — anywhere outside that function's source text (the
// caller's variables reach the inlined body through alias parameters and bound arguments); the world variable always is.
func (f *g2lFn) declaredBefore(v *types.Var, before token.Pos) bool {
	if v == nil {
		return false
	}
	if v == f.worldVar {
		return true
	}
	for _, r := range f.inlineRanges {
		if r[0] <= before && before < r[1] {
			if !(r[0] <= v.Pos() && v.Pos() < r[1]) {
				return true
			}
		}
	}
	return v.Pos() < before
}
