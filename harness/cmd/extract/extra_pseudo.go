package main

// Facts for module/pseudo.go (C18): the source text of pseudoVersionRE.

import (
	"fmt"
	"go/ast"
	"go/token"
	"strconv"
	"strings"
)

// regexpSource returns the string literal argument of `var <name> = lazyregexp.New(<lit>)`
// (or regexp.MustCompile) at package level of the file.
func regexpSource(rel, name string) string {
	f := parse(rel)
	v := findValue(f, name)
	if v == nil {
		die("%s: %s not found", rel, name)
	}
	call, ok := v.(*ast.CallExpr)
	if !ok || len(call.Args) != 1 {
		die("%s: %s is not a one-argument call", rel, name)
	}
	sel, ok := call.Fun.(*ast.SelectorExpr)
	if !ok || !(show(sel) == "lazyregexp.New" || show(sel) == "regexp.MustCompile") {
		die("%s: %s is not built by lazyregexp.New / regexp.MustCompile but by %s", rel, name, show(call.Fun))
	}
	lit, ok := call.Args[0].(*ast.BasicLit)
	if !ok || lit.Kind != token.STRING {
		die("%s: %s: regexp argument is not a string literal", rel, name)
	}
	s, err := strconv.Unquote(lit.Value)
	if err != nil {
		die("%s: %s: %v", rel, name, err)
	}
	return s
}

func init() {
	extraHooks = append(extraHooks, func(b *strings.Builder) {
		s := regexpSource("module/pseudo.go", "pseudoVersionRE")
		fmt.Fprintf(b, "/-- module/pseudo.go: source text of pseudoVersionRE = %q -/\ndef pseudo_pseudoVersionRE : List UInt8 := %s\n\n", s, leanStr(s))
		// the three conjuncts of IsPseudoVersion, as source text
		f := parse("module/pseudo.go")
		fd := findFunc(f, "IsPseudoVersion")
		if fd == nil || len(fd.Body.List) != 1 {
			die("module/pseudo.go: IsPseudoVersion is not a single statement")
		}
		ret, ok := fd.Body.List[0].(*ast.ReturnStmt)
		if !ok || len(ret.Results) != 1 {
			die("module/pseudo.go: IsPseudoVersion is not a single return")
		}
		src := show(ret.Results[0])
		fmt.Fprintf(b, "/-- module/pseudo.go: the expression returned by IsPseudoVersion -/\ndef pseudo_IsPseudoVersion_expr : List UInt8 := %s\n\n", leanStr(src))
	})
}
