package main

// Facts for sumdb/tlog (C09, C03, C10): the headers of every `if` and `for` statement of the functions the
// Lean model mirrors (in source order, as source text), the tlog error/guard constants and emptyHash.
// lean/ModVerif/Tie/Tlog.lean compares them with the texts the hand-written model was written against,
// so an edit to a guard, a loop bound or a loop start (e.g. `i := nstx`) breaks the tie.

import (
	"fmt"
	"go/ast"
	"go/constant"
	"strconv"
	"strings"
)

func tlogFindFuncOrMethod(f *ast.File, name string) *ast.FuncDecl {
	for _, d := range f.Decls {
		if fd, ok := d.(*ast.FuncDecl); ok && fd.Name.Name == name && fd.Body != nil {
			return fd
		}
	}
	return nil
}

// tlogHeaders lists, in source order, "if <cond>" / "for <init>; <cond>; <post>" / "range <x>" headers.
func tlogHeaders(fd *ast.FuncDecl) []string {
	var out []string
	ast.Inspect(fd.Body, func(n ast.Node) bool {
		switch s := n.(type) {
		case *ast.IfStmt:
			h := "if "
			if s.Init != nil {
				h += show(s.Init) + "; "
			}
			out = append(out, h+show(s.Cond))
		case *ast.ForStmt:
			parts := []string{"", "", ""}
			if s.Init != nil {
				parts[0] = show(s.Init)
			}
			if s.Cond != nil {
				parts[1] = show(s.Cond)
			}
			if s.Post != nil {
				parts[2] = show(s.Post)
			}
			out = append(out, "for "+strings.Join(parts, "; "))
		case *ast.RangeStmt:
			out = append(out, "range "+show(s.X))
		}
		return true
	})
	return out
}

func leanStringLit(s string) string {
	for _, r := range s {
		if r < 0x20 || r > 0x7e {
			die("non-ASCII source text in a tlog header: %q", s)
		}
	}
	return strconv.Quote(s)
}

var tlogHeaderFuncs = []struct{ file, fn string }{
	{"sumdb/tlog/tlog.go", "maxpow2"},
	{"sumdb/tlog/tlog.go", "StoredHashIndex"},
	{"sumdb/tlog/tlog.go", "SplitStoredHashIndex"},
	{"sumdb/tlog/tlog.go", "StoredHashCount"},
	{"sumdb/tlog/tlog.go", "StoredHashesForRecordHash"},
	{"sumdb/tlog/tlog.go", "TreeHash"},
	{"sumdb/tlog/tlog.go", "subTreeIndex"},
	{"sumdb/tlog/tlog.go", "subTreeHash"},
	{"sumdb/tlog/tlog.go", "ProveRecord"},
	{"sumdb/tlog/tlog.go", "leafProofIndex"},
	{"sumdb/tlog/tlog.go", "leafProof"},
	{"sumdb/tlog/tlog.go", "CheckRecord"},
	{"sumdb/tlog/tlog.go", "runRecordProof"},
	{"sumdb/tlog/tlog.go", "ProveTree"},
	{"sumdb/tlog/tlog.go", "treeProofIndex"},
	{"sumdb/tlog/tlog.go", "treeProof"},
	{"sumdb/tlog/tlog.go", "CheckTree"},
	{"sumdb/tlog/tlog.go", "runTreeProof"},
	{"sumdb/tlog/tile.go", "HashFromTile"},
	{"sumdb/tlog/tile.go", "tileHash"},
	{"sumdb/tlog/tile.go", "NewTiles"},
	{"sumdb/tlog/tile.go", "ReadTileData"},
	{"sumdb/tlog/tile.go", "Path"},
	{"sumdb/tlog/tile.go", "ParseTilePath"},
	{"sumdb/tlog/tile.go", "tileParent"},
	{"sumdb/tlog/tile.go", "ReadHashes"},
	{"sumdb/tlog/note.go", "ParseTree"},
	{"sumdb/tlog/note.go", "isValidRecordText"},
	{"sumdb/tlog/note.go", "ParseRecord"},
}

func init() {
	extraHooks = append(extraHooks, func(b *strings.Builder) {
		for _, hf := range tlogHeaderFuncs {
			f := parse(hf.file)
			fd := tlogFindFuncOrMethod(f, hf.fn)
			if fd == nil {
				die("%s: function %s not found", hf.file, hf.fn)
			}
			hs := tlogHeaders(fd)
			items := make([]string, len(hs))
			for i, h := range hs {
				items[i] = leanStringLit(h)
			}
			fmt.Fprintf(b, "/-- %s: if/for/range headers of %s, in source order -/\ndef tlog_headers_%s : List String := [\n  %s]\n\n",
				hf.file, hf.fn, hf.fn, strings.Join(items, ",\n  "))
		}
		// the body of tileForIndex has no branches: pin its statements
		{
			f := parse("sumdb/tlog/tile.go")
			fd := tlogFindFuncOrMethod(f, "tileForIndex")
			if fd == nil {
				die("sumdb/tlog/tile.go: tileForIndex not found")
			}
			var items []string
			for _, st := range fd.Body.List {
				items = append(items, leanStringLit(show(st)))
			}
			fmt.Fprintf(b, "/-- sumdb/tlog/tile.go: the statements of tileForIndex -/\ndef tlog_stmts_tileForIndex : List String := [\n  %s]\n\n", strings.Join(items, ",\n  "))
		}
		// emptyHash
		{
			f := parse("sumdb/tlog/tlog.go")
			v := findValue(f, "emptyHash")
			cl, ok := v.(*ast.CompositeLit)
			if !ok {
				die("sumdb/tlog/tlog.go: emptyHash is not a composite literal")
			}
			var bs []string
			for _, e := range cl.Elts {
				cv := evalConst(f, e, 0)
				n, ok := constant.Uint64Val(cv)
				if !ok || n > 255 {
					die("sumdb/tlog/tlog.go: emptyHash element is not a byte")
				}
				bs = append(bs, strconv.FormatUint(n, 10))
			}
			fmt.Fprintf(b, "/-- sumdb/tlog/tlog.go: emptyHash -/\ndef tlog_emptyHash : List UInt8 := [%s]\n\n", strings.Join(bs, ", "))
		}
		// the domain-separation prefixes of RecordHash / NodeHash
		{
			f := parse("sumdb/tlog/tlog.go")
			v := findValue(f, "zeroPrefix")
			cl, ok := v.(*ast.CompositeLit)
			if !ok || len(cl.Elts) != 1 {
				die("sumdb/tlog/tlog.go: zeroPrefix is not a one-byte literal")
			}
			n, _ := constant.Uint64Val(evalConst(f, cl.Elts[0], 0))
			fmt.Fprintf(b, "/-- sumdb/tlog/tlog.go: zeroPrefix[0] (RecordHash domain separator) -/\ndef tlog_leafPrefix : Nat := %d\n\n", n)
			fd := tlogFindFuncOrMethod(f, "NodeHash")
			if fd == nil {
				die("NodeHash not found")
			}
			found := ""
			ast.Inspect(fd.Body, func(nd ast.Node) bool {
				if as, ok := nd.(*ast.AssignStmt); ok && len(as.Lhs) == 1 && show(as.Lhs[0]) == "buf[0]" {
					found = show(as.Rhs[0])
				}
				return true
			})
			if found == "" {
				die("NodeHash: buf[0] assignment not found")
			}
			nv, err := strconv.ParseUint(found, 0, 8)
			if err != nil {
				die("NodeHash: buf[0] = %s is not a byte literal", found)
			}
			fmt.Fprintf(b, "/-- sumdb/tlog/tlog.go: NodeHash's buf[0] (interior-node domain separator) -/\ndef tlog_nodePrefix : Nat := %d\n\n", nv)
		}
	})
}
