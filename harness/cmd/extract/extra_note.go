package main

// Facts for sumdb/note/note.go (C07): the signature-line cap of Open and the source text of the
// leaf conditions the Lean model transcribes by hand.

import (
	"fmt"
	"go/ast"
	"go/token"
	"strings"
)

func init() {
	extraHooks = append(extraHooks, func(b *strings.Builder) {
		const rel = "sumdb/note/note.go"
		f := parse(rel)
		open := findFunc(f, "Open")
		if open == nil {
			die("%s: Open not found", rel)
		}
		// `if numSig++; numSig > 100 {`
		cap_, ncap := uint64(0), 0
		// `if r < 0x20 && r != '\n' || r == utf8.RuneError && size == 1 {` and the per-line malformed test
		var conds []string
		ast.Inspect(open.Body, func(n ast.Node) bool {
			is, ok := n.(*ast.IfStmt)
			if !ok {
				return true
			}
			if inc, ok := is.Init.(*ast.IncDecStmt); ok && inc.Tok == token.INC && show(inc.X) == "numSig" {
				if be, ok := is.Cond.(*ast.BinaryExpr); ok && be.Op == token.GTR && show(be.X) == "numSig" {
					if v, ok := litNat(be.Y); ok {
						cap_ = v
						ncap++
					}
				}
			}
			if is.Init == nil {
				conds = append(conds, show(is.Cond))
			}
			return true
		})
		if ncap != 1 {
			die("%s: Open: expected exactly one `if numSig++; numSig > N`, found %d", rel, ncap)
		}
		fmt.Fprintf(b, "/-- %s: Open: cap on signature lines (`if numSig++; numSig > N`) -/\ndef note_maxSigs : Nat := %d\n\n", rel, cap_)
		find := func(sub string) string {
			hit := ""
			for _, c := range conds {
				if strings.Contains(c, sub) {
					if hit != "" {
						die("%s: Open: two conditions mention %q", rel, sub)
					}
					hit = c
				}
			}
			if hit == "" {
				die("%s: Open: no condition mentions %q", rel, sub)
			}
			return hit
		}
		ctl := find("utf8.RuneError")
		fmt.Fprintf(b, "/-- %s: Open: the per-rune rejection test -/\ndef note_Open_runeCheck_expr : List UInt8 := %s\n\n", rel, leanStr(ctl))
		line := find("isValidName(name)")
		fmt.Fprintf(b, "/-- %s: Open: the per-line malformed test -/\ndef note_Open_lineCheck_expr : List UInt8 := %s\n\n", rel, leanStr(line))
		// isValidName: single return expression
		fd := findFunc(f, "isValidName")
		if fd == nil || len(fd.Body.List) != 1 {
			die("%s: isValidName is not a single statement", rel)
		}
		ret, ok := fd.Body.List[0].(*ast.ReturnStmt)
		if !ok || len(ret.Results) != 1 {
			die("%s: isValidName is not a single return", rel)
		}
		fmt.Fprintf(b, "/-- %s: the expression returned by isValidName -/\ndef note_isValidName_expr : List UInt8 := %s\n\n", rel, leanStr(show(ret.Results[0])))
	})
}
