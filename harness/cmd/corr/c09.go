package main

// C09 — the log's tree hash and stored-hash layout are exactly RFC 6962 for every log; text codecs.

import (
	"bytes"
	"crypto/sha256"
	"encoding/hex"
	"fmt"
	"strings"
	"unicode/utf8"

	"golang.org/x/mod/sumdb/tlog"
)

func init() {
	impls["tlog.sha256"] = func(a []string) string {
		h := sha256.Sum256([]byte(unhx(a[0])))
		return hex.EncodeToString(h[:])
	}
	impls["tlog.recordhash"] = func(a []string) string { return tlogHashHex(tlog.RecordHash([]byte(unhx(a[0])))) }
	impls["tlog.nodehash"] = func(a []string) string { return tlogHashHex(tlog.NodeHash(tlogHash(a[0]), tlogHash(a[1]))) }
	impls["tlog.storedhashindex"] = func(a []string) string { return i64toa(tlog.StoredHashIndex(atoi(a[0]), tlogI64(a[1]))) }
	impls["tlog.splitstoredhashindex"] = func(a []string) string {
		l, n := tlog.SplitStoredHashIndex(tlogI64(a[0]))
		return fmt.Sprintf("%d %d", l, n)
	}
	impls["tlog.storedhashcount"] = func(a []string) string { return i64toa(tlog.StoredHashCount(tlogI64(a[0]))) }
	impls["tlog.storedhashes"] = func(a []string) string {
		st, err := tlogBuild(tlogRecords(a[0]))
		if err != nil {
			return tlogErr(err)
		}
		return tlogHashesHex(st)
	}
	impls["tlog.treehash"] = func(a []string) string {
		st, err := tlogBuild(tlogRecords(a[1]))
		if err != nil {
			return tlogErr(err)
		}
		h, err := tlog.TreeHash(tlogI64(a[0]), st)
		if err != nil {
			return tlogErr(err)
		}
		return tlogHashHex(h)
	}
	impls["tlog.formattree"] = func(a []string) string {
		return hx(string(tlog.FormatTree(tlog.Tree{N: tlogI64(a[0]), Hash: tlogHash(a[1])})))
	}
	impls["tlog.parsetree"] = func(a []string) string {
		t, err := tlog.ParseTree([]byte(unhx(a[0])))
		if err != nil {
			return "err"
		}
		return fmt.Sprintf("%d %s", t.N, tlogHashHex(t.Hash))
	}
	impls["tlog.formatrecord"] = func(a []string) string {
		m, err := tlog.FormatRecord(tlogI64(a[0]), []byte(unhx(a[1])))
		if err != nil {
			return "err"
		}
		return hx(string(m))
	}
	impls["tlog.parserecord"] = func(a []string) string {
		id, text, rest, err := tlog.ParseRecord([]byte(unhx(a[0])))
		if err != nil {
			return "err"
		}
		return fmt.Sprintf("%d %s %s", id, hx(string(text)), hx(string(rest)))
	}
	impls["tlog.parsehash"] = func(a []string) string {
		h, err := tlog.ParseHash(unhx(a[0]))
		if err != nil {
			return "err"
		}
		return tlogHashHex(h)
	}
	impls["tlog.hashstring"] = func(a []string) string { return hx(tlogHash(a[0]).String()) }
	impls["tlog.marshaljson"] = func(a []string) string {
		b, _ := tlogHash(a[0]).MarshalJSON()
		return hx(string(b))
	}
	impls["tlog.unmarshaljson"] = func(a []string) string {
		var h tlog.Hash
		if err := h.UnmarshalJSON([]byte(unhx(a[0]))); err != nil {
			return "err"
		}
		return tlogHashHex(h)
	}
	// the independent specification (lean/ModVerif/Spec/RFC6962.lean): MTH against this harness's own recursion,
	// the layout against the real SplitStoredHashIndex over a dense store
	impls["tlog.specmth"] = func(a []string) string { return tlogHashHex(rfcMTH(tlogRecords(a[0]))) }
	impls["tlog.speclayout"] = func(a []string) string {
		cnt := tlog.StoredHashCount(tlogI64(a[0]))
		if cnt == 0 {
			return "_"
		}
		out := make([]string, cnt)
		for p := int64(0); p < cnt; p++ {
			l, k := tlog.SplitStoredHashIndex(p)
			out[p] = fmt.Sprintf("%d.%d", l, k)
		}
		return strings.Join(out, ",")
	}
	register(&Prop{ID: "C09", Gen: genC09, Oracle: oracleC09,
		Rule: "record sequences of length 0-64 (thorough 0-400) with synthetic, random and adversarial contents (records that look like interior nodes 0x01||h||h, empty, duplicates): whole store after one-at-a-time appends, tree hash for every m<=n (and m>n: reader error); (level, offset) coordinates up to 2^40 and boundary probes near 2^61/2^62 for index/split/count; the int64 edge of the layout: for every level 0..62 the offsets 2^(62-level)-{2,1} (the last coordinates whose position fits: positions 2^63-64..2^63-2), (0,2^62) -> MaxInt64, every position 2^63-2-k (k<200; not MaxInt64 itself, observation O11), sizes 2^62-{2,1,0}; tree heads, records, hashes and JSON through their text codecs: valid, one mutation from valid, boundary (int64 edges, leading zeros, signs, 1e6 length for tree heads, record messages whose text or remainder is 1e6-1..1e6+1 / 2e6 bytes long and a 1.5 MB run of concatenated records (oracle: every text length and every total length 999990..1000100, 2^16..2^21 +-1, 2e6, 3e6, runs of 1.2 and 2.2 MB parsed record by record), CR/LF inside base64, non-canonical trailing bits, invalid UTF-8, control characters, blank lines) and random; non-trivial = a well-formed input or one mutation from one; distinct by op line"})
}

func c09RandBytes(r *Rand, n int) string {
	b := make([]byte, n)
	for i := range b {
		b[i] = byte(r.U64())
	}
	return string(b)
}

func c09RandHash(r *Rand) tlog.Hash {
	var h tlog.Hash
	copy(h[:], c09RandBytes(r, 32))
	return h
}

// c09Lens: record lengths swept by generator and oracle (SHA-256 block / padding edges, buffer-size edges).
var c09Lens = []int{0, 1, 31, 32, 33, 54, 55, 56, 63, 64, 65, 119, 120, 127, 128, 129, 255, 256, 257, 511, 512, 513,
	1023, 1024, 1025, 4095, 4096, 4097, 65535, 65536}

// c09BoundaryRecord returns a record of one of the boundary lengths (lengths above 1025 only one time in ten).
func c09BoundaryRecord(r *Rand) string {
	k := 25 // index of 4095
	if r.Chance(10) {
		k = len(c09Lens)
	}
	n := c09Lens[r.Intn(k)]
	if r.Chance(30) {
		return strings.Repeat(string(rune('a'+r.Intn(26))), n)
	}
	return c09RandBytes(r, n)
}

// c09Records returns a record sequence of length n with mixed contents.
func c09Records(r *Rand, n int) []string {
	out := make([]string, n)
	for i := range out {
		switch r.Intn(9) {
		case 8:
			out[i] = c09BoundaryRecord(r)
		case 7:
			out[i] = c09RandBytes(r, r.Intn(700)) // random length
		case 0: // looks like an interior node: 0x01 || h || h
			h := c09RandHash(r)
			out[i] = "\x01" + string(h[:]) + string(h[:])
		case 1:
			out[i] = ""
		case 2:
			if i > 0 {
				out[i] = out[r.Intn(i)] // duplicate record
			} else {
				out[i] = "x"
			}
		case 3:
			out[i] = c09RandBytes(r, r.Intn(120)) // crosses the 55/56/64-byte SHA-256 padding edges
		case 4:
			h := c09RandHash(r)
			out[i] = "\x00" + string(h[:]) // looks like a leaf preimage
		default:
			out[i] = fmt.Sprintf("example.com/m%d v1.%d.0 h1:%s=\n", i, r.Intn(50), r.Bytes(10, "abcdefghijklmnop"))
		}
	}
	return out
}

func c09RecTok(r *Rand, n int) (string, []string) {
	if r.Chance(40) {
		seed := r.Intn(1000)
		return fmt.Sprintf("@%d:%d", seed, n), tlogSynth(seed, n)
	}
	recs := c09Records(r, n)
	return hxList(recs), recs
}

const c09B64 = "ABCDEFGHIJKLMNOPQRSTUVWXYZabcdefghijklmnopqrstuvwxyz0123456789+/"

// c09ValidRunes: scalar values that record text may contain (everything except controls below U+0020):
// U+FFFD itself (EF BF BD, a VALID encoding), DEL, U+0080, the ends of each encoding length, U+10FFFF.
var c09ValidRunes = []rune{0xFFFD, 0x7F, 0x80, 0x20, 0x7E, 0x7FF, 0x800, 0xD7FF, 0xE000, 0xFFFF, 0x10000, 0x10FFFF, 'x', 'y', ' '}

// c09BadPieces: byte sequences that make record text invalid: controls, invalid UTF-8 (lone bytes, surrogate
// encodings, overlongs, beyond U+10FFFF, truncated sequences).
var c09BadPieces = []string{"\x00", "\x01", "\t", "\r", "\x1f", "\xff", "\x80", "\xbf", "\xed\xa0\x80", "\xed\xbf\xbf", "\xc0\x80", "\xc1\xbf",
	"\xe0\x80\x80", "\xf0\x80\x80\x80", "\xf4\x90\x80\x80", "\xf8\x88\x80\x80\x80", "\xe2\x82", "\xf0\x9f\x98", "\xef\xbf", "\n"}

func c09ValidText(r *Rand) string {
	n := 1 + r.Intn(3)
	var b strings.Builder
	for i := 0; i < n; i++ {
		switch r.Intn(7) {
		case 5, 6: // a line over the rune alphabet
			for j := 1 + r.Intn(6); j > 0; j-- {
				b.WriteRune(c09ValidRunes[r.Intn(len(c09ValidRunes))])
			}
		case 0:
			b.WriteString("héllo wörld ☃ \U0001F600")
		case 1:
			b.WriteString(r.Bytes(1+r.Intn(20), "abc xyz/.@-"))
		case 2:
			b.WriteString("� valid replacement char")
		default:
			b.WriteString(fmt.Sprintf("example.com/m v1.%d.0 h1:%s=", r.Intn(9), r.Bytes(8, c09B64)))
		}
		b.WriteString("\n")
	}
	return b.String()
}

const c09TextMut = "\n\n\r\t\x00\x1f\x7f \xff\xc0\x80\xed\xa0\xe2a0-+"

func c09Int64(r *Rand) int64 {
	switch r.Intn(8) {
	case 0:
		return 0
	case 1:
		return int64(r.Intn(10))
	case 2:
		return int64(r.U64() >> 1)
	case 3:
		return -int64(r.U64()>>1) - 1
	case 4:
		return []int64{1<<63 - 1, -1 << 63, -1, 1 << 62, 1<<62 + 1, 999, 1000, 1e18}[r.Intn(8)]
	}
	return int64(r.U64() >> uint(r.Intn(64)))
}

func c09TreeText(r *Rand) (string, bool) {
	h := c09RandHash(r)
	n := c09Int64(r)
	valid := string(tlog.FormatTree(tlog.Tree{N: n, Hash: h}))
	switch r.Intn(12) {
	case 0:
		return mutate(r, valid, c09TextMut+c09B64+"=\n"), true
	case 1: // extra lines are ignored
		return valid + c09ValidText(r), true
	case 2: // number forms
		num := r.Pick([]string{"+5", "-0", "05", "00", " 5", "5 ", "0x10", "1_0", "9223372036854775807", "9223372036854775808", "-1", "", "1e3", "٣"})
		return "go.sum database tree\n" + num + "\n" + h.String() + "\n", true
	case 3: // base64 forms: CR/LF inside, missing padding, non-canonical trailing bits, wrong length
		s := h.String()
		switch r.Intn(6) {
		case 0:
			s = s[:10] + "\r" + s[10:]
		case 1:
			s = s[:43]
		case 2:
			s = s[:42] + string(c09B64[r.Intn(64)]) + "="
		case 3:
			s = s[:40] + "===="[:1+r.Intn(3)]
		case 4:
			s = s + "AAAA"
		case 5:
			s = s[:43] + "\r="
		}
		return fmt.Sprintf("go.sum database tree\n%d\n%s\n", n&(1<<62-1), s), true
	case 4: // too few newlines / wrong prefix
		return r.Pick([]string{"go.sum database tree\n1\n" + h.String(), "go.sum database tree v2\n1\n" + h.String() + "\n", "go.sum database tree\n1", "", "\n\n\n", "go.sum database tree\n\n\n"}), true
	case 5:
		return c09RandBytes(r, r.Intn(60)), false
	}
	return valid, true
}

func c09RecordMsg(r *Rand) (string, bool) {
	id := c09Int64(r)
	text := c09ValidText(r)
	valid := fmt.Sprintf("%d\n%s\n", id, text)
	switch r.Intn(10) {
	case 0:
		return mutate(r, valid, c09TextMut), true
	case 1:
		return valid + c09RandBytes(r, r.Intn(20)), true // arbitrary rest
	case 2:
		return valid + valid, true
	case 3:
		num := r.Pick([]string{"+5", "-0", "05", "", " 5", "9223372036854775808", "-9223372036854775808", "1_0"})
		return num + "\n" + text + "\n", true
	case 4:
		return r.Pick([]string{"1\n\n\n", "1\n\n", "1\n", "1", "", "\n", "\n\n", "1\na", "1\na\n", "1\n\na\n\n", "1\na\n\nb\n\n"}), true
	case 5:
		return c09RandBytes(r, r.Intn(40)), false
	}
	return valid, true
}

func c09RecordText(r *Rand) (string, bool) {
	switch r.Intn(10) {
	case 8, 9: // a valid text with one invalid piece spliced in at a rune boundary or anywhere
		t := c09ValidText(r)
		i := r.Intn(len(t) + 1)
		return t[:i] + c09BadPieces[r.Intn(len(c09BadPieces))] + t[i:], true
	case 0:
		return mutate(r, c09ValidText(r), c09TextMut), true
	case 1:
		return r.Pick([]string{"", "\n", "\n\n", "a", "a\n\n", "\na\n", "a\n\nb\n", "\x7f\n", "\x1f\n", "\t\n", "\xff\n", "\xed\xa0\x80\n", "\xef\xbf\xbd\n", "\xc0\x80\n", "a\r\n", "\xe2\x82\n", "\xf4\x90\x80\x80\n"}), true
	case 2:
		return c09RandBytes(r, r.Intn(30)) + "\n", false
	}
	return c09ValidText(r), true
}

func c09HashText(r *Rand) (string, bool) {
	h := c09RandHash(r)
	s := h.String()
	switch r.Intn(8) {
	case 0:
		return mutate(r, s, c09B64+"=\r\n -_"), true
	case 1:
		return s[:r.Intn(len(s))], true
	case 2:
		i := r.Intn(len(s))
		return s[:i] + r.Pick([]string{"\n", "\r", "\r\n", " "}) + s[i:], true
	case 3:
		return s[:42] + string(c09B64[r.Intn(64)]) + "=", true
	case 4:
		return r.Bytes(r.Intn(50), c09B64+"=="), false
	}
	return s, true
}

func c09JSONText(r *Rand) (string, bool) {
	h := c09RandHash(r)
	b, _ := h.MarshalJSON()
	s := string(b)
	switch r.Intn(8) {
	case 0:
		return mutate(r, s, c09B64+"=\"\r\n "), true
	case 1:
		i := 1 + r.Intn(43)
		return s[:i] + r.Pick([]string{"\n", "\r", "=", "-"}) + s[i+1:], true
	case 2:
		return s[:43] + string(c09B64[r.Intn(64)]) + "=\"", true
	case 3:
		return r.Pick([]string{"", "\"\"", "null", s + " ", " " + s, s[1:], s[:45]}), true
	}
	return s, true
}

func c09Coord(r *Rand) (int, int64) {
	switch r.Intn(6) {
	case 0: // boundary: result just below 2^62
		level := r.Intn(60)
		return level, (int64(1)<<uint(61-level) - 1) - int64(r.Intn(3))
	case 1:
		return r.Intn(12), int64(r.Intn(200))
	case 2:
		level := r.Intn(40)
		return level, int64(r.U64() >> uint(24+level+r.Intn(40-level+1)))
	}
	level := r.Intn(20)
	return level, int64(r.U64() >> uint(64-40+level))
}

func c09Index(r *Rand) int64 {
	switch r.Intn(6) {
	case 0:
		return int64(r.Intn(300))
	case 1: // 2^k ± small
		k := uint(1 + r.Intn(61))
		return int64(1)<<k + int64(r.Intn(5)) - 2
	case 2:
		return int64(1)<<62 - int64(r.Intn(100)) - 1
	}
	return int64(r.U64() >> uint(2+r.Intn(60)))
}

func c09Size(r *Rand) int64 {
	switch r.Intn(5) {
	case 0:
		return int64(r.Intn(300))
	case 1:
		k := uint(1 + r.Intn(60))
		return int64(1)<<k + int64(r.Intn(5)) - 2
	case 2:
		return int64(1)<<61 - int64(r.Intn(3))
	}
	return int64(r.U64() >> uint(3+r.Intn(60)))
}

func genC09(g *Gen, n int) {
	maxLen := 64
	if thorough {
		maxLen = 400
	}
	// fixed vectors first
	g.Emit("tlog.sha256 -", true, "sha")
	g.Emit("tlog.sha256 "+hx("abc"), true, "sha")
	g.Emit("tlog.storedhashes _", true, "store")
	g.Emit("tlog.treehash 0 _", true, "treehash")
	genC09Edge(g) // the int64 edge of the layout: top offsets of every level 0..62, positions up to 2^63-2 (util_c09edge.go)
	for _, L := range c09Lens { // every boundary length: leaf hash, a log containing such records, its tree hash
		d := c09RandBytes(g.Rand, L)
		g.Emit("tlog.recordhash "+hx(d), true, "leaf-boundary")
		g.Emit("tlog.recordhash "+hx(strings.Repeat("a", L)), true, "leaf-boundary")
		recs := hxList([]string{"short\n", d, "x", strings.Repeat("a", L)})
		g.Emit("tlog.storedhashes "+recs, true, "store-boundary")
		if L <= 4097 {
			g.Emit("tlog.treehash 4 "+recs, true, "treehash-boundary")
			g.Emit("tlog.treehash 2 "+recs, true, "treehash-boundary")
		}
	}
	for _, c := range c09ValidRunes { // record text over every rune class
		g.Emit(fmt.Sprintf("tlog.formatrecord 10 %s", hx("x"+string(c)+"y\n")), true, "formatrecord-runes")
		g.Emit("tlog.parserecord "+hx("10\nx"+string(c)+"y\n\n"), true, "parserecord-runes")
	}
	for _, bad := range c09BadPieces {
		g.Emit(fmt.Sprintf("tlog.formatrecord 10 %s", hx("x"+bad+"y\n")), true, "formatrecord-runes")
		g.Emit("tlog.parserecord "+hx("10\nx"+bad+"y\n\n"), true, "parserecord-runes")
	}
	for i := 0; i < n; i++ {
		switch g.Intn(20) {
		case 0:
			k := g.Intn(maxLen + 1)
			if g.Chance(50) {
				k = g.Intn(10)
			}
			tok, _ := c09RecTok(g.Rand, k)
			g.Emit("tlog.storedhashes "+tok, true, "store")
			g.Emit("tlog.specmth "+tok, true, "spec-mth")
			g.Emit(fmt.Sprintf("tlog.speclayout %d", g.Intn(3*maxLen)), true, "spec-layout")
		case 1, 2:
			k := g.Intn(maxLen + 1)
			tok, _ := c09RecTok(g.Rand, k)
			if g.Chance(30) || k > 40 || len(tok) > 16000 {
				m := g.Intn(k + 3) // includes m > n: reader error
				g.Emit(fmt.Sprintf("tlog.treehash %d %s", m, tok), m <= k, "treehash")
			} else {
				for m := 0; m <= k; m++ { // every m <= n
					g.Emit(fmt.Sprintf("tlog.treehash %d %s", m, tok), true, "treehash-all")
					i++
				}
			}
		case 3, 4:
			l, k := c09Coord(g.Rand)
			g.Emit(fmt.Sprintf("tlog.storedhashindex %d %d", l, k), true, "index")
		case 5, 6:
			g.Emit(fmt.Sprintf("tlog.splitstoredhashindex %d", c09Index(g.Rand)), true, "split")
		case 7:
			g.Emit(fmt.Sprintf("tlog.storedhashcount %d", c09Size(g.Rand)), true, "count")
		case 8:
			g.Emit(fmt.Sprintf("tlog.formattree %d %s", c09Int64(g.Rand), tlogHashHex(c09RandHash(g.Rand))), true, "formattree")
		case 9, 10, 11:
			s, nt := c09TreeText(g.Rand)
			g.Emit("tlog.parsetree "+hx(s), nt, "parsetree")
		case 12:
			s, nt := c09RecordText(g.Rand)
			g.Emit(fmt.Sprintf("tlog.formatrecord %d %s", c09Int64(g.Rand), hx(s)), nt, "formatrecord")
		case 13, 14, 15:
			s, nt := c09RecordMsg(g.Rand)
			g.Emit("tlog.parserecord "+hx(s), nt, "parserecord")
		case 16, 17:
			s, nt := c09HashText(g.Rand)
			g.Emit("tlog.parsehash "+hx(s), nt, "parsehash")
		case 18:
			s, nt := c09JSONText(g.Rand)
			g.Emit("tlog.unmarshaljson "+hx(s), nt, "json")
		case 19:
			h := c09RandHash(g.Rand)
			switch g.Intn(4) {
			case 0:
				g.Emit("tlog.hashstring "+tlogHashHex(h), true, "hashstring")
			case 1:
				g.Emit("tlog.marshaljson "+tlogHashHex(h), true, "json")
			case 2:
				d := c09RandBytes(g.Rand, g.Intn(130))
				if g.Chance(50) {
					d = c09BoundaryRecord(g.Rand)
				}
				g.Emit("tlog.recordhash "+hx(d), true, "sha")
			default:
				g.Emit("tlog.nodehash "+tlogHashHex(h)+" "+tlogHashHex(c09RandHash(g.Rand)), true, "sha")
			}
		}
	}
	// a 1e6-byte boundary for ParseTree (len(text) > 1e6 is refused)
	h := c09RandHash(g.Rand)
	base := string(tlog.FormatTree(tlog.Tree{N: 5, Hash: h}))
	for _, total := range []int{1000000, 1000001} {
		g.Emit("tlog.parsetree "+hx(base+strings.Repeat("x", total-len(base))), true, "parsetree-1e6")
	}
	// LARGE record messages (util_c09big.go): a dozen ops of 2-6 MB each, hand model only; own random stream
	genC09Big(g)
}

// ---- oracle: the property itself on the implementation alone

// c09DocValidText: the documented rule for record text, stated independently of the code (doc comment of
// FormatRecord): valid UTF-8, no ASCII control characters below U+0020 other than newline, ends in a
// terminating newline, no blank lines.
func c09DocValidText(text string) bool {
	if !utf8.ValidString(text) || !strings.HasSuffix(text, "\n") {
		return false
	}
	if strings.HasPrefix(text, "\n") || strings.Contains(text, "\n\n") {
		return false
	}
	for _, c := range text {
		if c < 0x20 && c != '\n' {
			return false
		}
	}
	return true
}

// c09LeafOracle: RecordHash is the RFC 6962 leaf hash SHA-256(0x00 || data) (computed here with crypto/sha256
// directly) and near-miss records (a record, its one-byte-shorter prefix, one byte appended) have distinct hashes.
func c09LeafOracle(g *Gen, d string) {
	g.Case("leaf")
	op := "tlog.recordhash " + hx(d)
	got := tlog.RecordHash([]byte(d))
	if got != rfcLeaf(d) {
		g.Fail("RecordHash is not SHA-256(0x00 || data)", fmt.Sprintf("len=%d", len(d)), op)
	}
	near := []string{d + "x", d + "\x00"}
	if len(d) > 0 {
		near = append(near, d[:len(d)-1], d[1:])
	}
	for _, e := range near {
		if e != d && tlog.RecordHash([]byte(e)) == got {
			g.Fail("distinct records have the same RecordHash", fmt.Sprintf("len=%d and len=%d", len(d), len(e)), op, "tlog.recordhash "+hx(e))
		}
	}
}

// c09RecordOracle: every text that is valid by the documented rule is accepted by FormatRecord; whatever
// FormatRecord accepts is returned unchanged by ParseRecord together with the untouched rest; and the
// well-formed message written by hand (id, newline, text, blank line) parses to the same.
func c09RecordOracle(g *Gen, id int64, text, rest string) {
	valid := c09DocValidText(text)
	msg, err := tlog.FormatRecord(id, []byte(text))
	fop := fmt.Sprintf("tlog.formatrecord %d %s", id, hx(text))
	if valid {
		g.Case("codec-valid-text")
		if err != nil {
			g.Fail("FormatRecord rejects a record text that is valid by the documented rule", "text="+c09Abbrev(text), fop)
		}
		hand := fmt.Sprintf("%d\n%s\n%s", id, text, rest)
		id2, text2, rest2, err2 := tlog.ParseRecord([]byte(hand))
		if err2 != nil || id2 != id || string(text2) != text || string(rest2) != rest {
			g.Fail("ParseRecord does not return a well-formed record with valid text unchanged", fmt.Sprintf("id=%d text=%s rest=%s err=%v", id, c09Abbrev(text), c09Abbrev(rest), err2), "tlog.parserecord "+hx(hand))
		}
	} else {
		g.Case("codec-invalid-text")
	}
	if err == nil {
		id2, text2, rest2, err2 := tlog.ParseRecord(append(append([]byte{}, msg...), rest...))
		if err2 != nil || id2 != id || !bytes.Equal(text2, []byte(text)) || !bytes.Equal(rest2, []byte(rest)) {
			g.Fail("ParseRecord(FormatRecord(id,text)+rest) != (id,text,rest)", fmt.Sprintf("id=%d text=%s rest=%s err=%v", id, c09Abbrev(text), c09Abbrev(rest), err2), fop, "tlog.parserecord "+hx(string(msg)+rest))
		}
	}
}


func oracleC09(g *Gen, n int) {
	maxLen := 96
	if thorough {
		maxLen = 700
	}
	// (00) the int64 edge of the layout against the first-principles formula (util_c09edge.go; deterministic)
	c09EdgeOracle(g)
	// (01) LARGE record messages: texts and remainders around 1e6 / 2^k bytes and beyond, long runs of concatenated
	// records (util_c09big.go; own random stream, the streams below do not shift)
	c09BigOracle(g)
	// (0) every boundary length: leaf hash, near-miss pairs, and a small log containing such a record
	var sweep [][]string
	for _, L := range c09Lens {
		for _, d := range []string{strings.Repeat("a", L), c09RandBytes(g.Rand, L)} {
			c09LeafOracle(g, d)
			sweep = append(sweep, []string{"short\n", d, c09RandBytes(g.Rand, 5), d + "x"})
		}
	}
	// the documented example texts of every rune class, through FormatRecord / ParseRecord
	for _, c := range c09ValidRunes {
		c09RecordOracle(g, 10, "x"+string(c)+"y\n", "")
	}
	for _, bad := range c09BadPieces {
		c09RecordOracle(g, 10, "x"+bad+"y\n", "")
	}
	// (0b) histories on ONE store read through an aliasing HashReader (util_c09alias.go), exhaustive on a small
	// synthetic log: the sizes 2^j+1 (two adjacent store positions) up to 33 (thorough: 129) are all inside
	hist, histFailed := 0, 0
	if thorough {
		hist = c09SmallScopeHistories(g, 1+g.Intn(900), 130)
	} else {
		hist = c09SmallScopeHistories(g, 1+g.Intn(900), 34)
	}
	for i := hist; i < n; { // one case per history
		// (1) append records one at a time; layout, stored hashes, count, tree hashes
		k := g.Intn(maxLen + 1)
		recs := c09Records(g.Rand, k)
		if len(sweep) > 0 {
			recs, sweep = sweep[0], sweep[1:]
			k = len(recs)
		}
		for _, d := range recs {
			if g.Chance(20) {
				c09LeafOracle(g, d)
			}
		}
		tok := hxList(recs)
		st, err := tlogBuild(recs)
		if err != nil {
			g.Fail("StoredHashes failed on a dense store", err.Error(), "tlog.storedhashes "+tok)
			continue
		}
		g.Case("log")
		i++
		if int64(len(st)) != tlog.StoredHashCount(int64(k)) {
			g.Fail("store length after n records differs from StoredHashCount(n)", fmt.Sprintf("n=%d len=%d count=%d", k, len(st), tlog.StoredHashCount(int64(k))), "tlog.storedhashes "+tok, fmt.Sprintf("tlog.storedhashcount %d", k))
		}
		// every position p < len(store): Split is defined, Index inverts it, the subtree is complete and inside the log,
		// and the stored hash is the RFC 6962 hash of that complete subtree
		seen := map[[2]int64]bool{}
		for p := range st {
			l, off := tlog.SplitStoredHashIndex(int64(p))
			g.Case("position")
			i++
			if tlog.StoredHashIndex(l, off) != int64(p) {
				g.Fail("StoredHashIndex(SplitStoredHashIndex(p)) != p", fmt.Sprintf("p=%d -> (%d,%d)", p, l, off), fmt.Sprintf("tlog.splitstoredhashindex %d", p), fmt.Sprintf("tlog.storedhashindex %d %d", l, off))
			}
			if l < 0 || off < 0 || (off+1)<<uint(l) > int64(k) {
				g.Fail("stored position does not name a complete subtree of the log", fmt.Sprintf("n=%d p=%d -> (%d,%d)", k, p, l, off), fmt.Sprintf("tlog.splitstoredhashindex %d", p))
				continue
			}
			seen[[2]int64{int64(l), off}] = true
			want := rfcMTH(recs[off<<uint(l) : (off+1)<<uint(l)])
			if st[p] != want {
				g.Fail("stored hash is not the RFC 6962 hash of its complete subtree", fmt.Sprintf("n=%d p=%d (%d,%d)", k, p, l, off), "tlog.storedhashes "+tok)
			}
		}
		// onto: every complete subtree of the log has a position below the count
		for l := 0; 1<<uint(l) <= k; l++ {
			for off := 0; (off+1)<<uint(l) <= k; off++ {
				p := tlog.StoredHashIndex(l, int64(off))
				if p < 0 || p >= int64(len(st)) || !seen[[2]int64{int64(l), int64(off)}] {
					g.Fail("a complete subtree of the log has no position in the dense store", fmt.Sprintf("n=%d (%d,%d) -> %d", k, l, off, p), fmt.Sprintf("tlog.storedhashindex %d %d", l, off))
				}
			}
		}
		step := 1
		if k > 150 {
			step = 7
		}
		for m := 0; m <= k; m += step {
			th, err := tlog.TreeHash(int64(m), st)
			g.Case("treehash")
			i++
			if err != nil || th != rfcMTH(recs[:m]) {
				g.Fail("TreeHash(m) is not the RFC 6962 Merkle tree hash of the first m records", fmt.Sprintf("n=%d m=%d err=%v", k, m, err), fmt.Sprintf("tlog.treehash %d %s", m, tok))
			}
		}
		// (1b) the same log as a HISTORY: appends interleaved with TreeHash / ProveRecord / ProveTree / plain reads on
		// one store through a zero-copy and through a memoising reader; after every step the store still equals st
		// (verified position by position above) and every TreeHash(m) is still the RFC 6962 hash
		hl := c09NewHist(tok, recs, st)
		for _, mode := range []byte{'z', 'm'} {
			steps := c09GenHistory(g.Rand, k) // drawn even when not run, so that the rest of the stream does not shift
			if histFailed >= 3 {              // enough failing histories reported (each one is shrunk, which costs re-runs)
				continue
			}
			g.Case("history")
			i++
			if !c09CheckHistory(g, hl, mode, steps) {
				histFailed++
			}
		}
		for j := 0; j < 40; j++ {
			l, off := c09Coord(g.Rand)
			p := tlog.StoredHashIndex(l, off)
			l2, off2 := tlog.SplitStoredHashIndex(p)
			g.Case("coord")
			i++
			if l2 != l || off2 != off {
				g.Fail("SplitStoredHashIndex(StoredHashIndex(l,k)) != (l,k)", fmt.Sprintf("(%d,%d) -> %d -> (%d,%d)", l, off, p, l2, off2), fmt.Sprintf("tlog.storedhashindex %d %d", l, off), fmt.Sprintf("tlog.splitstoredhashindex %d", p))
			}
			x := c09Index(g.Rand)
			l3, off3 := tlog.SplitStoredHashIndex(x)
			if tlog.StoredHashIndex(l3, off3) != x {
				g.Fail("StoredHashIndex(SplitStoredHashIndex(p)) != p", fmt.Sprintf("p=%d -> (%d,%d)", x, l3, off3), fmt.Sprintf("tlog.splitstoredhashindex %d", x))
			}
			// count is the position of the next record's leaf hash
			sz := c09Size(g.Rand)
			if tlog.StoredHashCount(sz) != tlog.StoredHashIndex(0, sz) {
				g.Fail("StoredHashCount(n) != StoredHashIndex(0, n)", fmt.Sprintf("n=%d", sz), fmt.Sprintf("tlog.storedhashcount %d", sz), fmt.Sprintf("tlog.storedhashindex 0 %d", sz))
			}
		}
		// (3) text encodings
		for j := 0; j < 40; j++ {
			g.Case("codec")
			i++
			h := c09RandHash(g.Rand)
			nn := c09Int64(g.Rand)
			if nn < 0 {
				nn = -(nn + 1)
			}
			tr := tlog.Tree{N: nn, Hash: h}
			enc := tlog.FormatTree(tr)
			if g.Chance(30) {
				enc = append(enc, c09ValidText(g.Rand)...) // later lines are ignored
			}
			back, err := tlog.ParseTree(enc)
			if err != nil || back != tr {
				g.Fail("ParseTree(FormatTree(t)) != t", fmt.Sprintf("N=%d err=%v", nn, err), fmt.Sprintf("tlog.formattree %d %s", nn, tlogHashHex(h)), "tlog.parsetree "+hx(string(enc)))
			}
			id := c09Int64(g.Rand)
			text, _ := c09RecordText(g.Rand)
			rest := ""
			if g.Chance(50) {
				rest = c09RandBytes(g.Rand, g.Intn(30))
			}
			c09RecordOracle(g, id, text, rest)
			h2, err := tlog.ParseHash(h.String())
			if err != nil || h2 != h {
				g.Fail("ParseHash(h.String()) != h", tlogHashHex(h), "tlog.hashstring "+tlogHashHex(h), "tlog.parsehash "+hx(h.String()))
			}
			js, _ := h.MarshalJSON()
			var h3 tlog.Hash
			if err := h3.UnmarshalJSON(js); err != nil || h3 != h {
				g.Fail("UnmarshalJSON(MarshalJSON(h)) != h", tlogHashHex(h), "tlog.marshaljson "+tlogHashHex(h), "tlog.unmarshaljson "+hx(string(js)))
			}
		}
	}
}
