package main

// util_c13foreign.go — C13: a long-lived client whose shared configuration file is changed BY ANOTHER PARTY to a head it
// cannot merge, and which then goes on advancing its own head.
//
// Input class (added because it was missing: in every scenario of c13.go the stored head a client fails to reconcile
// with is met exactly ONCE — the fork shapes stop presenting new heads after the first failed flush (the follow-up
// lookups are the /go.mod line of the same file, i.e. a replayed result, or carry the SAME head again, which the
// in-memory merge answers "present" without going to the configuration), the multi-fork shapes present the forked heads
// to the in-memory head and never reach the flush, and the stale-flush shapes only ever meet stored heads that can be
// merged.  So "the flush loop of mergeLatest re-reads and re-verifies the configuration EVERY time it is about to
// overwrite it" was only exercised for first encounters).  A history of this class has three parts on ONE client
// instance:
//
//	(1) the client (log A) completes a lookup, then another party — a second client on the shared configuration with its
//	    own cache, or the scenario writing the file directly — moves the stored head to something this client cannot
//	    merge:  fork     a validly signed head of the fork B beyond the common prefix;
//	            ahead    a head of A itself that is AHEAD of the server the client talks to (that server cannot supply
//	                     the tiles: unverifiable at that moment because of a read fault), or verifiable only while a
//	                     tile fault is switched off;
//	            unsigned a head signed with a key the client does not know;
//	(2) a lookup carrying a newer head of the client's own log: the in-memory head advances, the flush fails on the
//	    stored head (security error, tile error, remote error, note error — whatever the fault of the moment gives);
//	(3) FURTHER lookups, each for another record and each carrying a still newer head of the client's own log, while the
//	    file still holds those bytes; faults are switched on and off between them (more than one fault per history); the
//	    history does not stop at the first security error.  Then the honest full server, and a restart.
//
// Every head presented to the long-lived client is strictly larger than every head presented to it before, so each of
// its lookups goes through the flush loop (no lookup is answered from the in-memory head alone: the recorded
// no-rollback finding, whose shape is "a later lookup AT OR BELOW the advanced in-memory head", cannot arise here).
//
// Oracle clause (c13CheckOverwrite): the client never overwrites a configuration head it has not verified to be in its
// own past — every successful WriteConfig of a client replaces a value that is empty or a validly signed head contained
// (prefix order of the true logs) in the head written; and a lookup that advanced the client's head and succeeded leaves
// a stored head that contains the head it presented.  The timeline and fork clauses (util_cloracle.go, c13CheckFork)
// apply unchanged.

import (
	"fmt"
	"strings"

	"golang.org/x/mod/sumdb/tlog"
)

// c13CheckOverwrite: see the file comment.  Exact for any client on which the property holds: mergeLatest writes the
// configuration only after mergeLatestMem(old value) answered "past", i.e. after the old value was opened under the
// configured key and checkTrees(old, in-memory head) succeeded, and what it writes is the in-memory head; a lookup that
// carried a head newer than the in-memory one returns ok only after the flush loop ended with the stored head verified
// to be the in-memory head or ahead of it (sequential lookups: nobody else writes in between).
func c13CheckOverwrite(g *Gen, out *clOutcome) []clFinding {
	var fs []clFinding
	w := out.w
	for _, ev := range out.env.trace {
		if ev.C < 0 || ev.Kind != "wf" || ev.Err != "" || ev.File != clName+"/latest" {
			continue
		}
		g.st.OracleTags["config-overwrite"]++
		nw := w.classifyHead(ev.Data)
		if len(ev.Old) == 0 {
			continue
		}
		old := w.classifyHead(ev.Old)
		switch {
		case !old.valid:
			fs = append(fs, clFinding{"C13 stored head overwritten although it is not validly signed (never verified to be in the client's past)", fmt.Sprintf("client %d", ev.C)})
		case !nw.valid || !w.prefixOf(old, nw):
			fs = append(fs, clFinding{"C13 stored head overwritten by a head that does not contain it (never verified to be in the client's past)", fmt.Sprintf("client %d: %d -> %d", ev.C, old.n, nw.n)})
		}
	}
	for _, lk := range out.looks {
		if lk.g != "s" || lk.kind != "ok" || lk.from > lk.to || lk.to > len(out.env.trace) {
			continue
		}
		remote, ok := clLookupFile(lk.path, lk.vers)
		if !ok {
			continue
		}
		var presented []byte
		for _, ev := range out.env.trace[lk.from:lk.to] {
			if ev.C == lk.c && ev.Err == "" && ((ev.Kind == "rc" && ev.File == clName+remote) || (ev.Kind == "rr" && ev.File == remote)) {
				if _, _, rest, err := tlog.ParseRecord(ev.Data); err == nil {
					presented = rest
				}
			}
		}
		if len(presented) == 0 {
			continue // replayed result
		}
		ph := w.classifyHead(presented)
		if !ph.valid || ph.n <= lk.memN0 {
			continue // not an advance of this client's head
		}
		g.st.OracleTags["accepted-advance"]++
		if st := w.classifyHead(lk.cfg1); !st.valid || !w.prefixOf(ph, st) {
			fs = append(fs, clFinding{"C13 lookup that advanced the client's head succeeded but the stored head it leaves does not contain that head", lk.key})
		}
	}
	return fs
}

// c13IncSizes returns k strictly increasing sizes drawn from lo+1 .. hi (fewer when the range is shorter).
func c13IncSizes(g *Rand, lo, hi, k int) []int {
	var pool []int
	for x := lo + 1; x <= hi; x++ {
		pool = append(pool, x)
	}
	for len(pool) > k {
		i := g.Intn(len(pool))
		pool = append(pool[:i], pool[i+1:]...)
	}
	return pool
}

// c13ForeignHeadCases: see the file comment.  Small-scope sweep over (tile height, |A|, common prefix p) with the three
// kinds of foreign head, both ways of installing it, 2–4 further advances and random faults between them.
// short: exactly two further advances and no tail (for trace validation, see c13GenForeignTraces).
func c13ForeignHeadCases(g *Rand, short bool) []c13Case {
	maxN, heights, reps := 9, []int{1, 2, 4}, 1
	if thorough {
		maxN, heights, reps = 24, []int{1, 2, 3, 5, 8}, 2
	}
	wseed := g.U64()%1000 + 1
	var cases []c13Case
	faults := []string{"f+=T*/err", "f+=T*/err", "f+=L/err", "f+=T*/flip/3.1", "f+=T0.0/err"}
	for _, h := range heights {
		for nA := 4; nA <= maxN; nA++ {
			for p := 1; p <= nA-2; p++ {
				if thorough && nA > 12 && g.Intn(nA/4) != 0 {
					continue
				}
				for rep := 0; rep < reps; rep++ {
					nB := p + 1 + g.Intn(4)
					head := fmt.Sprintf("client.run w=%d:%d:%d:%d h=%d", wseed, nA, p, nB, h)
					for _, kind := range []string{"fork", "fork", "ahead", "unsigned"} {
						// (1) the long-lived client's first lookup, then the foreign head
						var a0, top int // top: the advances stay at or below it
						var foreign, mode string
						switch kind {
						case "fork":
							a0, top = 1+g.Intn(p), nA
							b := p + 1 + g.Intn(nB-p)
							if g.Intn(2) == 0 {
								mode = "client2"
								foreign = fmt.Sprintf("srvc=1:B@%d new=1:1 look=1:B%d", b, g.Intn(b))
							} else {
								mode = "direct"
								foreign = fmt.Sprintf("cfg=B@%d", b)
							}
						case "ahead":
							// stored head A@m, the client's server stays strictly behind it
							m := 4 + g.Intn(nA-3) // 4 .. nA
							a0, top = 1+g.Intn(m-3), m-1
							switch g.Intn(3) {
							case 0:
								mode = "client2"
								foreign = fmt.Sprintf("srvc=1:A@%d new=1:1 look=1:A%d", m, g.Intn(m))
							case 1:
								mode = "client2-shared-cache" // the tiles of A@m are in the client's own cache: it CAN merge
								foreign = fmt.Sprintf("srvc=1:A@%d new=1:0 look=1:A%d", m, m-1)
							default:
								mode = "direct"
								foreign = fmt.Sprintf("cfg=A@%d", m)
							}
						case "unsigned":
							a0, top = 1+g.Intn(nA-2), nA
							mode = "direct"
							foreign = fmt.Sprintf("cfg=F%d@%d", g.Intn(nA), 1+g.Intn(nA))
						}
						steps := []string{head, fmt.Sprintf("srv=A@%d new=0 look=0:A%d", a0, g.Intn(a0)), foreign}
						// (2)+(3) further advances of the same client, each for a fresh record (record a-1 is new in A@a)
						lo := a0
						if kind == "fork" && g.Intn(4) != 0 && p < top-1 {
							lo = p // beyond the common prefix from the first advance on
						}
						k := 2 + g.Intn(3)
						if short {
							k = 2
						}
						as := c13IncSizes(g, lo, top, k)
						if len(as) < 2 {
							continue
						}
						nf := 0
						for _, a := range as {
							srv := fmt.Sprintf("srv=A@%d", a)
							switch g.Intn(8) {
							case 0:
								srv = fmt.Sprintf("srv=A@%d,A@%d", a, nA) // tiles from the full log
							case 1:
								srv = fmt.Sprintf("srv=A@%d,B@%d", a, nB) // tiles from the fork
							}
							steps = append(steps, srv)
							faulty := g.Intn(3) == 0
							if faulty {
								steps = append(steps, faults[g.Intn(len(faults))])
								nf++
							}
							steps = append(steps, fmt.Sprintf("look=0:A%d", a-1))
							if faulty && g.Intn(3) != 0 {
								steps = append(steps, "f-=")
							}
						}
						// the honest full server again (a fresh record only if the log is longer than the last advance), a restart
						if !short {
							steps = append(steps, "f-=", fmt.Sprintf("srv=A@%d", nA))
							if last := as[len(as)-1]; last < nA {
								steps = append(steps, fmt.Sprintf("look=0:A%d", nA-1))
							}
							steps = append(steps, "new=0", fmt.Sprintf("look=0:A%d", g.Intn(nA)))
						}
						fl := "nofault"
						if nf == 1 {
							fl = "fault"
						} else if nf > 1 {
							fl = "faults"
						}
						cases = append(cases, c13Case{strings.Join(steps, " "), fmt.Sprintf("foreign/%s/%s/%s", kind, mode, fl)})
					}
				}
			}
		}
	}
	return cases
}

// c13GenForeignTraces: trace validation (the `client.trace` op, Lean latest-head machine) of real runs of the histories
// above in which the foreign head is installed by a second CLIENT (a scenario that writes the configuration directly
// after clients started cannot be expressed as a trace of the machine).  Own random stream, so that the stream of the
// other generators and of the oracle is unchanged; quick-tier bounds and the short form of the histories in every tier
// (traces are validated by a search).
func c13GenForeignTraces(g *Gen, n int) {
	if n <= 0 {
		return
	}
	saved := thorough
	thorough = false
	defer func() { thorough = saved }()
	r := &Rand{s: g.st.Seed*0x9e3779b97f4a7c15 + 0xf02e19}
	var cases []c13Case
	for _, c := range c13ForeignHeadCases(r, true) {
		if strings.Contains(c.tag, "/client2") {
			cases = append(cases, c)
		}
	}
	want := n/8 + 1
	stride := (len(cases) + want - 1) / want
	if stride < 1 {
		stride = 1
	}
	off := r.Intn(stride)
	for i, c := range cases {
		if i%stride != off {
			continue
		}
		sc, ok := clParseScenario(strings.Fields(c.line)[1:])
		if !ok {
			continue
		}
		out := clRunScenario(sc)
		if out.bad || out.hang {
			continue
		}
		l, ok := clLatestTrace(out, true)
		if !ok {
			g.st.Tags["trace-not-expressible"]++
			continue
		}
		// a sequential lookup that fails leaves its thread of the machine open (the operation log has no return event
		// for it) and the validation search is exponential in the number of open threads: the short histories have two
		// on a correct client; anything wider (a changed client can fail more often) is left to the oracle
		fl := strings.Fields(l)
		open := 0
		for _, e := range strings.Split(fl[len(fl)-1], ",") {
			switch {
			case strings.HasPrefix(e, "b."):
				open++
			case strings.HasPrefix(e, "e."):
				open--
			}
		}
		if open > 2 {
			g.st.Tags["trace/foreign-too-wide-not-emitted"]++
			continue
		}
		g.Emit(l, true, "trace/foreign", "trace/"+strings.Join(strings.Split(c.tag, "/")[:2], "/"))
	}
}
