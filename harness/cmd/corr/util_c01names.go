package main

// util_c01names.go — CLASS "legal non-ASCII key names" (used by C01).
//
// The key name of the server (the `key` configuration entry, NewVerifier) and the key names on the signature lines of a
// tree head (the server's own line and the lines of co-signing witnesses the client does not know) are, by the
// documentation of sumdb/note, any non-empty valid UTF-8 string without Unicode spaces, without `+` and without ASCII
// control characters.  An honest server with such a name is an honest server: the honest clause of C01 ("an honest
// server and honest cache never cause a failure") is quantified over it, and a head that additionally carries the
// signature of a witness with such a name is an honest head.
//
// Why it was missing: every world of util_client.go has the one ASCII name `verif.example/sumdb`, and the witnesses of
// util_clsigs.go are `witness<i>.example/cosig`; no byte >= 0x80 ever occurred in a key name, so anything in the
// client/note layer that looks at a name byte-wise instead of rune-wise (or the other way round) was invisible.
//
// What is swept: for EVERY continuation byte b in 0x80..0xBF a character whose UTF-8 encoding contains b, in every
// position a continuation byte can take (2-byte C2 b / C3 b, 3-byte E6 b A1 / E6 A1 b, 4-byte F0 9F b 80 / F0 9F 98 b),
// placed at the start, in the middle and at the end of the name; characters that ARE Unicode spaces (U+0085, U+00A0 …,
// by the standard library's unicode.IsSpace) are left out — those names are not legal.
//
// The name is a property of the world's signing key, and the library's own NewSigner/Sign consult the same name check
// as the client, so nothing here goes through them: the key pair is made with crypto/ed25519, the verifier key and the
// signature lines are laid out by hand following the documented format (`<name>+<hash>+<base64(alg ‖ key)>`,
// `— <name> <base64(hash ‖ sig)>`), and the log is served by the real sumdb.Server over a ServerOps of this file.
// Everything is honest: true log, true tiles, genuine signatures, a cache and a configuration that return what was
// written.  Two client instances per run (the second one restarts on what the first persisted, against the grown log);
// each instance is recorded as a replay session (`client.lookup`, util_clreplay.go), which is both the replayable
// failing input of the oracle and an op of the correspondence with the Lean model.

import (
	"bytes"
	"context"
	"crypto/ed25519"
	"crypto/sha256"
	"encoding/base64"
	"encoding/binary"
	"errors"
	"fmt"
	"net/http"
	"net/http/httptest"
	"net/url"
	"os"
	"strings"
	"sync"
	"unicode"
	"unicode/utf8"

	"golang.org/x/mod/module"
	"golang.org/x/mod/sumdb"
	"golang.org/x/mod/sumdb/tlog"
)

// c01NameLegal: the documented condition on a key name (sumdb/note: "non-empty, no Unicode spaces, pluses, or ASCII
// control characters", well-formed UTF-8), stated with the standard library only.
func c01NameLegal(name string) bool {
	if name == "" || !utf8.ValidString(name) {
		return false
	}
	for _, r := range name {
		if unicode.IsSpace(r) || r == '+' || r < 0x20 || r == 0x7f {
			return false
		}
	}
	return true
}

var c01NameShapes = []string{"2a", "2b", "3a", "3b", "4a", "4b"}

// c01NameChar: the character of the given shape whose encoding contains the continuation byte b.
func c01NameChar(shape string, b byte) string {
	switch shape {
	case "2a":
		return string([]byte{0xC2, b})
	case "2b":
		return string([]byte{0xC3, b})
	case "3a":
		return string([]byte{0xE6, b, 0xA1})
	case "3b":
		return string([]byte{0xE6, 0xA1, b})
	case "4a":
		return string([]byte{0xF0, 0x9F, b, 0x80})
	}
	return string([]byte{0xF0, 0x9F, 0x98, b})
}

// c01NameOf: a key name built around the character, at the start / in the middle / at the end.
func c01NameOf(ch string, place int) string {
	switch place % 3 {
	case 0:
		return "sumdb.voil" + ch + ".example"
	case 1:
		return ch + "rhus.example/sumdb"
	}
	return "sum.example/db-" + ch
}

// c01Names: the legal names of the sweep for continuation byte b, with the shape of the character.
func c01Names(b byte) (names, shapes []string) {
	for i, sh := range c01NameShapes {
		n := c01NameOf(c01NameChar(sh, b), int(b)+i)
		if c01NameLegal(n) {
			names = append(names, n)
			shapes = append(shapes, sh)
		}
	}
	return names, shapes
}

// ---------------------------------------------------------------------------------------------
// hand-made note keys

type c01NameKey struct {
	name string
	priv ed25519.PrivateKey
	hash uint32
	vkey string
}

func c01NameMakeKey(seed uint64, name string) *c01NameKey {
	r := &Rand{s: seed*0x9e3779b97f4a7c15 + 0x6e616d65}
	pub, priv, err := ed25519.GenerateKey(clDetReader{r})
	if err != nil {
		panic(err)
	}
	pubkey := append([]byte{1}, pub...) // algorithm 1 = Ed25519
	h := sha256.New()
	h.Write([]byte(name))
	h.Write([]byte("\n"))
	h.Write(pubkey)
	k := &c01NameKey{name: name, priv: priv, hash: binary.BigEndian.Uint32(h.Sum(nil))}
	k.vkey = fmt.Sprintf("%s+%08x+%s", name, k.hash, base64.StdEncoding.EncodeToString(pubkey))
	return k
}

func (k *c01NameKey) sigLine(text []byte) []byte {
	var hbuf [4]byte
	binary.BigEndian.PutUint32(hbuf[:], k.hash)
	sig := ed25519.Sign(k.priv, text)
	return []byte("— " + k.name + " " + base64.StdEncoding.EncodeToString(append(hbuf[:], sig...)) + "\n")
}

var c01NameWitMu sync.Mutex
var c01NameWits = map[string]*c01NameKey{}

// c01NameWitnessLine: the signature line over text of the witness with the given (non-ASCII) name; used by the
// `sigs/<k>.u<hh>` mutation of util_clsigs.go.
func c01NameWitnessLine(name string, text []byte) []byte {
	c01NameWitMu.Lock()
	k := c01NameWits[name]
	if k == nil {
		h := sha256.Sum256([]byte("c01-witness|" + name)) // the key depends on the name only: scenario lines replay identically
		k = c01NameMakeKey(binary.BigEndian.Uint64(h[:8]), name)
		c01NameWits[name] = k
	}
	c01NameWitMu.Unlock()
	return k.sigLine(text)
}

// c01NameWitnessName: the i-th witness name for continuation byte b (legal by construction; "" when the character of
// that shape is a Unicode space).
func c01NameWitnessName(b byte, i int) string {
	for d := 0; d < len(c01NameShapes); d++ {
		ch := c01NameChar(c01NameShapes[(i+d)%len(c01NameShapes)], b)
		n := fmt.Sprintf("witness%d.%s.example/cosig", i, ch)
		if c01NameLegal(n) {
			return n
		}
	}
	return ""
}

// ---------------------------------------------------------------------------------------------
// the honest server: real sumdb.Server over the first n records of a true log, heads signed by hand

type c01NameSrv struct {
	log   *clLog
	n     int
	key   *c01NameKey
	cosig []*c01NameKey // witnesses whose lines follow the server's
	pre   bool          // witness lines BEFORE the server's
}

func (s *c01NameSrv) Signed(ctx context.Context) ([]byte, error) {
	th, ok := s.log.treeHash(int64(s.n))
	if !ok {
		return nil, errors.New("c01names: no tree hash")
	}
	text := tlog.FormatTree(tlog.Tree{N: int64(s.n), Hash: th})
	var own, wit []byte
	own = s.key.sigLine(text)
	for _, k := range s.cosig {
		wit = append(wit, k.sigLine(text)...)
	}
	out := append(append([]byte(nil), text...), '\n')
	if s.pre {
		return append(append(out, wit...), own...), nil
	}
	return append(append(out, own...), wit...), nil
}

func (s *c01NameSrv) ReadRecords(ctx context.Context, id, n int64) ([][]byte, error) {
	var list [][]byte
	for i := int64(0); i < n; i++ {
		if id+i < 0 || id+i >= int64(s.n) {
			return nil, errors.New("c01names: missing records")
		}
		list = append(list, s.log.recs[id+i].text)
	}
	return list, nil
}

func (s *c01NameSrv) Lookup(ctx context.Context, m module.Version) (int64, error) {
	id, ok := s.log.byKey[m.Path+"@"+m.Version]
	if !ok || id >= s.n {
		return 0, os.ErrNotExist
	}
	return int64(id), nil
}

func (s *c01NameSrv) ReadTileData(ctx context.Context, t tlog.Tile) ([]byte, error) {
	if t.H < 1 || t.H > 30 || t.L < 0 || t.L > 20 || t.W < 1 || t.W > 1<<uint(t.H) || t.N < 0 || t.N > 1<<30 || t.H*t.L > 40 {
		return nil, os.ErrNotExist
	}
	if (t.N<<uint(t.H)+int64(t.W))<<uint(t.H*t.L) > int64(s.n) {
		return nil, os.ErrNotExist
	}
	return tlog.ReadTileData(t, s.log.hashes)
}

func (s *c01NameSrv) get(path string) ([]byte, bool) {
	rec := httptest.NewRecorder()
	req := &http.Request{Method: "GET", URL: &url.URL{Path: path}, Header: http.Header{}}
	sumdb.NewServer(s).ServeHTTP(rec, req)
	if rec.Code != 200 {
		return nil, false
	}
	return append([]byte(nil), rec.Body.Bytes()...), true
}

// ---------------------------------------------------------------------------------------------
// honest ClientOps recording a replay session

type c01NameStore struct {
	config map[string][]byte
	cache  map[string][]byte
}

type c01NameOps struct {
	mu    sync.Mutex
	st    *c01NameStore
	srv   *c01NameSrv
	reads []clReplayRead
	wr    []string
}

func (o *c01NameOps) rec(kind, file string, d []byte, ok bool) ([]byte, bool) {
	o.reads = append(o.reads, clReplayRead{kind: kind, file: file, data: append([]byte(nil), d...), ok: ok})
	return append([]byte(nil), d...), ok
}

func (o *c01NameOps) ReadRemote(path string) ([]byte, error) {
	o.mu.Lock()
	defer o.mu.Unlock()
	d, ok := o.srv.get(path)
	if d, ok = o.rec("r", path, d, ok); !ok {
		return nil, clErrHTTP
	}
	return d, nil
}

func (o *c01NameOps) ReadConfig(file string) ([]byte, error) {
	o.mu.Lock()
	defer o.mu.Unlock()
	d, ok := o.st.config[file]
	if !ok && strings.HasSuffix(file, "/latest") {
		ok = true // no stored head yet: the empty value
	}
	if d, ok = o.rec("f", file, d, ok); !ok {
		return nil, errors.New("clconfig: no such file")
	}
	return d, nil
}

func (o *c01NameOps) WriteConfig(file string, old, new []byte) error {
	o.mu.Lock()
	defer o.mu.Unlock()
	if !bytes.Equal(o.st.config[file], old) {
		o.wr = append(o.wr, "c")
		return sumdb.ErrWriteConflict
	}
	o.st.config[file] = append([]byte(nil), new...)
	o.wr = append(o.wr, "o")
	return nil
}

func (o *c01NameOps) ReadCache(file string) ([]byte, error) {
	o.mu.Lock()
	defer o.mu.Unlock()
	d, ok := o.st.cache[file]
	if d, ok = o.rec("c", file, d, ok); !ok {
		return nil, os.ErrNotExist
	}
	return d, nil
}

func (o *c01NameOps) WriteCache(file string, data []byte) {
	o.mu.Lock()
	defer o.mu.Unlock()
	o.st.cache[file] = append([]byte(nil), data...)
}

func (o *c01NameOps) Log(msg string)           {}
func (o *c01NameOps) SecurityError(msg string) {}

// ---------------------------------------------------------------------------------------------
// one run

type c01NameLook struct {
	inst       int // index into sessions
	path, vers string
	lines      []string
	want       []string
	err        error
}

type c01NameRun struct {
	name, cosig string
	sessions    []*clSession
	looks       []c01NameLook
}

var c01NameLogMu sync.Mutex
var c01NameLogs = map[uint64]*clLog{}

// c01NameLog: a true log of 24 records (memoised per seed); independent of the worlds of util_client.go.
func c01NameLog(seed uint64) *clLog {
	c01NameLogMu.Lock()
	defer c01NameLogMu.Unlock()
	if l, ok := c01NameLogs[seed]; ok {
		return l
	}
	r := &Rand{s: seed*0x9e3779b97f4a7c15 + 0x6c6f67}
	l := clNewLog(nil, "A", "")
	for i := 0; i < 24; i++ {
		l.add(clMakeRec(r, i, "A"))
	}
	c01NameLogs[seed] = l
	return l
}

// c01NameScenario runs, against the honest server named `name` (heads co-signed by the witnesses `cosig`, if any):
//
//	instance 1 (empty configuration, empty cache, log of N records): Lookup(record id), Lookup(record id, /go.mod),
//	           Lookup(record j)
//	instance 2 (restart on the cache and configuration of instance 1, log grown to M records): Lookup(record id),
//	           Lookup(record M-1)
func c01NameScenario(seed uint64, name string, cosig []string, pre bool, N, M, h, id, j int) *c01NameRun {
	log := c01NameLog(seed)
	if N < 1 || M < N || M > log.size() || id < 0 || id >= N || j < 0 || j >= N || h < 1 {
		return nil
	}
	key := c01NameMakeKey(seed, name)
	var wits []*c01NameKey
	for i, c := range cosig {
		wits = append(wits, c01NameMakeKey(seed+1000+uint64(i), c))
	}
	st := &c01NameStore{config: map[string][]byte{"key": []byte(key.vkey + "\n")}, cache: map[string][]byte{}}
	run := &c01NameRun{name: name, cosig: strings.Join(cosig, ",")}
	type pv struct{ path, vers string }
	rec := func(i int, gomod bool) pv {
		r := log.recs[i]
		if gomod {
			return pv{r.path, r.vers + "/go.mod"}
		}
		return pv{r.path, r.vers}
	}
	for inst, plan := range [][]pv{{rec(id, false), rec(id, true), rec(j, false)}, {rec(id, false), rec(M-1, false)}} {
		n := N
		if inst == 1 {
			n = M
		}
		ops := &c01NameOps{st: st, srv: &c01NameSrv{log: log, n: n, key: key, cosig: wits, pre: pre}}
		cl := sumdb.NewClient(ops)
		cl.SetTileHeight(h)
		s := &clSession{h: h, pub: clKeyPub(key.vkey)}
		for _, p := range plan {
			lk := c01NameLook{inst: inst, path: p.path, vers: p.vers}
			lk.want = clFilter(p.path+" "+p.vers+" ", string(log.recs[log.byKey[p.path+"@"+strings.TrimSuffix(p.vers, "/go.mod")]].text))
			func() {
				defer func() {
					if r := recover(); r != nil {
						lk.err = fmt.Errorf("panic: %v", r)
					}
				}()
				lk.lines, lk.err = cl.Lookup(p.path, p.vers)
			}()
			run.looks = append(run.looks, lk)
			s.looks = append(s.looks, [2]string{p.path, p.vers})
		}
		ops.mu.Lock()
		s.reads, s.writes = ops.reads, ops.wr
		ops.mu.Unlock()
		run.sessions = append(run.sessions, s)
	}
	return run
}

// c01NameCases enumerates the sweep: per continuation byte, per legal name — as the SERVER's name, and as the name of
// a witness co-signing the head of an ASCII-named server (after / before the server's line).
type c01NameCase struct {
	tag    string
	name   string
	cosig  []string
	pre    bool
	N, M   int
	h      int
	id, j  int
}

func c01NameCases(r *Rand) []c01NameCase {
	var cases []c01NameCase
	for b := 0x80; b <= 0xBF; b++ {
		names, shapes := c01Names(byte(b))
		for i, n := range names {
			N := 1 + r.Intn(12)
			M := N + r.Intn(6)
			h := 1 + r.Intn(2)
			c := c01NameCase{N: N, M: M, h: h, id: r.Intn(N), j: r.Intn(N)}
			srv, wit := c, c
			srv.tag, srv.name = "honest/name-nonascii/server-"+shapes[i], n
			wit.tag, wit.name, wit.cosig, wit.pre = "honest/name-nonascii/witness-"+shapes[i], clName, []string{n}, r.Intn(2) == 0
			cases = append(cases, srv, wit)
		}
	}
	// control: the same runs with ASCII names only (the class must not differ from the ordinary worlds in anything else)
	cases = append(cases, c01NameCase{tag: "honest/name-ascii/server", name: clName, N: 7, M: 9, h: 2, id: 3, j: 6},
		c01NameCase{tag: "honest/name-ascii/witness", name: clName, cosig: []string{"witness.example/cosig"}, N: 7, M: 9, h: 2, id: 3, j: 6})
	return cases
}

func (c c01NameCase) run(seed uint64) *c01NameRun {
	return c01NameScenario(seed, c.name, c.cosig, c.pre, c.N, c.M, c.h, c.id, c.j)
}

var c01NameFailSeen = map[string]int{}

// c01NamesOracle: the honest clause on every case of the sweep.
func c01NamesOracle(g *Gen, seed uint64) {
	for _, c := range c01NameCases(g.Rand) {
		run := c.run(seed)
		if run == nil {
			continue
		}
		g.Case(c.tag)
		for _, lk := range run.looks {
			sig := ""
			switch {
			case lk.err != nil && strings.HasPrefix(lk.err.Error(), "panic:"):
				sig = "C01 lookup panics"
			case lk.err != nil:
				sig = "C01 lookup failed although server and cache are honest"
			case !clSameLines(lk.lines, lk.want) || len(lk.want) == 0:
				sig = "C01 lookup result differs from the server's go.sum lines"
			}
			g.st.OracleTags["result/"+clErrKind(lk.err)]++
			if sig == "" {
				continue
			}
			// (own budget per signature and role, so that the reports of the scenario classes — which share the
			// signature text — do not crowd these out: at most three per role)
			role := c.tag[strings.LastIndexByte(c.tag, '/')+1:]
			role = role[:strings.IndexByte(role+"-", '-')]
			c01NameFailSeen[sig+"|"+role]++
			g.st.OracleTags["finding/"+sig]++
			if c01NameFailSeen[sig+"|"+role] <= 3 {
				g.Fail(sig, fmt.Sprintf("key name %q (hex %x), co-signing witnesses %q; instance %d Lookup(%s, %s) -> %v %q, want %q",
					run.name, run.name, run.cosig, lk.inst+1, lk.path, lk.vers, lk.err, lk.lines, lk.want), run.sessions[lk.inst].line())
			}
			break
		}
	}
}

// c01NamesGen: k seed-chosen cases of the sweep (plus the two ASCII controls) as replay sessions for the Lean model.
func c01NamesGen(g *Gen, seed uint64, k int) {
	cases := c01NameCases(g.Rand)
	pick := cases[len(cases)-2:]
	for i := 0; i < k; i++ {
		pick = append(pick, cases[g.Intn(len(cases)-2)])
	}
	for _, c := range pick {
		run := c.run(seed)
		if run == nil {
			continue
		}
		for _, s := range run.sessions {
			g.Emit(s.line(), false, "lookup/honest", "lookup/"+c.tag[strings.IndexByte(c.tag, '/')+1:strings.LastIndexByte(c.tag, '/')])
		}
	}
}
