package main

// C13 — the client follows one consistent timeline of signed tree heads.
//
// Phase 1 (implementation only): pairs of logs A, B sharing a common prefix of p records and diverging after it,
// both signed with the configured key; every combination of client position (a on A), presented head (b on B;
// smaller, equal, larger), tile source (A's tiles, B's tiles), cache state, long-lived / restarted / second client
// sharing the configuration.  Oracles: util_cloracle.go (timeline, security callback) + the fork clause below.
// Gen emits `client.trace` lines (trace validation on the Lean latest-head machine) once Drv/Client.lean has them.

import (
	"bytes"
	"fmt"
	"strings"

	"golang.org/x/mod/sumdb/tlog"
)

func init() {
	register(&Prop{ID: "C13", Gen: c13Gen, Oracle: c13Oracle,
		Rule: "fork enumeration over (|A|, common prefix p, |B|, tile height, client position a, presented head b <,=,> a, tile source, cold/warm cache, long-lived / restarted / second client on the shared configuration, fresh client shown B first), plus stale-head replays on one log, plus an exhaustive small-scope sweep (tile height, a, b, p) of an equivocating server splicing the other tree's hashes into its tiles entry by entry (all tiles / only the widest version of each partial tile), plus lost install races (a long-lived client, three heads A@a1, A@a2, B@b in flight under tile-read-last / random / fixed schedules; report content checked per callback), plus several different forked heads shown to one long-lived client one after the other and at the same time (every security failure of a lookup that read its own response must have handed that head to the callback), plus histories of one long-lived client whose shared configuration is moved by another party (second client / direct write) to a head it cannot merge (fork head, head ahead of its server, head signed by an unknown key), a failed flush, then 2-4 FURTHER advances of its own head with faults switched on and off in between (no stored head is overwritten unless it was verified to be contained in the head written; also emitted as client.trace lines), plus the fork enumeration with every served head in the forward-compatible encoding (additional text lines after the hash line), plus the fork enumeration with signed heads of growing size (a few hundred bytes to tens of kilobytes; hundreds of kilobytes in the thorough tier) made of many additional text lines and/or 1-99 co-signatures of keys unknown to the client, for every head / only the forked head / only the client's own head (every security report must contain two complete, re-openable, mutually inconsistent signed notes byte for byte); non-trivial = both heads lie beyond the common prefix or the head moves; distinct by scenario line"})
}

// c13StrictAfterSecurity: see the report — after a fork was reported through SecurityError a long-lived client whose
// in-memory head had already moved onto the fork keeps answering from it.  Counted as an observation unless true.
const c13StrictAfterSecurity = false

type c13Case struct {
	line string
	tag  string
}

func c13Enumerate(r *Rand, wseed uint64, nA, p, nB, h int, emit func(c13Case)) {
	w := clGetWorld(wseed, nA, p, nB)
	head := fmt.Sprintf("client.run w=%d:%d:%d:%d h=%d", wseed, nA, p, nB, h)
	pick := func(n int) int { return r.Intn(n) }
	as := c01UniqInts([]int{1, p, p + 1, nA - 1, nA})
	bs := c01UniqInts([]int{1, p, p + 1, nB - 1, nB})
	for _, a := range as {
		if a < 1 || a > nA {
			continue
		}
		for _, b := range bs {
			if b < 1 || b > nB {
				continue
			}
			ia, jb := pick(a), pick(b)
			_ = w
			tiles := []string{fmt.Sprintf("srv=B@%d", b), fmt.Sprintf("srv=B@%d,A@%d", b, nA), fmt.Sprintf("srv=B@%d,B@%d", b, nB)}
			for ti, srvB := range tiles {
				first := fmt.Sprintf("srv=A@%d new=0 look=0:A%d", a, ia)
				second := fmt.Sprintf("%s look=0:B%d look=0:B%dm", srvB, jb, jb)
				back := fmt.Sprintf("srv=A@%d look=0:A%d f-= new=0 look=0:A%d", nA, ia, ia)
				tag := fmt.Sprintf("fork/%s/t%d", c13Rel(a, b, p), ti)
				// long-lived client
				emit(c13Case{strings.Join([]string{head, first, second, back}, " "), tag + "/long"})
				// restarted client
				emit(c13Case{strings.Join([]string{head, first, "new=0", second, back}, " "), tag + "/restart"})
				// warm cache of A, then the fork
				emit(c13Case{strings.Join([]string{head, fmt.Sprintf("warm=0:A@%d:*", a), "new=0", second, back}, " "), tag + "/warm"})
				// second client sharing the configuration, own cache
				emit(c13Case{strings.Join([]string{head, first, "new=1:1", strings.ReplaceAll(second, "look=0:", "look=1:"), back}, " "), tag + "/client2"})
				// second client initialised BEFORE the first one moved the configuration
				if p >= 1 {
					early := fmt.Sprintf("srv=A@%d new=1:1 look=1:A%d", p, pick(p))
					emit(c13Case{strings.Join([]string{head, early, first, strings.ReplaceAll(second, "look=0:", "look=1:"),
						fmt.Sprintf("look=1:B%d", pick(b)), back}, " "), tag + "/client2-early"})
				}
				// fresh client shown B first, then A
				emit(c13Case{strings.Join([]string{head, fmt.Sprintf("srv=B@%d new=0 look=0:B%d", b, jb),
					fmt.Sprintf("srv=A@%d look=0:A%d look=0:A%dm", a, ia, ia), "new=0", fmt.Sprintf("look=0:A%d", ia)}, " "), tag + "/b-first"})
			}
		}
	}
	// concurrent shapes (scheduler): (a) ONE client, two goroutines, split-view server answering one lookup from A@a and
	// the other from B@b; (b) TWO clients on the shared configuration, one served A@a, the other B@b.
	// Exactly one lookup per client instance and log, so that the recorded no-rollback finding cannot arise here.
	if nA > p && nB > p {
		for k := 0; k < 3; k++ {
			a, b := p+1+pick(nA-p), p+1+pick(nB-p)
			jb := -1
			for tries := 0; tries < 8 && jb < 0; tries++ {
				j := p + pick(b-p)
				if _, dup := w.A.byKey[w.B.recs[j].key()]; !dup {
					jb = j
				}
			}
			if jb < 0 {
				continue
			}
			ia := pick(a)
			bp, ok := clLookupFile(w.B.recs[jb].path, w.B.recs[jb].vers)
			if !ok {
				continue
			}
			cfg := "cfg=empty"
			if p >= 1 {
				cfg = fmt.Sprintf("cfg=A@%d", p)
			}
			strat := []string{"memrace", "rand", "conflict", "rr", "last", "canon"}[pick(6)]
			emit(c13Case{fmt.Sprintf("%s %s srv=A@%d f+=P%s/src/B@%d f+=T*/split/B@%d new=0 par=%s:%d:0.A%d,0.B%d", head, cfg, a, hx(bp), b, b, strat, pick(100000), ia, jb),
				"concurrent/one-client/" + c13Rel(a, b, p)})
			emit(c13Case{fmt.Sprintf("%s %s srv=A@%d srvc=1:B@%d new=0:0 new=1:1 par=%s:%d:0.A%d,1.B%d", head, cfg, a, b, strat, pick(100000), ia, jb),
				"concurrent/two-clients/" + c13Rel(a, b, p)})
		}
	}
	// stale replays on one log: the head may be old, equal, new; never a regression
	for k := 0; k < 4; k++ {
		a, b := 1+pick(nA), 1+pick(nA)
		i, j := pick(a), pick(b)
		emit(c13Case{fmt.Sprintf("%s srv=A@%d new=0 look=0:A%d srv=A@%d look=0:A%d new=0 look=0:A%d srv=A@%d look=0:A%d", head, a, i, b, j, j, nA, pick(nA)), "stale/" + c13Rel(a, b, nA)})
	}
}

func c13Rel(a, b, p int) string {
	s := "a"
	switch {
	case a <= p:
		s += "<=p"
	default:
		s += ">p"
	}
	switch {
	case b <= p:
		s += ",b<=p"
	default:
		s += ",b>p"
	}
	switch {
	case b < a:
		s += ",b<a"
	case b == a:
		s += ",b=a"
	default:
		s += ",b>a"
	}
	return s
}

func c01UniqInts(l []int) []int {
	seen := map[int]bool{}
	var out []int
	for _, x := range l {
		if !seen[x] {
			seen[x] = true
			out = append(out, x)
		}
	}
	return out
}

// c13CheckFork: the clause "when the server presents a validly signed tree inconsistent with the client's, every
// lookup depending on it fails, the stored head is left unchanged".
func c13CheckFork(g *Gen, out *clOutcome) []clFinding {
	var fs []clFinding
	w := out.w
	reported := map[int]bool{} // client -> a fork was reported through SecurityError to this instance
	// client -> the head an earlier lookup of this instance moved the in-memory head to although that lookup then
	// failed while reconciling with a stored head written by somebody else (cause (i)+(ii) of the no-rollback finding)
	advFail := map[int]*clHead{}
	lastNew := 0
	for _, lk := range out.looks {
		if lk.g != "s" {
			continue
		}
		for _, ev := range out.env.trace[lastNew:lk.from] {
			if ev.Kind == "new" {
				reported[ev.C] = false
				delete(advFail, ev.C)
			}
		}
		lastNew = lk.from
		// the head presented by the response this lookup used
		remote, ok := clLookupFile(lk.path, lk.vers)
		if !ok {
			continue
		}
		var presented []byte
		for _, ev := range out.env.trace[lk.from:lk.to] {
			if ev.C == lk.c && ev.Err == "" && ((ev.Kind == "rc" && ev.File == clName+remote) || (ev.Kind == "rr" && ev.File == remote)) {
				if _, _, rest, err := tlog.ParseRecord(ev.Data); err == nil {
					presented = rest
				}
			}
		}
		if len(presented) == 0 {
			continue
		}
		ph := w.classifyHead(presented)
		if !ph.valid {
			continue
		}
		// the client's head: its in-memory latest before the lookup (0 = not initialised: then the stored head)
		mem := clHead{valid: true, n: lk.memN0}
		if lk.memN0 > 0 {
			if th, ok := w.A.treeHash(lk.memN0); ok && th == lk.memH0 {
				mem.onA = true
			}
			if w.B != nil {
				if th, ok := w.B.treeHash(lk.memN0); ok && th == lk.memH0 {
					mem.onB = true
				}
			}
		} else {
			mem = w.classifyHead(lk.cfg0)
		}
		if !mem.valid || !(mem.onA || mem.onB) {
			continue
		}
		inconsistent := !w.prefixOf(mem, ph) && !w.prefixOf(ph, mem)
		stored := w.classifyHead(lk.cfg0)
		inconsistentStored := stored.valid && !w.prefixOf(stored, ph) && !w.prefixOf(ph, stored)
		if inconsistent {
			g.st.OracleTags["fork-presented"]++
			if lk.kind == "ok" {
				fs = append(fs, clFinding{"C13 lookup depending on a signed tree inconsistent with the client's head succeeded", fmt.Sprintf("%s client@%d presented@%d", lk.key, mem.n, ph.n)})
			}
			if !bytes.Equal(lk.cfg0, lk.cfg1) {
				fs = append(fs, clFinding{"C13 stored head changed while a fork was presented", lk.key})
			}
			if lk.memN0 > 0 && (lk.memN1 != lk.memN0 || lk.memH1 != lk.memH0) {
				fs = append(fs, clFinding{"C13 in-memory head changed while a fork was presented", lk.key})
			}
			if lk.kind == "err:security" {
				g.st.OracleTags["fork-reported-as-security-error"]++
			} else {
				g.st.OracleTags["fork-refused-as-"+lk.kind]++
			}
		} else if inconsistentStored {
			// consistent with this instance's memory, inconsistent with the shared stored head
			g.st.OracleTags["presented-inconsistent-with-stored-head-only"]++
			if !bytes.Equal(lk.cfg0, lk.cfg1) {
				fs = append(fs, clFinding{"C13 stored head changed while a tree inconsistent with it was presented", lk.key})
			}
			if lk.kind == "ok" {
				// (iii) the successful lookup presented a head at or below the in-memory head (mergeLatest returned
				// before touching the configuration); (iv) no WriteConfig ever stored the forked head
				af := advFail[lk.c]
				cause := af != nil && lk.memN0 == af.n && mem.onA == af.onA && mem.onB == af.onB && ph.n <= mem.n && w.prefixOf(ph, mem)
				if cause {
					for _, ev := range out.env.trace {
						if ev.Kind == "wf" && ev.Err == "" {
							if h := w.classifyHead(ev.Data); h.valid && !(w.prefixOf(h, stored) || w.prefixOf(stored, h)) {
								cause = false
							}
						}
					}
				}
				switch {
				case reported[lk.c]:
					g.st.OracleTags["observation/lookup-ok-on-fork-after-security-error"]++
					if c13StrictAfterSecurity {
						fs = append(fs, clFinding{"C13 after reporting a fork the client keeps answering from the tree that is inconsistent with the stored head", lk.key})
					}
				case cause:
					fs = append(fs, clFinding{"C13 no-rollback: in-memory head advanced to a fork, reconciliation with a newer stored head failed, later lookups at or below that in-memory head succeed", lk.key})
				default:
					fs = append(fs, clFinding{"C13 lookup on a tree inconsistent with the shared stored head succeeded without any security report", lk.key})
				}
			}
		}
		for _, ev := range out.env.trace[lk.from:lk.to] {
			if ev.Kind == "sec" && ev.C == lk.c {
				reported[lk.c] = true
			}
		}
		// (i) this lookup advanced the in-memory head: presented head strictly larger than, and consistent with, the
		// in-memory head before, and the in-memory head afterwards IS the presented one;
		// (ii) it then failed, after ReadConfig had returned a stored head — written by somebody else — inconsistent
		// with the presented one
		if lk.kind != "ok" && lk.memN0 >= 0 && ph.n > mem.n && w.prefixOf(mem, ph) && lk.memN1 == ph.n {
			after := clHead{valid: true, n: lk.memN1}
			if th, ok := w.A.treeHash(lk.memN1); ok && th == lk.memH1 {
				after.onA = true
			}
			if w.B != nil {
				if th, ok := w.B.treeHash(lk.memN1); ok && th == lk.memH1 {
					after.onB = true
				}
			}
			sameTree := after.onA == ph.onA && after.onB == ph.onB && (after.onA || after.onB)
			readForeign := false
			for _, ev := range out.env.trace[lk.from:lk.to] {
				if ev.C == lk.c && ev.Kind == "rf" && ev.Err == "" && ev.File == clName+"/latest" {
					if h := w.classifyHead(ev.Data); h.valid && h.n > 0 && !w.prefixOf(h, ph) && !w.prefixOf(ph, h) {
						foreign := true
						for _, e2 := range out.env.trace[:ev.Seq] {
							if e2.Kind == "wf" && e2.Err == "" && e2.C == lk.c && bytes.Equal(e2.Data, ev.Data) {
								foreign = false // written by this very client index
							}
						}
						if foreign {
							readForeign = true
						}
					}
				}
			}
			if sameTree && readForeign {
				h := after
				advFail[lk.c] = &h
			}
		}
	}
	return fs
}

func c13Judge(g *Gen, c c13Case) {
	sc, ok := clParseScenario(strings.Fields(c.line)[1:])
	if !ok {
		g.Fail("harness: malformed scenario", c.line)
		return
	}
	out := clRunScenario(sc)
	g.Case(c.tag)
	if out.bad {
		g.Fail("harness: scenario rejected", c.line+" "+out.env.badWhy)
		return
	}
	if out.hang {
		g.Fail("C13 lookup hangs", "", c.line)
		return
	}
	for _, lk := range out.looks {
		g.st.OracleTags["result/"+lk.kind]++
		if lk.kind == "panic" {
			g.Fail("C13 lookup panics", fmt.Sprint(lk.err), c.line)
		}
	}
	clReport(g, clCheckTimeline(out), sc)
	clReport(g, clCheckSecurity(out), sc)
	clReport(g, clCheckAuthentic(out), sc)
	clReport(g, c13CheckFork(g, out), sc)
	clReport(g, c13CheckConcurrent(g, out), sc)
	clReport(g, c13CheckSecurityPar(g, out), sc)
	clReport(g, c13CheckSecurityFresh(g, out), sc)
	clReport(g, c13CheckOverwrite(g, out), sc)
	c13TagReportSizes(g, out)
}

// c13CheckSecurityPar: the clause "whenever the failure is reported as a security error the security callback received
// both signed heads", for SCHEDULED batches (lookup goroutines g0, g1, … of one client instance running at the same time).
//
// Observer class added (it was missing: clCheckSecurity looks at the CONTENT of the SecurityError message only for
// sequential lookups, lk.g == "s"; for scheduled batches the oracle looked at results, configuration writes and accepted
// heads, never at which signed notes the report carries — so a report built from a stale snapshot after a lost install
// race in mergeLatestMem, where another goroutine of the same instance installs a head while the first one is fetching
// tiles for its check, could not be seen).  Same statement as the sequential one, per callback invocation instead of
// per lookup window (windows of concurrent lookups overlap): the message of every SecurityError call carries two validly
// signed, mutually inconsistent heads among the heads this client had been given (stored head reads, tree notes of
// lookup responses, by ANY of its goroutines) before the call; a lookup of the batch that fails with the security error
// was preceded by a callback on its instance; a callback made on a lookup goroutine makes that lookup fail with it.
func c13CheckSecurityPar(g *Gen, out *clOutcome) []clFinding {
	var fs []clFinding
	w := out.w
	tr := out.env.trace
	anyPar := false
	for _, lk := range out.looks {
		if lk.g != "s" {
			anyPar = true
		}
	}
	if !anyPar {
		return nil
	}
	// goroutine labels repeat from batch to batch: resolve a callback to its lookup by label AND window
	lookOf := func(ev clEvent) *clLookup {
		for _, lk := range out.looks {
			if lk.g != "s" && lk.c == ev.C && lk.g == ev.G && lk.from <= ev.Seq && ev.Seq < lk.to {
				return lk
			}
		}
		return nil
	}
	// the tree note handed to a goroutine with a lookup response, by position: used for the coverage tags only
	type given struct {
		seq  int
		g    string
		note []byte
	}
	for _, ev := range tr {
		if ev.Kind != "sec" || ev.C < 0 || ev.G == "s" {
			continue
		}
		lk := lookOf(ev)
		if lk == nil {
			continue // not made inside a scheduled lookup: clCheckSecurity's business
		}
		g.st.OracleTags["par-security-report"]++
		msg := ev.Data
		var inMsg []clHead
		var lookNotes []given
		seen := map[string]bool{}
		for _, e2 := range tr[:ev.Seq] {
			if e2.C != ev.C || e2.Err != "" {
				continue
			}
			var cnd []byte
			switch {
			case e2.Kind == "rf" && e2.File == clName+"/latest" && len(e2.Data) > 0:
				cnd = e2.Data
			case e2.Kind == "rr" || e2.Kind == "rc":
				if _, _, rest, err := tlog.ParseRecord(e2.Data); err == nil && len(rest) > 0 {
					cnd = rest
					lookNotes = append(lookNotes, given{e2.Seq, e2.G, rest})
				}
			}
			if len(cnd) == 0 || seen[string(cnd)] {
				continue
			}
			seen[string(cnd)] = true
			if h := w.classifyHead(cnd); h.valid && bytes.Contains(msg, clIndent(cnd)) {
				inMsg = append(inMsg, h)
			}
		}
		okPair := false
		for i := range inMsg {
			for j := range inMsg {
				a, b := inMsg[i], inMsg[j]
				if a.n <= b.n && !w.prefixOf(a, b) {
					okPair = true
				}
			}
		}
		// coverage: the report names a head that was presented to ANOTHER goroutine of the instance; and, when this
		// goroutine had received its own response before that other one did, it had taken its snapshot of the in-memory
		// head before the other head could be installed — it compares against it only after losing the install race
		mine := -1
		for _, gv := range lookNotes {
			if gv.g == ev.G && gv.seq >= lk.from {
				mine = gv.seq
			}
		}
		other, lost := false, false
		for _, gv := range lookNotes {
			if gv.g != ev.G && gv.g != "s" && gv.g != "t" && bytes.Contains(msg, clIndent(gv.note)) {
				other = true
				if mine >= 0 && mine < gv.seq {
					lost = true
				}
			}
		}
		if other {
			g.st.OracleTags["par-security-report/names-head-of-another-goroutine"]++
		}
		if lost {
			g.st.OracleTags["par-security-report/after-lost-install-race"]++
		}
		if !okPair {
			fs = append(fs, clFinding{"C13 security callback message does not carry two inconsistent signed heads (concurrent lookups of one client)", lk.key})
		}
		if lk.kind != "err:security" {
			fs = append(fs, clFinding{"C13 security callback invoked but the lookup did not fail with a security error", lk.key + " -> " + lk.kind})
		}
	}
	for _, lk := range out.looks {
		if lk.g == "s" || lk.kind != "err:security" || lk.to > len(tr) {
			continue
		}
		called := false
		for _, ev := range tr[:lk.to] {
			if ev.C == lk.c && ev.Kind == "new" {
				called = false
			}
			if ev.C == lk.c && ev.Kind == "sec" {
				called = true
			}
		}
		if !called {
			fs = append(fs, clFinding{"C13 lookup failed with a security error but the security callback was not invoked", lk.key})
		}
	}
	return fs
}

// c13CheckSecurityFresh: "whenever the failure is reported as a security error the security callback received both signed
// heads" — for EVERY such failure, not only the first one of a client instance.
//
// Observer class added (it was missing: clCheckSecurity accepts a security failure without a callback in its window as
// soon as ANY earlier callback ran on the instance, because results are cached per instance — the initialisation error
// and the per-file once-cache; that is right for a replayed result and wrong for a new comparison).  The two are told
// apart by what the lookup did: a replayed result is returned without a single external operation; a lookup that READ a
// response (cache or network) for its file made a comparison of its own with the signed head of that response.  When
// that lookup ends in the security error, the callback must have received the head it was shown: either the callback
// ran for it (in the lookup's window for a sequential caller / on the lookup's goroutine between its read and its
// return in a scheduled batch), or — an identical report need not be repeated — an earlier report made on this instance
// already carries that very signed note (and, by the message clauses, a head contradicting it).
func c13CheckSecurityFresh(g *Gen, out *clOutcome) []clFinding {
	var fs []clFinding
	tr := out.env.trace
	for _, lk := range out.looks {
		if lk.kind != "err:security" || lk.from > lk.to || lk.to > len(tr) {
			continue
		}
		remote, ok := clLookupFile(lk.path, lk.vers)
		if !ok {
			continue
		}
		read, called := -1, false
		var presented []byte
		for _, ev := range tr[lk.from:lk.to] {
			if ev.C != lk.c {
				continue
			}
			mine := lk.g == "s" || ev.G == lk.g
			if mine && ev.Err == "" && ((ev.Kind == "rc" && ev.File == clName+remote) || (ev.Kind == "rr" && ev.File == remote)) {
				if _, _, rest, err := tlog.ParseRecord(ev.Data); err == nil && len(rest) > 0 {
					read, presented = ev.Seq, rest
				}
			}
			if mine && read >= 0 && ev.Kind == "sec" {
				called = true
			}
		}
		if read < 0 {
			g.st.OracleTags["security-failure/replayed-result"]++
			continue
		}
		g.st.OracleTags["security-failure/own-comparison"]++
		if called {
			continue
		}
		// not reported now: the same signed head must have been reported on this instance before
		earlier := false
		for _, ev := range tr[:lk.to] {
			if ev.C != lk.c {
				continue
			}
			if ev.Kind == "new" {
				earlier = false
			}
			if ev.Kind == "sec" && bytes.Contains(ev.Data, clIndent(presented)) {
				earlier = true
			}
		}
		if earlier {
			g.st.OracleTags["security-failure/own-comparison-report-not-repeated"]++
			continue
		}
		fs = append(fs, clFinding{"C13 lookup failed with a security error but the signed head it was shown was never handed to the security callback", lk.key})
	}
	return fs
}

// c13CheckConcurrent: scheduled batches (one lookup per client instance and log).  "Two mutually inconsistent signed
// trees are never both accepted": the heads presented to the successful lookups of one instance are pairwise
// consistent, and each is consistent with the stored head the run ends with.
func c13CheckConcurrent(g *Gen, out *clOutcome) []clFinding {
	var fs []clFinding
	w := out.w
	final := w.classifyHead(out.env.config[clName+"/latest"])
	accepted := map[int][]clHead{}
	for _, lk := range out.looks {
		if lk.g == "s" || lk.kind != "ok" {
			continue
		}
		remote, ok := clLookupFile(lk.path, lk.vers)
		if !ok {
			continue
		}
		var presented []byte
		for _, ev := range out.env.trace {
			if ev.Seq >= lk.to {
				break
			}
			if ev.C == lk.c && ev.Err == "" && ((ev.Kind == "rc" && ev.File == clName+remote) || (ev.Kind == "rr" && ev.File == remote)) {
				if _, _, rest, err := tlog.ParseRecord(ev.Data); err == nil {
					presented = rest
				}
			}
		}
		ph := w.classifyHead(presented)
		if len(presented) == 0 || !ph.valid {
			continue
		}
		g.st.OracleTags["concurrent-accepted"]++
		for _, o := range accepted[lk.c] {
			if !w.prefixOf(o, ph) && !w.prefixOf(ph, o) {
				fs = append(fs, clFinding{"C13 one client instance accepted two mutually inconsistent signed trees", fmt.Sprintf("%d and %d", o.n, ph.n)})
			}
		}
		accepted[lk.c] = append(accepted[lk.c], ph)
		if final.valid && !w.prefixOf(ph, final) && !w.prefixOf(final, ph) {
			fs = append(fs, clFinding{"C13 lookup on a tree inconsistent with the shared stored head succeeded without any security report", lk.key})
		}
	}
	return fs
}

func c13Cases(g *Gen) []c13Case {
	maxN, heights := 10, []int{1, 2}
	if thorough {
		maxN, heights = 70, []int{1, 2, 3, 4, 8}
	}
	wseed := g.U64()%1000 + 1
	var cases []c13Case
	for nA := 1; nA <= maxN; nA++ {
		for p := 0; p <= nA; p++ {
			if thorough && nA > 12 && g.Intn(nA/4) != 0 {
				continue
			}
			nBs := c01UniqInts([]int{p + 1, nA, nA + 1 + g.Intn(3)})
			for _, nB := range nBs {
				if nB <= p || nB > maxN+3 {
					continue
				}
				for _, h := range heights {
					c13Enumerate(g.Rand, wseed, nA, p, nB, h, func(c c13Case) { cases = append(cases, c) })
				}
			}
		}
	}
	return cases
}

// c13SpliceCases — the equivocating server that answers tile requests at hash-ENTRY granularity.
//
// Input class (added because the fork enumeration above only ever serves WHOLE tiles of one log — srv=B@b / B@b,A@nA /
// split — so every tile the client reads is the true tile of A or of B, and an honest fork is always detected): the client
// holds a signed head of A (size a), the server presents the validly signed head of the fork B (size b, common prefix p)
// and serves the tiles of the larger of the two trees with the hashes that the smaller tree also has spliced in entry by
// entry ("your old records are still there"), either in every tile (emix) or only in the current, widest version of each
// partial tile while narrower versions of the same tile stay true (emixw: a server that answers different widths of one
// tile differently).  Whatever is served, B@b does not contain A@a (p < a, p < b), so the fork clause, the timeline
// clause and the cache clause (util_cloracle.go) must hold; no new oracle is needed.
// Small-scope exhaustive sweep over (tile height, a, b, p): sizes up to a few tiles so that partial tiles of every
// width (one, two, three set bits) occur at level 0 and at level 1, both directions (b > a: the client moves forward;
// b < a: the presented head is checked against the client's own tree), long-lived and restarted client.
func c13SpliceCases(g *Gen) []c13Case {
	type hs struct{ h, max int }
	scope := []hs{{2, 13}, {3, 11}}
	if thorough {
		scope = []hs{{1, 9}, {2, 21}, {3, 20}, {4, 20}}
	}
	wseed := g.U64()%1000 + 1
	var cases []c13Case
	for _, sc := range scope {
		for b := 2; b <= sc.max; b++ {
			for a := 1; a <= sc.max; a++ {
				if a == b {
					continue // same size, different hash: decided without reading a tile
				}
				lo := a
				if b < lo {
					lo = b
				}
				for p := 0; p < lo; p++ {
					if thorough && lo > 12 && p%4 != 0 && p < lo-4 {
						continue
					}
					head := fmt.Sprintf("client.run w=%d:%d:%d:%d h=%d", wseed, a, p, b, sc.h)
					first := fmt.Sprintf("srv=A@%d new=0 look=0:A%d", a, a-1)
					back := fmt.Sprintf("f-= srv=A@%d new=0 look=0:A%d", a, g.Intn(a))
					for ki, kind := range []string{"emixw", "emix"} {
						srv := fmt.Sprintf("srv=B@%d f+=T*/%s/A@%d", b, kind, a)
						dir := "fwd"
						if b < a {
							srv = fmt.Sprintf("srv=B@%d,A@%d f+=T*/%s/B@%d", b, a, kind, b)
							dir = "bwd"
						}
						second := fmt.Sprintf("%s look=0:B%d look=0:B%dm", srv, b-1, g.Intn(b))
						tag := fmt.Sprintf("splice/%s/%s/h%d", kind, dir, sc.h)
						long := c13Case{strings.Join([]string{head, first, second, back}, " "), tag + "/long"}
						restart := c13Case{strings.Join([]string{head, first, "new=0", second, back}, " "), tag + "/restart"}
						// one of the two client shapes per point, alternating (keeps the sweep at ~2300 scenarios / ~12 s in
						// the quick tier and ~14000 / ~2 min in the thorough tier)
						if (a+b+p+ki)%2 == 0 {
							cases = append(cases, long)
						} else {
							cases = append(cases, restart)
						}
					}
				}
			}
		}
	}
	return cases
}

// c13LostRaceCases — lost install races in the in-memory merge of a LONG-LIVED client.
//
// Input class (added because the concurrent shapes of c13Enumerate always start the batch on a fresh instance — the
// first goroutine is still initialising from the configuration — with exactly two goroutines and two heads; and because
// the report content of such batches was not looked at, see c13CheckSecurityPar): one client that has already completed
// a lookup at A@p (in-memory head = stored head = A@p, its tiles cached) then runs THREE lookups at the same time, answered
// with three different signed heads — A@a1, A@a2 (p < a1 < a2) and the fork B@b (b > p, common prefix p) — under
// schedules that keep tile reads back (memrace) or are random / round-robin / fixed.  Every goroutine snapshots A@p,
// checks its head against it while fetching tiles, and all but the first to finish lose the compare-and-swap on the
// in-memory head and go round again against the head that won (possibly twice; with b < a through the "head looks old"
// branch).  Whatever the order, the heads on A and the head on B are mutually inconsistent, so exactly one side is
// accepted and every report must carry the two heads that were compared.  No new oracle: c13CheckSecurityPar,
// c13CheckConcurrent, timeline and authenticity clauses.
func c13LostRaceCases(g *Gen) []c13Case {
	// tile heights: with 2^h above every size involved, all hashes of a tree sit in ONE partial level-0 tile whose name
	// carries the tree size, so the split-view server below can answer every head with its own tiles (no two of the
	// three heads share a tile name) and every check runs to its verdict; with small h the three trees compete for
	// shared tile names and part of the checks end as refused tiles instead (kept: the refusals are scheduled too)
	maxN, heights, reps := 9, []int{1, 2, 4}, 1
	if thorough {
		maxN, heights, reps = 24, []int{1, 2, 3, 5, 8}, 2
	}
	wseed := g.U64()%1000 + 1
	strats := []string{"memrace", "memrace", "rand", "memrace", "rr", "last", "canon"}
	var cases []c13Case
	k := 0
	for _, h := range heights {
		for nA := 3; nA <= maxN; nA++ {
			for p := 1; p < nA-1; p++ {
				if thorough && nA > 12 && g.Intn(nA/4) != 0 {
					continue
				}
				for rep := 0; rep < reps; rep++ {
					nB := p + 1 + g.Intn(5)
					w := clGetWorld(wseed, nA, p, nB)
					a1 := p + 1 + g.Intn(nA-p-1) // p < a1 < nA
					a2 := a1 + 1 + g.Intn(nA-a1) // a1 < a2 <= nA
					b := p + 1 + g.Intn(nB-p)    // p < b <= nB
					for tries := 0; tries < 4 && (b == a1 || b == a2); tries++ {
						b = p + 1 + g.Intn(nB-p) // three different sizes: three different right-edge tiles
					}
					jb := -1
					for tries := 0; tries < 8 && jb < 0; tries++ {
						j := p + g.Intn(b-p)
						if _, dup := w.A.byKey[w.B.recs[j].key()]; !dup {
							jb = j
						}
					}
					if jb < 0 {
						continue
					}
					i0, i1, i2 := g.Intn(p), p+g.Intn(a1-p), a1+g.Intn(a2-a1)
					p1, ok1 := clLookupFile(w.A.recs[i1].path, w.A.recs[i1].vers)
					bp, ok2 := clLookupFile(w.B.recs[jb].path, w.B.recs[jb].vers)
					if !ok1 || !ok2 {
						continue
					}
					strat := strats[k%len(strats)]
					k++
					line := fmt.Sprintf("client.run w=%d:%d:%d:%d h=%d srv=A@%d new=0 look=0:A%d srv=A@%d f+=P%s/src/A@%d f+=P%s/src/B@%d f+=T*/split/B@%d par=%s:%d:0.A%d,0.A%d,0.B%d",
						wseed, nA, p, nB, h, p, i0, a2, hx(p1), a1, hx(bp), b, b, strat, g.Intn(100000), i1, i2, jb)
					rel := "b>a2"
					switch {
					case b <= a1:
						rel = "b<=a1"
					case b <= a2:
						rel = "a1<b<=a2"
					}
					cases = append(cases, c13Case{line, "concurrent/lost-race/" + rel})
				}
			}
		}
	}
	return cases
}

// c13MultiForkCases — a client that lives on after a first security report and is shown FURTHER forked heads.
//
// Input class (added because every shape of c13Enumerate presents at most ONE forked head to a client instance — the
// second lookup of a fork scenario is the /go.mod line of the same file, i.e. a replayed result — so "every failure is
// reported" was only ever exercised for the first report of an instance): a long-lived client at A@a (a > p) is answered,
// one lookup after the other, with two or three DIFFERENT validly signed heads of the fork B (common prefix p < b), each
// for a different record of B, in both size relations — b <= a (the presented head is checked against the client's own
// tree, which stays the same from report to report) and b > a — with the tiles the comparison needs (own tree: A's tiles;
// presented tree: B's tiles) or with the other side's tiles (refused tiles); then the honest server again.  The same with
// the forked heads presented at the same time (scheduled batch on the long-lived client).  Oracles: fork clause,
// c13CheckSecurityFresh, clCheckSecurity / c13CheckSecurityPar (message content), timeline.
func c13MultiForkCases(g *Gen) []c13Case {
	maxN, heights := 9, []int{1, 2, 4}
	if thorough {
		maxN, heights = 24, []int{1, 2, 3, 5, 8}
	}
	wseed := g.U64()%1000 + 1
	strats := []string{"rand", "memrace", "rr", "last", "canon"}
	var cases []c13Case
	k := 0
	for _, h := range heights {
		for nA := 2; nA <= maxN; nA++ {
			for p := 0; p < nA; p++ {
				if thorough && nA > 12 && g.Intn(nA/4) != 0 {
					continue
				}
				for _, shape := range []string{"le", "mixed"} {
					a := p + 1 + g.Intn(nA-p) // p < a <= nA
					if shape == "le" && a < p+2 {
						a = p + 2
						if a > nA {
							continue
						}
					}
					nB := a + g.Intn(3)
					w := clGetWorld(wseed, nA, p, nB)
					// the sizes of the forked heads, all different
					var pool []int
					hi := nB
					if shape == "le" {
						hi = a
					}
					for b := p + 1; b <= hi; b++ {
						pool = append(pool, b)
					}
					for i := len(pool) - 1; i > 0; i-- {
						j := g.Intn(i + 1)
						pool[i], pool[j] = pool[j], pool[i]
					}
					if len(pool) > 3 {
						pool = pool[:3]
					}
					if len(pool) < 2 {
						continue
					}
					// one record of B beyond the common prefix per head, all different, none of them a key of A
					used := map[int]bool{}
					var bs, js []int
					for _, b := range pool {
						for tries := 0; tries < 8; tries++ {
							j := p + g.Intn(b-p)
							if _, dup := w.A.byKey[w.B.recs[j].key()]; !dup && !used[j] {
								used[j] = true
								bs, js = append(bs, b), append(js, j)
								break
							}
						}
					}
					if len(bs) < 2 {
						continue
					}
					head := fmt.Sprintf("client.run w=%d:%d:%d:%d h=%d", wseed, nA, p, nB, h)
					first := fmt.Sprintf("srv=A@%d new=0 look=0:A%d", a, g.Intn(a))
					back := fmt.Sprintf("srv=A@%d look=0:A%d", nA, g.Intn(nA))
					// sequential
					steps := []string{head, first}
					for i, b := range bs {
						tiles := fmt.Sprintf("srv=B@%d,A@%d", b, a) // b <= a: checked against the client's own tree
						if b > a {
							tiles = fmt.Sprintf("srv=B@%d", b)
						}
						if g.Intn(5) == 0 {
							tiles = []string{fmt.Sprintf("srv=B@%d", b), fmt.Sprintf("srv=B@%d,A@%d", b, nA), fmt.Sprintf("srv=B@%d,B@%d", b, nB)}[g.Intn(3)]
						}
						steps = append(steps, tiles, fmt.Sprintf("look=0:B%d", js[i]))
						if g.Intn(3) == 0 {
							steps = append(steps, fmt.Sprintf("look=0:B%dm", js[i])) // replayed result in between
						}
					}
					steps = append(steps, back)
					cases = append(cases, c13Case{strings.Join(steps, " "), "multifork/seq/" + shape})
					// the same heads at the same time
					par := []string{head, first, fmt.Sprintf("srv=A@%d", a)}
					var items []string
					okAll := true
					for i, b := range bs {
						bp, ok := clLookupFile(w.B.recs[js[i]].path, w.B.recs[js[i]].vers)
						if !ok {
							okAll = false
							break
						}
						par = append(par, fmt.Sprintf("f+=P%s/src/B@%d", hx(bp), b))
						items = append(items, fmt.Sprintf("0.B%d", js[i]))
					}
					if !okAll {
						continue
					}
					if mx := bs[0]; shape != "le" {
						for _, b := range bs {
							if b > mx {
								mx = b
							}
						}
						if mx > a {
							par = append(par, fmt.Sprintf("f+=T*/split/B@%d", mx))
						}
					}
					par = append(par, fmt.Sprintf("par=%s:%d:%s", strats[k%len(strats)], g.Intn(100000), strings.Join(items, ",")))
					k++
					cases = append(cases, c13Case{strings.Join(par, " "), "multifork/par/" + shape})
				}
			}
		}
	}
	return cases
}

func c13Oracle(g *Gen, n int) {
	if n <= 0 {
		return
	}
	cases := c13Cases(g)
	stride := 1
	if len(cases) > n && n > 0 {
		stride = (len(cases) + n - 1) / n
	}
	off := g.Intn(stride)
	g.st.OracleTags["enumerated"] = len(cases)
	// the concurrent shapes are a small part of the enumeration: give them their own budget (about n/10 scenarios)
	var conc []c13Case
	for i, c := range cases {
		if strings.HasPrefix(c.tag, "concurrent/") {
			conc = append(conc, c)
			continue
		}
		if i%stride == off {
			c13Judge(g, c)
		}
	}
	cstride := 1
	if want := n/10 + 1; len(conc) > want {
		cstride = (len(conc) + want - 1) / want
	}
	coff := g.Intn(cstride)
	for i, c := range conc {
		if i%cstride == coff {
			c13Judge(g, c)
		}
	}
	// entry-level tile splices by an equivocating server: small-scope exhaustive sweep, own budget
	for _, c := range c13SpliceCases(g) {
		c13Judge(g, c)
	}
	// lost install races on a long-lived client (three heads in flight): small sweep, own budget
	for _, c := range c13LostRaceCases(g) {
		c13Judge(g, c)
	}
	// several different forked heads shown to one long-lived client, one after the other and at the same time
	for _, c := range c13MultiForkCases(g) {
		c13Judge(g, c)
	}
	// one honest log, two lookups in one client + another client writing the shared configuration in between
	for i := 0; i < n/12+1; i++ {
		c13Judge(g, c13Case{c14StaleFlushScenario(g.Rand, uint64(1+i%9), i%3 != 0), "concurrent/stale-flush"})
	}
	// fixed regression: F6' (client restarted at tree#2 of A, shown tree#7 of a fork with A's first two leaf hashes spliced in)
	c13Judge(g, c13Case{"client.run w=1:7:2:7 h=2 srv=A@2 new=0 look=0:A0 srv=B@7 new=0 look=0:B5 look=0:B5m", "regression/F6prime"})
	// the recorded known finding (no rollback after a failed reconciliation), minimal form: must keep reproducing
	c13Judge(g, c13Case{"client.run w=656:5:3:8 h=1 srv=A@3 new=1 look=1:A2 cfg=A@5 srv=B@4,B@8 look=1:B3 look=1:B0", "known/no-rollback"})
	// a stored head changed by another party to something the long-lived client cannot merge, a failed flush, then
	// FURTHER advances of that client while the file still holds those bytes (util_c13foreign.go; last, so that the
	// random stream of the classes above is unchanged)
	nFind := func() int {
		k := 0
		for t, v := range g.st.OracleTags {
			if strings.HasPrefix(t, "finding/") {
				k += v
			}
		}
		return k
	}
	before := nFind()
	for _, c := range c13ForeignHeadCases(g.Rand, false) {
		c13Judge(g, c)
	}
	g.st.OracleTags["foreign-class-findings"] = nFind() - before // none of them may be the recorded known finding: 0 on a correct client
	// the fork enumeration with every lookup response carrying a head in the forward-compatible encoding (additional text
	// lines after the hash, util_c13headext.go)
	for _, c := range c13HeadExtCases(g.Rand) {
		c13Judge(g, c)
	}
	// the same enumeration with signed heads of growing SIZE — many additional text lines, many co-signatures of unknown
	// keys — for all heads / only the forked head / only the client's own head (util_c13headext.go: c13LongHeadCases;
	// last, so that the random stream of the classes above is unchanged)
	for _, c := range c13LongHeadCases(g.Rand) {
		c13Judge(g, c)
	}
}

func c13Gen(g *Gen, n int) {
	c13GenTraces(g, n)
	c13GenForeignTraces(g, n)
}

// c13GenTraces is replaced in c14.go's trace machinery once the Lean machine exists.
var c13GenTraces = func(g *Gen, n int) {}
