package main

// C14 — concurrent lookups behave like sequential ones and fetch each record once.
//
// Phase 1 (implementation only): G goroutines × C clients over an honest, growing server, every external operation
// released one at a time by the deterministic scheduler (util_clsched.go) under seed-driven, adversarial
// ("conflict": all configuration writes last; "memrace": all tile reads last) and enumerated schedules.
// Oracles: all lookups succeed with exactly the server's lines, each file fetched at most once per client instance,
// the stored head and every in-memory head never regress and end at the largest head seen, private paths touch nothing.
// Further scenario families: deep trees under a low tile height (c14Deep*), and clients that were initialised early and
// later read records another client cached on a grown log (c14LateReaderScenario).
// Gen: the linearised traces of such runs as `client.pctrace` / `client.trace` lines for validation on the Lean machines.

import (
	"fmt"
	"sort"
	"strings"

	"golang.org/x/mod/sumdb/tlog"
)

func init() {
	register(&Prop{ID: "C14", Gen: c14Gen, Oracle: c14Oracle,
		Rule: "scheduled runs: log sizes 2..12 (thorough ..40), tile heights 1..3 (thorough ..8), 1..2 clients (thorough 3) on a shared configuration with shared or separate caches, 2..4 goroutines (thorough 8), lookups with repeats / `/go.mod` versions / upper-case paths / private paths, honest server growing between responses, cold or warm start; schedules: uniform random, round-robin, run-to-completion, configuration-writes-last, tile-reads-last; plus a few deep worlds under a low tile height (511..1500 records, tile height 1, rarely 2, sizes with many one bits, records far from the right edge: more than 16 tiles in one tile request; cold start, stored earlier large head, or warm cache): a sequential honest sweep and scheduled runs of 2..4 goroutines on 1..2 clients over a growing server; plus early readers on a shared cache (2..3 clients, one or two of them initialised on a small tree, cold / stored head / warmed cache; the log grows; another client fetches and caches records at or beyond the readers' trees, sequentially or as a scheduled batch; the readers then ask for exactly those module@versions, plain or /go.mod — cache hits whose stored head is newer than the reader's — sequentially, as a batch of reader goroutines, or in one batch with further writer lookups, writer-first and adversarial schedules; restart epilogue); non-trivial = at least two goroutines overlap in time; distinct by scenario line"})
}

// c14Scenario builds one concurrent scenario line.
func c14Scenario(r *Rand, wseed uint64) (string, bool) {
	maxN, maxH, maxC, maxG := 12, 3, 2, 4
	if thorough {
		maxN, maxH, maxC, maxG = 40, 4, 3, 8
	}
	N := 2 + r.Intn(maxN-1)
	h := 1 + r.Intn(maxH)
	if thorough && r.Intn(6) == 0 {
		h = 8
	}
	C := 1 + r.Intn(maxC)
	G := 2 + r.Intn(maxG-1)
	w := clGetWorld(wseed, N, 0, 0)
	parts := []string{fmt.Sprintf("client.run w=%d:%d:0:0 h=%d", wseed, N, h)}
	private := r.Intn(4) == 0
	privPrefix := ""
	if private {
		rec := w.A.recs[r.Intn(N)]
		privPrefix = rec.path
		if i := strings.IndexByte(rec.path, '/'); i > 0 && r.Bool() {
			privPrefix = rec.path[:i] + "/*"
		}
		pc := r.Intn(C)
		parts = append(parts, fmt.Sprintf("nosumdb=%d:%s", pc, hx("corp.example/*,"+privPrefix)))
	}
	// warm start
	warm := 0
	if r.Intn(2) == 0 {
		warm = 1 + r.Intn(N)
		ids := "*"
		if r.Bool() {
			ids = "-"
			if warm > 0 {
				ids = itoa(r.Intn(warm))
			}
		}
		parts = append(parts, fmt.Sprintf("warm=0:A@%d:%s", warm, ids))
	}
	sepCaches := r.Bool()
	for c := 0; c < C; c++ {
		grp := 0
		if sepCaches {
			grp = c
		}
		parts = append(parts, fmt.Sprintf("new=%d:%d", c, grp))
	}
	// lookups
	var items []string
	maxID := 0
	for i := 0; i < G; i++ {
		id := r.Intn(N)
		if i > 0 && r.Intn(3) == 0 {
			// repeat an earlier key (same client or not)
			prev := items[r.Intn(len(items))]
			key := prev[strings.IndexByte(prev, '.')+1:]
			key = strings.TrimSuffix(key, "m")
			fmt.Sscanf(key, "A%d", &id)
		}
		if id > maxID {
			maxID = id
		}
		k := "A" + itoa(id)
		if r.Intn(3) == 0 {
			k += "m"
		}
		items = append(items, fmt.Sprintf("%d.%s", r.Intn(C), k))
	}
	// honest growing server: every response comes from a tree that holds the record
	lo := maxID + 1
	if warm > lo {
		lo = warm
	}
	var sizes []int
	for i := 0; i < G; i++ {
		sizes = append(sizes, lo+r.Intn(N-lo+1))
	}
	sort.Ints(sizes)
	ss := make([]string, len(sizes))
	for i, s := range sizes {
		ss[i] = itoa(s)
	}
	parts = append(parts, "grow="+strings.Join(ss, ","))
	strat := []string{"rand", "rand", "rand", "conflict", "conflict", "memrace", "rr", "canon", "last"}[r.Intn(9)]
	parts = append(parts, fmt.Sprintf("par=%s:%d:%s", strat, r.Intn(1000000), strings.Join(items, ",")))
	// a sequential epilogue on every client: everything is cached now, the head stays
	if r.Intn(3) == 0 {
		parts = append(parts, fmt.Sprintf("look=%d:A%d", r.Intn(C), r.Intn(lo)))
	}
	return strings.Join(parts, " "), true
}

// c14StaleFlushScenario: ONE honest log; client 0 initialised at head a; then, concurrently, two lookups on client 0
// (responses carrying heads s1 < s3) and one lookup on client 1 (head s2, s1 <= s2 <= s3) which shares the
// configuration; schedule class "rflast": client 0's goroutines install their heads in memory and pause just before
// ReadConfig while client 1 moves the stored head.  The stored head must never move backwards whatever happens next.
func c14StaleFlushScenario(r *Rand, wseed uint64, monotone bool) string {
	N := 6 + r.Intn(7)
	h := 1 + r.Intn(3)
	a := 3 + r.Intn(N-5) // 3 .. N-3
	s1 := a + 1 + r.Intn(N-a-2)
	s2 := s1 + r.Intn(N-s1)
	if s2 == s1 {
		s2 = s1 + 1
	}
	s3 := s2 + 1 + r.Intn(N-s2)
	if s3 > N {
		s3 = N
	}
	ids := []int{r.Intn(a), r.Intn(a), r.Intn(a), r.Intn(a)}
	for k := 1; k < 4; k++ {
		for ids[k] == ids[0] || (k == 3 && ids[3] == ids[1]) {
			ids[k] = (ids[k] + 1) % a
		}
	}
	strat, sizes := "rflast", fmt.Sprintf("%d,%d,%d", s1, s2, s3)
	if !monotone {
		// canonical order runs client 0 first: its two requests come first, client 1's last (a lagging frontend)
		strat, sizes = "rflastc", fmt.Sprintf("%d,%d,%d", s1, s3, s2)
	}
	return fmt.Sprintf("client.run w=%d:%d:0:0 h=%d srv=A@%d new=0 look=0:A%d new=1:1 grow=%s par=%s:%d:0.A%d,1.A%d,0.A%d",
		wseed, N, h, a, ids[0], sizes, strat, r.Intn(1000000), ids[1], ids[2], ids[3])
}

// clCheckEndsAtMax: after all lookups returned, the stored head and each client's in-memory head are the largest head seen.
func c14CheckEndsAtMax(out *clOutcome) []clFinding {
	var fs []clFinding
	w := out.w
	seenBy := map[int]int64{}
	var all int64
	for _, cv := range out.env.cfgHist {
		if cv.by < 0 {
			if h := w.classifyHead(cv.val); h.valid && h.n > all {
				all = h.n
			}
		}
	}
	live := map[int]bool{}
	for _, ev := range out.env.trace {
		if ev.C < 0 {
			continue
		}
		if ev.Kind == "new" {
			seenBy[ev.C] = 0
			live[ev.C] = false
		}
		if ev.Err != "" {
			continue
		}
		var msg []byte
		switch {
		case ev.Kind == "rf" && ev.File == clName+"/latest":
			msg = ev.Data
			live[ev.C] = true
		case (ev.Kind == "rr" && strings.HasPrefix(ev.File, "/lookup/")) || (ev.Kind == "rc" && strings.HasPrefix(ev.File, clName+"/lookup/")):
			if _, _, rest, err := tlog.ParseRecord(ev.Data); err == nil {
				msg = rest
			}
		}
		if len(msg) > 0 {
			if h := w.classifyHead(msg); h.valid {
				if h.n > seenBy[ev.C] {
					seenBy[ev.C] = h.n
				}
				if h.n > all {
					all = h.n
				}
			}
		}
	}
	final := w.classifyHead(out.env.config[clName+"/latest"])
	if !final.valid || final.n != all {
		fs = append(fs, clFinding{"C14 stored head does not end at the largest tree seen", fmt.Sprintf("stored=%d largest=%d", final.n, all)})
	}
	for c, cl := range out.clients {
		if !live[c] {
			continue // never initialised (only private lookups)
		}
		if n := clLatestN(cl); n != seenBy[c] {
			fs = append(fs, clFinding{"C14 in-memory head of a client does not end at the largest tree it saw", fmt.Sprintf("client %d latest=%d largest=%d", c, n, seenBy[c])})
		}
	}
	return fs
}

// c14CheckPrivate: a private path returns ErrGONOSUMDB and its goroutine performs no external operation.
func c14CheckPrivate(out *clOutcome) []clFinding {
	var fs []clFinding
	for _, lk := range out.looks {
		if !lk.private {
			continue
		}
		if lk.kind != "err:gonosumdb" {
			fs = append(fs, clFinding{"C14 lookup of a private path did not return ErrGONOSUMDB", lk.key + " -> " + lk.kind})
		}
		for _, ev := range out.env.trace[lk.from:lk.to] {
			if ev.C == lk.c && ev.G == lk.g && ev.Kind != "start" && ev.Kind != "ret" && ev.Kind != "new" {
				fs = append(fs, clFinding{"C14 lookup of a private path performed an external operation", lk.key + ": " + ev.Kind + " " + ev.File})
			}
		}
	}
	// a client instance that only ever saw private lookups performed nothing at all
	onlyPrivate := map[int]bool{}
	for c := range out.clients {
		onlyPrivate[c] = true
	}
	for _, lk := range out.looks {
		if !lk.private {
			onlyPrivate[lk.c] = false
		}
	}
	for _, ev := range out.env.trace {
		if ev.C >= 0 && onlyPrivate[ev.C] && ev.Kind != "start" && ev.Kind != "ret" && ev.Kind != "new" {
			fs = append(fs, clFinding{"C14 a client that only looked up private paths performed an external operation", ev.Kind + " " + ev.File})
		}
	}
	return fs
}

func c14Judge(g *Gen, line string, tag string) *clOutcome {
	sc, ok := clParseScenario(strings.Fields(line)[1:])
	if !ok {
		g.Fail("harness: malformed scenario", line)
		return nil
	}
	out := clRunScenario(sc)
	g.Case(tag)
	if out.bad {
		g.Fail("harness: scenario rejected", line+" "+out.env.badWhy)
		return nil
	}
	if out.hang {
		g.Fail("C14 concurrent lookups hang (deadlock or livelock under the schedule)", "", line)
		return nil
	}
	for _, lk := range out.looks {
		g.st.OracleTags["result/"+lk.kind]++
		if lk.kind == "panic" {
			g.Fail("C14 lookup panics", fmt.Sprint(lk.err), line)
		}
	}
	nconf, nretry := 0, 0
	for _, ev := range out.env.trace {
		if ev.Kind == "wf" && ev.Err == "conflict" {
			nconf++
		}
	}
	if nconf > 0 {
		g.st.OracleTags["reached/ErrWriteConflict-retry"]++
	}
	_ = nretry
	clReport(g, clCheckHonest(out, "C14"), sc)
	ffs, rereads := clCheckFetchOnce2(out)
	clReport(g, ffs, sc)
	if rereads > 0 {
		g.st.OracleTags["observation/full-tile-file-read-again-under-another-width"]++
	}
	clReport(g, clCheckTimeline(out), sc)
	clReport(g, clCheckAuthentic(out), sc)
	clReport(g, c14CheckEndsAtMax(out), sc)
	clReport(g, c14CheckPrivate(out), sc)
	return out
}

// ---------------------------------------------------------------------------------------------
// Deep trees under a low tile height.
//
// Input class added for the clause "with an honest server any number of goroutines and clients all succeed with the
// server's lines, for ALL tile heights and trees": a single proof that touches MANY tiles.  The scenarios above use
// trees of at most 12 (thorough 40) records, so no ReadTiles call ever asked for more than a handful of tiles and
// everything in the client that depends on the NUMBER of tiles of one request (slot bookkeeping of the parallel tile
// reads, batching, the once-cache under dozens of simultaneous keys) was never exercised.  With tile height 1 (2, rarely)
// and several hundred to 1500 records, authenticating a record far from the right edge needs about 2*log2(N) tiles in
// one call (N = 1023, record 0: 10 right-edge tiles + 9 parents), and a consistency check between two large heads
// (warm start at a large size, server grown since) needs about as many again.
//
// Sizes 511..1500: all-ones shapes 2^k-1 and their neighbours (longest right edge), sizes with many one bits, and uniform
// ones; records: the left edge (0, 1, 2, 3), both sides of the big subtree boundaries (255|256, 511|512, N/2), the first
// quarter, and the right edge (N-1, few tiles: the contrast case).  These worlds are expensive (a tree of N records and
// one real server per distinct response size), so there are only a few of them and the response sizes of the growing
// server come from a small set.

func c14DeepN(r *Rand) int {
	switch r.Intn(10) {
	case 0, 1, 2, 3, 4:
		// 1023 with up to two of the lower nine bits cleared: 8..10 right-edge tiles on top of the 9 tiles of a
		// left-edge record's path (the number of tiles of one request grows with the number of one bits of the size)
		n := 1023
		for k := r.Intn(3); k > 0; k-- {
			n &^= 1 << uint(r.Intn(9))
		}
		return n
	case 5:
		return 1022 + r.Intn(4) // 1022 .. 1025: all ones, and the shortest right edge next to it
	case 6, 7:
		// eleven levels, many one bits
		return []int{1279, 1407, 1439, 1471, 1487, 1495, 1499, 1500}[r.Intn(8)]
	case 8:
		return []int{511, 512, 513, 767, 895, 959}[r.Intn(6)]
	}
	return 511 + r.Intn(1500-511+1) // uniform (few one bits as a rule: the contrast case)
}

// c14DeepIDs: records whose proofs are long (far from the right edge) plus the right edge itself, all < lim.
func c14DeepIDs(r *Rand, N, lim, k int) []int {
	cand := []int{0, 1, 2, 3, 255, 256, 511, 512, N/2 - 1, N / 2, r.Intn(N/4 + 1), r.Intn(N/4 + 1), r.Intn(N), N - 2, N - 1}
	var ids []int
	for len(ids) < k {
		id := cand[r.Intn(len(cand))]
		if len(ids) == 0 {
			id = cand[r.Intn(4)] // always at least one record on the far left
		}
		if id < 0 {
			id = 0
		}
		if id >= lim {
			id = r.Intn(lim)
		}
		ids = append(ids, id)
	}
	return ids
}

func c14DeepH(r *Rand) int {
	if r.Intn(6) == 0 {
		return 2 // fewer tiles per proof; the same worlds, the other low height
	}
	return 1
}

// c14DeepWarm: start from an earlier large head a: the stored head alone (cold cache), or an honest earlier client run
// that looked up the right-edge record of that tree (few tiles cached) or a far-left one (its whole path cached, partial
// right-edge tiles of the old width included).
func c14DeepWarm(r *Rand, a int) string {
	switch r.Intn(4) {
	case 0, 1:
		return fmt.Sprintf("cfg=A@%d", a)
	case 2:
		return fmt.Sprintf("warm=0:A@%d:%d", a, a-1)
	}
	return fmt.Sprintf("warm=0:A@%d:%d", a, r.Intn(4))
}

// c14DeepSeqScenario: the sequential honest sweep over a deep tree: one or two clients (own caches), cold or warm start
// from an earlier large head (the first lookup then proves consistency between two large trees), lookups one after the
// other; the server may have grown between the warm-up and the sweep.  All must succeed with the server's lines.
func c14DeepSeqScenario(r *Rand, wseed uint64) string {
	N := c14DeepN(r)
	parts := []string{fmt.Sprintf("client.run w=%d:%d:0:0 h=%d", wseed, N, c14DeepH(r))}
	if r.Intn(2) == 0 {
		a := 300 + r.Intn(N-300) // 300 .. N-1: an earlier large head
		if r.Bool() {
			a = N/2 + r.Intn(2) // about half: the old tree is one big subtree of the new one
		}
		parts = append(parts, c14DeepWarm(r, a))
	}
	parts = append(parts, "new=0:0")
	C := 1
	if r.Intn(3) == 0 {
		C = 2
		parts = append(parts, "new=1:1")
	}
	k := 5 + r.Intn(4)
	for i, id := range c14DeepIDs(r, N, N, k) {
		key := "A" + itoa(id)
		if r.Intn(4) == 0 {
			key += "m"
		}
		parts = append(parts, fmt.Sprintf("look=%d:%s", i%C, key))
	}
	return strings.Join(parts, " ")
}

// c14DeepParScenario: the concurrent version: 2..4 goroutines on 1..2 clients sharing the configuration (shared or
// separate caches) over a deep tree, honest server growing between responses, cold or warm start, every schedule class.
func c14DeepParScenario(r *Rand, wseed uint64) string {
	N := c14DeepN(r)
	parts := []string{fmt.Sprintf("client.run w=%d:%d:0:0 h=%d", wseed, N, c14DeepH(r))}
	lo := N - 3 // the growing server answers from A@(N-3) .. A@N: at most four real servers per world
	warm := 0
	if r.Intn(3) == 0 {
		warm = []int{N / 2, N/2 + 1, lo}[r.Intn(3)]
		parts = append(parts, c14DeepWarm(r, warm))
	}
	C := 1 + r.Intn(2)
	sep := r.Bool()
	for c := 0; c < C; c++ {
		grp := 0
		if sep {
			grp = c
		}
		parts = append(parts, fmt.Sprintf("new=%d:%d", c, grp))
	}
	G := 2 + r.Intn(3)
	ids := c14DeepIDs(r, N, lo, G)
	if G > 2 && r.Bool() {
		ids[G-1] = ids[0] // a repeated key: the once-cache must hand the same result to both
	}
	var items, ss []string
	for _, id := range ids {
		key := "A" + itoa(id)
		if r.Intn(4) == 0 {
			key += "m"
		}
		items = append(items, fmt.Sprintf("%d.%s", r.Intn(C), key))
	}
	var sizes []int
	for i := 0; i < G; i++ {
		sizes = append(sizes, lo+r.Intn(N-lo+1))
	}
	sort.Ints(sizes)
	for _, s := range sizes {
		ss = append(ss, itoa(s))
	}
	parts = append(parts, "grow="+strings.Join(ss, ","))
	strat := []string{"rand", "rand", "conflict", "memrace", "rr", "canon", "last"}[r.Intn(7)]
	parts = append(parts, fmt.Sprintf("par=%s:%d:%s", strat, r.Intn(1000000), strings.Join(items, ",")))
	if r.Intn(3) == 0 {
		parts = append(parts, fmt.Sprintf("look=%d:A%d", r.Intn(C), r.Intn(lo)))
	}
	return strings.Join(parts, " ")
}

// c14DeepTag counts, for the evidence, the runs in which a client read more than 16 distinct tiles while one of its
// lookups ran (exact for sequential lookups, an upper bound for concurrent ones).
func c14DeepTag(g *Gen, out *clOutcome) {
	if out == nil {
		return
	}
	most := 0
	for _, lk := range out.looks {
		if lk.to < lk.from || lk.to > len(out.env.trace) {
			continue
		}
		seen := map[string]bool{}
		for _, ev := range out.env.trace[lk.from:lk.to] {
			if ev.C == lk.c && ev.Kind == "rc" && strings.Contains(ev.File, "/tile/") {
				seen[ev.File] = true
			}
		}
		if len(seen) > most {
			most = len(seen)
		}
	}
	switch {
	case most > 16:
		g.st.OracleTags["deep/more-than-16-tiles-read-during-one-lookup"]++
	case most > 8:
		g.st.OracleTags["deep/9-to-16-tiles-read-during-one-lookup"]++
	}
}

// ---------------------------------------------------------------------------------------------
// A reader that was initialised EARLY, on a shared cache that other clients keep filling.
//
// Input class added for the clause "any number of goroutines and clients performing lookups all succeed and receive
// exactly the server's go.sum lines" (and, in consequence, "every head ends at the largest tree seen"): a cache hit
// whose stored tree head is NEWER than the reading client's own head.  Several clients (several go commands) share the
// cache and the configuration; a client reads the configuration once, at its first lookup; other clients go on
// fetching and caching records of a log that has grown since.  When the early client then asks for exactly such a
// module@version, the record comes from the cache together with a signed head larger than anything the reader has
// seen, and the record id lies beyond the reader's tree: the reader has to merge the head that is stored WITH the
// record before it can authenticate the record.
//
// Why it was missing: in c14Scenario all clients are created immediately before the one concurrent batch, so a
// reader is initialised before another client's WriteCache and reads that very file afterwards only under a rare
// schedule; and every response tree there holds every requested record, with a warm-up head that is almost always
// beyond the requested ids.  The sequential epilogue asks for a record below every head.  No scenario had the
// order  reader's first lookup (small tree) — log grows — other client caches records beyond that tree — reader
// asks for one of them.
//
// Shape: C = 2..3 clients on one configuration, cache group 0 shared by the writer and at least one reader (a third
// client may have its own cache: the contrast case, it fetches from the network); start cold, from a stored head, or
// from a warmed cache, all at most the readers' first trees; each reader does its first lookup on a tree of size
// s0 < N; then the writer looks up k records, at least one with id >= every s0, the server growing as it goes
// (sequentially, each answer from a tree that may hold the record as its LAST one, or as one scheduled batch); then
// the readers ask for the writer's module@versions (plain or /go.mod: the same cache file) — sequentially, as one
// scheduled batch of reader goroutines (several cached heads in flight on one reader), or in one batch with further
// lookups of the writer on the same keys (writer-first, uniform and adversarial schedules).  Everything is honest:
// every lookup must succeed with the server's lines, the heads must end at the largest head seen.
func c14LateReaderScenario(r *Rand, wseed uint64) (string, string) {
	maxN, maxH := 12, 3
	if thorough {
		maxN, maxH = 40, 4
	}
	N := 4 + r.Intn(maxN-3)
	h := 1 + r.Intn(maxH)
	if thorough && r.Intn(6) == 0 {
		h = 8
	}
	C := 2
	if r.Intn(4) == 0 {
		C = 3
	}
	W := r.Intn(C)
	var readers []int
	for c := 0; c < C; c++ {
		if c != W {
			readers = append(readers, c)
		}
	}
	if r.Bool() {
		readers[0], readers[len(readers)-1] = readers[len(readers)-1], readers[0]
	}
	key := func(id int) string {
		k := "A" + itoa(id)
		if r.Intn(4) == 0 {
			k += "m"
		}
		return k
	}
	parts := []string{fmt.Sprintf("client.run w=%d:%d:0:0 h=%d", wseed, N, h)}
	// the readers' first trees, in the order in which they start (the server never shrinks)
	s0 := make([]int, len(readers))
	for i := range s0 {
		s0[i] = 1 + r.Intn(N-1) // 1 .. N-1
		if r.Intn(3) == 0 {
			s0[i] = 1 + r.Intn(2) // a reader that starts on a (nearly) empty log
		}
	}
	sort.Ints(s0)
	sMin, sMax := s0[0], s0[len(s0)-1]
	switch r.Intn(3) {
	case 1:
		parts = append(parts, fmt.Sprintf("cfg=A@%d", 1+r.Intn(sMin)))
	case 2:
		a := 1 + r.Intn(sMin)
		ids := []string{"*", "-", itoa(r.Intn(a))}[r.Intn(3)]
		parts = append(parts, fmt.Sprintf("warm=0:A@%d:%s", a, ids))
	}
	for c := 0; c < C; c++ {
		grp := 0
		if C == 3 && c == readers[1] && r.Intn(3) == 0 {
			grp = 1 // the contrast case: this reader does not see the writer's cache
		}
		parts = append(parts, fmt.Sprintf("new=%d:%d", c, grp))
	}
	for i, c := range readers {
		parts = append(parts, fmt.Sprintf("srv=A@%d", s0[i]), fmt.Sprintf("look=%d:%s", c, key(r.Intn(s0[i]))))
	}
	// the writer: k distinct records, the first one beyond every reader's tree
	k := 1 + r.Intn(4)
	wids := []int{sMax + r.Intn(N-sMax)}
	for len(wids) < k {
		id := r.Intn(N)
		if r.Bool() {
			id = sMin + r.Intn(N-sMin) // beyond the earliest reader's tree
		}
		dup := false
		for _, x := range wids {
			dup = dup || x == id
		}
		if dup {
			break
		}
		wids = append(wids, id)
	}
	if r.Bool() {
		i := r.Intn(len(wids))
		wids[0], wids[i] = wids[i], wids[0]
	}
	maxID := 0
	for _, id := range wids {
		if id > maxID {
			maxID = id
		}
	}
	tcur := sMax
	strats := []string{"rand", "rand", "conflict", "memrace", "rr", "canon", "last"}
	growStep := func(lo, cnt int) string {
		var sizes []int
		for i := 0; i < cnt; i++ {
			sizes = append(sizes, lo+r.Intn(N-lo+1))
		}
		sort.Ints(sizes)
		ss := make([]string, len(sizes))
		for i, s := range sizes {
			ss[i] = itoa(s)
		}
		tcur = sizes[len(sizes)-1]
		return "grow=" + strings.Join(ss, ",")
	}
	if r.Intn(3) > 0 {
		// one after the other; the answering tree holds the record, often as its last one
		for _, id := range wids {
			t := tcur
			if id+1 > t {
				t = id + 1
			}
			if r.Bool() {
				t += r.Intn(N - t + 1)
			}
			tcur = t
			parts = append(parts, fmt.Sprintf("srv=A@%d", t), fmt.Sprintf("look=%d:%s", W, key(id)))
		}
	} else {
		// one scheduled batch of the writer's goroutines over the growing server
		lo := tcur
		if maxID+1 > lo {
			lo = maxID + 1
		}
		var items []string
		for _, id := range wids {
			items = append(items, fmt.Sprintf("%d.%s", W, key(id)))
		}
		parts = append(parts, growStep(lo, len(wids)),
			fmt.Sprintf("par=%s:%d:%s", strats[r.Intn(len(strats))], r.Intn(1000000), strings.Join(items, ",")))
		// a goroutine served by the cache leaves an answer of the growing server unused: from here on the present tree
		parts = append(parts, fmt.Sprintf("srv=A@%d", tcur))
	}
	// the readers: cache hits on the writer's records, first of all one beyond the reader's own tree
	var beyond []int
	for _, id := range wids {
		if id >= sMax {
			beyond = append(beyond, id)
		}
	}
	targets := func() []int {
		ts := []int{beyond[r.Intn(len(beyond))]}
		if r.Intn(4) == 0 {
			ts[0] = wids[r.Intn(len(wids))]
		}
		for n := r.Intn(3); n > 0; n-- {
			ts = append(ts, wids[r.Intn(len(wids))])
		}
		if r.Intn(4) == 0 {
			ts = append(ts, r.Intn(tcur)) // any record of the present tree: cached or not
		}
		return ts
	}
	form := []string{"seq", "seq", "par-readers", "mixed"}[r.Intn(4)]
	switch form {
	case "seq":
		for _, c := range readers {
			for _, id := range targets() {
				parts = append(parts, fmt.Sprintf("look=%d:%s", c, key(id)))
			}
		}
	case "par-readers":
		var items []string
		for _, c := range readers {
			for _, id := range targets() {
				items = append(items, fmt.Sprintf("%d.%s", c, key(id)))
			}
		}
		parts = append(parts, fmt.Sprintf("par=%s:%d:%s", strats[r.Intn(len(strats))], r.Intn(1000000), strings.Join(items, ",")))
	case "mixed":
		// the writer goes on (new records, the log grows further) while the readers ask for old and new ones
		var items []string
		lo := tcur
		var fresh []int
		for n := 1 + r.Intn(2); n > 0; n-- {
			id := r.Intn(N)
			fresh = append(fresh, id)
			if id+1 > lo {
				lo = id + 1
			}
			items = append(items, fmt.Sprintf("%d.%s", W, key(id)))
		}
		for _, c := range readers {
			ts := targets()
			if r.Bool() {
				ts = append(ts, fresh[r.Intn(len(fresh))])
			}
			for _, id := range ts {
				items = append(items, fmt.Sprintf("%d.%s", c, key(id)))
			}
		}
		// writer first (operations are released in client order): every reader goroutine finds the cache filled
		st := strats[r.Intn(len(strats))]
		if r.Bool() {
			switch W {
			case 0:
				st = "canon"
			case C - 1:
				st = "last"
			}
		}
		parts = append(parts, growStep(lo, len(items)), fmt.Sprintf("par=%s:%d:%s", st, r.Intn(1000000), strings.Join(items, ",")))
		parts = append(parts, fmt.Sprintf("srv=A@%d", tcur))
	}
	// epilogue: anybody asks for anything in the present tree; or a reader restarts and asks again
	switch r.Intn(4) {
	case 0:
		parts = append(parts, fmt.Sprintf("look=%d:%s", r.Intn(C), key(r.Intn(tcur))))
	case 1:
		c := readers[r.Intn(len(readers))]
		parts = append(parts, fmt.Sprintf("new=%d:0", c), fmt.Sprintf("look=%d:%s", c, key(wids[r.Intn(len(wids))])))
	}
	return strings.Join(parts, " "), form
}

// c14LateReaderTag counts, for the evidence, the runs in which the class was actually reached: a sequential lookup whose
// record came from the cache with a validly signed head larger than the client's in-memory head at that moment, the
// record id lying at or beyond that in-memory tree size.
func c14LateReaderTag(g *Gen, out *clOutcome) {
	if out == nil {
		return
	}
	hit, beyond := false, false
	for _, lk := range out.looks {
		if lk.g != "s" || lk.to < lk.from || lk.to > len(out.env.trace) || lk.memN0 <= 0 {
			continue
		}
		for _, ev := range out.env.trace[lk.from:lk.to] {
			if ev.C != lk.c || ev.Kind != "rc" || ev.Err != "" || !strings.HasPrefix(ev.File, clName+"/lookup/") {
				continue
			}
			id, _, rest, err := tlog.ParseRecord(ev.Data)
			if err != nil {
				continue
			}
			if hd := out.w.classifyHead(rest); hd.valid && hd.n > lk.memN0 {
				hit = true
				if id >= lk.memN0 {
					beyond = true
				}
			}
		}
	}
	if hit {
		g.st.OracleTags["late-reader/cache-hit-with-head-newer-than-the-readers"]++
	}
	if beyond {
		g.st.OracleTags["late-reader/cached-record-id-beyond-the-readers-tree"]++
	}
}

func c14Oracle(g *Gen, n int) {
	wseed := g.U64()%1000 + 1
	for i := 0; i < n; i++ {
		if i%4 == 3 {
			c14Judge(g, c14StaleFlushScenario(g.Rand, wseed+uint64(i%7), true), "sched/stale-flush")
			continue
		}
		line, _ := c14Scenario(g.Rand, wseed+uint64(i%7))
		tag := "sched/" + line[strings.Index(line, "par=")+4:][:4]
		c14Judge(g, line, tag)
	}
	// deep trees / low tile height: a few (expensive) worlds per run.  They run last and draw from a generator of their
	// own (derived from the world seed), so that the stream of the scenarios above is what it was before they existed.
	r := &Rand{s: wseed*0x9e3779b97f4a7c15 + 0xdee9}
	nseq, npar := 3, 4
	if thorough {
		nseq, npar = 30, 60
	}
	if n < 50 {
		nseq, npar = 1, 1
	}
	for i := 0; i < nseq; i++ {
		c14DeepTag(g, c14Judge(g, c14DeepSeqScenario(r, wseed+uint64(i%3)), "deep/sequential-sweep"))
	}
	for i := 0; i < npar; i++ {
		line := c14DeepParScenario(r, wseed+uint64(i%3))
		strat := line[strings.Index(line, "par=")+4:]
		c14DeepTag(g, c14Judge(g, line, "deep/sched/"+strat[:strings.IndexByte(strat, ':')]))
	}
	// early readers on a shared cache (see c14LateReaderScenario): small worlds (the same ones as above), cheap; after
	// everything else and from a generator of their own, for the same reason
	r2 := &Rand{s: wseed*0x9e3779b97f4a7c15 + 0x1a7e}
	for i := 0; i < n/4+2; i++ {
		line, form := c14LateReaderScenario(r2, wseed+uint64(i%7))
		c14LateReaderTag(g, c14Judge(g, line, "late-reader/"+form))
	}
}

func c14Gen(g *Gen, n int) { c14GenTraces(g, n) }

var c14GenTraces = func(g *Gen, n int) {}
