package main

// C14 — concurrent lookups behave like sequential ones and fetch each record once.
//
// Phase 1 (implementation only): G goroutines × C clients over an honest, growing server, every external operation
// released one at a time by the deterministic scheduler (util_clsched.go) under seed-driven, adversarial
// ("conflict": all configuration writes last; "memrace": all tile reads last) and enumerated schedules.
// Oracles: all lookups succeed with exactly the server's lines, each file fetched at most once per client instance,
// the stored head and every in-memory head never regress and end at the largest head seen, private paths touch nothing.
// Gen: the linearised traces of such runs as `client.pctrace` / `client.trace` lines for validation on the Lean machines.

import (
	"fmt"
	"sort"
	"strings"

	"golang.org/x/mod/sumdb/tlog"
)

func init() {
	register(&Prop{ID: "C14", Gen: c14Gen, Oracle: c14Oracle,
		Rule: "scheduled runs: log sizes 2..12 (thorough ..40), tile heights 1..3 (thorough ..8), 1..2 clients (thorough 3) on a shared configuration with shared or separate caches, 2..4 goroutines (thorough 8), lookups with repeats / `/go.mod` versions / upper-case paths / private paths, honest server growing between responses, cold or warm start; schedules: uniform random, round-robin, run-to-completion, configuration-writes-last, tile-reads-last; non-trivial = at least two goroutines overlap in time; distinct by scenario line"})
}

// c14Scenario builds one concurrent scenario line.
func c14Scenario(r *Rand, wseed uint64) (string, bool) {
	maxN, maxH, maxC, maxG := 12, 3, 2, 4
	if thorough {
		maxN, maxH, maxC, maxG = 40, 4, 3, 8
	}
	N := 2 + r.Intn(maxN-1)
	h := 1 + r.Intn(maxH)
	if thorough && r.Intn(6) == 0 {
		h = 8
	}
	C := 1 + r.Intn(maxC)
	G := 2 + r.Intn(maxG-1)
	w := clGetWorld(wseed, N, 0, 0)
	parts := []string{fmt.Sprintf("client.run w=%d:%d:0:0 h=%d", wseed, N, h)}
	private := r.Intn(4) == 0
	privPrefix := ""
	if private {
		rec := w.A.recs[r.Intn(N)]
		privPrefix = rec.path
		if i := strings.IndexByte(rec.path, '/'); i > 0 && r.Bool() {
			privPrefix = rec.path[:i] + "/*"
		}
		pc := r.Intn(C)
		parts = append(parts, fmt.Sprintf("nosumdb=%d:%s", pc, hx("corp.example/*,"+privPrefix)))
	}
	// warm start
	warm := 0
	if r.Intn(2) == 0 {
		warm = 1 + r.Intn(N)
		ids := "*"
		if r.Bool() {
			ids = "-"
			if warm > 0 {
				ids = itoa(r.Intn(warm))
			}
		}
		parts = append(parts, fmt.Sprintf("warm=0:A@%d:%s", warm, ids))
	}
	sepCaches := r.Bool()
	for c := 0; c < C; c++ {
		grp := 0
		if sepCaches {
			grp = c
		}
		parts = append(parts, fmt.Sprintf("new=%d:%d", c, grp))
	}
	// lookups
	var items []string
	maxID := 0
	for i := 0; i < G; i++ {
		id := r.Intn(N)
		if i > 0 && r.Intn(3) == 0 {
			// repeat an earlier key (same client or not)
			prev := items[r.Intn(len(items))]
			key := prev[strings.IndexByte(prev, '.')+1:]
			key = strings.TrimSuffix(key, "m")
			fmt.Sscanf(key, "A%d", &id)
		}
		if id > maxID {
			maxID = id
		}
		k := "A" + itoa(id)
		if r.Intn(3) == 0 {
			k += "m"
		}
		items = append(items, fmt.Sprintf("%d.%s", r.Intn(C), k))
	}
	// honest growing server: every response comes from a tree that holds the record
	lo := maxID + 1
	if warm > lo {
		lo = warm
	}
	var sizes []int
	for i := 0; i < G; i++ {
		sizes = append(sizes, lo+r.Intn(N-lo+1))
	}
	sort.Ints(sizes)
	ss := make([]string, len(sizes))
	for i, s := range sizes {
		ss[i] = itoa(s)
	}
	parts = append(parts, "grow="+strings.Join(ss, ","))
	strat := []string{"rand", "rand", "rand", "conflict", "conflict", "memrace", "rr", "canon", "last"}[r.Intn(9)]
	parts = append(parts, fmt.Sprintf("par=%s:%d:%s", strat, r.Intn(1000000), strings.Join(items, ",")))
	// a sequential epilogue on every client: everything is cached now, the head stays
	if r.Intn(3) == 0 {
		parts = append(parts, fmt.Sprintf("look=%d:A%d", r.Intn(C), r.Intn(lo)))
	}
	return strings.Join(parts, " "), true
}

// c14StaleFlushScenario: ONE honest log; client 0 initialised at head a; then, concurrently, two lookups on client 0
// (responses carrying heads s1 < s3) and one lookup on client 1 (head s2, s1 <= s2 <= s3) which shares the
// configuration; schedule class "rflast": client 0's goroutines install their heads in memory and pause just before
// ReadConfig while client 1 moves the stored head.  The stored head must never move backwards whatever happens next.
func c14StaleFlushScenario(r *Rand, wseed uint64, monotone bool) string {
	N := 6 + r.Intn(7)
	h := 1 + r.Intn(3)
	a := 3 + r.Intn(N-5) // 3 .. N-3
	s1 := a + 1 + r.Intn(N-a-2)
	s2 := s1 + r.Intn(N-s1)
	if s2 == s1 {
		s2 = s1 + 1
	}
	s3 := s2 + 1 + r.Intn(N-s2)
	if s3 > N {
		s3 = N
	}
	ids := []int{r.Intn(a), r.Intn(a), r.Intn(a), r.Intn(a)}
	for k := 1; k < 4; k++ {
		for ids[k] == ids[0] || (k == 3 && ids[3] == ids[1]) {
			ids[k] = (ids[k] + 1) % a
		}
	}
	strat, sizes := "rflast", fmt.Sprintf("%d,%d,%d", s1, s2, s3)
	if !monotone {
		// canonical order runs client 0 first: its two requests come first, client 1's last (a lagging frontend)
		strat, sizes = "rflastc", fmt.Sprintf("%d,%d,%d", s1, s3, s2)
	}
	return fmt.Sprintf("client.run w=%d:%d:0:0 h=%d srv=A@%d new=0 look=0:A%d new=1:1 grow=%s par=%s:%d:0.A%d,1.A%d,0.A%d",
		wseed, N, h, a, ids[0], sizes, strat, r.Intn(1000000), ids[1], ids[2], ids[3])
}

// clCheckEndsAtMax: after all lookups returned, the stored head and each client's in-memory head are the largest head seen.
func c14CheckEndsAtMax(out *clOutcome) []clFinding {
	var fs []clFinding
	w := out.w
	seenBy := map[int]int64{}
	var all int64
	for _, cv := range out.env.cfgHist {
		if cv.by < 0 {
			if h := w.classifyHead(cv.val); h.valid && h.n > all {
				all = h.n
			}
		}
	}
	live := map[int]bool{}
	for _, ev := range out.env.trace {
		if ev.C < 0 {
			continue
		}
		if ev.Kind == "new" {
			seenBy[ev.C] = 0
			live[ev.C] = false
		}
		if ev.Err != "" {
			continue
		}
		var msg []byte
		switch {
		case ev.Kind == "rf" && ev.File == clName+"/latest":
			msg = ev.Data
			live[ev.C] = true
		case (ev.Kind == "rr" && strings.HasPrefix(ev.File, "/lookup/")) || (ev.Kind == "rc" && strings.HasPrefix(ev.File, clName+"/lookup/")):
			if _, _, rest, err := tlog.ParseRecord(ev.Data); err == nil {
				msg = rest
			}
		}
		if len(msg) > 0 {
			if h := w.classifyHead(msg); h.valid {
				if h.n > seenBy[ev.C] {
					seenBy[ev.C] = h.n
				}
				if h.n > all {
					all = h.n
				}
			}
		}
	}
	final := w.classifyHead(out.env.config[clName+"/latest"])
	if !final.valid || final.n != all {
		fs = append(fs, clFinding{"C14 stored head does not end at the largest tree seen", fmt.Sprintf("stored=%d largest=%d", final.n, all)})
	}
	for c, cl := range out.clients {
		if !live[c] {
			continue // never initialised (only private lookups)
		}
		if n := clLatestN(cl); n != seenBy[c] {
			fs = append(fs, clFinding{"C14 in-memory head of a client does not end at the largest tree it saw", fmt.Sprintf("client %d latest=%d largest=%d", c, n, seenBy[c])})
		}
	}
	return fs
}

// c14CheckPrivate: a private path returns ErrGONOSUMDB and its goroutine performs no external operation.
func c14CheckPrivate(out *clOutcome) []clFinding {
	var fs []clFinding
	for _, lk := range out.looks {
		if !lk.private {
			continue
		}
		if lk.kind != "err:gonosumdb" {
			fs = append(fs, clFinding{"C14 lookup of a private path did not return ErrGONOSUMDB", lk.key + " -> " + lk.kind})
		}
		for _, ev := range out.env.trace[lk.from:lk.to] {
			if ev.C == lk.c && ev.G == lk.g && ev.Kind != "start" && ev.Kind != "ret" && ev.Kind != "new" {
				fs = append(fs, clFinding{"C14 lookup of a private path performed an external operation", lk.key + ": " + ev.Kind + " " + ev.File})
			}
		}
	}
	// a client instance that only ever saw private lookups performed nothing at all
	onlyPrivate := map[int]bool{}
	for c := range out.clients {
		onlyPrivate[c] = true
	}
	for _, lk := range out.looks {
		if !lk.private {
			onlyPrivate[lk.c] = false
		}
	}
	for _, ev := range out.env.trace {
		if ev.C >= 0 && onlyPrivate[ev.C] && ev.Kind != "start" && ev.Kind != "ret" && ev.Kind != "new" {
			fs = append(fs, clFinding{"C14 a client that only looked up private paths performed an external operation", ev.Kind + " " + ev.File})
		}
	}
	return fs
}

func c14Judge(g *Gen, line string, tag string) *clOutcome {
	sc, ok := clParseScenario(strings.Fields(line)[1:])
	if !ok {
		g.Fail("harness: malformed scenario", line)
		return nil
	}
	out := clRunScenario(sc)
	g.Case(tag)
	if out.bad {
		g.Fail("harness: scenario rejected", line+" "+out.env.badWhy)
		return nil
	}
	if out.hang {
		g.Fail("C14 concurrent lookups hang (deadlock or livelock under the schedule)", "", line)
		return nil
	}
	for _, lk := range out.looks {
		g.st.OracleTags["result/"+lk.kind]++
		if lk.kind == "panic" {
			g.Fail("C14 lookup panics", fmt.Sprint(lk.err), line)
		}
	}
	nconf, nretry := 0, 0
	for _, ev := range out.env.trace {
		if ev.Kind == "wf" && ev.Err == "conflict" {
			nconf++
		}
	}
	if nconf > 0 {
		g.st.OracleTags["reached/ErrWriteConflict-retry"]++
	}
	_ = nretry
	clReport(g, clCheckHonest(out, "C14"), sc)
	ffs, rereads := clCheckFetchOnce2(out)
	clReport(g, ffs, sc)
	if rereads > 0 {
		g.st.OracleTags["observation/full-tile-file-read-again-under-another-width"]++
	}
	clReport(g, clCheckTimeline(out), sc)
	clReport(g, clCheckAuthentic(out), sc)
	clReport(g, c14CheckEndsAtMax(out), sc)
	clReport(g, c14CheckPrivate(out), sc)
	return out
}

func c14Oracle(g *Gen, n int) {
	wseed := g.U64()%1000 + 1
	for i := 0; i < n; i++ {
		if i%4 == 3 {
			c14Judge(g, c14StaleFlushScenario(g.Rand, wseed+uint64(i%7), true), "sched/stale-flush")
			continue
		}
		line, _ := c14Scenario(g.Rand, wseed+uint64(i%7))
		tag := "sched/" + line[strings.Index(line, "par=")+4:][:4]
		c14Judge(g, line, tag)
	}
}

func c14Gen(g *Gen, n int) { c14GenTraces(g, n) }

var c14GenTraces = func(g *Gen, n int) {}
