package main

// C09 — LARGE record messages (input class added for seeded change r7-C09-a).
//
// Why it was missing: every record message of c09.go is a few dozen to a few hundred bytes long (c09ValidText: 1-3
// short lines; rests of at most 30 bytes), and the only long text input was the pair of 1e6 / 1e6+1-byte tree heads
// for ParseTree.  The record codec was therefore never exercised at a message SIZE at which anything could change:
// "records survive their text encoding for ALL valid record texts and ids" has no size limit (FormatRecord has none,
// its documentation of valid record text has none), and ParseRecord parses "a record description at the START of
// text" and returns the remainder, so neither the length of the text nor the length of what follows the record may
// matter.  A change that treats messages differently above some size (a cap, a buffer, an int32 length) was visible
// to the regenerated tie proofs only.
//
// The class: record messages whose TEXT or whose REMAINDER is large, swept densely over the one size constant the
// package has (1e6, the ParseTree limit in the same file) and over binary buffer sizes, plus well beyond both:
//   - one valid record whose text has every length 999,990 .. 1,000,100, 2^k-1 / 2^k / 2^k+1 for k = 16..21, 2,000,000
//     (thorough: up to 2^24+1), in three shapes (many go.sum lines; one single line; multi-byte runes);
//   - a SMALL record followed by a long remainder of arbitrary bytes (total message length every value around 1e6,
//     around 2^20, and 2e6 / 3e6);
//   - a long run of concatenated records (small ones, and a mix of small and 10 KB ones; 1.2 .. 2.2 MB in total) parsed
//     one after the other: every ParseRecord must return its record and exactly the rest of the run;
//   - malformed large messages for the correspondence (no blank line at all in 1.2 MB; an invalid byte only at the very
//     end of 1.2 MB of valid text).
//
// Oracle: the property itself (c09RecordOracle of c09.go, unchanged; c09BigRun is the same statement iterated).
// Generator: a dozen of these messages as correspondence ops (each op line is 2-6 MB of hex; the compiled hand model
// takes 0.4-0.9 s and up to ~0.6 GB per line, so the count is kept small).  The code REGENERATED from source (gtlog.*)
// works on immutable lists and is quadratic in the message length (a 100 KB record takes over a minute), so record
// ops above c09MirrorMax are not mirrored: Tie.FnTlogNote (FormatRecord_tie, ParseRecord_tie) proves the regenerated
// functions equal to the hand model for all inputs; the mirror run only re-validates the translator.

import (
	"bytes"
	"fmt"
	"strings"

	"golang.org/x/mod/sumdb/tlog"
)

const c09MirrorMax = 16000 // op-line bytes (hex); every record op of the older classes is far below

func init() {
	small := func(line string) bool { return len(line) < c09MirrorMax }
	mirrorFilter["tlog.parserecord"] = small
	mirrorFilter["tlog.formatrecord"] = small
}

// c09Fork returns an independent stream derived from the state of r WITHOUT drawing from r (the streams of the older
// classes do not shift).
func c09Fork(r *Rand, salt uint64) *Rand {
	f := &Rand{s: (r.s ^ salt) * 0x9e3779b97f4a7c15}
	f.U64()
	return f
}

// c09Abbrev: %q of a short string; head, tail and length of a long one (failure infos stay readable).
func c09Abbrev(s string) string {
	if len(s) <= 200 {
		return fmt.Sprintf("%q", s)
	}
	return fmt.Sprintf("%q...%q (%d bytes)", s[:60], s[len(s)-40:], len(s))
}

// c09BigText returns a record text of EXACTLY n bytes (n >= 2) that is valid by the documented rule: valid UTF-8, no
// control characters, newline-terminated, no blank line.  shape 0: go.sum lines of varying length; 1: one single
// line; 2: lines over the multi-byte rune alphabet (every encoding length).
func c09BigText(r *Rand, n, shape int) string {
	var b strings.Builder
	b.Grow(n)
	for b.Len() < n {
		left := n - b.Len()
		var line string
		switch shape {
		case 1:
			line = "" // falls through to the filler below: one line of n-1 bytes
		case 2:
			var l strings.Builder
			for j := 3 + r.Intn(40); j > 0; j-- {
				l.WriteRune(c09ValidRunes[r.Intn(len(c09ValidRunes))])
			}
			line = l.String()
		default:
			line = fmt.Sprintf("m%d v1.%d.0 h1:%s=", r.Intn(1000), r.Intn(50), r.Bytes(1+r.Intn(43), c09B64))
		}
		if line == "" || len(line)+1 > left-2 { // last line: ASCII filler to the exact length (never a blank line)
			line = strings.Repeat("x", left-1)
		}
		b.WriteString(line)
		b.WriteByte('\n')
	}
	return b.String()
}

// c09BigTextLens: text lengths of the class (see the header).
func c09BigTextLens() []int {
	var out []int
	for n := 999990; n <= 1000100; n++ {
		out = append(out, n)
	}
	for k := uint(16); k <= 21; k++ {
		out = append(out, 1<<k-1, 1<<k, 1<<k+1)
	}
	out = append(out, 2000000)
	if thorough {
		out = append(out, 3000000, 10000000, 1<<24+1)
	}
	return out
}

// c09BigRestTotals: total message lengths (small record + remainder) of the class.
func c09BigRestTotals() []int {
	var out []int
	for n := 999990; n <= 1000100; n++ {
		out = append(out, n)
	}
	out = append(out, 1<<20-1, 1<<20, 1<<20+1, 2000000, 3000000)
	if thorough {
		out = append(out, 10000000, 1<<24+1)
	}
	return out
}

// c09BigRest: n arbitrary remainder bytes (what follows a record is not looked at): random bytes, a run of blank
// lines, or valid text.
func c09BigRest(r *Rand, n int) string {
	if n <= 0 {
		return ""
	}
	switch r.Intn(4) {
	case 0:
		return strings.Repeat("\n", n)
	case 1:
		if n >= 2 {
			return c09BigText(r, n, 0)
		}
	}
	return c09RandBytes(r, n)
}

// c09BigRunMsg: records 0..k-1 formatted and concatenated until the run is at least total bytes long; mixed: some
// records are about 10 KB long.  The texts are returned for the check; rejected is the index of the first valid text
// FormatRecord refused (-1: none; such a record is written by hand so that the run stays well-formed).
func c09BigRunMsg(r *Rand, total int, mixed bool) (msg string, texts []string, rejected int) {
	var b strings.Builder
	b.Grow(total + 12000)
	rejected = -1
	for b.Len() < total {
		n := 40 + r.Intn(80)
		if mixed && r.Chance(5) {
			n = 9000 + r.Intn(2000)
		}
		t := c09BigText(r, n, r.Intn(3))
		m, err := tlog.FormatRecord(int64(len(texts)), []byte(t))
		if err != nil {
			if rejected < 0 {
				rejected = len(texts)
			}
			m = []byte(fmt.Sprintf("%d\n%s\n", len(texts), t))
		}
		b.Write(m)
		texts = append(texts, t)
	}
	return b.String(), texts, rejected
}

// c09BigRun: a run of concatenated records parsed one after the other: ParseRecord(FormatRecord(i, text_i) ++ rest)
// = (i, text_i, rest) where rest is the remaining run.  Reports the first record at which this fails (with the
// message still to parse at that point) and stops.  The returned rest is compared in full for the first records and
// every 500th, and by its length otherwise: every byte of it is then compared as id, text or separator of a later
// record of the same run (comparing 20,000 remainders of a megabyte each in full would only repeat that).
func c09BigRun(g *Gen, msg string, texts []string) bool {
	cur := []byte(msg)
	for i, t := range texts {
		g.Case("codec-big-run")
		id, text, rest, err := tlog.ParseRecord(cur)
		want := len(cur) - (len(fmt.Sprint(i)) + 1 + len(t) + 1)
		ok := err == nil && id == int64(i) && string(text) == t && want >= 0 && len(rest) == want
		if ok && (i < 3 || i%500 == 0) {
			ok = bytes.Equal(rest, cur[len(cur)-want:])
		}
		if !ok {
			g.Fail("ParseRecord(FormatRecord(id,text)+rest) != (id,text,rest)",
				fmt.Sprintf("record %d of a run of %d concatenated records (%d bytes still to parse): id=%d text=%s rest=%d bytes err=%v", i, len(texts), len(cur), i, c09Abbrev(t), want, err),
				fmt.Sprintf("tlog.formatrecord %d %s", i, hx(t)), "tlog.parserecord "+hx(string(cur)))
			return false
		}
		cur = rest // the RETURNED remainder is what is parsed next
	}
	if len(cur) != 0 {
		g.Fail("harness self-check: bytes left after the last record of a run", fmt.Sprintf("%d bytes", len(cur)))
		return false
	}
	return true
}

// c09BigOracle: the record round trip on the large-message class.  Lengths ascend, so the first failure of a sweep is
// the smallest failing size; each sweep stops at its first failing size (every replay line is megabytes long).
func c09BigOracle(g *Gen) {
	r := c09Fork(g.Rand, 0xb16)
	failed := func(before int) bool { return len(g.st.Failures) > before }
	anyBad := false
	// (a) one large valid record, nothing behind it
	for _, n := range c09BigTextLens() {
		before := len(g.st.Failures)
		text := c09BigText(r, n, r.Intn(3))
		if !c09DocValidText(text) || len(text) != n {
			g.Fail("harness self-check: c09BigText did not build a valid record text of the requested length", fmt.Sprintf("n=%d len=%d", n, len(text)))
			return
		}
		c09RecordOracle(g, int64(r.Intn(1000)), text, "")
		if failed(before) {
			anyBad = true
			break
		}
	}
	// (b) a small record in front of a long remainder
	for _, total := range c09BigRestTotals() {
		before := len(g.st.Failures)
		id := int64(r.Intn(1000))
		text := c09ValidText(r)
		rest := c09BigRest(r, total-(len(fmt.Sprint(id))+1+len(text)+1))
		c09RecordOracle(g, id, text, rest)
		if failed(before) {
			anyBad = true
			break
		}
	}
	// (c) a large record in front of a large remainder
	if !anyBad {
		text := c09BigText(r, 600000+r.Intn(100000), r.Intn(3))
		c09RecordOracle(g, c09Int64(r), text, c09BigRest(r, 600000+r.Intn(100000)))
	}
	// (d) long runs of concatenated records parsed one after the other
	totals := []int{1200000, 2200000}
	if thorough {
		totals = append(totals, 5000000)
	}
	for i, total := range totals {
		msg, texts, rejected := c09BigRunMsg(r, total, i%2 == 1)
		if rejected >= 0 {
			t := texts[rejected]
			g.Fail("FormatRecord rejects a record text that is valid by the documented rule", "text="+c09Abbrev(t), fmt.Sprintf("tlog.formatrecord %d %s", rejected, hx(t)))
			break
		}
		if !c09BigRun(g, msg, texts) {
			break
		}
	}
}

// genC09Big: the class as correspondence ops (hand model only, see the header).  About a dozen lines.
func genC09Big(g *Gen) {
	r := c09Fork(g.Rand, 0xb17)
	rec := func(id int64, text string) string { return fmt.Sprintf("%d\n%s\n", id, text) }
	// a single record: total message length just below / at / just above 1e6 (id 7: the message is text + 3 bytes), 2e6 text
	for _, total := range []int{999999, 1000000, 1000001} {
		g.Emit("tlog.parserecord "+hx(rec(7, c09BigText(r, total-3, r.Intn(3)))), true, "parserecord-big")
	}
	g.Emit("tlog.parserecord "+hx(rec(c09Int64(r), c09BigText(r, 2000000, 0))), true, "parserecord-big")
	// a small record and a long remainder
	small := rec(12, c09ValidText(r))
	g.Emit("tlog.parserecord "+hx(small+c09RandBytes(r, 1000001-len(small))), true, "parserecord-big-rest")
	g.Emit("tlog.parserecord "+hx(small+c09RandBytes(r, 2000000)), true, "parserecord-big-rest")
	run, _, _ := c09BigRunMsg(r, 1500000, true)
	g.Emit("tlog.parserecord "+hx(run), true, "parserecord-big-rest")
	// malformed only far inside: no blank line in 1.2 MB; an invalid piece at the very end of 1.2 MB of valid text
	t := c09BigText(r, 1200000, 0)
	g.Emit("tlog.parserecord "+hx("7\n"+t), true, "parserecord-big-malformed")
	badText := t[:len(t)-1] + c09BadPieces[r.Intn(len(c09BadPieces)-1)] + "\n" // not the "\n" piece
	g.Emit("tlog.parserecord "+hx(rec(7, badText)), true, "parserecord-big-malformed")
	// FormatRecord: no size limit on valid text; invalid only at the end
	g.Emit(fmt.Sprintf("tlog.formatrecord %d %s", c09Int64(r), hx(c09BigText(r, 1000001, r.Intn(3)))), true, "formatrecord-big")
	g.Emit("tlog.formatrecord 7 "+hx(c09BigText(r, 2000000, 2)), true, "formatrecord-big")
	g.Emit("tlog.formatrecord 7 "+hx(badText), true, "formatrecord-big")
}
