package main

// C02 — formatting a go.mod/go.work file preserves its meaning and is idempotent.
// Uses the `modfile.` ops, dumps and generators of c20.go.

import (
	"fmt"
	"sort"
	"strconv"
	"strings"
	"unicode/utf8"

	"golang.org/x/mod/modfile"
	"golang.org/x/mod/semver"
)

func init() {
	register(&Prop{ID: "C02", Gen: genC02, Oracle: oracleC02,
		Rule: "C20's generators (grammar-directed go.mod/go.work files with every layout feature, mutations, token soup, malformed streams, long lines) plus the formatter's own outputs fed back as inputs (format, reformat, parse with and without the stub fixer on Format(f.Syntax)); comment tails: comments the directive layer reads a value from (indirect / Deprecated / rationale) followed by trailing blanks, tabs or Unicode spaces before LF / CRLF / end of input, swept over every directive kind in line and block form and appended at random to generated files; escape-spelled strings: a double-quoted argument (every string position of go.mod / go.work, line and block form, with a comment or a second quoted token behind it) whose value needs quotes and ends in backslashes / quote characters / backslash-letter / non-ASCII, spelled canonically, literally or with \\x \\u \\U octal escapes (last rune swept, every rune at random), alone and behind generated files; non-trivial = parses to >= 2 statements or fails past the first token; distinct by op line"})
}

func genC02(g *Gen, n int) {
	for _, s := range c02EscapedNewlineCases {
		h := hx(s)
		c20Emit(g, "modfile.parsesyntax "+h, true, "escaped-newline")
		c20Emit(g, "modfile.format "+h, true, "escaped-newline")
		c20Emit(g, "modfile.reformat "+h, true, "escaped-newline")
		c20Emit(g, "modfile.parselax nofix "+h, true, "escaped-newline")
		c20Emit(g, "modfile.parsework nofix "+h, true, "escaped-newline")
	}
	for _, s := range c20Boundary {
		nt := c20Nontrivial(s)
		h := hx(s)
		c20Emit(g, "modfile.format "+h, nt, "boundary")
		c20Emit(g, "modfile.reformat "+h, nt, "boundary")
		c20Emit(g, "modfile.parse nofix "+h, nt, "boundary")
		c20Emit(g, "modfile.parse stub "+h, nt, "boundary")
		c20Emit(g, "modfile.parsework nofix "+h, nt, "boundary")
	}
	// comment-tail sweep: one op per input, rotating through the parsers and the formatter (5 ops;
	// 5 is coprime to every dimension of the sweep, so each parser meets each comment x blank pair)
	k := 0
	c02CommentTailSweep(func(s string, work bool) {
		h := hx(s)
		op := []string{"modfile.parse nofix ", "modfile.parse stub ", "modfile.parselax nofix ", "modfile.format ", "modfile.reformat "}[k%5]
		if work && strings.HasPrefix(op, "modfile.parse") {
			op = "modfile.parsework " + []string{"nofix ", "stub "}[k%2]
		}
		k++
		c20Emit(g, op+h, true, "comment-tail")
	})
	// escape-spelled strings: every third input of the sweep (3 and 5 are coprime to its dimensions 8
	// spellings x 19 tails; the oracle runs the whole sweep), one op per input, rotating through the
	// typed parsers (which rewrite the token), the lax parser and the formatter
	k = 0
	c02EscSweep(func(s string, work bool) {
		if k++; k%3 != 0 && !thorough {
			return
		}
		h := hx(s)
		op := []string{"modfile.parse nofix ", "modfile.parse stub ", "modfile.parselax nofix ", "modfile.reformat ", "modfile.parse nofix "}[k%5]
		if work && strings.HasPrefix(op, "modfile.parse") {
			op = "modfile.parsework " + []string{"nofix ", "stub "}[k%2]
		}
		c20Emit(g, op+h, true, "escape-spelled")
	})
	// the random stream keeps at least n/3 ops of its own, however large the sweeps above grow (today they are
	// 8761 of the quick tier's 20000 ops, so this changes nothing)
	if n < g.st.Ops+n/3 {
		n = g.st.Ops + n/3
	}
	for g.st.Ops < n {
		if g.Chance(6) {
			c20LeafOps(g) // AutoQuote / Quote / Unquote / TrimSpace … on their own
			continue
		}
		if g.Chance(3) {
			// the token of an escape-spelled string on its own (Unquote, then AutoQuote of the value)
			v := g.Pick(c02EscStems) + g.Pick(c02EscTails)
			g.Emit("modfile.unquote "+hx(c02Spell(v, func(j, n int) int { return g.Intn(c02EscKinds) })), true, "leaf-escape-spelled")
			g.Emit("modfile.autoquote "+hx(v), true, "leaf-escape-spelled")
			continue
		}
		s, tag := c02GenInput(g.Rand)
		nt := c20Nontrivial(s)
		h := hx(s)
		fix := "nofix"
		if g.Chance(40) {
			fix = "stub"
		}
		pop := "modfile.parse "
		if base := strings.TrimSuffix(tag, "-blank-tails"); base == "gowork" || base == "escape-spelled-work" || base != "gomod" && base != "escape-spelled" && g.Chance(25) {
			pop = "modfile.parsework "
		}
		switch g.Intn(4) {
		case 0:
			c20Emit(g, "modfile.format "+h, nt, tag)
		case 1:
			c20Emit(g, "modfile.reformat "+h, nt, tag)
		case 2:
			c20Emit(g, pop+fix+" "+h, nt, tag)
		default:
			// the printer's output as input: syntax layer and directive layer
			if fs, err := modfile.ParseSyntax(c20FileName, []byte(s)); err == nil {
				y := string(modfile.Format(fs))
				c20Emit(g, "modfile.parsesyntax "+hx(y), c20Nontrivial(y), "formatted")
			}
			var syn *modfile.FileSyntax
			if pop == "modfile.parse " {
				if f, err := modfile.Parse(c20FileName, []byte(s), c20FixOf(fix)); err == nil {
					syn = f.Syntax
				}
			} else if f, err := modfile.ParseWork(c20FileName, []byte(s), c20FixOf(fix)); err == nil {
				syn = f.Syntax
			}
			if syn != nil {
				y := string(modfile.Format(syn))
				c20Emit(g, pop+fix+" "+hx(y), c20Nontrivial(y), "formatted-typed")
			} else {
				c20Emit(g, pop+fix+" "+h, nt, tag)
			}
		}
	}
}

// c02Shape: the statements (kind, tokens; for blocks the lines' tokens) in order, and the comment
// texts (modulo TrimSpace) in document order.  Positions and attachment side are ignored; the
// blank-line placeholders inside blocks are not comment texts.
func c02Shape(fs *modfile.FileSyntax) (stmts []string, comments []string) {
	var all []modfile.Comment
	add := func(c *modfile.Comments) {
		for _, l := range [][]modfile.Comment{c.Before, c.Suffix, c.After} {
			for _, com := range l {
				if com.Token == "" && com.Start == (modfile.Position{}) {
					continue
				}
				all = append(all, com)
			}
		}
	}
	add(&fs.Comments)
	for _, st := range fs.Stmt {
		add(st.Comment())
		switch x := st.(type) {
		case *modfile.CommentBlock:
			stmts = append(stmts, "C")
		case *modfile.Line:
			stmts = append(stmts, fmt.Sprintf("L%q", x.Token))
		case *modfile.LineBlock:
			add(&x.LParen.Comments)
			add(&x.RParen.Comments)
			ls := []string{}
			for _, l := range x.Line {
				add(&l.Comments)
				ls = append(ls, fmt.Sprintf("%q", l.Token))
			}
			stmts = append(stmts, fmt.Sprintf("B%q(%s)", x.Token, strings.Join(ls, ";")))
		}
	}
	sort.SliceStable(all, func(i, j int) bool { return all[i].Start.Byte < all[j].Start.Byte })
	for _, c := range all {
		comments = append(comments, strings.TrimSpace(c.Token))
	}
	return
}

func c02Eq(a, b []string) bool {
	if len(a) != len(b) {
		return false
	}
	for i := range a {
		if a[i] != b[i] {
			return false
		}
	}
	return true
}

// c02Values: the parsed directive values of a go.mod file (no positions, no line identities).
func c02Values(f *modfile.File) string {
	var b strings.Builder
	if f.Module != nil {
		fmt.Fprintf(&b, "module %q %q dep=%q\n", f.Module.Mod.Path, f.Module.Mod.Version, f.Module.Deprecated)
	}
	if f.Go != nil {
		fmt.Fprintf(&b, "go %q\n", f.Go.Version)
	}
	if f.Toolchain != nil {
		fmt.Fprintf(&b, "toolchain %q\n", f.Toolchain.Name)
	}
	for _, x := range f.Godebug {
		fmt.Fprintf(&b, "godebug %q %q\n", x.Key, x.Value)
	}
	for _, x := range f.Require {
		fmt.Fprintf(&b, "require %q %q %v\n", x.Mod.Path, x.Mod.Version, x.Indirect)
	}
	for _, x := range f.Exclude {
		fmt.Fprintf(&b, "exclude %q %q\n", x.Mod.Path, x.Mod.Version)
	}
	for _, x := range f.Replace {
		fmt.Fprintf(&b, "replace %q %q %q %q\n", x.Old.Path, x.Old.Version, x.New.Path, x.New.Version)
	}
	for _, x := range f.Retract {
		fmt.Fprintf(&b, "retract %q %q %q\n", x.Low, x.High, x.Rationale)
	}
	for _, x := range f.Tool {
		fmt.Fprintf(&b, "tool %q\n", x.Path)
	}
	return b.String()
}

func c02WorkValues(f *modfile.WorkFile) string {
	var b strings.Builder
	if f.Go != nil {
		fmt.Fprintf(&b, "go %q\n", f.Go.Version)
	}
	if f.Toolchain != nil {
		fmt.Fprintf(&b, "toolchain %q\n", f.Toolchain.Name)
	}
	for _, x := range f.Godebug {
		fmt.Fprintf(&b, "godebug %q %q\n", x.Key, x.Value)
	}
	for _, x := range f.Use {
		fmt.Fprintf(&b, "use %q %q\n", x.Path, x.ModulePath)
	}
	for _, x := range f.Replace {
		fmt.Fprintf(&b, "replace %q %q %q %q\n", x.Old.Path, x.Old.Version, x.New.Path, x.New.Version)
	}
	return b.String()
}

func c02PathOK(p string) bool {
	switch p {
	case "", "(", ")", "[", "]", "{", "}", ",":
		return false
	}
	return true
}

func c02ReplacesOK(l []*modfile.Replace) bool {
	for _, x := range l {
		if !c02PathOK(x.Old.Path) || !c02PathOK(x.New.Path) || x.Old.Version != "" && !semver.IsValid(x.Old.Version) || x.New.Version != "" && !semver.IsValid(x.New.Version) {
			return false
		}
	}
	return true
}

// c02WellFormed: the property's precondition — paths non-empty and not a lone bracket/comma,
// versions valid.
func c02WellFormed(f *modfile.File) bool {
	if f.Module != nil && !c02PathOK(f.Module.Mod.Path) {
		return false
	}
	for _, x := range f.Require {
		if !c02PathOK(x.Mod.Path) || !semver.IsValid(x.Mod.Version) {
			return false
		}
	}
	for _, x := range f.Exclude {
		if !c02PathOK(x.Mod.Path) || !semver.IsValid(x.Mod.Version) {
			return false
		}
	}
	for _, x := range f.Retract {
		if !semver.IsValid(x.Low) || !semver.IsValid(x.High) {
			return false
		}
	}
	for _, x := range f.Tool {
		if !c02PathOK(x.Path) {
			return false
		}
	}
	return c02ReplacesOK(f.Replace)
}

func c02WorkWellFormed(f *modfile.WorkFile) bool {
	for _, x := range f.Use {
		if !c02PathOK(x.Path) {
			return false
		}
	}
	return c02ReplacesOK(f.Replace)
}

// c02EscapedNewlineEOLComment: the structural trigger of the known finding
// `format-not-idempotent-escaped-newline` — some Line has a double-quoted token containing a
// backslash immediately followed by a newline (so the Line spans several source lines) AND there is
// an end-of-line comment on that Line (after its last token, on its last source line).  Such a comment
// cannot be attached to its own Line (assignComments skips multi-line nodes).
func c02EscapedNewlineEOLComment(fs *modfile.FileSyntax) bool {
	var suffix []modfile.Comment
	var lines []*modfile.Line
	add := func(c *modfile.Comments) {
		for _, l := range [][]modfile.Comment{c.Before, c.Suffix, c.After} {
			for _, com := range l {
				if com.Suffix {
					suffix = append(suffix, com)
				}
			}
		}
	}
	add(&fs.Comments)
	for _, st := range fs.Stmt {
		add(st.Comment())
		switch x := st.(type) {
		case *modfile.Line:
			lines = append(lines, x)
		case *modfile.LineBlock:
			add(&x.LParen.Comments)
			add(&x.RParen.Comments)
			for _, l := range x.Line {
				add(&l.Comments)
				lines = append(lines, l)
			}
		}
	}
	for _, l := range lines {
		esc := false
		for _, t := range l.Token {
			if strings.HasPrefix(t, "\"") && strings.Contains(t, "\\\n") {
				esc = true
			}
		}
		if !esc || l.Start.Line == l.End.Line {
			continue
		}
		for _, c := range suffix {
			if c.Start.Line == l.End.Line && c.Start.Byte >= l.End.Byte {
				return true
			}
		}
	}
	return false
}

const c02KnownEscapedNewline = "format-not-idempotent-escaped-newline"

// c02EscapedNewlineCases: the known finding's input and variants (escaped newline in the first /
// middle / last token, go.work verbs, inside a block, without comments).  Only the shapes where the
// multi-line Line has an end-of-line comment AND follows a top-level statement are expected to fail.
var c02EscapedNewlineCases = []string{
	"a b // c1\nx \"p\\\nq\" // c2\n",
	"a b // c1\n\"p\\\nq\" x // c2\n",
	"a b // c1\nx \"p\\\nq\" y // c2\n",
	"go 1.21 // c1\nuse \"p\\\nq\" // c2\n",
	"a b\nx \"p\\\nq\" // c2\n",
	"x \"p\\\nq\" // c2\ny // c3\n",
	"r (\n\ta b // c1\n\tx \"p\\\nq\" // c2\n)\n",
	"use (\n\t\"p\\\nq\" // c2\n)\n",
	"a b // c1\nx \"p\\\nq\"\n",
	"x \"p\\\nq\" ( // c2\n)\n",
}

// ---- input class "comment tail": comments followed by TRAILING blanks before the line terminator.
//
// Why it was missing: C20's comment texts end at the newline except for three free-text ones
// ("// trailing spaces   ", "//\t tab ", "// Deprecated:   spaced  "); none of the comments the
// directive layer READS A VALUE from (`// indirect` on a require line, `// Deprecated: …` on the module
// line, the rationale of a retract) was ever followed by a blank or tab.  The lexer keeps such trailing
// blanks in the comment token (only the line terminator is cut, and before CRLF the blanks stay too),
// while the printer emits TrimSpace(token): so this is exactly the class on which "the value parsed from
// the input" and "the value parsed from the formatted text" are computed from DIFFERENT comment tokens,
// i.e. where clause 3 of the property (same directive values) is not implied by clause 1 (same trimmed
// comment texts).  Two generators: an exhaustive small sweep (template x comment x blanks x terminator)
// and a random mutation that appends blanks to the comment lines of any generated file.

// c02TailComments: the comments whose text the directive layer interprets, in their accepted and
// nearly-accepted spellings, and two free-text ones.
var c02TailComments = []string{"// indirect", "//indirect", "//\tindirect", "//  indirect", "// indirect; reason", "// indirect;", "// indirect ;x", "// indirect // indirect",
	"// Deprecated: use other", "// Deprecated:", "// rationale text", "//"}

// c02TailBlanks: what may stand between the comment text and the line terminator.
var c02TailBlanks = []string{" ", "\t", "   ", " \t ", "\t\t", "\u00a0", "\u3000", "\f", " \v"}

// c02TailTemplates: %C = end-of-line comment (with its gap), %L = whole-line comment.  Every directive
// kind that reads a comment (require: indirect; module: deprecated; retract: rationale) in line and block
// form, the other kinds, block headers / closers, and go.work.
var c02TailTemplates = []struct {
	text string
	work bool
}{
	{"module example.com/m\n\ngo 1.21\n\nrequire example.com/a v1.2.3%C\n", false},
	{"module example.com/m\n\nrequire (\n\texample.com/a v1.2.3%C\n\texample.com/b v1.0.0 // indirect\n\texample.com/c v1.0.0\n)\n", false},
	{"module example.com/m\n\nrequire (\n\t%L\n\texample.com/a v1.2.3\n\texample.com/b v1.0.0%C\n)\n\nrequire example.com/c v1.0.0%C\n", false},
	{"module example.com/m%C\n\ngo 1.21\n", false},
	{"%L\nmodule example.com/m\n", false},
	{"%L\n%L\nmodule (\n\texample.com/m%C\n)\n", false},
	{"module example.com/m\nretract v1.0.0%C\n", false},
	{"module example.com/m\n%L\nretract [v1.0.0, v1.1.0]\nretract (\n\t%L\n\t[v1.2.0, v1.3.0]%C\n\tv1.4.0%C\n)\n", false},
	{"module example.com/m\nexclude example.com/a v1.2.3%C\nreplace example.com/a => ./a%C\ntool example.com/t%C\ngodebug a=b%C\n", false},
	{"module example.com/m\nrequire (%C\n\texample.com/a v1.2.3\n)%C\n", false},
	{"go 1.21%C\nuse ./a%C\nuse (\n\t%L\n\t./b%C\n)\nreplace example.com/a => ./a%C\n", true},
}

// c02OddIndents: white space other than blank and tab in front of a WHOLE-LINE comment (the lexer
// decides whole-line vs end-of-line by whether anything but white space precedes the `//` on its line;
// the grammar generator indents comment lines with tabs only, so a carriage return / form feed /
// Unicode space there was met only by a lucky one-byte mutation).
var c02OddIndents = []string{"", "\r", " \r", "\r\t", "\f", "\u00a0", "\v "}

// c02CommentTailSweep calls f on template x comment x blanks x terminator (LF, CRLF, LF without the
// final terminator).  The gap before an end-of-line comment cycles through blank / tab / nothing, the
// extra indentation of a whole-line comment through c02OddIndents.
func c02CommentTailSweep(f func(s string, work bool)) {
	gaps := []string{" ", "\t", ""}
	i := 0
	for _, t := range c02TailTemplates {
		for _, c := range c02TailComments {
			for _, b := range c02TailBlanks {
				for term := 0; term < 3; term++ {
					s := strings.ReplaceAll(t.text, "%C", gaps[i%3]+c+b)
					s = strings.ReplaceAll(s, "%L", c02OddIndents[i%len(c02OddIndents)]+c+b)
					i++
					switch term {
					case 1:
						s = strings.ReplaceAll(s, "\n", "\r\n")
					case 2:
						s = strings.TrimSuffix(s, "\n")
					}
					f(s, t.work)
				}
			}
		}
	}
}

// c02BlankTails: the random member of the class — appends blanks (before the CR of a CRLF) to lines
// of a generated file that carry a comment, and now and then gives a comment-less line one of the
// interpreted comments with a blank tail.
func c02BlankTails(r *Rand, s string) string {
	lines := strings.Split(s, "\n")
	for i, l := range lines {
		if i == len(lines)-1 && l == "" {
			continue
		}
		cr := ""
		if strings.HasSuffix(l, "\r") {
			l, cr = l[:len(l)-1], "\r"
		}
		switch {
		case strings.HasPrefix(strings.TrimSpace(l), "//") && r.Chance(30):
			l = r.Pick(c02OddIndents) + l + r.Pick(c02TailBlanks)
		case strings.Contains(l, "//") && r.Chance(60):
			l += r.Pick(c02TailBlanks)
		case strings.TrimSpace(l) != "" && !strings.HasSuffix(strings.TrimSpace(l), "(") && r.Chance(12):
			l += r.Pick([]string{" ", "\t", ""}) + r.Pick(c02TailComments) + r.Pick(c02TailBlanks)
		}
		lines[i] = l + cr
	}
	return strings.Join(lines, "\n")
}

// c02GenInput: C20's input families, a share of the well-formed ones with blank tails.
func c02GenInput(r *Rand) (string, string) {
	if r.Chance(6) {
		if s, work := c02EscRandom(r); work {
			return s, "escape-spelled-work"
		} else {
			return s, "escape-spelled"
		}
	}
	s, tag := c20GenInput(r)
	if (tag == "gomod" || tag == "gowork") && r.Chance(15) {
		return c02BlankTails(r, s), tag + "-blank-tails"
	}
	return s, tag
}

// ---- input class "escape-spelled string": a double-quoted argument whose SPELLING in the input is not
// the one the formatter writes back.
//
// Why it was missing: every quoted token of the grammar generator is strconv.Quote(value), i.e. already
// the canonical spelling that parseString stores back into the line (AutoQuote(Unquote(tok))), so on the
// generated files the token the lexer accepted in the input and the token it meets in the formatted text
// were the SAME byte string, and no value ended in a backslash.  The round trip "accepted token ->
// value -> re-quoted token -> lexer again" was therefore never exercised on a token the lexer had not
// seen before.  The class: (position of a string argument: every directive kind of go.mod and go.work,
// line and block form, with and without an end-of-line comment / a second quoted token behind it) x
// (value = stem that keeps the value in need of quotes x tail: runs of backslashes, quote characters,
// backslash-letter, …) x (spelling of the runes: canonical / \xNN / \xNN upper case / \uNNNN /
// \UNNNNNNNN / octal / literal).  The sweep spells the LAST rune of the value in each way (rest
// canonical) and one variant spells every rune; the random member spells every rune at random, also
// behind a grammar-generated file.

// c02EscStems: each one alone already makes the value need quotes (blank, quote character, bracket,
// comment opener, tab), whatever the tail.
var c02EscStems = []string{"C:/work dir/mods", "./my modules", "a b", "x(y)/z", "a//b", "a\"b", "example.com/with space", "./a`b", "q'r/s", "a\tb", ".\\w x", "[x,y]", "é ü/日本"}

// c02EscTails: what the value ends in.
var c02EscTails = []string{"\\", "\\\\", "\\\\\\", "\"", "\\\"", "\"\\", "\\n", "\\x5c", "'", "`", "\\ ", " \\", "/", "", "\x00", "\u00a0", "é", "\xff", "\U0001F600"}

const c02EscKinds = 7

// c02SpellRune appends one rune of a value (its bytes enc) in the given spelling; spellings that do
// not exist for the rune fall back (invalid UTF-8 has no \u form, `"` `\` and newline no literal form).
func c02SpellRune(b *strings.Builder, enc string, kind int) {
	rn := []rune(enc)[0]
	valid := !(rn == 0xfffd && len(enc) == 1)
	switch {
	case kind == 1:
		for i := 0; i < len(enc); i++ {
			fmt.Fprintf(b, "\\x%02x", enc[i])
		}
	case kind == 2:
		for i := 0; i < len(enc); i++ {
			fmt.Fprintf(b, "\\x%02X", enc[i])
		}
	case kind == 3 && valid && rn < 0x10000:
		fmt.Fprintf(b, "\\u%04x", rn)
	case (kind == 3 || kind == 4) && valid:
		fmt.Fprintf(b, "\\U%08x", rn)
	case kind == 5:
		for i := 0; i < len(enc); i++ {
			fmt.Fprintf(b, "\\%03o", enc[i])
		}
	case kind == 6 && valid && rn != '"' && rn != '\\' && rn != '\n':
		b.WriteString(enc)
	default:
		q := strconv.Quote(enc)
		b.WriteString(q[1 : len(q)-1])
	}
}

// c02Spell: the double-quoted token for value v, rune i spelled in kind(i, n) (n = number of runes).
func c02Spell(v string, kind func(i, n int) int) string {
	var b strings.Builder
	b.WriteByte('"')
	n := 0
	for range v {
		n++
	}
	i := 0
	for j, w := 0, 0; j < len(v); j += w {
		_, w = utf8.DecodeRuneInString(v[j:])
		c02SpellRune(&b, v[j:j+w], kind(i, n))
		i++
	}
	b.WriteByte('"')
	return b.String()
}

// c02EscTemplates: head + body, %S = the string token.  dir: the position wants a directory path (the
// value gets a "./" in front unless it already is one by the documented rule's first alternatives).
// The body alone is what the random member appends to a grammar-generated file (not if head is empty:
// a second module directive is an error).
var c02EscTemplates = []struct {
	head, body string
	work, dir  bool
}{
	{"", "module %S\n\ngo 1.21\n", false, false},
	{"module example.com/m\n\ngo 1.21\n\n", "require %S v1.0.0\n", false, false},
	{"module example.com/m\n\n", "require (\n\texample.com/a v1.0.0\n\t%S \"v1.2.3\" // indirect\n\texample.com/b v1.0.0\n)\n", false, false},
	{"module example.com/m\n\n", "exclude %S v1.0.0\n", false, false},
	{"module example.com/m\n\n", "replace %S => example.com/n v1.2.0\n", false, false},
	{"module example.com/m\n\n", "replace (\n\t%S v1.0.0 => \"./local dir\"\n)\n", false, false},
	{"module example.com/m\n\n", "replace example.com/a => %S\n", false, true},
	{"module example.com/m\n\ngo 1.21\n\n", "tool %S\n\nrequire example.com/a v1.0.0 // indirect\n", false, false},
	{"module example.com/m\n\n", "tool (\n\texample.com/t\n\t%S // the \"main\" tool\n)\n", false, false},
	{"go 1.22\n\n", "use %S\n", true, false},
	{"go 1.22\n\n", "use (\n\t./a\n\t%S // windows checkout\n\t./b\n)\n", true, false},
	{"go 1.22\n\n", "use %S // \"quoted\" remark\n\nreplace example.com/m v1.0.0 => example.com/n v1.2.0\n", true, false},
	{"go 1.22\n\nuse ./x\n\n", "replace example.com/m v1.0.0 => %S\n", true, true},
	{"go 1.22\n\n", "replace %S => example.com/n v1.2.0\n", true, false},
}

func c02EscDir(v string) string {
	if strings.HasPrefix(v, "./") || strings.HasPrefix(v, "../") || strings.HasPrefix(v, "/") {
		return v
	}
	return "./" + v
}

// c02EscSweep calls f on template x tail x spelling (of the last rune; spelling c02EscKinds = every
// rune in a spelling that cycles with its index); the stem rotates in the quick tier and is a full
// dimension in the thorough tier.
func c02EscSweep(f func(s string, work bool)) {
	i := 0
	for _, t := range c02EscTemplates {
		for _, tail := range c02EscTails {
			for k := 0; k <= c02EscKinds; k++ {
				stems := []string{c02EscStems[i%len(c02EscStems)]}
				if thorough {
					stems = c02EscStems
				}
				i++
				for _, stem := range stems {
					v := stem + tail
					if t.dir {
						v = c02EscDir(v)
					}
					k := k
					tok := c02Spell(v, func(j, n int) int {
						switch {
						case k == c02EscKinds:
							return (j + n) % c02EscKinds
						case j == n-1:
							return k
						}
						return 0
					})
					f(t.head+strings.ReplaceAll(t.body, "%S", tok), t.work)
				}
			}
		}
	}
}

// c02EscRandom: the random member — a random value (stem or one of C20's atoms, plus a tail), every
// rune in a random spelling (biased to canonical / literal so that the token stays readable), in a
// template or in a line behind a grammar-generated file of the same kind.
func c02EscRandom(r *Rand) (string, bool) {
	t := c02EscTemplates[r.Intn(len(c02EscTemplates))]
	var v string
	switch r.Intn(4) {
	case 0:
		v = r.Pick(c20Paths)
	case 1:
		v = r.Pick(c20Dirs)
	default:
		v = r.Pick(c02EscStems)
	}
	v += r.Pick(c02EscTails)
	if r.Chance(20) {
		v += r.Pick(c02EscTails)
	}
	if t.dir {
		v = c02EscDir(v)
	}
	pct := []int{10, 40, 100}[r.Intn(3)]
	tok := c02Spell(v, func(j, n int) int {
		if j == n-1 && r.Chance(70) || r.Chance(pct) {
			return 1 + r.Intn(c02EscKinds-1)
		}
		return []int{0, 6}[r.Intn(2)]
	})
	body := strings.ReplaceAll(t.body, "%S", tok)
	if t.head == "" || r.Chance(50) {
		return t.head + body, t.work
	}
	kind := "mod"
	if t.work {
		kind = "work"
	}
	s := c20GenFile(r, kind)
	if !strings.HasSuffix(s, "\n") {
		s += "\n"
	}
	return s + body, t.work
}

func c02OracleInput(g *Gen, s, tag string) {
	data := []byte(s)
	h := hx(s)
	g.Case(tag)
	c20Guard(g, "format", []string{"modfile.format " + h, "modfile.reformat " + h}, func() {
		if t, err := modfile.ParseSyntax(c20FileName, data); err == nil {
			g.Case("syntax-accepted")
			y := modfile.Format(t)
			t2, err := modfile.ParseSyntax(c20FileName, y)
			if err != nil {
				g.Fail("formatted output does not parse", fmt.Sprintf("input=%q output=%q err=%v", s, y, err), "modfile.reformat "+h)
				return
			}
			// known finding: classified by the structure of the INPUT, never by the failure itself
			known := c02EscapedNewlineEOLComment(t)
			report := func(generic, info string, ops ...string) {
				if !known {
					g.Fail(generic, info, ops...)
					return
				}
				// reported a few times only, so that it cannot crowd other failures out of the
				// (bounded) failure list
				if c20SigCount[c02KnownEscapedNewline]++; c20SigCount[c02KnownEscapedNewline] <= 3 {
					g.Fail(c02KnownEscapedNewline, generic+": "+info, ops...)
				} else {
					g.Case("repeat:" + c02KnownEscapedNewline)
				}
			}
			st1, co1 := c02Shape(t)
			st2, co2 := c02Shape(t2)
			if !c02Eq(st1, st2) {
				report("formatted output parses to different statements/tokens", fmt.Sprintf("input=%q output=%q", s, y), "modfile.format "+h, "modfile.parsesyntax "+h, "modfile.parsesyntax "+hx(string(y)))
			}
			if !c02Eq(co1, co2) {
				report("formatted output parses to different comment texts", fmt.Sprintf("input=%q output=%q", s, y), "modfile.format "+h, "modfile.parsesyntax "+h, "modfile.parsesyntax "+hx(string(y)))
			}
			if y2 := modfile.Format(t2); string(y2) != string(y) {
				report("formatting is not idempotent", fmt.Sprintf("input=%q first=%q second=%q", s, y, y2), "modfile.format "+h, "modfile.reformat "+h)
			}
		}
		for _, fix := range []string{"nofix", "stub"} {
			fx := c20FixOf(fix)
			if f, err := modfile.Parse(c20FileName, data, fx); err == nil && c02WellFormed(f) {
				g.Case("strict-wellformed-" + fix)
				v := c02Values(f)
				y := modfile.Format(f.Syntax)
				ops := []string{"modfile.parse " + fix + " " + h, "modfile.parse " + fix + " " + hx(string(y))}
				f2, err := modfile.Parse(c20FileName, y, fx)
				if err != nil {
					g.Fail("formatted go.mod is rejected by the strict parser", fmt.Sprintf("fix=%s input=%q output=%q err=%v", fix, s, y, err), ops...)
				} else if v2 := c02Values(f2); v2 != v {
					g.Fail("directive values differ after formatting (go.mod)", fmt.Sprintf("fix=%s input=%q output=%q before=%q after=%q", fix, s, y, v, v2), ops...)
				}
				// the same file (strict-accepted, well-formed: the property's precondition) observed
				// through the lax parser, which the property names as an observation point: the values
				// ParseLax reads from the input and from the formatted text are the same
				if fl, err := modfile.ParseLax(c20FileName, data, fx); err == nil {
					g.Case("lax-of-strict-wellformed-" + fix)
					vl := c02Values(fl)
					yl := modfile.Format(fl.Syntax)
					ops := []string{"modfile.parselax " + fix + " " + h, "modfile.parselax " + fix + " " + hx(string(yl))}
					fl2, err := modfile.ParseLax(c20FileName, yl, fx)
					if err != nil {
						g.Fail("formatted go.mod is rejected by the lax parser", fmt.Sprintf("fix=%s input=%q output=%q err=%v", fix, s, yl, err), ops...)
					} else if vl2 := c02Values(fl2); vl2 != vl {
						g.Fail("directive values differ after formatting (go.mod, lax parser)", fmt.Sprintf("fix=%s input=%q output=%q before=%q after=%q", fix, s, yl, vl, vl2), ops...)
					}
				}
			}
			if f, err := modfile.ParseWork(c20FileName, data, fx); err == nil && c02WorkWellFormed(f) {
				g.Case("work-wellformed-" + fix)
				v := c02WorkValues(f)
				y := modfile.Format(f.Syntax)
				ops := []string{"modfile.parsework " + fix + " " + h, "modfile.parsework " + fix + " " + hx(string(y))}
				f2, err := modfile.ParseWork(c20FileName, y, fx)
				if err != nil {
					g.Fail("formatted go.work is rejected by the parser", fmt.Sprintf("fix=%s input=%q output=%q err=%v", fix, s, y, err), ops...)
				} else if v2 := c02WorkValues(f2); v2 != v {
					g.Fail("directive values differ after formatting (go.work)", fmt.Sprintf("fix=%s input=%q output=%q before=%q after=%q", fix, s, y, v, v2), ops...)
				}
			}
		}
	})
}

func oracleC02(g *Gen, n int) {
	for _, s := range c02EscapedNewlineCases {
		c02OracleInput(g, s, "escaped-newline")
	}
	for _, s := range c20Boundary {
		c02OracleInput(g, s, "boundary")
	}
	c02CommentTailSweep(func(s string, work bool) { c02OracleInput(g, s, "comment-tail") })
	c02EscSweep(func(s string, work bool) { c02OracleInput(g, s, "escape-spelled") })
	for i := 0; i < n; i++ {
		s, tag := c02GenInput(g.Rand)
		c02OracleInput(g, s, tag)
	}
}
