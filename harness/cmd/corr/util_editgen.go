package main

// Generators for C08/C15/C16: well-formed go.mod / go.work starting files and op sequences.

import (
	"strconv"
	"strings"

	"golang.org/x/mod/modfile"
	"golang.org/x/mod/module"
)

var edModPaths = []string{"example.com/a", "example.com/b", "example.com/c/v2", "example.com/d/v3", "gopkg.in/yaml.v2", "golang.org/x/net", "example.com/e"}
var edToolPaths = []string{"example.com/a/cmd/t", "example.com/b/tool", "golang.org/x/tools/cmd/stringer", "example.com/e"}
var edV1 = []string{"v1.0.0", "v1.2.3", "v1.10.0", "v1.9.0", "v0.1.0", "v0.0.0-20200101000000-abcdef123456", "v1.0.0-rc.1", "v2.0.0+incompatible", "v1.10.0-beta"}
var edV2 = []string{"v2.0.0", "v2.1.0", "v2.10.0", "v2.9.0", "v2.0.0-alpha.1"}
var edV3 = []string{"v3.0.0", "v3.1.4", "v3.10.2"}
var edGoVersions = []string{"1.12", "1.17", "1.20", "1.21", "1.21.0", "1.22", "1.23.1", "1.21rc1", "1.20.5"}
var edToolchains = []string{"go1.21.0", "go1.22.1", "default", "go1.23rc1", "go1.21.3-custom"}
var edGodebugKeys = []string{"panicnil", "http2client", "default", "asynctimerchan"}
var edGodebugVals = []string{"1", "0", "go1.21", "x=y"}
var edDirPaths = []string{"./a", "./b", "../c", "/abs/d", "./a/b", "."}
// edUseDirPaths: pool of go.work `use` directories, for the starting file AND for the arguments of
// AddUse / AddNewUse / DropUse / SetUse. Input class added for the gap "use directory that needs quoting":
// besides the plain directories it holds directories for which modfile.MustQuote is true (space, `//`, `/*`,
// single/double quote, bracket/brace/comma in a longer name, non-printable rune) and a non-ASCII printable one.
// Such a key exists in file syntax only as a quoted token while Use.Path is the unquoted string, so every site
// that rewrites or re-creates a line from the typed entry must re-quote it. The pool used to hold only plain
// identifiers, so an update of an ALREADY PRESENT quoting-needed use entry (from the starting file, or added
// earlier in the history; edPickKey repeats live keys with 65%) was never drawn.
var edUseQuotedDirPaths = []string{"./my mod", "./a//b", "./a/*b", "./it's", "./q\"d", "./x[1]", "./p(q)", "./a,b", "./{t}", "./a\tb", "./b`c"}
var edUseDirPaths = append(append([]string{}, edDirPaths...), append([]string{"./d\u00e9j\u00e0", "[", ","}, edUseQuotedDirPaths...)...)

// edPickUseDir: a use directory from the pool; about one in three draws needs quoting.
func edPickUseDir(r *Rand) string {
	if r.Chance(30) {
		return r.Pick(edUseQuotedDirPaths)
	}
	return r.Pick(edUseDirPaths)
}

var edModulePaths = []string{"example.com/m", "example.com/m", "example.com/m/v2"}
// edRationales: AddRetract rationale texts. Input class added for the gap "rationale with an EMPTY line": a text of
// two paragraphs (blank line in the middle), and a blank line at either end. AddRetract turns every line of the
// text into one comment of the new line; an empty line is the one shape where "a comment line" and "a blank line"
// can be confused: inside a block a blank line stays with the following line, at top level it ENDS the comment
// group, so the typed Rationale and the strict re-parse can only diverge on this shape — and only once the
// retraction stands as a single top-level line (first retraction of the file, or its block collapsed by
// DropRetract + Cleanup; both placements are frequent in the random histories, and swept in c15.go). The pool used
// to hold one-paragraph texts only ("two\nlines" has no empty line).
var edRationales = []string{"", "", "bad", "broken build", "two\nlines", "see issue 1",
	"published by accident\n\nuse the next one", "one\n\ntwo\nthree", "\nblank first", "blank last\n"}
var edComments = []string{"// c1", "// note", "//x", "// keep me", "//", "// indirect", "// Deprecated: gone", "// indirect; because"}
var edReqSuffix = []string{"// indirect", "// indirect", "// indirect", "// indirect", "// indirect; reason", "//indirect", "// indirect;", "// note", "//", "// indirect;x", "// Indirect", "//\tindirect"}

// edReqSuffixNested: end-of-line comments whose payload after the marker is again (or looks like) a marker
var edReqSuffixNested = []string{"// indirect; indirect", "// indirect; indirect; x", "//indirect;indirect"}

func edVersFor(r *Rand, path string) string {
	_, major, ok := module.SplitPathVersion(path)
	if !ok {
		return r.Pick(edV1)
	}
	switch major {
	case "/v2", ".v2":
		return r.Pick(edV2)
	case "/v3", ".v3":
		return r.Pick(edV3)
	}
	return r.Pick(edV1)
}

// Input class "versions that are EQUAL under semver.Compare but DIFFERENT strings" (added for the gap "interval bounds
// equal as versions, different as strings"). A canonical module version keeps the build tag `+incompatible`
// (module.CanonicalVersion, checkCanonicalVersion and CheckPathMajor all accept vX.Y.Z+incompatible next to vX.Y.Z
// whenever the major version fits the path), while semver.Compare ignores build metadata. So `v` and
// `v+incompatible` are two distinct keys of every typed list (DropExclude / DropReplace / DropRetract / the
// duplicate tests of AddExclude / AddReplace and the "single version or interval" test of AddRetract all compare
// STRINGS) that every version-ordered comparison (lineExcludeLess, lineRetractLess) treats as equal. The pools used to
// contain no such pair for any module path (edV1 has v2.0.0+incompatible but not v2.0.0, edV2 has v2.0.0 but nothing
// with the tag), so a site that decides string identity with a version comparison - or the other way round - was
// never exercised: neither by an AddRetract whose bounds are each other's twin, nor by a later Drop* that names an
// entry by the twin spelling (for a retraction: by the interval AS THE FORMATTED FILE SHOWS IT), nor by a starting
// file that already holds both spellings.
//
// edTwin toggles the tag: the other canonical spelling of the same semantic version.
func edTwin(v string) string {
	if v == "" {
		return v
	}
	if strings.HasSuffix(v, "+incompatible") {
		return strings.TrimSuffix(v, "+incompatible")
	}
	return v + "+incompatible"
}

// edTwinOK: both spellings of v are valid versions for the module path (so the twin is not just an error input).
func edTwinOK(path, v string) bool { return edVersionOK(path, v) && edVersionOK(path, edTwin(v)) }

// edVersTwinFor: a version for path whose twin is valid too (v0/v1 under a path without major suffix, vN under /vN).
func edVersTwinFor(r *Rand, path string) string {
	for i := 0; i < 8; i++ {
		if v := edVersFor(r, path); edTwinOK(path, v) {
			return v
		}
	}
	return edVersFor(r, path)
}

// edSomeTwin spells v the other way with probability pct/100 - only if that is a valid version for path too
// (AddReplace does not validate its versions: an invalid one is outside the property's "valid arguments").
func edSomeTwin(r *Rand, pct int, path, v string) string {
	if r.Chance(pct) && edTwinOK(path, v) {
		return edTwin(v)
	}
	return v
}

type edFG struct {
	r *Rand
	b strings.Builder
}

func (g *edFG) before(indent string) {
	if g.r.Chance(22) {
		n := 1 + g.r.Intn(2)
		for i := 0; i < n; i++ {
			g.b.WriteString(indent + g.r.Pick(edComments) + "\n")
		}
	}
}

func (g *edFG) suffix(kind string) string {
	if kind == "require" {
		if g.r.Chance(55) {
			if g.r.Chance(3) {
				return " " + g.r.Pick(edReqSuffixNested)
			}
			return " " + g.r.Pick(edReqSuffix)
		}
		return ""
	}
	if g.r.Chance(15) {
		return " " + g.r.Pick(edComments)
	}
	return ""
}

func (g *edFG) tok(s string) string {
	if g.r.Chance(6) {
		return `"` + s + `"`
	}
	return s
}

// args renders the argument tokens of one directive of the given kind.
func (g *edFG) args(kind string, modPath string) string {
	r := g.r
	switch kind {
	case "require", "exclude":
		p := r.Pick(edModPaths)
		v := edVersFor(r, p)
		if r.Chance(2) {
			v += "+meta" // non-canonical in the source; the parser canonicalises the token
		} else if r.Chance(5) {
			v = edTwin(edVersTwinFor(r, p)) // the `+incompatible` spelling of an ordinary version (or the reverse)
		}
		return g.tok(p) + " " + v
	case "replace":
		p := r.Pick(edModPaths)
		s := g.tok(p)
		if r.Chance(55) {
			s += " " + edSomeTwin(r, 5, p, edVersTwinFor(r, p))
		}
		s += " => "
		if r.Chance(45) {
			s += g.tok(r.Pick(edDirPaths[:5]))
		} else {
			np := r.Pick(edModPaths)
			s += g.tok(np) + " " + edVersFor(r, np)
		}
		return s
	case "retract":
		lo := edVersFor(r, modPath)
		if r.Chance(8) {
			// bounds that are each other's twin (both orders), or a single version in the tagged spelling
			lo = edVersTwinFor(r, modPath)
			switch r.Intn(3) {
			case 0:
				return "[" + lo + ", " + edTwin(lo) + "]"
			case 1:
				return "[" + edTwin(lo) + ", " + lo + "]"
			}
			return edTwin(lo)
		}
		if r.Chance(50) {
			return lo
		}
		return "[" + lo + ", " + edVersFor(r, modPath) + "]"
	case "tool":
		return g.tok(r.Pick(edToolPaths))
	case "godebug":
		return r.Pick(edGodebugKeys) + "=" + r.Pick(edGodebugVals)
	case "use":
		p := edPickUseDir(r)
		if modfile.MustQuote(p) {
			return strconv.Quote(p) // the only file syntax for such a directory
		}
		return g.tok(p)
	}
	return ""
}

func (g *edFG) stmt(kind, modPath string) {
	r := g.r
	form := r.Intn(100)
	switch {
	case form < 45: // single line
		g.before("")
		g.b.WriteString(kind + " " + g.args(kind, modPath) + g.suffix(kind) + "\n")
	case form < 48: // empty block
		g.before("")
		g.b.WriteString(kind + " ()\n")
	case form < 50 && kind != "godebug": // empty block with an end-of-line comment (it becomes LineBlock.Suffix)
		g.b.WriteString(kind + " () " + r.Pick([]string{"// indirect", "// why", "// indirect; x"}) + "\n")
	default:
		g.before("")
		g.b.WriteString(kind + " (")
		if r.Chance(8) {
			g.b.WriteString(" " + r.Pick(edComments))
		}
		g.b.WriteString("\n")
		n := 1 + r.Intn(5)
		if r.Chance(25) {
			n = 1
		}
		for i := 0; i < n; i++ {
			if i > 0 && r.Chance(15) {
				g.b.WriteString("\n")
			}
			g.before("\t")
			g.b.WriteString("\t" + g.args(kind, modPath) + g.suffix(kind) + "\n")
		}
		if r.Chance(8) {
			g.b.WriteString("\t" + r.Pick(edComments) + "\n")
		}
		g.b.WriteString(")")
		if r.Chance(10) {
			g.b.WriteString(" " + r.Pick(edComments))
		}
		g.b.WriteString("\n")
	}
	if r.Chance(60) {
		g.b.WriteString("\n")
	}
}

var edModKinds = []string{"require", "require", "require", "require", "exclude", "replace", "replace", "retract", "tool", "godebug"}
var edWorkKinds = []string{"use", "use", "use", "replace", "godebug"}

func edGenFileOnce(r *Rand, work bool) string {
	g := &edFG{r: r}
	if r.Chance(15) {
		g.b.WriteString("// header comment\n\n")
	}
	modPath := r.Pick(edModulePaths)
	if !work && r.Chance(90) {
		g.before("")
		if r.Chance(6) {
			g.b.WriteString("module (\n\t" + g.tok(modPath) + "\n)\n\n")
		} else {
			g.b.WriteString("module " + g.tok(modPath) + g.suffix("module") + "\n\n")
		}
	}
	if r.Chance(85) {
		g.before("")
		g.b.WriteString("go " + r.Pick(edGoVersions) + g.suffix("go") + "\n\n")
	}
	if r.Chance(25) {
		g.b.WriteString("toolchain " + r.Pick(edToolchains) + g.suffix("toolchain") + "\n\n")
	}
	max := 7
	if thorough {
		max = 12
	}
	n := r.Intn(max)
	kinds := edModKinds
	if work {
		kinds = edWorkKinds
	}
	focus := ""
	if r.Chance(30) {
		focus = r.Pick(kinds)
	}
	for i := 0; i < n; i++ {
		k := r.Pick(kinds)
		if focus != "" && r.Chance(60) {
			k = focus
		}
		g.stmt(k, modPath)
	}
	if r.Chance(5) {
		g.b.WriteString("// trailing comment\n")
	}
	s := g.b.String()
	if r.Chance(3) {
		s = strings.ReplaceAll(s, "\n", "\r\n")
	}
	return s
}

// edGenFile returns a starting file that parses strictly.
func edGenFile(r *Rand, work bool) string {
	for i := 0; i < 30; i++ {
		s := edGenFileOnce(r, work)
		var err error
		if work {
			_, err = modfile.ParseWork("go.work", []byte(s), nil)
		} else {
			_, err = modfile.Parse("go.mod", []byte(s), nil)
		}
		if err == nil {
			return s
		}
	}
	if work {
		return "go 1.21\n\nuse ./a\n"
	}
	return "module example.com/m\n\ngo 1.21\n"
}

// edPick chooses with bias towards keys present in cur (collisions with existing lines).
func edPickKey(r *Rand, cur *edDirs, kind, field int, pool []string) string {
	if n := len(cur.L[kind]); n > 0 && r.Chance(65) {
		return cur.L[kind][r.Intn(n)].K[field]
	}
	return r.Pick(pool)
}

func edGenReqList(r *Rand, cur *edDirs) []edEnt {
	var out []edEnt
	seen := map[string]bool{}
	n := r.Intn(6)
	if r.Chance(10) {
		n = 0
	}
	for i := 0; i < n; i++ {
		p := edPickKey(r, cur, edRequire, 0, edModPaths)
		if seen[p] {
			continue
		}
		seen[p] = true
		v := edVersFor(r, p)
		// often keep the existing version
		if r.Chance(40) {
			for _, e := range cur.L[edRequire] {
				if e.K[0] == p {
					v = e.K[1]
					break
				}
			}
		}
		out = append(out, edEnt{K: []string{p, v}, Ind: r.Chance(45), ID: -1})
	}
	return out
}

func edGenUseList(r *Rand, cur *edDirs) []edEnt {
	var out []edEnt
	seen := map[string]bool{}
	n := r.Intn(5)
	for i := 0; i < n; i++ {
		p := edPickKey(r, cur, edUse, 0, []string{edPickUseDir(r)})
		if seen[p] {
			continue
		}
		seen[p] = true
		out = append(out, edEnt{K: []string{p, r.Pick([]string{"", "example.com/m"})}, ID: -1})
	}
	return out
}

// edGenOp draws one op; cur is the abstract state so far (for collision bias).
func edGenOp(r *Rand, cur *edDirs, work bool) edOp {
	modPath := ""
	if cur.Module != nil {
		modPath = cur.Module.K[0]
	}
	replaceOp := func() edOp {
		op := edPickKey(r, cur, edReplace, 0, edModPaths)
		ov := ""
		if r.Chance(60) {
			ov = edVersFor(r, op)
			if r.Chance(60) {
				for _, e := range cur.L[edReplace] {
					if e.K[0] == op && e.K[1] != "" {
						ov = e.K[1]
					}
				}
			}
			// the twin spelling of the (existing or fresh) old version: a different key that compares equal
			ov = edSomeTwin(r, 10, op, ov)
		}
		if r.Chance(45) {
			return edOp{Name: "replace", A: []string{op, ov, r.Pick(edDirPaths[:5]), ""}}
		}
		np := r.Pick(edModPaths)
		return edOp{Name: "replace", A: []string{op, ov, np, edVersFor(r, np)}}
	}
	dropReplaceOp := func() edOp {
		if n := len(cur.L[edReplace]); n > 0 && r.Chance(75) {
			e := cur.L[edReplace][r.Intn(n)]
			return edOp{Name: "dropreplace", A: []string{e.K[0], edSomeTwin(r, 10, e.K[0], e.K[1])}}
		}
		p := r.Pick(edModPaths)
		return edOp{Name: "dropreplace", A: []string{p, r.Pick([]string{"", edVersFor(r, p)})}}
	}
	goOp := func() edOp {
		if r.Chance(6) {
			return edOp{Name: "go", A: []string{r.Pick([]string{"1", "1.x", "v1.21", "", "01.2"})}}
		}
		return edOp{Name: "go", A: []string{r.Pick(edGoVersions)}}
	}
	tcOp := func() edOp {
		if r.Chance(6) {
			return edOp{Name: "toolchain", A: []string{r.Pick([]string{"go2", "local", "1.21", "go"})}}
		}
		return edOp{Name: "toolchain", A: []string{r.Pick(edToolchains)}}
	}
	gdOp := func() edOp {
		return edOp{Name: "godebug", A: []string{edPickKey(r, cur, edGodebug, 0, edGodebugKeys), r.Pick(edGodebugVals)}}
	}
	if work {
		switch r.Intn(16) {
		case 0:
			return goOp()
		case 1:
			return edOp{Name: "dropgo"}
		case 2:
			return tcOp()
		case 3:
			return edOp{Name: "droptoolchain"}
		case 4:
			return gdOp()
		case 5:
			return edOp{Name: "dropgodebug", A: []string{edPickKey(r, cur, edGodebug, 0, edGodebugKeys)}}
		case 6, 7:
			return edOp{Name: "use", A: []string{edPickKey(r, cur, edUse, 0, []string{edPickUseDir(r)}), r.Pick([]string{"", "example.com/m"})}}
		case 8:
			return edOp{Name: "newuse", A: []string{edPickKey(r, cur, edUse, 0, []string{edPickUseDir(r)}), ""}}
		case 9:
			return edOp{Name: "dropuse", A: []string{edPickKey(r, cur, edUse, 0, []string{edPickUseDir(r)})}}
		case 10, 11:
			return edOp{Name: "setuse", List: edGenUseList(r, cur)}
		case 12, 13:
			return replaceOp()
		case 14:
			return dropReplaceOp()
		}
		return edOp{Name: r.Pick([]string{"sortblocks", "cleanup"})}
	}
	switch r.Intn(40) {
	case 0:
		return edOp{Name: "module", A: []string{r.Pick(edModulePaths)}}
	case 1:
		return goOp()
	case 2:
		return edOp{Name: "dropgo"}
	case 3:
		return tcOp()
	case 4:
		return edOp{Name: "droptoolchain"}
	case 5, 6:
		return gdOp()
	case 7:
		return edOp{Name: "dropgodebug", A: []string{edPickKey(r, cur, edGodebug, 0, edGodebugKeys)}}
	case 8, 9, 10, 11:
		p := edPickKey(r, cur, edRequire, 0, edModPaths)
		return edOp{Name: "require", A: []string{p, edVersFor(r, p)}}
	case 12, 13:
		p := edPickKey(r, cur, edRequire, 0, edModPaths)
		ind := "0"
		if r.Bool() {
			ind = "1"
		}
		return edOp{Name: "newrequire", A: []string{p, edVersFor(r, p), ind}}
	case 14, 15:
		return edOp{Name: "droprequire", A: []string{edPickKey(r, cur, edRequire, 0, edModPaths)}}
	case 16, 17, 18:
		return edOp{Name: "setrequire", List: edGenReqList(r, cur)}
	case 19, 20, 21:
		return edOp{Name: "setrequiresep", List: edGenReqList(r, cur)}
	case 22, 23, 24:
		p := edPickKey(r, cur, edExclude, 0, edModPaths)
		v := edVersFor(r, p)
		if r.Chance(8) {
			v = r.Pick([]string{"v1.2", "v9.0.0", "1.0.0", "", "v1.0.0+meta"})
		} else if r.Chance(12) {
			// the twin spelling of a version already excluded for p (else of a fresh one): equal as version, new as key
			v = edVersTwinFor(r, p)
			for _, e := range cur.L[edExclude] {
				if e.K[0] == p && r.Bool() {
					v = e.K[1]
				}
			}
			v = edTwin(v)
		}
		return edOp{Name: "exclude", A: []string{p, v}}
	case 25, 26:
		if n := len(cur.L[edExclude]); n > 0 && r.Chance(75) {
			e := cur.L[edExclude][r.Intn(n)]
			return edOp{Name: "dropexclude", A: []string{e.K[0], edSomeTwin(r, 10, e.K[0], e.K[1])}}
		}
		p := r.Pick(edModPaths)
		return edOp{Name: "dropexclude", A: []string{p, edVersFor(r, p)}}
	case 27, 28, 29:
		return replaceOp()
	case 30:
		return dropReplaceOp()
	case 31, 32:
		lo := edVersFor(r, modPath)
		hi := lo
		if r.Bool() {
			hi = edVersFor(r, modPath)
		}
		if r.Chance(8) {
			hi = r.Pick([]string{"v1", "v7.0.0", "", "v1.2.3+meta"})
		} else if r.Chance(15) {
			// bounds equal under semver.Compare, different as strings (both orders); sometimes the same tagged
			// spelling on both sides (a single version again)
			lo = edVersTwinFor(r, modPath)
			hi = edTwin(lo)
			switch r.Intn(5) {
			case 0, 1:
				lo, hi = hi, lo
			case 2:
				lo = hi
			}
		}
		return edOp{Name: "retract", A: []string{lo, hi, r.Pick(edRationales)}}
	case 33:
		if n := len(cur.L[edRetract]); n > 0 && r.Chance(80) {
			e := cur.L[edRetract][r.Intn(n)]
			if e.K[0] != e.K[1] && edTwin(e.K[0]) == e.K[1] && r.Chance(50) {
				// twin bounds: name the interval as a file that shows only ONE of the bounds would (a reader of the
				// formatted file drops what the file says); a no-op unless typed list and file have diverged
				k := e.K[r.Intn(2)]
				return edOp{Name: "dropretract", A: []string{k, k}}
			}
			if r.Chance(10) {
				// one bound in the twin spelling: a different interval
				if r.Bool() {
					return edOp{Name: "dropretract", A: []string{edTwin(e.K[0]), e.K[1]}}
				}
				return edOp{Name: "dropretract", A: []string{e.K[0], edTwin(e.K[1])}}
			}
			return edOp{Name: "dropretract", A: []string{e.K[0], e.K[1]}}
		}
		v := edVersFor(r, modPath)
		return edOp{Name: "dropretract", A: []string{v, v}}
	case 34, 35:
		return edOp{Name: "tool", A: []string{edPickKey(r, cur, edTool, 0, edToolPaths)}}
	case 36:
		return edOp{Name: "droptool", A: []string{edPickKey(r, cur, edTool, 0, edToolPaths)}}
	case 37:
		return edOp{Name: "sortblocks"}
	}
	return edOp{Name: "cleanup"}
}

func edIsBulk(name string) bool {
	return name == "setrequire" || name == "setrequiresep" || name == "setuse"
}

// edGenSession draws a starting file and an op sequence (Cleanup before bulk setters and at the end).
// It also returns whether at least one op hit an existing line (non-triviality rule).
func edGenSession(r *Rand, work bool) (file string, ops []edOp, hit bool) {
	return edGenSessionOpt(r, work, true)
}

// edGenSessionOpt: cleanupBeforeBulk=false omits the Cleanup the property requires before bulk setters
// (correspondence only: it drives the implementation into its nil-pointer panic on cleared entries, which the
// model answers with `panic:<op>`).
func edGenSessionOpt(r *Rand, work bool, cleanupBeforeBulk bool) (file string, ops []edOp, hit bool) {
	file = edGenFile(r, work)
	var start *edDirs
	if work {
		f, _ := modfile.ParseWork("go.work", []byte(file), nil)
		start = edDirsOfWork(f, nil)
	} else {
		f, _ := modfile.Parse("go.mod", []byte(file), nil)
		start = edDirsOfFile(f, nil)
	}
	// give ids so that Touched tells whether an existing line was hit
	id := 0
	for k := range start.L {
		for i := range start.L[k] {
			start.L[k][i].ID = id
			id++
		}
	}
	for _, p := range []*edEnt{start.Module, start.Go, start.Toolchain} {
		if p != nil {
			p.ID = id
			id++
		}
	}
	a := &edAbs{edDirs: edCloneDirs(start), Work: work, Touched: map[int]bool{}}
	max := 12
	if thorough {
		max = 40
	}
	n := 1 + r.Intn(max)
	if r.Chance(50) {
		n = 1 + r.Intn(4)
	}
	for i := 0; i < n; i++ {
		o := edGenOp(r, a.edDirs, work)
		if edIsBulk(o.Name) {
			o.Rev = r.Bool()
		}
		if cleanupBeforeBulk && edIsBulk(o.Name) && (len(ops) == 0 || ops[len(ops)-1].Name != "cleanup") {
			ops = append(ops, edOp{Name: "cleanup"})
		}
		ops = append(ops, o)
		a.step(o)
	}
	if ops[len(ops)-1].Name != "cleanup" {
		ops = append(ops, edOp{Name: "cleanup"})
	}
	return file, ops, len(a.Touched) > 0
}

func edSessionLine(work bool, file string, ops []edOp) string {
	name := "edit.session"
	if work {
		name = "edit.worksession"
	}
	return name + " " + hx(file) + " | " + edEncodeOps(ops)
}
