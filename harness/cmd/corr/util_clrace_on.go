//go:build race

package main

const clRaceBuild = true
