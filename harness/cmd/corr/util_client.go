package main

// util_client.go — shared pieces for C01 / C13 / C14 (the checksum-database client).
//
//   * clWorld: true logs (A, a fork B sharing a prefix with A, forged variants of A) built with the real
//     tlog code, served through the real server code (sumdb.NewServer over sumdb.TestServer) in-process,
//     signed with real note keys generated deterministically from the world seed.
//   * clEnv / clOps: an in-process sumdb.ClientOps with a log of every external operation, per-response
//     fault injection, shared configuration, per-group caches.
//   * scenario language `client.run <tokens>` and its executor (clRunScenario).
//
// The deterministic scheduler lives in util_clsched.go.

import (
	"bytes"
	"context"
	"crypto/sha256"
	"encoding/base64"
	"encoding/binary"
	"encoding/hex"
	"errors"
	"fmt"
	"net/http"
	"net/http/httptest"
	"net/url"
	"os"
	"reflect"
	"runtime"
	"sort"
	"strconv"
	"strings"
	"sync"
	"time"

	"golang.org/x/mod/module"
	"golang.org/x/mod/sumdb"
	"golang.org/x/mod/sumdb/note"
	"golang.org/x/mod/sumdb/tlog"
)

const clName = "verif.example/sumdb"

// ---------------------------------------------------------------------------------------------
// deterministic byte stream for key generation

type clDetReader struct{ r *Rand }

func (d clDetReader) Read(p []byte) (int, error) {
	for i := range p {
		p[i] = byte(d.r.U64())
	}
	return len(p), nil
}

// ---------------------------------------------------------------------------------------------
// true logs

type clRec struct {
	path, vers string
	text       []byte
}

func (r clRec) key() string { return r.path + "@" + r.vers }

// clHashes implements tlog.HashReader over a slice (like sumdb's testHashes).
type clHashes []tlog.Hash

func (h clHashes) ReadHashes(indexes []int64) ([]tlog.Hash, error) {
	list := make([]tlog.Hash, 0, len(indexes))
	for _, id := range indexes {
		if id < 0 || id >= int64(len(h)) {
			return nil, fmt.Errorf("clHashes: index %d out of range", id)
		}
		list = append(list, h[id])
	}
	return list, nil
}

type clLog struct {
	w      *clWorld
	tag    string // "A", "B", "F<id>"
	signer string // key used to sign this log's heads
	recs   []clRec
	hashes clHashes
	byKey  map[string]int
	leaf   map[tlog.Hash]int // record hash -> first id
	mu     sync.Mutex
	snaps  map[int]*clSnap
}

func clNewLog(w *clWorld, tag, signer string) *clLog {
	return &clLog{w: w, tag: tag, signer: signer, byKey: map[string]int{}, leaf: map[tlog.Hash]int{}, snaps: map[int]*clSnap{}}
}

func (l *clLog) add(r clRec) {
	id := int64(len(l.recs))
	hs, err := tlog.StoredHashesForRecordHash(id, tlog.RecordHash(r.text), l.hashes)
	if err != nil {
		panic(err)
	}
	l.hashes = append(l.hashes, hs...)
	l.recs = append(l.recs, r)
	if _, ok := l.byKey[r.key()]; !ok {
		l.byKey[r.key()] = int(id)
	}
	if _, ok := l.leaf[tlog.RecordHash(r.text)]; !ok {
		l.leaf[tlog.RecordHash(r.text)] = int(id)
	}
}

func (l *clLog) size() int { return len(l.recs) }

// treeHash is the true RFC 6962 hash of the first n records.
func (l *clLog) treeHash(n int64) (tlog.Hash, bool) {
	if n < 0 || n > int64(len(l.recs)) {
		return tlog.Hash{}, false
	}
	h, err := tlog.TreeHash(n, l.hashes)
	if err != nil {
		return tlog.Hash{}, false
	}
	return h, true
}

// tileData is the true content of tile t (ok=false when t reaches beyond the log).
func (l *clLog) tileData(t tlog.Tile) ([]byte, bool) {
	if t.H < 1 || t.H > 30 || t.L < 0 || t.L > 20 || t.W < 1 || t.W > 1<<uint(t.H) || t.N < 0 || t.N > 1<<30 {
		return nil, false
	}
	// last hash of the tile is at level H*L, offset N<<H + W - 1; it exists iff (off+1)<<level <= size
	level := uint(t.H * t.L)
	if level > 40 {
		return nil, false
	}
	end := (t.N<<uint(t.H) + int64(t.W)) << level
	if end > int64(len(l.recs)) {
		return nil, false
	}
	d, err := tlog.ReadTileData(t, l.hashes)
	if err != nil {
		return nil, false
	}
	return d, true
}

// ---------------------------------------------------------------------------------------------
// snapshots: the real server code over the first n records of a log

type clResp struct {
	data []byte
	ok   bool
}

type clSnap struct {
	log    *clLog
	n      int
	ts     *sumdb.TestServer
	srv    *sumdb.Server
	sealed bool
	mu     sync.Mutex
	memo   map[string]clResp
}

func (l *clLog) snap(n int) *clSnap {
	l.mu.Lock()
	defer l.mu.Unlock()
	if n > len(l.recs) {
		n = len(l.recs)
	}
	if n < 0 {
		n = 0
	}
	if s, ok := l.snaps[n]; ok {
		return s
	}
	s := &clSnap{log: l, n: n, memo: map[string]clResp{}}
	s.ts = sumdb.NewTestServer(l.signer, func(path, vers string) ([]byte, error) {
		if s.sealed {
			return nil, os.ErrNotExist
		}
		id, ok := l.byKey[path+"@"+vers]
		if !ok {
			return nil, os.ErrNotExist
		}
		return l.recs[id].text, nil
	})
	for i := 0; i < n; i++ {
		id, err := s.ts.Lookup(context.Background(), module.Version{Path: l.recs[i].path, Version: l.recs[i].vers})
		if err != nil || id != int64(i) {
			panic(fmt.Sprintf("clSnap: building log %s: record %d got id %d err %v", l.tag, i, id, err))
		}
	}
	s.sealed = true
	s.srv = sumdb.NewServer(s.ts)
	l.snaps[n] = s
	return s
}

var clErrHTTP = errors.New("clnet: non-200 response")

// get serves path through the real sumdb.Server handler.
func (s *clSnap) get(path string) ([]byte, error) {
	s.mu.Lock()
	if r, ok := s.memo[path]; ok {
		s.mu.Unlock()
		if !r.ok {
			return nil, clErrHTTP
		}
		return append([]byte(nil), r.data...), nil
	}
	s.mu.Unlock()
	rec := httptest.NewRecorder()
	req := &http.Request{Method: "GET", URL: &url.URL{Path: path}, Header: http.Header{}}
	func() {
		// sumdb.TestServer indexes its hash slice without a bounds check: a request for a tile beyond the log
		// panics inside the handler; a real HTTP server turns that into a failed request
		defer func() {
			if recover() != nil {
				rec.Code = 500
			}
		}()
		s.srv.ServeHTTP(rec, req)
	}()
	r := clResp{ok: rec.Code == 200}
	if r.ok {
		r.data = append([]byte(nil), rec.Body.Bytes()...)
	}
	s.mu.Lock()
	s.memo[path] = r
	s.mu.Unlock()
	if !r.ok {
		return nil, clErrHTTP
	}
	return append([]byte(nil), r.data...), nil
}

// signedHead is the signed tree head the snapshot serves.
func (s *clSnap) signedHead() []byte {
	d, err := s.get("/latest")
	if err != nil {
		panic("clSnap: /latest failed")
	}
	return d
}

// ---------------------------------------------------------------------------------------------
// world

type clWorld struct {
	seed        uint64
	nA, p, nB   int
	skey, vkey  string // the configured key
	akey, avkey string // attacker key, same name
	verifier    note.Verifier
	averifier   note.Verifier
	A, B        *clLog
	mu          sync.Mutex
	forged      map[string]*clLog
}

var clWorldMu sync.Mutex
var clWorlds = map[string]*clWorld{}

var clPaths = []string{"rsc.io/quote", "rsc.io/Quote", "golang.org/x/text", "example.com/A/B", "github.com/Azure/go-SDK",
	"gopkg.in/yaml.v2", "k8s.io/api", "example.com/m/v2", "EXAMPLE.com/x", "go.uber.org/zap"}

func clMakeRec(r *Rand, i int, salt string) clRec {
	path := clPaths[r.Intn(len(clPaths))]
	if path == "EXAMPLE.com/x" {
		path = "example.com/X" // first element must be lower case
	}
	var vers string
	switch r.Intn(5) {
	case 0:
		vers = fmt.Sprintf("v1.%d.0", i)
	case 1:
		vers = fmt.Sprintf("v0.%d.1-0.20190101000000-abcdef%06d", i, i)
	case 2:
		vers = fmt.Sprintf("v2.%d.0+incompatible", i)
	case 3:
		vers = fmt.Sprintf("v1.%d.2-RC1", i) // upper case in the version
	default:
		vers = fmt.Sprintf("v0.0.%d", i)
	}
	if strings.HasSuffix(path, "/v2") {
		vers = fmt.Sprintf("v2.%d.3", i)
	}
	if path == "gopkg.in/yaml.v2" {
		vers = fmt.Sprintf("v2.%d.0", i)
	}
	h1 := sha256.Sum256([]byte(fmt.Sprintf("%s|%s|%s|zip", salt, path, vers)))
	h2 := sha256.Sum256([]byte(fmt.Sprintf("%s|%s|%s|mod", salt, path, vers)))
	text := fmt.Sprintf("%s %s h1:%s\n%s %s/go.mod h1:%s\n", path, vers, base64.StdEncoding.EncodeToString(h1[:]),
		path, vers, base64.StdEncoding.EncodeToString(h2[:]))
	if r.Intn(6) == 0 {
		text = fmt.Sprintf("%s %s h1:%s\n%s %s h2:xyzzy\n%s %s/go.mod h1:%s\n", path, vers, base64.StdEncoding.EncodeToString(h1[:]),
			path, vers, path, vers, base64.StdEncoding.EncodeToString(h2[:]))
	}
	return clRec{path: path, vers: vers, text: []byte(text)}
}

// clGetWorld builds (or returns the memoised) world: log A with nA records, and — when nB > 0 — a log B
// sharing A's first p records and holding nB records in total.
func clGetWorld(seed uint64, nA, p, nB int) *clWorld {
	key := fmt.Sprintf("%d:%d:%d:%d", seed, nA, p, nB)
	clWorldMu.Lock()
	defer clWorldMu.Unlock()
	if w, ok := clWorlds[key]; ok {
		return w
	}
	if len(clWorlds) > 400 {
		clWorlds = map[string]*clWorld{}
	}
	w := &clWorld{seed: seed, nA: nA, p: p, nB: nB, forged: map[string]*clLog{}}
	r := &Rand{s: seed*0x9e3779b97f4a7c15 + 0xc11e47}
	var err error
	w.skey, w.vkey, err = note.GenerateKey(clDetReader{r}, clName)
	if err != nil {
		panic(err)
	}
	w.akey, w.avkey, err = note.GenerateKey(clDetReader{r}, clName)
	if err != nil {
		panic(err)
	}
	w.verifier, err = note.NewVerifier(w.vkey)
	if err != nil {
		panic(err)
	}
	w.averifier, _ = note.NewVerifier(w.avkey)
	w.A = clNewLog(w, "A", w.skey)
	for i := 0; i < nA; i++ {
		rec := clMakeRec(r, i, "A")
		if seed >= clSibSeedBase {
			// worlds with name-related records (util_clsib.go); every other world is unchanged
			rec = clSibRec(r, w.A, rec)
		}
		w.A.add(rec)
	}
	if nB > 0 {
		w.B = clNewLog(w, "B", w.skey)
		for i := 0; i < nB; i++ {
			if i < p && i < nA {
				w.B.add(w.A.recs[i])
				continue
			}
			if i < nA && r.Intn(2) == 0 {
				// same module@version as A's record i, different hashes: the targeted attack
				a := w.A.recs[i]
				h1 := sha256.Sum256([]byte("B|" + a.key()))
				text := fmt.Sprintf("%s %s h1:%s\n%s %s/go.mod h1:%s\n", a.path, a.vers, base64.StdEncoding.EncodeToString(h1[:]),
					a.path, a.vers, base64.StdEncoding.EncodeToString(h1[:]))
				w.B.add(clRec{path: a.path, vers: a.vers, text: []byte(text)})
				continue
			}
			w.B.add(clMakeRec(r, 1000+i, "B"))
		}
	}
	clWorlds[key] = w
	return w
}

// forgedLog returns the log equal to A except that record id carries attacker-chosen hashes (same
// module@version).  Everything an attacker can recompute is recomputed (all stored hashes, all tiles,
// the tree hash); heads are signed with the ATTACKER's key (same key name).
func (w *clWorld) forgedLog(id int) *clLog {
	w.mu.Lock()
	defer w.mu.Unlock()
	tag := "F" + itoa(id)
	if l, ok := w.forged[tag]; ok {
		return l
	}
	l := clNewLog(w, tag, w.akey)
	for i, r := range w.A.recs {
		if i == id {
			h := sha256.Sum256([]byte("forged|" + r.key()))
			b := base64.StdEncoding.EncodeToString(h[:])
			r = clRec{path: r.path, vers: r.vers, text: []byte(fmt.Sprintf("%s %s h1:%s\n%s %s/go.mod h1:%s\n", r.path, r.vers, b, r.path, r.vers, b))}
		}
		l.add(r)
	}
	w.forged[tag] = l
	return l
}

func (w *clWorld) logByTag(tag string) *clLog {
	switch {
	case tag == "A":
		return w.A
	case tag == "B":
		return w.B
	case strings.HasPrefix(tag, "F"):
		id, err := strconv.Atoi(tag[1:])
		if err != nil || id < 0 || id >= w.A.size() {
			return nil
		}
		return w.forgedLog(id)
	}
	return nil
}

// clParseSrc parses "<log>@<size>".
func (w *clWorld) parseSrc(s string) (*clSnap, bool) {
	i := strings.IndexByte(s, '@')
	if i < 0 {
		return nil, false
	}
	l := w.logByTag(s[:i])
	n, err := strconv.Atoi(s[i+1:])
	if l == nil || err != nil || n < 0 || n > l.size() {
		return nil, false
	}
	return l.snap(n), true
}

// headInfo classifies a signed tree-head message against the world.
type clHead struct {
	valid bool   // opens under the configured key and parses as a tree
	n     int64  // tree size
	onA   bool   // hash equals A's true tree hash at n
	onB   bool   // hash equals B's true tree hash at n
	text  string // note text
}

func (w *clWorld) classifyHead(msg []byte) clHead {
	var h clHead
	if len(msg) == 0 {
		return clHead{valid: true, n: 0, onA: true, onB: w.B != nil}
	}
	n, err := note.Open(msg, note.VerifierList(w.verifier))
	if err != nil {
		return h
	}
	t, err := tlog.ParseTree([]byte(n.Text))
	if err != nil {
		return h
	}
	h.valid = true
	h.n = t.N
	h.text = n.Text
	if th, ok := w.A.treeHash(t.N); ok && th == t.Hash {
		h.onA = true
	}
	if w.B != nil {
		if th, ok := w.B.treeHash(t.N); ok && th == t.Hash {
			h.onB = true
		}
	}
	return h
}

// prefixOf reports whether head a is a prefix of head b in the true logs (a.n <= b.n and both lie on one log).
func (w *clWorld) prefixOf(a, b clHead) bool {
	if !a.valid || !b.valid || a.n > b.n {
		return false
	}
	if a.n == 0 {
		return true
	}
	// a is a prefix of b iff some true log carries both
	return a.onA && b.onA || a.onB && b.onB
}

// ---------------------------------------------------------------------------------------------
// faults

// A clFault rewrites the response to one class of remote paths.
//
//	class: "L" every /lookup/ path; "T*" every tile; "T<L>.<N>" the tile at level L number N (any width);
//	       "P<hexpath>" exactly that path
//	kind:  flip/<off>.<bit>   trunc/<len>   ext/<n>   extsig   err   negid   notree
//	       swap/<hexpath>     serve the honest response of another path
//	       pdrop/<variant>    tiles only: partial tiles are gone (request fails), the complete tile is served — with the
//	                          true prefix and a made-up tail when the served tree does not have it yet (util_clpdrop.go)
//	       split/<log>@<size> tiles only: right-edge tiles of that snapshot's tree come from it, all others honestly (split-view server)
//	       src/<log>@<size>   serve the same path from another snapshot (stale head, fork, forged log)
//	       emix/<log>@<size>  hash tiles only, entry-level splice: every hash entry of the tile that also exists in that
//	                          snapshot's tree is replaced by that snapshot's stored hash, the other entries stay as served
//	       emixw/<log>@<size> the same, but only in the CURRENT version of a partial tile (the request whose width is the
//	                          width the tile has in the tree the tile source serves); narrower versions of the same tile and
//	                          full tiles are served unchanged (a server answering the widths of one tile differently)
//	       sigsrc/<log>@<size> lookup only: record+tree text from that snapshot, signature lines from the honest response
//	       recsrc/<log>@<size> lookup only: record part from that snapshot, signed tree head from the honest response
//	       hashsrc/<log>@<size> lookup only: response from that snapshot with the key hash bytes of the honest key spliced in
//	       headext/<variant>  signed tree heads (lookup responses, /latest): the head is re-issued by the SAME signer over the
//	                          same tree with additional text lines after the hash line (forward-compatible encoding, util_c13headext.go)
type clFault struct {
	class string
	kind  string
	param string
}

func (f clFault) String() string {
	if f.param == "" {
		return f.class + "/" + f.kind
	}
	return f.class + "/" + f.kind + "/" + f.param
}

func clParseFault(s string) (clFault, bool) {
	parts := strings.SplitN(s, "/", 3)
	if len(parts) < 2 {
		return clFault{}, false
	}
	f := clFault{class: parts[0], kind: parts[1]}
	if len(parts) == 3 {
		f.param = parts[2]
	}
	return f, true
}

func clTileOfPath(path string) (tlog.Tile, bool) {
	if !strings.HasPrefix(path, "/tile/") {
		return tlog.Tile{}, false
	}
	t, err := tlog.ParseTilePath(path[1:])
	if err != nil {
		return tlog.Tile{}, false
	}
	return t, true
}

func (f clFault) matches(path string) bool {
	switch {
	case f.class == "L":
		return strings.HasPrefix(path, "/lookup/")
	case f.class == "T*":
		return strings.HasPrefix(path, "/tile/")
	case strings.HasPrefix(f.class, "T"):
		t, ok := clTileOfPath(path)
		return ok && f.class == fmt.Sprintf("T%d.%d", t.L, t.N)
	case strings.HasPrefix(f.class, "P"):
		return path == unhx(f.class[1:])
	}
	return false
}

// clMutate applies the byte-level mutation kinds (shared by remote faults and cache corruption).
func clMutate(kind, param string, data []byte) ([]byte, bool) {
	switch kind {
	case "flip":
		var off, bit int
		if _, err := fmt.Sscanf(param, "%d.%d", &off, &bit); err != nil || bit < 0 || bit > 7 {
			return nil, false
		}
		if off < 0 || off >= len(data) {
			return data, true // out of range: no-op fault
		}
		d := append([]byte(nil), data...)
		d[off] ^= 1 << uint(bit)
		return d, true
	case "trunc":
		n, err := strconv.Atoi(param)
		if err != nil || n < 0 {
			return nil, false
		}
		if n > len(data) {
			n = len(data)
		}
		return append([]byte(nil), data[:n]...), true
	case "ext":
		n, err := strconv.Atoi(param)
		if err != nil || n < 0 || n > 1<<16 {
			return nil, false
		}
		d := append([]byte(nil), data...)
		for i := 0; i < n; i++ {
			d = append(d, byte(0x41+i%23))
		}
		return d, true
	case "extsig":
		// an additional signature line by an unknown key: allowed by the note format
		d := append([]byte(nil), data...)
		sig := append([]byte{0xde, 0xad, 0xbe, 0xef}, bytes.Repeat([]byte{7}, 64)...)
		d = append(d, []byte("— other.example/key "+base64.StdEncoding.EncodeToString(sig)+"\n")...)
		return d, true
	case "notree":
		i := bytes.Index(data, []byte("\n\n"))
		if i < 0 {
			return data, true
		}
		return append([]byte(nil), data[:i+2]...), true
	case "negid":
		// "<id>\n..." -> "-1\n..." (meaningful on record 0: StoredHashIndex(0,-1) == StoredHashIndex(0,0))
		i := bytes.IndexByte(data, '\n')
		if i < 0 {
			return data, true
		}
		return append([]byte("-1"), data[i:]...), true
	case "plusid":
		i := bytes.IndexByte(data, '\n')
		if i < 0 {
			return data, true
		}
		return append(append([]byte("+00"), data[:i]...), data[i:]...), true
	case "tail":
		return clMutateTail(param, data)
	case "sigs":
		// <k>[.pre|.dup] co-signatures by keys the client does not know (util_clsigs.go)
		return clMutateSigs(param, data)
	}
	return nil, false
}

// clMutateTail: the "altered tail" family on a lookup response (network or cache file).  The record and the signed TEXT
// of the tree note are kept byte for byte; only what follows the blank line that ends the note text (the signature
// block — the one part of the response that is neither hashed into the tree nor covered by the signature) is replaced
// by attacker-chosen bytes.  Every variant must be rejected by a client that opens the note of each response; a client
// that recognises an already verified head by its text alone accepts them.
//
//	lines      go.sum-shaped lines for the record's own module@version with attacker hashes, no signature at all
//	lines+sig  the same lines, then the honest signature lines
//	sig+lines  the honest signature lines, then the same lines
//	badsig     one signature line with the honest key name and key hash but attacker bytes as the signature
//	empty      nothing after the blank line
func clMutateTail(variant string, data []byte) ([]byte, bool) {
	switch variant {
	case "lines", "lines+sig", "sig+lines", "badsig", "empty":
	default:
		return nil, false
	}
	rec, text, sigs, ok := clSplitLookup(data)
	if !ok || len(sigs) < 2 {
		return data, true // not a record followed by a note (a tile, a truncated file): no-op fault
	}
	hsig := sigs[1:] // without the blank line
	// forged go.sum lines: the lines of the record with other hashes
	var forged []byte
	i := bytes.IndexByte(rec, '\n')
	for _, ln := range strings.Split(string(rec[i+1:]), "\n") {
		f := strings.Fields(ln)
		if len(f) != 3 {
			continue
		}
		h := sha256.Sum256([]byte("tail-forged|" + ln))
		forged = append(forged, []byte(f[0]+" "+f[1]+" h1:"+base64.StdEncoding.EncodeToString(h[:])+"\n")...)
	}
	out := append(append(append([]byte(nil), rec...), text...), '\n')
	switch variant {
	case "lines":
		out = append(out, forged...)
	case "lines+sig":
		out = append(append(out, forged...), hsig...)
	case "sig+lines":
		out = append(append(out, hsig...), forged...)
	case "badsig":
		line := strings.SplitN(string(hsig), "\n", 2)[0]
		f := strings.Split(line, " ")
		if len(f) != 3 {
			return data, true
		}
		raw, err := base64.StdEncoding.DecodeString(f[2])
		if err != nil || len(raw) < 5 {
			return data, true
		}
		for k := 4; k < len(raw); k++ {
			raw[k] = byte(0x5a + k)
		}
		out = append(out, []byte(f[0]+" "+f[1]+" "+base64.StdEncoding.EncodeToString(raw)+"\n")...)
	case "empty":
	}
	return out, true
}

// clSplitLookup splits a lookup response into record part (through the blank line), note text, signature block.
func clSplitLookup(data []byte) (rec, text, sigs []byte, ok bool) {
	i := bytes.Index(data, []byte("\n\n"))
	if i < 0 {
		return nil, nil, nil, false
	}
	rec = data[:i+2]
	rest := data[i+2:]
	j := bytes.LastIndex(rest, []byte("\n\n"))
	if j < 0 {
		return rec, rest, nil, false
	}
	return rec, rest[:j+1], rest[j+1:], true
}

// apply returns the faulty response for path given the honest one.
func (f clFault) apply(e *clEnv, path string, honest []byte, herr error) ([]byte, error, bool) {
	switch f.kind {
	case "err":
		return nil, clErrHTTP, true
	case "swap":
		d, err := e.honestGet(unhx(f.param))
		return d, err, true
	case "pdrop":
		return clPdropApply(e, path, f.param, honest, herr)
	case "headext":
		return clHeadExtApply(e, f.param, honest, herr)
	case "split":
		// split-view server: a tile that lies on the right edge of (or beyond the common part inside) the given
		// snapshot's tree is served from that snapshot, every other tile honestly
		sn, ok := e.w.parseSrc(f.param)
		t, ok2 := clTileOfPath(path)
		if !ok || !ok2 {
			return nil, nil, false
		}
		level := uint(t.H * t.L)
		end := (t.N<<uint(t.H) + int64(t.W)) << level
		edge := (t.N<<uint(t.H) + int64(t.W)) == int64(sn.n)>>level
		if end <= int64(sn.n) && (edge || end > int64(e.tileSrc.n)) {
			d, err := sn.get(path)
			return d, err, true
		}
		return honest, herr, true
	case "emix", "emixw":
		// equivocating server, entry-level splice (see the fault table above).  The tile keeps its length; only
		// entries that the other snapshot's tree has as stored hashes are overwritten with that tree's hashes.
		sn, ok := e.w.parseSrc(f.param)
		t, ok2 := clTileOfPath(path)
		if !ok || !ok2 {
			return nil, nil, false
		}
		if herr != nil || t.L < 0 || t.H < 1 || t.H > 30 || t.H*t.L > 40 || len(honest) != t.W*tlog.HashSize {
			return honest, herr, true
		}
		level := t.H * t.L
		first := t.N << uint(t.H)
		if f.kind == "emixw" {
			avail := int64(e.tileSrc.n)>>uint(level) - first
			if avail >= 1<<uint(t.H) || int64(t.W) != avail {
				return honest, herr, true
			}
		}
		d := append([]byte(nil), honest...)
		for i := 0; i < t.W; i++ {
			idx := first + int64(i)
			if (idx+1)<<uint(level) <= int64(sn.n) {
				hx := sn.log.hashes[tlog.StoredHashIndex(level, idx)]
				copy(d[i*tlog.HashSize:], hx[:])
			}
		}
		return d, nil, true
	case "src", "sigsrc", "hashsrc", "recsrc":
		s, ok := e.w.parseSrc(f.param)
		if !ok {
			return nil, nil, false
		}
		d, err := s.get(path)
		if err != nil || f.kind == "src" {
			return d, err, true
		}
		if herr != nil {
			return d, err, true
		}
		rec, text, sigs, ok1 := clSplitLookup(d)
		_, _, hsigs, ok2 := clSplitLookup(honest)
		if !ok1 || !ok2 {
			return d, err, true
		}
		if f.kind == "recsrc" {
			// forged record, honest signed tree head
			_, htext, _, _ := clSplitLookup(honest)
			out := append(append(append([]byte(nil), rec...), htext...), hsigs...)
			return out, nil, true
		}
		if f.kind == "sigsrc" {
			out := append(append(append([]byte(nil), rec...), text...), hsigs...)
			return out, nil, true
		}
		// hashsrc: keep the other log's signature bytes but claim the configured key's hash
		line := strings.TrimSuffix(strings.TrimPrefix(string(sigs), "\n"), "\n")
		fs := strings.Split(line, " ")
		if len(fs) != 3 {
			return d, err, true
		}
		raw, err2 := base64.StdEncoding.DecodeString(fs[2])
		if err2 != nil || len(raw) < 5 {
			return d, err, true
		}
		binary.BigEndian.PutUint32(raw[:4], e.w.verifier.KeyHash())
		out := append(append(append([]byte(nil), rec...), text...), []byte("\n"+fs[0]+" "+fs[1]+" "+base64.StdEncoding.EncodeToString(raw)+"\n")...)
		return out, nil, true
	}
	if herr != nil {
		return nil, herr, true
	}
	d, ok := clMutate(f.kind, f.param, honest)
	return d, nil, ok
}

// ---------------------------------------------------------------------------------------------
// environment: shared configuration, caches, network, operation log

type clEvent struct {
	C    int    // client index
	G    string // goroutine label: "g<i>" lookup goroutine i of the current batch, "s" sequential caller, "t" internal tile goroutine
	Kind string // rr (ReadRemote) rc (ReadCache) wc (WriteCache) rf (ReadConfig) wf (WriteConfig) sec log start ret
	File string
	Data []byte // data returned or written
	Old  []byte // WriteConfig old
	Err  string // "" | "err" | "conflict"
	Seq  int
}

// clCfgVal is one value of the stored head and who installed it (client index; -1 warm-up client; -2 the scenario).
type clCfgVal struct {
	val []byte
	by  int
}

type clEnv struct {
	w       *clWorld
	mu      sync.Mutex
	config  map[string][]byte
	caches  map[int]map[string][]byte // cache group -> files
	trace   []clEvent
	lookSrc *clSnap // snapshot answering /lookup/
	tileSrc *clSnap // snapshot answering /tile/
	srcOf   map[int][2]*clSnap // per-client override of (lookSrc, tileSrc)
	growTo  []int   // when non-empty: the k-th remote lookup request is answered by A@growTo[min(k,len-1)] (an honest, growing server)
	nLook   int
	faults  []clFault
	sched   *clSched
	gids    sync.Map // goroutine id -> label
	badSpec bool
	badWhy  string
	cfgHist []clCfgVal // successive values of <name>/latest (initial value first)
}

func clNewEnv(w *clWorld) *clEnv {
	e := &clEnv{w: w, config: map[string][]byte{}, caches: map[int]map[string][]byte{}}
	e.config["key"] = []byte(w.vkey + "\n")
	e.lookSrc = w.A.snap(w.A.size())
	e.tileSrc = e.lookSrc
	e.cfgHist = []clCfgVal{{nil, -2}}
	return e
}

func clGoid() uint64 {
	var buf [64]byte
	n := runtime.Stack(buf[:], false)
	// "goroutine 123 [running]:"
	s := buf[:n]
	s = s[len("goroutine "):]
	var id uint64
	for _, c := range s {
		if c < '0' || c > '9' {
			break
		}
		id = id*10 + uint64(c-'0')
	}
	return id
}

func (e *clEnv) label() string {
	if v, ok := e.gids.Load(clGoid()); ok {
		return v.(string)
	}
	return "t"
}

func (e *clEnv) honestGet(path string) ([]byte, error) { return e.honestGetFor(-9, path) }

func (e *clEnv) honestGetFor(c int, path string) ([]byte, error) {
	ls, ts := e.lookSrc, e.tileSrc
	if o, ok := e.srcOf[c]; ok {
		ls, ts = o[0], o[1]
	}
	if strings.HasPrefix(path, "/tile/") {
		return ts.get(path)
	}
	return ls.get(path)
}

// serve computes the (possibly faulty) remote response; called with e.mu held.
func (e *clEnv) serve(c int, path string) ([]byte, error) {
	var data []byte
	var err error
	if _, over := e.srcOf[c]; over {
		data, err = e.honestGetFor(c, path)
	} else if strings.HasPrefix(path, "/lookup/") && len(e.growTo) > 0 {
		k := e.nLook
		if k >= len(e.growTo) {
			k = len(e.growTo) - 1
		}
		e.nLook++
		data, err = e.w.A.snap(e.growTo[k]).get(path)
	} else {
		data, err = e.honestGet(path)
	}
	for _, f := range e.faults {
		if f.matches(path) {
			d, er, ok := f.apply(e, path, data, err)
			if !ok {
				e.badSpec = true
				continue
			}
			data, err = d, er
		}
	}
	return data, err
}

type clOps struct {
	e     *clEnv
	c     int
	group int // cache group
}

func (o *clOps) cache() map[string][]byte {
	m := o.e.caches[o.group]
	if m == nil {
		m = map[string][]byte{}
		o.e.caches[o.group] = m
	}
	return m
}

// do runs one external operation: blocks at the scheduler (if any), then performs it atomically and logs it.
func (o *clOps) do(kind, file string, f func(ev *clEvent)) clEvent {
	e := o.e
	g := e.label()
	var rel *clPend
	sch := e.sched
	if sch != nil {
		rel = sch.wait(o.c, g, kind, file)
	}
	ev := clEvent{C: o.c, G: g, Kind: kind, File: file}
	func() {
		e.mu.Lock()
		defer e.mu.Unlock()
		defer func() {
			if r := recover(); r != nil {
				// a bug of the harness (malformed fault parameter …), never of the client: flag the scenario
				e.badSpec = true
				e.badWhy = fmt.Sprint(r)
				ev.Err = "err"
			}
			ev.Seq = len(e.trace)
			e.trace = append(e.trace, ev)
		}()
		f(&ev)
	}()
	if rel != nil {
		sch.ack()
	}
	return ev
}

func (o *clOps) ReadRemote(path string) ([]byte, error) {
	ev := o.do("rr", path, func(ev *clEvent) {
		d, err := o.e.serve(o.c, path)
		if err != nil {
			ev.Err = "err"
			return
		}
		ev.Data = d
	})
	if ev.Err != "" {
		return nil, clErrHTTP
	}
	return append([]byte(nil), ev.Data...), nil
}

func (o *clOps) ReadConfig(file string) ([]byte, error) {
	ev := o.do("rf", file, func(ev *clEvent) {
		d, ok := o.e.config[file]
		if !ok && file != clName+"/latest" {
			ev.Err = "err"
			return
		}
		ev.Data = append([]byte(nil), d...)
	})
	if ev.Err != "" {
		return nil, errors.New("clconfig: no such file")
	}
	return append([]byte(nil), ev.Data...), nil
}

func (o *clOps) WriteConfig(file string, old, new []byte) error {
	ev := o.do("wf", file, func(ev *clEvent) {
		ev.Old = append([]byte(nil), old...)
		ev.Data = append([]byte(nil), new...)
		if file == "key" {
			ev.Err = "err"
			return
		}
		if !bytes.Equal(o.e.config[file], old) {
			ev.Err = "conflict"
			return
		}
		o.e.config[file] = append([]byte(nil), new...)
		if file == clName+"/latest" {
			o.e.cfgHist = append(o.e.cfgHist, clCfgVal{append([]byte(nil), new...), o.c})
		}
	})
	switch ev.Err {
	case "conflict":
		return sumdb.ErrWriteConflict
	case "err":
		return errors.New("clconfig: write refused")
	}
	return nil
}

func (o *clOps) ReadCache(file string) ([]byte, error) {
	ev := o.do("rc", file, func(ev *clEvent) {
		d, ok := o.cache()[file]
		if !ok {
			ev.Err = "err"
			return
		}
		ev.Data = append([]byte(nil), d...)
	})
	if ev.Err != "" {
		return nil, os.ErrNotExist
	}
	return append([]byte(nil), ev.Data...), nil
}

func (o *clOps) WriteCache(file string, data []byte) {
	o.do("wc", file, func(ev *clEvent) {
		ev.Data = append([]byte(nil), data...)
		o.cache()[file] = append([]byte(nil), data...)
	})
}

func (o *clOps) Log(msg string) {
	o.do("log", "", func(ev *clEvent) { ev.Data = []byte(msg) })
}

func (o *clOps) SecurityError(msg string) {
	o.do("sec", "", func(ev *clEvent) { ev.Data = []byte(msg) })
}

// ---------------------------------------------------------------------------------------------
// scenarios

// A scenario is `client.run w=<seed>:<nA>:<p>:<nB> h=<H> <step>...`.
//
//	steps (each one token, `=`-separated argument):
//	  nosumdb=<c>:<hex patterns>   GONOSUMDB list for client c (applies to clients created afterwards)
//	  srv=<log>@<n>[,<log>@<n>]    server serves lookups from the first snapshot, tiles from the second (default: same)
//	  srvc=<c>:<log>@<n>[,<log>@<n>]  the same, for client c only (a server that shows different clients different logs)
//	  grow=<n1>,<n2>,...           honest growing server: k-th lookup request answered from A@n_k, tiles from A@max
//	  f+=<fault>  f-=              add a fault rule / clear all fault rules
//	  cfg=<log>@<n> | cfg=empty    set <name>/latest directly
//	  warm=<g>:<log>@<n>:<ids>     warm cache group g (and the configuration) honestly: a throw-away client over
//	                               that snapshot looks up the comma-separated record ids ("-" none, "*" all)
//	  cc=<g>:<idx>:<kind>[/<param>] corrupt the idx-th file (sorted names) of cache group g with a mutation kind
//	  new=<c>[:<g>]                (re)create client c over cache group g (default g = 0): a restart
//	  look=<c>:<key>               sequential lookup on client c; key = <log><id>[m]  (m: the /go.mod line), or x<hexpath>:<hexvers>
//	  par=<strategy>:<seed>:<c>.<key>,<c>.<key>,...   concurrent lookups, one goroutine each, under the scheduler
type clScenario struct {
	wseed     uint64
	nA, p, nB int
	h         int
	steps     []string
}

func (sc *clScenario) String() string {
	return fmt.Sprintf("client.run w=%d:%d:%d:%d h=%d %s", sc.wseed, sc.nA, sc.p, sc.nB, sc.h, strings.Join(sc.steps, " "))
}

func clParseScenario(args []string) (*clScenario, bool) {
	if len(args) < 2 {
		return nil, false
	}
	sc := &clScenario{}
	if _, err := fmt.Sscanf(args[0], "w=%d:%d:%d:%d", &sc.wseed, &sc.nA, &sc.p, &sc.nB); err != nil {
		return nil, false
	}
	if _, err := fmt.Sscanf(args[1], "h=%d", &sc.h); err != nil {
		return nil, false
	}
	if sc.nA < 0 || sc.nA > 5000 || sc.nB < 0 || sc.nB > 5000 || sc.p < 0 || sc.h < 1 || sc.h > 12 {
		return nil, false
	}
	sc.steps = args[2:]
	return sc, true
}

type clLookup struct {
	c     int
	g     string
	key   string // scenario key token
	path  string
	vers  string
	lines []string
	err   error
	kind  string // canonical result kind
	hang  bool
	// trace window [from,to): events logged while this (sequential) lookup ran
	from, to int
	private  bool
	// in-memory latest of the client before and after a sequential lookup, and the stored head before/after
	memN0, memN1 int64
	memH0, memH1 tlog.Hash
	cfg0, cfg1   []byte
}

type clOutcome struct {
	sc      *clScenario
	w       *clWorld
	env     *clEnv
	looks   []*clLookup
	bad     bool // malformed scenario
	hang    bool
	clients map[int]*sumdb.Client
	opsOf   map[int]*clOps
	// in-memory latest.N per client sampled at quiescent points (scheduler runs, non-race builds) and at the end
	latestSamples map[int][]int64
	schedPicks    []string
	nosumdbOf     map[int]string // GONOSUMDB list of each client instance
}

// clErrKind maps an error of Client.Lookup to a small enum (errors are wrapped with %v, so only the text is left).
func clErrKind(err error) string {
	if err == nil {
		return "ok"
	}
	m := err.Error()
	switch {
	case err == sumdb.ErrGONOSUMDB:
		return "err:gonosumdb"
	case strings.Contains(m, sumdb.ErrSecurity.Error()):
		return "err:security"
	case strings.Contains(m, "downloaded inconsistent tile"):
		return "err:tile"
	case strings.Contains(m, "reading tree note") || strings.Contains(m, "reading tree:"):
		return "err:note"
	case strings.Contains(m, "malformed record data"):
		return "err:record-syntax"
	case strings.Contains(m, "cannot authenticate record data"):
		return "err:record-hash"
	case strings.Contains(m, "cannot validate record"):
		return "err:record-id"
	case strings.Contains(m, clErrHTTP.Error()):
		return "err:remote"
	case strings.Contains(m, "TileReader returned bad result slice") || strings.Contains(m, "too short for tile"):
		return "err:tile-len"
	case strings.Contains(m, "write conflict"):
		return "err:conflict"
	case strings.Contains(m, "bad math") || strings.Contains(m, "panic"):
		return "err:internal"
	}
	return "err:other"
}

// resolveKey turns a scenario key token into (path, version, true log record or nil).
func (w *clWorld) resolveKey(key string) (path, vers string, ok bool) {
	if strings.HasPrefix(key, "x") {
		parts := strings.Split(key[1:], ":")
		if len(parts) != 2 {
			return "", "", false
		}
		return unhxSafe(parts[0]), unhxSafe(parts[1]), true
	}
	gomod := strings.HasSuffix(key, "m")
	key = strings.TrimSuffix(key, "m")
	if len(key) < 2 {
		return "", "", false
	}
	l := w.logByTag(key[:1])
	id, err := strconv.Atoi(key[1:])
	if l == nil || err != nil || id < 0 || id >= l.size() {
		return "", "", false
	}
	r := l.recs[id]
	if gomod {
		return r.path, r.vers + "/go.mod", true
	}
	return r.path, r.vers, true
}

func unhxSafe(s string) string {
	if s == "-" {
		return ""
	}
	b, err := hex.DecodeString(s)
	if err != nil {
		return "\x00bad"
	}
	return string(b)
}

// a variable so that a scenario that timed out can be confirmed with a far longer limit (clRunScenario)
var clLookupTimeout = 8 * time.Second

// clRunScenario executes a scenario on the real Client.
// clRunScenario runs the scenario; a run that ends in `hang` (a lookup, or the schedule, exceeded clLookupTimeout of WALL
// time) is run once more with a four-fold limit before the hang is believed: on a loaded machine (a thorough sweep
// next to other work) eight seconds of wall time are not evidence of a deadlock.  A genuine deadlock or livelock hangs
// again and is reported as before (revert-F7 style changes still are).
func clRunScenario(sc *clScenario) *clOutcome {
	out := clRunScenarioOnce(sc)
	if out == nil || !out.hang || clConfirmedHangs >= 2 {
		// after two confirmed hangs the code under test evidently does hang: later ones are believed at once
		return out
	}
	old := clLookupTimeout
	clLookupTimeout = 4 * old
	defer func() { clLookupTimeout = old }()
	out2 := clRunScenarioOnce(sc)
	if out2 != nil && out2.hang {
		clConfirmedHangs++
	}
	return out2
}

var clConfirmedHangs int

func clRunScenarioOnce(sc *clScenario) *clOutcome {
	w := clGetWorld(sc.wseed, sc.nA, sc.p, sc.nB)
	env := clNewEnv(w)
	out := &clOutcome{sc: sc, w: w, env: env, clients: map[int]*sumdb.Client{}, opsOf: map[int]*clOps{}, latestSamples: map[int][]int64{}, nosumdbOf: map[int]string{}}
	nosumdb := map[int]string{}
	newClient := func(c, group int) {
		ops := &clOps{e: env, c: c, group: group}
		cl := sumdb.NewClient(ops)
		cl.SetTileHeight(sc.h)
		out.nosumdbOf[c] = ""
		if s, ok := nosumdb[c]; ok && s != "" {
			cl.SetGONOSUMDB(s)
			out.nosumdbOf[c] = s
		}
		out.clients[c] = cl
		out.opsOf[c] = ops
	}
	for _, st := range sc.steps {
		i := strings.IndexByte(st, '=')
		if i < 0 {
			out.bad = true
			return out
		}
		op, arg := st[:i], st[i+1:]
		switch op {
		case "nosumdb":
			parts := strings.SplitN(arg, ":", 2)
			c, err := strconv.Atoi(parts[0])
			if err != nil || len(parts) != 2 {
				out.bad = true
				return out
			}
			nosumdb[c] = unhxSafe(parts[1])
		case "srv":
			parts := strings.Split(arg, ",")
			s, ok := w.parseSrc(parts[0])
			if !ok {
				out.bad = true
				return out
			}
			env.lookSrc, env.tileSrc = s, s
			env.growTo = nil
			if len(parts) > 1 {
				t, ok := w.parseSrc(parts[1])
				if !ok {
					out.bad = true
					return out
				}
				env.tileSrc = t
			}
		case "srvc":
			cp := strings.SplitN(arg, ":", 2)
			c, err := strconv.Atoi(cp[0])
			if err != nil || len(cp) != 2 {
				out.bad = true
				return out
			}
			parts := strings.Split(cp[1], ",")
			s1, ok := w.parseSrc(parts[0])
			if !ok {
				out.bad = true
				return out
			}
			s2 := s1
			if len(parts) > 1 {
				if s2, ok = w.parseSrc(parts[1]); !ok {
					out.bad = true
					return out
				}
			}
			if env.srcOf == nil {
				env.srcOf = map[int][2]*clSnap{}
			}
			env.srcOf[c] = [2]*clSnap{s1, s2}
		case "grow":
			env.growTo = nil
			mx := 0
			for _, p := range strings.Split(arg, ",") {
				n, err := strconv.Atoi(p)
				if err != nil || n < 0 || n > w.A.size() {
					out.bad = true
					return out
				}
				env.growTo = append(env.growTo, n)
				if n > mx {
					mx = n
				}
			}
			env.nLook = 0
			env.tileSrc = w.A.snap(mx)
			env.lookSrc = env.tileSrc
		case "f+":
			f, ok := clParseFault(arg)
			if !ok {
				out.bad = true
				return out
			}
			env.faults = append(env.faults, f)
		case "f-":
			env.faults = nil
		case "cfg":
			if arg == "empty" {
				env.config[clName+"/latest"] = nil
			} else {
				s, ok := w.parseSrc(arg)
				if !ok {
					out.bad = true
					return out
				}
				env.config[clName+"/latest"] = s.signedHead()
			}
			env.cfgHist = append(env.cfgHist, clCfgVal{append([]byte(nil), env.config[clName+"/latest"]...), -2})
		case "warm":
			parts := strings.Split(arg, ":")
			if len(parts) != 3 {
				out.bad = true
				return out
			}
			g, err := strconv.Atoi(parts[0])
			s, ok := w.parseSrc(parts[1])
			if err != nil || !ok {
				out.bad = true
				return out
			}
			if !clWarm(env, g, s, parts[2], sc.h) {
				out.bad = true
				return out
			}
		case "cc":
			parts := strings.SplitN(arg, ":", 3)
			if len(parts) != 3 {
				out.bad = true
				return out
			}
			g, err1 := strconv.Atoi(parts[0])
			idx, err2 := strconv.Atoi(parts[1])
			if err1 != nil || err2 != nil {
				out.bad = true
				return out
			}
			files := clSortedFiles(env.caches[g])
			if idx < 0 || idx >= len(files) {
				continue // nothing to corrupt: no-op
			}
			kp := strings.SplitN(parts[2], "/", 2)
			param := ""
			if len(kp) > 1 {
				param = kp[1]
			}
			d, ok := clMutate(kp[0], param, env.caches[g][files[idx]])
			if !ok {
				out.bad = true
				return out
			}
			env.caches[g][files[idx]] = d
		case "new":
			parts := strings.Split(arg, ":")
			c, err := strconv.Atoi(parts[0])
			g := 0
			if len(parts) > 1 {
				g, _ = strconv.Atoi(parts[1])
			}
			if err != nil {
				out.bad = true
				return out
			}
			newClient(c, g)
			out.latestSamples[c] = append(out.latestSamples[c], -1) // a new instance: break the chain of samples
			env.mu.Lock()
			env.trace = append(env.trace, clEvent{C: c, G: "s", Kind: "new", Seq: len(env.trace)})
			env.mu.Unlock()
		case "look":
			parts := strings.SplitN(arg, ":", 2)
			c, err := strconv.Atoi(parts[0])
			if err != nil || len(parts) != 2 || out.clients[c] == nil {
				out.bad = true
				return out
			}
			path, vers, ok := w.resolveKey(parts[1])
			if !ok {
				out.bad = true
				return out
			}
			lk := &clLookup{c: c, g: "s", key: parts[1], path: path, vers: vers, private: module.MatchPrefixPatterns(out.nosumdbOf[c], path)}
			out.looks = append(out.looks, lk)
			clSeqLookup(out, lk)
			if lk.hang {
				out.hang = true
				return out
			}
		case "par":
			if !clParLookups(out, arg) {
				if !out.hang {
					out.bad = true
				}
				return out
			}
		default:
			out.bad = true
			return out
		}
	}
	if env.badSpec {
		out.bad = true
	}
	for c, cl := range out.clients {
		out.latestSamples[c] = append(out.latestSamples[c], clLatestN(cl))
	}
	return out
}

func clSortedFiles(m map[string][]byte) []string {
	files := make([]string, 0, len(m))
	for f := range m {
		files = append(files, f)
	}
	sort.Strings(files)
	return files
}

// clLatestN reads the unexported c.latest.N (read-only reflection; used only when no client goroutine runs).
func clLatestN(c *sumdb.Client) int64 {
	v := reflect.ValueOf(c).Elem().FieldByName("latest")
	if !v.IsValid() {
		return -1
	}
	n := v.FieldByName("N")
	if !n.IsValid() {
		return -1
	}
	return n.Int()
}

// clLatest reads c.latest (size and hash) by read-only reflection.
func clLatest(c *sumdb.Client) (int64, tlog.Hash) {
	var h tlog.Hash
	v := reflect.ValueOf(c).Elem().FieldByName("latest")
	if !v.IsValid() {
		return -1, h
	}
	hv := v.FieldByName("Hash")
	if hv.IsValid() && hv.Len() == len(h) {
		for i := range h {
			h[i] = byte(hv.Index(i).Uint())
		}
	}
	return v.FieldByName("N").Int(), h
}

// clWarm fills cache group g (and the configuration) by running an honest throw-away client.
func clWarm(env *clEnv, g int, s *clSnap, ids string, h int) bool {
	save := struct {
		l, t   *clSnap
		f      []clFault
		grow   []int
		tr     []clEvent
		sched  *clSched
		nl     int
	}{env.lookSrc, env.tileSrc, env.faults, env.growTo, env.trace, env.sched, env.nLook}
	env.lookSrc, env.tileSrc, env.faults, env.growTo, env.sched = s, s, nil, nil, nil
	ops := &clOps{e: env, c: -1, group: g}
	cl := sumdb.NewClient(ops)
	cl.SetTileHeight(h)
	ok := true
	var list []int
	switch ids {
	case "-":
	case "*":
		for i := 0; i < s.n; i++ {
			list = append(list, i)
		}
	default:
		for _, p := range strings.Split(ids, ",") {
			i, err := strconv.Atoi(p)
			if err != nil || i < 0 || i >= s.n {
				return false
			}
			list = append(list, i)
		}
	}
	for _, i := range list {
		r := s.log.recs[i]
		if _, err := cl.Lookup(r.path, r.vers); err != nil {
			ok = false
		}
	}
	env.lookSrc, env.tileSrc, env.faults, env.growTo, env.trace, env.sched, env.nLook = save.l, save.t, save.f, save.grow, save.tr, save.sched, save.nl
	return ok
}

// clSeqLookup runs one lookup on the calling side (own goroutine, so that a hang is an outcome).
func clSeqLookup(out *clOutcome, lk *clLookup) {
	env := out.env
	env.mu.Lock()
	lk.from = len(env.trace)
	lk.cfg0 = append([]byte(nil), env.config[clName+"/latest"]...)
	env.mu.Unlock()
	lk.memN0, lk.memH0 = clLatest(out.clients[lk.c])
	done := make(chan struct{})
	go func() {
		defer close(done)
		defer func() {
			if r := recover(); r != nil {
				lk.err = fmt.Errorf("panic: %v", r)
			}
		}()
		id := clGoid()
		env.gids.Store(id, "s")
		defer env.gids.Delete(id)
		lk.lines, lk.err = out.clients[lk.c].Lookup(lk.path, lk.vers)
	}()
	select {
	case <-done:
	case <-time.After(clLookupTimeout):
		lk.hang = true
		lk.kind = "hang"
		return
	}
	env.mu.Lock()
	lk.to = len(env.trace)
	lk.cfg1 = append([]byte(nil), env.config[clName+"/latest"]...)
	env.mu.Unlock()
	lk.memN1, lk.memH1 = clLatest(out.clients[lk.c])
	out.latestSamples[lk.c] = append(out.latestSamples[lk.c], lk.memN1)
	lk.kind = clErrKind(lk.err)
	if lk.err != nil && strings.HasPrefix(lk.err.Error(), "panic:") {
		lk.kind = "panic"
	}
}

// ---------------------------------------------------------------------------------------------
// canonical rendering

// clTraceDigest: ordered sequence of effects (WriteCache/WriteConfig/SecurityError) and the sorted multiset of reads.
func clTraceDigest(out *clOutcome) string {
	var reads, effects []string
	for _, ev := range out.env.trace {
		switch ev.Kind {
		case "rr", "rc", "rf":
			reads = append(reads, fmt.Sprintf("%d %s %s %s", ev.C, ev.Kind, ev.File, ev.Err))
		case "wc", "wf", "sec":
			h := sha256.Sum256(append(append([]byte(nil), ev.Old...), ev.Data...))
			effects = append(effects, fmt.Sprintf("%d %s %s %s %x", ev.C, ev.Kind, ev.File, ev.Err, h[:6]))
		}
	}
	sort.Strings(reads)
	h := sha256.New()
	for _, s := range reads {
		h.Write([]byte(s + "\n"))
	}
	h.Write([]byte("--\n"))
	for _, s := range effects {
		h.Write([]byte(s + "\n"))
	}
	return hex.EncodeToString(h.Sum(nil)[:8])
}

func clEffectSummary(out *clOutcome) string {
	nwc, nwf, nsec := 0, 0, 0
	for _, ev := range out.env.trace {
		switch ev.Kind {
		case "wc":
			nwc++
		case "wf":
			if ev.Err == "" {
				nwf++
			}
		case "sec":
			nsec++
		}
	}
	return fmt.Sprintf("wc=%d wf=%d sec=%d", nwc, nwf, nsec)
}

func clOutcomeLine(out *clOutcome) string {
	if out.bad {
		return "bad-op"
	}
	if out.hang {
		return "hang"
	}
	var parts []string
	for _, lk := range out.looks {
		k := lk.kind
		if k == "ok" {
			k = "ok:" + itoa(len(lk.lines))
		}
		parts = append(parts, k)
	}
	if len(parts) == 0 {
		parts = []string{"-"}
	}
	head := out.w.classifyHead(out.env.config[clName+"/latest"])
	cfg := "cfg=invalid"
	if head.valid {
		cfg = "cfg=" + i64toa(head.n)
	}
	concurrent := false
	for _, s := range out.sc.steps {
		if strings.HasPrefix(s, "par=") {
			concurrent = true
		}
	}
	if concurrent {
		// under concurrency the number of configuration reads/writes is schedule dependent by design
		return strings.Join(parts, ",") + " " + cfg
	}
	return strings.Join(parts, ",") + " " + clEffectSummary(out) + " " + cfg + " " + clTraceDigest(out)
}

func init() {
	impls["client.run"] = func(args []string) string {
		sc, ok := clParseScenario(args)
		if !ok {
			return "bad-op"
		}
		return clOutcomeLine(clRunScenario(sc))
	}
	// trace-validation ops: the real run happened (in the generator); the implementation side is the constant "ok".
	impls["client.trace"] = func(args []string) string { return "ok" }
	impls["client.pctrace"] = func(args []string) string { return "ok" }
}
