package main

// C07 — signed notes: Open / Sign / NewVerifier / NewSigner / VerifierList of sumdb/note.
//
// Correspondence ops use STUB keys described by tokens (the Lean driver implements the same stubs):
//
//	verifier spec  <hexname>.<hash>.<beh>   a = accept all, r = reject all, f = accept iff sig == c07StubSig(name,msg)
//	signer spec    <hexname>.<hash>.<beh>   f = c07StubSig(name,msg), e = error, z = empty signature, k = constant {1,2,3}
//	signature      <hexname>.<hash>.<hexbase64>
//	known mode     L = VerifierList, N = nil Verifiers, E = every lookup fails with another error,
//	               M = every lookup returns the first listed verifier (name/hash mismatch check)
//
// The oracle runs on the implementation alone, with real Ed25519 keys (note.GenerateKey from a deterministic
// reader) and with logging verifiers, and transcribes the property.

import (
	"bytes"
	"crypto/ed25519"
	"crypto/sha256"
	"encoding/base64"
	"encoding/binary"
	"errors"
	"fmt"
	"strconv"
	"strings"
	"unicode/utf8"

	"golang.org/x/mod/sumdb/note"
)

// ---- stubs

func c07StubSig(name string, msg []byte) []byte {
	h := uint64(7)
	step := func(b byte) { h = (h*131 + uint64(b) + 1) % (1 << 32) }
	for i := 0; i < len(name); i++ {
		step(name[i])
	}
	step(0)
	for _, b := range msg {
		step(b)
	}
	out := make([]byte, 5)
	binary.BigEndian.PutUint32(out, uint32(h))
	out[4] = byte(len(msg) % 256)
	return out
}

type c07Call struct {
	id       int
	msg, sig []byte
	ok       bool
}

// c07Verifier is a note.Verifier that logs every Verify call.
type c07Verifier struct {
	name string
	hash uint32
	f    func(msg, sig []byte) bool
	spec string
	id   int
	log  *[]c07Call
}

func (v *c07Verifier) Name() string    { return v.name }
func (v *c07Verifier) KeyHash() uint32 { return v.hash }
func (v *c07Verifier) Verify(msg, sig []byte) bool {
	ok := v.f(msg, sig)
	if v.log != nil {
		*v.log = append(*v.log, c07Call{v.id, append([]byte(nil), msg...), append([]byte(nil), sig...), ok})
	}
	return ok
}

type c07Signer struct {
	name string
	hash uint32
	beh  byte
}

var c07ErrSign = errors.New("stub signer failure")

func (s *c07Signer) Name() string    { return s.name }
func (s *c07Signer) KeyHash() uint32 { return s.hash }
func (s *c07Signer) Sign(msg []byte) ([]byte, error) {
	switch s.beh {
	case 'f':
		return c07StubSig(s.name, msg), nil
	case 'z':
		return []byte{}, nil
	case 'k':
		return []byte{1, 2, 3}, nil
	}
	return nil, c07ErrSign
}

func c07U32(s string) uint32 {
	n, err := strconv.ParseUint(s, 10, 32)
	if err != nil {
		panic("bad u32 " + s)
	}
	return uint32(n)
}

func c07Split3(s string) (string, uint32, string) {
	p := strings.Split(s, ".")
	if len(p) != 3 {
		panic("bad spec " + s)
	}
	return unhx(p[0]), c07U32(p[1]), p[2]
}

func c07List(s string) []string {
	if s == "_" {
		return nil
	}
	return strings.Split(s, ",")
}

func c07ParseVerifiers(tok string, log *[]c07Call) []note.Verifier {
	var out []note.Verifier
	for i, s := range c07List(tok) {
		name, hash, beh := c07Split3(s)
		v := &c07Verifier{name: name, hash: hash, spec: s, id: i, log: log}
		switch beh {
		case "a":
			v.f = func(msg, sig []byte) bool { return true }
		case "r":
			v.f = func(msg, sig []byte) bool { return false }
		case "f":
			v.f = func(msg, sig []byte) bool { return bytes.Equal(sig, c07StubSig(name, msg)) }
		default:
			panic("bad verifier behaviour " + s)
		}
		out = append(out, v)
	}
	return out
}

func c07ParseSigners(tok string) []note.Signer {
	var out []note.Signer
	for _, s := range c07List(tok) {
		name, hash, beh := c07Split3(s)
		if len(beh) != 1 || !strings.Contains("fezk", beh) {
			panic("bad signer behaviour " + s)
		}
		out = append(out, &c07Signer{name, hash, beh[0]})
	}
	return out
}

func c07ParseSigs(tok string) []note.Signature {
	var out []note.Signature
	for _, s := range c07List(tok) {
		name, hash, b := c07Split3(s)
		out = append(out, note.Signature{Name: name, Hash: hash, Base64: unhx(b)})
	}
	return out
}

func c07ShowSigs(l []note.Signature) string {
	if len(l) == 0 {
		return "_"
	}
	out := make([]string, len(l))
	for i, s := range l {
		out[i] = hx(s.Name) + "." + strconv.FormatUint(uint64(s.Hash), 10) + "." + hx(s.Base64)
	}
	return strings.Join(out, ",")
}

type c07ErrVerifiers struct{}

func (c07ErrVerifiers) Verifier(name string, hash uint32) (note.Verifier, error) {
	return nil, errors.New("lookup failed")
}

type c07FirstVerifiers struct{ vs []note.Verifier }

func (m c07FirstVerifiers) Verifier(name string, hash uint32) (note.Verifier, error) {
	if len(m.vs) == 0 {
		return nil, &note.UnknownVerifierError{Name: name, KeyHash: hash}
	}
	return m.vs[0], nil
}

func c07Known(mode string, vs []note.Verifier) note.Verifiers {
	switch mode {
	case "L":
		return note.VerifierList(vs...)
	case "N":
		return nil
	case "E":
		return c07ErrVerifiers{}
	case "M":
		return c07FirstVerifiers{vs}
	}
	panic("bad known mode " + mode)
}

// c07AmbiguousKey parses "ambiguous key <name>+<hash8>" (the error type is unexported).
func c07AmbiguousKey(err error) (string, uint32, bool) {
	const p = "ambiguous key "
	s := err.Error()
	if !strings.HasPrefix(s, p) || len(s) < len(p)+9 {
		return "", 0, false
	}
	s = s[len(p):]
	h, e := strconv.ParseUint(s[len(s)-8:], 16, 32)
	if e != nil || s[len(s)-9] != '+' {
		return "", 0, false
	}
	return s[:len(s)-9], uint32(h), true
}

func c07ShowOpen(n *note.Note, err error) string {
	if err == nil {
		return "ok " + hx(n.Text) + " " + c07ShowSigs(n.Sigs) + " " + c07ShowSigs(n.UnverifiedSigs)
	}
	var ue *note.UnverifiedNoteError
	var ie *note.InvalidSignatureError
	switch {
	case errors.As(err, &ue):
		if len(ue.Note.Sigs) != 0 {
			return "err:unverified-with-sigs"
		}
		return "err:unverified " + hx(ue.Note.Text) + " " + c07ShowSigs(ue.Note.UnverifiedSigs)
	case errors.As(err, &ie):
		return "err:invalidsig " + hx(ie.Name) + " " + strconv.FormatUint(uint64(ie.Hash), 10)
	case err.Error() == "malformed note":
		return "err:malformed"
	case err.Error() == "verifier name or hash doesn't match signature":
		return "err:mismatch"
	}
	if name, hash, ok := c07AmbiguousKey(err); ok {
		return "err:ambiguous " + hx(name) + " " + strconv.FormatUint(uint64(hash), 10)
	}
	return "err:other"
}

func c07ShowKeyErr(err error) string {
	switch err.Error() {
	case "malformed verifier id":
		return "err:id"
	case "unknown verifier algorithm":
		return "err:alg"
	case "invalid verifier hash":
		return "err:hash"
	}
	return "err:other"
}

func init() {
	impls["note.open"] = func(a []string) string {
		msg := []byte(unhx(a[0]))
		vs := c07ParseVerifiers(a[2], nil)
		n, err := note.Open(msg, c07Known(a[1], vs))
		return c07ShowOpen(n, err)
	}
	impls["note.sign"] = func(a []string) string {
		n := &note.Note{Text: unhx(a[0]), Sigs: c07ParseSigs(a[1]), UnverifiedSigs: c07ParseSigs(a[2])}
		msg, err := note.Sign(n, c07ParseSigners(a[3])...)
		switch {
		case err == nil:
			return hx(string(msg))
		case err == c07ErrSign:
			return "err:signfailed"
		case err.Error() == "malformed note":
			return "err:malformed"
		case err.Error() == "invalid signer":
			return "err:invalidsigner"
		}
		return "err:other"
	}
	impls["note.isvalidname"] = func(a []string) string {
		// isValidName is unexported; Sign applies it to every signer name before anything else can fail
		_, err := note.Sign(&note.Note{Text: "\n"}, &c07Signer{unhx(a[0]), 0, 'f'})
		return showBool(err == nil)
	}
	impls["note.chop"] = func(a []string) string {
		// chop is unexported; the verifier-key syntax exposes it: name = chop(vkey,"+").before.
		// Only the single-byte separators the package uses are observable: here the observable is
		// strings.Index semantics on the real strings package.
		s, sep := unhx(a[0]), unhx(a[1])
		i := strings.Index(s, sep)
		if i < 0 {
			return hx(s) + " -"
		}
		return hx(s[:i]) + " " + hx(s[i+len(sep):])
	}
	impls["note.b64dec"] = func(a []string) string {
		b, err := base64.StdEncoding.DecodeString(unhx(a[0]))
		if err != nil {
			return "err"
		}
		return "ok " + hx(string(b))
	}
	impls["note.b64enc"] = func(a []string) string {
		return hx(base64.StdEncoding.EncodeToString([]byte(unhx(a[0]))))
	}
	impls["note.keyhash"] = func(a []string) string {
		// keyHash is unexported; NewEd25519VerifierKey(name, key) prints keyHash(name, 0x01‖key)
		name, key := unhx(a[0]), []byte(unhx(a[1]))
		if len(key) != 33 || key[0] != 1 {
			return "bad-op"
		}
		s, err := note.NewEd25519VerifierKey(name, ed25519.PublicKey(key[1:]))
		if err != nil {
			return "err"
		}
		h, err := strconv.ParseUint(s[len(name)+1:len(name)+9], 16, 32)
		if err != nil {
			return "err"
		}
		return strconv.FormatUint(h, 10)
	}
	impls["note.newverifier"] = func(a []string) string {
		v, err := note.NewVerifier(unhx(a[0]))
		if err != nil {
			return c07ShowKeyErr(err)
		}
		return "ok " + hx(v.Name()) + " " + strconv.FormatUint(uint64(v.KeyHash()), 10)
	}
	impls["note.newsigner"] = func(a []string) string {
		s, err := note.NewSigner(unhx(a[0]))
		if err != nil {
			return c07ShowKeyErr(err)
		}
		return "ok " + hx(s.Name()) + " " + strconv.FormatUint(uint64(s.KeyHash()), 10)
	}
	impls["note.verifierlist"] = func(a []string) string {
		vs := c07ParseVerifiers(a[0], nil)
		v, err := note.VerifierList(vs...).Verifier(unhx(a[1]), c07U32(a[2]))
		if err == nil {
			return "found " + v.(*c07Verifier).spec
		}
		var ue *note.UnknownVerifierError
		if errors.As(err, &ue) {
			return "unknown"
		}
		if _, _, ok := c07AmbiguousKey(err); ok {
			return "ambiguous"
		}
		return "err:other"
	}
	register(&Prop{ID: "C07", Gen: genC07, Oracle: oracleC07,
		Rule: "texts over an alphabet with newlines, blank lines, signature-like lines, em dash, unicode, control bytes and ill-formed UTF-8; " +
			"0-3 stub signers x 0-3 known stub verifiers (accept/reject/checksum), duplicate keys, same name with different hash, ambiguous lists, " +
			"custom Verifiers (error / mismatching); hand-built signature blocks (duplicate lines, malformed lines, 99/100/101 lines); byte-level " +
			"mutations of signed messages (every position of short notes in the thorough tier); real verifier/signer key strings and mutations of them; " +
			"signature lines whose base64 field is valid but not canonical (non-zero unused bits in the last digit: hash+signature of 5..12, 68 bytes), opened, the returned note re-signed, the result opened; " +
			"a fixed sweep of signature blocks with a very long line (4 KiB .. 128 KiB, mostly 65534..65538 bytes; long signature or long name; known/unknown; short lines before and after); " +
			"non-trivial = derived from a signed or hand-built message, or a key string at most a few mutations from valid; distinct by op line"})
}

// ---- generators

var c07Names = []string{"a", "b", "k1", "PeterNeumann", "sum.golang.org", "é", "世界", "x/y", "—", "a=b"}
var c07BadNames = []string{"a\x01", "\x00", "a\x1f", "\x0e", "a\x7f", "\x7f", "a\x08b", "", "a b", "a+b", "a b", "a\xffb", "a\nb", "a ", "\t", "a　", "+", "a\u0085", "\xed\xa0\x80"}
var c07Hashes = []uint32{0, 1, 0x01020304, 0xffffffff, 0x0a0a0a0a, 0x2b2b2b2b, 0x80000000, 12345}

var c07Pieces = []string{"a", "b", "hello", "go.sum database tree", "123", " ", "  ", "\n", "\n", "\n\n", "— ", "—", "é", "世界", "+", "=", "A1/", "x y",
	"\x7f", "\u0085", " ", " ", "�", "\U0001F600", "— a AAAAAAE=\n", "\n— b AQIDBAU=\n"}
var c07BadPieces = []string{"\x00", "\x01", "\x1f", "\t", "\r", "\r\n", "\x0b", "\xff", "\xc0\x80", "\xed\xa0\x80", "\xf4\x90\x80\x80", "\xe2\x80", "\x80", "\xe0\x80\x80", "\xf0\x80\x80\x80", "\xc2"}

// c07ValidText: the documented requirement on note text (UTF-8, no ASCII control but newline, ends in newline).
func c07ValidText(t string) bool {
	if !utf8.ValidString(t) || !strings.HasSuffix(t, "\n") {
		return false
	}
	for _, r := range t {
		if r < 0x20 && r != '\n' {
			return false
		}
	}
	return true
}

// c07Text returns a text; mostly valid note text.
func c07Text(r *Rand) string {
	var b strings.Builder
	k := r.Intn(9)
	for i := 0; i < k; i++ {
		if r.Chance(4) {
			b.WriteString(r.Pick(c07BadPieces))
		} else {
			b.WriteString(r.Pick(c07Pieces))
		}
	}
	if !r.Chance(8) {
		b.WriteString("\n")
	}
	return b.String()
}

// c07GoodText returns a valid note text (possibly with blank lines and signature-like lines).
func c07GoodText(r *Rand) string {
	var b strings.Builder
	k := r.Intn(9)
	for i := 0; i < k; i++ {
		b.WriteString(r.Pick(c07Pieces))
	}
	switch r.Intn(8) {
	case 0:
		b.WriteString("\n\n— " + r.Pick(c07Names) + " " + base64.StdEncoding.EncodeToString([]byte(r.Bytes(5+r.Intn(4), "\x00\x01ab\xff"))))
	case 1:
		b.WriteString("\n")
	}
	b.WriteString("\n")
	return b.String()
}

func c07PickName(r *Rand) string {
	if r.Chance(10) {
		return r.Pick(c07BadNames)
	}
	return r.Pick(c07Names)
}

func c07PickHash(r *Rand) uint32 {
	if r.Chance(20) {
		return uint32(r.U64())
	}
	return c07Hashes[r.Intn(len(c07Hashes))]
}

type c07Key struct {
	name string
	hash uint32
}

func c07KeySpec(k c07Key, beh string) string {
	return hx(k.name) + "." + strconv.FormatUint(uint64(k.hash), 10) + "." + beh
}

func c07Join(l []string) string {
	if len(l) == 0 {
		return "_"
	}
	return strings.Join(l, ",")
}

// c07Universe picks a few keys; some share a name, some share a hash.
func c07Universe(r *Rand) []c07Key {
	n := 2 + r.Intn(3)
	u := make([]c07Key, 0, n)
	for i := 0; i < n; i++ {
		k := c07Key{c07PickName(r), c07PickHash(r)}
		if i > 0 && r.Chance(25) {
			k.name = u[r.Intn(len(u))].name
		}
		if i > 0 && r.Chance(15) {
			k.hash = u[r.Intn(len(u))].hash
		}
		u = append(u, k)
	}
	return u
}

func c07KnownSpec(r *Rand, u []c07Key) (mode string, spec string) {
	n := r.Intn(4)
	var l []string
	dup := r.Chance(15) // duplicates make the list ambiguous
	used := map[c07Key]bool{}
	for i := 0; i < n; i++ {
		k := u[r.Intn(len(u))]
		if used[k] && !dup {
			continue
		}
		used[k] = true
		beh := "f"
		switch r.Intn(10) {
		case 0:
			beh = "a"
		case 1:
			beh = "r"
		}
		l = append(l, c07KeySpec(k, beh))
	}
	mode = "L"
	switch r.Intn(40) {
	case 0:
		mode = "N"
	case 1:
		mode = "E"
	case 2, 3:
		mode = "M"
	}
	return mode, c07Join(l)
}

func c07SigLine(name string, hash uint32, sig []byte) string {
	var h [4]byte
	binary.BigEndian.PutUint32(h[:], hash)
	return "— " + name + " " + base64.StdEncoding.EncodeToString(append(h[:], sig...)) + "\n"
}

// c07BuiltMsg builds a message by hand from a text and signature lines over the universe.
func c07BuiltMsg(r *Rand, text string, u []c07Key) string {
	var lines []string
	n := 1 + r.Intn(5)
	for i := 0; i < n; i++ {
		k := u[r.Intn(len(u))]
		if r.Chance(15) {
			k = c07Key{c07PickName(r), c07PickHash(r)}
		}
		var sig []byte
		switch r.Intn(8) {
		case 0:
			sig = []byte(r.Bytes(1+r.Intn(6), "\x00\x01ab\xff"))
		case 1:
			sig = c07StubSig(k.name, []byte(text+"x"))
		case 2:
			sig = c07StubSig(k.name+"x", []byte(text))
		default:
			sig = c07StubSig(k.name, []byte(text))
		}
		l := c07SigLine(k.name, k.hash, sig)
		if len(lines) > 0 && r.Chance(15) {
			l = lines[r.Intn(len(lines))]
		}
		lines = append(lines, l)
	}
	if r.Chance(25) {
		i := r.Intn(len(lines))
		l := lines[i]
		switch r.Intn(14) {
		case 0:
			l = strings.TrimPrefix(l, "— ")
		case 1:
			l = "—" + strings.TrimPrefix(l, "— ")
		case 2:
			l = strings.Replace(l, " ", "", 2)
		case 3:
			l = "— " + r.Pick(c07Names) + " \n"
		case 4:
			l = "— " + r.Pick(c07Names) + "\n"
		case 5:
			l = "— " + r.Pick(c07Names) + " " + base64.StdEncoding.EncodeToString([]byte(r.Bytes(r.Intn(5), "ab\x00"))) + "\n"
		case 6:
			l = strings.TrimSuffix(l, "\n") + " \n"
		case 7:
			l = strings.TrimSuffix(l, "\n") + "=\n"
		case 8:
			l = strings.TrimSuffix(l, "\n")
		case 9:
			l = "\n" + l
		case 10:
			l = strings.TrimSuffix(l, "\n") + "\r\n"
		case 11:
			l = strings.Replace(l, "=", "", 1)
		case 12:
			l = strings.TrimSuffix(l, "\n")
			if len(l) > 0 {
				l = l[:len(l)-1] + r.Pick([]string{"A", "B", "/", "=", "-", "_", "é"}) + "\n"
			}
		case 13:
			l = "— " + l
		}
		lines[i] = l
	}
	sep := "\n"
	switch r.Intn(30) {
	case 0:
		sep = ""
	case 1:
		sep = "\n\n"
	}
	return text + sep + strings.Join(lines, "")
}

// c07ManyLines: 99/100/101 (and a few other counts) signature lines.
func c07ManyLines(r *Rand, text string, u []c07Key) string {
	n := []int{99, 100, 101, 100, 101, 102, 98}[r.Intn(7)]
	var b strings.Builder
	b.WriteString(text + "\n")
	style := r.Intn(4)
	for i := 0; i < n; i++ {
		var k c07Key
		switch style {
		case 0: // one key, identical lines
			k = u[0]
		case 1: // all distinct unknown-ish keys
			k = c07Key{"n" + strconv.Itoa(i), uint32(i)}
		case 2: // cycle through the universe
			k = u[i%len(u)]
		default:
			k = u[r.Intn(len(u))]
		}
		b.WriteString(c07SigLine(k.name, k.hash, c07StubSig(k.name, []byte(text))))
	}
	return b.String()
}

func c07Mutate(r *Rand, s string) string {
	if len(s) == 0 {
		return s
	}
	return c07MutateAt(s, r.Intn(len(s)), r.Intn(c07NMut), r)
}

const c07NMut = 8

// c07MutateAt applies mutation kind k at position i.
func c07MutateAt(s string, i, k int, r *Rand) string {
	b := []byte(s)
	ins := func(x string) string { return string(b[:i]) + x + string(b[i:]) }
	switch k {
	case 0:
		b[i] ^= 1
		return string(b)
	case 1:
		b[i] ^= 0x20
		return string(b)
	case 2:
		return string(b[:i]) + string(b[i+1:])
	case 3:
		return ins("\n")
	case 4:
		return ins(" ")
	case 5:
		b[i] = '\n'
		return string(b)
	case 6:
		return ins(string(b[i]))
	default:
		if r != nil {
			return ins(r.Pick(append(append([]string{}, c07Pieces...), c07BadPieces...)))
		}
		return ins("— ")
	}
}

// c07SignedStub returns (text, signer specs, message) for a stub-signed note; msg == "" if Sign failed.
func c07SignedStub(r *Rand, u []c07Key, good bool) (text string, existing [2]string, signers string, msg string) {
	if good {
		text = c07GoodText(r)
	} else {
		text = c07Text(r)
	}
	n := r.Intn(4)
	var l []string
	dup := r.Chance(15) // duplicates make the list ambiguous
	used := map[c07Key]bool{}
	for i := 0; i < n; i++ {
		k := u[r.Intn(len(u))]
		if used[k] && !dup {
			continue
		}
		used[k] = true
		beh := "f"
		if !good {
			switch r.Intn(16) {
			case 0:
				beh = "e"
			case 1:
				beh = "z"
			case 2:
				beh = "k"
			}
		}
		l = append(l, c07KeySpec(k, beh))
	}
	signers = c07Join(l)
	existing = [2]string{"_", "_"}
	for j := 0; j < 2; j++ {
		if r.Chance(25) {
			var e []string
			for m := r.Intn(3); m >= 0; m-- {
				k := u[r.Intn(len(u))]
				if r.Chance(10) {
					k = c07Key{c07PickName(r), c07PickHash(r)}
				}
				var h [4]byte
				binary.BigEndian.PutUint32(h[:], k.hash)
				b64 := base64.StdEncoding.EncodeToString(append(h[:], c07StubSig(k.name, []byte(text))...))
				switch r.Intn(12) {
				case 0:
					b64 = r.Pick([]string{"", "AAAA", "AAA=", "!!!!", "AAAAAA==", "AAAAAAE=\n", "AAAA\nAAE=", "AQIDBAU", "AQID BAU="})
				case 1:
					b64 = c07Mutate(r, b64)
				}
				e = append(e, hx(k.name)+"."+strconv.FormatUint(uint64(k.hash), 10)+"."+hx(b64))
			}
			existing[j] = c07Join(e)
		}
	}
	n0 := &note.Note{Text: text, Sigs: c07ParseSigs(existing[0]), UnverifiedSigs: c07ParseSigs(existing[1])}
	m, err := note.Sign(n0, c07ParseSigners(signers)...)
	if err == nil {
		msg = string(m)
	}
	return
}

// c07Reader is a deterministic io.Reader over the run's PRNG.
type c07Reader struct{ r *Rand }

func (d c07Reader) Read(p []byte) (int, error) {
	for i := range p {
		p[i] = byte(d.r.U64())
	}
	return len(p), nil
}

// c07DocKeyHash is the documented key hash (first four bytes of SHA-256(name "\n" key)); used only to BUILD key strings.
func c07DocKeyHash(name string, key []byte) uint32 {
	h := sha256.Sum256([]byte(name + "\n" + string(key)))
	return binary.BigEndian.Uint32(h[:4])
}

func c07GenKeyOps(g *Gen) {
	r := g.Rand
	name := c07PickName(r)
	skey, vkey, err := note.GenerateKey(c07Reader{r}, name)
	if err != nil {
		return
	}
	pubHint := func(sk string) string {
		// the public key ed25519 derives from the seed inside the signer key, if the key decodes that far
		p := strings.Split(sk, "+")
		if len(p) < 5 {
			return "-"
		}
		key, err := base64.StdEncoding.DecodeString(strings.Join(p[4:], "+"))
		if err != nil || len(key) != 33 {
			return "-"
		}
		return hx(string(ed25519.NewKeyFromSeed(key[1:])[32:]))
	}
	switch r.Intn(10) {
	case 0, 1:
		g.Emit("note.newverifier "+hx(vkey), true, "key", "key-valid")
		g.Emit("note.newsigner "+hx(skey)+" "+pubHint(skey), true, "key", "key-valid")
	case 2, 3:
		k := vkey
		for j := 1 + r.Intn(2); j > 0; j-- {
			k = c07MutateKey(r, k)
		}
		g.Emit("note.newverifier "+hx(k), true, "key", "key-mutated")
	case 4, 5:
		k := skey
		for j := 1 + r.Intn(2); j > 0; j-- {
			k = c07MutateKey(r, k)
		}
		g.Emit("note.newsigner "+hx(k)+" "+pubHint(k), true, "key", "key-mutated")
	case 6, 7:
		// hand-built verifier keys: algorithm byte, key length, hash binding, CR/LF inside base64, hex case
		key := []byte(r.Bytes([]int{0, 1, 32, 33, 33, 33, 34}[r.Intn(7)], "\x00\x01\x02ab\xff"))
		if len(key) > 0 && r.Chance(60) {
			key[0] = 1
		}
		h := c07DocKeyHash(name, key)
		if r.Chance(15) {
			h ^= 1 << uint(r.Intn(32))
		}
		h16 := fmt.Sprintf("%08x", h)
		switch r.Intn(8) {
		case 0:
			h16 = strings.ToUpper(h16)
		case 1:
			h16 = strings.TrimLeft(h16, "0")
		case 2:
			h16 = "0" + h16
		case 3:
			h16 = "+" + h16[1:]
		}
		b64 := base64.StdEncoding.EncodeToString(key)
		switch r.Intn(8) {
		case 0:
			b64 = c07MutateAt(b64+"\n", r.Intn(len(b64)+1), 3, nil)
		case 1:
			b64 = strings.Replace(b64, "=", "", 1)
		case 2:
			b64 += "\r\n"
		}
		g.Emit("note.newverifier "+hx(name+"+"+h16+"+"+b64), true, "key", "key-built")
	case 8:
		// hand-built signer keys
		seed := []byte(r.Bytes([]int{0, 31, 32, 32, 32, 33}[r.Intn(6)], "\x00\x01\x02ab\xff"))
		alg := byte(1)
		if r.Chance(20) {
			alg = byte(r.Intn(4))
		}
		var h uint32
		if len(seed) == 32 {
			h = c07DocKeyHash(name, append([]byte{1}, ed25519.NewKeyFromSeed(seed)[32:]...))
		}
		if r.Chance(15) {
			h ^= 1 << uint(r.Intn(32))
		}
		pre := "PRIVATE+KEY+"
		if r.Chance(10) {
			pre = r.Pick([]string{"PRIVATE+", "PRIVATE+KEY", "private+key+", "PRIVATE+KEY++", "+"})
		}
		k := pre + name + "+" + fmt.Sprintf("%08x", h) + "+" + base64.StdEncoding.EncodeToString(append([]byte{alg}, seed...))
		g.Emit("note.newsigner "+hx(k)+" "+pubHint(k), true, "key", "key-built")
	default:
		pub := []byte(r.Bytes(32, "\x00\x01ab\xff"))
		g.Emit("note.keyhash "+hx(name)+" "+hx("\x01"+string(pub)), true, "key", "keyhash")
	}
}

func c07MutateKey(r *Rand, k string) string {
	if len(k) == 0 {
		return k
	}
	switch r.Intn(6) {
	case 0:
		return mutate(r, k, "+ =\nAa0/é\xff")
	case 1: // flip one character of the hash or key part
		i := strings.LastIndex(k, "+")
		if i < 9 {
			return k
		}
		j := i - 8 + r.Intn(len(k)-i+8)
		return c07MutateAt(k, j, r.Intn(2), nil)
	case 2:
		return strings.Replace(k, "+", r.Pick([]string{"", "++", " +", "+ "}), 1)
	case 3:
		return strings.ToUpper(k)
	case 4:
		return k + r.Pick([]string{"\n", "=", " ", "+", "A"})
	default:
		i := r.Intn(len(k))
		return c07MutateAt(k, i, r.Intn(c07NMut), r)
	}
}

func genC07(g *Gen, n int) {
	r := g.Rand
	end := g.st.Ops + n
	rl := c07Fork(r, 0xc07a) // the stream of the long-line sweep (util_c07long.go), forked: the stream below is unchanged
	defer c07GenLong(g, rl)
	rsp := c07Fork(r, 0xc07c) // the stream of the non-canonical base64 spellings (util_c07spell.go), forked likewise
	defer c07GenSpell(g, rsp, n/150+40)
	// fixed edge cases first
	for _, nm := range append(append([]string{}, c07Names...), c07BadNames...) {
		g.Emit("note.isvalidname "+hx(nm), true, "name")
	}
	for _, sp := range []rune{0x09, 0x0a, 0x0b, 0x0c, 0x0d, 0x20, 0x85, 0xa0, 0x1680, 0x1fff, 0x2000, 0x2005, 0x200a, 0x200b, 0x2028, 0x2029, 0x202a, 0x202f,
		0x205f, 0x2060, 0x3000, 0x3001, 0x84, 0x86, 0x9f, 0xa1, 0x1f, 0x21, 0x167f, 0x1681, 0x180e, 0xfeff, 0xfffd, 0x10ffff, 0xd7ff, 0xe000} {
		g.Emit("note.isvalidname "+hx("a"+string(sp)+"b"), true, "name", "name-space-rune")
	}
	for g.st.Ops < end {
		u := c07Universe(r)
		switch r.Intn(40) {
		case 0:
			nm := c07PickName(r)
			if r.Chance(50) {
				nm = mutate(r, nm, "a +\n\xff\xc2\xa0é")
			}
			g.Emit("note.isvalidname "+hx(nm), true, "name")
		case 1:
			s := r.Bytes(r.Intn(10), "ab+ +")
			g.Emit("note.chop "+hx(s)+" "+hx(r.Pick([]string{"+", " ", "ab", "++"})), false, "chop")
		case 2:
			raw := r.Bytes(r.Intn(12), "\x00\x01ab\xff\xfe\x10")
			g.Emit("note.b64enc "+hx(raw), false, "b64")
			enc := base64.StdEncoding.EncodeToString([]byte(raw))
			if r.Chance(60) {
				enc = mutate(r, enc, "AB=+/\n\r -_ab09")
			}
			g.Emit("note.b64dec "+hx(enc), false, "b64")
		case 3:
			g.Emit("note.b64dec "+hx(r.Bytes(r.Intn(13), "AB=+/\n\r Zz09")), false, "b64")
		case 4, 5, 6:
			c07GenKeyOps(g)
		case 7:
			// VerifierList lookups
			_, spec := c07KnownSpec(r, u)
			k := u[r.Intn(len(u))]
			g.Emit("note.verifierlist "+spec+" "+hx(k.name)+" "+strconv.FormatUint(uint64(k.hash), 10), true, "verifierlist")
		case 8:
			// many signature lines
			text := c07GoodText(r)
			msg := c07ManyLines(r, text, u)
			mode, spec := c07KnownSpec(r, u)
			g.Emit("note.open "+hx(msg)+" "+mode+" "+spec, true, "open", "open-many")
		case 9:
			// random bytes
			var b strings.Builder
			for i := r.Intn(10); i > 0; i-- {
				if r.Chance(15) {
					b.WriteString(r.Pick(c07BadPieces))
				} else {
					b.WriteString(r.Pick(c07Pieces))
				}
			}
			mode, spec := c07KnownSpec(r, u)
			g.Emit("note.open "+hx(b.String())+" "+mode+" "+spec, false, "open", "open-random")
		case 10, 11, 12, 13, 14, 15, 16, 17, 18:
			// hand-built signature blocks
			text := c07GoodText(r)
			if r.Chance(15) {
				text = c07Text(r)
			}
			msg := c07BuiltMsg(r, text, u)
			mode, spec := c07KnownSpec(r, u)
			g.Emit("note.open "+hx(msg)+" "+mode+" "+spec, true, "open", "open-built")
			if r.Chance(20) {
				g.Emit("note.open "+hx(c07Mutate(r, msg))+" "+mode+" "+spec, true, "open", "open-built-mutated")
			}
		default:
			// sign, then open, then mutate
			text, ex, signers, msg := c07SignedStub(r, u, r.Chance(75))
			g.Emit("note.sign "+hx(text)+" "+ex[0]+" "+ex[1]+" "+signers, true, "sign")
			if msg == "" {
				continue
			}
			mode, spec := c07KnownSpec(r, u)
			g.Emit("note.open "+hx(msg)+" "+mode+" "+spec, true, "open", "open-signed")
			if thorough && len(msg) <= 60 && r.Chance(10) {
				for i := 0; i < len(msg); i++ {
					for k := 0; k < c07NMut; k++ {
						g.Emit("note.open "+hx(c07MutateAt(msg, i, k, nil))+" "+mode+" "+spec, true, "open", "open-mutated-all")
					}
				}
			} else {
				for j := r.Intn(4); j > 0; j-- {
					g.Emit("note.open "+hx(c07Mutate(r, msg))+" "+mode+" "+spec, true, "open", "open-mutated")
				}
			}
		}
	}
}
