package main

// C10 — call HISTORIES on one tile hash reader.
//
// Input class added here (it was missing: every read of c10.go is made on a FRESH tlog.TileHashReader value, so the
// tile server is a fixed function of the tile and nothing that a reader carries from one ReadHashes call to the next
// can ever be observed): a sequence of ReadHashes calls made through the SAME HashReader value, against a tile server
// whose answers change between the calls (honest first, a corrupted re-fetch later; a corrupted fetch retried;
// corrupted, then honest again). The property quantifies over ANY tile server, which includes servers that answer a
// later request for a tile differently from an earlier one; so every call of a history has to satisfy it on its own:
// error, or only true hashes returned and only true tiles passed to SaveTiles. Real callers produce exactly such
// histories (Client: TreeHash of the older size, then ProveTree, then ProveRecord through one reader), therefore the
// index sets of these callers are one of the families below.
//
// op:  tile.readseq N h seed idx1 faults1 idx2 faults2 ...      (one idx/faults pair per call, tokens as in tile.readhashes)
// out: <result of call 1> saved=<tiles saved by call 1> | <result of call 2> saved=... | ...

import (
	"fmt"
	"strings"

	"golang.org/x/mod/sumdb/tlog"
)

// c10Call is one ReadHashes call of a history: the indexes asked for and the faults that the tile server applies
// while this call is running.
type c10Call struct {
	Idx []int64
	Fs  []c10Fault
}

// c10CallOut is the outcome of one call; r holds what the tile server was asked and told during this call only.
type c10CallOut struct {
	hs  []tlog.Hash
	res string
	r   *c10Reader
}

func c10SeqOp(n, h, seed int, calls []c10Call) string {
	var b strings.Builder
	fmt.Fprintf(&b, "tile.readseq %d %d %d", n, h, seed)
	for _, c := range calls {
		b.WriteString(" " + c10IdxTok(c.Idx) + " " + c10FaultsTok(c.Fs))
	}
	return b.String()
}

func c10ReadOne(thr tlog.HashReader, idx []int64) (hs []tlog.Hash, res string) {
	defer func() {
		if e := recover(); e != nil {
			hs, res = nil, "panic"
		}
	}()
	hs, err := thr.ReadHashes(idx)
	if err != nil {
		return nil, tlogErr(err)
	}
	return hs, "ok"
}

// c10ReadSeq makes the calls one after the other through ONE tlog.TileHashReader value. After a panic the reader is
// not used again (it may hold a lock): the remaining calls are reported as panic too.
func c10ReadSeq(l *c10LogT, h int, calls []c10Call) []c10CallOut {
	srv := &c10Reader{h: h, st: l.st}
	thr := tlog.TileHashReader(l.tree, srv)
	out := make([]c10CallOut, len(calls))
	dead := false
	for i, c := range calls {
		if dead {
			out[i] = c10CallOut{nil, "panic", &c10Reader{h: h, st: l.st}}
			continue
		}
		srv.faults = c.Fs
		srv.requested, srv.saveCalls, srv.savedT, srv.savedD = nil, 0, nil, nil
		hs, res := c10ReadOne(thr, c.Idx)
		dead = res == "panic"
		out[i] = c10CallOut{hs, res, &c10Reader{h: h, st: l.st, requested: srv.requested, saveCalls: srv.saveCalls, savedT: srv.savedT, savedD: srv.savedD}}
	}
	return out
}

func init() {
	impls["tile.readseq"] = func(a []string) string {
		if len(a) < 3 || (len(a)-3)%2 != 0 {
			panic("bad tile.readseq line")
		}
		l := c10Log(atoi(a[2]), atoi(a[0]))
		var calls []c10Call
		for i := 3; i+1 < len(a); i += 2 {
			calls = append(calls, c10Call{c10ParseIdx(a[i]), c10ParseFaults(a[i+1])})
		}
		outs := c10ReadSeq(l, atoi(a[1]), calls)
		parts := make([]string, len(outs))
		for i, o := range outs {
			res := o.res
			if res == "ok" {
				res = tlogHashesHex(o.hs)
			}
			parts[i] = res + " saved=" + o.r.savedTok()
		}
		return strings.Join(parts, " | ")
	}
}

// c10CheckSeq states the property for every call of a history. The honest-read clause (true tiles in, true hashes
// out) is only claimed for a call when the server has been honest in every call up to and including it.
func c10CheckSeq(g *Gen, l *c10LogT, n, h, seed int, calls []c10Call) {
	outs := c10ReadSeq(l, h, calls)
	op := c10SeqOp(n, h, seed, calls)
	honest := true
	for i, o := range outs {
		if len(calls[i].Fs) > 0 {
			honest = false
		}
		where := fmt.Sprintf("call %d of %d through one HashReader: ", i+1, len(calls))
		if !c10CheckOutcome(g, l, n, calls[i].Idx, honest, o.hs, o.res, o.r, where, op) {
			return
		}
	}
}

// c10idxRecorder records the index lists that a caller of a HashReader asks for (answers from the true store).
type c10idxRecorder struct {
	st   tlogStore
	asks [][]int64
}

func (r *c10idxRecorder) ReadHashes(idx []int64) ([]tlog.Hash, error) {
	r.asks = append(r.asks, append([]int64(nil), idx...))
	return r.st.ReadHashes(idx)
}

// c10CallerIdx: the index lists of a client that checks two tree heads and a record through one reader:
// TreeHash(m), ProveTree(N, m), ProveRecord(N, i) in a random order (each asks its HashReader once).
func c10CallerIdx(r *Rand, l *c10LogT, n int) [][]int64 {
	if n < 1 {
		return nil
	}
	rec := &c10idxRecorder{st: l.st}
	m := int64(1 + r.Intn(n))
	steps := []func(){
		func() { tlog.TreeHash(m, rec) },
		func() { tlog.ProveTree(int64(n), m, rec) },
		func() { tlog.ProveRecord(int64(n), int64(r.Intn(n)), rec) },
		func() { tlog.ProveRecord(m, int64(r.Intn(int(m))), rec) },
	}
	k := 2 + r.Intn(2)
	first := r.Intn(len(steps))
	for i := 0; i < k; i++ {
		steps[(first+i)%len(steps)]()
	}
	return rec.asks
}

// c10InTile: the stored-hash index of another hash held by tile t (of the tree of size n), or -1.
func c10InTile(r *Rand, t tlog.Tile, n int) int64 {
	if t.H < 1 || t.L < 0 || t.W < 1 || t.L*t.H > 60 {
		return -1
	}
	x := tlog.StoredHashIndex(t.L*t.H, t.N<<uint(t.H)+int64(r.Intn(t.W)))
	if x < 0 || x >= tlog.StoredHashIndex(0, int64(n)) {
		return -1
	}
	return x
}

// c10History draws a history of 2-4 calls on the tree of l. Families:
//
//	refetch   honest call, then the same or an overlapping request with a fault on a tile the earlier call fetched
//	retry     a faulty call, the same fault again, then honest
//	caller    the index lists of TreeHash / ProveTree / ProveRecord, one tile corrupted from some call on
//	random    every call: a fresh index set, honest or a fault on a tile that this or an earlier request fetches
//
// nontrivial = some call after the first carries a fault on a tile that the honest version of that call fetches.
func c10History(r *Rand, l *c10LogT, n, h int) (calls []c10Call, nontrivial bool, tag string) {
	max := int(tlog.StoredHashIndex(0, int64(n)))
	one := func() []int64 {
		if max == 0 || r.Chance(30) {
			return c10IndexSet(r, n)
		}
		return []int64{int64(r.Intn(max))}
	}
	// a fault on one of the tiles that the honest reads of the given requests fetch
	faultOn := func(reqs ...[]int64) []c10Fault {
		var ts []tlog.Tile
		for _, idx := range reqs {
			ts = append(ts, c10Honest(l, h, idx)...)
		}
		if len(ts) == 0 {
			return nil
		}
		t := ts[r.Intn(len(ts))]
		if r.Chance(50) { // prefer a full tile: those are the ones authenticated against a parent
			for j := 0; j < 4 && t.W != 1<<uint(h); j++ {
				t = ts[r.Intn(len(ts))]
			}
		}
		fs := []c10Fault{c10RandFault(r, l, h, t)}
		if r.Chance(50) {
			fs[0].Kind, fs[0].A, fs[0].B = "flip", r.Intn(t.W), r.Intn(256)
		}
		return fs
	}
	hits := func(c c10Call) bool {
		for _, t := range c10Honest(l, h, c.Idx) {
			for _, f := range c.Fs {
				if f.L == t.L && f.N == t.N {
					return true
				}
			}
		}
		return false
	}
	switch r.Intn(8) {
	case 0, 1, 2:
		tag = "seq-refetch"
		a := one()
		b := a
		if r.Chance(40) { // another hash of one of the tiles that a fetches
			if ts := c10Honest(l, h, a); len(ts) > 0 {
				if y := c10InTile(r, ts[r.Intn(len(ts))], n); y >= 0 {
					b = []int64{y}
				}
			}
		}
		calls = []c10Call{{a, nil}, {b, faultOn(a, b)}}
		if r.Chance(30) {
			calls = append(calls, c10Call{a, nil})
		}
	case 3:
		tag = "seq-retry"
		a := one()
		fs := faultOn(a)
		calls = []c10Call{{a, fs}, {a, fs}}
		if r.Chance(60) {
			calls = append(calls, c10Call{a, nil})
		}
	case 4, 5:
		tag = "seq-caller"
		asks := c10CallerIdx(r, l, n)
		if len(asks) == 0 {
			asks = [][]int64{one(), one()}
		}
		from := r.Intn(len(asks))
		fs := faultOn(asks...)
		for i, a := range asks {
			c := c10Call{a, nil}
			if i >= from {
				c.Fs = fs
			}
			calls = append(calls, c)
		}
	default:
		tag = "seq-random"
		k := 2 + r.Intn(3)
		var reqs [][]int64
		for i := 0; i < k; i++ {
			a := one()
			reqs = append(reqs, a)
			c := c10Call{a, nil}
			if r.Chance(50) {
				c.Fs = faultOn(reqs...)
			}
			calls = append(calls, c)
		}
	}
	for _, c := range calls[1:] {
		if hits(c) {
			nontrivial = true
		}
	}
	return calls, nontrivial, tag
}

// c10GenSeq emits about n tile.readseq lines for the correspondence run.
func c10GenSeq(g *Gen, n, maxN int, hs []int) {
	// fixed: an honest read, then the same read with the leaf tile / its parent corrupted (N = 21, h = 2: two tile
	// levels below the tree-hash tiles), and a corrupted read retried
	g.Emit(c10SeqOp(21, 2, 1, []c10Call{{[]int64{0}, nil}, {[]int64{0}, []c10Fault{{L: 0, N: 0, Kind: "flip", A: 0, B: 60}}}}), true, "seq-refetch")
	g.Emit(c10SeqOp(21, 2, 1, []c10Call{{[]int64{0}, nil}, {[]int64{0}, []c10Fault{{L: 1, N: 0, Kind: "flip", A: 0, B: 60}}}, {[]int64{0}, nil}}), true, "seq-refetch")
	g.Emit(c10SeqOp(21, 2, 1, []c10Call{{[]int64{0}, []c10Fault{{L: 0, N: 0, Kind: "flip", A: 0, B: 60}}}, {[]int64{0}, []c10Fault{{L: 0, N: 0, Kind: "flip", A: 0, B: 60}}}, {[]int64{0}, nil}}), true, "seq-retry")
	g.Emit(c10SeqOp(0, 2, 1, []c10Call{{nil, nil}, {[]int64{0}, nil}, {nil, nil}}), true, "seq-empty-tree")
	for i := 4; i < n; i++ {
		N := 1 + g.Intn(maxN)
		if g.Chance(50) { // at least two tile levels below the right edge for small h
			N = 5 + g.Intn(maxN)
		}
		h := hs[g.Intn(len(hs))]
		seed := 1 + g.Intn(3)
		calls, nt, tag := c10History(g.Rand, c10Log(seed, N), N, h)
		g.Emit(c10SeqOp(N, h, seed, calls), nt, tag)
	}
}

// c10OracleSeqSmall: exhaustive on a small scope. Every N <= maxN, every h, every single stored-hash index x, every
// tile t that the honest read of x fetches, every hash position i of t:
//
//	read x honestly, then read x again with bit flipped in hash i of t
//
// and per tile one each of: another hash of t read honestly first; a random fault retried; a random fault, then honest.
func c10OracleSeqSmall(g *Gen, maxN int, hs []int, limit int) (cases int) {
	for N := 1; N <= maxN && cases < limit; N++ {
		seed := 1 + N%3
		l := c10Log(seed, N)
		max := tlog.StoredHashIndex(0, int64(N))
		for _, h := range hs {
			for x := int64(0); x < max; x++ {
				idx := []int64{x}
				for _, t := range c10Honest(l, h, idx) {
					for i := 0; i < t.W; i++ {
						if N > 12 && g.Chance(50) {
							continue
						}
						g.Case("seq-refetch-flip")
						cases++
						c10CheckSeq(g, l, N, h, seed, []c10Call{{idx, nil}, {idx, []c10Fault{{L: t.L, N: t.N, Kind: "flip", A: i, B: g.Intn(256)}}}})
					}
					f := c10RandFault(g.Rand, l, h, t)
					if y := c10InTile(g.Rand, t, N); y >= 0 {
						g.Case("seq-refetch-other")
						cases++
						c10CheckSeq(g, l, N, h, seed, []c10Call{{[]int64{y}, nil}, {idx, []c10Fault{f}}})
					}
					g.Case("seq-retry")
					cases++
					c10CheckSeq(g, l, N, h, seed, []c10Call{{idx, []c10Fault{f}}, {idx, []c10Fault{f}}, {idx, nil}})
				}
			}
		}
	}
	return cases
}

// c10OracleSeqRandom: one random history on the given tree.
func c10OracleSeqRandom(g *Gen, l *c10LogT, n, h, seed int) {
	calls, _, tag := c10History(g.Rand, l, n, h)
	g.Case(tag)
	c10CheckSeq(g, l, n, h, seed, calls)
}
