package main

// C03 — Merkle inclusion and consistency proofs are complete and sound (RFC 6962 / RFC 9162).

import (
	"fmt"
	"math"

	"golang.org/x/mod/sumdb/tlog"
)

func init() {
	impls["tlog.proverecord"] = func(a []string) string {
		st, err := tlogBuild(tlogRecords(a[2]))
		if err != nil {
			return tlogErr(err)
		}
		p, err := tlog.ProveRecord(tlogI64(a[0]), tlogI64(a[1]), st)
		if err != nil {
			return tlogErr(err)
		}
		return tlogHashesHex(p)
	}
	impls["tlog.provetree"] = func(a []string) string {
		st, err := tlogBuild(tlogRecords(a[2]))
		if err != nil {
			return tlogErr(err)
		}
		p, err := tlog.ProveTree(tlogI64(a[0]), tlogI64(a[1]), st)
		if err != nil {
			return tlogErr(err)
		}
		return tlogHashesHex(p)
	}
	impls["tlog.checkrecord"] = func(a []string) string {
		return tlogErr(tlog.CheckRecord(tlogHashes(a[0]), tlogI64(a[1]), tlogHash(a[2]), tlogI64(a[3]), tlogHash(a[4])))
	}
	impls["tlog.checktree"] = func(a []string) string {
		return tlogErr(tlog.CheckTree(tlogHashes(a[0]), tlogI64(a[1]), tlogHash(a[2]), tlogI64(a[3]), tlogHash(a[4])))
	}
	// the provers over the synthetic hash reader of a log of identical records (util_c03uniform.go), t <= 2^62+1
	impls["tlog.uproverecord"] = func(a []string) string {
		p, err := tlog.ProveRecord(tlogI64(a[0]), tlogI64(a[1]), c03NewUniform(unhx(a[2])))
		if err != nil {
			return tlogErr(err)
		}
		return tlogHashesHex(p)
	}
	impls["tlog.uprovetree"] = func(a []string) string {
		p, err := tlog.ProveTree(tlogI64(a[0]), tlogI64(a[1]), c03NewUniform(unhx(a[2])))
		if err != nil {
			return tlogErr(err)
		}
		return tlogHashesHex(p)
	}
	// the independent specification (lean/ModVerif/Spec/RFC6962.lean) against this harness's own RFC code
	// (spec*) and against the real checkers' acceptance (specacc*)
	impls["tlog.specpath"] = func(a []string) string { return tlogHashesHex(rfcPath(atoi(a[0]), tlogRecords(a[1]))) }
	impls["tlog.specproof"] = func(a []string) string { return tlogHashesHex(rfcProof(atoi(a[0]), tlogRecords(a[1]))) }
	c03Tup := func(a []string) c03Tuple {
		return c03Tuple{p: tlogHashes(a[0]), t: tlogI64(a[1]), th: tlogHash(a[2]), n: tlogI64(a[3]), h: tlogHash(a[4])}
	}
	impls["tlog.specincl"] = func(a []string) string { return showBool(c03AcceptRecord(c03Tup(a))) }
	impls["tlog.speccons"] = func(a []string) string { return showBool(c03AcceptTree(c03Tup(a))) }
	impls["tlog.specaccincl"] = func(a []string) string {
		x := c03Tup(a)
		return showBool(tlog.CheckRecord(x.p, x.t, x.th, x.n, x.h) == nil)
	}
	impls["tlog.specacccons"] = func(a []string) string {
		x := c03Tup(a)
		return showBool(tlog.CheckTree(x.p, x.t, x.th, x.n, x.h) == nil)
	}
	register(&Prop{ID: "C03", Gen: genC03, Oracle: oracleC03,
		Rule: "every (t, n) with t <= 64 (thorough: t <= 160 plus sampled t <= 600): ProveRecord / ProveTree over a log of t records, and CheckRecord / CheckTree on the valid tuple and on mutations of every component (each proof hash: bit flip, swap two, reverse, drop first/last/middle, duplicate, extend, replace by the root / leaf; n±1, t±1, t<->n, roots swapped, leaf replaced; sizes 0, negative, n = t, n > t); degenerate-consistent tuples: every (t, n) in {-3..3, -2^63, -2^62, 2^63-1}^2 x proof in {empty, honest for the sizes clamped into range} x hashes in {equal, honest, different}; random proofs of length 0-70 for sizes up to 2^63-1 including 2^62±1; uniform-log class: valid tuples (RFC 6962 generator over a log of identical records) and sampled mutations for t in {2^k-1, 2^k, 2^k+1 (k = 40, 61, 62; thorough: k = 1..62), 2^63-1, 2^63-2, 3*2^60, 2^62+2^61(+1), 2^62±5, random huge} x old sizes deep left / split point / right edge / random — proofs of up to 63 / 64 hashes — and ProveRecord / ProveTree over the synthetic hash reader of that log for t <= 2^62+1; non-trivial = valid tuple or one mutation from valid; distinct by op line"})
}

type c03Tuple struct {
	p    []tlog.Hash
	t    int64
	th   tlog.Hash
	n    int64
	h    tlog.Hash
	what string
}

func (x c03Tuple) op(kind string) string {
	return fmt.Sprintf("tlog.%s %s %d %s %d %s", kind, tlogHashesHex(x.p), x.t, tlogHashHex(x.th), x.n, tlogHashHex(x.h))
}

func c03Clone(p []tlog.Hash) []tlog.Hash { return append([]tlog.Hash(nil), p...) }

// c03Mutations returns mutations of every component of a tuple (valid or not).
func c03Mutations(r *Rand, v c03Tuple, all bool) []c03Tuple {
	var out []c03Tuple
	add := func(what string, f func(x *c03Tuple)) {
		x := v
		x.p = c03Clone(v.p)
		x.what = what
		f(&x)
		out = append(out, x)
	}
	np := len(v.p)
	if np > 0 {
		idxs := []int{r.Intn(np)}
		if all {
			idxs = idxs[:0]
			for i := 0; i < np; i++ {
				idxs = append(idxs, i)
			}
		}
		for _, i := range idxs {
			i := i
			add("flip-proof-hash", func(x *c03Tuple) { x.p[i] = tlogFlip(x.p[i], r.Intn(256)) })
		}
		add("drop-first", func(x *c03Tuple) { x.p = x.p[1:] })
		add("drop-last", func(x *c03Tuple) { x.p = x.p[:np-1] })
		add("dup-one", func(x *c03Tuple) {
			i := r.Intn(np)
			x.p = append(x.p[:i+1], x.p[i:]...)
		})
		add("replace-by-root", func(x *c03Tuple) { x.p[r.Intn(np)] = x.th })
		add("replace-by-leaf", func(x *c03Tuple) { x.p[r.Intn(np)] = x.h })
	}
	if np > 1 {
		add("swap-two", func(x *c03Tuple) {
			i := r.Intn(np - 1)
			j := i + 1 + r.Intn(np-i-1)
			x.p[i], x.p[j] = x.p[j], x.p[i]
		})
		add("reverse", func(x *c03Tuple) {
			for i, j := 0, np-1; i < j; i, j = i+1, j-1 {
				x.p[i], x.p[j] = x.p[j], x.p[i]
			}
		})
	}
	if np > 2 {
		add("drop-middle", func(x *c03Tuple) {
			i := 1 + r.Intn(np-2)
			x.p = append(x.p[:i], x.p[i+1:]...)
		})
	}
	add("extend", func(x *c03Tuple) { x.p = append(x.p, c09RandHash(r)) })
	add("extend-front", func(x *c03Tuple) { x.p = append([]tlog.Hash{x.h}, x.p...) })
	add("n+1", func(x *c03Tuple) { x.n++ })
	add("n-1", func(x *c03Tuple) { x.n-- })
	add("t+1", func(x *c03Tuple) { x.t++ })
	add("t-1", func(x *c03Tuple) { x.t-- })
	add("t<->n", func(x *c03Tuple) { x.t, x.n = x.n, x.t })
	add("roots-swapped", func(x *c03Tuple) { x.th, x.h = x.h, x.th })
	add("flip-root", func(x *c03Tuple) { x.th = tlogFlip(x.th, r.Intn(256)) })
	add("flip-leaf", func(x *c03Tuple) { x.h = tlogFlip(x.h, r.Intn(256)) })
	add("n=t", func(x *c03Tuple) { x.n = x.t })
	add("n>t", func(x *c03Tuple) { x.n = x.t + 1 + int64(r.Intn(3)) })
	add("t=0", func(x *c03Tuple) { x.t = 0 })
	add("n=0", func(x *c03Tuple) { x.n = 0 })
	add("t<0", func(x *c03Tuple) { x.t = -1 - int64(r.Intn(5)) })
	add("n<0", func(x *c03Tuple) { x.n = -1 - int64(r.Intn(5)) })
	add("empty-proof", func(x *c03Tuple) { x.p = nil })
	return out
}

// c03Log caches the log (records, store) for a size.
type c03Log struct {
	seed int
	recs []string
	st   tlogStore
}

func c03NewLog(seed, t int) *c03Log {
	recs := tlogSynth(seed, t)
	st, err := tlogBuild(recs)
	if err != nil {
		panic(err)
	}
	return &c03Log{seed, recs, st}
}

func (l *c03Log) tok() string { return fmt.Sprintf("@%d:%d", l.seed, len(l.recs)) }

func (l *c03Log) recordTuple(t, n int) (c03Tuple, error) {
	p, err := tlog.ProveRecord(int64(t), int64(n), l.st)
	if err != nil {
		return c03Tuple{}, err
	}
	th, err := tlog.TreeHash(int64(t), l.st)
	if err != nil {
		return c03Tuple{}, err
	}
	return c03Tuple{p: p, t: int64(t), th: th, n: int64(n), h: tlog.RecordHash([]byte(l.recs[n])), what: "valid"}, nil
}

func (l *c03Log) treeTuple(t, n int) (c03Tuple, error) {
	p, err := tlog.ProveTree(int64(t), int64(n), l.st)
	if err != nil {
		return c03Tuple{}, err
	}
	th, err := tlog.TreeHash(int64(t), l.st)
	if err != nil {
		return c03Tuple{}, err
	}
	h, err := tlog.TreeHash(int64(n), l.st)
	if err != nil {
		return c03Tuple{}, err
	}
	return c03Tuple{p: p, t: int64(t), th: th, n: int64(n), h: h, what: "valid"}, nil
}

var c03Huge = []int64{1 << 62, 1<<62 + 1, 1<<62 - 1, 1<<63 - 1, 1<<63 - 2, 1 << 61, 1<<61 + 1, 1 << 40, 1<<40 + 12345, 3 << 60, 1<<62 + 1<<61}

func c03RandProof(r *Rand, k int) []tlog.Hash {
	p := make([]tlog.Hash, k)
	for i := range p {
		p[i] = c09RandHash(r)
	}
	return p
}

// c03HugeTuple: random proofs against huge sizes (the checkers must answer, never hang or crash).
func c03HugeTuple(r *Rand) c03Tuple {
	t := c03Huge[r.Intn(len(c03Huge))]
	if r.Chance(30) {
		t = int64(r.U64() >> uint(1+r.Intn(30)))
		if t == 0 {
			t = 1
		}
	}
	var n int64
	switch r.Intn(6) {
	case 0:
		n = 0
	case 1:
		n = t - 1
	case 2:
		n = t
	case 3:
		n = t / 2
	case 4:
		n = 1
	default:
		n = int64(r.U64()>>1) % t
	}
	k := r.Intn(8)
	if r.Chance(50) {
		k = 55 + r.Intn(16) // around the depth of such a tree
	}
	return c03Tuple{p: c03RandProof(r, k), t: t, th: c09RandHash(r), n: n, h: c09RandHash(r), what: "huge"}
}

// c03Degenerate: the class of "degenerate-consistent" tuples. Every mutation above starts from a valid
// tuple and changes ONE component, so out-of-range sizes were only ever seen next to an honest non-empty
// proof / honest (distinct) hashes of in-range sizes, and two out-of-range sizes were never equal to each
// other. Missing was the whole family where the sizes are out of range but the other components are
// consistent with each other: t == n <= 0 with an empty proof and equal hashes, t < n with the honest proof
// of the clamped sizes, … . This is a small exhaustive sweep: every (t, n) of c03DegSizes² (−3..3 and the
// int64 extremes) x proof in {empty, honest for the sizes clamped into range} x hashes in {equal (tree root,
// empty-tree hash, zero hash), honest for the clamped sizes, different}. recs must have >= 4 records.
// The honest components come from the RFC 6962 reference functions of util_tlog.go, not from the provers.
var c03DegSizes = []int64{-3, -2, -1, 0, 1, 2, 3, math.MinInt64, -1 << 62, math.MaxInt64}

func c03Clamp(v, lo, hi int64) int {
	if v < lo {
		return int(lo)
	}
	if v > hi {
		return int(hi)
	}
	return int(v)
}

func c03Degenerate(r *Rand, recs []string, tree bool) []c03Tuple {
	var out []c03Tuple
	L := int64(4)
	empty := rfcMTH(nil)
	for _, t := range c03DegSizes {
		for _, n := range c03DegSizes {
			ct := c03Clamp(t, 1, L)
			var cn int
			var honestP []tlog.Hash
			var honestH tlog.Hash
			root := rfcMTH(recs[:ct])
			if tree {
				cn = c03Clamp(n, 1, int64(ct))
				honestP = rfcProof(cn, recs[:ct])
				honestH = rfcMTH(recs[:cn])
			} else {
				cn = c03Clamp(n, 0, int64(ct)-1)
				honestP = rfcPath(cn, recs[:ct])
				honestH = rfcLeaf(recs[cn])
			}
			hashes := []struct {
				what  string
				th, h tlog.Hash
			}{
				{"eq-root", root, root},
				{"eq-empty", empty, empty},
				{"eq-zero", tlog.Hash{}, tlog.Hash{}},
				{"honest", root, honestH},
				{"diff", root, tlogFlip(honestH, r.Intn(256))},
			}
			for pi, p := range [][]tlog.Hash{nil, honestP} {
				if pi == 1 && len(p) == 0 {
					continue // the honest proof is the empty one
				}
				for _, hs := range hashes {
					what := "degenerate-oor"
					if tree && t >= 1 && n >= 1 && n <= t || !tree && t >= 0 && n >= 0 && n < t {
						what = "degenerate-inrange"
					} else if t == n {
						what = "degenerate-oor-equal-sizes"
					}
					out = append(out, c03Tuple{p: c03Clone(p), t: t, th: hs.th, n: n, h: hs.h, what: what})
				}
			}
		}
	}
	return out
}

// c03EmitCheck emits the checker op and, for a third of the cases, the same tuple to the two
// specification-side acceptors.
func c03EmitCheck(g *Gen, x c03Tuple, kind string, nt bool) {
	g.Emit(x.op(kind), nt, kind+"-"+x.what)
	if g.Chance(30) {
		if kind == "checkrecord" {
			g.Emit(x.op("specincl"), nt, "spec-rfc9162-incl")
			g.Emit(x.op("specaccincl"), nt, "spec-accept-incl")
		} else {
			g.Emit(x.op("speccons"), nt, "spec-rfc9162-cons")
			g.Emit(x.op("specacccons"), nt, "spec-accept-cons")
		}
	}
}

func genC03(g *Gen, n int) {
	maxT := 64
	if thorough {
		maxT = 160
	}
	// budget: the exhaustive part emits about pairs*(2 + 2*mut) ops; mutations are sampled to fit n
	pairs := maxT * (maxT + 1)
	perPair := n / pairs
	if perPair < 3 {
		perPair = 3
	}
	for t := 1; t <= maxT; t++ {
		l := c03NewLog(g.Intn(1000), t)
		// out-of-range requests to the provers
		for _, bad := range [][2]int64{{int64(t), int64(t)}, {int64(t), -1}, {0, 0}, {-1, 0}, {int64(t), int64(t) + 1}} {
			g.Emit(fmt.Sprintf("tlog.proverecord %d %d %s", bad[0], bad[1], l.tok()), true, "proverecord-invalid")
			g.Emit(fmt.Sprintf("tlog.provetree %d %d %s", bad[0], bad[1], l.tok()), true, "provetree-invalid")
		}
		// a store that is too short: reader error
		g.Emit(fmt.Sprintf("tlog.proverecord %d %d @1:%d", t+1, t/2, t), true, "proverecord-short-store")
		g.Emit(fmt.Sprintf("tlog.provetree %d %d @1:%d", t+3, t, t), true, "provetree-short-store")
		for k := 0; k < t; k++ {
			g.Emit(fmt.Sprintf("tlog.proverecord %d %d %s", t, k, l.tok()), true, "proverecord")
			if g.Chance(30) {
				g.Emit(fmt.Sprintf("tlog.specpath %d %s", k, l.tok()), true, "spec-path")
			}
			v, err := l.recordTuple(t, k)
			if err != nil {
				continue
			}
			c03EmitCheck(g, v, "checkrecord", true)
			muts := c03Mutations(g.Rand, v, false)
			for j := 0; j < perPair && len(muts) > 0; j++ {
				m := muts[g.Intn(len(muts))]
				c03EmitCheck(g, m, "checkrecord", true)
			}
		}
		for k := 1; k <= t; k++ {
			g.Emit(fmt.Sprintf("tlog.provetree %d %d %s", t, k, l.tok()), true, "provetree")
			if g.Chance(30) {
				g.Emit(fmt.Sprintf("tlog.specproof %d %s", k, l.tok()), true, "spec-proof")
			}
			v, err := l.treeTuple(t, k)
			if err != nil {
				continue
			}
			c03EmitCheck(g, v, "checktree", true)
			muts := c03Mutations(g.Rand, v, false)
			for j := 0; j < perPair && len(muts) > 0; j++ {
				m := muts[g.Intn(len(muts))]
				c03EmitCheck(g, m, "checktree", true)
			}
		}
	}
	// small sizes: every mutation of every proof hash
	for t := 1; t <= 12; t++ {
		l := c03NewLog(7, t)
		for k := 0; k < t; k++ {
			if v, err := l.recordTuple(t, k); err == nil {
				for _, m := range c03Mutations(g.Rand, v, true) {
					c03EmitCheck(g, m, "checkrecord", true)
				}
			}
			if v, err := l.treeTuple(t, k+1); err == nil {
				for _, m := range c03Mutations(g.Rand, v, true) {
					c03EmitCheck(g, m, "checktree", true)
				}
			}
		}
	}
	// degenerate-consistent tuples (see c03Degenerate): out-of-range sizes with self-consistent components
	{
		l := c03NewLog(g.Intn(1000), 4)
		for _, x := range c03Degenerate(g.Rand, l.recs, false) {
			c03EmitCheck(g, x, "checkrecord", true)
		}
		for _, x := range c03Degenerate(g.Rand, l.recs, true) {
			c03EmitCheck(g, x, "checktree", true)
		}
	}
	// uniform-log class (util_c03uniform.go): VALID tuples (and mutations of them) in trees of 2^40 … 2^63-1
	// records, with proofs of up to 63 (inclusion) / 64 (consistency) hashes, from the independent RFC 6962
	// generator over a log of identical records; the real provers over the synthetic hash reader of that log
	// for the sizes whose stored hash indexes fit int64
	{
		u := c03NewUniform(tlogSynthRecord(g.Intn(1000), g.Intn(50)))
		exps := []int{40, 61, 62}
		nmut := 2
		if thorough {
			exps = exps[:0]
			for k := 1; k <= 62; k++ {
				exps = append(exps, k)
			}
			nmut = 4
		}
		for _, t := range c03UniformTreeSizes(g.Rand, exps) {
			for _, m := range c03UniformOldSizes(g.Rand, t) {
				if t <= c03UniformProverMax {
					g.Emit(fmt.Sprintf("tlog.uproverecord %d %d %s", t, m-1, hx(u.rec)), true, "proverecord-uniform")
					g.Emit(fmt.Sprintf("tlog.uprovetree %d %d %s", t, m, hx(u.rec)), true, "provetree-uniform")
				}
				v := u.recordTuple(t, m-1)
				c03EmitCheck(g, v, "checkrecord", true)
				w := u.treeTuple(t, m)
				c03EmitCheck(g, w, "checktree", true)
				for _, x := range []struct {
					kind string
					v    c03Tuple
				}{{"checkrecord", v}, {"checktree", w}} {
					muts := c03Mutations(g.Rand, x.v, false)
					for j := 0; j < nmut; j++ {
						mu := muts[g.Intn(len(muts))]
						mu.what = "uniform-" + mu.what
						c03EmitCheck(g, mu, x.kind, true)
					}
				}
			}
		}
	}
	// larger sampled sizes
	big := 40
	if thorough {
		big = 600
	}
	for i := 0; i < big; i++ {
		t := maxT + 1 + g.Intn(3*maxT)
		if thorough {
			t = maxT + 1 + g.Intn(600-maxT)
		}
		l := c03NewLog(g.Intn(1000), t)
		for j := 0; j < 6; j++ {
			k := g.Intn(t)
			g.Emit(fmt.Sprintf("tlog.proverecord %d %d %s", t, k, l.tok()), true, "proverecord-big")
			if v, err := l.recordTuple(t, k); err == nil {
				c03EmitCheck(g, v, "checkrecord", true)
				for _, m := range c03Mutations(g.Rand, v, false) {
					if g.Chance(25) {
						c03EmitCheck(g, m, "checkrecord", true)
					}
				}
			}
			g.Emit(fmt.Sprintf("tlog.provetree %d %d %s", t, k+1, l.tok()), true, "provetree-big")
			if v, err := l.treeTuple(t, k+1); err == nil {
				c03EmitCheck(g, v, "checktree", true)
				for _, m := range c03Mutations(g.Rand, v, false) {
					if g.Chance(25) {
						c03EmitCheck(g, m, "checktree", true)
					}
				}
			}
		}
	}
	// huge sizes
	hn := 600
	if thorough {
		hn = 20000
	}
	for i := 0; i < hn; i++ {
		v := c03HugeTuple(g.Rand)
		c03EmitCheck(g, v, "checkrecord", false)
		c03EmitCheck(g, v, "checktree", false)
	}
	// provers refuse out-of-range huge arguments without reading
	for _, t := range c03Huge {
		g.Emit(fmt.Sprintf("tlog.proverecord %d %d @1:3", t, t), true, "proverecord-invalid")
		g.Emit(fmt.Sprintf("tlog.provetree %d %d @1:3", t, t+1), true, "provetree-invalid")
		g.Emit(fmt.Sprintf("tlog.proverecord %d %d @1:3", t, t-1), false, "proverecord-huge-short-store")
		g.Emit(fmt.Sprintf("tlog.provetree %d %d @1:3", t, t-1), false, "provetree-huge-short-store")
	}
}

// c03Accept: what the RFC verification algorithms say about a tuple (independent of package tlog).
func c03AcceptRecord(x c03Tuple) bool {
	if x.t < 0 || x.n < 0 || x.n >= x.t {
		return false
	}
	return rfc9162Inclusion(x.p, uint64(x.t), uint64(x.n), x.h, x.th)
}

func c03AcceptTree(x c03Tuple) bool {
	if x.t < 1 || x.n < 1 || x.n > x.t {
		return false
	}
	if x.n == x.t {
		// RFC 6962 §2.1.2: PROOF(m, D[m]) is empty; the two tree heads are the same tree
		return len(x.p) == 0 && x.th == x.h
	}
	return rfc9162Consistency(x.p, uint64(x.n), uint64(x.t), x.h, x.th)
}

func c03Call(f func() error) (res string) {
	defer func() {
		if r := recover(); r != nil {
			res = "panic"
		}
	}()
	return tlogErr(f())
}

func oracleC03(g *Gen, n int) {
	maxT := 64
	if thorough {
		maxT = 200
	}
	checkRecord := func(x c03Tuple, expectValid bool) {
		g.Case("checkrecord-" + x.what)
		got := c03Call(func() error { return tlog.CheckRecord(x.p, x.t, x.th, x.n, x.h) })
		want := c03AcceptRecord(x)
		if got == "panic" || got == "err:unknown" {
			g.Fail("CheckRecord crashed instead of returning an error", x.what+" "+got, x.op("checkrecord"))
		} else if (got == "ok") != want {
			g.Fail("CheckRecord disagrees with the RFC 9162 inclusion verification algorithm", fmt.Sprintf("%s: CheckRecord=%s rfc=%v", x.what, got, want), x.op("checkrecord"))
		}
		if expectValid && got != "ok" {
			g.Fail("the proof produced by ProveRecord is rejected by CheckRecord", got, x.op("checkrecord"))
		}
		if (x.t < 0 || x.n < 0 || x.n >= x.t) && got != "err:invalid" {
			g.Fail("out-of-range sizes are not refused with an error by CheckRecord", got, x.op("checkrecord"))
		}
	}
	checkTree := func(x c03Tuple, expectValid bool) {
		g.Case("checktree-" + x.what)
		got := c03Call(func() error { return tlog.CheckTree(x.p, x.t, x.th, x.n, x.h) })
		want := c03AcceptTree(x)
		if got == "panic" || got == "err:unknown" {
			g.Fail("CheckTree crashed instead of returning an error", x.what+" "+got, x.op("checktree"))
		} else if (got == "ok") != want {
			g.Fail("CheckTree disagrees with the RFC 9162 consistency verification algorithm", fmt.Sprintf("%s: CheckTree=%s rfc=%v", x.what, got, want), x.op("checktree"))
		}
		if expectValid && got != "ok" {
			g.Fail("the proof produced by ProveTree is rejected by CheckTree", got, x.op("checktree"))
		}
		if (x.t < 1 || x.n < 1 || x.n > x.t) && got != "err:invalid" {
			g.Fail("out-of-range sizes are not refused with an error by CheckTree", got, x.op("checktree"))
		}
	}
	cases := 0
	// degenerate-consistent tuples (see c03Degenerate): exhaustive on the small scope, once per run and
	// again for about one log in sixteen below
	degenerate := func() {
		recs := c09Records(g.Rand, 4)
		for _, x := range c03Degenerate(g.Rand, recs, false) {
			checkRecord(x, false)
			cases++
		}
		for _, x := range c03Degenerate(g.Rand, recs, true) {
			checkTree(x, false)
			cases++
		}
	}
	degenerate()
	// uniform-log class (util_c03uniform.go): the same statements as below — prover = RFC 6962 proof, the
	// prover's proof is accepted, checker = RFC 9162 verifier on the valid tuple and on its mutations — in
	// trees of up to 2^63-1 identical records: every size 2^k-1, 2^k, 2^k+1, the int64 extremes and random
	// huge sizes x old sizes deep on the left / at the split / at the right edge / random. The provers run
	// over the synthetic hash reader (sizes <= 2^62+1); beyond that the honest tuple comes from the
	// independent RFC 6962 generator alone.
	uniform := func(exps []int) {
		u := c03NewUniform(c09Records(g.Rand, 1)[0])
		rtok := hx(u.rec)
		for _, t := range c03UniformTreeSizes(g.Rand, exps) {
			for _, m := range c03UniformOldSizes(g.Rand, t) {
				t, m, k := t, m, m-1
				provers := t <= c03UniformProverMax
				v := u.recordTuple(t, k)
				w := u.treeTuple(t, m)
				if !c03AcceptRecord(v) || !c03AcceptTree(w) {
					// independent of the implementation: generator and verifier of this harness disagree
					g.Fail("harness self-check: the RFC 6962 proof of the uniform log is refused by the RFC 9162 verifier", fmt.Sprintf("t=%d n=%d", t, m))
					continue
				}
				okRec, okTree := true, true
				if provers {
					var p, q []tlog.Hash
					g.Case("proverecord-uniform")
					cases++
					if r := c03Call(func() (err error) { p, err = tlog.ProveRecord(t, k, u); return }); r != "ok" || !tlogEqHashes(p, v.p) {
						g.Fail("ProveRecord is not the RFC 6962 audit path", fmt.Sprintf("uniform log: t=%d n=%d result=%s len=%d want len=%d", t, k, r, len(p), len(v.p)), fmt.Sprintf("tlog.uproverecord %d %d %s", t, k, rtok))
						okRec = false
					} else {
						v.p = p
					}
					g.Case("provetree-uniform")
					cases++
					if r := c03Call(func() (err error) { q, err = tlog.ProveTree(t, m, u); return }); r != "ok" || !tlogEqHashes(q, w.p) {
						g.Fail("ProveTree is not the RFC 6962 consistency proof", fmt.Sprintf("uniform log: t=%d n=%d result=%s len=%d want len=%d", t, m, r, len(q), len(w.p)), fmt.Sprintf("tlog.uprovetree %d %d %s", t, m, rtok))
						okTree = false
					} else {
						w.p = q
					}
				}
				if okRec {
					checkRecord(v, provers)
					cases++
				}
				if okTree {
					checkTree(w, provers)
					cases++
				}
				// mutations: always for the longest proofs, else for a quarter of the pairs
				if len(w.p) >= 62 || g.Chance(25) {
					for _, mu := range c03Mutations(g.Rand, v, false) {
						mu.what = "uniform-" + mu.what
						checkRecord(mu, false)
						cases++
					}
					for _, mu := range c03Mutations(g.Rand, w, false) {
						mu.what = "uniform-" + mu.what
						checkTree(mu, false)
						cases++
					}
				}
			}
		}
	}
	{
		exps := []int{1, 2, 3, 5, 8, 13, 21, 31, 32, 33, 40, 47, 55, 60, 61, 62}
		if thorough {
			exps = exps[:0]
			for k := 1; k <= 62; k++ {
				exps = append(exps, k)
			}
		}
		uniform(exps)
	}
	// the random stream keeps a share of its own however large the fixed sweeps above have grown
	if n < cases+n/3 {
		n = cases + n/3
	}
	for cases < n {
		if g.Chance(6) {
			degenerate()
		}
		t := 1 + g.Intn(maxT)
		if g.Chance(10) {
			t = 1 + g.Intn(4*maxT)
		}
		recs := c09Records(g.Rand, t)
		st, err := tlogBuild(recs)
		if err != nil {
			g.Fail("StoredHashes failed on a dense store", err.Error())
			continue
		}
		tok := hxList(recs)
		root := rfcMTH(recs)
		ks := []int{}
		if t <= 24 {
			for k := 0; k < t; k++ {
				ks = append(ks, k)
			}
		} else {
			ks = []int{0, t - 1, t / 2, g.Intn(t), g.Intn(t), g.Intn(t)}
		}
		for _, k := range ks {
			// inclusion
			p, err := tlog.ProveRecord(int64(t), int64(k), st)
			g.Case("proverecord")
			cases++
			if err != nil || !tlogEqHashes(p, rfcPath(k, recs)) {
				g.Fail("ProveRecord is not the RFC 6962 audit path", fmt.Sprintf("t=%d n=%d err=%v", t, k, err), fmt.Sprintf("tlog.proverecord %d %d %s", t, k, tok))
				continue
			}
			v := c03Tuple{p: p, t: int64(t), th: root, n: int64(k), h: rfcLeaf(recs[k]), what: "valid"}
			checkRecord(v, true)
			for _, m := range c03Mutations(g.Rand, v, t <= 16) {
				checkRecord(m, false)
				cases++
			}
			// consistency: tree k+1 is a prefix of tree t
			m := k + 1
			q, err := tlog.ProveTree(int64(t), int64(m), st)
			g.Case("provetree")
			cases++
			if err != nil || !tlogEqHashes(q, rfcProof(m, recs)) {
				g.Fail("ProveTree is not the RFC 6962 consistency proof", fmt.Sprintf("t=%d n=%d err=%v", t, m, err), fmt.Sprintf("tlog.provetree %d %d %s", t, m, tok))
				continue
			}
			w := c03Tuple{p: q, t: int64(t), th: root, n: int64(m), h: rfcMTH(recs[:m]), what: "valid"}
			checkTree(w, true)
			for _, mu := range c03Mutations(g.Rand, w, t <= 16) {
				checkTree(mu, false)
				cases++
			}
		}
		// out-of-range requests to the provers: error, not a crash
		for _, bad := range [][2]int64{{int64(t), int64(t)}, {int64(t), -1}, {-1, 0}, {0, 0}, {1<<62 + 1, 1<<62 + 1}, {1<<63 - 1, -5}} {
			g.Case("prove-invalid")
			if r := c03Call(func() error { _, err := tlog.ProveRecord(bad[0], bad[1], st); return err }); r != "err:invalid" {
				g.Fail("ProveRecord does not refuse out-of-range arguments with an error", r, fmt.Sprintf("tlog.proverecord %d %d %s", bad[0], bad[1], tok))
			}
		}
		for _, bad := range [][2]int64{{int64(t), int64(t) + 1}, {int64(t), 0}, {0, 0}, {-1, -1}, {1<<62 + 1, 1<<62 + 2}, {5, -5}} {
			g.Case("prove-invalid")
			if r := c03Call(func() error { _, err := tlog.ProveTree(bad[0], bad[1], st); return err }); r != "err:invalid" {
				g.Fail("ProveTree does not refuse out-of-range arguments with an error", r, fmt.Sprintf("tlog.provetree %d %d %s", bad[0], bad[1], tok))
			}
		}
		// huge sizes with arbitrary proofs: the checkers answer (runImpl-style timeout is not available
		// here, so a hang would stall the run and be caught by the harness timeout) and agree with the RFC
		for j := 0; j < 20; j++ {
			x := c03HugeTuple(g.Rand)
			checkRecord(x, false)
			checkTree(x, false)
			cases += 2
		}
	}
}
