package main

// C07, input class "valid but NON-CANONICAL base64 spelling of signature lines" (added for r7-C07-a).
//
// Open decodes the base64 field of a signature line with base64.StdEncoding, which is not strict: when hash ‖ sig
// is not a multiple of three bytes long, the last digit before the padding carries 2 (one '=') or 4 (two '=')
// unused bits, and the decoder accepts any value there. So 4 (or 16) spellings of the field decode to the same
// bytes; one of them is what EncodeToString produces. A message with another spelling is a well-formed signed
// note: the signature verifies, Open returns the note and reports the field as it is spelled in the message
// (Signature.Base64; the message is n.Text + "\n" + the signature lines). The documented flow
// Open -> Sign(returned note, more signers) -> Open must therefore work on it: Sign emits the existing
// signatures it does not replace, as they are, before the new ones.
//
// Missing was every such spelling on the Sign side of a history: every signature line the generator and the
// oracle built came from EncodeToString (c07SigLine, Sign itself), the stub signatures are 5 bytes (hash ‖ sig =
// 9 bytes: no padding, one spelling only), and the byte mutations that happen to hit the last digit of a padded
// field were only ever OPENED, never fed back into Sign; the existing signatures of the note.sign ops were
// canonical, invalid, or arbitrary one-byte mutations (which is how the correspondence noticed, on a handful of
// ops, without the oracle having a case for it).
//
// The class:
//   - oracle (c07ReSign with spell = true, c07_oracle.go): the Open -> Sign -> Open histories with real Ed25519
//     keys (68 bytes: one '=', 4 spellings, the signature still verifies) and with stub keys whose hash ‖ sig is 7,
//     10 or 11 bytes (accept-all verifiers with a constant 3-byte signer; corrupted variants of 6 and 7 bytes); each
//     line respelled on its own, so also the genuine signature of a known key, lines of unknown keys, and only one
//     of two otherwise identical lines. Expected outcome from the property text (c07ExpectBlock, with the field as
//     spelled in the message).
//   - correspondence (c07GenSpell): note.open of hand-built blocks with such spellings, note.sign of the note Open
//     returned (or of the note carried by UnverifiedNoteError) with zero, old or new signers, note.open of the result;
//     note.sign with hand-made existing signatures in every spelling, hash matching or not.
//
// Both parts draw from a PRNG forked from the run's state (c07Fork): the rest of the C07 stream is unchanged.

import (
	"encoding/base64"
	"encoding/binary"
	"errors"
	"strconv"
	"strings"

	"golang.org/x/mod/sumdb/note"
)

const c07B64Digits = "ABCDEFGHIJKLMNOPQRSTUVWXYZabcdefghijklmnopqrstuvwxyz0123456789+/"

// c07Spellings returns every spelling of a canonical padded base64 string that differs from it only in the unused
// bits of the last digit (the canonical one first); just the string itself when there is no padding.
func c07Spellings(b64 string) []string {
	pad := len(b64) - len(strings.TrimRight(b64, "="))
	if pad < 1 || pad > 2 || len(b64)%4 != 0 || len(b64) < 4 {
		return []string{b64}
	}
	at := len(b64) - pad - 1
	d := strings.IndexByte(c07B64Digits, b64[at])
	free := 1 << uint(2*pad) // 4 or 16
	if d < 0 || d%free != 0 {
		return []string{b64}
	}
	out := make([]string, 0, free)
	for v := 0; v < free; v++ {
		out = append(out, b64[:at]+string(c07B64Digits[d+v])+b64[at+1:])
	}
	return out
}

// c07Respell returns a non-canonical spelling of a canonical base64 string, or the string itself if it has only one.
func c07Respell(r *Rand, b64 string) string {
	sp := c07Spellings(b64)
	if len(sp) == 1 {
		return b64
	}
	return sp[1+r.Intn(len(sp)-1)]
}

// c07GenSpell emits about cnt histories of correspondence ops on non-canonical spellings.
func c07GenSpell(g *Gen, r *Rand, cnt int) {
	for it := 0; it < cnt; it++ {
		text := c07GoodText(r)
		if r.Chance(10) {
			text = c07Text(r)
		}
		u := c07ValidUniverse(r)
		field := func(k c07Key) string {
			var sig []byte
			switch r.Intn(6) {
			case 0:
				sig = c07StubSig(k.name, []byte(text)) // 9 bytes: one spelling
			case 1:
				sig = []byte{1, 2, 3} // what signer behaviour k makes
			case 2:
				sig = append(c07StubSig(k.name, []byte(text)), r.Bytes(1+r.Intn(2), "\x00\x01ab\xff")...)
			default:
				sig = []byte(r.Bytes(1+r.Intn(8), "\x00\x01\x02\x03ab\xfe\xff"))
			}
			var h [4]byte
			binary.BigEndian.PutUint32(h[:], k.hash)
			b64 := base64.StdEncoding.EncodeToString(append(h[:], sig...))
			if r.Chance(75) {
				b64 = c07Respell(r, b64)
			}
			return b64
		}
		pickKey := func() c07Key {
			if r.Chance(10) {
				return c07Key{r.Pick(c07Names), c07PickHash(r)}
			}
			return u[r.Intn(len(u))]
		}
		if r.Chance(15) {
			// Sign alone: hand-made existing signatures in any spelling; the hash of the entry matches the field or not
			var ex [2][]string
			for i := 1 + r.Intn(3); i > 0; i-- {
				k := pickKey()
				f := field(k)
				if r.Chance(15) {
					k.hash ^= 1 << uint(r.Intn(32))
				}
				j := r.Intn(2)
				ex[j] = append(ex[j], hx(k.name)+"."+strconv.FormatUint(uint64(k.hash), 10)+"."+hx(f))
			}
			var ss []string
			for i := r.Intn(3); i > 0; i-- {
				ss = append(ss, c07KeySpec(pickKey(), r.Pick([]string{"f", "f", "k", "z"})))
			}
			g.Emit("note.sign "+hx(text)+" "+c07Join(ex[0])+" "+c07Join(ex[1])+" "+c07Join(ss), true, "sign", "sign-spell")
			continue
		}
		// the block: 1-4 lines; the same bytes in two spellings, identical repeats
		type ln struct {
			k   c07Key
			b64 string
		}
		var lines []ln
		for i := 1 + r.Intn(4); i > 0; i-- {
			k := pickKey()
			l := ln{k, field(k)}
			if len(lines) > 0 && r.Chance(20) {
				l = lines[r.Intn(len(lines))]
				if r.Chance(60) {
					if raw, err := base64.StdEncoding.DecodeString(l.b64); err == nil {
						sp := c07Spellings(base64.StdEncoding.EncodeToString(raw))
						l.b64 = sp[r.Intn(len(sp))]
					}
				}
			}
			lines = append(lines, l)
		}
		var b strings.Builder
		b.WriteString(text + "\n")
		for _, l := range lines {
			b.WriteString("— " + l.k.name + " " + l.b64 + "\n")
		}
		msg := b.String()
		// known: mostly accepting verifiers of the lines' keys (so that the respelled lines are verified ones)
		known := func() string {
			var specs []string
			used := map[c07Key]bool{}
			for _, l := range lines {
				if !used[l.k] && r.Chance(55) {
					used[l.k] = true
					specs = append(specs, c07KeySpec(l.k, r.Pick([]string{"a", "a", "a", "a", "f", "r"})))
				}
			}
			if r.Chance(20) {
				if k := pickKey(); !used[k] {
					specs = append(specs, c07KeySpec(k, "f"))
				}
			}
			return c07Join(specs)
		}
		spec := known()
		g.Emit("note.open "+hx(msg)+" L "+spec, true, "open", "open-spell")
		nt, err := note.Open([]byte(msg), note.VerifierList(c07ParseVerifiers(spec, nil)...))
		var ue *note.UnverifiedNoteError
		if err != nil && errors.As(err, &ue) {
			nt = ue.Note
		} else if err != nil {
			continue
		}
		var ss []string
		for i := r.Intn(3); i > 0; i-- {
			ss = append(ss, c07KeySpec(pickKey(), r.Pick([]string{"f", "f", "f", "k"})))
		}
		signers := c07Join(ss)
		g.Emit("note.sign "+hx(nt.Text)+" "+c07ShowSigs(nt.Sigs)+" "+c07ShowSigs(nt.UnverifiedSigs)+" "+signers, true, "sign", "sign-spell", "sign-opened-spell")
		msg2, err := note.Sign(nt, c07ParseSigners(signers)...)
		if err != nil {
			continue
		}
		if r.Chance(50) {
			spec = known()
		}
		g.Emit("note.open "+hx(string(msg2))+" L "+spec, true, "open", "open-spell", "open-resigned-spell")
	}
}
